#!/usr/bin/env python3
"""Regenerates MANIFEST.json from harness/*/meta.json (claimed checks) and the
not_applicable table below.  Run after adding a check."""
import glob, json, os
V = os.path.dirname(os.path.abspath(__file__))
props = [json.loads(l) for l in open(os.path.join(V, "properties.jsonl"))]
checks, na = [], []
for p in props:
    pid = p["id"]
    mp = os.path.join(V, "harness", pid.lower(), "meta.json")
    claimed = set(open(os.path.join(V, "claimed.txt")).read().split())
    if os.path.exists(mp) and pid in claimed:
        m = json.load(open(mp))
        checks.append({
            "property_id": pid,
            "quick_cmd": "python3 check.py %s quick" % pid,
            "thorough_cmd": "python3 check.py %s thorough" % pid,
            "evidence_file": "evidence/%s.json" % pid,
            "replay_cmd_template": "python3 check.py --replay {path}",
            "engine": "rapid-harness",
            "level_claimed": {"category": m["level"], "text": m["level_text"], "design_ref": "DESIGN.md section 3, " + pid},
            "level_note": m["level_note"],
            "technique": m["technique"],
        })
    else:
        na.append({"property_id": pid, "reason": "check not built yet in this session (planned in DESIGN.md section 3); not claimed until its oracle runs green on the unchanged tree"})
man = {
    "version": 1,
    "setup_cmd": "python3 check.py --setup",
    "hooks": {
        "guard": "verif",
        "enable": "no hooks: the harness module (module path under github.com/luthersystems/elps/) imports /repo through a replace directive, including internal/ packages; nothing in /repo is built with a tag",
        "baseline_off_cmd": "cd /repo && go test -vet=off -count=1 -timeout 25m ./...",
        "source_commits": [],
        "add_only": True,
    },
    "engines": [{
        "name": "rapid-harness", "path": "harness/",
        "serves_properties": [c["property_id"] for c in checks],
        "kind_free_text": "Go module of property-based tests: pgregory.net/rapid v1.3.0 generators and state machines, exhaustive enumerators for finite sub-spaces, native go fuzz targets (thorough tier), explicit oracles (reference models, round trips, differential twins, metamorphic relations); sharded over 16 processes by check.py",
    }],
    "checks": checks,
    "not_applicable": na,
    "notes": "All checks: python3 check.py <ID> <quick|thorough>; exit 0 held / 1 VIOLATION / 2 inconclusive. Known findings live in known_findings.json; committed regression replays in regress/<ID>/.",
}
json.dump(man, open(os.path.join(V, "MANIFEST.json"), "w"), indent=1)
print("claimed:", [c["property_id"] for c in checks])
