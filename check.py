#!/usr/bin/env python3
"""Driver for the elps property checks (python3 stdlib only).

  check.py <ID> <quick|thorough>     run one property's check
  check.py --replay <path>           re-run one saved minimal case
  check.py --setup                   pre-build every test binary
  check.py --all <tier>              run every claimed check (convenience)

Exit codes: 0 held / 1 violation (VIOLATION lines) / 2 inconclusive.
Every run is a pure function of (/repo working tree, VERIF_SEED, tier), apart
from the time-boxed native fuzz legs of the thorough tier.
"""
import glob
import resource
import hashlib
import json
import os
import shutil
import subprocess
import sys
import tempfile
import time

VERIF = os.path.dirname(os.path.abspath(__file__))
# VERIF_HARNESS / VERIF_WORK redirect the harness copy and all outputs: used only
# for sensitivity (mutation) runs against a scratch copy of the repository.
HARNESS = os.environ.get("VERIF_HARNESS") or os.path.join(VERIF, "harness")
WORK = os.environ.get("VERIF_WORK") or VERIF
BUILD = os.path.join(WORK, ".build")
EVIDENCE = os.path.join(WORK, "evidence")
REPLAYS = os.path.join(WORK, "replays")
REGRESS = os.path.join(VERIF, "regress")
KNOWN = os.path.join(VERIF, "known_findings.json")
NCPU = os.cpu_count() or 4


def goenv():
    env = dict(os.environ)
    env["GOFLAGS"] = "-mod=mod"
    env["GOPROXY"] = "off"
    env.pop("GOSUMDB", None)
    env["GOTOOLCHAIN"] = "auto"
    env.setdefault("HOME", "/root")
    return env


def load_meta(pid):
    p = os.path.join(HARNESS, pid.lower(), "meta.json")
    with open(p) as f:
        return json.load(f)


def load_known():
    if not os.path.exists(KNOWN):
        return []
    with open(KNOWN) as f:
        return json.load(f).get("findings", [])


def sync_gosum():
    # the harness module resolves the repo's dependencies; keep go.sum a superset
    src = os.path.join(os.environ.get("VERIF_REPO", "/repo"), "go.sum")
    dst = os.path.join(HARNESS, "go.sum")
    try:
        have = set(open(dst).read().splitlines()) if os.path.exists(dst) else set()
        want = set(open(src).read().splitlines())
        if not want <= have:
            with open(dst, "w") as f:
                f.write("\n".join(sorted(have | want)) + "\n")
    except OSError:
        pass


def build(pid, race=False, tags=None):
    os.makedirs(BUILD, exist_ok=True)
    sync_gosum()
    name = pid.lower() + (".race" if race else "") + (("." + tags) if tags else "") + ".test"
    out = os.path.join(BUILD, name)
    cmd = ["go", "test", "-c", "-vet=off", "-o", out]
    if race:
        cmd.append("-race")
    if tags:
        cmd += ["-tags", tags]
    cmd.append("./" + pid.lower() + "/")
    t0 = time.time()
    r = subprocess.run(cmd, cwd=HARNESS, env=goenv(), stdout=subprocess.PIPE, stderr=subprocess.STDOUT, text=True)
    if r.returncode != 0:
        print(r.stdout)
        print("BUILD-FAILED %s (%.1fs): inconclusive" % (pid, time.time() - t0))
        return None
    return out


def seed():
    try:
        return int(os.environ.get("VERIF_SEED", "1"))
    except ValueError:
        return 1


def run_shards(binary, pid, tier, nshards, timeout, extra_env=None, subs=None, run_re="^TestCheck$", workdir=None):
    tmp = tempfile.mkdtemp(prefix="verif-%s-" % pid.lower(), dir=BUILD)
    procs = []
    for k in range(nshards):
        env = goenv()
        env.update({
            "VERIF_TIER": tier, "VERIF_SEED": str(seed()), "VERIF_SHARD": str(k),
            "VERIF_NSHARDS": str(nshards), "VERIF_OUT": os.path.join(tmp, "shard%d.json" % k),
            "VERIF_KNOWN": KNOWN, "VERIF_SCRATCH": os.path.join(tmp, "scratch%d" % k),
        })
        os.makedirs(env["VERIF_SCRATCH"], exist_ok=True)
        if subs:
            env["VERIF_SUBS"] = subs
        if extra_env:
            env.update(extra_env)
        log = open(os.path.join(tmp, "shard%d.log" % k), "w")
        limit = None
        if not (extra_env or {}).get("VERIF_RACE"):
            # a runaway case must kill its own shard (inconclusive), not the machine;
            # race binaries reserve terabytes of address space and are left alone
            def limit():
                gb = 12 * 1024 * 1024 * 1024
                resource.setrlimit(resource.RLIMIT_AS, (gb, gb))
        p = subprocess.Popen([binary, "-test.run", run_re, "-test.timeout", "0", "-test.v"],
                             cwd=workdir or env["VERIF_SCRATCH"], env=env, stdout=log, stderr=subprocess.STDOUT,
                             preexec_fn=limit)
        procs.append((k, p, log))
    deadline = time.time() + timeout
    results = []
    timed_out = []
    for k, p, log in procs:
        left = deadline - time.time()
        try:
            rc = p.wait(timeout=max(left, 0.1))
        except subprocess.TimeoutExpired:
            p.kill()
            p.wait()
            rc = None
            timed_out.append(k)
        log.close()
        results.append((k, rc))
    shards = []
    problems = []
    for k, rc in results:
        sp = os.path.join(tmp, "shard%d.json" % k)
        logp = os.path.join(tmp, "shard%d.log" % k)
        data = None
        if os.path.exists(sp):
            try:
                data = json.load(open(sp))
            except ValueError:
                data = None
        logtxt = open(logp, errors="replace").read()
        if rc is None:
            problems.append(("timeout", k, logtxt[-2000:]))
        elif data is None:
            problems.append(("died", k, logtxt[-6000:]))
        elif rc != 0 and not data.get("violations"):
            problems.append(("failed-without-violation", k, logtxt[-6000:]))
        if data is not None:
            data["_log"] = logtxt
            shards.append(data)
    return shards, problems, tmp


def write_replay(pid, v):
    d = os.path.join(REPLAYS, pid)
    os.makedirs(d, exist_ok=True)
    body = json.dumps({"property": pid, "sub": v["sub"], "key": v["key"], "msg": v["msg"], "case": v["case"]},
                      indent=1, sort_keys=True)
    h = hashlib.sha1(body.encode()).hexdigest()[:12]
    p = os.path.join(d, "%s-%s.json" % (v["sub"], h))
    with open(p, "w") as f:
        f.write(body + "\n")
    return p


def run_replay_file(binary, path, timeout=120, env_extra=None):
    env = goenv()
    env["VERIF_REPLAY_FILE"] = os.path.abspath(path)
    env["VERIF_KNOWN"] = ""
    if env_extra:
        env.update(env_extra)
    scratch = tempfile.mkdtemp(prefix="verif-replay-", dir=BUILD)
    env["VERIF_SCRATCH"] = scratch
    try:
        r = subprocess.run([binary, "-test.run", "^TestCheck$", "-test.timeout", "0"], cwd=scratch, env=env,
                           stdout=subprocess.PIPE, stderr=subprocess.STDOUT, text=True, timeout=timeout)
        out = r.stdout
        if "REPLAY-PASS" in out and r.returncode == 0:
            return "pass", out
        if "REPLAY-FAIL" in out:
            return "fail", out
        return "error", out
    except subprocess.TimeoutExpired:
        return "timeout", ""
    finally:
        shutil.rmtree(scratch, ignore_errors=True)


def merge(pid, tier, meta, shards, wall, extra_cov=None, violations=0):
    evals = sum(s["evaluations"] for s in shards)
    hashes = set()
    capped = False
    classes = {}
    subev = {}
    samples = []
    known_hits = {}
    exhaustive = {}
    extra = {}
    for s in shards:
        hashes.update(s.get("hashes") or [])
        capped = capped or s.get("hash_capped", False)
        for k, v in (s.get("classes") or {}).items():
            classes[k] = classes.get(k, 0) + v
        for k, v in (s.get("sub_evaluations") or {}).items():
            subev[k] = subev.get(k, 0) + v
        for k, v in (s.get("known_hits") or {}).items():
            known_hits[k] = known_hits.get(k, 0) + v
        for k, v in (s.get("exhaustive") or {}).items():
            exhaustive[k] = exhaustive.get(k, True) and v
        for k, v in (s.get("extra") or {}).items():
            if isinstance(v, (int, float)) and not isinstance(v, bool):
                extra[k] = extra.get(k, 0) + v
            else:
                extra.setdefault(k, v)
    # samples: spread over sub-properties, at most 8
    per_sub = {}
    for s in shards:
        for smp in (s.get("samples") or []):
            per_sub.setdefault(smp.get("sub", "?"), []).append(smp)
    while len(samples) < 8 and any(per_sub.values()):
        for k in sorted(per_sub):
            if per_sub[k] and len(samples) < 8:
                samples.append(per_sub[k].pop(0))
    nontriv_total = sum(s.get("nontrivial_total", 0) for s in shards)
    rule = meta["rule"]
    if capped:
        rule += " (distinct count is a lower bound: per-shard hash tracking capped)"
    cov = {
        "evaluations": evals,
        "distinct_nontrivial": len(hashes),
        "nontrivial_total_with_duplicates": nontriv_total,
        "rule": rule,
        "samples": samples,
        "classes": dict(sorted(classes.items())),
        "sub_evaluations": subev,
        "known_finding_hits": known_hits,
        "exhaustive_subspaces": sorted(k for k, v in exhaustive.items() if v),
        "shards": len(shards),
    }
    if extra:
        cov["extra"] = extra
    if extra_cov:
        cov.update(extra_cov)
    ev = {
        "property_id": pid, "tier": tier, "seed": seed(), "level": meta["level"],
        "coverage": cov, "assumptions": meta.get("assumptions", []),
        "wall_s": round(wall, 2), "violations": violations,
    }
    os.makedirs(EVIDENCE, exist_ok=True)
    with open(os.path.join(EVIDENCE, pid + ".json"), "w") as f:
        json.dump(ev, f, indent=1, sort_keys=True)
        f.write("\n")
    return ev


def run_fuzz_legs(pid, meta, binary_dir_pkg, seconds_scale=1.0):
    """Native go fuzzing, thorough tier only.  Returns (violation_paths, info, inconclusive)."""
    legs = meta.get("fuzz") or []
    info = []
    vio = []
    for leg in legs:
        target = leg["target"]
        secs = int(leg.get("seconds", 60) * seconds_scale)
        pkgdir = os.path.join(HARNESS, pid.lower())
        fdir = os.path.join(pkgdir, "testdata", "fuzz", target)
        before = set(os.listdir(fdir)) if os.path.isdir(fdir) else set()
        env = goenv()
        env["VERIF_REPLAY_DIR"] = os.path.join(REPLAYS, pid)
        env["VERIF_KNOWN"] = KNOWN
        os.makedirs(env["VERIF_REPLAY_DIR"], exist_ok=True)
        cachedir = os.path.join(BUILD, "fuzzcache-" + pid.lower() + "-" + target)
        cmd = ["go", "test", "-vet=off", "-run", "^$", "-fuzz", "^" + target + "$", "-fuzztime", "%ds" % secs,
               "./" + pid.lower() + "/", "-test.fuzzcachedir", cachedir]
        t0 = time.time()
        try:
            r = subprocess.run(cmd, cwd=HARNESS, env=env, stdout=subprocess.PIPE, stderr=subprocess.STDOUT, text=True,
                               timeout=secs + 600)
            out = r.stdout
            rc = r.returncode
        except subprocess.TimeoutExpired:
            out, rc = "timeout", None
        execs = 0
        for line in out.splitlines():
            if "execs:" in line:
                try:
                    execs = max(execs, int(line.split("execs:")[1].split()[0]))
                except (ValueError, IndexError):
                    pass
        after = set(os.listdir(fdir)) if os.path.isdir(fdir) else set()
        new = sorted(after - before)
        info.append({"target": target, "seconds": round(time.time() - t0, 1), "execs": execs, "new_crashers": len(new)})
        if rc not in (0, None) and new:
            for n in new:
                src = os.path.join(fdir, n)
                dst_dir = os.path.join(REPLAYS, pid)
                os.makedirs(dst_dir, exist_ok=True)
                dst = os.path.join(dst_dir, "fuzz-%s-%s" % (target, n))
                shutil.move(src, dst)
                vio.append(dst)
        elif rc != 0:
            info[-1]["note"] = "fuzz leg failed without a new crasher: " + out[-1500:]
            info[-1]["inconclusive"] = True
    return vio, info


def check(pid, tier):
    t0 = time.time()
    meta = load_meta(pid)
    known = [k for k in load_known() if k["property"] == pid]
    binary = build(pid)
    if binary is None:
        return 2
    violations = []  # list of replay paths
    inconclusive = []

    # 1. regression replays (committed minimal cases, incl. fixed findings)
    reg_total = 0
    for path in sorted(glob.glob(os.path.join(REGRESS, pid, "*.json"))):
        reg_total += 1
        st, out = run_replay_file(binary, path)
        is_known = any(k.get("replay") and os.path.abspath(os.path.join(VERIF, k["replay"])) == os.path.abspath(path)
                       and k["status"] == "known" for k in known)
        if st == "fail" and not is_known:
            violations.append(path)
        elif st in ("error", "timeout"):
            inconclusive.append("regress replay %s: %s %s" % (path, st, out[-800:]))

    # 2. generated search
    nshards = int(meta.get("shards", min(16, NCPU)))
    timeout = meta.get("timeout_" + tier, 900 if tier == "quick" else 14400)
    shards, problems, tmp = run_shards(binary, pid, tier, nshards, timeout)
    extra_cov = {"regression_replays": reg_total}

    # optional race leg
    if meta.get("race"):
        rb = build(pid, race=True)
        if rb is None:
            inconclusive.append("race build failed")
        else:
            rs, rp, rtmp = run_shards(rb, pid, tier, int(meta.get("race_shards", 4)),
                                      meta.get("race_timeout_" + tier, timeout), subs=meta.get("race_subs"),
                                      extra_env={"VERIF_RACE": "1"})
            for s in rs:
                if "WARNING: DATA RACE" in s.get("_log", ""):
                    p = os.path.join(REPLAYS, pid)
                    os.makedirs(p, exist_ok=True)
                    rp_path = os.path.join(p, "race-%d.log" % s["shard"])
                    open(rp_path, "w").write(s["_log"])
                    violations.append(rp_path)
            for kind, k, txt in rp:
                if "WARNING: DATA RACE" in txt:
                    p = os.path.join(REPLAYS, pid)
                    os.makedirs(p, exist_ok=True)
                    rp_path = os.path.join(p, "race-died-%d.log" % k)
                    open(rp_path, "w").write(txt)
                    violations.append(rp_path)
                else:
                    problems.append(("race-" + kind, k, txt))
            for s in rs:
                s["sub_evaluations"] = {"race:" + k: v for k, v in (s.get("sub_evaluations") or {}).items()}
                s["classes"] = {"race:" + k: v for k, v in (s.get("classes") or {}).items()}
            shards += rs
            shutil.rmtree(rtmp, ignore_errors=True)

    # optional legs built with a repository build tag (e.g. the repo's own checked build)
    for leg in meta.get("tag_legs") or []:
        if leg.get("tier", tier) != tier and leg.get("tier") != "both":
            continue
        tb = build(pid, tags=leg["tags"])
        if tb is None:
            inconclusive.append("build with -tags %s failed" % leg["tags"])
            continue
        ts, tp, ttmp = run_shards(tb, pid, tier, int(leg.get("shards", 8)), leg.get("timeout", timeout), subs=leg.get("subs"),
                                  extra_env={"VERIF_TAGS": leg["tags"], "VERIF_SCALE": str(leg.get("scale", 1))})
        for kind, k, txt in tp:
            if kind == "died" and ("panic:" in txt or "fatal error:" in txt):
                pdir = os.path.join(REPLAYS, pid)
                os.makedirs(pdir, exist_ok=True)
                rp_path = os.path.join(pdir, "tagleg-%s-died-%d.log" % (leg["tags"], k))
                open(rp_path, "w").write(txt)
                violations.append(rp_path)
            else:
                problems.append(("tagleg-" + kind, k, txt))
        for s in ts:
            s["sub_evaluations"] = {leg["tags"] + ":" + k: v for k, v in (s.get("sub_evaluations") or {}).items()}
            s["classes"] = {leg["tags"] + ":" + k: v for k, v in (s.get("classes") or {}).items()}
        shards += ts
        shutil.rmtree(ttmp, ignore_errors=True)

    for s in shards:
        for v in s.get("violations") or []:
            violations.append(write_replay(pid, v))
        for inc in s.get("incomplete") or []:
            inconclusive.append("shard %s: %s" % (s.get("shard"), inc))
    for kind, k, txt in problems:
        handled = False
        hook = meta.get("death_is_violation")
        if hook and kind in ("died",) and ("fatal error:" in txt or "panic:" in txt):
            p = os.path.join(REPLAYS, pid)
            os.makedirs(p, exist_ok=True)
            rp_path = os.path.join(p, "death-shard%d.log" % k)
            open(rp_path, "w").write(txt)
            # the journaled case, if any
            j = os.path.join(tmp, "scratch%d" % k, "journal.json")
            if os.path.exists(j):
                shutil.copy(j, os.path.join(p, "death-shard%d-case.json" % k))
                st, out = run_replay_file(binary, j, timeout=300)
                if st == "fail" or (st == "error" and ("fatal error:" in out or "panic:" in out)):
                    violations.append(os.path.join(p, "death-shard%d-case.json" % k))
                    handled = True
        if not handled:
            inconclusive.append("shard %d %s: %s" % (k, kind, txt[-1500:]))

    # 3. native fuzz legs (thorough only)
    if tier == "thorough" and meta.get("fuzz"):
        fv, finfo = run_fuzz_legs(pid, meta, None, float(os.environ.get("VERIF_FUZZ_SCALE", "1")))
        violations += fv
        extra_cov["native_fuzz"] = finfo
        for fi in finfo:
            if fi.get("inconclusive"):
                inconclusive.append("native fuzz leg %s: %s" % (fi["target"], fi.get("note", "")[-600:]))

    # 4. known findings
    lines = []
    for k in known:
        if k["status"] != "known":
            continue
        lines.append("KNOWN-FINDING: property=%s %s [key=%s]" % (pid, k["what"], k["key"]))

    wall = time.time() - t0
    if shards:
        merge(pid, tier, meta, shards, wall, extra_cov, len(violations))
    shutil.rmtree(tmp, ignore_errors=True)
    for line in lines:
        print(line)
    if violations:
        for p in sorted(set(violations)):
            print("VIOLATION property=%s replay=%s" % (pid, p))
        return 1
    if inconclusive or not shards:
        for m in inconclusive:
            print("INCONCLUSIVE: " + m)
        return 2
    evals = sum(s["evaluations"] for s in shards)
    print("OK property=%s tier=%s evaluations=%d wall=%.1fs" % (pid, tier, evals, wall))
    return 0


def replay(path):
    path = os.path.abspath(path)
    try:
        d = json.load(open(path))
        pid = d["property"]
    except (ValueError, KeyError, OSError):
        # fuzz crasher or log: infer the property from the directory name
        pid = os.path.basename(os.path.dirname(path))
        print("replay: %s is not a JSON case (saved fuzz input or log for %s); re-run with:" % (path, pid))
        print("  cd %s && go test -run 'Fuzz.*' ./%s/   (after copying it under testdata/fuzz/<Target>/)" % (HARNESS, pid.lower()))
        return 2
    binary = build(pid)
    if binary is None:
        return 2
    st, out = run_replay_file(binary, path, timeout=600)
    print(out)
    if st == "fail":
        print("VIOLATION property=%s replay=%s" % (pid, path))
        return 1
    if st == "pass":
        return 0
    return 2


def props():
    return sorted(os.path.basename(os.path.dirname(p)).upper() for p in glob.glob(os.path.join(HARNESS, "c[0-9][0-9]", "meta.json")))


def main(argv):
    if len(argv) >= 2 and argv[1] == "--setup":
        rc = 0
        for pid in props():
            if build(pid) is None:
                rc = 1
            meta = load_meta(pid)
            if meta.get("race"):
                if build(pid, race=True) is None:
                    rc = 1
        return rc
    if len(argv) >= 3 and argv[1] == "--replay":
        return replay(argv[2])
    if len(argv) >= 3 and argv[1] == "--all":
        worst = 0
        for pid in props():
            rc = check(pid, argv[2])
            print("== %s rc=%d" % (pid, rc))
            worst = max(worst, rc) if rc != 1 else 1
        return worst
    if len(argv) == 3 and argv[2] in ("quick", "thorough"):
        return check(argv[1].upper(), argv[2])
    print(__doc__)
    return 2


if __name__ == "__main__":
    sys.exit(main(sys.argv))
