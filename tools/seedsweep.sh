#!/bin/bash
# Run every stored seed against the check of its property (scratch copies only).
# usage: seedsweep.sh [scale]   -> prints one CAUGHT/MISSED line per seed
scale=${1:-0.3}
for d in /verif/seeded/C*-[A-Z]; do
  k=$(basename $d); P=${k%-*}
  if [ "$k" = "C12-B" ]; then
    /verif/tools/mutcheck.sh seed-$k $P /verif/mutants/seed-c12-B-on-prefix-tree.sh $scale layout 2>&1 | tail -1
  elif [ "$k" = "C11-A" ]; then
    # acd6c0e rewrote the tail of insert-sorted; the same change ported to the current tree
    /verif/tools/mutcheck.sh seed-$k $P /verif/mutants/seed-c11-A-on-current-tree.sh $scale 2>&1 | tail -1
  else
    /verif/tools/mutcheck.sh seed-$k $P $d/patch.diff $scale 2>&1 | tail -1
  fi
done
