#!/bin/bash
# Sensitivity run: apply a patch to a scratch COPY of /repo and run one check
# against it.  Never touches /repo.  usage: mutcheck.sh <name> <PID> <patchfile> [scale] [subs]
set -u
name=$1; pid=$2; patch=$3; scale=${4:-0.25}; subs=${5:-}
R=/tmp/mut-$name; H=/tmp/muth-$name; W=/tmp/mutw-$name
rm -rf $R $H $W; mkdir -p $W
rsync -a --exclude .git /repo/ $R/
( cd $R && if [[ $patch == *.sh ]]; then bash $patch; else patch -p1 -s < $patch; fi ) || { echo "PATCH-FAILED $name"; rm -rf $R $H $W; exit 3; }
( cd $R && GOFLAGS=-mod=mod GOPROXY=off go build ./... ) || { echo "MUTANT-DOES-NOT-BUILD $name"; rm -rf $R $H $W; exit 3; }
rsync -a --exclude testdata /verif/harness/ $H/
sed -i "s#=> /repo#=> $R#" $H/go.mod
out=$(VERIF_REPO=$R VERIF_HARNESS=$H VERIF_WORK=$W VERIF_SCALE=$scale VERIF_SUBS=$subs python3 /verif/check.py $pid quick 2>&1 | grep -v '^KNOWN-FINDING' | tail -5)
rc=$?
if echo "$out" | grep -q '^VIOLATION'; then
  key=$(for f in $W/replays/$pid/*.json; do python3 -c "import json;print(json.load(open('$f'))['key'])" 2>/dev/null; done | sort | uniq -c | tr '\n' ';')
  echo "CAUGHT $name by $pid: $key"
  if [[ -n "${KEEP:-}" ]]; then mkdir -p /verif/replays/mut-$name; cp $W/replays/$pid/* /verif/replays/mut-$name/ 2>/dev/null; fi
else
  echo "MISSED $name by $pid: $(echo "$out" | tail -2 | tr '\n' ' ')"
fi
rm -rf $R $H $W
