#!/usr/bin/env python3
"""Store one confirmed seed under /verif/seeded/<ID>-<letter>/.
usage: seedstore.py <pfx e.g. seed6> <prop lc> <letter> <round> <what> <needs> <result>"""
import sys, os, json, shutil
pfx, p, v, rnd, what, needs, result = sys.argv[1:8]
P = p.upper(); O = f'/tmp/{pfx}-{p}-out/{v}'; D = f'/verif/seeded/{P}-{v}'
os.makedirs(D, exist_ok=True)
shutil.copy(O + '/patch.diff', D + '/patch.diff')
shutil.copy(O + '/demo_test.go', D + '/demo_test.go.txt')
if os.path.exists(O + '/NOTE.md'): shutil.copy(O + '/NOTE.md', D + '/NOTE.md')
n_prev = (ord(v) - ord('A')) // 2 * 2
meta = {"property": P, "seed": f"{P}-{v}", "round": int(rnd), "what": what, "needs_to_manifest": needs,
 "written_by": f"fresh sub-agent given only the property text, a scratch git worktree of /repo and one-line summaries of the {n_prev} earlier changes to avoid",
 "confirmed": f"tools/seedconfirm.sh (PFX={pfx}): patch applies to /repo HEAD of that moment, go build ok, full suite passes with the change, demo fails with the change and passes without it",
 "checked_with": f"tools/mutcheck.sh seed-{P}-{v} {P} seeded/{P}-{v}/patch.diff 0.3", "result": result}
json.dump(meta, open(D + '/meta.json', 'w'), indent=1, ensure_ascii=False)
print('stored', D)
