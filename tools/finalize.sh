#!/bin/bash
# Regenerate the committed evidence from VERIF_SEED=1 quick runs against /repo as it is,
# then the generated documents.  Prints one line per check; exits 1 if any is not OK.
cd /verif || exit 9
export VERIF_SEED=1
bad=0
for p in $(cat claimed.txt); do
  r=$(python3 check.py $p quick 2>&1 | grep -v '^KNOWN-FINDING' | tail -1)
  echo "$p $r"
  echo "$r" | grep -q '^OK ' || bad=1
done
python3 gen_manifest.py >/dev/null
python3 tools/findings_table.py | tail -1
python3 tools/seeds_readme.py
exit $bad
