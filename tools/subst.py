#!/usr/bin/env python3
"""subst.py <file> <old> <new> [count]  — exact-text replacement, fails loudly if old is absent."""
import sys
f, old, new = sys.argv[1], sys.argv[2], sys.argv[3]
cnt = int(sys.argv[4]) if len(sys.argv) > 4 else 1
s = open(f).read()
if old not in s:
    sys.exit("subst: text not found in %s: %r" % (f, old[:80]))
s = s.replace(old, new, cnt)
open(f, "w").write(s)
