#!/usr/bin/env python3
"""subst.py <file> <old> <new> [count]  — exact-text replacement.

Fails loudly if old is absent, and -- unless a count is given -- if old occurs
more than once (replacing "the first of several" once edited the wrong function).
"""
import sys
f, old, new = sys.argv[1], sys.argv[2], sys.argv[3]
s = open(f).read()
n = s.count(old)
if n == 0:
    sys.exit("subst: text not found in %s: %r" % (f, old[:80]))
if len(sys.argv) > 4:
    cnt = int(sys.argv[4])
elif n > 1:
    sys.exit("subst: text occurs %d times in %s (pass a count to replace the first N): %r" % (n, f, old[:80]))
else:
    cnt = 1
s = s.replace(old, new, cnt)
open(f, "w").write(s)
