#!/usr/bin/env python3
"""Rewrites the generated tables in DESIGN.md (between the BEGIN/END markers) from known_findings.json and /repo's fix commits."""
import json, re, subprocess, os
V = os.path.dirname(os.path.dirname(os.path.abspath(__file__)))
d = json.load(open(os.path.join(V, "known_findings.json")))["findings"]
fixed = {}
for f in d:
    if f["status"] == "fixed":
        fixed.setdefault((f["commit"], f["property"]), []).append(f)
log = subprocess.run(["git", "-C", "/repo", "log", "--reverse", "--format=%h %s"], capture_output=True, text=True).stdout.splitlines()
rows = ["| commit | property | repaired defect (commit subject) | finding keys |", "|---|---|---|---|"]
for line in log:
    h, subj = line.split(" ", 1)
    if not subj.startswith("fix:"):
        continue
    props = sorted({p for (c, p) in fixed if c == h})
    keys = [f["key"] for (c, p), fs in fixed.items() if c == h for f in fs]
    rows.append("| %s | %s | %s | %s |" % (h, ", ".join(props) or "-", subj[4:].strip(), "; ".join("`%s`" % k for k in keys) or "(regression covered by the generated search)"))
known = ["| property | key | what fails |", "|---|---|---|"]
for f in d:
    if f["status"] == "known":
        known.append("| %s | `%s` | %s |" % (f["property"], f["key"], f["what"].replace("|", "/")[:260]))
p = os.path.join(V, "DESIGN.md")
s = open(p).read()
def put(s, name, body):
    b, e = "<!-- BEGIN %s -->" % name, "<!-- END %s -->" % name
    i, j = s.index(b), s.index(e)
    return s[:i + len(b)] + "\n" + body + "\n" + s[j:]
s = put(s, "FIXED", "\n".join(rows))
s = put(s, "KNOWN", "\n".join(known))
open(p, "w").write(s)
print("fix commits:", len(rows) - 2, "known findings:", len(known) - 2)
