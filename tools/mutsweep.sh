#!/bin/bash
# Run every hand-written mutant (mutants/*.sh) against the check of its property
# in scratch copies; prints one CAUGHT/MISSED line each.  usage: mutsweep.sh [scale]
scale=${1:-0.3}
declare -A PROP=( [revert-fix-all-any]=C01 [revert-fix-sort]=C01 [revert-fix-handler-bind]=C06 [revert-fix-stale-terminal]=C02
  [revert-fix-set-location]=C18 [revert-fix-eval-location]=C18 [revert-fix-thread-location]=C18 [revert-fix-tail-location]=C18
  [revert-fix-context-leak]=C05 [revert-fix-host-time-zone]=C10 [revert-fix-insert-sorted-nil-cells]=C03 [revert-fix-nested-load-context]=C04 [revert-fix-context-leak-panic]=C05 [revert-fix-evalsexpr-location]=C05 [seed-c12-B-on-prefix-tree]=C12 )
for m in /verif/mutants/*.sh; do
  n=$(basename $m .sh)
  if [[ $n =~ ^c([0-9][0-9])- ]]; then P=C${BASH_REMATCH[1]}; else P=${PROP[$n]:-}; fi
  [ -z "$P" ] && { echo "SKIP $n (no property mapping)"; continue; }
  /verif/tools/mutcheck.sh $n $P $m $scale 2>&1 | tail -1 | cut -c1-220
done
