#!/usr/bin/env python3
"""Regenerate seeded/README.md from seeded/*/meta.json."""
import glob
import json
import os

V = os.path.dirname(os.path.dirname(os.path.abspath(__file__)))
metas = []
for f in sorted(glob.glob(os.path.join(V, "seeded", "C*-*", "meta.json"))):
    m = json.load(open(f))
    m["seed"] = os.path.basename(os.path.dirname(f))
    metas.append(m)


def first(m):
    r = m.get("result", "")
    return r.startswith("CAUGHT") and "at first" in r or r.startswith("CAUGHT by") and "missed" not in r


def now(m):
    r = m.get("result", "")
    return "CAUGHT" in r


r1 = [m for m in metas if m["seed"][-1] in "AB"]
r2 = [m for m in metas if m["seed"][-1] in "CD"]
r3 = [m for m in metas if m["seed"][-1] in "EF"]
r4 = [m for m in metas if m["seed"][-1] in "GH"]
r5 = [m for m in metas if m["seed"][-1] in "IJ"]
r6 = [m for m in metas if m["seed"][-1] in "KL"]
r7 = [m for m in metas if m["seed"][-1] in "MN"]
out = []
out.append("""# Independently seeded property-breaking changes

Each directory holds a change to luthersystems/elps written by a fresh sub-agent
that saw only the property text (never /verif): `patch.diff`, the
demonstration (`demo_test.go.txt`; rename and place as its header says),
`NOTE.md` (author's notes) and `meta.json`.  None of these is ever applied to
/repo itself: `tools/mutcheck.sh` applies it to a scratch copy and runs one
check against that copy; `tools/seedconfirm.sh` re-confirms build / suite /
demo in the author's scratch worktree; `tools/seedsweep.sh` re-runs them all.

Round 1 (`-A`, `-B`): two changes per property.  Rounds 2 to 7 (`-C`/`-D`,
`-E`/`-F`, `-G`/`-H`, `-I`/`-J`, `-K`/`-L`, `-M`/`-N`): two more per property each, by new agents that were told in one line
each what the earlier changes were, so that they would pick other mechanisms and
code sites.
""")
out.append("Round 1: caught at the first attempt %d of %d; caught now %d of %d." % (
    sum(1 for m in r1 if first(m)), len(r1), sum(1 for m in r1 if now(m)), len(r1)))
out.append("Round 2: caught at the first attempt %d of %d; caught now %d of %d." % (
    sum(1 for m in r2 if first(m)), len(r2), sum(1 for m in r2 if now(m)), len(r2)))
if r3:
    out.append("Round 3: caught at the first attempt %d of %d; caught now %d of %d." % (
        sum(1 for m in r3 if first(m)), len(r3), sum(1 for m in r3 if now(m)), len(r3)))
if r4:
    out.append("Round 4: caught at the first attempt %d of %d; caught now %d of %d." % (
        sum(1 for m in r4 if first(m)), len(r4), sum(1 for m in r4 if now(m)), len(r4)))
if r5:
    out.append("Round 5: caught at the first attempt %d of %d; caught now %d of %d." % (
        sum(1 for m in r5 if first(m)), len(r5), sum(1 for m in r5 if now(m)), len(r5)))
if r6:
    out.append("Round 6: caught at the first attempt %d of %d; caught now %d of %d." % (
        sum(1 for m in r6 if first(m)), len(r6), sum(1 for m in r6 if now(m)), len(r6)))
if r7:
    out.append("Round 7: caught at the first attempt %d of %d; caught now %d of %d (the session ended before the misses of this round were all worked through; each row says where it stands)." % (
        sum(1 for m in r7 if first(m)), len(r7), sum(1 for m in r7 if now(m)), len(r7)))
out.append("""
(C12-B only on the pre-fix tree: a later repair rewrote the same condition.)
The seeding agents also pointed at defects that already existed in /repo: the
stale Terminal flag in tail loops, the json load error order, the location of
`(set! undefined)`, the context left on the root environment after
`LoadStringContext`, and the process-wide anonymous-validator names.  Each was
then reproduced by a strengthened check and repaired (f67a249, 4f8004a, 566037a,
35f0693) or recorded as a known finding (C10 anonymous-validator-name).  Round 6
added: tokens larger than the scanner window cut in two (3487844), a collapsed
tail call resolving a symbol designator in the wrong package (0b8989f), and three
builtins answering internal-panic (30b7ae7, 852e4ed, 7d761c8).  Round 7 (checks
rebuilt after an interruption) added three error-location repairs (6a0448a + a57b9a6,
7516df2, 875babc) and two known findings (C18 eval of a position-less symbol, C03
regexp pattern x text).

| seed | change | needs | result |
|---|---|---|---|""")
for m in metas:
    def c(s):
        return str(s).replace("|", "\\|").replace("\n", " ")
    out.append("| %s | %s | %s | %s |" % (m["seed"], c(m.get("what", "")), c(m.get("needs_to_manifest", "")), c(m.get("result", ""))))
open(os.path.join(V, "seeded", "README.md"), "w").write("\n".join(out) + "\n")
print("seeds:", len(metas))
