#!/bin/bash
# Process one seed of a round: confirm it (seedconfirm.sh) and run the property's check
# against it (mutcheck.sh).  usage: seedround.sh <round prefix e.g. seed6> <prop lc e.g. c05> <letter>
# Reads dest= run= pkg= from the author's NOTE.md.  Prints one CONFIRM line and one CAUGHT/MISSED line.
set -u
pfx=$1; p=$2; v=$3; scale=${4:-0.3}
O=/tmp/$pfx-$p-out/$v
P=$(echo $p | tr a-z A-Z)
[ -s $O/patch.diff ] || { echo "$P-$v NO-PATCH"; exit 1; }
note=$O/NOTE.md
dest=$(grep -o 'dest=[^ `]*' $note | head -1 | cut -d= -f2)
run=$(grep -o 'run=[^ `]*' $note | head -1 | cut -d= -f2)
pkg=$(grep -o 'pkg=[^ `]*' $note | head -1 | cut -d= -f2)
[ -n "$dest" ] && [ -n "$pkg" ] || { echo "$P-$v NOTE-LACKS-dest/pkg"; exit 1; }
[ -n "$run" ] || run='^TestSeedDemo$'
c=$(PFX=$pfx /verif/tools/seedconfirm.sh $p $v "$dest" "$run" "$pkg" 2>&1 | tail -1)
echo "CONFIRM $P-$v $c"
echo "$c" | grep -q 'suite=pass.* demo-with-change=fail demo-without=pass' || exit 1
/verif/tools/mutcheck.sh seed-$P-$v $P $O/patch.diff $scale 2>&1 | tail -1
