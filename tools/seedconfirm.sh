#!/bin/bash
# Confirm one independently seeded change in its scratch worktree:
#   seedconfirm.sh <prop lc> <A|B> <demo destination relative path> <go test -run pattern> <package>
# Checks: patch applies to current /repo HEAD, builds, the full suite passes with it, the
# demo FAILS with it and PASSES without it.  Leaves the worktree clean.
set -u
p=$1; v=$2; dest=$3; pat=$4; pkg=$5
PFX=${PFX:-seed}; W=/tmp/$PFX-$p; O=/tmp/$PFX-$p-out/$v
export GOFLAGS=-mod=mod GOPROXY=off
cd $W || exit 9
git checkout -q -- . ; git clean -qfd; git checkout -q --detach $(git -C /repo rev-parse HEAD)
res="prop=$p seed=$v"
git apply $O/patch.diff || { echo "$res PATCH-DOES-NOT-APPLY"; exit 1; }
go build ./... || { echo "$res NO-BUILD"; git checkout -q -- .; exit 1; }
if go test -vet=off -count=1 ./... > /tmp/seed-$p-$v-suite.log 2>&1; then res="$res suite=pass"; else
  # one retry: internal/fuzzwatch has a wall-clock test that flakes under load
  if go test -vet=off -count=1 ./... > /tmp/seed-$p-$v-suite.log 2>&1; then res="$res suite=pass(retry)"; else res="$res suite=FAIL($(grep -c '^FAIL' /tmp/seed-$p-$v-suite.log))"; fi
fi
cp $O/demo_test.go $W/$dest
if go test -vet=off -count=1 -run "$pat" $pkg > /tmp/seed-$p-$v-demo-with.log 2>&1; then res="$res demo-with-change=PASS(!)"; else res="$res demo-with-change=fail"; fi
git checkout -q -- . 
if go test -vet=off -count=1 -run "$pat" $pkg > /tmp/seed-$p-$v-demo-without.log 2>&1; then res="$res demo-without=pass"; else res="$res demo-without=FAIL(!)"; fi
rm -f $W/$dest; git checkout -q -- .; git clean -qfd
echo "$res"
