package c01

// A minimal s-expression reader into the generator's AST (gen.Val), used only
// by the fixed documentation-example tests of this package: it lets an example
// be written as text and run through the reference (which takes the AST) and
// the interpreter (which takes the rendered text).  It understands what those
// examples need: integers, strings without escapes, symbols, quote marks,
// parentheses / brackets, and ; comments.

import (
	"strconv"
	"strings"

	"github.com/luthersystems/elps/verifharness/gen"
)

func parseForms(src string) []gen.Val {
	p := &sexpReader{s: src}
	var out []gen.Val
	for {
		p.skip()
		if p.i >= len(p.s) {
			return out
		}
		out = append(out, p.read())
	}
}

type sexpReader struct {
	s string
	i int
}

func (p *sexpReader) skip() {
	for p.i < len(p.s) {
		c := p.s[p.i]
		if c == ';' {
			for p.i < len(p.s) && p.s[p.i] != '\n' {
				p.i++
			}
			continue
		}
		if c == ' ' || c == '\n' || c == '\t' || c == '\r' {
			p.i++
			continue
		}
		return
	}
}

func (p *sexpReader) read() gen.Val {
	p.skip()
	q := 0
	for p.s[p.i] == '\'' {
		q++
		p.i++
	}
	var v gen.Val
	switch c := p.s[p.i]; {
	case c == '(' || c == '[':
		p.i++
		items := []gen.Val{}
		for {
			p.skip()
			if p.s[p.i] == ')' || p.s[p.i] == ']' {
				p.i++
				break
			}
			items = append(items, p.read())
		}
		v = gen.L(items...)
	case c == '"':
		j := strings.IndexByte(p.s[p.i+1:], '"')
		v = gen.Str(p.s[p.i+1 : p.i+1+j])
		p.i += j + 2
	default:
		j := p.i
		for j < len(p.s) && !strings.ContainsRune(" \n\t\r()[];", rune(p.s[j])) {
			j++
		}
		tok := p.s[p.i:j]
		p.i = j
		if n, err := strconv.ParseInt(tok, 10, 64); err == nil {
			v = gen.I(n)
		} else {
			v = gen.S(tok)
		}
	}
	v.Q = q
	return v
}
