package c01

// The "ext" and "stdlib" sub-properties of C01: the same differential oracle
// over programs that also use user-defined types (deftype/new/type/type?/
// tagged-value?/user-data), defconst, set with docstrings, trace,
// qualified-symbol and -- in runtimes that load the standard library -- the
// string, math and base64 packages.  See NOTES.md.

import (
	"testing"

	"github.com/luthersystems/elps/verifharness/gen"
	"github.com/luthersystems/elps/verifharness/refint"
	"github.com/luthersystems/elps/verifharness/vcommon"
)

// The probe builtin is also exported from the language package so that the
// packages a program creates with in-package see it (the reference keeps probe
// in its language package).
var extCfg = vcommon.Cfg{MaxSteps: 300000, MaxPhysical: 3000, MaxAlloc: 200000, NoStdlib: true, ProbesInLang: true}
var extCfgStd = vcommon.Cfg{MaxSteps: 300000, MaxPhysical: 3000, MaxAlloc: 200000, ProbesInLang: true}

func checkExt(p gen.Program, c *vcommon.Ctx) *vcommon.Failure { return checkOpt(extCfg, true, p, c) }
func checkExtStd(p gen.Program, c *vcommon.Ctx) *vcommon.Failure {
	return checkOpt(extCfgStd, true, p, c)
}

// checkStderr compares what trace wrote to stderr.  Nothing else in the grammar
// writes there.
func checkStderr(in *refint.Interp, rt *vcommon.Rt, src string, c *vcommon.Ctx) *vcommon.Failure {
	want := in.Stderr.String()
	if in.StderrOpaque {
		c.Class("skip/stderr-opaque")
		return nil
	}
	got := rt.Stderr.String()
	if want != "" {
		c.Class("stderr-compared")
	}
	if got != want {
		return vcommon.Failf(classify("stderr", src), "stderr differs\nprogram:\n%s\nreal:\n%q\nreference:\n%q", src, got, want)
	}
	return nil
}

// TestExtDocExamples runs the documentation's own examples for the newly
// covered constructs (docs/lang.md "User-Defined Types" and "Variable and
// constant documentation", docs/func.md deftype/new/tagged-value?/user-data/
// type/type?, and the docstrings of trace, qualified-symbol and the library
// functions) through the reference AND the interpreter: both must print what
// the documentation shows.  It guards the reference against being "fitted" to
// the implementation.
func TestExtDocExamples(t *testing.T) {
	S, QS, I, F, Str, L, Call := gen.S, gen.QS, gen.I, gen.F, gen.Str, gen.L, gen.Call
	rect := L(S("deftype"), S("rect"), L(S("height"), S("width")), Call("sorted-map", S(":height"), S("height"), S(":width"), S("width")))
	setR := Call("set", QS("r"), Call("new", S("rect"), I(100), I(50)))
	myobj := L(S("deftype"), S("myobject"), L(S("x")), S("x"))
	empty := L(S("deftype"), S("emptyobject"), L())
	hello := Call("new", S("myobject"), Str("hello"))
	other := Call("in-package", QS("other"))
	cases := []struct {
		name  string
		forms []gen.Val
		want  string // printed result; "!" = an error is documented
	}{
		{"lang/type", []gen.Val{rect, setR, Call("type", S("r"))}, "'user:rect"},
		{"lang/type?", []gen.Val{rect, setR, Call("type?", S("rect"), S("r"))}, "true"},
		{"lang/sorted-map?", []gen.Val{rect, setR, Call("sorted-map?", S("r"))}, "false"},
		{"lang/tagged-value?", []gen.Val{rect, setR, Call("tagged-value?", S("r"))}, "true"},
		{"lang/user-data", []gen.Val{rect, setR, Call("user-data", S("r"))}, "(sorted-map ':height 100 ':width 50)"},
		{"func/deftype", []gen.Val{myobj}, "'user:myobject"},
		{"func/new", []gen.Val{myobj, hello}, `#{user:myobject "hello"}`},
		{"func/new-quoted", []gen.Val{myobj, Call("new", QS("myobject"), Str("hello"))}, `#{user:myobject "hello"}`},
		{"func/new-other-package", []gen.Val{myobj, other, Call("new", S("user:myobject"), Str("hello"))}, `#{user:myobject "hello"}`},
		{"func/new-other-package-quoted", []gen.Val{myobj, other, Call("new", QS("user:myobject"), Str("hello"))}, `#{user:myobject "hello"}`},
		{"func/tagged-value?-string", []gen.Val{Call("tagged-value?", Str("hello"))}, "false"},
		{"func/tagged-value?-typedef", []gen.Val{myobj, Call("tagged-value?", S("myobject"))}, "true"},
		{"func/tagged-value?-instance", []gen.Val{myobj, Call("tagged-value?", hello)}, "true"},
		{"func/user-data", []gen.Val{myobj, Call("user-data", hello)}, `"hello"`},
		{"func/user-data-error", []gen.Val{Call("user-data", Str("hello"))}, "!"},
		{"func/type-typedef", []gen.Val{empty, Call("type", S("emptyobject"))}, "'lisp:typedef"},
		{"func/type-instance", []gen.Val{empty, Call("type", Call("new", S("emptyobject")))}, "'user:emptyobject"},
		{"func/type?-qualified", []gen.Val{myobj, Call("type?", QS("user:myobject"), hello)}, "true"},
		{"func/type?-typedef", []gen.Val{myobj, Call("type?", S("myobject"), hello)}, "true"},
		{"func/type?-unqualified", []gen.Val{myobj, Call("type?", QS("myobject"), hello)}, "false"},
		{"lang/set-doc", []gen.Val{Call("set", QS("max-retries"), I(3), Str("Maximum number of retry attempts."))}, "3"},
		{"lang/defconst", []gen.Val{L(S("defconst"), S("pi-approx"), F(3.14159), Str("Approximate value of pi."), Str("Good enough for most uses.")), other, Call("use-package", QS("user")), S("pi-approx")}, "3.14159"},
		{"doc/qualified-symbol", []gen.Val{L(S("qualified-symbol"), S("name"))}, "'user:name"},
		{"doc/qualified-symbol-qualified", []gen.Val{L(S("qualified-symbol"), S("lisp:x"))}, "'lisp:x"},
		{"doc/trace", []gen.Val{L(S("trace"), Call("+", I(1), I(2)))}, "3"},
		{"doc/string:split", []gen.Val{Call("string:split", Str("a,b"), Str(","))}, `'("a" "b")`},
		{"doc/string:join", []gen.Val{Call("string:join", Call("list", Str("a"), Str("b")), Str("-"))}, `"a-b"`},
		{"doc/string:repeat", []gen.Val{Call("string:repeat", Str("ab"), I(3))}, `"ababab"`},
		{"doc/string:repeat-negative", []gen.Val{Call("string:repeat", Str("ab"), I(-1))}, "!"},
		{"doc/string:trim", []gen.Val{Call("string:trim", Str("xxhixx"), Str("x"))}, `"hi"`},
		{"doc/math:floor-int", []gen.Val{Call("math:floor", I(3))}, "3"},
		{"doc/math:floor-float", []gen.Val{Call("math:floor", F(1.5))}, "1"},
		{"doc/math:abs-minint", []gen.Val{Call("math:abs", I(-9223372036854775808))}, "!"},
		{"doc/math:nan?-int", []gen.Val{Call("math:nan?", I(1))}, "false"},
		{"doc/base64:decode", []gen.Val{Call("to-string", Call("base64:decode", Call("base64:encode", Str("hello"))))}, `"hello"`},
		{"doc/base64:encode", []gen.Val{Call("to-string", Call("base64:encode", Str("hello")))}, `"aGVsbG8="`},
		{"doc/base64:decode-invalid", []gen.Val{Call("base64:decode", Str("a"))}, "!"},
	}
	for _, tc := range cases {
		p := gen.Program{Forms: tc.forms}
		_, rv, rerr, abort := refRunOpt(p, true)
		if abort != "" {
			t.Errorf("%s: reference aborted: %s", tc.name, abort)
			continue
		}
		out := vcommon.NewRuntime(extCfgStd).Load(p.Source())
		if tc.want == "!" {
			if rerr == nil || !out.IsErr {
				t.Errorf("%s: an error is documented; reference error=%v, interpreter error=%v\n%s", tc.name, rerr != nil, out.IsErr, p.Source())
			}
			continue
		}
		if rerr != nil {
			t.Errorf("%s: reference signals %s (%s)\n%s", tc.name, rerr.Cond, rerr.Msg, p.Source())
			continue
		}
		if txt, ok := refint.Print(rv); !ok || txt != tc.want {
			t.Errorf("%s: reference prints %q, documentation shows %q\n%s", tc.name, txt, tc.want, p.Source())
		}
		if out.IsErr || out.Text != tc.want {
			t.Errorf("%s: interpreter gives %q (error=%v %s), documentation shows %q\n%s", tc.name, out.Text, out.IsErr, out.Msg, tc.want, p.Source())
		}
	}
}
