package c01

// The "arglist" sub-property of C01: an argument list is built afresh for every
// call.  A &rest parameter is a NEW list on every call whatever the route
// (direct call, funcall, quoted-symbol designator, apply with 0..3 leading
// arguments, unpack, map / foldl callbacks, a call written by a macro), the
// list given to apply is not changed by what the callee does to its
// parameters, a positional parameter IS the argument (so mutating it in the
// callee is seen by the caller, except that a quoted literal is never
// modified), and the ELEMENTS of a rest list are the caller's own objects.
//
// Programs: a few callee functions (required / &optional / &rest parameters,
// bodies that sort a parameter in place, mutate the containers it holds, keep
// it in a global / a history list / a closure, or re-apply it to another
// callee), data held in global variables (mutable lists, quoted literals,
// vectors, nested containers, cdr/rest/slice views, aliases, copies), then a
// history of steps: call a callee through a drawn route with those variables
// as arguments, or mutate in place on the caller's side (stable-sort of a
// variable, of a kept rest list, of a literal; append! on a vector), or run a
// function holding a literal a second time.  After EVERY step every variable,
// the kept rest list, the history of rest lists and the rest lists captured by
// closures are probed, so a change of either side by the other is an
// effect-trace difference against the reference (refint with MutLists).
// Same oracle as the other sub-properties (checkOpt).

import (
	"fmt"
	"testing"

	"pgregory.net/rapid"

	"github.com/luthersystems/elps/verifharness/gen"
	"github.com/luthersystems/elps/verifharness/refint"
	"github.com/luthersystems/elps/verifharness/vcommon"
)

type alKind int

const (
	alMList alKind = iota // (list ints...)            mutable
	alLit                 // '(ints...)                quoted literal
	alVec                 // (vector ints...)
	alNest                // (list (list..) '(..) (vector ..) int) mutable, holds containers
	alNestLit             // '((3 1) (2 0 1) 5 4)      literal holding lists
	alView                // cdr / rest / slice of a list variable
	alCopy                // (concat 'list d)
)

type alVar struct {
	name string
	kind alKind
	n    int  // number of elements (lists) when created
	list bool // usable as the final argument of apply
	ints bool // holds ints only
}

type alFn struct {
	name    string
	req     int
	opt     int
	rest    bool
	closure bool // returns a closure over a parameter
}

type alGen struct {
	t       *rapid.T
	stats   map[string]int
	forms   []gen.Val
	vars    []alVar
	fns     []alFn
	results []string // result variables holding closures
	probeID int64
	nvar    int
	nres    int
}

var (
	aS, aQS, aI, aL, aQL, aCall = gen.S, gen.QS, gen.I, gen.L, gen.QL, gen.Call
)

// n draws uniformly from lo..hi out of fair coin flips: rapid.IntRange is
// heavily biased towards the ends of its range (see NOTES.md, "rapid bias"),
// which would starve the middle routes / kinds of a switch.
func (g *alGen) n(lo, hi int, label string) int {
	span := hi - lo + 1
	if span <= 1 {
		return lo
	}
	bits := 3
	for 1<<uint(bits-3) < span {
		bits++
	}
	v := 0
	for i := 0; i < bits; i++ {
		v <<= 1
		if rapid.Bool().Draw(g.t, label) {
			v |= 1
		}
	}
	return lo + v%span
}
func (g *alGen) chance(pct int, label string) bool { return g.n(0, 99, label) < pct }
func (g *alGen) stat(s string) { g.stats[s]++ }

func (g *alGen) probe(v gen.Val) gen.Val {
	g.probeID++
	return aCall("probe", aI(g.probeID), v)
}

func (g *alGen) ints(n int) []gen.Val {
	out := make([]gen.Val, n)
	for i := range out {
		out[i] = aI(int64(g.n(0, 9, "elem")))
	}
	// make sure the list is not sorted either way round: a sort must show
	if n >= 3 {
		out[0], out[1], out[2] = aI(int64(g.n(5, 9, "hi"))), aI(int64(g.n(0, 2, "lo"))), aI(int64(g.n(3, 4, "mid")))
	}
	return out
}

func (g *alGen) cmp() gen.Val {
	return rapid.SampledFrom([]gen.Val{aS("<"), aS(">"), aQS("<"), aL(aS("lambda"), aL(aS("a"), aS("b")), aL(aS("<"), aS("a"), aS("b")))}).Draw(g.t, "cmp")
}

// sortOf sorts x in place with the total key function tk (elements may be
// ints, lists, vectors, closures).
func (g *alGen) sortOf(x gen.Val) gen.Val {
	g.stat("al/stable-sort")
	return aCall("stable-sort", g.cmp(), x, aS("tk"))
}

// guarded applies f to p only when p is a list or a vector.
func guarded(p gen.Val, e gen.Val) gen.Val {
	return aL(aS("if"), aL(aS("or"), aCall("list?", p), aCall("vector?", p)), e, p)
}

// prelude: the total sort key, the element mutator, the globals kept / hist,
// and two macros that write a call.
func (g *alGen) prelude() {
	tk := aL(aS("defun"), aS("tk"), aL(aS("e")),
		aL(aS("if"), aCall("int?", aS("e")), aS("e"),
			aL(aS("if"), aL(aS("or"), aCall("list?", aS("e")), aCall("vector?", aS("e"))), aCall("length", aS("e")), aI(0))))
	mut := aL(aS("defun"), aS("mut"), aL(aS("e")),
		aL(aS("if"), aCall("list?", aS("e")), aCall("stable-sort", aS("<"), aS("e"), aS("tk")),
			aL(aS("if"), aCall("vector?", aS("e")), aCall("append!", aS("e"), aI(7)), aS("e"))))
	g.forms = append(g.forms, tk, mut,
		aCall("set", aQS("kept"), aL()),
		aCall("set", aQS("hist"), aL()),
		aL(aS("defmacro"), aS("via-call"), aL(aS("fn"), aS("&rest"), aS("args")),
			aL(aS("quasiquote"), aL(aL(aS("unquote"), aS("fn")), aL(aS("unquote-splicing"), aS("args"))))),
		aL(aS("defmacro"), aS("via-apply"), aL(aS("fn"), aS("l")),
			aL(aS("quasiquote"), aL(aS("apply"), aL(aS("unquote"), aS("fn")), aL(aS("unquote"), aS("l"))))),
	)
}

// defCallee defines one callee.
func (g *alGen) defCallee() {
	idx := len(g.fns)
	f := alFn{name: fmt.Sprintf("c%d", idx), rest: true}
	f.req = g.n(0, 2, "req")
	if g.chance(40, "hasopt") {
		f.opt = g.n(1, 2, "opt")
	}
	if g.chance(12, "positional") {
		f.rest = false
		f.req, f.opt = 1, 1
	}
	var fs []gen.Val
	var params []string
	for i := 0; i < f.req; i++ {
		fs = append(fs, aS(fmt.Sprintf("p%d", i)))
		params = append(params, fmt.Sprintf("p%d", i))
	}
	if f.opt > 0 {
		fs = append(fs, aS("&optional"))
		for i := 0; i < f.opt; i++ {
			fs = append(fs, aS(fmt.Sprintf("o%d", i)))
			params = append(params, fmt.Sprintf("o%d", i))
		}
	}
	if f.rest {
		fs = append(fs, aS("&rest"), aS("xs"))
		g.stat(fmt.Sprintf("al/callee-req%d-opt%d-rest", f.req, min(f.opt, 1)))
	} else {
		g.stat("al/callee-positional")
	}
	// the parameter the body works on: mostly the rest list
	target := func() gen.Val {
		if f.rest && (len(params) == 0 || g.chance(75, "on-rest")) {
			return aS("xs")
		}
		return aS(params[g.n(0, len(params)-1, "param")])
	}
	body := []gen.Val{}
	for i, na := 0, g.n(1, 3, "nactions"); i < na; i++ {
		p := target()
		switch g.n(0, 6, "action") {
		case 0, 1:
			g.stat("al/body-sort-param")
			body = append(body, g.probe(guarded(p, g.sortOf(p))))
		case 2:
			g.stat("al/body-mutate-elements")
			body = append(body, g.probe(guarded(p, aCall("map", aQS("list"), aS("mut"), p))))
		case 3:
			g.stat("al/body-keep-global")
			body = append(body, aCall("set", aQS("kept"), p))
		case 4:
			g.stat("al/body-keep-history")
			body = append(body, aCall("set", aQS("hist"), aCall("cons", p, aS("hist"))))
		case 5:
			if idx > 0 {
				// the rest list of this call is the list applied to another callee
				inner := g.fns[g.n(0, idx-1, "inner")]
				if inner.rest {
					g.stat("al/body-reapply-rest-list")
					var call gen.Val
					lead := []gen.Val{}
					for k := 0; k < inner.req; k++ {
						lead = append(lead, aI(int64(k)))
					}
					switch g.n(0, 3, "reroute") {
					case 0:
						if inner.req == 0 {
							call = aCall("unpack", aS(inner.name), aS("xs"))
							break
						}
						fallthrough
					case 1:
						call = aCall("apply", append(append([]gen.Val{aS(inner.name)}, lead...), aS("xs"))...)
					case 2:
						call = aCall("funcall", append(append([]gen.Val{aS(inner.name)}, lead...), aS("xs"), aS("xs"))...)
					default:
						call = aCall("apply", append(append([]gen.Val{aS(inner.name)}, lead...), aS("xs"), aS("xs"))...)
					}
					if f.rest {
						body = append(body, g.probe(call))
						continue
					}
				}
			}
			g.stat("al/body-sort-param")
			body = append(body, g.probe(guarded(p, g.sortOf(p))))
		default:
			g.stat("al/body-append-vector")
			body = append(body, g.probe(aL(aS("if"), aCall("vector?", p), aCall("append!", p, aI(8)), p)))
		}
	}
	// result
	p := target()
	switch g.n(0, 4, "result") {
	case 0, 1:
		body = append(body, p)
	case 2:
		all := []gen.Val{}
		for _, n := range params {
			all = append(all, aS(n))
		}
		if f.rest {
			all = append(all, aS("xs"))
		}
		body = append(body, aCall("list", all...))
	default:
		g.stat("al/callee-returns-closure-over-param")
		f.closure = true
		body = append(body, aL(aS("lambda"), aL(), p))
	}
	g.fns = append(g.fns, f)
	g.forms = append(g.forms, aL(append([]gen.Val{aS("defun"), aS(f.name), aL(fs...)}, body...)...))
}

func (g *alGen) listVars(minLen int) []alVar {
	var out []alVar
	for _, v := range g.vars {
		if v.list && v.n >= minLen {
			out = append(out, v)
		}
	}
	return out
}

// defData defines one more data variable.
func (g *alGen) defData() {
	name := fmt.Sprintf("d%d", g.nvar)
	g.nvar++
	v := alVar{name: name, list: true, ints: true}
	var init gen.Val
	k := g.n(0, 9, "datakind")
	srcs := g.listVars(3)
	if k >= 7 && len(srcs) == 0 {
		k = 0
	}
	switch k {
	case 0, 1:
		v.kind, v.n = alMList, g.n(3, 6, "len")
		init = aCall("list", g.ints(v.n)...)
		g.stat("al/data-mutable-list")
	case 2, 3:
		v.kind, v.n = alLit, g.n(3, 6, "len")
		init = aQL(g.ints(v.n)...)
		g.stat("al/data-literal")
	case 4:
		v.kind, v.n, v.list = alVec, g.n(3, 5, "len"), false
		init = aCall("vector", g.ints(v.n)...)
		g.stat("al/data-vector")
	case 5:
		v.kind, v.n, v.ints = alNest, 4, false
		init = aCall("list", aCall("list", g.ints(3)...), aQL(g.ints(3)...), aCall("vector", g.ints(3)...), aI(int64(g.n(0, 9, "e"))))
		g.stat("al/data-nested")
	case 6:
		v.kind, v.n, v.ints = alNestLit, 4, false
		init = aQL(aL(g.ints(3)...), aL(g.ints(4)...), aI(int64(g.n(0, 9, "e"))), aL(g.ints(2)...))
		g.stat("al/data-nested-literal")
	case 7, 8:
		src := srcs[g.n(0, len(srcs)-1, "viewsrc")]
		v.kind, v.ints = alView, src.ints
		switch g.n(0, 2, "viewop") {
		case 0:
			init, v.n = aCall("cdr", aS(src.name)), src.n-1
		case 1:
			init, v.n = aCall("rest", aS(src.name)), src.n-1
		default:
			init, v.n = aCall("slice", aQS("list"), aS(src.name), aI(1), aI(int64(src.n))), src.n-1
		}
		g.stat("al/data-view")
	default:
		src := srcs[g.n(0, len(srcs)-1, "copysrc")]
		v.kind, v.ints, v.n = alCopy, src.ints, src.n
		if g.chance(50, "alias") {
			init = aS(src.name)
			g.stat("al/data-alias")
		} else {
			init = aCall("concat", aQS("list"), aS(src.name))
			g.stat("al/data-copy")
		}
	}
	g.vars = append(g.vars, v)
	g.forms = append(g.forms, aCall("set", aQS(name), init))
}

// arg draws one argument expression: mostly a data variable (so that the same
// object is reachable from the caller afterwards), sometimes an int.
func (g *alGen) arg() gen.Val {
	if len(g.vars) > 0 && g.chance(70, "argvar") {
		return aS(g.vars[g.n(0, len(g.vars)-1, "argwhich")].name)
	}
	return aI(int64(g.n(0, 9, "argint")))
}

// call builds a call of a drawn callee through a drawn route.
func (g *alGen) call() (gen.Val, alFn) {
	f := g.fns[g.n(0, len(g.fns)-1, "callee")]
	fname := func() gen.Val {
		if g.chance(25, "designator") {
			g.stat("al/quoted-symbol-designator")
			return aQS(f.name)
		}
		return aS(f.name)
	}
	nargs := func() int {
		if !f.rest {
			return g.n(f.req, f.req+f.opt, "nargs")
		}
		return g.n(f.req, f.req+f.opt+3, "nargs")
	}
	args := func(n int) []gen.Val {
		out := make([]gen.Val, n)
		for i := range out {
			out[i] = g.arg()
		}
		if n >= 2 && g.chance(30, "same-twice") {
			g.stat("al/same-object-twice-in-one-call")
			out[n-1] = out[0]
		}
		return out
	}
	route := g.n(0, 11, "route")
	if !f.rest && route >= 4 && route != 8 {
		route = route % 4
	}
	switch route {
	case 0:
		g.stat("al/route-direct")
		return aL(append([]gen.Val{aS(f.name)}, args(nargs())...)...), f
	case 1:
		g.stat("al/route-funcall")
		return aCall("funcall", append([]gen.Val{fname()}, args(nargs())...)...), f
	case 2:
		g.stat("al/route-macro-direct")
		return aL(append([]gen.Val{aS("via-call"), aS(f.name)}, args(nargs())...)...), f
	case 3:
		g.stat("al/route-apply-fresh-list")
		return aCall("apply", fname(), aCall("list", args(nargs())...)), f
	case 8:
		// callback: every element alone
		if f.req <= 1 {
			if lv := g.listVars(0); len(lv) > 0 {
				g.stat("al/route-map")
				return aCall("map", aQS("list"), fname(), aS(lv[g.n(0, len(lv)-1, "maplist")].name)), f
			}
		}
		fallthrough
	case 9:
		if f.req <= 2 && f.rest {
			if lv := g.listVars(0); len(lv) > 0 {
				g.stat("al/route-foldl")
				return aCall("foldl", fname(), g.arg(), aS(lv[g.n(0, len(lv)-1, "foldlist")].name)), f
			}
		}
		fallthrough
	default:
		// apply / unpack of a list held in a variable (or the kept rest list)
		k := 0
		switch route {
		case 4, 5, 10:
			k = 0
		case 6:
			k = 1
		case 7:
			k = g.n(2, 3, "nlead")
		default:
			k = g.n(0, 3, "nlead")
		}
		need := f.req - k
		if need < 0 {
			need = 0
		}
		var last gen.Val
		lv := g.listVars(need)
		switch {
		case need == 0 && g.chance(20, "apply-kept"):
			g.stat("al/apply-of-a-kept-rest-list")
			last = aS("kept")
		case len(lv) > 0:
			last = aS(lv[g.n(0, len(lv)-1, "applylist")].name)
		default:
			g.stat("al/route-apply-fresh-list")
			return aCall("apply", fname(), aCall("list", args(nargs())...)), f
		}
		lead := args(k)
		if k >= 1 && g.chance(25, "lead-is-last") {
			g.stat("al/same-object-twice-in-one-call")
			lead[0] = last
		}
		switch {
		case k == 0 && route == 5:
			g.stat("al/route-unpack")
			return aCall("unpack", fname(), last), f
		case k == 0 && route == 10:
			g.stat("al/route-macro-apply")
			return aL(aS("via-apply"), aS(f.name), last), f
		}
		g.stat(fmt.Sprintf("al/route-apply-%d-leading", k))
		return aCall("apply", append(append([]gen.Val{fname()}, lead...), last)...), f
	}
}

// observe probes everything either side can still reach.
func (g *alGen) observe() {
	all := []gen.Val{}
	for _, v := range g.vars {
		all = append(all, aS(v.name))
	}
	all = append(all, aS("kept"), aS("hist"))
	for _, r := range g.results {
		all = append(all, aCall("funcall", aS(r)))
	}
	g.forms = append(g.forms, g.probe(aCall("list", all...)))
}

func (g *alGen) step() {
	switch k := g.n(0, 9, "step"); {
	case k <= 4:
		call, f := g.call()
		name := fmt.Sprintf("r%d", g.nres)
		g.nres++
		g.forms = append(g.forms, aCall("set", aQS(name), g.probe(call)))
		if f.closure && call.L[0].K == "sym" && string(call.L[0].B) != "map" && string(call.L[0].B) != "foldl" {
			g.results = append(g.results, name)
		} else if g.chance(50, "sort-result") {
			// the caller sorts what the callee returned (often the rest list)
			g.stat("al/caller-sorts-result")
			g.forms = append(g.forms, g.probe(guarded(aS(name), g.sortOf(aS(name)))))
		}
	case k <= 6 && len(g.vars) > 0:
		v := g.vars[g.n(0, len(g.vars)-1, "mutvar")]
		if v.kind == alVec && g.chance(70, "append") {
			g.stat("al/caller-append!")
			g.forms = append(g.forms, g.probe(aCall("append!", aS(v.name), aI(int64(g.n(0, 9, "appended"))))))
			break
		}
		g.stat("al/caller-sorts-variable")
		if v.kind == alLit || v.kind == alNestLit {
			g.stat("al/caller-sorts-literal")
		}
		g.forms = append(g.forms, g.probe(g.sortOf(aS(v.name))))
	case k == 7:
		g.stat("al/caller-sorts-kept-rest-list")
		g.forms = append(g.forms, g.probe(guarded(aS("kept"), g.sortOf(aS("kept")))))
	case k == 8 && len(g.results) > 0:
		g.stat("al/caller-sorts-closure-captured-list")
		r := g.results[g.n(0, len(g.results)-1, "whichclosure")]
		g.forms = append(g.forms, g.probe(guarded(aCall("funcall", aS(r)), g.sortOf(aCall("funcall", aS(r))))))
	default:
		// a function holding a literal (or building a list) applies it and is run
		// twice: the literal evaluates to the same value both times
		g.stat("al/literal-in-function-run-twice")
		f := g.fns[g.n(0, len(g.fns)-1, "runcallee")]
		name := fmt.Sprintf("run%d", g.nres)
		g.nres++
		if g.chance(35, "const-site") {
			// one call SITE whose arguments are all constants, executed twice:
			// each execution builds its own argument list
			g.stat("al/constant-call-site-run-twice")
			na := f.req + g.n(0, f.opt, "constopt")
			if f.rest {
				na = f.req + f.opt + g.n(2, 4, "constrest")
			}
			consts := make([]gen.Val, na)
			for i := range consts {
				consts[i] = aI(int64(g.n(0, 9, "const")))
			}
			if na >= 3 {
				copy(consts[na-3:], g.ints(3))
			}
			var call gen.Val
			if g.chance(50, "const-funcall") {
				call = aCall("funcall", append([]gen.Val{aS(f.name)}, consts...)...)
			} else {
				call = aL(append([]gen.Val{aS(f.name)}, consts...)...)
			}
			body := []gen.Val{aS("let"), aL(aL(aS("r"), g.probe(call)))}
			if g.chance(60, "const-sort") {
				body = append(body, g.probe(guarded(aS("r"), g.sortOf(aS("r")))))
			}
			body = append(body, aS("r"))
			g.forms = append(g.forms,
				aL(aS("defun"), aS(name), aL(), aL(body...)),
				g.probe(aL(aS(name))), g.probe(aL(aS(name))))
			break
		}
		n := g.n(3, 5, "len")
		var init gen.Val
		if g.chance(70, "runlit") {
			init = aQL(g.ints(n)...)
		} else {
			init = aCall("list", g.ints(n)...)
		}
		var call gen.Val
		switch {
		case !f.rest:
			call = aL(aS(f.name), aS("l"))
		case g.chance(60, "run-apply0"):
			call = aCall("apply", aS(f.name), aS("l"))
		case g.chance(50, "run-unpack"):
			call = aCall("unpack", aS(f.name), aS("l"))
		default:
			call = aCall("apply", aS(f.name), aI(1), aS("l"))
		}
		body := []gen.Val{g.probe(call)}
		if g.chance(40, "run-sort") {
			body = append(body, g.probe(g.sortOf(aS("l"))))
		}
		body = append(body, aS("l"))
		g.forms = append(g.forms,
			aL(aS("defun"), aS(name), aL(), aL(append([]gen.Val{aS("let"), aL(aL(aS("l"), init))}, body...)...)),
			g.probe(aL(aS(name))), g.probe(aL(aS(name))))
	}
	g.observe()
}

func genArgList() *rapid.Generator[gen.Program] {
	return rapid.Custom(func(t *rapid.T) gen.Program {
		g := &alGen{t: t, stats: map[string]int{}}
		g.prelude()
		for i, n := 0, g.n(1, 3, "ncallees"); i < n; i++ {
			g.defCallee()
		}
		for i, n := 0, g.n(1, 3, "ndata"); i < n; i++ {
			g.defData()
		}
		for i, n := 0, g.n(2, 8, "nsteps"); i < n; i++ {
			if g.chance(15, "more-data") {
				g.defData()
			}
			g.step()
		}
		return gen.Program{Forms: g.forms, Stats: g.stats}
	})
}

func checkArgList(p gen.Program, c *vcommon.Ctx) *vcommon.Failure {
	return checkOpt(realCfg, false, p, c)
}

// TestArgListDocExamples runs the documentation's own examples for in-place
// mutation and views (docs/lang.md "Sharing, copying and mutation", docs/func.md
// stable-sort / slice, the stable-sort docstring) and the statement "a &rest
// parameter is a new list" through the reference AND the interpreter: both must
// print what the documentation says.  It guards the reference's sharing model
// (MutLists) against being fitted to the implementation.  Not part of check.py:
// go test -run TestArgListDocExamples ./c01/
func TestArgListDocExamples(t *testing.T) {
	cases := []struct{ name, src, want string }{
		{"lang.md: sorting a view sorts the source", `(set 'v (vector 5 4 3 2 1)) (stable-sort < (slice 'vector v 0 3)) v`, `(vector 3 4 5 2 1)`},
		{"lang.md: appending to a view never disturbs its source", `(set 'v (vector 10 20 30 40)) (append! (slice 'vector v 0 2) 999) v`, `(vector 10 20 30 40)`},
		{"func.md: append! on a view", `(set 'v (vector 10 20 30 40)) (set 'view (slice 'vector v 0 2)) (append! view 999)`, `(vector 10 20 999)`},
		{"func.md: concat takes a snapshot", `(set 'v (vector 5 4 3 2 1)) (set 'copy (concat 'vector (slice 'vector v 0 3))) (stable-sort < copy) v`, `(vector 5 4 3 2 1)`},
		{"func.md: stable-sort returns the sorted list", `(set 'test '(1 2 3)) (stable-sort > test)`, `'(3 2 1)`},
		{"docstring: a mutable list is sorted in place", `(set 'l (list 3 1 2)) (stable-sort < l) l`, `'(1 2 3)`},
		{"docstring: sorting a cdr view sorts that region of its source", `(set 'l (list 9 3 1 2)) (stable-sort < (cdr l)) l`, `'(9 1 2 3)`},
		{"docstring: a quoted literal is never modified", `(defun pr () (let ([lit '(3 1 2)]) (stable-sort < lit) lit)) (pr) (pr)`, `'(3 1 2)`},
		{"docstring: a literal's elements are sorted into a fresh list", `(stable-sort < '(3 1 2))`, `'(1 2 3)`},
		{"append! mutates in place and keeps identity", `(set 'v (vector 1)) (set 'w v) (append! v 2 3) w`, `(vector 1 2 3)`},
		{"rest list is new: apply, no leading arguments", `(defun sorted (&rest xs) (stable-sort < xs)) (set 'l (list 3 1 2)) (set 's (apply sorted l)) (list s l)`, `'('(1 2 3) '(3 1 2))`},
		{"rest list is new: behind required parameters", `(defun tail-sorted (a &rest xs) (stable-sort < xs)) (set 'l (list 9 3 1 2)) (set 's (apply tail-sorted l)) (list s l)`, `'('(1 2 3) '(9 3 1 2))`},
		{"rest list is new: kept list does not follow the applied list", `(defun keep (&rest xs) (lambda () xs)) (set 'l (list 3 1 2)) (set 'k (apply keep l)) (stable-sort < l) (list l (funcall k))`, `'('(1 2 3) '(3 1 2))`},
		{"rest list is new: unpack", `(defun sorted (&rest xs) (stable-sort < xs)) (set 'l (list 3 1 2)) (unpack sorted l) l`, `'(3 1 2)`},
		{"a positional parameter is the argument", `(defun s (x) (stable-sort < x)) (set 'l (list 3 1 2)) (s l) l`, `'(1 2 3)`},
		{"elements of a rest list are the caller's objects", `(defun s (&rest xs) (stable-sort < (car xs))) (set 'l (list 3 1 2)) (s l 5) l`, `'(1 2 3)`},
	}
	for _, tc := range cases {
		p := gen.Program{Forms: parseForms(tc.src)}
		_, rv, rerr, abort := refRun(p)
		if abort != "" || rerr != nil {
			t.Errorf("%s: reference failed: %v %s", tc.name, rerr, abort)
			continue
		}
		if txt, ok := refint.Print(rv); !ok || txt != tc.want {
			t.Errorf("%s: reference prints %q, documentation says %q", tc.name, txt, tc.want)
		}
		out := vcommon.NewRuntime(realCfg).Load(p.Source())
		if out.IsErr || out.Text != tc.want {
			t.Errorf("%s: interpreter gives %s %q, documentation says %q", tc.name, outcomeStr(out), out.Text, tc.want)
		}
	}
}
