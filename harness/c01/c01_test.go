// C01: core-language programs evaluate as the language reference prescribes.
// Differential check of the real interpreter against refint, the independent
// definitional interpreter, on generated programs.
package c01

import (
	"fmt"
	"strings"
	"testing"

	"github.com/luthersystems/elps/verifharness/gen"
	"github.com/luthersystems/elps/verifharness/refint"
	"github.com/luthersystems/elps/verifharness/vcommon"
)

func refRun(p gen.Program) (in *refint.Interp, val *refint.V, err *refint.Err, abort string) {
	return refRunOpt(p, false)
}

// refRunOpt: std also installs the reference's standard-library packages.
func refRunOpt(p gen.Program, std bool) (in *refint.Interp, val *refint.V, err *refint.Err, abort string) {
	in = refint.New()
	// the documented sharing model: cdr/rest/slice are views, stable-sort sorts
	// a mutable list in place and a literal into a fresh list (NOTES.md, "arglist")
	in.MutLists = true
	if std {
		in.InstallStdlib()
	}
	pos := 0
	forms := make([]*refint.V, len(p.Forms))
	for i, f := range p.Forms {
		forms[i] = refint.FromVal(f, &pos)
	}
	val, err, abort = in.Run(forms)
	return
}

func refTrace(in *refint.Interp) string {
	var b strings.Builder
	for _, e := range in.Trace {
		b.WriteString(e.Tag)
		b.WriteByte('|')
		b.WriteString(e.Payload)
		b.WriteByte('\n')
	}
	return b.String()
}

var realCfg = vcommon.Cfg{MaxSteps: 300000, MaxPhysical: 3000, MaxAlloc: 200000, NoStdlib: true}
var realCfgStd = vcommon.Cfg{MaxSteps: 300000, MaxPhysical: 3000, MaxAlloc: 200000}

func isLimit(o vcommon.Outcome) bool {
	if !o.IsErr {
		return false
	}
	switch o.Cond {
	case "step-limit-exceeded", "eval-nesting-exceeded", "context-cancelled":
		return true
	}
	return strings.Contains(o.Msg, "stack height exceeded") || strings.Contains(o.Msg, "tail iteration") ||
		strings.Contains(o.Msg, "exceeds maximum") || strings.Contains(o.Msg, "macro expansion depth")
}

func checkProgram(p gen.Program, c *vcommon.Ctx) *vcommon.Failure { return checkWith(realCfg, p, c) }

// checkStd runs the same oracle with the standard library loaded (the full
// documented embedding); the core sub-properties skip it for speed.
func checkStd(p gen.Program, c *vcommon.Ctx) *vcommon.Failure { return checkWith(realCfgStd, p, c) }

func checkWith(cfg vcommon.Cfg, p gen.Program, c *vcommon.Ctx) *vcommon.Failure {
	return checkOpt(cfg, false, p, c)
}

// checkOpt is the oracle.  ext (the "ext"/"stdlib" sub-properties, ext_test.go)
// gives the reference the standard-library packages when the runtime has them
// and also compares what was written to stderr (trace).
func checkOpt(cfg vcommon.Cfg, ext bool, p gen.Program, c *vcommon.Ctx) *vcommon.Failure {
	src := p.Source()
	in, rv, rerr, abort := refRunOpt(p, ext && !cfg.NoStdlib)
	if abort != "" {
		c.Class("skip/ref-abort")
		return nil
	}
	if in.Unsupported != "" {
		c.Class("skip/unsupported")
		if ext {
			c.Class("unsupported/" + in.Unsupported)
		}
		return nil
	}
	rt := vcommon.NewRuntime(cfg)
	out := rt.Load(src)
	if out.Panic {
		return vcommon.Failf("internal-panic", "program raised an internal panic: %s\n%s", out.Msg, src)
	}
	if isLimit(out) {
		c.Class("skip/real-limit")
		return nil
	}
	for k, n := range p.Stats {
		if n > 0 {
			c.Class("has/" + k)
		}
	}
	nontrivial := strings.Count(src, "(") >= 3
	if rerr != nil {
		c.Class("outcome/error")
	} else {
		c.Class("outcome/value")
	}
	if len(in.Trace) >= 2 {
		c.Class("probes>=2")
	}
	if nontrivial {
		c.NonTrivial(src)
		c.Note(src)
	}
	// 1. effect trace
	if got, want := vcommon.TraceString(rt.Trace), refTrace(in); got != want {
		return vcommon.Failf(classify("trace", src), "effect traces differ\nprogram:\n%s\nreal:\n%s\nreference:\n%s\nreal outcome: %s / reference: %s",
			src, got, want, outcomeStr(out), refOutcome(rv, rerr))
	}
	if ext {
		for k := range in.Used {
			c.Class("ran/" + k)
		}
		if f := checkStderr(in, rt, src, c); f != nil {
			return f
		}
	}
	// 2. value or condition
	if rerr != nil {
		if !out.IsErr {
			return vcommon.Failf(classify("value-for-error", src), "reference signals %q (%s) but the interpreter returns %s\nprogram:\n%s", rerr.Cond, rerr.Msg, out.Canon, src)
		}
		if out.Cond != rerr.Cond {
			return vcommon.Failf(classify("condition", src), "condition differs: real %q (%s) reference %q (%s)\nprogram:\n%s", out.Cond, out.Msg, rerr.Cond, rerr.Msg, src)
		}
		return nil
	}
	if out.IsErr {
		return vcommon.Failf(classify("error-for-value", src), "interpreter signals %q (%s) but the reference returns %s\nprogram:\n%s", out.Cond, out.Msg, refint.Canon(rv), src)
	}
	if want := refint.Canon(rv); out.Canon != want {
		return vcommon.Failf(classify("value", src), "values differ: real %s reference %s\nprogram:\n%s", out.Canon, want, src)
	}
	// 3. rendered text for closure-free results
	if txt, ok := refint.Print(rv); ok {
		c.Class("printed-compared")
		if txt != out.Text {
			return vcommon.Failf(classify("print", src), "printed forms differ: real %q reference %q\nprogram:\n%s", out.Text, txt, src)
		}
	}
	return nil
}

func outcomeStr(o vcommon.Outcome) string {
	if o.IsErr {
		return fmt.Sprintf("error %s (%s)", o.Cond, o.Msg)
	}
	return o.Canon
}

func refOutcome(v *refint.V, e *refint.Err) string {
	if e != nil {
		return fmt.Sprintf("error %s (%s)", e.Cond, e.Msg)
	}
	return refint.Canon(v)
}

// classify derives the known-finding key: the disagreement kind plus the
// builtin families the (minimal) program uses, so that a different
// disagreement has a different key.
func classify(kind, src string) string {
	var feats []string
	for _, f := range []string{"any?", "all?", "stable-sort", "insert-sorted", "handler-bind"} {
		if strings.Contains(src, "("+f+" ") {
			feats = append(feats, f)
		}
	}
	if len(feats) == 0 {
		return kind
	}
	return kind + "/" + strings.Join(feats, "+")
}

func TestCheck(t *testing.T) {
	vcommon.Main(t, "C01",
		vcommon.S("small", 120000, 3000000, gen.GenProgram(2, 25, 4), checkProgram),
		vcommon.S("medium", 60000, 1500000, gen.GenProgram(5, 70, 6), checkProgram),
		vcommon.S("large", 8000, 200000, gen.GenProgram(6, 160, 8), checkStd),
		// user-defined types, defconst, trace, qualified-symbol; string/math/base64
		// (ext_test.go, gen/ext.go, refint/ext.go)
		vcommon.S("ext", 40000, 600000, gen.GenProgramExt(5, 70, 6, 22, 0), checkExt),
		vcommon.S("stdlib", 8000, 160000, gen.GenProgramExt(5, 70, 6, 6, 30), checkExtStd),
		// argument lists are built afresh for every call; in-place mutation on
		// either side of a call (arglist_test.go)
		vcommon.S("arglist", 16000, 320000, genArgList(), checkArgList),
	)
}
