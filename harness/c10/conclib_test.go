package c10

// conclib: 8-12 independent runtimes, each on its own goroutine, each running
// its OWN program that spends most of its time inside one library encoder /
// decoder / formatter / parser (on its own data, so that state leaking from a
// neighbour is visible), several rounds.  Every transcript must equal the
// transcript the same program gives when it runs alone.  The same
// sub-property is re-run in a binary built with the race detector: a data race
// between independent runtimes means the output depends on scheduling.

import (
	"fmt"
	"os"
	"runtime"
	"strings"
	"sync"

	"github.com/luthersystems/elps/verifharness/gen"
	"github.com/luthersystems/elps/verifharness/vcommon"
	"pgregory.net/rapid"
)

var hotCfg = vcommon.Cfg{MaxSteps: 6000000, MaxPhysical: 2000, MaxAlloc: 400000}

type hot struct {
	setup string // forms evaluated once
	body  string // expression evaluated `reps` times; yields a printable value
}

func qs(s string) string { return fmt.Sprintf("%q", s) }

// numbers that differ from program to program (k is the program's salt)
func saltInts(k, n int) []string {
	var o []string
	for j := 0; j < n; j++ {
		switch j % 5 {
		case 0:
			o = append(o, fmt.Sprint(k*1000+j*37))
		case 1:
			o = append(o, fmt.Sprint(-(k*7 + j)))
		case 2:
			o = append(o, fmt.Sprint(9007199254740993+int64(k)*1024+int64(j)))
		case 3:
			o = append(o, fmt.Sprint(j*k%10))
		default:
			o = append(o, fmt.Sprint(int64(k+1)*1234567891+int64(j)))
		}
	}
	return o
}

func saltFloats(k, n int) []string {
	var o []string
	for j := 0; j < n; j++ {
		switch j % 4 {
		case 0:
			o = append(o, fmt.Sprintf("%d.%03d", k+j, (k*125+j*375)%1000))
		case 1:
			o = append(o, fmt.Sprintf("%d.5e%d", k%9+1, 10+(j+k)%20))
		case 2:
			o = append(o, fmt.Sprintf("-0.%04d", (k*13+j)%10000))
		default:
			o = append(o, fmt.Sprintf("%d.0e-%d", k%97+1, 3+(j+k)%9))
		}
	}
	return o
}

func saltWords(k, n int) []string {
	frag := []string{"alpha", "Beta", "gämma", "δelta", "tab\there", "quote\"d", "back\\slash", "line\nfeed", "</tag>", "snow☃", "x,y", "  pad  "}
	var o []string
	for j := 0; j < n; j++ {
		o = append(o, fmt.Sprintf("%s-%d-%s", frag[(k+j)%len(frag)], k*31+j, frag[(k*7+j*3)%len(frag)]))
	}
	return o
}

func quoteAll(ws []string) []string {
	var o []string
	for _, w := range ws {
		o = append(o, qs(w))
	}
	return o
}

func jsonDoc(k, n int) string {
	var parts []string
	for j := 0; j < n; j++ {
		switch j % 6 {
		case 0:
			parts = append(parts, fmt.Sprint(k*100+j))
		case 1:
			parts = append(parts, fmt.Sprintf("%d.%d", k+j, j%10))
		case 2:
			parts = append(parts, fmt.Sprintf(`"s%dé\n\t\"%d"`, k, j))
		case 3:
			parts = append(parts, fmt.Sprintf(`{"a%d":[%d,%d.25e3],"b":null,"c":{"d":"%d"}}`, k, j, k, k*j))
		case 4:
			parts = append(parts, fmt.Sprintf("-%de%d", k%9+1, j%15))
		default:
			parts = append(parts, `[true,false,null,"",[],{}]`)
		}
	}
	return "[" + strings.Join(parts, ",") + "]"
}

type engine struct {
	name string
	mk   func(g *dg, k int) hot
}

var engines = []engine{
	{"json-dump-nums", func(g *dg, k int) hot {
		n := g.n(8, 64, "n")
		vals := append(saltInts(k, n/2+1), saltFloats(k, n/2)...)
		fn := g.pick("dump", "(json:dump-string data)", "(json:dump-string data)", "(to-string (json:dump-bytes data))", "(json:dump-string data :string-numbers true)", "(to-string (json:message-bytes (json:dump-message data)))")
		return hot{"(set 'data (vector " + strings.Join(vals, " ") + "))", fn}
	}},
	{"json-dump-bytes", func(g *dg, k int) hot {
		var bs []string
		for _, w := range saltWords(k, g.n(4, 24, "n")) {
			bs = append(bs, "(to-bytes "+qs(w)+")")
		}
		return hot{"(set 'data (list " + strings.Join(bs, " ") + " (to-bytes " + qs(strings.Repeat(fmt.Sprint(k), 40)) + ")))", "(json:dump-string data)"}
	}},
	{"json-dump-strings", func(g *dg, k int) hot {
		return hot{"(set 'data (vector " + strings.Join(quoteAll(saltWords(k, g.n(4, 32, "n"))), " ") + "))", g.pick("dump", "(json:dump-string data)", "(to-string (json:dump-bytes data))")}
	}},
	{"json-dump-map", func(g *dg, k int) hot {
		w := saltWords(k, 6)
		i, f := saltInts(k, 6), saltFloats(k, 6)
		var b strings.Builder
		b.WriteString("(set 'data (sorted-map")
		for j := 0; j < 6; j++ {
			fmt.Fprintf(&b, " %s (sorted-map \"i\" %s \"f\" %s \"l\" (list %s %s) 'sym (to-bytes %s))", qs(w[j]), i[j], f[j], i[(j+1)%6], qs(w[(j+2)%6]), qs(w[(j+3)%6]))
		}
		b.WriteString("))")
		return hot{b.String(), "(json:dump-string data)"}
	}},
	{"json-load", func(g *dg, k int) hot {
		doc := jsonDoc(k, g.n(6, 30, "n"))
		mode := g.pick("mode", "", "", " :string-numbers true", " :exact-integers true")
		return hot{"(set 'doc " + qs(doc) + ")", g.pick("load", "(format-string \"{}\" (json:load-string doc"+mode+"))", "(json:dump-string (json:load-string doc"+mode+"))", "(format-string \"{}\" (json:load-bytes (to-bytes doc)"+mode+"))", "(json:dump-string (json:load-message (json:dump-message (json:load-string doc))))")}
	}},
	{"format-string", func(g *dg, k int) hot {
		i, f, w := saltInts(k, 4), saltFloats(k, 4), quoteAll(saltWords(k, 4))
		return hot{fmt.Sprintf("(set 'm (sorted-map %s %s 'b (vector %s %s)))", w[0], f[0], i[1], w[1]),
			fmt.Sprintf("(format-string \"i={} f={} s={} m={} l={} {} {}%d\" %s %s %s m (list %s %s %s) '%s (to-bytes %s))", k, i[0], f[1], w[2], i[2], f[2], w[3], "sym", w[0])}
	}},
	{"to-string-nums", func(g *dg, k int) hot {
		n := g.n(8, 40, "n")
		return hot{"(set 'data (list " + strings.Join(append(saltFloats(k, n), saltInts(k, n/2)...), " ") + "))", "(map 'list to-string data)"}
	}},
	{"parse-nums", func(g *dg, k int) hot {
		n := g.n(8, 40, "n")
		return hot{"(set 'fs (list " + strings.Join(quoteAll(saltFloats(k, n)), " ") + "))\n(set 'is (list " + strings.Join(quoteAll(saltInts(k, n)), " ") + "))",
			"(list (map 'list to-float fs) (map 'list to-int is))"}
	}},
	{"time-format", func(g *dg, k int) hot {
		ts := fmt.Sprintf("20%02d-%02d-%02dT%02d:%02d:%02d.%09d%s", k%80+10, k%12+1, k%28+1, k%24, k%60, (k*7)%60, k*104729%1000000000, g.pick("zone", "Z", "+05:30", "-08:00", "+01:00"))
		d := fmt.Sprintf("%dh%dm%d.%03ds", k%50, k%60, k%60, k%1000)
		return hot{fmt.Sprintf("(set 't0 (time:parse-rfc3339-nano %q))\n(set 'd0 (time:parse-duration %q))", ts, d),
			g.pick("tfmt", "(list (time:format-rfc3339-nano (time:time-add t0 d0)) (time:format-rfc3339 t0))",
				fmt.Sprintf("(time:format-rfc3339-nano (time:parse-rfc3339-nano %q))", ts),
				fmt.Sprintf("(list (time:duration-ms (time:parse-duration %q)) (time:duration-ns d0) (time:duration-s (time:time-from t0 (time:time-add t0 d0))) (time:time< t0 (time:time-add t0 d0)))", d))}
	}},
	{"regexp", func(g *dg, k int) hot {
		pat := fmt.Sprintf("^(a+)%d[b-%c]*(x|y%d)?$", k%10, 'c'+rune(k%20), k%7)
		text := fmt.Sprintf("aaa%dbcbc%s", k%10, g.pick("tail", "x", "", "zz"))
		return hot{fmt.Sprintf("(set 're (regexp:regexp-compile %q))", pat),
			fmt.Sprintf("(list (regexp:regexp-match? re %q) (regexp:regexp-match? %q %q) (regexp:regexp-pattern re) (regexp:regexp-match? re \"q%d\"))", text, pat+"|k", text, k)}
	}},
	{"string", func(g *dg, k int) hot {
		w := saltWords(k, 5)
		return hot{fmt.Sprintf("(set 's %q)\n(set 'l (list %s))", strings.Join(w, ","), strings.Join(quoteAll(w), " ")),
			"(list (string:uppercase s) (string:lowercase s) (string:split s \",\") (string:join l \"-\") (string:repeat (first l) 3) (string:trim s \"alph-\") (string:trim-space (nth l 1)) (string:trim-left s \"a\") (string:trim-right s \"d \"))"}
	}},
	{"base64", func(g *dg, k int) hot {
		w := saltWords(k, 3)
		return hot{fmt.Sprintf("(set 's %q)\n(set 'b (to-bytes %q))", w[0]+w[1], w[2]),
			"(list (to-string (base64:encode s)) (to-string (base64:decode (base64:encode b))) (base64:encode b) (to-string (base64:decode (to-string (base64:encode s)))))"}
	}},
	{"printer", func(g *dg, k int) hot {
		i, f, w := saltInts(k, 4), saltFloats(k, 4), quoteAll(saltWords(k, 4))
		return hot{fmt.Sprintf("(set 'data (list %s %s %s (vector %s %s (sorted-map %s %s 'k%d (list %s))) (to-bytes %s) 'sym%d :kw%d '(a (b %s)) (let ((cap%d %s)) (lambda (x) (+ x cap%d)))))",
			i[0], f[0], w[0], i[1], f[1], w[1], f[2], k, w[2], w[3], k, k, i[2], k, i[3], k),
			g.pick("print", "(format-string \"{}\" data)", "(to-string (format-string \"{} {}\" data data))", "(map 'list (lambda (e) (format-string \"{}\" e)) data)")}
	}},
	{"errors", func(g *dg, k int) hot {
		i, w := saltInts(k, 2), quoteAll(saltWords(k, 2))
		return hot{fmt.Sprintf("(defun thrower%d (x) (error 'kind-%d x %s (sorted-map %s x)))", k, k, w[0], w[1]),
			fmt.Sprintf("(handler-bind ((condition (lambda (c &rest d) (format-string \"{} {}\" c d)))) (thrower%d %s))", k, i[0]) + ""}
	}},
	{"schema", func(g *dg, k int) hot {
		return hot{fmt.Sprintf("(s:deftype \"t%d\" s:int (s:gt %d) (s:lt %d))\n(s:deftype \"m%d\" s:sorted-map (s:has-key \"a\" t%d) (s:may-have-key \"b\" s:string (s:len %d)))", k, k, k+100, k, k, k%5),
			fmt.Sprintf("(list (ignore-errors (s:validate t%d %d) 'ok) (handler-bind ((condition (lambda (c &rest d) (format-string \"{} {}\" c d)))) (s:validate m%d (sorted-map \"a\" %d \"b\" \"%s\"))))", k, k+1, k, k-1, strings.Repeat("x", k%7))}
	}},
	{"maps-sort", func(g *dg, k int) hot {
		i, w := saltInts(k, 9), quoteAll(saltWords(k, 4))
		return hot{fmt.Sprintf("(set 'm (sorted-map %s 1 %s 2 'z%d 3 :k%d 4))\n(set 'l (list %s))", w[0], w[1], k, k, strings.Join(i, " ")),
			fmt.Sprintf("(list (keys m) (stable-sort < (map 'list identity l)) (reverse 'list l) (concat 'string %s %s) (assoc m %s %d) (select 'list (lambda (x) (> x 0)) l) (foldl + 0 l) (equal? m (assoc m \"q\" 1)))", w[2], w[3], w[2], k)}
	}},
	{"math", func(g *dg, k int) hot {
		fn := g.pick("mathfn", "math:sqrt", "math:sin", "math:exp", "math:ln", "math:atan", "math:floor", "math:tanh")
		var xs []string
		for j := 0; j < 24; j++ {
			xs = append(xs, fmt.Sprintf("%d.%d", (k+j)%50, (k*3+j)%10))
		}
		return hot{"(set 'data (list " + strings.Join(xs, " ") + "))", fmt.Sprintf("(list (map 'list %s data) (pow %d.5 3) (mod %d 7) (/ %d 3))", fn, k%9, k, k)}
	}},
	{"reader", func(g *dg, k int) hot {
		i, f, w := saltInts(k, 3), saltFloats(k, 3), quoteAll(saltWords(k, 3))
		src := fmt.Sprintf("(list %s %s %s 'sym%d '(a %s (b . ())) (vector %s %s) (sorted-map %s %s)) ; comment %d", i[0], f[0], w[0], k, i[1], f[1], w[1], w[2], i[2], k)
		src = strings.Replace(src, "(b . ())", "(b)", 1)
		return hot{"(set 'src " + qs(src) + ")", g.pick("read", "(format-string \"{}\" (load-string src))", "(format-string \"{}\" (load-bytes (to-bytes src)))", "(format-string \"{}\" (eval (car (list (quote (list "+i[0]+" "+f[1]+"))))))")}
	}},
	{"elpspath", func(g *dg, k int) hot {
		i, w := saltInts(k, 4), quoteAll(saltWords(k, 2))
		return hot{fmt.Sprintf("(set 'data (sorted-map \"a\" (vector %s (sorted-map \"b\" (list %s %s %s))) %s %s))", i[0], i[1], i[2], i[3], w[0], w[1]),
			fmt.Sprintf("(list (elpspath:? data \"a\" 1 \"b\" 2) (elpspath:?set data \"a\" 0 %d) (elpspath:?del data \"a\" 1 \"b\" 0) (elpspath:? data \"a\" 1 \"b\" '(range 0 2)) (elpspath:?nil data %s))", k, w[0])}
	}},
	{"sweep", func(g *dg, k int) hot {
		var calls []string
		for j, n := 0, g.n(2, 5, "ncalls"); j < n; j++ {
			calls = append(calls, "(ignore-errors (format-string \"{}\" "+genCall(g.t, 1)+"))")
		}
		return hot{fmt.Sprintf("(set 'salt %d)", k), "(list salt " + strings.Join(calls, " ") + ")"}
	}},
}

// HotProg is one program of a conclib case.
type HotProg struct {
	Engine string `json:"engine"`
	Src    string `json:"src"`
	Reps   int    `json:"reps,omitempty"` // the turn count written in Src's (dotimes (i N) ...)
}

// raceReps is the turn count used in the race-detector binary (cost only: the
// detector needs the accesses to happen, not to happen often).
const raceReps = 25

func (p HotProg) src() string {
	if raceBuild() && p.Reps > raceReps {
		return strings.Replace(p.Src, fmt.Sprintf("(dotimes (i %d)", p.Reps), fmt.Sprintf("(dotimes (i %d)", raceReps), 1)
	}
	return p.Src
}

func (g *dg) hotProg(k int, forced int) HotProg {
	if forced < 0 && g.n(0, 11, "general") == 0 {
		if g.n(0, 1, "stdforms") == 0 {
			return HotProg{Engine: "general", Src: gen.GenProgramExtra(4, 50, 5).Draw(g.t, "p").Source()}
		}
		return HotProg{Engine: "forms", Src: genProg().Draw(g.t, "p").Src}
	}
	if forced < 0 {
		forced = uniformIndex(g.t, len(engines), "engine")
	}
	e := engines[forced%len(engines)]
	h := e.mk(g, k)
	name := e.name
	reps := g.pick("reps", "40", "150", "150", "400", "400", "1200")
	body := h.body
	var b strings.Builder
	b.WriteString(h.setup + "\n")
	b.WriteString("(set 'prev 'none) (set 'changes ()) (set 'same 0)\n")
	if g.n(0, 3, "dep-on-i") == 0 {
		// the data changes from turn to turn: every rendering is kept
		reps = g.pick("repsdep", "20", "60", "120")
		body = "(list i " + body + " (format-string \"{} {}\" i (* i 1.5)) (json:dump-string (list i (* i 0.25) (to-string i))))"
		name += "+i"
	}
	fmt.Fprintf(&b, "(dotimes (i %s)\n  (let ((out %s))\n    (if (equal? out prev) (set 'same (+ same 1))\n      (progn (set 'changes (cons out changes)) (set 'prev out)))))\n(list same (length changes) changes)\n", reps, body)
	nreps := 0
	fmt.Sscanf(reps, "%d", &nreps)
	return HotProg{Engine: name, Src: b.String(), Reps: nreps}
}

// ConcLib is one case.
type ConcLib struct {
	Progs  []HotProg `json:"progs"`
	Rounds int       `json:"rounds"`
	Late   int       `json:"late"` // every Late-th runtime is built after the start signal
}

func genConcLib() *rapid.Generator[ConcLib] {
	return rapid.Custom(func(t *rapid.T) ConcLib {
		g := &dg{t}
		c := ConcLib{Rounds: g.n(1, 2, "rounds"), Late: g.n(2, 5, "late")}
		n := g.n(8, 12, "nprogs")
		// a case is either all one engine (neighbours inside the same code at the
		// same time, on different data) or a mix
		same := g.n(0, 2, "same-engine") > 0
		salt0 := g.n(1, 900, "salt")
		forced := -1
		if same {
			forced = uniformIndex(t, len(engines), "case-engine")
		}
		for i := 0; i < n; i++ {
			c.Progs = append(c.Progs, g.hotProg(salt0+i*97, forced))
		}
		return c
	})
}

func raceBuild() bool { return os.Getenv("VERIF_RACE") == "1" }

func hotTranscript(rt *vcommon.Rt, src string) string {
	o := rt.Load(src)
	var b strings.Builder
	if o.IsErr {
		fmt.Fprintf(&b, "ERR cond=%s msg=%q full=%q", o.Cond, o.Msg, o.Val.String())
	} else {
		fmt.Fprintf(&b, "VAL %s", o.Text)
	}
	fmt.Fprintf(&b, "\nsteps=%d\nstderr=%q\n", rt.Env.Runtime.Steps(), rt.Stderr.String())
	for _, e := range rt.Trace {
		fmt.Fprintf(&b, "%s|%s|%d\n", e.Tag, e.Payload, e.Steps)
	}
	// the process-wide validator counter is a recorded finding of the older legs
	return maskValidators(b.String())
}

func checkConcLib(cs ConcLib, c *vcommon.Ctx) *vcommon.Failure {
	n := len(cs.Progs)
	if n == 0 || n > 64 || cs.Rounds < 1 || cs.Rounds > 8 {
		return nil
	}
	rounds := cs.Rounds
	race := raceBuild()
	if race {
		// in the race-detector binary the detector is the oracle: one round, few
		// turns per program, no solo reference (cost only)
		rounds = 1
	}
	if runtime.GOMAXPROCS(0) < 4 {
		runtime.GOMAXPROCS(4)
	}
	solo := make([]string, n)
	engs := map[string]bool{}
	okProgs := 0
	for i, p := range cs.Progs {
		if race {
			solo[i] = "VAL"
		} else {
			solo[i] = hotTranscript(vcommon.NewRuntime(hotCfg), p.src())
		}
		if !engs[p.Engine] {
			engs[p.Engine] = true
			c.Class("engine/" + p.Engine)
		}
		if strings.HasPrefix(solo[i], "VAL") {
			okProgs++
		}
	}
	base := map[string]bool{}
	for e := range engs {
		base[strings.TrimSuffix(e, "+i")] = true
	}
	if len(base) == 1 {
		c.Class("all-one-engine")
	}
	c.Class(fmt.Sprintf("goroutines/%d", n))
	if okProgs*2 < n {
		c.Class("mostly-failing-programs")
	} else {
		var key strings.Builder
		for _, p := range cs.Progs {
			key.WriteString(p.Src + "\x00")
		}
		c.NonTrivial(key.String())
		c.Note(cs.Progs[0].Src + "\n=> " + clipS(solo[0], 600))
	}
	late := cs.Late
	if late < 1 {
		late = 1 << 30
	}
	for r := 0; r < rounds; r++ {
		got := make([]string, n)
		start := make(chan struct{})
		var wg sync.WaitGroup
		for i := range cs.Progs {
			wg.Add(1)
			go func(i int) {
				defer wg.Done()
				defer func() {
					if x := recover(); x != nil {
						got[i] = fmt.Sprintf("GO-PANIC %v", x)
					}
				}()
				var rt *vcommon.Rt
				if (i+1)%late != 0 {
					rt = vcommon.NewRuntime(hotCfg)
				}
				<-start
				if rt == nil {
					rt = vcommon.NewRuntime(hotCfg)
				}
				got[i] = hotTranscript(rt, cs.Progs[i].src())
			}(i)
		}
		close(start)
		wg.Wait()
		for i := range cs.Progs {
			if strings.HasPrefix(got[i], "GO-PANIC") {
				return vcommon.Failf("conclib/go-panic/"+cs.Progs[i].Engine, "a Go panic escaped a runtime while %d other runtimes were evaluating: %s\n%s", n-1, got[i], cs.Progs[i].Src)
			}
			if race {
				continue
			}
			if got[i] != solo[i] {
				again := hotTranscript(vcommon.NewRuntime(hotCfg), cs.Progs[i].src())
				if again != solo[i] {
					return vcommon.Failf(differKey("conclib/solo-differs/"+cs.Progs[i].Engine, solo[i], again), "two runs of one program, each alone in a fresh runtime, differ (after %d other runtimes ran concurrently)\n%s\n--- first:\n%s\n--- later:\n%s", n-1, cs.Progs[i].Src, clipS(solo[i], 3000), clipS(again, 3000))
				}
				a, b := firstDiffLine(solo[i], got[i])
				return vcommon.Failf(differKey("conclib/differs/"+cs.Progs[i].Engine, solo[i], got[i]),
					"a program's transcript changed while %d other runtimes were evaluating their own programs on other goroutines (round %d)\n%s\n--- alone:\n%s\n--- concurrent:\n%s", n-1, r+1, cs.Progs[i].Src, clipS(a, 3000), clipS(b, 3000))
			}
		}
	}
	return nil
}
