// C10: evaluation is deterministic — value, printed output, error message and
// step count do not depend on map iteration order, addresses, scheduling,
// other runtimes that ran earlier, or the process.
//
// Legs: repeat / predecessor / process (this file), shared-sweep and
// shared-values (shared_test.go: values handed out by builtins are written
// through in place by an earlier runtime), conclib (conclib_test.go: many
// runtimes inside the same library code at once; re-run under -race).
package c10

import (
	"bufio"
	"crypto/sha256"
	"encoding/hex"
	"encoding/json"
	"fmt"
	"github.com/luthersystems/elps/lisp"
	"os"
	"os/exec"
	"regexp"
	"runtime"
	"strings"
	"sync"
	"testing"

	"github.com/luthersystems/elps/verifharness/gen"
	"github.com/luthersystems/elps/verifharness/vcommon"
	"pgregory.net/rapid"
)

var cfg = vcommon.Cfg{MaxSteps: 400000, MaxPhysical: 2000, MaxAlloc: 200000}

// transcript is everything a host can observe from one load.
func transcript(src string) string {
	rt := vcommon.NewRuntime(cfg)
	o := rt.Load(src)
	var b strings.Builder
	if o.IsErr {
		fmt.Fprintf(&b, "ERR cond=%s msg=%q full=%q", o.Cond, o.Msg, o.Val.String())
		// what a Go host reads: err.Error() and the stack trace
		fmt.Fprintf(&b, " goerr=%q trace=", (*lisp.ErrorVal)(o.Val).Error())
		if st := o.Val.CallStack(); st != nil {
			for _, f := range st.Frames {
				fmt.Fprintf(&b, "[%s:%s]", f.Package, f.Name)
			}
		}
	} else {
		fmt.Fprintf(&b, "VAL %s", o.Text)
	}
	fmt.Fprintf(&b, "\nsteps=%d\nstderr=%q\n", rt.Env.Runtime.Steps(), rt.Stderr.String())
	for _, e := range rt.Trace {
		fmt.Fprintf(&b, "%s|%s|%d\n", e.Tag, e.Payload, e.Steps)
	}
	return b.String()
}

// The names of anonymous schema validators come from a process-wide counter
// (libschema.GenSymbol, a documented design decision): a difference that
// disappears when those names are masked gets its own key, so that it can be
// listed as a known finding without hiding any other difference.
var validatorName = regexp.MustCompile(`_validation_fun_\d+`)

func maskValidators(s string) string { return validatorName.ReplaceAllString(s, "_validation_fun_N") }

func differKey(base, a, b string) string {
	if a != b && maskValidators(a) == maskValidators(b) {
		return base + "/anonymous-validator-name"
	}
	return base
}

var ptrShaped = regexp.MustCompile(`0x[0-9a-f]{6,}|\(\*[a-zA-Z.]+\)\(0x`)

// ---------- generator biased towards order/address-sensitive renderings ----------

type dg struct {
	t *rapid.T
}

func (g *dg) n(lo, hi int, l string) int { return rapid.IntRange(lo, hi).Draw(g.t, l) }
func (g *dg) pick(l string, o ...string) string {
	return rapid.SampledFrom(o).Draw(g.t, l)
}

var keyPool = []string{"a", "b", "c", "d", "e", "zz", "k1", "k2", "alpha", "B", "A", "_x", "10", "9"}

func (g *dg) mapExpr(depth int) string {
	n := g.n(3, 7, "nkeys")
	var b strings.Builder
	b.WriteString("(sorted-map")
	for i := 0; i < n; i++ {
		k := g.pick("key", keyPool...)
		switch g.n(0, 2, "spelling") {
		case 0:
			fmt.Fprintf(&b, " %q", k)
		case 1:
			fmt.Fprintf(&b, " '%s", k)
		default:
			fmt.Fprintf(&b, " :%s", k)
		}
		b.WriteString(" " + g.val(depth-1))
	}
	b.WriteString(")")
	return b.String()
}

func (g *dg) closure() string {
	n := g.n(2, 5, "ncap")
	var binds, uses []string
	for i := 0; i < n; i++ {
		v := g.pick("cap", "z", "a", "m", "k", "b2", "Q", "aa", "x1")
		binds = append(binds, fmt.Sprintf("[%s %d]", v, g.n(0, 9, "cv")))
		uses = append(uses, v)
	}
	return fmt.Sprintf("(let (%s) (lambda (q &optional r) (list q %s)))", strings.Join(binds, " "), strings.Join(uses, " "))
}

func (g *dg) val(depth int) string {
	if depth <= 0 {
		return g.pick("atom", "1", "2.5", "\"s\"", "'sym", "()", "true", ":kw", "-7", "1e21")
	}
	switch g.n(0, 9, "val") {
	case 0, 1:
		return g.mapExpr(depth)
	case 2:
		return g.closure()
	case 3:
		return fmt.Sprintf("(list %s %s)", g.val(depth-1), g.val(depth-1))
	case 4:
		return fmt.Sprintf("(vector %s %s)", g.val(depth-1), g.val(depth-1))
	case 5:
		return g.pick("fn", "car", "map", "(lambda (x) x)", "+", "json:dump-string", "let")
	case 6:
		return fmt.Sprintf("(to-bytes %q)", g.pick("bytes", "", "ab", "\xff\x00"))
	default:
		return g.pick("atom", "1", "2.5", "\"s\"", "'sym", "()", "true", ":kw", "-7")
	}
}

func (g *dg) form() string {
	v := g.val(3)
	switch g.n(0, 39, "form") {
	case 37, 38, 39:
		// a builtin chosen from the registry, called on boundary inputs; the
		// value it hands out is written through in place and the call repeated
		return g.sharedForm()
	case 35, 36:
		// a package whose export list names several unbound symbols: which one
		// use-package complains about, and what it imported before that
		names := []string{"zeta", "alpha", "mid", "beta", "omega", "delta"}
		var exp []string
		for i, n := 0, g.n(2, 5, "nexports"); i < n; i++ {
			exp = append(exp, "'"+g.pick("expname", names...))
		}
		bound := g.pick("boundname", names...)
		return fmt.Sprintf("(in-package 'plib%d)\n(export %s)\n(set '%s 4)\n(in-package 'user)\n(handler-bind ((condition (lambda (c &rest d) (probe 1 c d)))) (use-package 'plib%d))\n(list %s)",
			g.n(0, 2, "plib"), strings.Join(exp, " "), bound, g.n(0, 2, "plib2"), strings.Join(func() []string {
				var o []string
				for _, n := range names {
					o = append(o, "(ignore-errors "+n+")")
				}
				return o
			}(), " "))
	case 33, 34:
		// written timestamps carry their own offset: arithmetic on them and their
		// formatting do not consult the host's time zone
		ts := g.pick("stamp", "2024-03-30T12:00:00+01:00", "2024-03-09T12:00:00-05:00", "2024-10-26T23:30:00+02:00", "2024-11-02T12:00:00-04:00", "2024-06-01T00:00:00+05:30", "2024-03-30T12:00:00Z")
		d := g.pick("dur", "48h", "24h", "-72h", "1h", "8760h")
		return fmt.Sprintf("(list (time:format-rfc3339 (time:time-add (time:parse-rfc3339 %q) (time:parse-duration %q))) (time:format-rfc3339-nano (time:parse-rfc3339-nano %q)))", ts, d, ts)
	case 31, 32:
		// a map is enumerated, changed in place (also by operations that find
		// nothing to change) and enumerated again
		ops := []string{}
		for i, n := 0, g.n(1, 4, "nmapops"); i < n; i++ {
			switch g.n(0, 4, "mapop") {
			case 0:
				ops = append(ops, fmt.Sprintf("(dissoc! m2 %q)", g.pick("absent", "nokey", "zzz", "a", "k1")))
			case 1:
				ops = append(ops, fmt.Sprintf("(dissoc! m2 '%s)", g.pick("absentsym", "nokey", "b", "alpha")))
			case 2:
				ops = append(ops, fmt.Sprintf("(assoc! m2 %q %s)", g.pick("newkey", "a", "q9", "B"), g.val(1)))
			case 3:
				ops = append(ops, "(keys m2)")
			default:
				ops = append(ops, "(format-string \"{}\" m2)")
			}
		}
		return fmt.Sprintf("(progn (set 'm2 %s) (keys m2) %s (list (keys m2) m2 (json:dump-string m2) (equal? m2 m2)))", g.mapExpr(2), strings.Join(ops, " "))
	case 28:
		// listings printed for the user: every name, in a defined order
		return g.pick("helpform", "(help:help-package-symbols 'user true)", "(help:help-package-symbols 'lisp true)", "(help:help-package-symbols \"json\" true)",
			"(help:help-package-symbols 'string)", "(help:help-package 'time)", "(help:help-packages)", "(help:help 'car)", "(help:help 'no-such-thing)")
	case 29, 30:
		// an invalid pattern given as text: the error (with its location and
		// stack) belongs to THIS program, whoever used the same text before
		bad := g.pick("badre", "a(b", "[z-a]", "*x", "(?P<n>", "x{2,1}", "\\\\")
		return fmt.Sprintf("(progn %s (handler-bind ((condition (lambda (c &rest d) (probe 1 c d) (rethrow)))) (regexp:%s \"%s\"%s)))",
			g.val(1), g.pick("refn", "regexp-match?", "regexp-match?", "regexp-compile", "regexp-pattern"), bad, g.pick("rearg", " \"abc\"", "", " \"abc\""))
	case 26:
		// an anonymous schema validator fails: its generated name shows up in
		// the Go error string and the stack trace
		return fmt.Sprintf("(progn %s (handler-bind ((condition (lambda (c &rest d) (probe 1 c d)))) (%s 1 2)))",
			strings.Repeat("(s:gt 1) ", g.n(0, 3, "nvalidators")), g.pick("anon", "(s:gt 5)", "(s:len 2)", "(s:in 1 2)", "(s:has-key \"k\")"))
	case 27:
		return fmt.Sprintf("(progn %s((%s) 1 2))", strings.Repeat("(s:lt 1) ", g.n(0, 3, "nvalidators")), g.pick("anon", "s:gt 5", "s:len 2", "s:in 1 2", "s:not s:int"))
	case 23:
		// a runtime-wide JSON mode switch: it must stay inside THIS runtime
		return fmt.Sprintf("(json:%s %s)", g.pick("jsw", "use-exact-integers", "use-string-numbers"), g.pick("jswv", "true", "true", "false"))
	case 24, 25:
		// numbers whose decoding/encoding depends on the JSON mode in effect
		switch g.n(0, 2, "jnum") {
		case 0:
			return fmt.Sprintf("(handler-bind ((condition (lambda (c &rest d) (probe 1 c d)))) (json:load-string \"%s\"))",
				g.pick("jdoc", "9007199254740993", "[12345678901234567, 1.5, 2, -9007199254740993]", "{\\\"n\\\":123456789012345678,\\\"f\\\":1e2}", "1e400", "12345678901234567890"))
		case 1:
			return fmt.Sprintf("(json:dump-string (list 9007199254740993 2.5 1e21 -7 %s))", g.val(1))
		default:
			return fmt.Sprintf("(json:load-string (json:dump-string (sorted-map \"n\" 9007199254740993 \"f\" 0.1 \"v\" %s)))", g.val(1))
		}
	case 0:
		return v
	case 1:
		return fmt.Sprintf("(debug-print %s %s)", v, g.val(2))
	case 2:
		return fmt.Sprintf("(error 'boom %s %s)", v, g.val(2))
	case 3:
		return fmt.Sprintf("(keys %s)", g.mapExpr(2))
	case 4:
		return fmt.Sprintf("(equal? %s %s)", g.mapExpr(2), g.mapExpr(2))
	case 5:
		return fmt.Sprintf("(json:dump-string %s)", g.mapExpr(3))
	case 6:
		return fmt.Sprintf("(format-string \"{} and {}\" %s %s)", v, g.val(2))
	case 7:
		return fmt.Sprintf("(car %s)", v) // type error message embeds the value's type
	case 8:
		return fmt.Sprintf("(%s 1 2)", v) // non-function head: message renders the value
	case 9:
		return fmt.Sprintf("(assoc (dissoc %s %q) '%s %s)", g.mapExpr(2), g.pick("k", keyPool...), g.pick("k2", keyPool...), g.val(1))
	case 10:
		return fmt.Sprintf("(handler-bind ((condition (lambda (c &rest d) (probe 1 c d)))) (error 'x %s))", v)
	case 11:
		return fmt.Sprintf("(map 'list (lambda (k) (list k (get m k))) (keys m))")
	case 12:
		return fmt.Sprintf("(progn (set 'm %s) (foldl (lambda (acc k) (concat 'string acc (to-string k))) \"\" (keys m)))", g.mapExpr(2))
	case 13:
		return fmt.Sprintf("(list (gensym) (gensym) %s)", v)
	case 14:
		return fmt.Sprintf("(aref (vector %s) 5)", v)
	case 15:
		return fmt.Sprintf("(json:load-string (json:dump-string %s))", g.mapExpr(2))
	case 16:
		return fmt.Sprintf("(s:validate (s:make-validator \"t\" s:sorted-map (s:has-key \"a\" s:int) (s:no-other-keys)) %s)", g.mapExpr(2))
	case 20, 21:
		// several members of one JSON object fail to load: which error is reported?
		big := []string{"99999999999999999999", "88888888888888888888", "123456789012345678901234", "-77777777777777777777", "1e400", "[1,2,3,4,5,6,7,8,9]"}
		var mem []string
		for i, n := 0, g.n(2, 5, "nmem"); i < n; i++ {
			mem = append(mem, fmt.Sprintf("\\\"%s\\\":%s", g.pick("jk", keyPool...), g.pick("jv", big...)))
		}
		mode := g.pick("jmode", "", " :exact-integers true", " :string-numbers true")
		return fmt.Sprintf("(handler-bind ((condition (lambda (c &rest d) (probe 1 c d)))) (json:load-string \"{%s}\"%s))", strings.Join(mem, ","), mode)
	case 18, 19:
		// keyword binding: unknown keywords (several at once), omitted keys
		keys := []string{"a", "b", "secret", "host", "zz", "k1"}
		formals := []string{g.pick("f1", keys...), g.pick("f2", keys...)}
		var call strings.Builder
		for i, n := 0, g.n(0, 4, "nkw"); i < n; i++ {
			fmt.Fprintf(&call, " :%s %d", g.pick("kw", keys...), g.n(0, 99, "kwv"))
		}
		return fmt.Sprintf("(defun kf (&key %s %s) (list %s %s))\n(handler-bind ((condition (lambda (c &rest d) (probe 1 c d)))) (kf%s))",
			formals[0], formals[1], formals[0], formals[1], call.String())
	default:
		return fmt.Sprintf("(assert (nil? %s) \"failed on {}\" %s)", v, g.val(2))
	}
}

type Prog struct {
	Src string `json:"src"`
}

func genProg() *rapid.Generator[Prog] {
	return rapid.Custom(func(t *rapid.T) Prog {
		if rapid.IntRange(0, 3).Draw(t, "general") == 0 {
			return Prog{gen.GenProgramExtra(4, 50, 5).Draw(t, "p").Source()}
		}
		g := &dg{t}
		n := rapid.IntRange(1, 4).Draw(t, "nforms")
		var fs []string
		fs = append(fs, "(set 'm "+g.mapExpr(2)+")")
		for i := 0; i < n; i++ {
			fs = append(fs, g.form())
		}
		return Prog{strings.Join(fs, "\n") + "\n"}
	})
}

type Case struct {
	P     Prog   `json:"p"`
	Noise []Prog `json:"noise"`
}

func genCase() *rapid.Generator[Case] {
	return rapid.Custom(func(t *rapid.T) Case {
		return Case{P: genProg().Draw(t, "p"), Noise: rapid.SliceOfN(genProg(), 0, 6).Draw(t, "noise")}
	})
}

func nontrivial(tr string) bool {
	if strings.Count(tr, "(sorted-map ") > 0 && strings.Count(tr, "\" ")+strings.Count(tr, " '") >= 3 {
		return true
	}
	return strings.Contains(tr, "(lambda (q") || strings.Contains(tr, "ERR ") && strings.Contains(tr, "(")
}

func checkRepeat(cs Case, c *vcommon.Ctx) *vcommon.Failure {
	t0 := transcript(cs.P.Src)
	if nontrivial(t0) {
		c.NonTrivial(cs.P.Src)
		c.Note(cs.P.Src + "\n=> " + t0)
	}
	if strings.HasPrefix(t0, "ERR") {
		c.Class("outcome/error")
	} else {
		c.Class("outcome/value")
	}
	if strings.Contains(t0, "(sorted-map ") {
		c.Class("renders-map")
	}
	if strings.Contains(t0, "(lambda ") {
		c.Class("renders-closure")
	}
	if m := ptrShaped.FindString(t0); m != "" {
		return vcommon.Failf("address-in-output", "a pointer-shaped token %q appears in the transcript\n%s\n%s", m, cs.P.Src, t0)
	}
	// (a) repeated fresh runtimes
	for i := 0; i < 4; i++ {
		if ti := transcript(cs.P.Src); ti != t0 {
			return vcommon.Failf(differKey("repeat/differs", t0, ti), "two fresh runtimes gave different transcripts for the same source\n%s\n--- first:\n%s\n--- later:\n%s", cs.P.Src, t0, ti)
		}
	}
	// (b) after unrelated activity in other runtimes, on other goroutines too
	var wg sync.WaitGroup
	for _, n := range cs.Noise {
		wg.Add(1)
		go func(src string) {
			defer wg.Done()
			_ = transcript(src)
		}(n.Src)
	}
	tConc := transcript(cs.P.Src)
	wg.Wait()
	if tConc != t0 {
		return vcommon.Failf(differKey("concurrent/differs", t0, tConc), "transcript changed while other runtimes were evaluating on other goroutines\n%s\n--- alone:\n%s\n--- concurrent:\n%s", cs.P.Src, t0, tConc)
	}
	if len(cs.Noise) > 0 {
		c.Class("with-noise")
	}
	if tAfter := transcript(cs.P.Src); tAfter != t0 {
		return vcommon.Failf(differKey("after-activity/differs", t0, tAfter), "transcript changed after unrelated activity in the same process\n%s\n--- before:\n%s\n--- after:\n%s", cs.P.Src, t0, tAfter)
	}
	return nil
}

// ---------- cross-process ----------

type Batch struct {
	Progs []Prog `json:"progs"`
}

func genBatch() *rapid.Generator[Batch] {
	return rapid.Custom(func(t *rapid.T) Batch {
		return Batch{rapid.SliceOfN(genProg(), 6, 6).Draw(t, "progs")}
	})
}

func digest(s string) string {
	h := sha256.Sum256([]byte(s))
	return hex.EncodeToString(h[:8])
}

// TestTranscriptChild is the child-process side: it reads a batch file and
// prints one digest per program.
func TestTranscriptChild(t *testing.T) {
	path := os.Getenv("C10_BATCH_FILE")
	if path == "" {
		t.Skip("child mode only")
	}
	b, err := os.ReadFile(path)
	if err != nil {
		t.Fatal(err)
	}
	var batch Batch
	if err := json.Unmarshal(b, &batch); err != nil {
		t.Fatal(err)
	}
	w := bufio.NewWriter(os.Stdout)
	for i, p := range batch.Progs {
		tr := transcript(p.Src)
		fmt.Fprintf(w, "C10DIGEST %d %s %s\n", i, digest(tr), digest(maskValidators(tr)))
	}
	w.Flush()
}

func childDigests(path string, gomaxprocs int) (map[int]string, error) {
	cmd := exec.Command(os.Args[0], "-test.run", "^TestTranscriptChild$", "-test.v")
	// the child also lives in another time zone (one with daylight saving)
	tz := "Europe/Berlin"
	if gomaxprocs == 1 {
		tz = "America/New_York"
	}
	cmd.Env = append(os.Environ(), "C10_BATCH_FILE="+path, fmt.Sprintf("GOMAXPROCS=%d", gomaxprocs), "VERIF_OUT=", "TZ="+tz)
	out, err := cmd.CombinedOutput()
	if err != nil {
		return nil, fmt.Errorf("child failed: %v\n%s", err, out)
	}
	res := map[int]string{}
	for _, line := range strings.Split(string(out), "\n") {
		var i int
		var d, dm string
		if n, _ := fmt.Sscanf(line, "C10DIGEST %d %s %s", &i, &d, &dm); n == 3 {
			res[i] = d + " " + dm
		}
	}
	return res, nil
}

func checkProcess(b Batch, c *vcommon.Ctx) *vcommon.Failure {
	dir := os.Getenv("VERIF_SCRATCH")
	if dir == "" {
		dir = os.TempDir()
	}
	f, err := os.CreateTemp(dir, "c10-batch-*.json")
	if err != nil {
		c.Class("skip/no-scratch")
		return nil
	}
	defer os.Remove(f.Name())
	raw, _ := json.Marshal(b)
	f.Write(raw)
	f.Close()
	local := map[int]string{}
	for i, p := range b.Progs {
		tr := transcript(p.Src)
		local[i] = digest(tr) + " " + digest(maskValidators(tr))
	}
	for _, procs := range []int{1, runtime.NumCPU()} {
		got, err := childDigests(f.Name(), procs)
		if err != nil {
			c.Class("skip/child-failed")
			return nil
		}
		for i, p := range b.Progs {
			if got[i] != local[i] {
				key := "process/differs"
				if g, l := strings.Fields(got[i]), strings.Fields(local[i]); len(g) == 2 && len(l) == 2 && g[1] == l[1] {
					key += "/anonymous-validator-name"
				}
				return vcommon.Failf(key, "a separate process (GOMAXPROCS=%d) produced a different transcript (digest %s vs %s)\n%s\n--- here:\n%s", procs, got[i], local[i], p.Src, transcript(p.Src))
			}
		}
	}
	c.NonTrivial(string(raw))
	return nil
}

// ---------- what another runtime evaluated immediately before must not matter ----------

type Pred struct {
	A Prog `json:"a"`
	B Prog `json:"b"`
	V Prog `json:"v"`
}

func genKwProg() *rapid.Generator[Prog] {
	return rapid.Custom(func(t *rapid.T) Prog {
		g := &dg{t}
		keys := []string{"a", "b", "secret", "host"}
		var fs []string
		for i, n := 0, rapid.IntRange(1, 3).Draw(t, "ncalls"); i < n; i++ {
			f1, f2 := g.pick("f1", keys...), g.pick("f2", keys...)
			var call strings.Builder
			for j, m := 0, g.n(0, 3, "nkw"); j < m; j++ {
				fmt.Fprintf(&call, " :%s %d", g.pick("kw", append(keys, "zz", "yy")...), g.n(1, 99, "kwv"))
			}
			if g.n(0, 5, "odd") == 0 {
				call.WriteString(" :a") // odd number of keyword arguments
			}
			if g.n(0, 7, "nonkw") == 0 {
				call.WriteString(" 5 6") // a non-keyword where a keyword is expected
			}
			fs = append(fs, fmt.Sprintf("(defun kf%d (&key %s %s) (list %s %s))\n(handler-bind ((condition (lambda (c &rest d) (probe %d c d)))) (probe %d (kf%d%s)))", i, f1, f2, f1, f2, i, i, i, call.String()))
		}
		return Prog{strings.Join(fs, "\n") + "\n"}
	})
}

func genPred() *rapid.Generator[Pred] {
	return rapid.Custom(func(t *rapid.T) Pred {
		pick := func(l string) Prog {
			if rapid.IntRange(0, 2).Draw(t, l+"-kind") > 0 {
				return genKwProg().Draw(t, l)
			}
			return genProg().Draw(t, l)
		}
		return Pred{A: pick("a"), B: pick("b"), V: pick("v")}
	})
}

func checkPred(p Pred, c *vcommon.Ctx) *vcommon.Failure {
	_ = transcript(p.A.Src)
	t1 := transcript(p.V.Src)
	_ = transcript(p.B.Src)
	t2 := transcript(p.V.Src)
	if strings.Contains(p.V.Src, "&key") {
		c.Class("victim-uses-keywords")
	}
	c.NonTrivial(p.A.Src + "\x00" + p.B.Src + "\x00" + p.V.Src)
	if t1 != t2 {
		return vcommon.Failf(differKey("predecessor/differs", t1, t2), "the transcript of a program depends on what ANOTHER runtime evaluated just before it in the same process\nprogram:\n%s--- after predecessor A:\n%s\n%s--- after predecessor B:\n%s\n%s", p.V.Src, p.A.Src, t1, p.B.Src, t2)
	}
	return nil
}

func TestCheck(t *testing.T) {
	if os.Getenv("C10_BATCH_FILE") != "" {
		t.Skip("child mode")
	}
	vcommon.Main(t, "C10",
		vcommon.S("repeat", 16000, 400000, genCase(), checkRepeat),
		vcommon.S("predecessor", 24000, 600000, genPred(), checkPred),
		vcommon.S("process", 480, 10000, genBatch(), checkProcess),
		vcommon.E("shared-sweep", enumShared, checkShared),
		vcommon.S("shared-values", 4800, 120000, genShared(), checkShared),
		vcommon.S("conclib", 400, 16000, genConcLib(), checkConcLib),
	)
}
