package c10

// shared-sweep / shared-values: a value handed out by a builtin (or bound to an
// exported constant) must belong to the runtime that asked for it.  An earlier
// runtime obtains the result of a call on boundary inputs and applies every
// in-place mutator to it; a later, fresh runtime that evaluates the same call
// must print what a fresh runtime printed before.  The calls are enumerated
// from the live registry (every exported symbol of every package), so a new
// builtin is covered without touching this file.

import (
	"fmt"
	"sort"
	"strings"
	"sync"

	"github.com/luthersystems/elps/lisp"
	"github.com/luthersystems/elps/verifharness/vcommon"
	"pgregory.net/rapid"
)

type regEntry struct {
	Name    string   // pkg:sym
	Kind    string   // "fun", "special", "const"
	Formals []string // declared parameter names (generator hint only)
}

var (
	regOnce    sync.Once
	regEntries []regEntry
)

// not enumerated: the builtins the property exempts (clock, sleep, file
// loading), the harness's own host builtins, package switching (it only makes
// the rest of the program unbound), and the help/testing packages (they print
// listings / register tests and return nothing).
var regSkip = map[string]bool{
	"lisp:load-file": true, "time:sleep": true, "time:utc-now": true, "time:time-elapsed": true,
	"lisp:in-package": true,
}

func registry() []regEntry {
	regOnce.Do(func() {
		rt := vcommon.NewRuntime(vcommon.Cfg{MaxSteps: 1000})
		reg := rt.Env.Runtime.Registry
		for _, pn := range reg.PackageNames() {
			if pn == "user" || pn == "help" || pn == "testing" {
				continue
			}
			p := reg.Package(pn)
			for _, s := range p.Externals() {
				v, ok := p.Symbol(s)
				q := pn + ":" + s
				if !ok || regSkip[q] {
					continue
				}
				e := regEntry{Name: q, Kind: "const"}
				if v.Type == lisp.LFun {
					e.Kind = "fun"
					if v.IsSpecialFun() || v.IsMacro() {
						e.Kind = "special"
					}
					if len(v.Cells) > 0 && v.Cells[0] != nil {
						for _, c := range v.Cells[0].Cells {
							e.Formals = append(e.Formals, c.Str)
						}
					}
				}
				regEntries = append(regEntries, e)
			}
		}
		sort.Slice(regEntries, func(i, j int) bool { return regEntries[i].Name < regEntries[j].Name })
	})
	return regEntries
}

// boundary values: empty and singleton members of every type, the exported
// singletons and constants, natives.
var boundaryPool = []string{
	`""`, `(to-bytes "")`, `()`, `(vector)`, `(sorted-map)`, `0`, `0.0`, `1`, `-1`, `true`, `false`,
	`"a"`, `'(1)`, `(vector 1)`, `(to-bytes "ab")`, `(sorted-map "k" ())`, `json:null`, `math:pi`, `math:inf`,
	`'list`, `'vector`, `'bytes`, `'string`, `:k`, `'sym`, `identity`,
	`"[]"`, `"{}"`, `"null"`, `"[[],{},\"\",0]"`, `"0s"`, `"1970-01-01T00:00:00Z"`,
	`(regexp:regexp-compile "")`, `(time:parse-rfc3339 "1970-01-01T00:00:00Z")`, `(time:parse-duration "0s")`,
}

var corePool = []string{`""`, `()`, `0`, `(to-bytes "")`, `(sorted-map)`, `(vector)`, `true`, `"a"`}

// candidates proposes typed boundary arguments for a declared parameter name.
func candidates(formal string) []string {
	f := strings.ToLower(formal)
	has := func(subs ...string) bool {
		for _, x := range subs {
			if strings.Contains(f, x) {
				return true
			}
		}
		return false
	}
	switch {
	case has("type-spec"):
		return []string{`'list`, `'vector`, `'bytes`, `'string`}
	case has("json-string"):
		return []string{`""`, `"[]"`, `"{}"`, `"null"`, `"\"\""`, `"0"`, `"[[],{},\"\",0,null]"`, `"{\"k\":[]}"`}
	case has("json-bytes", "json-message"):
		return []string{`(to-bytes "")`, `(to-bytes "[]")`, `(to-bytes "{}")`, `(to-bytes "null")`, `(to-bytes "[[],{},\"\",0,null]")`, `"[]"`}
	case has("base64"):
		return []string{`""`, `(to-bytes "")`, `"AA=="`, `"YQ=="`}
	case has("source-code"):
		return []string{`""`, `"()"`, `"(list)"`, `"\"\""`, `(to-bytes "")`, `(to-bytes "(vector)")`}
	case has("timestamp"):
		return []string{`""`, `"1970-01-01T00:00:00Z"`, `"0001-01-01T00:00:00Z"`, `"1970-01-01T00:00:00.000000001+00:00"`}
	case has("duration-string"):
		return []string{`""`, `"0s"`, `"1ns"`, `"0"`}
	case has("datetime") || f == "start" || f == "end":
		return []string{`(time:parse-rfc3339 "1970-01-01T00:00:00Z")`, `(time:parse-rfc3339 "0001-01-01T00:00:00Z")`, `0`, `1`, `-1`}
	case has("duration"):
		return []string{`(time:parse-duration "0s")`, `(time:parse-duration "1ns")`, `0`}
	case has("pattern") || f == "re":
		return []string{`""`, `"a*"`, `(regexp:regexp-compile "")`, `(regexp:regexp-compile "a*")`}
	case has("format"):
		return []string{`""`, `"{}"`, `"{}{}"`}
	case has("fn", "fun", "pred", "less", "binary") || f == "f" || f == "g":
		return []string{`identity`, `<`, `(lambda (&rest a) ())`, `list`, `(lambda (&rest a) true)`}
	case has("map"):
		return []string{`(sorted-map)`, `(sorted-map "k" ())`, `()`, `(sorted-map "" "")`}
	case has("key", "field"):
		return []string{`"k"`, `'k`, `:k`, `""`}
	case has("index", "indices", "stop", "step", "count") || f == "n" || f == "i":
		return []string{`0`, `1`, `-1`}
	case has("bool"):
		return []string{`true`, `false`, `()`}
	case has("bytes", "byte-seq") || f == "data":
		return []string{`(to-bytes "")`, `(to-bytes "a")`, `""`, `()`, `(vector)`}
	case has("str", "sep", "cutset", "text", "name", "sym"):
		return []string{`""`, `"a"`, `'a`, `" "`}
	case has("seq", "list", "lis", "vec", "steps", "args") || f == "a" || f == "b":
		return []string{`()`, `(vector)`, `'(1)`, `(vector 1)`, `""`, `(to-bytes "")`, `0`, `(sorted-map)`}
	case has("number", "real", "radians", "base", "quotient") || f == "x":
		return []string{`0`, `0.0`, `1`, `-1`, `math:inf`, `-0.0`}
	case has("native"):
		return []string{`(time:parse-duration "0s")`, `(regexp:regexp-compile "")`, `0`, `""`}
	}
	return nil
}

// positional formals (the first `required` of them are mandatory), the &rest
// name and the keyword names
func splitFormals(formals []string) (pos []string, required int, rest string, keys []string) {
	mode := 0
	for _, f := range formals {
		switch f {
		case "&optional":
			mode = 1
			continue
		case "&rest":
			mode = 2
			continue
		case "&key":
			mode = 3
			continue
		}
		switch mode {
		case 0:
			pos = append(pos, f)
			required++
		case 1:
			pos = append(pos, f)
		case 2:
			rest = f
		case 3:
			keys = append(keys, f)
		}
	}
	return
}

const sweepCap = 220

// sweepCalls lists the calls of one registry entry on boundary inputs: every
// arity the formals allow up to 4, every tuple of typed boundary candidates
// (the whole boundary pool for one-argument calls), thinned evenly to sweepCap.
func sweepCalls(e regEntry) []string {
	if e.Kind == "const" {
		return []string{e.Name}
	}
	pos, required, rest, keys := splitFormals(e.Formals)
	names := append([]string{}, pos...)
	if rest != "" {
		for len(names) < len(pos)+2 && len(names) < 4 {
			names = append(names, rest)
		}
	}
	if max := 4; len(names) > max && len(names) > required {
		if required > max {
			max = required
		}
		names = names[:max]
	}
	var calls []string
	calls = append(calls, "("+e.Name+")")
	for ar := 1; ar <= len(names); ar++ {
		if ar < required {
			continue // only an arity error
		}
		cands := make([][]string, ar)
		total := 1
		for i := 0; i < ar; i++ {
			c := candidates(names[i])
			if ar == 1 {
				c = append(append([]string{}, c...), boundaryPool...)
			} else if c == nil {
				c = corePool
			} else if ar == 2 {
				c = append(append([]string{}, c...), corePool[:4]...)
			}
			cands[i] = c
			total *= len(c)
		}
		limit := sweepCap
		if ar == 1 {
			limit = total
		}
		step := 1
		if total > limit {
			// a stride coprime with the number of tuples visits every candidate
			// of every position
			for step = (total + limit - 1) / limit; gcd(step, total) != 1; step++ {
			}
		}
		for t := 0; t < total; t += step {
			var b strings.Builder
			b.WriteString("(" + e.Name)
			x := t
			for i := 0; i < ar; i++ {
				b.WriteString(" " + cands[i][x%len(cands[i])])
				x /= len(cands[i])
			}
			b.WriteString(")")
			calls = append(calls, b.String())
		}
	}
	// keyword arguments on top of the first one-argument calls
	for _, k := range keys {
		for _, c := range candidates(pos0(pos)) {
			calls = append(calls, fmt.Sprintf("(%s %s :%s true)", e.Name, c, k))
		}
	}
	return calls
}

func gcd(a, b int) int {
	for b != 0 {
		a, b = b, a%b
	}
	return a
}

func pos0(pos []string) string {
	if len(pos) == 0 {
		return ""
	}
	return pos[0]
}

// ---------- the in-place mutators ----------

// R is the target expression, P an integer payload (a valid byte), Q a string
// payload.  Removals come first and additions last, so that the net effect on
// an empty as well as on a populated shared value is a change.
var mutators = []struct{ name, tmpl string }{
	{"dissoc!", `(dissoc! R (first (keys R)))`},
	{"?del!", `(elpspath:?del! R 0)`},
	{"?nil!", `(elpspath:?nil! R 0)`},
	{"stable-sort", `(stable-sort (lambda (a b) (string> (format-string "{}" a) (format-string "{}" b))) R)`},
	{"append!", `(append! R P)`},
	{"append-bytes!", `(append-bytes! R Q)`},
	{"assoc!", `(assoc! R Q P)`},
	{"assoc!sym", `(assoc! R 'kP Q)`},
	{"?set!", `(elpspath:?set! R 0 Q)`},
	{"?set!key", `(elpspath:?set! R "e" P)`},
	{"append!first", `(append! (first R) P)`},
	{"assoc!first", `(assoc! (first R) Q P)`},
	{"append-bytes!first", `(append-bytes! (first R) Q)`},
	{"append!val", `(append! (get R (first (keys R))) P)`},
	{"assoc!val", `(assoc! (get R (first (keys R))) Q P)`},
	{"?set!deep", `(elpspath:?set! R 0 0 P)`},
}

func mutatorNames() []string {
	var o []string
	for _, m := range mutators {
		o = append(o, m.name)
	}
	return o
}

func mutatorTmpl(name string) string {
	for _, m := range mutators {
		if m.name == name {
			return m.tmpl
		}
	}
	return ""
}

// Shared is one case: the calls, which mutators the earlier runtime applies
// (in this order) to each result, and the payloads it writes.
type Shared struct {
	Fn    string   `json:"fn"`
	Calls []string `json:"calls"`
	Muts  []string `json:"muts"`
	P     int      `json:"p"`
	Q     string   `json:"q"`
}

const guardOpen = `(handler-bind ((condition (lambda (c &rest d) (probe "e" c d) 'call-failed))) `

// observerSrc evaluates every call and prints the result in every way a
// program can look at it.
func (s Shared) observerSrc() string {
	var b strings.Builder
	for i, c := range s.Calls {
		fmt.Fprintf(&b, "(set 'v %s%s))\n", guardOpen, c)
		fmt.Fprintf(&b, "(probe \"o%d\" v (ignore-errors (format-string \"{}\" v)) (ignore-errors (length v)) (ignore-errors (to-string v)) (ignore-errors (json:dump-string v)) (ignore-errors (time:format-rfc3339-nano v)) (ignore-errors (time:duration-ns v)) (ignore-errors (regexp:regexp-pattern v)) (ignore-errors (keys v)))\n", i)
	}
	return b.String()
}

// mutatorSrc obtains every result and writes through it.
func (s Shared) mutatorSrc() string {
	var b strings.Builder
	b.WriteString("(set 'ok 0)\n")
	rep := strings.NewReplacer("R", "r", "P", fmt.Sprint(s.P), "Q", fmt.Sprintf("%q", s.Q))
	for _, c := range s.Calls {
		fmt.Fprintf(&b, "(set 'r (ignore-errors %s))\n", c)
		for _, m := range s.Muts {
			if t := mutatorTmpl(m); t != "" {
				fmt.Fprintf(&b, "(ignore-errors %s (set 'ok (+ ok 1)))\n", rep.Replace(t))
			}
		}
	}
	b.WriteString("(probe \"ok\" ok)\n")
	return b.String()
}

var sharedCfg = vcommon.Cfg{MaxSteps: 4000000, MaxPhysical: 2000, MaxAlloc: 200000}

func transcriptCfg(src string, cfg vcommon.Cfg) (string, *vcommon.Rt) {
	rt := vcommon.NewRuntime(cfg)
	o := rt.Load(src)
	var b strings.Builder
	if o.IsErr {
		fmt.Fprintf(&b, "ERR cond=%s msg=%q full=%q\n", o.Cond, o.Msg, o.Val.String())
	} else {
		fmt.Fprintf(&b, "VAL %s\n", o.Text)
	}
	fmt.Fprintf(&b, "steps=%d\nstderr=%q\n", rt.Env.Runtime.Steps(), rt.Stderr.String())
	for _, e := range rt.Trace {
		fmt.Fprintf(&b, "%s|%s|%d\n", e.Tag, e.Payload, e.Steps)
	}
	// the process-wide validator counter is a recorded finding of the older legs
	return maskValidators(b.String()), rt
}

// firstDiffLine names the first observation on which two transcripts disagree.
func firstDiffLine(a, b string) (string, string) {
	la, lb := strings.Split(a, "\n"), strings.Split(b, "\n")
	for i := 0; i < len(la) && i < len(lb); i++ {
		if la[i] != lb[i] {
			return la[i], lb[i]
		}
	}
	return fmt.Sprintf("(%d lines)", len(la)), fmt.Sprintf("(%d lines)", len(lb))
}

func clipS(s string, n int) string {
	if len(s) > n {
		return s[:n] + "..."
	}
	return s
}

func checkShared(s Shared, c *vcommon.Ctx) *vcommon.Failure {
	if len(s.Calls) == 0 {
		return nil
	}
	obs, mut := s.observerSrc(), s.mutatorSrc()
	o0, rt0 := transcriptCfg(obs, sharedCfg)
	tm, rtm := transcriptCfg(mut, sharedCfg)
	o1, _ := transcriptCfg(obs, sharedCfg)

	// health: how many calls returned, how many returned something a mutator
	// accepted, how many writes were made
	returned, containers := 0, 0
	for _, e := range rt0.Trace {
		if strings.HasPrefix(e.Tag, "\"o") && !strings.HasPrefix(e.Payload, "'call-failed") {
			returned++
			if strings.HasPrefix(e.Payload, "#bytes") || strings.HasPrefix(e.Payload, "#vec") || strings.HasPrefix(e.Payload, "#map") || strings.HasPrefix(e.Payload, "(") || strings.HasPrefix(e.Payload, "'(") {
				containers++
			}
		}
	}
	writes := 0
	for _, e := range rtm.Trace {
		if e.Tag == "\"ok\"" {
			fmt.Sscanf(e.Payload, "%d", &writes)
		}
	}
	if i := strings.Index(s.Fn, ":"); i > 0 {
		c.Class("pkg/" + s.Fn[:i])
	}
	if returned > 0 {
		c.Class("some-call-returned")
	}
	if containers > 0 {
		c.Class("returned-a-container")
	}
	if writes > 0 {
		c.Class("in-place-write-accepted")
	}
	if strings.HasPrefix(tm, "ERR") || strings.HasPrefix(o0, "ERR") {
		c.Class("program-cut-short")
	}
	if returned > 0 && writes > 0 {
		c.NonTrivial(s.Fn + "\x00" + strings.Join(s.Calls, "\x00") + "\x00" + strings.Join(s.Muts, ","))
		c.Note(fmt.Sprintf("%s: %d calls, %d returned, %d containers, %d in-place writes accepted", s.Fn, len(s.Calls), returned, containers, writes))
	}
	if o0 != o1 {
		a, b := firstDiffLine(o0, o1)
		call := ""
		var idx int
		if n, _ := fmt.Sscanf(a, "\"o%d\"", &idx); n == 1 && idx < len(s.Calls) {
			call = s.Calls[idx]
		}
		// the key names the builtin whose result changed (the head of the call)
		fn := s.Fn
		if strings.HasPrefix(call, "(") {
			if j := strings.IndexAny(call, " )"); j > 1 {
				fn = call[1:j]
			}
		}
		return vcommon.Failf(differKey("shared-value/"+fn, o0, o1),
			"a fresh runtime prints something else for the same call after ANOTHER runtime applied in-place mutators to the value the call returned there\ncall: %s\n--- fresh runtime before:\n%s\n--- fresh runtime after the other runtime's writes (payloads %d, %q):\n%s",
			call, clipS(a, 1500), s.P, s.Q, clipS(b, 1500))
	}
	return nil
}

// enumShared: one case per registry entry.
func enumShared(shard, nshards int, emit func(Shared) bool) {
	for i, e := range registry() {
		if i%nshards != shard {
			continue
		}
		s := Shared{Fn: e.Name, Calls: sweepCalls(e), Muts: mutatorNames(), P: 33 + i%200, Q: fmt.Sprintf("q%d", i)}
		if !emit(s) {
			return
		}
	}
}

// uniformIndex draws an index in [0,n) from single-bit draws (rapid's integer
// generators favour small values, which is wrong for a coverage sweep).
func uniformIndex(t *rapid.T, n int, label string) int {
	v := 0
	for bits := 1; bits < 2*n; bits <<= 1 {
		v <<= 1
		if rapid.Bool().Draw(t, label) {
			v |= 1
		}
	}
	return v % n
}

// genArg draws one argument for a declared parameter: a typed boundary
// candidate, a member of the boundary pool, a small non-boundary value, or the
// result of another registry call on boundary inputs.
func genArg(t *rapid.T, formal string, depth int) string {
	switch k := rapid.IntRange(0, 9).Draw(t, "argkind"); {
	case k <= 4:
		if c := candidates(formal); len(c) > 0 {
			return c[uniformIndex(t, len(c), "cand")]
		}
		return boundaryPool[uniformIndex(t, len(boundaryPool), "pool")]
	case k <= 6:
		return boundaryPool[uniformIndex(t, len(boundaryPool), "pool")]
	case k == 7 && depth > 0:
		return genCall(t, depth-1)
	default:
		return rapid.SampledFrom([]string{`"k"`, `2`, `2.5`, `'(3 1 2)`, `(vector 3 1 2)`, `(sorted-map "a" 1 "b" (vector))`, `(to-bytes "xyz")`, `"[1,2.5,\"x\"]"`, `"{\"a\":{}}"`, `"90m"`, `"2024-02-29T12:00:00+05:30"`, `(lambda (a b) (< a b))`, `'(range 0 1)`}).Draw(t, "plain")
	}
}

func genCall(t *rapid.T, depth int) string {
	reg := registry()
	e := reg[uniformIndex(t, len(reg), "fn")]
	return genCallOf(t, e, depth)
}

func genCallOf(t *rapid.T, e regEntry, depth int) string {
	if e.Kind == "const" {
		return e.Name
	}
	pos, _, rest, keys := splitFormals(e.Formals)
	var args []string
	npos := len(pos)
	if rapid.IntRange(0, 5).Draw(t, "short") == 0 {
		npos = rapid.IntRange(0, len(pos)).Draw(t, "npos")
	}
	for i := 0; i < npos; i++ {
		args = append(args, genArg(t, pos[i], depth))
	}
	if rest != "" && npos == len(pos) {
		for i, n := 0, rapid.IntRange(0, 3).Draw(t, "nrest"); i < n; i++ {
			args = append(args, genArg(t, rest, depth))
		}
	}
	if len(keys) > 0 && rapid.IntRange(0, 2).Draw(t, "usekey") == 0 {
		args = append(args, ":"+rapid.SampledFrom(keys).Draw(t, "key"), rapid.SampledFrom([]string{"true", "false", "()"}).Draw(t, "keyval"))
	}
	return "(" + strings.Join(append([]string{e.Name}, args...), " ") + ")"
}

// genShared: 3-10 drawn calls (any arity, nested calls as arguments, typed and
// untyped arguments), a drawn subset of the mutators in the canonical order or
// shuffled, drawn payloads.
func genShared() *rapid.Generator[Shared] {
	return rapid.Custom(func(t *rapid.T) Shared {
		reg := registry()
		e := reg[uniformIndex(t, len(reg), "fn")]
		s := Shared{Fn: e.Name, P: rapid.IntRange(1, 255).Draw(t, "p"), Q: rapid.SampledFrom([]string{"q", "hello", "", "k", "zz9"}).Draw(t, "q")}
		for i, n := 0, rapid.IntRange(3, 10).Draw(t, "ncalls"); i < n; i++ {
			if i == 0 || rapid.IntRange(0, 2).Draw(t, "samefn") > 0 {
				s.Calls = append(s.Calls, genCallOf(t, e, 1))
			} else {
				s.Calls = append(s.Calls, genCall(t, 1))
			}
		}
		names := mutatorNames()
		if rapid.IntRange(0, 2).Draw(t, "allmuts") == 0 {
			s.Muts = names
		} else {
			for i, n := 0, rapid.IntRange(1, 6).Draw(t, "nmuts"); i < n; i++ {
				s.Muts = append(s.Muts, names[uniformIndex(t, len(names), "mut")])
			}
		}
		return s
	})
}

// sharedForm is the same idea as one form of an ordinary generated program, so
// that the repeat / concurrent / predecessor / process legs meet it too.
func (g *dg) sharedForm() string {
	call := genCall(g.t, 1)
	names := mutatorNames()
	rep := strings.NewReplacer("R", "r9", "P", fmt.Sprint(g.n(1, 255, "p")), "Q", fmt.Sprintf("%q", g.pick("q", "q", "hello", "k")))
	var b strings.Builder
	fmt.Fprintf(&b, "(progn (set 'r9 (ignore-errors %s))", call)
	for i, n := 0, g.n(1, 4, "nmuts"); i < n; i++ {
		fmt.Fprintf(&b, " (ignore-errors %s)", rep.Replace(mutatorTmpl(names[uniformIndex(g.t, len(names), "mut")])))
	}
	fmt.Fprintf(&b, " (list r9 %s%s)))", guardOpen, call)
	return b.String()
}
