package c03

import (
	"bufio"
	"bytes"
	"encoding/json"
	"fmt"
	"io"
	"os"
	"os/exec"
	"regexp"
	"runtime"
	"strings"
	"sync"
	"syscall"
	"testing"
	"time"

	"github.com/luthersystems/elps/verifharness/vcommon"
)

// Process isolation.
//
// A wedge cannot be interrupted from inside a Go process (goroutines cannot be
// killed) and a fatal runtime error ("stack overflow", "out of memory") takes
// the whole process down.  Every case is therefore evaluated in a WORKER
// process (this same test binary, re-executed with VERIF_C03_WORKER=1 and
// -test.run ^TestWorker$) that the shard feeds over a pipe.  The shard
//   - kills a worker that does not answer within the watchdog, re-runs the case
//     alone in a fresh worker with a longer watchdog, and reports a wedge only
//     when that also expires;
//   - notices a dead worker (EOF), classifies the death from the worker's
//     stderr, re-runs the case alone in a fresh worker and reports the death
//     only when it reproduces.
// The journal file required by the driver's process-death protocol is still
// written (journal()), so a death of the shard itself is also recoverable.
//
// VERIF_C03_INPROC=1 evaluates in-process instead (used by the native fuzz
// targets, which have their own worker isolation).

type recorder interface {
	Class(string)
	NonTrivial(string)
	Note(string)
}

type rec struct {
	Classes []string `json:"classes,omitempty"`
	NT      bool     `json:"nt,omitempty"`
	NTKey   string   `json:"ntkey,omitempty"`
	Notes   []string `json:"notes,omitempty"`
}

func (r *rec) Class(s string)      { r.Classes = append(r.Classes, s) }
func (r *rec) NonTrivial(k string) { r.NT, r.NTKey = true, k }
func (r *rec) Note(s string)       { r.Notes = append(r.Notes, s) }

func (r *rec) replayInto(c recorder) {
	for _, s := range r.Classes {
		c.Class(s)
	}
	if r.NT {
		c.NonTrivial(r.NTKey)
	}
	for _, s := range r.Notes {
		c.Note(s)
	}
}

type workerReq struct {
	Sub  string          `json:"sub"`
	Case json.RawMessage `json:"case"`
}

type workerResp struct {
	Rec     rec    `json:"rec"`
	Failed  bool   `json:"failed,omitempty"`
	FailKey string `json:"fail_key,omitempty"`
	FailMsg string `json:"fail_msg,omitempty"`
}

// in-worker watchdog: effectively disabled, the parent decides
const workerInnerWatchdog = time.Hour

// memory guard inside the worker: a case that drives the heap beyond this is
// reported as a death of class "memory-blowup" instead of endangering the
// machine (16 shards share it).
const workerMemLimit = 3 << 30

func inproc() bool { return os.Getenv("VERIF_C03_INPROC") != "" }

// innerOracles dispatches a (sub, raw case) pair to the in-process oracle.
func runInner(sub string, raw json.RawMessage, r recorder, wd, wdAlone time.Duration) *vcommon.Failure {
	switch sub {
	case "source-bytes":
		var s Src
		if err := json.Unmarshal(raw, &s); err != nil {
			return vcommon.Failf("bad-case", "%v", err)
		}
		return checkSourceInner(s, r, wd, wdAlone)
	case "apply-registry":
		var a Apply
		if err := json.Unmarshal(raw, &a); err != nil {
			return vcommon.Failf("bad-case", "%v", err)
		}
		return checkApplyInner(a, r, wd, wdAlone)
	case "readers-unlimited":
		var s Src
		if err := json.Unmarshal(raw, &s); err != nil {
			return vcommon.Failf("bad-case", "%v", err)
		}
		return checkReadersInner(s, r, wd, wdAlone)
	}
	return vcommon.Failf("bad-sub", "unknown sub-property %q", sub)
}

// TestWorker is the worker process body.  It is a no-op unless the process
// was started as a worker.
func TestWorker(t *testing.T) {
	if os.Getenv("VERIF_C03_WORKER") == "" {
		t.Skip("not a worker process")
	}
	out := os.NewFile(3, "resp")
	if out == nil {
		t.Fatal("worker: fd 3 missing")
	}
	go func() {
		var ms runtime.MemStats
		for {
			time.Sleep(100 * time.Millisecond)
			runtime.ReadMemStats(&ms)
			if ms.HeapInuse+ms.StackInuse > workerMemLimit {
				fmt.Fprintf(os.Stderr, "\nC03-WORKER-DEATH: memory-blowup heap=%d stack=%d limit=%d\n", ms.HeapInuse, ms.StackInuse, uint64(workerMemLimit))
				os.Exit(3)
			}
		}
	}()
	in := bufio.NewReaderSize(os.Stdin, 1<<20)
	w := bufio.NewWriter(out)
	for {
		line, err := in.ReadBytes('\n')
		if len(line) > 0 {
			var req workerReq
			var resp workerResp
			if e := json.Unmarshal(line, &req); e != nil {
				resp.Failed, resp.FailKey, resp.FailMsg = true, "bad-request", e.Error()
			} else {
				r := &rec{}
				f := func() (f *vcommon.Failure) {
					defer func() {
						if p := recover(); p != nil {
							f = vcommon.Failf("go-panic", "Go panic escaped into the harness worker: %v", p)
						}
					}()
					return runInner(req.Sub, req.Case, r, workerInnerWatchdog, workerInnerWatchdog)
				}()
				resp.Rec = *r
				if f != nil {
					resp.Failed, resp.FailKey, resp.FailMsg = true, f.Key, f.Msg
				}
			}
			b, _ := json.Marshal(resp)
			w.Write(b)
			w.WriteByte('\n')
			w.Flush()
		}
		if err != nil {
			return
		}
	}
}

// ---------- parent side ----------

type worker struct {
	cmd    *exec.Cmd
	stdin  io.WriteCloser
	resp   *bufio.Reader
	respF  *os.File
	stderr *tailBuffer
	lines  chan []byte
	dead   bool
}

// tailBuffer keeps the last N bytes written to it.
type tailBuffer struct {
	mu  sync.Mutex
	buf []byte
	max int
	// head keeps the first bytes too (the fatal error line comes first, the
	// goroutine dump afterwards)
	head []byte
}

func (t *tailBuffer) Write(p []byte) (int, error) {
	t.mu.Lock()
	defer t.mu.Unlock()
	if len(t.head) < 8192 {
		n := 8192 - len(t.head)
		if n > len(p) {
			n = len(p)
		}
		t.head = append(t.head, p[:n]...)
	}
	t.buf = append(t.buf, p...)
	if len(t.buf) > t.max {
		t.buf = t.buf[len(t.buf)-t.max:]
	}
	return len(p), nil
}

func (t *tailBuffer) String() string {
	t.mu.Lock()
	defer t.mu.Unlock()
	if len(t.buf) <= len(t.head) || bytes.HasPrefix(t.buf, t.head) {
		return string(t.buf)
	}
	return string(t.head) + "\n...\n" + string(t.buf)
}

func startWorker() (*worker, error) {
	pr, pw, err := os.Pipe()
	if err != nil {
		return nil, err
	}
	cmd := exec.Command(os.Args[0], "-test.run", "^TestWorker$", "-test.timeout", "0")
	cmd.Env = append(os.Environ(), "VERIF_C03_WORKER=1", "VERIF_C03_INPROC=1", "GOTRACEBACK=all", "VERIF_OUT=", "VERIF_REPLAY_FILE=")
	cmd.ExtraFiles = []*os.File{pw}
	stdin, err := cmd.StdinPipe()
	if err != nil {
		return nil, err
	}
	tb := &tailBuffer{max: 256 << 10}
	cmd.Stderr = tb
	cmd.Stdout = tb
	if err := cmd.Start(); err != nil {
		return nil, err
	}
	pw.Close()
	w := &worker{cmd: cmd, stdin: stdin, resp: bufio.NewReaderSize(pr, 1<<20), respF: pr, stderr: tb, lines: make(chan []byte, 1)}
	go func() {
		for {
			line, err := w.resp.ReadBytes('\n')
			if len(line) > 0 && err == nil {
				w.lines <- line
			}
			if err != nil {
				close(w.lines)
				return
			}
		}
	}()
	return w, nil
}

func (w *worker) kill() {
	if w == nil || w.dead {
		return
	}
	w.dead = true
	w.stdin.Close()
	w.cmd.Process.Kill()
	w.cmd.Wait()
	w.respF.Close()
}

// quitDump asks the Go runtime of the worker for a goroutine dump (SIGQUIT),
// then makes sure the process is gone.
func (w *worker) quitDump() string {
	if w == nil || w.dead {
		return ""
	}
	w.cmd.Process.Signal(syscall.SIGQUIT)
	done := make(chan struct{})
	go func() { w.cmd.Wait(); close(done) }()
	select {
	case <-done:
	case <-time.After(10 * time.Second):
		w.cmd.Process.Kill()
		<-done
	}
	w.dead = true
	w.stdin.Close()
	w.respF.Close()
	return w.stderr.String()
}

type callStatus int

const (
	callOK callStatus = iota
	callTimeout
	callDied
)

func (w *worker) call(req workerReq, d time.Duration) (workerResp, callStatus) {
	b, _ := json.Marshal(req)
	b = append(b, '\n')
	if _, err := w.stdin.Write(b); err != nil {
		return workerResp{}, callDied
	}
	t := time.NewTimer(d)
	defer t.Stop()
	select {
	case line, ok := <-w.lines:
		if !ok {
			return workerResp{}, callDied
		}
		var resp workerResp
		if err := json.Unmarshal(line, &resp); err != nil {
			return workerResp{Failed: true, FailKey: "bad-response", FailMsg: err.Error()}, callOK
		}
		return resp, callOK
	case <-t.C:
		return workerResp{}, callTimeout
	}
}

var (
	poolMu sync.Mutex
	pool   *worker
)

func getWorker() (*worker, error) {
	if pool != nil && !pool.dead {
		return pool, nil
	}
	w, err := startWorker()
	if err != nil {
		return nil, err
	}
	pool = w
	return w, nil
}

var reFatal = regexp.MustCompile(`(?m)^(fatal error: .*|runtime: goroutine stack exceeds.*|panic: .*|C03-WORKER-DEATH: \S+)`)

// deathClass classifies a worker death from its stderr.
func deathClass(stderr string) (class, line string) {
	m := reFatal.FindAllString(stderr, -1)
	for _, l := range m {
		switch {
		case strings.Contains(l, "stack overflow") || strings.Contains(l, "stack exceeds"):
			return "stack-overflow", l
		case strings.Contains(l, "out of memory") || strings.Contains(l, "cannot allocate"):
			return "out-of-memory", l
		case strings.Contains(l, "memory-blowup"):
			return "memory-blowup", l
		case strings.Contains(l, "concurrent map"):
			return "concurrent-map", l
		}
	}
	if len(m) > 0 {
		return panicClass(m[0]), m[0]
	}
	return "unknown", ""
}

// wedgeSite extracts, from a SIGQUIT goroutine dump, the elps function the
// evaluating goroutine was in (innermost frame) and the builtin it entered.
func wedgeSite(dump string) string {
	// goroutine blocks are separated by blank lines; pick the one that runs the case
	blocks := strings.Split(dump, "\n\n")
	for _, b := range blocks {
		if !strings.Contains(b, "created by github.com/luthersystems/elps/verifharness/c03.guarded") {
			continue
		}
		var funcs []string
		for _, ln := range strings.Split(b, "\n") {
			if strings.HasPrefix(ln, "github.com/luthersystems/elps/") && !strings.Contains(ln, "verifharness") {
				fn := strings.TrimPrefix(ln, "github.com/luthersystems/elps/")
				if i := strings.LastIndex(fn, "("); i > 0 {
					fn = fn[:i]
				}
				if i := strings.LastIndex(fn, "/"); i >= 0 {
					fn = fn[i+1:]
				}
				funcs = append(funcs, fn)
			}
		}
		if len(funcs) == 0 {
			continue
		}
		// the dominant function of the (elided) stack is the one recursing
		count := map[string]int{}
		best := funcs[0]
		for _, f := range funcs {
			if strings.Contains(f, "(*LEnv)") || strings.HasSuffix(f, "Eval-fm") {
				continue
			}
			count[f]++
			if count[f] > count[best] {
				best = f
			}
		}
		builtin := ""
		for i := 1; i < len(funcs); i++ {
			if strings.HasSuffix(funcs[i], "(*LEnv).call") {
				builtin = funcs[i-1]
				if strings.HasSuffix(builtin, "Eval-fm") && i >= 2 {
					builtin = funcs[i-2]
				}
				break
			}
		}
		if builtin != "" && builtin != best {
			return best + " under " + builtin
		}
		return best
	}
	return ""
}

// isolated evaluates one case in the worker process and maps worker failures
// (timeout, death) onto violations after an isolated re-run.
func isolated(sub string, c any, key string, ctx *vcommon.Ctx) *vcommon.Failure {
	raw, err := json.Marshal(c)
	if err != nil {
		return vcommon.Failf("bad-case", "cannot encode case: %v", err)
	}
	if inproc() {
		return runInner(sub, raw, ctx, watchdog, watchdogAlone)
	}
	poolMu.Lock()
	defer poolMu.Unlock()
	req := workerReq{Sub: sub, Case: raw}
	w, err := getWorker()
	if err != nil {
		return vcommon.Failf("harness/worker-start", "cannot start worker: %v", err)
	}
	resp, st := w.call(req, watchdog)
	var firstDiag string
	switch st {
	case callTimeout:
		firstDiag = w.quitDump()
	case callDied:
		w.kill()
		firstDiag = w.stderr.String()
	}
	if st != callOK {
		// re-run alone in a fresh worker
		w2, err := startWorker()
		if err != nil {
			return vcommon.Failf("harness/worker-start", "cannot start worker: %v", err)
		}
		resp2, st2 := w2.call(req, watchdogAlone)
		switch st2 {
		case callOK:
			w2.kill()
			resp2.Rec.replayInto(ctx)
			if st == callTimeout {
				ctx.Class("slow-inconclusive")
			} else {
				ctx.Class("death-unreproduced-inconclusive")
			}
			if resp2.Failed {
				return &vcommon.Failure{Key: resp2.FailKey, Msg: resp2.FailMsg}
			}
			return nil
		case callTimeout:
			dump := w2.quitDump()
			site := wedgeSite(dump)
			if site == "" {
				site = wedgeSite(firstDiag)
			}
			return vcommon.Failf("wedge/"+key, "the case did not return within %v in the shard's worker, and again not within %v when re-run alone in a fresh process (limits: steps %d, deadline %v); spinning in %s\n%s",
				watchdog, watchdogAlone, cfgMaxSteps, cfgDeadline, site, clip(relevantDump(dump), 2500))
		default:
			w2.kill()
			diag := w2.stderr.String()
			class, line := deathClass(diag)
			if st == callTimeout {
				// first a timeout, then a death: still a reproduced failure to return
				class2, _ := deathClass(diag)
				class = class2
			}
			return vcommon.Failf("death/"+class+"/"+key, "the worker process was killed while running this case (%s), and again when the case was re-run alone in a fresh process\n%s",
				line, clip(diag, 2500))
		}
	}
	resp.Rec.replayInto(ctx)
	if resp.Failed {
		return &vcommon.Failure{Key: resp.FailKey, Msg: resp.FailMsg}
	}
	return nil
}

func relevantDump(dump string) string {
	for _, b := range strings.Split(dump, "\n\n") {
		if strings.Contains(b, "created by github.com/luthersystems/elps/verifharness/c03.guarded") {
			return b
		}
	}
	return dump
}
