package c03

import (
	"bufio"
	"bytes"
	"encoding/json"
	"fmt"
	"io"
	"os"
	"os/exec"
	"regexp"
	"runtime"
	"runtime/debug"
	"strings"
	"sync"
	"syscall"
	"testing"
	"time"

	"github.com/luthersystems/elps/verifharness/vcommon"
)

// Process isolation.
//
// A wedge cannot be interrupted from inside a Go process (goroutines cannot be
// killed) and a fatal runtime error ("stack overflow", "out of memory") takes
// the whole process down.  Every case is therefore evaluated in a WORKER
// process (this same test binary, re-executed with VERIF_C03_WORKER=1 and
// -test.run ^TestWorker$) that the shard feeds over a pipe.  The shard
//   - kills a worker that does not answer within the watchdog, re-runs the case
//     alone in a fresh worker with a longer watchdog, and reports a wedge only
//     when that also expires;
//   - notices a dead worker (EOF), classifies the death from the worker's
//     stderr, re-runs the case alone in a fresh worker and reports the death
//     only when it reproduces.
// The journal file required by the driver's process-death protocol is still
// written (journal()), so a death of the shard itself is also recoverable.
//
// VERIF_C03_INPROC=1 evaluates in-process instead (used by the native fuzz
// targets, which have their own worker isolation).

type recorder interface {
	Class(string)
	NonTrivial(string)
	Note(string)
}

type rec struct {
	Classes []string `json:"classes,omitempty"`
	NT      bool     `json:"nt,omitempty"`
	NTKey   string   `json:"ntkey,omitempty"`
	Notes   []string `json:"notes,omitempty"`
}

func (r *rec) Class(s string)      { r.Classes = append(r.Classes, s) }
func (r *rec) NonTrivial(k string) { r.NT, r.NTKey = true, k }
func (r *rec) Note(s string)       { r.Notes = append(r.Notes, s) }

func (r *rec) replayInto(c recorder) {
	for _, s := range r.Classes {
		c.Class(s)
	}
	if r.NT {
		c.NonTrivial(r.NTKey)
	}
	for _, s := range r.Notes {
		c.Note(s)
	}
}

type workerReq struct {
	Sub  string          `json:"sub"`
	Case json.RawMessage `json:"case"`
}

type workerResp struct {
	Rec     rec    `json:"rec"`
	Failed  bool   `json:"failed,omitempty"`
	FailKey string `json:"fail_key,omitempty"`
	FailMsg string `json:"fail_msg,omitempty"`
}

// in-worker watchdog: effectively disabled, the parent decides
const workerInnerWatchdog = time.Hour

// memory guard inside the worker: a case that drives the heap beyond this is
// reported as a death of class "memory-blowup" instead of endangering the
// machine (16 shards share it).
const workerMemLimit = 2 << 30

const workerMaxStack = 256 << 20

func inproc() bool { return os.Getenv("VERIF_C03_INPROC") != "" }

// innerOracles dispatches a (sub, raw case) pair to the in-process oracle.
func runInner(sub string, raw json.RawMessage, r recorder, wd, wdAlone time.Duration) *vcommon.Failure {
	switch sub {
	case "source-bytes":
		var s Src
		if err := json.Unmarshal(raw, &s); err != nil {
			return vcommon.Failf("bad-case", "%v", err)
		}
		return checkSourceInner(s, r, wd, wdAlone)
	case "apply-registry":
		var a Apply
		if err := json.Unmarshal(raw, &a); err != nil {
			return vcommon.Failf("bad-case", "%v", err)
		}
		return checkApplyInner(a, r, wd, wdAlone)
	case "mutate-then-read":
		var q Seq
		if err := json.Unmarshal(raw, &q); err != nil {
			return vcommon.Failf("bad-case", "%v", err)
		}
		return checkSeqInner(q, r, wd, wdAlone)
	case "readers-unlimited":
		var s Src
		if err := json.Unmarshal(raw, &s); err != nil {
			return vcommon.Failf("bad-case", "%v", err)
		}
		return checkReadersInner(s, r, wd, wdAlone)
	}
	return vcommon.Failf("bad-sub", "unknown sub-property %q", sub)
}

// TestWorker is the worker process body.  It is a no-op unless the process
// was started as a worker.
func TestWorker(t *testing.T) {
	if os.Getenv("VERIF_C03_WORKER") == "" {
		t.Skip("not a worker process")
	}
	// A death must cost little on a shared machine: cap the goroutine stack at
	// 256 MB instead of the 1 GB default.  Everything the limits (parser depth
	// 10 000, nesting 5 000, 50 000 steps) legitimately allow stays two orders
	// of magnitude below that.
	debug.SetMaxStack(workerMaxStack)
	out := os.NewFile(3, "resp")
	if out == nil {
		t.Fatal("worker: fd 3 missing")
	}
	go func() {
		var ms runtime.MemStats
		for {
			time.Sleep(100 * time.Millisecond)
			runtime.ReadMemStats(&ms)
			if ms.HeapInuse > workerMemLimit {
				fmt.Fprintf(os.Stderr, "\nC03-WORKER-DEATH: memory-blowup heap=%d stack=%d limit=%d\n\n", ms.HeapInuse, ms.StackInuse, uint64(workerMemLimit))
				buf := make([]byte, 1<<20)
				os.Stderr.Write(buf[:runtime.Stack(buf, true)])
				os.Exit(3)
			}
		}
	}()
	in := bufio.NewReaderSize(os.Stdin, 1<<20)
	w := bufio.NewWriter(out)
	for {
		line, err := in.ReadBytes('\n')
		if len(line) > 0 {
			var req workerReq
			var resp workerResp
			if e := json.Unmarshal(line, &req); e != nil {
				resp.Failed, resp.FailKey, resp.FailMsg = true, "bad-request", e.Error()
			} else {
				r := &rec{}
				f := func() (f *vcommon.Failure) {
					defer func() {
						if p := recover(); p != nil {
							f = vcommon.Failf("go-panic", "Go panic escaped into the harness worker: %v", p)
						}
					}()
					return runInner(req.Sub, req.Case, r, workerInnerWatchdog, workerInnerWatchdog)
				}()
				resp.Rec = *r
				if f != nil {
					resp.Failed, resp.FailKey, resp.FailMsg = true, f.Key, f.Msg
				}
			}
			b, _ := json.Marshal(resp)
			w.Write(b)
			w.WriteByte('\n')
			w.Flush()
		}
		if err != nil {
			return
		}
	}
}

// ---------- parent side ----------

type worker struct {
	cmd    *exec.Cmd
	stdin  io.WriteCloser
	resp   *bufio.Reader
	respF  *os.File
	stderr *tailBuffer
	lines  chan []byte
	dead   bool
}

// tailBuffer keeps the last N bytes written to it.
type tailBuffer struct {
	mu  sync.Mutex
	buf []byte
	max int
	// head keeps the first bytes too (the fatal error line comes first, the
	// goroutine dump afterwards)
	head []byte
}

func (t *tailBuffer) Write(p []byte) (int, error) {
	t.mu.Lock()
	defer t.mu.Unlock()
	if len(t.head) < 8192 {
		n := 8192 - len(t.head)
		if n > len(p) {
			n = len(p)
		}
		t.head = append(t.head, p[:n]...)
	}
	t.buf = append(t.buf, p...)
	if len(t.buf) > t.max {
		t.buf = t.buf[len(t.buf)-t.max:]
	}
	return len(p), nil
}

func (t *tailBuffer) String() string {
	t.mu.Lock()
	defer t.mu.Unlock()
	if len(t.buf) <= len(t.head) || bytes.HasPrefix(t.buf, t.head) {
		return string(t.buf)
	}
	return string(t.head) + "\n...\n" + string(t.buf)
}

func startWorker() (*worker, error) {
	pr, pw, err := os.Pipe()
	if err != nil {
		return nil, err
	}
	cmd := exec.Command(os.Args[0], "-test.run", "^TestWorker$", "-test.timeout", "0")
	cmd.Env = append(os.Environ(), "VERIF_C03_WORKER=1", "VERIF_C03_INPROC=1", "GOTRACEBACK=all", "GOMAXPROCS=4", "VERIF_OUT=", "VERIF_REPLAY_FILE=")
	cmd.ExtraFiles = []*os.File{pw}
	stdin, err := cmd.StdinPipe()
	if err != nil {
		return nil, err
	}
	tb := &tailBuffer{max: 256 << 10}
	cmd.Stderr = tb
	cmd.Stdout = tb
	if err := cmd.Start(); err != nil {
		return nil, err
	}
	pw.Close()
	w := &worker{cmd: cmd, stdin: stdin, resp: bufio.NewReaderSize(pr, 1<<20), respF: pr, stderr: tb, lines: make(chan []byte, 1)}
	go func() {
		for {
			line, err := w.resp.ReadBytes('\n')
			if len(line) > 0 && err == nil {
				w.lines <- line
			}
			if err != nil {
				close(w.lines)
				return
			}
		}
	}()
	return w, nil
}

func (w *worker) kill() {
	if w == nil || w.dead {
		return
	}
	w.dead = true
	w.stdin.Close()
	w.cmd.Process.Kill()
	w.cmd.Wait()
	w.respF.Close()
}

// quitDump asks the Go runtime of the worker for a goroutine dump (SIGQUIT),
// then makes sure the process is gone.
func (w *worker) quitDump() string {
	if w == nil || w.dead {
		return ""
	}
	w.cmd.Process.Signal(syscall.SIGQUIT)
	done := make(chan struct{})
	go func() { w.cmd.Wait(); close(done) }()
	select {
	case <-done:
	case <-time.After(10 * time.Second):
		w.cmd.Process.Kill()
		<-done
	}
	w.dead = true
	w.stdin.Close()
	w.respF.Close()
	return w.stderr.String()
}

type callStatus int

const (
	callOK callStatus = iota
	callTimeout
	callDied
)

// procCPU returns the CPU time (user+system) a process has consumed so far.
func procCPU(pid int) (time.Duration, bool) {
	b, err := os.ReadFile(fmt.Sprintf("/proc/%d/stat", pid))
	if err != nil {
		return 0, false
	}
	// fields after the parenthesised command name
	i := bytes.LastIndexByte(b, ')')
	if i < 0 {
		return 0, false
	}
	f := strings.Fields(string(b[i+1:]))
	if len(f) < 13 {
		return 0, false
	}
	var ut, st int64
	fmt.Sscan(f[11], &ut)
	fmt.Sscan(f[12], &st)
	return time.Duration(ut+st) * (time.Second / 100), true // USER_HZ = 100
}

// call sends one request and waits for the answer.  The watchdog d is measured
// in CPU time the worker consumed (scheduled time), so that an oversubscribed
// machine cannot turn a slow case into a false wedge; a wall-clock backstop of
// 15*d catches a worker that blocks without consuming CPU.
func (w *worker) call(req workerReq, d time.Duration) (workerResp, callStatus) {
	b, _ := json.Marshal(req)
	b = append(b, '\n')
	cpu0, haveCPU := procCPU(w.cmd.Process.Pid)
	if _, err := w.stdin.Write(b); err != nil {
		return workerResp{}, callDied
	}
	start := time.Now()
	tick := time.NewTicker(100 * time.Millisecond)
	defer tick.Stop()
	for {
		select {
		case line, ok := <-w.lines:
			if !ok {
				return workerResp{}, callDied
			}
			var resp workerResp
			if err := json.Unmarshal(line, &resp); err != nil {
				return workerResp{Failed: true, FailKey: "bad-response", FailMsg: err.Error()}, callOK
			}
			return resp, callOK
		case <-tick.C:
			wall := time.Since(start)
			if haveCPU {
				if cpu, ok := procCPU(w.cmd.Process.Pid); ok && cpu-cpu0 >= d {
					return workerResp{}, callTimeout
				}
				if wall >= 15*d {
					return workerResp{}, callTimeout
				}
			} else if wall >= d {
				return workerResp{}, callTimeout
			}
		}
	}
}

var (
	poolMu sync.Mutex
	pool   *worker
)

func getWorker() (*worker, error) {
	if pool != nil && !pool.dead {
		return pool, nil
	}
	w, err := startWorker()
	if err != nil {
		return nil, err
	}
	pool = w
	return w, nil
}

var reFatal = regexp.MustCompile(`(?m)^(fatal error: .*|runtime: goroutine stack exceeds.*|panic: .*|C03-WORKER-DEATH: \S+)`)

// deathClass classifies a worker death from its stderr.
func deathClass(stderr string) (class, line string) {
	m := reFatal.FindAllString(stderr, -1)
	for _, l := range m {
		switch {
		case strings.Contains(l, "stack overflow") || strings.Contains(l, "stack exceeds"):
			return "stack-overflow", l
		case strings.Contains(l, "out of memory") || strings.Contains(l, "cannot allocate"):
			return "out-of-memory", l
		case strings.Contains(l, "memory-blowup"):
			return "memory-blowup", l
		case strings.Contains(l, "concurrent map"):
			return "concurrent-map", l
		}
	}
	if len(m) > 0 {
		return panicClass(m[0]), m[0]
	}
	return "unknown", ""
}

// caseGoroutine returns the block of a goroutine dump that belongs to the
// goroutine evaluating the case (the one guarded() created).
func caseGoroutine(dump string) string {
	for _, b := range strings.Split(dump, "\n\n") {
		if strings.Contains(b, "created by github.com/luthersystems/elps/verifharness/c03.guarded") {
			return b
		}
	}
	return ""
}

func elpsFuncs(block string) []string {
	var funcs []string
	for _, ln := range strings.Split(block, "\n") {
		if strings.HasPrefix(ln, "github.com/luthersystems/elps/") && !strings.Contains(ln, "verifharness") {
			fn := strings.TrimPrefix(ln, "github.com/luthersystems/elps/")
			if i := strings.LastIndex(fn, "("); i > 0 {
				fn = fn[:i]
			}
			if i := strings.LastIndex(fn, "/"); i >= 0 {
				fn = fn[i+1:]
			}
			funcs = append(funcs, fn)
		}
	}
	return funcs
}

// traversalFamily maps an interpreter function onto the value traversal it
// belongs to; the family is the class signature of a wedge / death finding
// (one root cause per traversal, however many builtins funnel into it).
func traversalFamily(fn string) string {
	switch {
	case strings.Contains(fn, "(*LVal).Copy") || strings.Contains(fn, "copyCells") || strings.Contains(fn, "copyMapData") ||
		strings.Contains(fn, "detachMeta") || strings.Contains(fn, "(*Location).Copy"):
		return "copy"
	case strings.Contains(fn, "(*LVal).str") || strings.Contains(fn, "exprString") || strings.Contains(fn, "stringGuard") ||
		strings.Contains(fn, "sortedMapString") || strings.Contains(fn, "bodyStr") || strings.Contains(fn, "(*LVal).String"):
		return "print"
	case strings.Contains(fn, "(*LVal).equal") || strings.Contains(fn, "equalMapKey") || strings.Contains(fn, "pairGuard"):
		return "equal"
	case strings.Contains(fn, "doUnquoteSExpr") || strings.Contains(fn, "findAndUnquote"):
		return "quasiquote"
	case strings.Contains(fn, "builtinExport"):
		return "export"
	case strings.HasPrefix(fn, "libjson.(*encoder)"):
		return "json-encode"
	case strings.HasPrefix(fn, "libelpspath."):
		return "elpspath"
	case strings.Contains(fn, "stampMacroExpansion") || strings.Contains(fn, "stamp"):
		return "macro-stamp"
	case strings.HasPrefix(fn, "rdparser.") || strings.HasPrefix(fn, "lexer.") || strings.HasPrefix(fn, "token."):
		return "reader"
	case strings.Contains(fn, "(*LEnv)"):
		return "eval"
	}
	return fn
}

// analyseDump finds, in a goroutine dump, the traversal family the case's
// goroutine is dominated by, a human-readable site and the builtin entered.
func analyseDump(dump string) (family, site string) {
	block := caseGoroutine(dump)
	if block == "" {
		return "", ""
	}
	funcs := elpsFuncs(block)
	if len(funcs) == 0 {
		return "", ""
	}
	count := map[string]int{}
	first := map[string]string{}
	best := ""
	for _, f := range funcs {
		if strings.HasSuffix(f, "Eval-fm") {
			continue
		}
		fam := traversalFamily(f)
		count[fam]++
		if _, ok := first[fam]; !ok {
			first[fam] = f
		}
		// "eval" only wins when nothing else is present
		if best == "" || (best == "eval" && fam != "eval") || (fam != "eval" && count[fam] > count[best]) {
			best = fam
		}
	}
	builtin := ""
	for i := 1; i < len(funcs); i++ {
		if strings.HasSuffix(funcs[i], "(*LEnv).call") {
			builtin = funcs[i-1]
			if (strings.HasSuffix(builtin, "Eval-fm") || strings.HasSuffix(builtin, ".Eval")) && i >= 2 {
				builtin = funcs[i-2]
			}
			break
		}
	}
	site = first[best]
	if builtin != "" && builtin != site {
		site += " under " + builtin
	}
	return best, site
}

// isolated evaluates one case in the worker process and maps worker failures
// (timeout, death) onto violations after an isolated re-run.
// keyer builds the class signature of a wedge / death failure from its kind
// ("wedge", "death/stack-overflow", ...) and the traversal family observed in
// the worker's goroutine dump ("" when none could be identified).
type keyer func(kind, family string) string

func isolated(sub string, c any, key keyer, ctx *vcommon.Ctx) *vcommon.Failure {
	raw, err := json.Marshal(c)
	if err != nil {
		return vcommon.Failf("bad-case", "cannot encode case: %v", err)
	}
	if inproc() {
		return runInner(sub, raw, ctx, watchdog, watchdogAlone)
	}
	poolMu.Lock()
	defer poolMu.Unlock()
	req := workerReq{Sub: sub, Case: raw}
	w, err := getWorker()
	if err != nil {
		return vcommon.Failf("harness/worker-start", "cannot start worker: %v", err)
	}
	resp, st := w.call(req, watchdog)
	var firstDiag string
	switch st {
	case callTimeout:
		firstDiag = w.quitDump()
	case callDied:
		w.kill()
		firstDiag = w.stderr.String()
	}
	if st != callOK {
		// re-run alone in a fresh worker
		w2, err := startWorker()
		if err != nil {
			return vcommon.Failf("harness/worker-start", "cannot start worker: %v", err)
		}
		resp2, st2 := w2.call(req, watchdogAlone)
		switch st2 {
		case callOK:
			w2.kill()
			resp2.Rec.replayInto(ctx)
			if st == callTimeout {
				ctx.Class("slow-inconclusive")
			} else {
				ctx.Class("death-unreproduced-inconclusive")
			}
			if resp2.Failed {
				return &vcommon.Failure{Key: resp2.FailKey, Msg: resp2.FailMsg}
			}
			return nil
		case callTimeout:
			dump := w2.quitDump()
			fam, site := analyseDump(dump)
			if fam == "" {
				fam, site = analyseDump(firstDiag)
			}
			return vcommon.Failf(key("wedge", fam), "the case did not return within %v of worker CPU time, and again not within %v of CPU time when re-run alone in a fresh process (limits: steps %d, deadline %v); spinning in %s\n%s",
				watchdog, watchdogAlone, cfgMaxSteps, cfgDeadline, site, clip(caseGoroutine(dump), 2500))
		default:
			w2.kill()
			diag := w2.stderr.String()
			class, line := deathClass(diag)
			fam, site := analyseDump(diag)
			if fam == "" {
				fam, site = analyseDump(firstDiag)
			}
			return vcommon.Failf(key("death/"+class, fam), "the worker process was killed while running this case (%s; in %s), and again when the case was re-run alone in a fresh process\n%s",
				line, site, clip(diag, 2500))
		}
	}
	resp.Rec.replayInto(ctx)
	if resp.Failed {
		return &vcommon.Failure{Key: resp.FailKey, Msg: resp.FailMsg}
	}
	return nil
}

