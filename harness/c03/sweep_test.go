package c03

import (
	"fmt"
	"os"
	"strconv"
	"strings"
	"testing"
	"time"

	"github.com/luthersystems/elps/verifharness/vcommon"
)

// TestSweep is a development tool (VERIF_C03_SWEEP=1): it runs the whole
// source matrix with shortened watchdogs, does not stop at failures and prints
// one line per failing recipe.  VERIF_SHARD / VERIF_NSHARDS partition it.
func TestSweep(t *testing.T) {
	if os.Getenv("VERIF_C03_SWEEP") == "" {
		t.Skip("development sweep")
	}
	watchdog = 6 * time.Second
	watchdogAlone = 12 * time.Second
	shard, _ := strconv.Atoi(os.Getenv("VERIF_SHARD"))
	n, _ := strconv.Atoi(os.Getenv("VERIF_NSHARDS"))
	if n < 1 {
		n = 1
	}
	total, bad := 0, 0
	only := os.Getenv("VERIF_C03_SWEEP_T")
	enumMatrix(shard, n, func(s Src) bool {
		if only != "" && !strings.Contains(","+only+",", ","+s.R.T+",") {
			return true
		}
		if m := os.Getenv("VERIF_C03_SWEEP_M"); m != "" && s.R.T == "dag" && strconv.Itoa(s.R.M) != m {
			return true
		}
		total++
		ctx := &vcommon.Ctx{}
		start := time.Now()
		f := isolated("source-bytes", s, srcKey(s), ctx)
		if f != nil {
			bad++
			msg := f.Msg
			site := ""
			if i := strings.Index(msg, "spinning in "); i >= 0 {
				site = msg[i+12:]
				if j := strings.Index(site, "\n"); j >= 0 {
					site = site[:j]
				}
			}
			if len(msg) > 300 {
				msg = msg[:300]
			}
			src := string(s.Bytes())
			if i := strings.LastIndex(src, "\n"); i >= 0 {
				src = src[i+1:]
			}
			fmt.Printf("SWEEP-FAIL key=%s site=[%s] recipe=%+v took=%v op=%s\n   %q\n", f.Key, site, *s.R, time.Since(start).Round(time.Millisecond), clip(src, 100), msg)
		} else if d := time.Since(start); d > 3*time.Second {
			fmt.Printf("SWEEP-SLOW recipe=%+v took=%v src=%s\n", *s.R, d.Round(time.Millisecond), clip(string(s.Bytes()), 200))
		}
		return true
	})
	fmt.Printf("SWEEP-DONE shard=%d total=%d failing=%d\n", shard, total, bad)
}

// TestEvalSrc is a development tool: VERIF_C03_SRC='(program)' evaluates it
// in-process under the C03 limits and prints the result.
func TestEvalSrc(t *testing.T) {
	src := os.Getenv("VERIF_C03_SRC")
	if src == "" {
		t.Skip("development tool")
	}
	o, steps, calls := loadOnce([]byte(src), 30*time.Second)
	fmt.Printf("timedOut=%v panic=%v elapsed=%v steps=%d calls=%d\nresult: %s\n", o.timedOut, o.panicVal, o.elapsed, steps, calls, errText(o.res))
	if p := findInternalPanic(o.res); p != nil {
		fmt.Printf("INTERNAL PANIC: %s\n%s\n", errText(p), goStackOf(p))
	}
}

// TestSweepApply is a development tool (VERIF_C03_SWEEP_APPLY=n): it draws n
// apply-registry cases per shard from the generator (deterministic example
// seeds), runs them through the isolated oracle without stopping at failures
// and prints one line per failing case.
func TestSweepApply(t *testing.T) {
	n, _ := strconv.Atoi(os.Getenv("VERIF_C03_SWEEP_APPLY"))
	if n <= 0 {
		t.Skip("development sweep")
	}
	watchdog = 10 * time.Second
	watchdogAlone = 20 * time.Second
	shard, _ := strconv.Atoi(os.Getenv("VERIF_SHARD"))
	onlyRef := os.Getenv("VERIF_C03_SWEEP_REF") != ""
	g := genApply()
	bad := 0
	for i := 0; i < n; i++ {
		a := g.Example(shard*1000003 + i)
		if onlyRef && !hasRef(a.Args) {
			continue
		}
		ctx := &vcommon.Ctx{}
		f := isolated("apply-registry", a, a.Pkg+":"+a.Name, ctx)
		if f != nil {
			bad++
			first := f.Msg
			if j := strings.Index(first, "\n"); j >= 0 {
				first = first[:j]
			}
			fmt.Printf("APPLY-FAIL key=%s via=%s args=%s\n   %s\n", f.Key, a.Via, clip(describeArgs(a), 300), clip(first, 300))
		}
	}
	fmt.Printf("APPLY-DONE shard=%d n=%d failing=%d\n", shard, n, bad)
}
