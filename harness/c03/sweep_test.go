package c03

import (
	"encoding/json"
	"fmt"
	"os"
	"strconv"
	"strings"
	"testing"
	"time"

	"github.com/luthersystems/elps/verifharness/vcommon"
)

// TestSweep is a development tool (VERIF_C03_SWEEP=1): it runs the whole
// source matrix with shortened watchdogs, does not stop at failures and prints
// one line per failing recipe.  VERIF_SHARD / VERIF_NSHARDS partition it.
func TestSweep(t *testing.T) {
	if os.Getenv("VERIF_C03_SWEEP") == "" {
		t.Skip("development sweep")
	}
	watchdog = 6 * time.Second
	watchdogAlone = 12 * time.Second
	shard, _ := strconv.Atoi(os.Getenv("VERIF_SHARD"))
	n, _ := strconv.Atoi(os.Getenv("VERIF_NSHARDS"))
	if n < 1 {
		n = 1
	}
	total, bad := 0, 0
	only := os.Getenv("VERIF_C03_SWEEP_T")
	enumMatrix(shard, n, func(s Src) bool {
		if only != "" && !strings.Contains(","+only+",", ","+s.R.T+",") {
			return true
		}
		if m := os.Getenv("VERIF_C03_SWEEP_M"); m != "" && s.R.T == "dag" && strconv.Itoa(s.R.M) != m {
			return true
		}
		if wmin, _ := strconv.Atoi(os.Getenv("VERIF_C03_SWEEP_WMIN")); wmin > 0 && s.R.W < wmin {
			return true
		}
		total++
		ctx := &vcommon.Ctx{}
		start := time.Now()
		f := isolated("source-bytes", s, srcKeyer(s), ctx)
		if f != nil {
			bad++
			msg := f.Msg
			site := ""
			if i := strings.Index(msg, "spinning in "); i >= 0 {
				site = msg[i+12:]
				if j := strings.Index(site, "\n"); j >= 0 {
					site = site[:j]
				}
			}
			if len(msg) > 300 {
				msg = msg[:300]
			}
			src := string(s.Bytes())
			if i := strings.LastIndex(src, "\n"); i >= 0 {
				src = src[i+1:]
			}
			fmt.Printf("SWEEP-FAIL key=%s site=[%s] recipe=%+v took=%v op=%s\n   %q\n", f.Key, site, *s.R, time.Since(start).Round(time.Millisecond), clip(src, 100), msg)
		} else if d := time.Since(start); d > 3*time.Second {
			fmt.Printf("SWEEP-SLOW recipe=%+v took=%v src=%s\n", *s.R, d.Round(time.Millisecond), clip(string(s.Bytes()), 200))
		}
		return true
	})
	fmt.Printf("SWEEP-DONE shard=%d total=%d failing=%d\n", shard, total, bad)
}

// TestEvalSrc is a development tool: VERIF_C03_SRC='(program)' evaluates it
// in-process under the C03 limits and prints the result.
func TestEvalSrc(t *testing.T) {
	src := os.Getenv("VERIF_C03_SRC")
	if src == "" {
		t.Skip("development tool")
	}
	o, steps, calls := loadOnce([]byte(src), 0, 30*time.Second)
	fmt.Printf("timedOut=%v panic=%v elapsed=%v steps=%d calls=%d\nresult: %s\n", o.timedOut, o.panicVal, o.elapsed, steps, calls, errText(o.res))
	if p := findInternalPanic(o.res); p != nil {
		fmt.Printf("INTERNAL PANIC: %s\n%s\n", errText(p), goStackOf(p))
	}
}

// TestSweepApply is a development tool (VERIF_C03_SWEEP_APPLY=n): it draws n
// apply-registry cases per shard from the generator (deterministic example
// seeds), runs them through the isolated oracle without stopping at failures
// and prints one line per failing case.
func TestSweepApply(t *testing.T) {
	n, _ := strconv.Atoi(os.Getenv("VERIF_C03_SWEEP_APPLY"))
	if n <= 0 {
		t.Skip("development sweep")
	}
	watchdog = 10 * time.Second
	watchdogAlone = 20 * time.Second
	shard, _ := strconv.Atoi(os.Getenv("VERIF_SHARD"))
	onlyRef := os.Getenv("VERIF_C03_SWEEP_REF") != ""
	g := genApply()
	bad := 0
	for i := 0; i < n; i++ {
		a := g.Example(shard*1000003 + i)
		if onlyRef && !hasRef(a.Args) {
			continue
		}
		if p := os.Getenv("VERIF_C03_SWEEP_PKG"); p != "" && a.Pkg != p {
			continue
		}
		ctx := &vcommon.Ctx{}
		f := isolated("apply-registry", a, func(kind, fam string) string { return kind + "/" + fam + "/apply" }, ctx)
		if f != nil {
			bad++
			first := f.Msg
			if j := strings.Index(first, "\n"); j >= 0 {
				first = first[:j]
			}
			fmt.Printf("APPLY-FAIL key=%s via=%s args=%s\n   %s\n", f.Key, a.Via, clip(describeArgs(a), 300), clip(first, 300))
		}
	}
	fmt.Printf("APPLY-DONE shard=%d n=%d failing=%d\n", shard, n, bad)
}

// TestKeys prints the class signature of every matrix recipe (development).
func TestKeys(t *testing.T) {
	if os.Getenv("VERIF_C03_KEYS") == "" {
		t.Skip("development tool")
	}
	seen := map[string]bool{}
	enumMatrix(0, 1, func(s Src) bool {
		k := recipeKey(s.R)
		if !seen[k] {
			seen[k] = true
			fmt.Println("KEY", k)
		}
		return true
	})
}

// TestReaderTiming times the three readers on one recipe (development).
func TestReaderTiming(t *testing.T) {
	if os.Getenv("VERIF_C03_RT") == "" {
		t.Skip("development tool")
	}
	tmpl := os.Getenv("VERIF_C03_RT")
	vs := []int{0, 2, 6, 24, 33}
	if tmpl == "long" {
		vs = []int{0, 1, 2, 3, 4, 5, 6, 7, 8, 9}
	} else {
		tmpl = "nest"
	}
	for _, v := range vs {
		for _, n := range []int{100000, 1000000} {
			src := Src{Class: "hostile", R: &Recipe{T: tmpl, V: v, N: n}}.Bytes()
			for i, name := range readerNames {
				st := time.Now()
				rr := runReader(i, src)
				fmt.Printf("unit=%d n=%d %s: %v n=%d err=%v errs=%d\n", v, n, name, time.Since(st).Round(time.Millisecond), rr.n, rr.err != nil, rr.errs)
			}
		}
	}
}

// TestZeroDim applies every elpspath callable to zero-/multi-dimensional
// arrays with a small set of step shapes (development: enumerates which
// entry points reach storeCells unguarded).
func TestZeroDim(t *testing.T) {
	if os.Getenv("VERIF_C03_ZERODIM") == "" {
		t.Skip("development tool")
	}
	arrs := []VD{{K: "array", D: []int{}, ID: 1}, {K: "array", D: []int{}, ID: 1, L: []VD{{K: "int", I: 7}}}, {K: "array", D: []int{2, 2}, ID: 1}, {K: "array", D: []int{0}, ID: 1}}
	steps := [][]VD{
		{{K: "int", I: 0}}, {{K: "int", I: -1}}, {{K: "sym", S: []byte("*")}}, {{K: "str", S: []byte("a")}},
		{{K: "list", L: []VD{{K: "sym", S: []byte("range")}, {K: "int", I: 0}, {K: "int", I: 0}}}},
		{{K: "list", L: []VD{{K: "sym", S: []byte("range")}, {K: "int", I: 0}, {K: "int", I: 1}}}},
		{{K: "list", L: []VD{{K: "sym", S: []byte("range")}, {K: "int", I: -1}, {K: "int", I: 5}}}},
		{},
	}
	vals := []VD{{K: "int", I: 1}, {K: "vector", L: []VD{{K: "int", I: 1}, {K: "int", I: 2}}}, {K: "vector"}, {K: "nil"}}
	for _, c := range callables {
		if c.Pkg != "elpspath" {
			continue
		}
		for _, via := range []string{"direct", "eval"} {
			for _, a := range arrs {
				for _, st := range steps {
					for _, v := range vals {
						args := append([]VD{a}, st...)
						if strings.Contains(c.Name, "set") {
							args = append(args, v)
						}
						ap := Apply{Pkg: c.Pkg, Name: c.Name, Via: via, Args: args}
						r := &rec{}
						if f := checkApplyInner(ap, r, 10*time.Second, 10*time.Second); f != nil {
							fmt.Printf("ZD key=%s args=%s\n", f.Key, describeArgs(ap))
						}
					}
				}
			}
		}
	}
}

// TestEmitReplays writes one replay file per STILL-KNOWN finding into
// VERIF_C03_REPLAY_DIR (development; the files live under /verif/replays/C03).
// Each costs ~80 s of CPU to reproduce (20 s + 60 s watchdogs), which is why
// they are not regression replays.  The replays of the fixed findings are the
// static files under /verif/regress/C03 (recipe indices: the template tables
// in source_test.go are append-only).
func TestEmitReplays(t *testing.T) {
	dir := os.Getenv("VERIF_C03_REPLAY_DIR")
	if dir == "" {
		t.Skip("development tool")
	}
	opIdx := func(src string) int {
		for i, o := range valueOps {
			if o.src == src {
				return i
			}
		}
		t.Fatalf("no op %q", src)
		return -1
	}
	for fam, op := range map[string]string{"print": "(debug-print d)", "equal": "(equal? d d2)", "json": "(json:dump-string d)",
		"elpspath": "(elpspath:? d '* '* '*)", "quasiquote": "(eval (list (car '(quasiquote)) d))",
		"stamp": "(eval (list (car '(defmacro)) (car '(c03m)) () (list (car '(quote)) (list (car '(quote)) d)))) (c03m)"} {
		r := Recipe{T: "dag", V: 0, M: 40, W: opIdx(op)}
		b, _ := json.MarshalIndent(journalRec{Property: "C03", Sub: "source-bytes", Key: "wedge/dag/" + fam, Msg: "known finding, see harness/c03/NOTES.md", Case: Src{Class: "hostile", R: &r}}, "", " ")
		if err := os.WriteFile(dir+"/known-dag-"+fam+".json", append(b, '\n'), 0o644); err != nil {
			t.Fatal(err)
		}
	}
}

// TestListCallables prints every registered callable with its formals
// (development).
func TestListCallables(t *testing.T) {
	if os.Getenv("VERIF_C03_LIST") == "" {
		t.Skip("development tool")
	}
	for _, c := range callables {
		fmt.Printf("CALLABLE %s:%s %s req=%v opt=%v rest=%q keys=%v\n", c.Pkg, c.Name, c.FunType, c.Req, c.Opt, c.Rest, c.Keys)
	}
}

// TestMatrixSize prints the size of each apply-matrix block (development).
func TestMatrixSize(t *testing.T) {
	if os.Getenv("VERIF_C03_MSIZE") == "" {
		t.Skip("development tool")
	}
	count := map[string]int{}
	per := map[string]int{}
	enumApplyMatrix(0, 1, func(a Apply) bool {
		count[a.Tag]++
		per[a.Tag+" "+a.Pkg+":"+a.Name]++
		return true
	})
	fmt.Println("MATRIX", count)
	for k, v := range per {
		if v > 1500 {
			fmt.Println("  BIG", k, v)
		}
	}
}

// TestSweepMatrix runs the apply-matrix cases selected by VERIF_C03_MATRIX
// ("tag" or "tag/pkg:name") in-process, does not stop at failures and prints
// one line per failing case (development).
func TestSweepMatrix(t *testing.T) {
	sel := os.Getenv("VERIF_C03_MATRIX")
	if sel == "" {
		t.Skip("development sweep")
	}
	tag, qual, _ := strings.Cut(sel, "/")
	total, bad := 0, 0
	keys := map[string]int{}
	enumApplyMatrix(0, 1, func(a Apply) bool {
		if a.Tag != tag || (qual != "" && a.Pkg+":"+a.Name != qual) {
			return true
		}
		total++
		if f := checkApplyInner(a, &rec{}, 20*time.Second, 20*time.Second); f != nil {
			bad++
			if keys[f.Key]++; keys[f.Key] <= 3 {
				fmt.Printf("MATRIX-FAIL key=%s via=%s args=%s\n", f.Key, a.Via, clip(describeArgs(a), 300))
			}
		}
		return true
	})
	fmt.Printf("MATRIX-DONE sel=%s total=%d failing=%d keys=%v\n", sel, total, bad, keys)
}
