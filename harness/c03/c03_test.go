// C03: no source text or data value can crash, wedge or panic the embedding
// host.
//
// Three sub-properties (see meta.json "rule"):
//
//	source-bytes      byte strings loaded as source under the C03 limit
//	                  configuration
//	apply-registry    every registered callable applied to hostile argument
//	                  tuples built with the exported Go constructors
//	readers-unlimited the three readers on hostile bytes with no limits
//
// Oracle (validity predicate): the call returns a non-nil *LVal, no Go panic
// escapes, lisp.IsInternalPanic is false for the result and for every error
// nested in a returned container, and the call finishes inside a watchdog.
// Process death (fatal error: stack overflow / out of memory) cannot be
// observed from inside the dying process: every hostile case is journaled to
// $VERIF_SCRATCH/journal.json in replay format before it runs and the driver
// re-runs the journaled case of a dead shard.
package c03

import (
	"context"
	"encoding/json"
	"fmt"
	"os"
	"path/filepath"
	"regexp"
	"runtime/debug"
	"strings"
	"testing"
	"time"

	"github.com/luthersystems/elps/lisp"
	"github.com/luthersystems/elps/verifharness/vcommon"
)

// ---------- the C03 runtime configuration ----------

const (
	cfgMaxSteps    = 50000
	cfgMaxPhysical = 1000
	cfgMaxNesting  = 5000
	cfgMaxTailIter = 10000
	cfgMaxAlloc    = 100000
	cfgMaxSleep    = 5 * time.Millisecond
	cfgDeadline    = 2 * time.Second

)

// watchdogs (variables so that a development sweep can shorten them)
var (
	watchdog      = 20 * time.Second
	watchdogAlone = 60 * time.Second
)

// newRuntime builds a fully loaded runtime (documented embedding +
// lisplib.LoadLibrary) under the C03 limits.  No source library is configured
// (load-file answers an error), stderr goes to a buffer, no host probes are
// registered (host-panic panics on purpose).  The returned cancel func
// releases the deadline context.
func newRuntime() (*vcommon.Rt, context.CancelFunc) {
	return newRuntimeVariant(0)
}

// newRuntimeVariant builds the runtime for a configuration variant:
//
//	0  the full C03 configuration
//	1  "height-only": physical stack height 1000 and the 2 s deadline are the
//	   only bounds (no step budget, evaluator nesting check disabled).  Used
//	   for the function-recursion programs only: every level of those pushes a
//	   call frame, so the physical bound alone must stop them before the Go
//	   stack is exhausted.
func newRuntimeVariant(variant int) (*vcommon.Rt, context.CancelFunc) {
	ctx, cancel := context.WithTimeout(context.Background(), cfgDeadline)
	cfg := vcommon.Cfg{
		MaxSteps:    cfgMaxSteps,
		MaxPhysical: cfgMaxPhysical,
		MaxNesting:  cfgMaxNesting,
		MaxTailIter: cfgMaxTailIter,
		MaxAlloc:    cfgMaxAlloc,
		MaxSleep:    cfgMaxSleep,
		Ctx:         ctx,
		Profiler:    true,
		NoProbes:    true,
	}
	if variant == 1 {
		cfg.MaxSteps = 0
		cfg.MaxNesting = -1
	}
	return vcommon.NewRuntime(cfg), cancel
}

// ---------- guarded execution ----------

type outcome struct {
	res      *lisp.LVal
	panicVal any
	stack    string
	timedOut bool
	elapsed  time.Duration
}

// guarded runs f on its own goroutine, recovering a Go panic and giving up
// after d.  On timeout the goroutine is leaked (it cannot be killed).
func guarded(d time.Duration, f func() *lisp.LVal) outcome {
	ch := make(chan outcome, 1)
	start := time.Now()
	go func() {
		var o outcome
		defer func() {
			if r := recover(); r != nil {
				o.panicVal = r
				o.stack = string(debug.Stack())
			}
			o.elapsed = time.Since(start)
			ch <- o
		}()
		o.res = f()
	}()
	t := time.NewTimer(d)
	defer t.Stop()
	select {
	case o := <-ch:
		return o
	case <-t.C:
		return outcome{timedOut: true, elapsed: time.Since(start)}
	}
}

// ---------- deep scan for recovered panics ----------

// findInternalPanic walks v (cells, map entries, error data), cycle-safe and
// iteratively, and returns the first error value that carries the recovered
// panic marker.
func findInternalPanic(v *lisp.LVal) *lisp.LVal {
	if v == nil {
		return nil
	}
	seen := map[*lisp.LVal]struct{}{}
	work := []*lisp.LVal{v}
	budget := 2000000
	for len(work) > 0 && budget > 0 {
		budget--
		x := work[len(work)-1]
		work = work[:len(work)-1]
		if x == nil {
			continue
		}
		if _, ok := seen[x]; ok {
			continue
		}
		seen[x] = struct{}{}
		if x.Type == lisp.LError && lisp.IsInternalPanic(x) {
			return x
		}
		work = append(work, x.Cells...)
		if x.Type == lisp.LSortMap {
			if md, ok := x.Native.(*lisp.MapData); ok && md != nil {
				func() {
					// a foreign Map implementation may misbehave; that is not
					// what this scan is about
					defer func() { _ = recover() }()
					buf := make([]*lisp.LVal, md.Len())
					if r := md.Entries(buf); r != nil && r.Type != lisp.LError {
						work = append(work, buf...)
					}
				}()
			}
		}
	}
	return nil
}

// findNilCell walks a result like findInternalPanic and reports the first
// container that holds a Go-nil *LVal in a cell or as a map value: such a value
// is not an ordinary value -- the next reader of it (the printer first of all)
// dereferences nil -- so a call that hands one back has not "returned a value".
func findNilCell(v *lisp.LVal) (holder *lisp.LVal, index int) {
	if v == nil {
		return nil, -1
	}
	seen := map[*lisp.LVal]struct{}{}
	work := []*lisp.LVal{v}
	budget := 2000000
	for len(work) > 0 && budget > 0 {
		budget--
		x := work[len(work)-1]
		work = work[:len(work)-1]
		if _, ok := seen[x]; ok {
			continue
		}
		seen[x] = struct{}{}
		for i, c := range x.Cells {
			if c == nil {
				return x, i
			}
			work = append(work, c)
		}
		if x.Type == lisp.LSortMap {
			if md, ok := x.Native.(*lisp.MapData); ok && md != nil {
				func() {
					defer func() { _ = recover() }()
					buf := make([]*lisp.LVal, md.Len())
					if r := md.Entries(buf); r != nil && r.Type != lisp.LError {
						for _, e := range buf {
							if e != nil {
								work = append(work, e)
							}
						}
					}
				}()
			}
		}
	}
	return nil, -1
}

// errText renders a result for messages and class labels WITHOUT calling into
// the interpreter's printer: the value may be cyclic or an exponentially
// shared DAG, and rendering it is not part of what the property promises.
func errText(v *lisp.LVal) string {
	if v == nil {
		return "<nil>"
	}
	budget := 120
	s := safeText(v, 5, &budget)
	if len(s) > 600 {
		s = s[:600] + "..."
	}
	return s
}

func safeText(v *lisp.LVal, depth int, budget *int) string {
	if v == nil {
		return "<nil>"
	}
	*budget--
	if *budget < 0 || depth < 0 {
		return "..."
	}
	kids := func(cells []*lisp.LVal) string {
		var parts []string
		for i, c := range cells {
			if i >= 8 || *budget < 0 {
				parts = append(parts, "...")
				break
			}
			parts = append(parts, safeText(c, depth-1, budget))
		}
		return strings.Join(parts, " ")
	}
	q := ""
	if v.IsQuoted() {
		q = "'"
	}
	switch v.Type {
	case lisp.LInt:
		return fmt.Sprint(v.Int)
	case lisp.LFloat:
		return fmt.Sprint(v.Float)
	case lisp.LString:
		return fmt.Sprintf("%q", clip(v.Str, 200))
	case lisp.LSymbol, lisp.LQSymbol:
		return q + clip(v.Str, 80)
	case lisp.LError:
		return "#<error " + v.Str + ": " + kids(v.Cells) + ">"
	case lisp.LSExpr:
		return q + "(" + kids(v.Cells) + ")"
	case lisp.LArray:
		if len(v.Cells) == 2 && v.Cells[1] != nil {
			return "(array " + kids(v.Cells[1].Cells) + ")"
		}
		return "#<array>"
	case lisp.LSortMap:
		return "#<sorted-map>"
	case lisp.LQuote:
		return "'" + kids(v.Cells)
	case lisp.LTaggedVal:
		return "#{" + v.Str + " " + kids(v.Cells) + "}"
	case lisp.LNative:
		if e, ok := v.Native.(error); ok && e != nil {
			return fmt.Sprintf("#<native error %q>", clip(e.Error(), 200))
		}
		return fmt.Sprintf("#<native %T>", v.Native)
	}
	return "#<" + v.Type.String() + ">"
}

var (
	reHex    = regexp.MustCompile(`0x[0-9a-fA-F]+`)
	reNum    = regexp.MustCompile(`-?[0-9]+`)
	reQuoted = regexp.MustCompile(`"[^"]*"`)
	reSpace  = regexp.MustCompile(`[^a-zA-Z]+`)
)

// panicClass turns a panic message into a short stable class label
// ("index-out-of-range", "nil-pointer-dereference", ...).
func panicClass(msg string) string {
	m := strings.ToLower(msg)
	if i := strings.Index(m, "(recovered panic): "); i >= 0 {
		m = m[i+len("(recovered panic): "):]
	}
	m = strings.TrimPrefix(m, "runtime error: ")
	switch {
	case strings.Contains(m, "nil pointer dereference"):
		return "nil-pointer-dereference"
	case strings.Contains(m, "index out of range"):
		return "index-out-of-range"
	case strings.Contains(m, "slice bounds out of range"):
		return "slice-bounds-out-of-range"
	case strings.Contains(m, "interface conversion"):
		return "interface-conversion"
	case strings.Contains(m, "makeslice"):
		return "makeslice"
	case strings.Contains(m, "divide by zero"):
		return "divide-by-zero"
	case strings.Contains(m, "reflect"):
		return "reflect"
	}
	m = reQuoted.ReplaceAllString(m, "")
	m = reHex.ReplaceAllString(m, "")
	m = reNum.ReplaceAllString(m, "")
	m = strings.Trim(reSpace.ReplaceAllString(m, "-"), "-")
	if len(m) > 48 {
		m = m[:48]
	}
	if m == "" {
		m = "unknown"
	}
	return m
}

// panicSite extracts the innermost elps frame from a Go stack snapshot
// ("lisp.builtinFoo", "libjson.(*encoder).encodeValue", ...).
func panicSite(stack string) string {
	lines := strings.Split(stack, "\n")
	sawPanic := false
	for _, ln := range lines {
		ln = strings.TrimSpace(ln)
		if strings.HasPrefix(ln, "panic(") || strings.HasPrefix(ln, "runtime.gopanic") {
			sawPanic = true
			continue
		}
		if !sawPanic {
			continue
		}
		if strings.HasPrefix(ln, "github.com/luthersystems/elps/") && !strings.Contains(ln, "verifharness") {
			fn := strings.TrimPrefix(ln, "github.com/luthersystems/elps/")
			if i := strings.LastIndex(fn, "("); i > 0 {
				fn = fn[:i]
			}
			if i := strings.LastIndex(fn, "/"); i >= 0 {
				fn = fn[i+1:]
			}
			return fn
		}
	}
	return ""
}

func goStackOf(v *lisp.LVal) string {
	if v == nil || v.Type != lisp.LError {
		return ""
	}
	if cs, ok := v.Native.(*lisp.CallStack); ok && cs != nil {
		return string(cs.GoStack)
	}
	return ""
}

func clip(s string, n int) string {
	if len(s) > n {
		return s[:n] + "...<clipped>"
	}
	return s
}

// ---------- journal ----------

type journalRec struct {
	Property string `json:"property"`
	Sub      string `json:"sub"`
	Key      string `json:"key"`
	Msg      string `json:"msg"`
	Case     any    `json:"case"`
}

// journal records the case about to run, in replay format, so that the driver
// can re-run it when this process is killed by a fatal runtime error.
func journal(sub string, c any) {
	dir := os.Getenv("VERIF_SCRATCH")
	if dir == "" {
		return
	}
	b, err := json.Marshal(journalRec{Property: "C03", Sub: sub, Key: "process-death",
		Msg: "the shard process died (fatal runtime error) while running this case", Case: c})
	if err != nil {
		return
	}
	tmp := filepath.Join(dir, "journal.json.tmp")
	if os.WriteFile(tmp, b, 0o644) == nil {
		os.Rename(tmp, filepath.Join(dir, "journal.json"))
	}
}

func TestCheck(t *testing.T) {
	vcommon.Main(t, "C03",
		vcommon.S("source-bytes", 4000, 120000, genSource(), checkSource),
		vcommon.S("apply-registry", 32000, 960000, genApply(), checkApply),
		vcommon.S("readers-unlimited", 2400, 160000, genReaderSrc(), checkReaders),
		vcommon.S("mutate-then-read", 9600, 320000, genSeq(), checkSeq),
		vcommon.E("source-matrix", enumMatrix, checkSource),
		vcommon.E("readers-matrix", enumReaderMatrix, checkReaders),
		vcommon.E("near-valid-strings", enumNearValid, checkNearValid),
		vcommon.E("apply-matrix", enumApplyMatrix, checkApply),
	)
}
