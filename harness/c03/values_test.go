package c03

import (
	"encoding/json"
	"errors"
	"fmt"
	"math"
	"regexp"
	"strings"
	"time"

	"github.com/luthersystems/elps/lisp"
	"github.com/luthersystems/elps/lisp/lisplib/libjson"
	"github.com/luthersystems/elps/lisp/lisplib/libtesting"
	"pgregory.net/rapid"
)

// VD is a JSON-serialisable description of one hostile value.  builder.build
// turns it into an *lisp.LVal deterministically, using only the exported Go
// constructors of package lisp (plus a few fixed lisp snippets for function
// values).  Containers may carry an ID; a {"k":"ref"} node resolves to the
// container with that ID, which makes cycles (reference to an enclosing
// container) and aliasing (reference to an earlier one) expressible.
type VD struct {
	K  string `json:"k"`
	I  int64  `json:"i,omitempty"`
	F  uint64 `json:"f,omitempty"` // float64 bits / native parameter
	S  []byte `json:"s,omitempty"`
	L  []VD   `json:"l,omitempty"`
	D  []int  `json:"d,omitempty"` // array dimensions
	ID int    `json:"id,omitempty"`
	Q  int    `json:"q,omitempty"` // quote levels applied on top
}

// host-side types used as native payloads

type hostInner struct {
	X int
	Y string
}

type hostStruct struct {
	Name    string
	Count   int
	Ratio   float64
	Inner   hostInner
	Ptr     *hostInner
	Fn      func()
	Ch      chan int
	Any     interface{}
	hidden  int
	Time    time.Time
	Items   []int
	ByName  map[string]int
	private *hostInner
}

type hostEmbed struct {
	*hostInner
	Z int
}

// hostDeep embeds a pointer to a struct that itself embeds a pointer: fields
// are promoted through two levels, either of which may be nil.
type hostDeep struct {
	*hostEmbed
	W int
}

// hostNils holds a nil value of every nilable kind.
type hostNils struct {
	M  map[string]int
	S  []int
	F  func()
	I  interface{}
	E  error
	P  *hostInner
	C  chan int
	PP **hostInner
	T  *time.Time
	R  *regexp.Regexp
	J  *json.RawMessage
}

// hostIface embeds a nil interface (its method set is promoted).
type hostIface struct {
	fmt.Stringer
	N int
}

type builder struct {
	env   *lisp.LEnv
	ids   map[int]*lisp.LVal
	nodes int
	// classification
	hostile bool // saw a container / native / error / function value
	cyclic  bool
	kinds   map[string]bool
}

func newBuilder(env *lisp.LEnv) *builder {
	return &builder{env: env, ids: map[int]*lisp.LVal{}, kinds: map[string]bool{}}
}

const maxBigStr = 1 << 20

// funSnippets are evaluated in the case's runtime to obtain function values.
var funSnippets = []string{
	/* 1 */ "(lambda (x) x)",
	/* 2 */ "(lambda () 1)",
	/* 3 */ "(lambda (&rest xs) xs)",
	/* 4 */ "(lambda (a b) (< a b))",
	/* 5 */ "(lambda (&rest xs) (error 'boom \"x\"))",
	/* 6 */ "(defun c03-loop (&rest xs) (cons 1 (apply c03-loop xs))) c03-loop",
	/* 7 */ "(defun c03-spin (&rest xs) (apply c03-spin xs)) c03-spin",
	/* 8 */ "(lambda (a &optional b &key c) (list a b c))",
	/* 9 */ "(defmacro c03-mac (&rest xs) (cons 'list xs)) c03-mac",
	/* 10 */ "(defmacro c03-selfmac (&rest xs) (cons 'c03-selfmac xs)) c03-selfmac",
	/* 11 */ "(lambda (&rest xs) (append! (car xs) (car xs)))",
	/* 12 */ "(lambda (&rest xs) true)",
	/* 13 */ "(lambda (&rest xs) ())",
	/* 14 */ "(lambda (a b) (string< (to-string a) (to-string b)))",
	/* 15 */ "(let ([v (vector 1)]) (append! v v) (lambda (&rest xs) v))",
	/* 16 */ "(lambda (&rest xs) (rethrow))",
}

func (b *builder) lookupFun(qual string) *lisp.LVal {
	pkgName, sym, ok := strings.Cut(qual, ":")
	if !ok {
		pkgName, sym = "lisp", qual
	}
	pkg := b.env.Runtime.Registry.Package(pkgName)
	if pkg == nil {
		return nil
	}
	v, _ := pkg.Symbol(sym)
	if v == nil || v.Type != lisp.LFun {
		return nil
	}
	return v
}

// goFun builds function values with the exported Go constructors, the way an
// embedder registers host functions: odd but legal results and formals.
func (b *builder) goFun(sel int64) *lisp.LVal {
	switch sel {
	case 100: // returns a Go nil *LVal
		return lisp.FunInPackage("user", "c03-nil", lisp.Formals(lisp.VarArgSymbol, "xs"), func(*lisp.LEnv, *lisp.LVal) *lisp.LVal { return nil })
	case 101: // returns an error value
		return lisp.FunInPackage("user", "c03-err", lisp.Formals(lisp.VarArgSymbol, "xs"), func(env *lisp.LEnv, _ *lisp.LVal) *lisp.LVal { return env.Errorf("host error") })
	case 102: // returns its argument list itself
		return lisp.FunInPackage("user", "c03-args", lisp.Formals(lisp.VarArgSymbol, "xs"), func(_ *lisp.LEnv, args *lisp.LVal) *lisp.LVal { return args })
	case 103: // package-less function (lisp.Fun leaves Package empty)
		return lisp.Fun("c03-nopkg", lisp.Formals("x"), func(_ *lisp.LEnv, args *lisp.LVal) *lisp.LVal { return args.Cells[0] })
	case 104: // host macro returning its first argument unevaluated
		return lisp.MacroInPackage("user", "c03-gomac", lisp.Formals("x"), func(_ *lisp.LEnv, args *lisp.LVal) *lisp.LVal { return args.Cells[0] })
	case 105: // host special operator
		return lisp.SpecialOpInPackage("user", "c03-goop", lisp.Formals(lisp.VarArgSymbol, "xs"), func(_ *lisp.LEnv, args *lisp.LVal) *lisp.LVal { return lisp.Int(len(args.Cells)) })
	case 106: // empty formals built from Nil
		return lisp.FunInPackage("user", "c03-nilformals", lisp.Nil(), func(*lisp.LEnv, *lisp.LVal) *lisp.LVal { return lisp.Int(1) })
	case 107: // comparison returning a non-boolean
		return lisp.FunInPackage("user", "c03-cmp", lisp.Formals("a", "b"), func(*lisp.LEnv, *lisp.LVal) *lisp.LVal { return lisp.String("yes") })
	}
	return lisp.FunInPackage("user", "c03-id", lisp.Formals("x"), func(_ *lisp.LEnv, args *lisp.LVal) *lisp.LVal { return args.Cells[0] })
}

const numGoFun = 8

func (b *builder) native(sel int64, p uint64) interface{} {
	switch sel {
	case 0:
		return nil
	case 1:
		return time.Unix(int64(p), 0).UTC()
	case 2:
		return time.Duration(int64(p))
	case 3:
		return struct{}{}
	case 4:
		return &hostStruct{Name: "n", Count: 3, Ptr: &hostInner{X: 1}, Any: 5, Items: []int{1}, ByName: map[string]int{"a": 1}}
	case 5:
		return hostStruct{Name: "v"}
	case 6:
		return int(int64(p))
	case 7:
		return "go-string"
	case 8:
		return math.Float64frombits(p)
	case 9:
		return uint64(math.MaxUint64)
	case 10:
		return float32(1.5)
	case 11:
		return (*regexp.Regexp)(nil)
	case 12:
		return regexp.MustCompile("a+(b*)")
	case 13:
		return (*hostStruct)(nil)
	case 14:
		return hostEmbed{Z: 1}
	case 15:
		return func() {}
	case 16:
		return map[string]int{"a": 1}
	case 17:
		return make(chan int)
	case 18:
		return lisp.Int(1)
	case 19:
		return errors.New("go error")
	case 20:
		return []byte("raw")
	case 21:
		if f := b.lookupFun("json:dump-message"); f != nil {
			m := lisp.SortedMap()
			m.MapSet("a", lisp.Int(1))
			r := b.env.FunCall(f, lisp.QExpr([]*lisp.LVal{m}))
			if r != nil && r.Type == lisp.LNative {
				return r.Native
			}
		}
		return nil
	case 22:
		return (*time.Time)(nil)
	case 23:
		return time.Time{}
	case 24:
		return b.env
	case 25:
		return &hostEmbed{}
	case 26:
		return (*lisp.LVal)(nil)
	case 27:
		return time.Duration(math.MinInt64)
	case 28:
		return time.Date(-292277022399, 1, 1, 0, 0, 0, 0, time.UTC)
	case 29:
		return int8(-3)
	case 30:
		return (*json.RawMessage)(nil)
	case 31:
		return (*time.Duration)(nil)
	case 32:
		return (*lisp.LEnv)(nil)
	case 33:
		return (*lisp.MapData)(nil)
	case 34:
		return (*lisp.CallStack)(nil)
	case 35:
		return (*[]byte)(nil)
	case 36:
		return (*string)(nil)
	case 37:
		return (*int)(nil)
	case 38:
		return (*float64)(nil)
	case 39:
		return (*hostEmbed)(nil)
	case 40:
		return hostDeep{W: 1} // nil *hostEmbed: Z, X, Y promoted through it
	case 41:
		return &hostDeep{hostEmbed: &hostEmbed{}} // second level nil: X, Y
	case 42:
		return hostNils{}
	case 43:
		return &hostNils{}
	case 44:
		return map[string]int(nil)
	case 45:
		return []int(nil)
	case 46:
		return (func())(nil)
	case 47:
		return (chan int)(nil)
	case 48:
		return json.RawMessage(nil)
	case 49:
		return &json.RawMessage{}
	case 50:
		return (*time.Location)(nil)
	case 51:
		return (*libtesting.TestSuite)(nil)
	case 52:
		return (*error)(nil)
	case 53:
		return hostIface{N: 1}
	case 54:
		return &hostIface{}
	case 55:
		return (*hostNils)(nil)
	case 56:
		return (*hostDeep)(nil)
	case 57:
		var pp **hostInner
		return pp
	case 58:
		var p *hostInner
		return &p // non-nil pointer to a nil pointer
	case 59:
		rm := json.RawMessage(`{"a":1}`)
		return &rm
	case 60:
		return []byte(nil)
	case 61:
		return [0]int{}
	}
	return struct{ A int }{int(sel)}
}

const numNativeSel = 62

// hostFieldNames are the field names (own, promoted, unexported, absent) of the
// host struct types above, for builtins that take a field name.
var hostFieldNames = []string{"X", "Y", "Z", "W", "Name", "Ptr", "Fn", "Any", "Items", "ByName", "Inner", "Time", "hidden", "private",
	"M", "S", "F", "I", "E", "P", "C", "PP", "T", "R", "J", "N", "Stringer", "String", "hostInner", "hostEmbed", "", "Nope"}

func abs64(i int64) int64 {
	if i < 0 {
		return -i
	}
	return i
}

func (b *builder) quoteN(v *lisp.LVal, q int) *lisp.LVal {
	for i := 0; i < q && i < 4; i++ {
		v = lisp.Quote(v)
	}
	return v
}

func (b *builder) build(d VD) *lisp.LVal {
	return b.quoteN(b.build0(d), d.Q)
}

func (b *builder) reg(d VD, v *lisp.LVal) {
	if d.ID != 0 {
		b.ids[d.ID] = v
	}
}

func (b *builder) children(l []VD, into []*lisp.LVal) {
	for i := range l {
		into[i] = b.build(l[i])
	}
}

func (b *builder) build0(d VD) *lisp.LVal {
	b.nodes++
	b.kinds[d.K] = true
	if b.nodes > 20000 {
		return lisp.Nil()
	}
	switch d.K {
	case "nil", "":
		return lisp.Nil()
	case "true":
		return lisp.Bool(true)
	case "false":
		return lisp.Bool(false)
	case "int":
		return lisp.Int(int(d.I))
	case "float":
		return lisp.Float(math.Float64frombits(d.F))
	case "str":
		return lisp.String(string(d.S))
	case "bigstr":
		n := int(d.I)
		if n < 0 {
			n = 0
		}
		unit := string(d.S)
		if unit == "" {
			unit = "a"
		}
		if n*len(unit) > maxBigStr {
			n = maxBigStr / len(unit)
		}
		return lisp.String(strings.Repeat(unit, n))
	case "nest":
		// S="[" I=n : n nested copies of an open/close pair as string text
		n := int(d.I)
		if n < 0 {
			n = 0
		}
		if n > maxBigStr/2 {
			n = maxBigStr / 2
		}
		op, cl := "[", "]"
		if len(d.S) >= 2 {
			op, cl = string(d.S[0]), string(d.S[1])
		}
		return lisp.String(strings.Repeat(op, n) + strings.Repeat(cl, n))
	case "sym":
		return lisp.Symbol(string(d.S))
	case "qsym":
		return lisp.QSymbol(string(d.S))
	case "bytes":
		if d.I == 1 {
			return lisp.Bytes(nil)
		}
		return lisp.Bytes(append([]byte{}, d.S...))
	case "list", "sexpr":
		b.hostile = true
		cells := make([]*lisp.LVal, len(d.L))
		var v *lisp.LVal
		if d.K == "list" {
			v = lisp.QExpr(cells)
		} else {
			v = lisp.SExpr(cells)
		}
		b.reg(d, v)
		b.children(d.L, cells)
		return v
	case "vector":
		b.hostile = true
		cells := make([]*lisp.LVal, len(d.L))
		for i := range cells {
			cells[i] = lisp.Nil()
		}
		v := lisp.Vector(cells)
		b.reg(d, v)
		b.children(d.L, cells)
		return v
	case "array":
		b.hostile = true
		total := 1
		dims := make([]*lisp.LVal, len(d.D))
		for i, n := range d.D {
			if n < 0 {
				n = 0
			}
			if n > 64 {
				n = 64
			}
			dims[i] = lisp.Int(n)
			total *= n
		}
		if total > 4096 {
			return lisp.Nil()
		}
		var cells []*lisp.LVal
		if len(d.L) > 0 && total > 0 {
			cells = make([]*lisp.LVal, total)
			for i := range cells {
				cells[i] = lisp.Nil()
			}
		}
		v := lisp.Array(lisp.QExpr(dims), cells)
		if v.Type != lisp.LArray {
			return lisp.Nil() // constructor refused: not a value
		}
		b.reg(d, v)
		for i := range cells {
			if i < len(d.L) {
				cells[i] = b.build(d.L[i])
			}
		}
		return v
	case "map", "jsonmap":
		b.hostile = true
		var v *lisp.LVal
		if d.K == "jsonmap" {
			v = libjson.Load([]byte(`{"a":{"b":[1,2.5,"x",null,true]},"c":null}`), false)
			if v == nil || v.Type != lisp.LSortMap {
				v = lisp.SortedMap()
			}
		} else {
			v = lisp.SortedMap()
		}
		b.reg(d, v)
		for i := 0; i+1 < len(d.L); i += 2 {
			k := b.build0(d.L[i])
			if k.Type != lisp.LString && k.Type != lisp.LSymbol {
				k = lisp.String("k")
			}
			if d.K == "jsonmap" {
				k = lisp.String(k.Str)
			}
			val := b.build(d.L[i+1])
			v.MapSet(k, val) // an error answer leaves the map unchanged
		}
		return v
	case "native":
		b.hostile = true
		return lisp.Native(b.native(d.I, d.F))
	case "error":
		b.hostile = true
		cond := string(d.S)
		if cond == "" {
			cond = "error"
		}
		switch d.I {
		case 1:
			return lisp.Errorf("boom %d", 1)
		case 2:
			return lisp.Error(errors.New("go error"))
		case 3:
			return lisp.ErrorCondition(cond, errors.New("go error"))
		case 4:
			return b.env.ErrorConditionf(cond, "formatted %v", 1)
		}
		args := make([]interface{}, len(d.L))
		v := b.env.ErrorCondition(cond)
		b.reg(d, v)
		cells := make([]*lisp.LVal, len(d.L))
		b.children(d.L, cells)
		for i := range cells {
			args[i] = cells[i]
		}
		built := b.env.ErrorCondition(cond, args...)
		// keep identity for refs registered above
		*v = *built
		return v
	case "fun":
		b.hostile = true
		if d.I == 0 {
			if f := b.lookupFun(string(d.S)); f != nil {
				return f
			}
			return lisp.Nil()
		}
		if d.I >= 100 {
			return b.goFun(d.I)
		}
		i := int(d.I)
		if i < 1 || i > len(funSnippets) {
			i = 1
		}
		f := b.env.LoadString("c03-fun", funSnippets[i-1])
		if f == nil || f.Type != lisp.LFun {
			return lisp.Nil()
		}
		return f
	case "lambda":
		// a function value whose BODY forms are built from data: the body may
		// hold (or be) a container that holds the function, so a cycle can run
		// through an LFun.  I selects the formals.
		b.hostile = true
		formals := []*lisp.LVal{lisp.Formals(), lisp.Formals("x"), lisp.Formals(lisp.VarArgSymbol, "xs"), lisp.Formals("a", lisp.KeyArgSymbol, "k")}[int(abs64(d.I))%4]
		body := make([]*lisp.LVal, len(d.L))
		for i := range body {
			body[i] = lisp.Nil()
		}
		f := b.env.Lambda(formals, body)
		if f.Type != lisp.LFun {
			return lisp.Nil()
		}
		b.reg(d, f)
		for i := range d.L {
			f.Cells[1+i] = b.build(d.L[i])
		}
		return f
	case "tagged":
		b.hostile = true
		name := string(d.S)
		if name == "" {
			name = "user:c03-type"
		}
		v := b.env.TaggedValue(lisp.Symbol(name), lisp.Nil())
		b.reg(d, v)
		if len(d.L) > 0 {
			v.Cells[0] = b.build(d.L[0])
		}
		return v
	case "typedef":
		b.hostile = true
		b.env.LoadString("c03-typedef", "(deftype c03t (x) x)")
		v := b.env.GetGlobal(lisp.Symbol("c03t"))
		if v == nil || v.Type == lisp.LError {
			return lisp.Nil()
		}
		return v
	case "call":
		// the value a registered callable answers for built arguments (a
		// schema constraint, a validator, a compiled regexp, a json message ...).
		// An error answer is itself the value.
		b.hostile = true
		f := b.lookupFun(string(d.S))
		if f == nil {
			return lisp.Nil()
		}
		cells := make([]*lisp.LVal, len(d.L))
		b.children(d.L, cells)
		var r *lisp.LVal
		func() {
			defer func() {
				if recover() != nil {
					r = nil
				}
			}()
			r = b.env.FunCall(f, lisp.QExpr(cells))
		}()
		if r == nil {
			return lisp.Nil()
		}
		b.reg(d, r)
		return r
	case "ref":
		if v, ok := b.ids[d.ID]; ok {
			b.cyclic = true
			return v
		}
		return lisp.Nil()
	}
	return lisp.Nil()
}

// ---------- generation ----------

var hostileInts = []int64{0, 1, -1, 2, 3, 7, 10, 64, 255, 256, -256, 1000, 99999, 100000, 100001, 1 << 31, -(1 << 31), 1<<31 - 1,
	1 << 32, 1 << 53, 1 << 62, math.MaxInt64, math.MinInt64, math.MaxInt64 - 1, math.MinInt64 + 1, -2, 4611686018427387904, 1000000007}

var hostileFloats = []float64{0, math.Copysign(0, -1), 1, -1, 0.5, 1.5, -2.5, math.NaN(), math.Inf(1), math.Inf(-1), math.MaxFloat64,
	-math.MaxFloat64, math.SmallestNonzeroFloat64, 1e18, -1e18, 9223372036854775808.0, -9223372036854775809.0, 1e-300, 1e300, 100000.5, 4294967296.0}

var hostileSyms = []string{"list", "vector", "bytes", "string", "sorted-map", "array", "int", "float", "symbol", "error", "function",
	"native", "lisp:list", "*", "range", ":max", ":name", ":string-numbers", ":exact-integers", ":key", "else", "&rest", "&optional", "&key",
	"%", "%1", "%2", "%&rest", "%&optional", "%99999999", "true", "false", "nil", "", ":", "::", "a:b:c", "nopkg:x", "lisp:car", "condition",
	"x", "car", "lisp", "user", "json", "time", "c03t", "user:c03-type", "lisp:typedef", "quote", "unquote", "unquote-splicing", "quasiquote",
	"lambda", "if", "defun", "all", "a b", "\xff", "(", "test", "any", "number", "bool", "fun", "map", "key", "s:string", "_"}

var hostileStrs = []string{"", "x", "abc", "a b", "{}", "{", "}{", "{}{}{}", "{{}}", "%s%d",
	"{0}", "{1} {0}", "{9223372036854775807}", "{9223372036854775808}", "{18446744073709551616}", "{-1}", "{00000000000000000001}", "{1e3}", "{ 1 }", "{4294967296}", "{0} {}", "\xff\xfe", "a\x00b", "é", " ", "\xed\xa0\x80",
	`{"a":[1,2,{"b":null}]}`, `[1,2`, `"str"`, `1e400`, `123456789012345678901234567890`, `-0`, `{"a":1,"a":2}`, "null", "tru",
	"(+ 1 2)", "(", ")", "(error 'x)", "(defun f () (f)) (f)", "'", "#^(%99999999)", "(load-string \"(\")",
	"a+(b*)", "(((", "[", "a{1000}{1000}", "(?P<n>x)", "\\", "(a*)*b", "[[:alpha:]]", "(?i)x",
	"2023-01-15T10:30:00Z", "2023-01-15T10:30:00+24:00", "0000-01-01T00:00:00Z", "9999-12-31T23:59:59.999999999Z", "2023-02-30T00:00:00Z",
	"1h", "-1h", "2562047h47m16.854775807s", "2562047h47m16.854775808s", "1e9h", "5ms", "1ns", "0", ".5s", "1.5.5s",
	"YWJj", "YWJj=", "!!!!", "====", "x.lisp", "../../etc/passwd", "/dev/zero", "/dev/stdin", "list", "vector", "user", "lisp", "json",
	"Name", "Ptr", "hidden", "X", "Inner", "Fn", ",", " ", "\n", "self", "a", "b", "k"}

// structured strings the string-taking builtins parse: a drawn one is edited
// in one to three places (delete, duplicate, replace, insert, truncate), which
// yields the NEARLY valid inputs -- a one-digit hour, a missing quote, a
// dangling exponent -- that hand-picked hostile constants do not contain.
var structuredStrs = []string{
	"2006-01-02T15:04:05Z", "2006-01-02T15:04:05.123456789Z", "2006-01-02T15:04:05+07:00", "2006-01-02T15:04:05.5-00:30", "2024-02-29T23:59:60Z",
	"1h2m3.5s", "-1.5h", "300ms", "1us", "2562047h47m16s", "1m0.000000001s",
	`{"a":[1,2.5e3,{"b":null,"c":"\u00e9\n"}],"d":true}`, `[1,-0.0,1e-7,"x"]`, `"\ud83d\ude00"`, `9007199254740993`,
	"YWJjZA==", "YWJj", "a-_b",
	"{} and {}", "{{}} {}", "%v %d %%",
	"^a(b|c)*d[e-g]{1,3}$", "(?i)x+?", "\\d+\\.\\d*",
	"pkg:name", ":kw", "a.b.c", "a/b/c.lisp",
}

var editAlphabet = []byte("0123456789:-+.TZz eE{}[]\"\\,()%/\x00\xff")

func genMutStr(t *rapid.T) []byte {
	b := []byte(rapid.SampledFrom(structuredStrs).Draw(t, "base"))
	for n := rapid.IntRange(1, 3).Draw(t, "nedits"); n > 0 && len(b) > 0; n-- {
		i := rapid.IntRange(0, len(b)-1).Draw(t, "at")
		switch rapid.IntRange(0, 4).Draw(t, "edit") {
		case 0: // delete
			b = append(b[:i:i], b[i+1:]...)
		case 1: // duplicate
			b = append(b[:i+1:i+1], b[i:]...)
		case 2: // replace
			b[i] = rapid.SampledFrom(editAlphabet).Draw(t, "ch")
		case 3: // insert
			b = append(b[:i:i], append([]byte{rapid.SampledFrom(editAlphabet).Draw(t, "ch")}, b[i:]...)...)
		default: // truncate
			b = b[:i]
		}
	}
	return b
}

func genAtom(t *rapid.T) VD {
	switch rapid.IntRange(0, 13).Draw(t, "atom") {
	case 0:
		return VD{K: "nil"}
	case 1:
		return VD{K: rapid.SampledFrom([]string{"true", "false"}).Draw(t, "b")}
	case 2, 3:
		if rapid.IntRange(0, 3).Draw(t, "ir") == 0 {
			return VD{K: "int", I: rapid.Int64().Draw(t, "i")}
		}
		return VD{K: "int", I: rapid.SampledFrom(hostileInts).Draw(t, "i")}
	case 4:
		if rapid.IntRange(0, 3).Draw(t, "fr") == 0 {
			return VD{K: "float", F: math.Float64bits(rapid.Float64().Draw(t, "f"))}
		}
		return VD{K: "float", F: math.Float64bits(rapid.SampledFrom(hostileFloats).Draw(t, "f"))}
	case 5, 6:
		switch rapid.IntRange(0, 5).Draw(t, "sr") {
		case 0:
			return VD{K: "str", S: rapid.SliceOfN(rapid.Byte(), 0, 12).Draw(t, "s")}
		case 1, 2:
			return VD{K: "str", S: genMutStr(t)}
		}
		return VD{K: "str", S: []byte(rapid.SampledFrom(hostileStrs).Draw(t, "s"))}
	case 7:
		switch rapid.IntRange(0, 3).Draw(t, "big") {
		case 0:
			return VD{K: "bigstr", S: []byte(rapid.SampledFrom([]string{"a", "ab", "{}", "\xff", "é", " ", "(", "a,"}).Draw(t, "u")),
				I: int64(rapid.SampledFrom([]int{100, 1000, 50000, 99999, 100000, 100001, 400000, 1000000}).Draw(t, "n"))}
		case 1:
			return VD{K: "nest", S: []byte(rapid.SampledFrom([]string{"[]", "{}", "()", "((", "[[", "''"}).Draw(t, "u")),
				I: int64(rapid.SampledFrom([]int{10, 1000, 9999, 10001, 50000, 200000, 500000}).Draw(t, "n"))}
		default:
			return VD{K: "str", S: []byte(rapid.SampledFrom(hostileStrs).Draw(t, "s"))}
		}
	case 8, 9:
		k := "sym"
		q := rapid.SampledFrom([]int{0, 0, 1, 1, 2}).Draw(t, "q")
		if rapid.IntRange(0, 9).Draw(t, "qs") == 0 {
			k = "qsym"
		}
		return VD{K: k, S: []byte(rapid.SampledFrom(hostileSyms).Draw(t, "s")), Q: q}
	case 10:
		switch rapid.IntRange(0, 2).Draw(t, "by") {
		case 0:
			return VD{K: "bytes", I: 1}
		case 1:
			return VD{K: "bytes", S: rapid.SliceOfN(rapid.Byte(), 0, 8).Draw(t, "s")}
		default:
			return VD{K: "bytes", S: []byte(rapid.SampledFrom(hostileStrs).Draw(t, "s"))}
		}
	case 11:
		sel := int64(rapid.IntRange(0, numNativeSel-1).Draw(t, "nat"))
		var p uint64
		switch sel {
		case 1:
			p = uint64(rapid.SampledFrom([]int64{0, 1700000000, -62135596800, 253402300799, math.MaxInt64, math.MinInt64, 1 << 40, -(1 << 40)}).Draw(t, "p"))
		case 2, 6:
			p = uint64(rapid.SampledFrom(hostileInts).Draw(t, "p"))
		case 8:
			p = math.Float64bits(rapid.SampledFrom(hostileFloats).Draw(t, "p"))
		}
		return VD{K: "native", I: sel, F: p}
	case 12:
		return genFun(t)
	default:
		return VD{K: "error", I: int64(rapid.IntRange(1, 4).Draw(t, "ev")), S: []byte(rapid.SampledFrom([]string{"", "boom", "internal-panic", "condition", "error"}).Draw(t, "c"))}
	}
}

func genFun(t *rapid.T) VD {
	if rapid.IntRange(0, 2).Draw(t, "fk") == 0 && len(callables) > 0 {
		c := callables[rapid.IntRange(0, len(callables)-1).Draw(t, "fn")]
		return VD{K: "fun", I: 0, S: []byte(c.Pkg + ":" + c.Name)}
	}
	if rapid.IntRange(0, 3).Draw(t, "gofun") == 0 {
		return VD{K: "fun", I: 100 + int64(rapid.IntRange(0, numGoFun-1).Draw(t, "gf"))}
	}
	return VD{K: "fun", I: int64(rapid.IntRange(1, len(funSnippets)).Draw(t, "fs"))}
}

type genState struct {
	nextID int
	open   []int // IDs of enclosing containers (cycle targets)
	closed []int // IDs of completed containers (alias targets)
}

func (g *genState) newID() int {
	g.nextID++
	return g.nextID
}

// genVDIn draws one value description.  depth bounds container nesting.
func genVDIn(t *rapid.T, g *genState, depth int) VD {
	k := rapid.IntRange(0, 19).Draw(t, "kind")
	if depth <= 0 && k >= 10 && k != 19 {
		k = 0
	}
	switch {
	case k < 10:
		return genAtom(t)
	case k == 19:
		// reference: cycle or alias
		if len(g.open) > 0 && rapid.IntRange(0, 3).Draw(t, "cyc") > 0 {
			return VD{K: "ref", ID: g.open[rapid.IntRange(0, len(g.open)-1).Draw(t, "open")]}
		}
		if len(g.closed) > 0 {
			return VD{K: "ref", ID: g.closed[rapid.IntRange(0, len(g.closed)-1).Draw(t, "closed")]}
		}
		return genAtom(t)
	}
	id := g.newID()
	g.open = append(g.open, id)
	var d VD
	d.ID = id
	n := rapid.IntRange(0, 4).Draw(t, "n")
	kids := func(n int) []VD {
		out := make([]VD, n)
		for i := range out {
			out[i] = genVDIn(t, g, depth-1)
		}
		return out
	}
	switch k {
	case 10, 11:
		d.K = "list"
		d.L = kids(n)
	case 12:
		d.K = "sexpr"
		d.L = kids(n)
		d.Q = rapid.SampledFrom([]int{0, 0, 1}).Draw(t, "q")
	case 13, 14:
		d.K = "vector"
		d.L = kids(n)
	case 15:
		d.K = "array"
		nd := rapid.IntRange(0, 3).Draw(t, "nd")
		d.D = make([]int, nd)
		total := 1
		for i := range d.D {
			d.D[i] = rapid.IntRange(0, 3).Draw(t, "dim")
			total *= d.D[i]
		}
		if rapid.Bool().Draw(t, "fill") {
			d.L = kids(min(total, 6))
		}
	case 16:
		d.K = rapid.SampledFrom([]string{"map", "map", "map", "jsonmap"}).Draw(t, "mk")
		for i := 0; i < n; i++ {
			var key VD
			if rapid.IntRange(0, 3).Draw(t, "ksym") == 0 {
				key = VD{K: "sym", S: []byte(rapid.SampledFrom([]string{"a", "b", "self", "list", "k"}).Draw(t, "key"))}
			} else {
				key = VD{K: "str", S: []byte(rapid.SampledFrom([]string{"a", "b", "self", "k", "", "\xff", "0", "c"}).Draw(t, "key"))}
			}
			d.L = append(d.L, key, genVDIn(t, g, depth-1))
		}
	case 17:
		d.K = "tagged"
		d.S = []byte(rapid.SampledFrom([]string{"user:c03-type", "string", "lisp:typedef", "list", "", "a:b:c"}).Draw(t, "tn"))
		d.L = kids(1)
	case 18:
		if tk := rapid.IntRange(0, 3).Draw(t, "td"); tk == 0 {
			d.K = "typedef"
		} else if tk == 1 {
			d.K = "lambda"
			d.I = int64(rapid.IntRange(0, 3).Draw(t, "lf"))
			d.L = kids(max(1, min(n, 2)))
		} else {
			d.K = "error"
			d.S = []byte(rapid.SampledFrom([]string{"", "boom", "internal-panic", "condition"}).Draw(t, "c"))
			d.L = kids(min(n, 2))
		}
	}
	g.open = g.open[:len(g.open)-1]
	g.closed = append(g.closed, id)
	return d
}
