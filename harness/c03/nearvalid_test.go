package c03

import (
	"fmt"
	"strconv"
	"time"

	"github.com/luthersystems/elps/lisp"
	"github.com/luthersystems/elps/verifharness/vcommon"
)

// near-valid-strings: every string-parsing builtin is handed every single-edit
// neighbour of a set of VALID inputs of its own grammar (and of the other
// grammars).  Parsers index into their input after a partial match; the inputs
// that break such code are one edit away from valid ones (a one-digit hour, a
// missing quote, a dangling exponent) and are not reached by hostile constants.
//
// One case = (parser, base string, edit position): the oracle applies every
// edit operation at that position inside one runtime.

type NearValid struct {
	Fn   int `json:"fn"`
	Base int `json:"base"`
	Pos  int `json:"pos"`
}

type nvParser struct {
	name string
	call func(arg string) string // source text applying the parser to the string literal arg
}

func lit(s string) string { return strconv.Quote(s) }

var nvParsers = []nvParser{
	{"time:parse-rfc3339", func(a string) string { return "(time:parse-rfc3339 " + a + ")" }},
	{"time:parse-rfc3339-nano", func(a string) string { return "(time:parse-rfc3339-nano " + a + ")" }},
	{"time:parse-duration", func(a string) string { return "(time:parse-duration " + a + ")" }},
	{"json:load-string", func(a string) string { return "(json:load-string " + a + ")" }},
	{"json:load-string/string-numbers", func(a string) string { return "(json:load-string " + a + " :string-numbers true)" }},
	{"json:load-string/exact-integers", func(a string) string { return "(json:load-string " + a + " :exact-integers true)" }},
	{"json:load-bytes", func(a string) string { return "(json:load-bytes (to-bytes " + a + "))" }},
	{"base64:decode", func(a string) string { return "(base64:decode " + a + ")" }},
	{"base64:decode/bytes", func(a string) string { return "(base64:decode (to-bytes " + a + "))" }},
	{"to-string/bytes", func(a string) string { return "(to-string (to-bytes " + a + "))" }},
	{"regexp:regexp-compile", func(a string) string { return "(regexp:regexp-match? (regexp:regexp-compile " + a + ") \"abcd 12.5\")" }},
	{"s:regexp", func(a string) string { return "(s:validate (s:deftype \"nv\" s:string (s:regexp " + a + ")) \"abcd\")" }},
	{"format-string", func(a string) string { return "(format-string " + a + " 1 \"x\")" }},
	{"assert/message", func(a string) string { return "(assert false " + a + " 1 \"x\")" }},
	{"format-string/no-values", func(a string) string { return "(format-string " + a + ")" }},
	{"to-int", func(a string) string { return "(to-int " + a + ")" }},
	{"to-float", func(a string) string { return "(to-float " + a + ")" }},
	{"load-string", func(a string) string { return "(load-string " + a + ")" }},
	{"string:split", func(a string) string { return "(string:split \"a,b;c\" " + a + ")" }},
	{"in-package", func(a string) string { return "(progn (in-package " + a + ") (in-package 'user))" }},
}

var nvBases = []string{
	"2006-01-02T15:04:05Z", "2006-01-02T15:04:05.123456789Z", "2006-01-02T15:04:05+07:00", "2006-01-02T15:04:05.5-00:30", "2024-02-29T23:59:59z",
	"1h2m3.5s", "-1.5h", "300ms", "1us", "2562047h47m16s", "1m0.000000001s",
	`{"a":[1,2.5e3,{"b":null,"c":"\u00e9\n"}],"d":true}`, `[1,-0.0,1e-7,"x"]`, `"\ud83d\ude00"`, `9007199254740993`, `{"k":-12.5E+2}`,
	"YWJjZA==", "YWJj", "a-_b",
	"{} and {}", "{{}} {}",
	"{0}", "{1} {0}", "{9223372036854775807}", "{9223372036854775808}", "{18446744073709551616}", "{-1}", "{00000000000000000001}", "{1e3}", "{ 1 }", "{4294967296}",
	"^a(b|c)*d[e-g]{1,3}$", "(?i)x+?", `\d+\.\d*`,
	"12", "-9223372036854775808", "0x1F", "1.5e10", "-.5", "1_000",
	"(+ 1 (car '(2 3)))", "'(a \"s\" #^(+ % 1) ; c\n b)", "pkg:name",
}

var nvAlphabet = []byte("0123456789:-+.TZz eE{}[]\"\\,()%/'#=aA_\n\x00\xff")

func nvEdits(base []byte, pos int) [][]byte {
	var out [][]byte
	add := func(b []byte) { out = append(out, b) }
	cp := func(n int) []byte { return append(make([]byte, 0, n), base...) }
	if pos < len(base) {
		add(append(cp(len(base))[:pos], base[pos+1:]...))                          // delete
		add(append(append(cp(len(base) + 1)[:pos+1], base[pos]), base[pos+1:]...)) // duplicate
		add(cp(len(base))[:pos])                                                   // truncate
		for _, ch := range nvAlphabet { // replace
			b := cp(len(base))
			b[pos] = ch
			add(b)
		}
	}
	for _, ch := range nvAlphabet { // insert (pos may equal len: append)
		b := append(append(cp(len(base) + 1)[:pos], ch), base[pos:]...)
		add(b)
	}
	return out
}

func enumNearValid(shard, nshards int, emit func(NearValid) bool) {
	i := 0
	for f := range nvParsers {
		for b := range nvBases {
			for p := 0; p <= len(nvBases[b]); p++ {
				i++
				if (i-1)%nshards != shard {
					continue
				}
				if !emit(NearValid{Fn: f, Base: b, Pos: p}) {
					return
				}
			}
		}
	}
}

func checkNearValid(n NearValid, ctx *vcommon.Ctx) *vcommon.Failure {
	if n.Fn < 0 || n.Fn >= len(nvParsers) || n.Base < 0 || n.Base >= len(nvBases) || n.Pos < 0 || n.Pos > len(nvBases[n.Base]) {
		return nil
	}
	p := nvParsers[n.Fn]
	rt, cancel := newRuntime()
	defer cancel()
	edits := nvEdits([]byte(nvBases[n.Base]), n.Pos)
	if n.Pos == 0 {
		edits = append(edits, []byte(nvBases[n.Base])) // the base itself, once
	}
	ctx.Class("parser/" + p.name)
	if n.Pos > 0 && n.Pos < len(nvBases[n.Base]) {
		ctx.NonTrivial(fmt.Sprintf("%d/%d/%d", n.Fn, n.Base, n.Pos))
	}
	for _, e := range edits {
		src := p.call(lit(string(e)))
		o := guarded(20*time.Second, func() *lisp.LVal { return rt.Env.LoadString("nv.lisp", src) })
		if o.timedOut {
			return vcommon.Failf("near-valid/wedge/"+p.name, "%s did not return within 20s", src)
		}
		if o.panicVal != nil {
			return vcommon.Failf("near-valid/go-panic/"+p.name, "a Go panic escaped %s: %v\n%s", src, o.panicVal, clip(o.stack, 600))
		}
		if ip := findInternalPanic(o.res); ip != nil {
			return vcommon.Failf("near-valid/internal-panic/"+p.name, "%s answers with the internal-panic condition: %s", src, clip(errText(ip), 600))
		}
	}
	return nil
}
