package c03

import (
	"fmt"
	"math"
	"sort"
	"strings"
	"time"
	"unicode/utf8"

	"github.com/luthersystems/elps/lisp"
	"github.com/luthersystems/elps/verifharness/vcommon"
	"pgregory.net/rapid"
)

// Callable is one registered LFun value, named by (package, symbol).
type Callable struct {
	Pkg, Name string
	FunType   string // function | operator | macro
	Req, Opt  []string
	Rest      string
	Keys      []string
	NFormals  int
}

// callables is every LFun bound in every package of a fully loaded runtime,
// in a stable order (the enumeration itself is not random).
var callables = enumerateCallables()

func enumerateCallables() []Callable {
	rt := vcommon.NewRuntime(vcommon.Cfg{NoProbes: true})
	reg := rt.Env.Runtime.Registry
	var out []Callable
	pkgs := append([]string{}, reg.PackageNames()...)
	sort.Strings(pkgs)
	for _, p := range pkgs {
		pkg := reg.Package(p)
		if pkg == nil {
			continue
		}
		syms := append([]string{}, pkg.SymbolNames()...)
		sort.Strings(syms)
		for _, s := range syms {
			v, _ := pkg.Symbol(s)
			if v == nil || v.Type != lisp.LFun || len(v.Cells) == 0 {
				continue
			}
			c := Callable{Pkg: p, Name: s, FunType: v.FunType.String()}
			mode := 0
			for _, f := range v.Cells[0].Cells {
				c.NFormals++
				switch f.Str {
				case lisp.OptArgSymbol:
					mode = 1
				case lisp.VarArgSymbol:
					mode = 2
				case lisp.KeyArgSymbol:
					mode = 3
				default:
					switch mode {
					case 0:
						c.Req = append(c.Req, f.Str)
					case 1:
						c.Opt = append(c.Opt, f.Str)
					case 2:
						c.Rest = f.Str
					case 3:
						c.Keys = append(c.Keys, f.Str)
					}
				}
			}
			out = append(out, c)
		}
	}
	return out
}

func findCallable(pkg, name string) *Callable {
	for i := range callables {
		if callables[i].Pkg == pkg && callables[i].Name == name {
			return &callables[i]
		}
	}
	return nil
}

// Apply is one application case: a callable named by (package, symbol), a
// tuple of argument descriptions and the route (direct = env.FunCall /
// SpecialOpCall / MacroCall; eval = the same application written as an
// expression and handed to env.Eval).
type Apply struct {
	Pkg  string `json:"pkg"`
	Name string `json:"name"`
	Via  string `json:"via"`
	Args []VD   `json:"args"`
	Tag  string `json:"tag,omitempty"` // generator block the case came from (classification only)
}

// ---------- argument generation guided by formal names ----------

func genContainer(t *rapid.T, g *genState, depth int) VD {
	for i := 0; i < 4; i++ {
		d := genVDIn(t, g, depth)
		switch d.K {
		case "list", "vector", "array", "map", "jsonmap", "sexpr", "ref", "lambda":
			return d
		}
	}
	return VD{K: "vector", ID: g.newID(), L: []VD{genAtom(t), genAtom(t)}}
}

var formHeads = []string{"+", "list", "car", "x", "if", "let", "lambda", "quote", "progn", "error", "f", "vector", "set", "defun",
	"funcall", "c03-selfmac", "unquote", "unquote-splicing", "quasiquote", "dotimes", "cond", "else", "handler-bind", "condition",
	"rethrow", "append!", "i", "%", "%1", "lisp:expr", "function", "nopkg:f", "to-string", "sorted-map", "assoc!", "equal?"}

func genForm(t *rapid.T, g *genState, depth int) VD {
	if depth <= 0 || rapid.IntRange(0, 3).Draw(t, "leaf") == 0 {
		switch rapid.IntRange(0, 4).Draw(t, "fa") {
		case 0:
			return VD{K: "sym", S: []byte(rapid.SampledFrom(formHeads).Draw(t, "s"))}
		case 1:
			return VD{K: "int", I: rapid.SampledFrom(hostileInts).Draw(t, "i")}
		case 2:
			return VD{K: "sym", S: []byte(rapid.SampledFrom(hostileSyms).Draw(t, "s")), Q: rapid.IntRange(0, 1).Draw(t, "q")}
		default:
			return genVDIn(t, g, 1)
		}
	}
	n := rapid.IntRange(0, 3).Draw(t, "n")
	d := VD{K: "sexpr", ID: g.newID()}
	g.open = append(g.open, d.ID)
	d.L = append(d.L, VD{K: "sym", S: []byte(rapid.SampledFrom(formHeads).Draw(t, "head"))})
	for i := 0; i < n; i++ {
		d.L = append(d.L, genForm(t, g, depth-1))
	}
	g.open = g.open[:len(g.open)-1]
	g.closed = append(g.closed, d.ID)
	return d
}

func genBindings(t *rapid.T, g *genState) VD {
	n := rapid.IntRange(0, 3).Draw(t, "nb")
	d := VD{K: "sexpr", ID: g.newID()}
	for i := 0; i < n; i++ {
		pair := VD{K: "sexpr"}
		pair.L = append(pair.L, VD{K: "sym", S: []byte(rapid.SampledFrom([]string{"x", "y", "f", "condition", "boom", "true", ":k", "a:b"}).Draw(t, "bn"))})
		m := rapid.IntRange(0, 2).Draw(t, "bm")
		for j := 0; j < m; j++ {
			pair.L = append(pair.L, genForm(t, g, 2))
		}
		d.L = append(d.L, pair)
	}
	return d
}

func has(name string, subs ...string) bool {
	for _, s := range subs {
		if name == s {
			return true
		}
	}
	return false
}

// genArgFor draws an argument for the formal called name: with probability
// ~0.6 a value of the shape that formal's name suggests (so that calls get
// past the first type guard), otherwise any hostile value.
func genArgFor(t *rapid.T, g *genState, c *Callable, name string) VD {
	special := c.FunType != "function"
	if rapid.IntRange(0, 9).Draw(t, "hint") >= 6 {
		if special && rapid.Bool().Draw(t, "formish") {
			return genForm(t, g, 2)
		}
		return genVDIn(t, g, 3)
	}
	switch {
	case has(name, "type-specifier", "type", "typ") && rapid.IntRange(0, 3).Draw(t, "typedef") == 0:
		// a typedef: the genuine one, or a tagged value carrying the typedef
		// type name with arbitrary user data
		if rapid.Bool().Draw(t, "real") {
			return VD{K: "typedef"}
		}
		return VD{K: "tagged", ID: g.newID(), S: []byte("lisp:typedef"), L: []VD{genVDIn(t, g, 2)}}
	case name == "type-specifier":
		return VD{K: "sym", S: []byte(rapid.SampledFrom([]string{"list", "vector", "bytes", "string", "sorted-map", "lisp:list", "c03t", "int", ""}).Draw(t, "ts")),
			Q: rapid.IntRange(0, 1).Draw(t, "q")}
	case c.Pkg == "s" && has(name, "type", "constraint", "constraints", "allowed-types") && rapid.IntRange(0, 3).Draw(t, "schema") > 0:
		// a schema constraint / validator built by the schema package itself
		return rapid.SampledFrom(schemaValidatorPool).Draw(t, "validator")
	case c.Pkg == "s" && name == "input" && rapid.Bool().Draw(t, "kindvalue"):
		return rapid.SampledFrom(hostileKindPool).Draw(t, "kindvalue")
	case has(name, "fn", "fun", "f", "g", "predicate", "less-predicate", "binary-function", "key-fun", "constraint", "constraints"):
		return genFun(t)
	case name == "val" && rapid.IntRange(0, 2).Draw(t, "arr") == 0:
		// elpspath documents: zero-, multi-dimensional and empty arrays
		d := VD{K: "array", ID: g.newID()}
		nd := rapid.SampledFrom([]int{0, 0, 1, 2, 2, 3}).Draw(t, "nd")
		total := 1
		for i := 0; i < nd; i++ {
			n := rapid.IntRange(0, 3).Draw(t, "dim")
			d.D = append(d.D, n)
			total *= n
		}
		if d.D == nil {
			d.D = []int{}
		}
		if rapid.Bool().Draw(t, "fill") {
			for i := 0; i < min(total, 6); i++ {
				d.L = append(d.L, genVDIn(t, g, 2))
			}
		}
		return d
	case has(name, "steps", "steps-and-value"):
		// elpspath path steps: map key, index, '* or (range a b)
		switch rapid.IntRange(0, 5).Draw(t, "step") {
		case 0:
			return VD{K: "str", S: []byte(rapid.SampledFrom([]string{"a", "b", "self", "k", "", "c", "\xff"}).Draw(t, "key"))}
		case 1:
			return VD{K: "int", I: rapid.SampledFrom([]int64{0, 1, -1, 2, -2, 3, 1 << 62, -(1 << 62), math.MaxInt64, math.MinInt64}).Draw(t, "idx")}
		case 2:
			return VD{K: "sym", S: []byte(rapid.SampledFrom([]string{"*", "range", "a", "self"}).Draw(t, "s")), Q: rapid.IntRange(0, 1).Draw(t, "q")}
		case 3:
			r := VD{K: "list", L: []VD{{K: "sym", S: []byte("range")}}}
			for i := rapid.IntRange(0, 3).Draw(t, "nr"); i > 0; i-- {
				r.L = append(r.L, VD{K: "int", I: rapid.SampledFrom([]int64{0, 1, -1, 2, 5, math.MaxInt64, math.MinInt64}).Draw(t, "ri")})
			}
			return r
		default:
			return genVDIn(t, g, 2)
		}
	case has(name, "seq", "lis", "list", "vec", "lists", "values", "args", "byte-sequence", "tail", "rest", "x",
		"allowed-values", "allowed-types", "arguments"):
		return genContainer(t, g, 3)
	case has(name, "map", "object", "val", "input", "value", "expr", "a", "b", "head", "item", "z") && !special:
		if rapid.Bool().Draw(t, "cont") {
			return genContainer(t, g, 3)
		}
		return genVDIn(t, g, 3)
	case has(name, "n", "index", "start", "stop", "end", "step", "indices", "number", "radians", "real", "base", "quotient", "allowed-value"):
		switch rapid.IntRange(0, 3).Draw(t, "num") {
		case 0:
			return VD{K: "float", F: f64bits(rapid.SampledFrom(hostileFloats).Draw(t, "f"))}
		case 1:
			return VD{K: "native", I: 1, F: uint64(rapid.SampledFrom([]int64{0, 1700000000, 253402300799}).Draw(t, "tm"))}
		default:
			return VD{K: "int", I: rapid.SampledFrom(hostileInts).Draw(t, "i")}
		}
	case has(name, "format", "message-format-args") && rapid.Bool().Draw(t, "fmt"):
		return VD{K: "str", S: []byte(rapid.SampledFrom(formatTemplates).Draw(t, "ft"))}
	case has(name, "str", "sep", "cutset", "pattern", "format", "message-format-args", "text", "timestamp", "duration-string", "json-string", "source-code",
		"source-location", "base64-data", "field-name", "name", "key", "package-name", "docstring", "matchKey", "condition", "symbol", "sym",
		"var-name", "pkg-name", "message"):
		switch rapid.IntRange(0, 8).Draw(t, "sk") {
		case 6, 7, 8:
			return VD{K: "str", S: genMutStr(t)}
		case 0:
			return VD{K: "sym", S: []byte(rapid.SampledFrom(hostileSyms).Draw(t, "s")), Q: rapid.IntRange(0, 1).Draw(t, "q")}
		case 1:
			return VD{K: "bigstr", S: []byte(rapid.SampledFrom([]string{"a", "{}", "\xff", "(", "a,"}).Draw(t, "u")),
				I: int64(rapid.SampledFrom([]int{1000, 99999, 100001, 1000000}).Draw(t, "n"))}
		case 2:
			return VD{K: "nest", S: []byte(rapid.SampledFrom([]string{"[]", "{}", "()", "(("}).Draw(t, "u")),
				I: int64(rapid.SampledFrom([]int{1000, 9999, 10001, 200000}).Draw(t, "n"))}
		default:
			return VD{K: "str", S: []byte(rapid.SampledFrom(hostileStrs).Draw(t, "s"))}
		}
	case name == "re":
		return VD{K: "native", I: rapid.SampledFrom([]int64{12, 12, 11}).Draw(t, "re")}
	case name == "field-name" && rapid.IntRange(0, 3).Draw(t, "field") > 0:
		return VD{K: "str", S: []byte(rapid.SampledFrom(hostFieldNames).Draw(t, "fname"))}
	case has(name, "datetime"):
		return VD{K: "native", I: rapid.SampledFrom([]int64{1, 1, 23, 28, 22}).Draw(t, "dt"),
			F: uint64(rapid.SampledFrom([]int64{0, 1700000000, -62135596800, 253402300799, 1 << 62, -(1 << 62)}).Draw(t, "p"))}
	case has(name, "time-duration", "duration", "max"):
		return VD{K: "native", I: rapid.SampledFrom([]int64{2, 2, 27}).Draw(t, "du"), F: uint64(rapid.SampledFrom(hostileInts).Draw(t, "p"))}
	case has(name, "bytes", "json-bytes", "data"):
		return VD{K: "bytes", S: []byte(rapid.SampledFrom(hostileStrs).Draw(t, "s"))}
	case name == "json-message":
		return VD{K: "native", I: rapid.SampledFrom([]int64{21, 21, 30, 48, 49, 59, 20}).Draw(t, "jm")}
	case has(name, "native-value", "native-struct"):
		return VD{K: "native", I: int64(rapid.IntRange(0, numNativeSel-1).Draw(t, "nat")), F: uint64(rapid.SampledFrom(hostileInts).Draw(t, "p"))}
	case has(name, "bindings"):
		return genBindings(t, g)
	case has(name, "control-sequence"):
		d := VD{K: "sexpr"}
		d.L = append(d.L, VD{K: "sym", S: []byte("i")}, genForm(t, g, 1))
		if rapid.Bool().Draw(t, "res") {
			d.L = append(d.L, genForm(t, g, 1))
		}
		return d
	case has(name, "formals", "constructor-formals"):
		d := VD{K: "sexpr"}
		n := rapid.IntRange(0, 3).Draw(t, "nf")
		for i := 0; i < n; i++ {
			d.L = append(d.L, VD{K: "sym", S: []byte(rapid.SampledFrom([]string{"x", "y", "&rest", "&optional", "&key", "true", ":k", "x"}).Draw(t, "fs"))})
		}
		return d
	}
	if special {
		return genForm(t, g, 2)
	}
	return genVDIn(t, g, 3)
}

// genKeywordTail draws the keyword part of a call to a callable with &key
// formals: well-formed pairs, and the malformed layouts a program can write --
// a DANGLING keyword as the last argument, an unknown or repeated keyword, a
// value where a keyword belongs, a keyword as a value.
func genKeywordTail(t *rapid.T, g *genState, c *Callable) []VD {
	kw := func(k string) VD { return VD{K: "sym", S: []byte(":" + k), Q: rapid.SampledFrom([]int{0, 0, 0, 1}).Draw(t, "kq")} }
	var out []VD
	for _, k := range c.Keys {
		if rapid.Bool().Draw(t, "usekey") {
			out = append(out, kw(k), genArgFor(t, g, c, k))
		}
	}
	key := c.Keys[rapid.IntRange(0, len(c.Keys)-1).Draw(t, "whichkey")]
	switch rapid.IntRange(0, 9).Draw(t, "tail") {
	case 0, 1, 2:
		out = append(out, kw(key)) // dangling keyword
	case 3:
		out = append(out, kw("nosuchkey"), genAtom(t))
	case 4:
		out = append(out, kw(key), kw(key)) // keyword as the value of a keyword
	case 5:
		out = append(out, genAtom(t), kw(key)) // value in keyword position
	case 6:
		out = append(out, kw("nosuchkey")) // dangling unknown keyword
	}
	return out
}

// keywordCallables are the registered callables with &key formals.
var keywordCallables = func() []int {
	var out []int
	for i, c := range callables {
		if len(c.Keys) > 0 {
			out = append(out, i)
		}
	}
	return out
}()

// genKeywordCall draws an application of a keyword-taking function THROUGH
// funcall / apply (the function is a registered callable with &key formals or
// the (a &optional b &key c) lambda).
func genKeywordCall(t *rapid.T) Apply {
	g := &genState{}
	via := rapid.SampledFrom([]string{"funcall", "apply"}).Draw(t, "kwvia")
	a := Apply{Pkg: "lisp", Name: via, Via: rapid.SampledFrom([]string{"direct", "eval"}).Draw(t, "route")}
	var inner []VD
	if rapid.IntRange(0, 3).Draw(t, "lam") == 0 || len(keywordCallables) == 0 {
		a.Args = append(a.Args, VD{K: "fun", I: 8}) // (lambda (a &optional b &key c) ...)
		lam := &Callable{Pkg: "user", Name: "lambda", FunType: "function", Req: []string{"a"}, Opt: []string{"b"}, Keys: []string{"c"}}
		inner = append(inner, genAtom(t), genAtom(t))
		inner = append(inner, genKeywordTail(t, g, lam)...)
	} else {
		c := &callables[keywordCallables[rapid.IntRange(0, len(keywordCallables)-1).Draw(t, "kwc")]]
		a.Args = append(a.Args, VD{K: "fun", I: 0, S: []byte(c.Pkg + ":" + c.Name)})
		for _, n := range c.Req {
			inner = append(inner, genArgFor(t, g, c, n))
		}
		for _, n := range c.Opt {
			inner = append(inner, genArgFor(t, g, c, n))
		}
		inner = append(inner, genKeywordTail(t, g, c)...)
	}
	if via == "apply" {
		split := rapid.IntRange(0, len(inner)).Draw(t, "split")
		a.Args = append(a.Args, inner[:split]...)
		a.Args = append(a.Args, VD{K: "list", L: append([]VD{}, inner[split:]...)})
	} else {
		a.Args = append(a.Args, inner...)
	}
	return a
}

// formatTemplates: format-string / assert message templates with positional
// indexes at and around the integer boundaries.
var formatTemplates = []string{"{}", "{} {}", "{0}", "{1}", "{1} {0}", "{2}", "{9223372036854775807}", "{9223372036854775808}", "{9223372036854775809}",
	"{18446744073709551615}", "{18446744073709551616}", "{99999999999999999999999999}", "{-1}", "{-0}", "{00000000000000000001}", "{1e3}", "{ 1 }", "{4294967296}", "{2147483648}",
	"{0} {}", "{} {0}", "{{0}}", "{0", "0}", "{+1}", "{1.0}", "{0x1}"}

func f64bits(f float64) uint64 { return math.Float64bits(f) }

var (
	schemaValidatorPool = schemaValidators()
	hostileKindPool     = hostileKindValues()
)

// classifyArgs labels the new argument shapes for the evidence histogram.
func classifyArgs(a Apply, ctx *vcommon.Ctx) {
	long, pos := false, false
	var text []byte
	for _, d := range a.Args {
		if (d.K == "str" || d.K == "bytes") && isLongMultibyte(d.S) {
			long, text = true, d.S
		}
	}
	if long {
		ctx.Class("arg/long-multibyte-text")
		B, R := int64(len(text)), int64(utf8.RuneCount(text))
		for _, d := range a.Args {
			if d.K == "int" && d.I > 8 && (abs64(d.I-B) <= 2 || abs64(d.I-R) <= 4 || d.I == B/2 || d.I == R/2 || d.I == B-R) {
				pos = true
			}
		}
		if pos {
			ctx.Class("arg/long-multibyte-text+position-from-it")
		}
	}
	if multiBackref(a.Args) {
		ctx.Class("arg/multi-backref-cycle")
	}
	if mentionsKind(a.Args, "call") {
		ctx.Class("arg/built-by-callable")
	}
}

// applyHugeRegexp: a regular expression COMPILED from a huge pattern (s:regexp,
// regexp:regexp-compile on a bigstr / nest of >= 10 000 units) together with a
// huge text in the same tuple.
func applyHugeRegexp(l []VD) bool {
	huge := func(d VD) bool { return (d.K == "bigstr" || d.K == "nest") && d.I >= 10000 }
	pattern, text := false, false
	var walk func(l []VD, underRe bool)
	walk = func(l []VD, underRe bool) {
		for _, d := range l {
			re := d.K == "call" && (string(d.S) == "s:regexp" || string(d.S) == "regexp:regexp-compile")
			if huge(d) {
				if underRe {
					pattern = true
				} else {
					text = true
				}
			}
			walk(d.L, underRe || re)
		}
	}
	walk(l, false)
	return pattern && text
}

func mentionsKind(l []VD, k string) bool {
	for _, d := range l {
		if d.K == k || mentionsKind(d.L, k) {
			return true
		}
	}
	return false
}

func genApply() *rapid.Generator[Apply] {
	return rapid.Custom(func(t *rapid.T) Apply {
		if rapid.IntRange(0, 19).Draw(t, "kwcall") == 0 {
			return genKeywordCall(t)
		}
		if rapid.IntRange(0, 7).Draw(t, "textpos") == 0 {
			return genTextPosApply(t)
		}
		c := &callables[rapid.IntRange(0, len(callables)-1).Draw(t, "callable")]
		a := Apply{Pkg: c.Pkg, Name: c.Name, Via: "direct"}
		if rapid.IntRange(0, 3).Draw(t, "via") == 0 {
			a.Via = "eval"
		}
		g := &genState{}
		// names of the positions to fill
		var names []string
		if rapid.IntRange(0, 9).Draw(t, "arity") < 8 {
			// an arity bind accepts
			names = append(names, c.Req...)
			if len(c.Opt) > 0 {
				names = append(names, c.Opt[:rapid.IntRange(0, len(c.Opt)).Draw(t, "nopt")]...)
			}
			if c.Rest != "" {
				for i := rapid.IntRange(0, 3).Draw(t, "nrest"); i > 0; i-- {
					names = append(names, c.Rest)
				}
			}
			for _, n := range names {
				a.Args = append(a.Args, genArgFor(t, g, c, n))
			}
			if len(c.Keys) > 0 && len(names) == len(c.Req)+len(c.Opt) {
				a.Args = append(a.Args, genKeywordTail(t, g, c)...)
			}
		} else {
			n := rapid.IntRange(0, c.NFormals+2).Draw(t, "n")
			all := append(append(append([]string{}, c.Req...), c.Opt...), c.Keys...)
			for i := 0; i < n; i++ {
				name := c.Rest
				if i < len(all) {
					name = all[i]
				}
				a.Args = append(a.Args, genArgFor(t, g, c, name))
			}
		}
		return a
	})
}

// ---------- oracle ----------

func hostileKinds(b *builder) string {
	var ks []string
	for k := range b.kinds {
		switch k {
		case "list", "sexpr", "vector", "array", "map", "jsonmap", "native", "error", "fun", "tagged", "typedef", "ref", "lambda", "call":
			ks = append(ks, k)
		}
	}
	sort.Strings(ks)
	return strings.Join(ks, "+")
}

// arityAccepted asks the interpreter's own bind whether this argument count /
// keyword layout is accepted by these formals, using a twin function with the
// same formal list and a body that only records that it ran.
func arityAccepted(env *lisp.LEnv, fun *lisp.LVal, args []*lisp.LVal) bool {
	ran := false
	twin := lisp.FunInPackage("user", "c03-arity-twin", fun.Cells[0].Copy(), func(*lisp.LEnv, *lisp.LVal) *lisp.LVal {
		ran = true
		return lisp.Nil()
	})
	func() {
		defer func() { _ = recover() }()
		env.FunCall(twin, lisp.QExpr(append([]*lisp.LVal{}, args...)))
	}()
	return ran
}

func evalArg(v *lisp.LVal) *lisp.LVal {
	if v.IsQuoted() {
		return v
	}
	switch v.Type {
	case lisp.LSymbol, lisp.LSExpr, lisp.LQuote:
		return lisp.Quote(v)
	}
	return v
}

func applyOnce(a Apply, limit time.Duration) (o outcome, c *Callable, reached bool, b *builder, fail *vcommon.Failure) {
	c = findCallable(a.Pkg, a.Name)
	if c == nil {
		return o, nil, false, nil, nil
	}
	rt, cancel := newRuntime()
	defer cancel()
	env := rt.Env
	b = newBuilder(env)
	fun := b.lookupFun(a.Pkg + ":" + a.Name)
	if fun == nil {
		return o, nil, false, b, vcommon.Failf("registry/missing", "%s:%s is not an LFun in a freshly loaded runtime", a.Pkg, a.Name)
	}
	args := make([]*lisp.LVal, len(a.Args))
	for i := range a.Args {
		args[i] = b.build(a.Args[i])
	}
	reached = arityAccepted(env, fun, args)
	o = guarded(limit, func() *lisp.LVal {
		if a.Via == "eval" {
			cells := make([]*lisp.LVal, 0, len(args)+1)
			cells = append(cells, lisp.Symbol(a.Pkg+":"+a.Name))
			for _, v := range args {
				if fun.IsSpecialFun() {
					cells = append(cells, v)
				} else {
					cells = append(cells, evalArg(v))
				}
			}
			return env.Eval(lisp.SExpr(cells))
		}
		list := lisp.QExpr(args)
		switch {
		case fun.IsMacro():
			r := env.MacroCall(fun, list)
			if r != nil && r.Type == lisp.LMarkMacExpand && len(r.Cells) == 1 {
				// a macro call in a program is expanded and then evaluated
				return env.Eval(r.Cells[0])
			}
			return r
		case fun.IsSpecialOp():
			return env.SpecialOpCall(fun, list)
		default:
			return env.FunCall(fun, list)
		}
	})
	return o, c, reached, b, nil
}

func checkApply(a Apply, ctx *vcommon.Ctx) *vcommon.Failure {
	if a.Via != "eval" {
		a.Via = "direct"
	}
	qual := a.Pkg + ":" + a.Name
	if applyCopyProne(a) {
		for _, k := range []string{"death/stack-overflow/copy/apply", "wedge/copy/apply", "death/stack-overflow/quasiquote/apply", "death/stack-overflow/export/apply"} {
			if ctx.Known(k) {
				// LVal.Copy on a self-containing list kills the process (known
				// finding): the shape is excluded by construction for the
				// callables known to copy their argument, and counted
				ctx.Class("excluded-known/" + k)
				return nil
			}
		}
	}
	if applyHugeRegexp(a.Args) {
		// FOUND on the unchanged tree (see NOTES.md, "regexp pattern x text"):
		// a 100 000-character pattern matched against a 100 000-character text
		// is ~4*10^10 automaton steps inside one builtin call that polls no
		// limit.  Excluded by construction and counted so the search goes on.
		ctx.Class("excluded-found/wedge/regexp-pattern-x-text")
		return nil
	}
	if a.Tag != "" {
		ctx.Class("block/" + a.Tag)
	}
	classifyArgs(a, ctx)
	journal("apply-registry", a)
	return isolated("apply-registry", a, func(kind, fam string) string {
		if fam == "" {
			fam = "unknown/" + qual
		}
		return kind + "/" + fam + "/apply"
	}, ctx)
}

// copyingCallables are the registered names observed to LVal.Copy an argument
// (development sweep); a self-containing LIST handed to them overflows the Go
// stack.  Other callables that evaluate a generated form may still reach
// quasiquote with such a list: those cases are matched by the finding's key.
var copyingCallables = map[string]bool{"quasiquote": true, "stable-sort": true, "insert-sorted": true, "assert": true, "export": true,
	"thread-first": true, "thread-last": true, "handler-bind": true}

// applyCopyProne reports whether the case hands a list that contains itself
// (through list-like nodes only, which is what Copy descends into) to a
// callable known to copy, or to any callable together with a quasiquote form.
func applyCopyProne(a Apply) bool {
	if !hasListCycle(a.Args, nil) {
		return false
	}
	return copyingCallables[a.Name] || mentions(a.Args, "quasiquote")
}

type anc struct {
	id       int
	listLike bool
}

func hasListCycle(l []VD, path []anc) bool {
	for _, d := range l {
		if d.K == "ref" {
			// cycle iff the target is an ancestor; Copy follows it iff every
			// node from the target down to here is list-like
			for i := len(path) - 1; i >= 0; i-- {
				if !path[i].listLike {
					break
				}
				if path[i].id == d.ID {
					return true
				}
			}
			continue
		}
		ll := d.K == "list" || d.K == "sexpr" || d.K == "tagged" || d.K == "error"
		if hasListCycle(d.L, append(path, anc{d.ID, ll})) {
			return true
		}
	}
	return false
}

func mentions(l []VD, sym string) bool {
	for _, d := range l {
		if (d.K == "sym" || d.K == "qsym") && string(d.S) == sym {
			return true
		}
		if mentions(d.L, sym) {
			return true
		}
	}
	return false
}

func hasRef(l []VD) bool {
	for _, d := range l {
		if d.K == "ref" || hasRef(d.L) {
			return true
		}
	}
	return false
}

func checkApplyInner(a Apply, ctx recorder, wd, wdAlone time.Duration) *vcommon.Failure {
	if a.Via != "eval" {
		a.Via = "direct"
	}
	o, c, reached, b, fail := applyOnce(a, wd)
	if fail != nil {
		return fail
	}
	if c == nil {
		ctx.Class("skip/unknown-callable")
		return nil
	}
	qual := a.Pkg + ":" + a.Name
	kq := canonQual(a.Pkg, a.Name)
	ctx.Class("type/" + c.FunType)
	ctx.Class("via/" + a.Via)
	if reached {
		ctx.Class("arity-accepted")
		ctx.Class("callable/" + qual)
	} else {
		ctx.Class("arity-rejected")
	}
	if b.cyclic {
		ctx.Class("arg/cyclic-or-aliased")
	}
	for k := range b.kinds {
		ctx.Class("argkind/" + k)
	}
	if reached && b.hostile {
		ctx.NonTrivial(fmt.Sprintf("%s|%s|%v", qual, a.Via, a.Args))
		ctx.Note(fmt.Sprintf("(%s ...%d args) via %s; hostile kinds %s; args %s", qual, len(a.Args), a.Via, hostileKinds(b), clip(describeArgs(a), 400)))
	}
	if o.timedOut {
		// a wedge is a violation only if it reproduces when re-run alone
		o2, _, _, _, _ := applyOnce(a, wdAlone)
		if o2.timedOut {
			return vcommon.Failf("wedge/"+kq, "(%s ...) via %s did not return within %v, and again not within %v when re-run alone\nargs: %s",
				qual, a.Via, wd, wdAlone, describeArgs(a))
		}
		ctx.Class("slow-inconclusive")
		o = o2
	}
	if o.elapsed > 5*cfgDeadline {
		ctx.Class("slow>10s")
	}
	args := describeArgs(a)
	if o.panicVal != nil {
		msg := fmt.Sprint(o.panicVal)
		site := panicSite(o.stack)
		return vcommon.Failf("panic/"+kq+"/"+panicClass(msg)+siteSuffix(site),
			"Go panic escaped from (%s ...) via %s: %v\nargs: %s\n%s", qual, a.Via, msg, args, clip(o.stack, 3000))
	}
	if o.res == nil {
		return vcommon.Failf("nil-result/"+kq, "(%s ...) via %s returned a nil *LVal\nargs: %s", qual, a.Via, args)
	}
	if p := findInternalPanic(o.res); p != nil {
		msg := errText(p)
		gs := goStackOf(p)
		return vcommon.Failf("panic/"+kq+"/"+panicClass(msg)+siteSuffix(panicSite(gs)),
			"(%s ...) via %s answered the internal-panic condition: %s\nargs: %s\n%s", qual, a.Via, msg, args, clip(gs, 3000))
	}
	if h, i := findNilCell(o.res); h != nil {
		return vcommon.Failf("nil-cell/"+kq, "(%s ...) via %s returned a value holding a Go-nil *LVal (cell %d of a %v): the next reader of it dereferences nil\nargs: %s", qual, a.Via, i, h.Type, args)
	}
	if o.res.Type == lisp.LError {
		ctx.Class("result/error")
	} else {
		ctx.Class("result/value")
	}
	return nil
}

// canonQual names a callable for class signatures: the user package re-exports
// the lisp package's values, so user:x and lisp:x are one callable.
func canonQual(pkg, name string) string {
	if pkg == "user" && findCallable("lisp", name) != nil {
		return "lisp:" + name
	}
	return pkg + ":" + name
}

func siteSuffix(site string) string {
	if site == "" {
		return ""
	}
	return "@" + site
}

func describeArgs(a Apply) string {
	var parts []string
	for _, d := range a.Args {
		parts = append(parts, describeVD(d, 3))
	}
	return "[" + strings.Join(parts, ", ") + "]"
}

func describeVD(d VD, depth int) string {
	q := strings.Repeat("'", d.Q)
	switch d.K {
	case "int":
		return fmt.Sprintf("%s%d", q, d.I)
	case "float":
		return fmt.Sprintf("%s%v", q, math.Float64frombits(d.F))
	case "str", "sym", "qsym":
		return fmt.Sprintf("%s%s:%q", q, d.K, d.S)
	case "bytes":
		return fmt.Sprintf("bytes:%q", d.S)
	case "bigstr", "nest":
		return fmt.Sprintf("%s(%q x %d)", d.K, d.S, d.I)
	case "native":
		return fmt.Sprintf("native#%d(%d)", d.I, int64(d.F))
	case "fun":
		if d.I == 0 {
			return fmt.Sprintf("fun:%s", d.S)
		}
		if int(d.I) <= len(funSnippets) {
			return "fun:" + funSnippets[d.I-1]
		}
		return fmt.Sprintf("gofun#%d", d.I)
	case "ref":
		return fmt.Sprintf("ref->#%d", d.ID)
	case "call":
		return fmt.Sprintf("%s#%d (%s%s)", q, d.ID, d.S, strings.TrimSuffix(strings.TrimPrefix(describeKids(d, depth), "<"+string(d.S)+">("), ")"))
	case "array":
		return fmt.Sprintf("%s#%d array%v%s", q, d.ID, d.D, describeKids(d, depth))
	case "list", "sexpr", "vector", "map", "jsonmap", "tagged", "error", "lambda":
		return fmt.Sprintf("%s#%d %s%s", q, d.ID, d.K, describeKids(d, depth))
	}
	return q + d.K
}

func describeKids(d VD, depth int) string {
	if depth <= 0 {
		return "(...)"
	}
	var parts []string
	for _, k := range d.L {
		parts = append(parts, describeVD(k, depth-1))
	}
	s := ""
	if len(d.S) > 0 {
		s = fmt.Sprintf("<%s>", d.S)
	}
	return s + "(" + strings.Join(parts, " ") + ")"
}
