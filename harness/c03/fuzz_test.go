package c03

import (
	"encoding/json"
	"os"
	"testing"
	"time"
)

// Native fuzz targets (thorough tier).  The oracle is the same in-process
// oracle the workers run; a fatal runtime error kills the fuzz worker, which
// the Go fuzzer records as a crasher with the input saved.

func knownKeys() map[string]bool {
	out := map[string]bool{}
	p := os.Getenv("VERIF_KNOWN")
	if p == "" {
		return out
	}
	b, err := os.ReadFile(p)
	if err != nil {
		return out
	}
	var kf struct {
		Findings []struct {
			Property, Key, Status string
		} `json:"findings"`
	}
	if json.Unmarshal(b, &kf) == nil {
		for _, f := range kf.Findings {
			if f.Property == "C03" && f.Status == "known" {
				out[f.Key] = true
			}
		}
	}
	return out
}

var fuzzSeeds = []string{
	"",
	"(defun f (n) (+ 1 (f n))) (f 0)",
	"(defmacro m (x) (list 'm x)) (m 1)",
	"#^(%99999999)",
	"(set 'm (sorted-map)) (assoc! m \"self\" m) (list (to-string m) (equal? m m) (json:dump-string m))",
	"(set 'v (vector 1 2)) (append! v v) (elpspath:? v '* '*)",
	"(make-sequence 0 1e18) (pow 2 99999) (string:repeat \"ab\" 4611686018427387904)",
	"((((((((((((((((((((((((((((((((((((((((",
	"''''''''''''''''''''''''''''''''''''''''x",
	"[[[[[[[[[[]]]]]]]]]]",
	"abc\xff",
	"\"\\",
	"(handler-bind ((condition (lambda (c &rest a) (rethrow)))) (error 'x 1))",
	"(labels ([f (n) (g n)] [g (n) (f n)]) (f 0))",
	"(time:sleep (time:parse-duration \"1h\"))",
	"(load-string \"(load-string \\\"(\\\")\")",
	"(json:load-string \"[[[[[[[[[[\")",
	"(regexp:regexp-compile \"(((\")",
	"#!/bin/elps\n(in-package 'x) (export 'y)",
	"(quasiquote (a (unquote-splicing 1) (unquote (quasiquote (unquote x)))))",
}

func FuzzLoadBytes(f *testing.F) {
	for _, s := range fuzzSeeds {
		f.Add([]byte(s))
	}
	for _, s := range snippets {
		f.Add([]byte(s))
	}
	known := knownKeys()
	f.Fuzz(func(t *testing.T, data []byte) {
		if len(data) > 1<<16 {
			return
		}
		r := &rec{}
		fail := checkSourceInner(Src{Class: "fuzz", B: data}, r, 20*time.Second, 60*time.Second)
		if fail != nil && !known[fail.Key] {
			t.Fatalf("[%s] %s", fail.Key, fail.Msg)
		}
	})
}

func FuzzReaders(f *testing.F) {
	for _, s := range fuzzSeeds {
		f.Add([]byte(s))
	}
	for _, s := range snippets {
		f.Add([]byte(s))
	}
	for _, s := range lexemes {
		f.Add([]byte(s))
	}
	known := knownKeys()
	f.Fuzz(func(t *testing.T, data []byte) {
		if len(data) > 1<<20 {
			return
		}
		r := &rec{}
		fail := checkReadersInner(Src{Class: "fuzz", B: data}, r, 20*time.Second, 60*time.Second)
		if fail != nil && !known[fail.Key] {
			t.Fatalf("[%s] %s", fail.Key, fail.Msg)
		}
	})
}
