package c03

import (
	"bytes"
	"fmt"
	"strconv"
	"strings"
	"time"

	"github.com/luthersystems/elps/lisp"
	"github.com/luthersystems/elps/verifharness/vcommon"
	"pgregory.net/rapid"
)

// mutate-then-read: short generated SEQUENCES in ONE runtime under a tight
// MaxAlloc and (for the mutating step) a tight step budget.  Every step is a
// mutating call on one of a few named values that may be refused half-way (cap
// crossed, predicate raising, step budget exhausted, bad index); after every
// step a fixed battery of readers walks every named value (aref at every index
// up to the claimed length, slice, print, equal?, json, map, sort, elpspath,
// ...).  A refused mutation must leave the value in a state every reader can
// handle: never an internal-panic, never a death.

type SeqStep struct {
	T int `json:"t"` // mutation template
	I int `json:"i"` // index / count parameter
	X int `json:"x"` // value parameter
	S int `json:"s"` // step budget for this mutation (0 = the full budget)
}

type Seq struct {
	MaxAlloc int       `json:"max_alloc"`
	Fill     int       `json:"fill"` // initial vector length = MaxAlloc - Fill
	Steps    []SeqStep `json:"steps"`
}

var seqValues = []string{"1", "\"s\"", "v", "m", "b", "(vector 1 2 3)", "(list 1 2)", "()", "w", "(to-bytes \"zz\")", "'sym", "1.5"}

// %I = index parameter, %X = value parameter, %N = I copies of the value
var seqMutations = []string{
	"(append! v %X)",
	"(append! v %N)",
	"(append! v v)",
	"(append! w %X)",
	"(append! w %N)",
	"(append-bytes! b (to-bytes \"%P\"))",
	"(append-bytes! b \"%P\")",
	"(append! b %B)",
	"(assoc! m \"k%I\" %X)",
	"(assoc! m %X %X)",
	"(dissoc! m \"k%I\")",
	"(elpspath:?set! v %I %X)",
	"(elpspath:?set! v '(range 0 %I) (vector %N))",
	"(elpspath:?set! v '(range %I 99) %X)",
	"(elpspath:?del! v %I)",
	"(elpspath:?del! v '(range 0 %I))",
	"(elpspath:?nil! v %I)",
	"(elpspath:?set! m \"k%I\" \"z\" %X)",
	"(elpspath:?set! v '* %X)",
	"(elpspath:?del! m \"k%I\")",
	"(stable-sort (lambda (a b) (error 'boom)) v)",
	"(stable-sort < v (lambda (x) (if (int? x) (if (> x %I) (error 'boom) x) 0)))",
	"(stable-sort (lambda (a b) (append! v 9) (< a b)) v)",
	"(stable-sort (lambda (a b) true) v)",
	"(map 'vector (lambda (x) (append! v x)) v)",
	"(foldl (lambda (a x) (append! v x) a) 0 v)",
	"(set 'w (slice 'vector v 0 %I))",
	"(set 'w (slice 'vector v %I (length v)))",
	"(set 'v (append 'vector v %N))",
	"(set 'v (insert-index 'vector v %I %X))",
	"(set 'v (concat 'vector v w))",
	"(append-bytes! b v)",
	"(set 'b (append-bytes b \"%P\"))",
	"(select 'vector (lambda (x) (append! v 1) true) v)",
	"(dotimes (i %I) (append! v i))",
	"(dotimes (i %I) (assoc! m (to-string i) v))",
	"(elpspath:?set! v -1 (vector %N))",
	"(append! (aref v 0) %X)",
	"(set 'l (slice 'list v 0 %I))",
	"(insert-sorted 'vector v (lambda (a b) (error 'boom)) %X)",
	"(zip 'vector v w v)",
	"(reverse 'vector v)",
	// callbacks that grow the very sequence the builtin is working on
	"(set 'l (insert-sorted 'list v (lambda (a b) (append! v 9) (< a b)) %I))",
	"(set 'w (insert-sorted 'vector v (lambda (a b) (append! v 9) (< a b)) %I))",
	"(set 'l (insert-sorted 'list v < %I (lambda (x) (append! v 9) x)))",
	"(search-sorted (length v) (lambda (i) (append! v 9) (> (aref v i) %I)))",
	"(set 'l (map 'list (lambda (x) (append! v x) x) v))",
	"(set 'l (select 'list (lambda (x) (elpspath:?del! v 0) true) v))",
	"(set 'l (reject 'list (lambda (x) (append! v 1 2 3) false) v))",
	"(set 'l (zip 'list v (map 'list (lambda (x) (append! v x) x) v)))",
	"(set 'w (stable-sort < v (lambda (x) (append! v 9) x)))",
	"(set 'l (foldr (lambda (x a) (elpspath:?del! v 0) (cons x a)) () v))",
	"(all? (lambda (x) (elpspath:?del! v 0) true) v)",
	"(set 'l (insert-index 'list v %I %X))",
	"(set 'l (slice 'list v 0 (length v)))",
}

var seqReaders = []string{
	"(dotimes (i (length v)) (aref v i))",
	"(dotimes (i (length v)) (nth v i))",
	"(dotimes (i (length w)) (aref w i))",
	"(dotimes (i (length b)) (nth b i))",
	"(aref v (- (length v) 1))",
	"(length v)", "(length w)", "(length b)", "(length l)",
	"(to-string v)", "(to-string w)", "(to-string b)", "(to-string m)", "(to-string l)",
	"(format-string \"{} {} {}\" v w b)",
	"(equal? v v)", "(equal? v w)", "(equal? v (vector 1 2 3))", "(equal? b (to-bytes \"abc\"))",
	"(json:dump-string v)", "(json:dump-string m)", "(json:dump-string (list w b))",
	"(map 'list identity v)", "(map 'vector identity w)", "(map 'list identity b)",
	"(stable-sort < (append 'vector v))",
	"(elpspath:? v '*)", "(elpspath:? v -1)", "(elpspath:? v '(range 0 99))", "(elpspath:? m '*)",
	"(slice 'vector v 0 (length v))", "(slice 'list v 0 (length v))", "(slice 'vector w 0 (length w))", "(slice 'bytes b 0 (length b))",
	"(insert-index 'vector v (length v) 0)",
	"(reverse 'vector v)", "(reverse 'list w)",
	"(concat 'vector v w)", "(append 'vector v 1)", "(append 'list v 1)",
	"(first v)", "(second v)", "(rest v)", "(first w)",
	"(foldl (lambda (a x) a) 0 v)", "(foldr (lambda (x a) a) 0 v)",
	"(select 'vector (lambda (x) true) v)", "(reject 'list (lambda (x) true) w)",
	"(zip 'list v v)", "(all? (lambda (x) true) v)", "(any? (lambda (x) false) v)",
	"(apply list (slice 'list v 0 (length v)))",
	"(keys m)", "(get m \"k1\")",
	"(empty? v)", "(to-bytes (to-string b))", "(append-bytes b \"x\")",
	"(elpspath:?set v 0 1)", "(elpspath:?del v 0)",
	"(search-sorted (length v) (lambda (i) (aref v i)))",
	"(format-string \"{}\" l)", "(format-string \"{} {}\" v w)", "(json:dump-string l)", "(map 'list identity l)", "(equal? l l)",
	"(dotimes (i (length l)) (nth l i))", "(reverse 'list l)", "(concat 'list l l)", "(stable-sort < (append 'vector l))",
}

func (q Seq) setup() string {
	n := q.MaxAlloc - q.Fill
	if n < 0 {
		n = 0
	}
	return fmt.Sprintf("(set 'v (vector)) (dotimes (i %d) (append! v i)) (set 'w (slice 'vector v 0 %d)) (set 'b (to-bytes \"abc\")) (set 'm (sorted-map \"k1\" 1)) (set 'l (list 1 2 3))",
		n, n/2)
}

func (q Seq) mutation(st SeqStep) string {
	t := seqMutations[abs(st.T)%len(seqMutations)]
	x := seqValues[abs(st.X)%len(seqValues)]
	n := st.I
	if n < 0 {
		n = 0
	}
	if n > 64 {
		n = 64
	}
	many := strings.TrimSpace(strings.Repeat(x+" ", n))
	var bs []string
	for i := 0; i < n; i++ {
		bs = append(bs, strconv.Itoa(i%256))
	}
	t = strings.ReplaceAll(t, "%N", many)
	t = strings.ReplaceAll(t, "%B", strings.Join(bs, " "))
	t = strings.ReplaceAll(t, "%P", strings.Repeat("p", n))
	t = strings.ReplaceAll(t, "%I", strconv.Itoa(st.I))
	t = strings.ReplaceAll(t, "%X", x)
	return t
}

func readersProgram() string {
	var b strings.Builder
	for _, r := range seqReaders {
		b.WriteString("(ignore-errors ")
		b.WriteString(r)
		b.WriteString(")\n")
	}
	return b.String()
}

func genSeq() *rapid.Generator[Seq] {
	return rapid.Custom(func(t *rapid.T) Seq {
		q := Seq{
			MaxAlloc: rapid.SampledFrom([]int{4, 8, 8, 16, 32}).Draw(t, "max_alloc"),
			Fill:     rapid.SampledFrom([]int{0, 0, 1, 1, 2, 3}).Draw(t, "fill"),
		}
		n := rapid.IntRange(3, 8).Draw(t, "n")
		for i := 0; i < n; i++ {
			q.Steps = append(q.Steps, SeqStep{
				T: rapid.IntRange(0, len(seqMutations)-1).Draw(t, "t"),
				I: rapid.SampledFrom([]int{0, 1, 2, 3, 5, 8, 9, 17, -1, 64}).Draw(t, "i"),
				X: rapid.IntRange(0, len(seqValues)-1).Draw(t, "x"),
				S: rapid.SampledFrom([]int{0, 0, 0, 5, 12, 30, 80}).Draw(t, "s"),
			})
		}
		return q
	})
}

func checkSeq(q Seq, ctx *vcommon.Ctx) *vcommon.Failure {
	journal("mutate-then-read", q)
	return isolated("mutate-then-read", q, func(kind, fam string) string {
		if fam == "" {
			fam = "unknown"
		}
		return kind + "/" + fam + "/sequence"
	}, ctx)
}

func checkSeqInner(q Seq, ctx recorder, wd, wdAlone time.Duration) *vcommon.Failure {
	if q.MaxAlloc < 1 {
		q.MaxAlloc = 1
	}
	rt, cancel := newRuntimeVariant(0)
	defer cancel()
	env := rt.Env
	lisp.WithMaxAlloc(q.MaxAlloc)(env)
	readers := readersProgram()
	ctx.Class(fmt.Sprintf("max-alloc/%d", q.MaxAlloc))
	refused, applied := 0, 0
	var trace []string
	load := func(what, src string, steps int64) *vcommon.Failure {
		lisp.WithMaxSteps(steps)(env)
		o := guarded(wd, func() *lisp.LVal { return env.Load("c03-seq.lisp", bytes.NewReader([]byte(src))) })
		hist := strings.Join(trace, "\n  ")
		switch {
		case o.timedOut:
			return vcommon.Failf("wedge/sequence", "%s did not return within %v\nsequence so far (MaxAlloc %d):\n  %s", what, wd, q.MaxAlloc, hist)
		case o.panicVal != nil:
			msg := fmt.Sprint(o.panicVal)
			return vcommon.Failf("go-panic/sequence/"+panicClass(msg)+siteSuffix(panicSite(o.stack)), "a Go panic escaped from Load during %s: %v\nsequence (MaxAlloc %d):\n  %s\n%s", what, msg, q.MaxAlloc, hist, clip(o.stack, 2500))
		case o.res == nil:
			return vcommon.Failf("nil-result/sequence", "%s returned a nil *LVal\nsequence:\n  %s", what, hist)
		}
		if p := findInternalPanic(o.res); p != nil {
			msg := errText(p)
			gs := goStackOf(p)
			return vcommon.Failf("panic/sequence/"+panicClass(msg)+siteSuffix(panicSite(gs)),
				"%s answered the internal-panic condition: %s\nsequence (MaxAlloc %d, every reader wrapped in ignore-errors):\n  %s\n%s", what, msg, q.MaxAlloc, hist, clip(gs, 2500))
		}
		if h, i := findNilCell(o.res); h != nil {
			return vcommon.Failf("nil-cell/sequence/"+headName(last(trace)), "%s returned a value holding a Go-nil *LVal (cell %d of a %v): the next reader of it dereferences nil\nsequence (MaxAlloc %d):\n  %s", what, i, h.Type, q.MaxAlloc, hist)
		}
		if what != "readers" && what != "setup" {
			if o.res.Type == lisp.LError {
				refused++
				ctx.Class("mutation-refused/" + condClass(o.res))
			} else {
				applied++
			}
		}
		return nil
	}
	setup := q.setup()
	trace = append(trace, setup)
	if f := load("setup", setup, cfgMaxSteps); f != nil {
		return f
	}
	if f := load("readers", readers, cfgMaxSteps); f != nil {
		return f
	}
	for i, st := range q.Steps {
		m := q.mutation(st)
		steps := int64(cfgMaxSteps)
		if st.S > 0 {
			steps = int64(st.S)
		}
		trace = append(trace, fmt.Sprintf("%s   ; step budget %d", m, steps))
		if f := load(fmt.Sprintf("mutation %d %s", i+1, m), m, steps); f != nil {
			return f
		}
		trace = append(trace, "<readers>")
		if f := load("readers", readers, cfgMaxSteps); f != nil {
			return f
		}
	}
	ctx.Class(fmt.Sprintf("refused-mutations/%d", min(refused, 4)))
	if refused > 0 && applied > 0 {
		ctx.NonTrivial(fmt.Sprintf("%+v", q))
		ctx.Note(fmt.Sprintf("MaxAlloc %d, %d mutations applied, %d refused:\n  %s", q.MaxAlloc, applied, refused, strings.Join(trace, "\n  ")))
	}
	return nil
}

func last(l []string) string {
	if len(l) == 0 {
		return ""
	}
	return l[len(l)-1]
}

// headName names the builtin a mutation template applies (skipping set).
func headName(src string) string {
	for _, m := range reCallName.FindAllStringSubmatch(src, -1) {
		if m[1] == "set" {
			continue
		}
		return m[1]
	}
	return "unknown"
}

// Every higher-order builtin x a callback that SHRINKS (or splices, or grows)
// IN PLACE the very vector the builtin is walking: elpspath:?del! and a
// ?set! range splice are the only in-place shrinkers.  Appended to the
// (append-only) template table.
func init() {
	shrinkers := []string{
		"(elpspath:?del! v 0)",
		"(elpspath:?del! v -1)",
		"(elpspath:?del! v '(range 0 %I))",
		"(elpspath:?set! v '(range 0 2) (vector))",
		"(elpspath:?set! v '(range 1 99) (vector %N))",
		"(progn (elpspath:?del! v 0) (elpspath:?del! v 0) (append! v 7))",
	}
	walkers := []string{
		"(set 'l (map 'list (lambda (x) @ x) v))",
		"(set 'w (map 'vector (lambda (x) @ x) v))",
		"(set 'l (select 'list (lambda (x) @ true) v))",
		"(set 'w (reject 'vector (lambda (x) @ false) v))",
		"(foldl (lambda (a x) @ a) 0 v)",
		"(foldr (lambda (x a) @ a) 0 v)",
		"(all? (lambda (x) @ true) v)",
		"(any? (lambda (x) @ false) v)",
		"(set 'l (zip 'list v (map 'list (lambda (x) @ x) v)))",
		"(set 'w (stable-sort (lambda (a b) @ (< a b)) v))",
		"(set 'w (stable-sort < v (lambda (x) @ x)))",
		"(set 'l (insert-sorted 'list v (lambda (a b) @ (< a b)) %I))",
		"(set 'w (insert-sorted 'vector v < %I (lambda (x) @ x)))",
		"(search-sorted (length v) (lambda (i) @ (> i %I)))",
		"(set 'l (map 'list (lambda (x) @ x) w))",
		"(apply (lambda (&rest xs) @ (length xs)) v)",
		"(unpack (lambda (&rest xs) @ (length xs)) v)",
		"(set 'l (map 'list (lambda (x y) @ x) (zip 'list v v)))",
		"(dotimes (i (length v)) @ (aref v 0))",
		"(string:join (map 'list (lambda (x) @ \"s\") v) \",\")",
	}
	for _, w := range walkers {
		for _, s := range shrinkers {
			seqMutations = append(seqMutations, strings.Replace(w, "@", s, 1))
		}
	}
}
