package c03

import (
	"bytes"
	"fmt"
	"os"
	"strings"
	"time"

	"github.com/luthersystems/elps/lisp"
	"github.com/luthersystems/elps/parser"
	"github.com/luthersystems/elps/parser/rdparser"
	"github.com/luthersystems/elps/parser/token"
	"github.com/luthersystems/elps/verifharness/vcommon"
	"pgregory.net/rapid"
)

// readers-unlimited: the three readers on hostile bytes with NO limits
// configured (no runtime, no context, no step budget): each must return
// (tree or error) without panicking or hanging.

func genReaderSrc() *rapid.Generator[Src] {
	return rapid.Custom(func(t *rapid.T) Src {
		k := rapid.IntRange(0, 9).Draw(t, "class")
		switch {
		case k == 0:
			return Src{Class: "random", B: rapid.SliceOfN(rapid.Byte(), 0, 64).Draw(t, "bytes")}
		case k <= 3:
			n := rapid.IntRange(0, 16).Draw(t, "n")
			var b strings.Builder
			for i := 0; i < n; i++ {
				b.WriteString(rapid.SampledFrom(lexemes).Draw(t, "lex"))
				if rapid.IntRange(0, 2).Draw(t, "sp") > 0 {
					b.WriteString(rapid.SampledFrom([]string{" ", "\n", "  ", "\t", "\r\n"}).Draw(t, "sep"))
				}
			}
			return Src{Class: "lexemes", B: []byte(b.String())}
		case k <= 6:
			s := rapid.SampledFrom(snippets).Draw(t, "snip")
			return Src{Class: "mutated", B: mutate(t, []byte(s))}
		case k == 7:
			r := &Recipe{T: "long", V: rapid.IntRange(0, 9).Draw(t, "v"), N: genDepth(t)}
			return Src{Class: "hostile", R: r}
		default:
			r := &Recipe{T: "nest", V: rapid.IntRange(0, len(nestUnits)-1).Draw(t, "v"), N: genDepth(t)}
			return Src{Class: "hostile", R: r}
		}
	})
}

type readerResult struct {
	n    int
	err  error
	errs int
}

var readerNames = []string{"strict", "format-preserving", "fault-tolerant"}

func runReader(i int, src []byte) (r readerResult) {
	switch i {
	case 0:
		exprs, err := parser.NewReader().Read("c03.lisp", bytes.NewReader(src))
		return readerResult{n: len(exprs), err: err}
	case 1:
		exprs, err := parser.NewReader(parser.WithFormatPreserving()).Read("c03.lisp", bytes.NewReader(src))
		return readerResult{n: len(exprs), err: err}
	default:
		res := rdparser.New(token.NewScanner("c03.lisp", bytes.NewReader(src))).ParseProgramFaultTolerant()
		return readerResult{n: len(res.Exprs), errs: len(res.Errors)}
	}
}

func guardedReader(d time.Duration, i int, src []byte) (rr readerResult, o outcome) {
	o = guarded(d, func() *lisp.LVal {
		rr = runReader(i, src)
		return lisp.Nil()
	})
	return
}

func checkReaders(s Src, ctx *vcommon.Ctx) *vcommon.Failure {
	if s.Class == "" {
		s.Class = "random"
	}
	key := srcKey(s)
	if s.R != nil {
		for _, k := range []string{"reader-wedge/" + key, "reader-death/stack-overflow/" + key} {
			if ctx.Known(k) {
				ctx.Class("excluded-known/" + k)
				return nil
			}
		}
		journal("readers-unlimited", s)
	}
	return isolated("readers-unlimited", s, func(kind, fam string) string { return "reader-" + kind + "/" + key }, ctx)
}

func checkReadersInner(s Src, ctx recorder, wd, wdAlone time.Duration) *vcommon.Failure {
	if s.Class == "" {
		s.Class = "random"
	}
	src := s.Bytes()
	label := srcLabel(s)
	key := srcKey(s)
	ctx.Class("class/" + label)
	if s.R != nil && s.R.N >= 100000 {
		ctx.Class("depth>=1e5")
	}
	if beyondParserBound(s.R) {
		ctx.Class("beyond-parser-bound")
	}
	accepted := 0
	for i, name := range readerNames {
		rr, o := guardedReader(wd, i, src)
		if o.timedOut {
			_, o2 := guardedReader(wdAlone, i, src)
			if o2.timedOut {
				return vcommon.Failf("reader-wedge/"+name+"/"+key, "the %s reader did not return within %v (and again %v alone) on %d bytes: %s",
					name, wd, wdAlone, len(src), clip(string(src), 300))
			}
			ctx.Class("slow-inconclusive")
			continue
		}
		if o.panicVal != nil {
			msg := fmt.Sprint(o.panicVal)
			return vcommon.Failf("reader-panic/"+name+"/"+panicClass(msg)+siteSuffix(panicSite(o.stack)),
				"the %s reader panicked on %d bytes: %v\nsource: %q\n%s", name, len(src), msg, clip(string(src), 300), clip(o.stack, 3000))
		}
		if rr.err == nil && rr.errs == 0 {
			if beyondParserBound(s.R) {
				return vcommon.Failf("reader-accepts-beyond-depth-bound/"+name+"/"+key, "the %s reader accepts source nested %d levels deep (documented bound %d) and returns a value that deep instead of a parse error: %s",
					name, s.R.N, rdparser.DefaultMaxParseDepth, clip(string(src), 120))
			}
			accepted++
			ctx.Class("accepted/" + name)
		} else {
			ctx.Class("rejected/" + name)
		}
	}
	if accepted > 0 || s.R != nil {
		if s.R != nil {
			ctx.NonTrivial(fmt.Sprintf("%+v", *s.R))
			ctx.Note(fmt.Sprintf("recipe %+v -> %d bytes, accepted by %d readers", *s.R, len(src), accepted))
		} else if len(src) >= 3 {
			ctx.NonTrivial(string(src))
			ctx.Note(fmt.Sprintf("source %q", clip(string(src), 300)))
		}
	}
	return nil
}

// enumReaderMatrix: every nesting unit and every long-token shape at the
// parser's depth boundary and at the 10^6 extreme (thorough: more sizes).
func enumReaderMatrix(shard, nshards int, emit func(Src) bool) {
	sizes := []int{10001, 200000, 1000000}
	if os.Getenv("VERIF_TIER") == "thorough" {
		sizes = []int{64, 9999, 10000, 10001, 100000, 200000, 1000000}
	}
	i := 0
	out := func(r Recipe) bool {
		i++
		if (i-1)%nshards != shard {
			return true
		}
		rr := r
		return emit(Src{Class: "hostile", R: &rr})
	}
	for v := range nestUnits {
		for _, n := range sizes {
			if !out(Recipe{T: "nest", V: v, N: n}) {
				return
			}
		}
	}
	// bracket-free prefix chains: the whole 4 MB is nesting (buildRecipe caps
	// n so that the source stays within maxSourceBytes)
	for _, v := range prefixChainUnits {
		for _, n := range []int{2000000, 4000000} {
			if !out(Recipe{T: "nest", V: v, N: n}) {
				return
			}
		}
	}
	for v := 0; v < 10; v++ {
		for _, n := range sizes {
			if !out(Recipe{T: "long", V: v, N: n}) {
				return
			}
		}
	}
}
