package c03

import (
	"strings"
	"unicode/utf8"

	"pgregory.net/rapid"
)

// apply-matrix: an EXHAUSTIVE product of every registered callable with
// matrices of hostile argument shapes that the sampled apply-registry sweep
// reaches only by luck.  A case is a concrete Apply (same oracle, same replay
// format as apply-registry); Tag names the block it came from.
//
//	text   long (45-300 characters) strings with a high share of 2-, 3- and
//	       4-byte characters, as string and as bytes, together with integer
//	       positions DERIVED FROM THAT VERY STRING (byte length, character
//	       count, +-1, midpoints, an offset inside a multi-byte character ...)
//	native every hostile native / degenerate array in every argument position
//	       (typed nil pointers of every pointer type a builtin asserts, structs
//	       with nil embedded pointers, nil maps / slices / funcs / interfaces
//	       inside structs, zero-dimensional arrays, arrays with a zero first
//	       dimension)
//	schema every schema constraint and validator applied DIRECTLY -- through
//	       s:validate with the bare constraint, and called as a function -- to
//	       every hostile value kind
//	cycle  values that reach themselves two and three times per lap, through
//	       lists, vectors, maps and mixtures, below and above the cycle guard's
//	       depth threshold (64), in every argument position

// ---------- long multi-byte text and positions derived from it ----------

var (
	chars1 = []string{"a", "b", "Z", "0", "9", " ", ",", "{", "}", "(", "\"", "\n", "=", "%"}
	chars2 = []string{"é", "ü", "ß", "Ж", "λ", "ñ", "\u0080", "\u07ff", "Ω", "ø"}
	chars3 = []string{"猫", "は", "。", "€", "\u0800", "\ufffd", "\u2028", "\uffff", "한", "ก"}
	chars4 = []string{"😀", "𝄞", "𠜎", "\U00010000", "\U0010ffff", "🇩", "𒀀"}
)

// genLongText draws a string of 40-300 characters of which (by default) about
// 85 % are multi-byte.
func genLongText(t *rapid.T) []byte {
	n := rapid.IntRange(40, 300).Draw(t, "nchars")
	ascii := rapid.SampledFrom([]int{0, 10, 15, 15, 40}).Draw(t, "ascii%")
	var sb strings.Builder
	for i := 0; i < n; i++ {
		w := rapid.IntRange(0, 99).Draw(t, "w")
		switch {
		case w < ascii:
			sb.WriteString(rapid.SampledFrom(chars1).Draw(t, "c1"))
		case w < ascii+(100-ascii)*35/100:
			sb.WriteString(rapid.SampledFrom(chars2).Draw(t, "c2"))
		case w < ascii+(100-ascii)*75/100:
			sb.WriteString(rapid.SampledFrom(chars3).Draw(t, "c3"))
		default:
			sb.WriteString(rapid.SampledFrom(chars4).Draw(t, "c4"))
		}
	}
	return []byte(sb.String())
}

// textPositions lists the integer positions / counts that are interesting for
// THIS text: derived from its byte length B and its character count R.
func textPositions(s []byte) []int64 {
	B := int64(len(s))
	R := int64(utf8.RuneCount(s))
	inside, last := int64(1), int64(0)
	for i := 0; i < len(s); {
		_, w := utf8.DecodeRune(s[i:])
		if w > 1 && inside == 1 {
			inside = int64(i) + 1 // second byte of the first multi-byte character
		}
		last = int64(i)
		i += w
	}
	out := []int64{0, 1, 2, -1, R - 1, R, R + 1, B - 1, B, B + 1, B / 2, R / 2, B - R, (B + R) / 2, inside, last, last + 1,
		31, 32, 33, 64, 2 * B, B + R, -B, -R, R + 4, B - 2}
	return out
}

// reducedPositions: the subset used when a tuple holds several positions.
func reducedPositions(s []byte) []int64 {
	B := int64(len(s))
	R := int64(utf8.RuneCount(s))
	return []int64{0, 1, R, R + 1, B / 2, B - 1, B, B + 1}
}

func isLongMultibyte(s []byte) bool {
	if len(s) < 40 || !utf8.Valid(s) {
		return false
	}
	r := utf8.RuneCount(s)
	return r >= 33 && len(s)-r >= r/3
}

// ---------- formal-name roles ----------

type role int

const (
	roleAmbig role = iota
	roleInt
	roleText
	roleType
	roleFn
	roleField
)

func roleOf(name string) role {
	switch {
	case has(name, "type-specifier"):
		return roleType
	case has(name, "fn", "fun", "f", "g", "predicate", "less-predicate", "binary-function", "key-fun"):
		return roleFn
	case has(name, "n", "index", "start", "stop", "end", "step", "indices", "number", "real", "allowed-value", "base", "quotient", "radians"):
		return roleInt
	case has(name, "field-name"):
		return roleField
	case has(name, "str", "sep", "cutset", "format", "text", "pattern", "json-string", "source-code", "base64-data", "data", "bytes", "json-bytes",
		"byte-sequence", "seq", "lis", "list", "vec", "timestamp", "duration-string", "message-format-args"):
		return roleText
	}
	return roleAmbig
}

var typeSyms = []string{"string", "list", "vector", "bytes"}

func symVD(s string) VD  { return VD{K: "sym", S: []byte(s)} }
func intVD(i int64) VD   { return VD{K: "int", I: i} }
func strVD(s string) VD  { return VD{K: "str", S: []byte(s)} }
func fnTrue() VD         { return VD{K: "fun", I: 12} }
func callVD(q string, args ...VD) VD {
	return VD{K: "call", S: []byte(q), L: args}
}

// ---------- sampled: text + positions inside apply-registry ----------

// posCallables are the registered callables with at least one formal that
// takes a position or count.
var posCallables = func() []int {
	var out []int
	for i, c := range callables {
		names := append(append(append([]string{}, c.Req...), c.Opt...), c.Rest)
		for _, n := range names {
			if roleOf(n) == roleInt || has(n, "a", "x", "rest") {
				out = append(out, i)
				break
			}
		}
	}
	return out
}()

// genTextPosApply: one long multi-byte text per case, handed to the callable as
// a string / as bytes / as a vector of its characters, and positions derived
// from that text in the integer positions.
func genTextPosApply(t *rapid.T) Apply {
	var c *Callable
	if len(posCallables) > 0 && rapid.IntRange(0, 9).Draw(t, "poscallable") < 7 {
		c = &callables[posCallables[rapid.IntRange(0, len(posCallables)-1).Draw(t, "pc")]]
	} else {
		c = &callables[rapid.IntRange(0, len(callables)-1).Draw(t, "callable")]
	}
	a := Apply{Pkg: c.Pkg, Name: c.Name, Via: "direct", Tag: "textpos"}
	if rapid.IntRange(0, 3).Draw(t, "via") == 0 {
		a.Via = "eval"
	}
	g := &genState{}
	text := genLongText(t)
	pos := textPositions(text)
	names := append([]string{}, c.Req...)
	if len(c.Opt) > 0 {
		names = append(names, c.Opt[:rapid.IntRange(0, len(c.Opt)).Draw(t, "nopt")]...)
	}
	if c.Rest != "" {
		for i := rapid.IntRange(0, 3).Draw(t, "nrest"); i > 0; i-- {
			names = append(names, c.Rest)
		}
	}
	carrier := func() VD {
		switch rapid.IntRange(0, 9).Draw(t, "carrier") {
		case 0, 1, 2:
			return VD{K: "bytes", S: text}
		case 3:
			v := VD{K: "vector", ID: g.newID()}
			for i, n := 0, 0; i < len(text) && n < 80; n++ {
				_, w := utf8.DecodeRune(text[i:])
				v.L = append(v.L, VD{K: "str", S: text[i : i+w]})
				i += w
			}
			return v
		}
		return VD{K: "str", S: text}
	}
	position := func() VD { return intVD(pos[rapid.IntRange(0, len(pos)-1).Draw(t, "pos")]) }
	for _, n := range names {
		w := rapid.IntRange(0, 99).Draw(t, "role")
		switch roleOf(n) {
		case roleType:
			if w < 85 {
				a.Args = append(a.Args, VD{K: "sym", S: []byte(rapid.SampledFrom(typeSyms).Draw(t, "ts")), Q: rapid.IntRange(0, 1).Draw(t, "q")})
				continue
			}
		case roleFn:
			if w < 85 {
				a.Args = append(a.Args, genFun(t))
				continue
			}
		case roleInt:
			if w < 85 {
				a.Args = append(a.Args, position())
			} else {
				a.Args = append(a.Args, carrier())
			}
			continue
		case roleText, roleField:
			if w < 80 {
				a.Args = append(a.Args, carrier())
			} else if w < 92 {
				a.Args = append(a.Args, position())
			} else {
				a.Args = append(a.Args, genArgFor(t, g, c, n))
			}
			continue
		}
		switch {
		case w < 45:
			a.Args = append(a.Args, carrier())
		case w < 80:
			a.Args = append(a.Args, position())
		default:
			a.Args = append(a.Args, genArgFor(t, g, c, n))
		}
	}
	return a
}

// ---------- the enumerated matrix ----------

// matrixCallables: every distinct registered callable (the user package
// re-exports the lisp package's values: one of the two is enough here).
func matrixCallables() []*Callable {
	var out []*Callable
	for i := range callables {
		c := &callables[i]
		if c.Pkg == "user" && findCallable("lisp", c.Name) != nil {
			continue
		}
		out = append(out, c)
	}
	return out
}

// matrixShapes lists the formal-name tuples of the accepted arities tried for
// a callable: required only; with the optionals; with one and two rest values.
func matrixShapes(c *Callable, maxRest int) [][]string {
	var out [][]string
	seen := map[string]bool{}
	add := func(n []string) {
		if len(n) == 0 || len(n) > 5 {
			return
		}
		k := strings.Join(n, "\x00")
		if !seen[k] {
			seen[k] = true
			out = append(out, n)
		}
	}
	base := append([]string{}, c.Req...)
	add(base)
	if len(c.Opt) > 0 {
		base = append(append([]string{}, base...), c.Opt...)
		add(base)
	}
	if c.Rest != "" {
		for r := 1; r <= maxRest; r++ {
			n := append([]string{}, base...)
			for i := 0; i < r; i++ {
				n = append(n, c.Rest)
			}
			add(n)
		}
	}
	return out
}

var matrixTexts = []string{
	strings.Repeat("吾輩は猫である。", 9), // 72 characters, 216 bytes, all 3-byte
	"Où est la clé ? Élodie a été gênée à côté du théâtre, même après le dîner à Besançon, où l'été s'achève tôt.", // 2-byte mix
	strings.Repeat("😀𝄞a𠜎é", 9),     // 45 characters, 4-byte heavy
	strings.Repeat("aé猫😀 ", 60),     // 300 characters, every width
}

// product enumerates the cartesian product of opts (at most limit tuples,
// evenly strided), calling f with each tuple.
func product(opts [][]VD, limit int, f func([]VD) bool) bool {
	size := 1
	for _, o := range opts {
		if len(o) == 0 {
			return true
		}
		size *= len(o)
		if size > 1<<24 {
			size = 1 << 24
			break
		}
	}
	stride := 1
	if size > limit {
		stride = (size + limit - 1) / limit
		if stride%2 == 0 {
			stride++ // odd strides visit every option of even-sized axes
		}
	}
	for i := 0; i < size; i += stride {
		tuple := make([]VD, len(opts))
		k := i
		for j, o := range opts {
			tuple[j] = o[k%len(o)]
			k /= len(o)
		}
		if !f(tuple) {
			return false
		}
	}
	return true
}

func isCarrier(d VD) bool {
	return (d.K == "str" || d.K == "bytes") && len(d.S) >= 40
}

// ---- block text ----

func enumTextBlock(emit func(Apply) bool) bool {
	n := 0
	for _, c := range matrixCallables() {
		for _, shape := range matrixShapes(c, 2) {
			nInt := 0
			for _, name := range shape {
				if roleOf(name) == roleInt {
					nInt++
				}
			}
			for _, txt := range matrixTexts {
				text := []byte(txt)
				S, Bt := VD{K: "str", S: text}, VD{K: "bytes", S: text}
				var full, red []VD
				for _, p := range textPositions(text) {
					full = append(full, intVD(p))
				}
				for _, p := range reducedPositions(text) {
					red = append(red, intVD(p))
				}
				ints := full
				if nInt > 1 {
					ints = red
				}
				opts := make([][]VD, len(shape))
				for i, name := range shape {
					switch roleOf(name) {
					case roleType:
						for _, s := range typeSyms {
							opts[i] = append(opts[i], symVD(s))
						}
					case roleFn:
						opts[i] = []VD{fnTrue()}
					case roleInt:
						opts[i] = ints
					case roleText, roleField:
						opts[i] = []VD{S, Bt}
					default:
						opts[i] = []VD{S, Bt, red[0], red[2], red[6], red[7]}
					}
				}
				limit := 160
				if c.FunType != "function" {
					limit = 12 // operators and macros take FORMS: a literal is a literal
				}
				ok := product(opts, limit, func(tuple []VD) bool {
					carrier := false
					for _, d := range tuple {
						carrier = carrier || isCarrier(d)
					}
					if !carrier {
						return true
					}
					n++
					via := "direct"
					if n%4 == 0 {
						via = "eval"
					}
					return emit(Apply{Pkg: c.Pkg, Name: c.Name, Via: via, Args: tuple, Tag: "text"})
				})
				if !ok {
					return false
				}
			}
		}
	}
	return true
}

// ---- block native ----

// hostileMatrixValues: every hostile native, and the degenerate arrays.
func hostileMatrixValues() []VD {
	var out []VD
	for i := 0; i < numNativeSel; i++ {
		out = append(out, VD{K: "native", I: int64(i), F: 1})
	}
	out = append(out,
		VD{K: "array", D: []int{}},                           // zero-dimensional, no cell
		VD{K: "array", D: []int{}, L: []VD{intVD(7)}},        // zero-dimensional, one cell
		VD{K: "array", D: []int{0}},                          // empty
		VD{K: "array", D: []int{0, 2}},                       // zero first dimension
		VD{K: "array", D: []int{0, 2, 2}},                    //
		VD{K: "array", D: []int{2, 0}},                       // zero last dimension
		VD{K: "array", D: []int{2, 0, 2}},                    //
		VD{K: "array", D: []int{2, 2}, L: []VD{intVD(1)}},    // 2-dimensional
		VD{K: "array", D: []int{1, 2, 2}, L: []VD{intVD(1)}}, // 3-dimensional
		VD{K: "bytes", I: 1},                                 // bytes over a nil slice
	)
	return out
}

// filler is a plausible value for a formal, so that the hostile value in the
// other position is reached past the first guards.
func fillers(name string) []VD {
	switch roleOf(name) {
	case roleType:
		return []VD{symVD("list")}
	case roleFn:
		return []VD{fnTrue()}
	case roleInt:
		return []VD{intVD(1)}
	case roleField:
		var out []VD
		for _, f := range hostFieldNames {
			out = append(out, strVD(f))
		}
		return out
	case roleText:
		if has(name, "seq", "lis", "list", "vec") {
			return []VD{{K: "vector", L: []VD{intVD(1), intVD(2)}}}
		}
		if has(name, "bytes", "json-bytes", "byte-sequence", "data") {
			return []VD{{K: "bytes", S: []byte("ab")}}
		}
		return []VD{strVD("a")}
	}
	switch {
	case has(name, "map", "object"):
		return []VD{{K: "map", L: []VD{strVD("a"), intVD(1)}}}
	case has(name, "key", "name", "matchKey"):
		return []VD{strVD("a")}
	case has(name, "type", "constraint", "constraints"):
		return []VD{callVD("s:make-validator", strVD("t"), strVD("any"))}
	case has(name, "json-message"):
		return []VD{{K: "native", I: 21}}
	case has(name, "re"):
		return []VD{{K: "native", I: 12}}
	case has(name, "datetime"):
		return []VD{{K: "native", I: 1, F: 1700000000}}
	case has(name, "time-duration", "duration"):
		return []VD{{K: "native", I: 2, F: 1000}}
	}
	return []VD{intVD(1)}
}

func enumNativeBlock(emit func(Apply) bool) bool {
	hv := hostileMatrixValues()
	n := 0
	for _, c := range matrixCallables() {
		for _, shape := range matrixShapes(c, 1) {
			for p := range shape {
				opts := make([][]VD, len(shape))
				for i, name := range shape {
					if i == p {
						opts[i] = hv
					} else {
						opts[i] = fillers(name)
					}
				}
				ok := product(opts, 1<<20, func(tuple []VD) bool {
					n++
					via := "direct"
					if n%5 == 0 {
						via = "eval"
					}
					return emit(Apply{Pkg: c.Pkg, Name: c.Name, Via: via, Args: tuple, Tag: "native"})
				})
				if !ok {
					return false
				}
			}
		}
	}
	return true
}

// ---- block schema ----

var schemaTypes = []string{"string", "number", "int", "float", "fun", "bytes", "error", "sorted-map", "array", "bool", "tagged-value", "any"}

// schemaConstraints: every constraint constructor of the schema package with
// plausible constructor arguments.
func schemaConstraints() []VD {
	isTrue := callVD("s:is-true")
	out := []VD{
		callVD("s:is-true"), callVD("s:is-false"), callVD("s:is-truthy"), callVD("s:is-falsy"),
		callVD("s:positive"), callVD("s:negative"),
		callVD("s:in"), callVD("s:in", intVD(1), strVD("a"), VD{K: "nil"}),
		callVD("s:of"), callVD("s:of", strVD("int")), callVD("s:of", strVD("any"), isTrue),
		callVD("s:has-key", strVD("a")), callVD("s:has-key", strVD("a"), strVD("int")),
		callVD("s:may-have-key", strVD("a")), callVD("s:may-have-key", strVD("a"), strVD("string")),
		callVD("s:no-other-keys"), callVD("s:no-other-keys", callVD("s:has-key", strVD("a"))),
		callVD("s:not", isTrue), callVD("s:not", callVD("s:len", intVD(0))),
		callVD("s:regexp", strVD("a+")), callVD("s:regexp", strVD("")),
		callVD("s:when", strVD("a"), callVD("s:in", intVD(1)), strVD("b"), isTrue),
	}
	for _, name := range []string{"gt", "gte", "lt", "lte", "len", "lengt", "lengte", "lenlt", "lenlte"} {
		out = append(out, callVD("s:"+name, intVD(0)), callVD("s:"+name, intVD(1)))
	}
	out = append(out, callVD("s:gt", VD{K: "float", F: f64bits(0.5)}), callVD("s:len", intVD(-1)), callVD("s:in", VD{K: "array", D: []int{}}))
	return out
}

// schemaValidators: the bare constraints, every type validator, and the
// array / any / sorted-map / string validators carrying each constraint.
func schemaValidators() []VD {
	cs := schemaConstraints()
	out := append([]VD{}, cs...)
	for _, ty := range schemaTypes {
		out = append(out, callVD("s:make-validator", strVD("t"), strVD(ty)))
	}
	for _, ty := range []string{"any", "array"} {
		for _, c := range cs {
			out = append(out, callVD("s:make-validator", strVD("t"), strVD(ty), c))
		}
	}
	out = append(out, callVD("s:make-validator", strVD("t"), strVD("tagged-value"), strVD("array"), callVD("s:is-truthy")))
	return out
}

// hostileKindValues: one or more values of EVERY value kind the description
// tree can build.
func hostileKindValues() []VD {
	var out []VD
	for _, v := range hostileMatrixValues() {
		if v.K == "native" && !has(string(rune('0'+v.I/10))+string(rune('0'+v.I%10)), "00", "04", "13", "14", "19", "30", "42", "44", "45", "60") {
			continue
		}
		out = append(out, v)
	}
	self := VD{K: "vector", ID: 901, L: []VD{intVD(1), {K: "ref", ID: 901}}}
	selfMap := VD{K: "map", ID: 902, L: []VD{strVD("a"), {K: "ref", ID: 902}, strVD("b"), {K: "ref", ID: 902}}}
	selfList := VD{K: "list", ID: 903, L: []VD{{K: "ref", ID: 903}, {K: "ref", ID: 903}}}
	out = append(out,
		VD{K: "nil"}, VD{K: "true"}, VD{K: "false"}, intVD(0), intVD(-1), intVD(1<<63 - 1), intVD(-1 << 63),
		VD{K: "float", F: f64bits(0)}, VD{K: "float", F: 0x7ff8000000000001}, VD{K: "float", F: 0x7ff0000000000000}, VD{K: "float", F: 0x8000000000000000},
		strVD(""), strVD("a"), strVD("\xff\xfe"), VD{K: "str", S: []byte(matrixTexts[0])}, VD{K: "bigstr", S: []byte("é"), I: 100001},
		symVD("x"), symVD(""), symVD(":k"), VD{K: "qsym", S: []byte("x")}, VD{K: "sym", S: []byte("true"), Q: 1},
		VD{K: "bytes", S: []byte("ab")}, VD{K: "bytes", S: []byte(matrixTexts[2])},
		VD{K: "list"}, VD{K: "list", L: []VD{intVD(1), strVD("a")}}, VD{K: "sexpr", L: []VD{symVD("+"), intVD(1)}}, VD{K: "sexpr"},
		VD{K: "vector"}, VD{K: "vector", L: []VD{intVD(1), {K: "nil"}, strVD("a")}},
		VD{K: "array", D: []int{3}, L: []VD{intVD(1), intVD(2), intVD(3)}},
		VD{K: "map"}, VD{K: "map", L: []VD{strVD("a"), intVD(1), symVD("b"), {K: "nil"}}}, VD{K: "jsonmap"},
		VD{K: "tagged", L: []VD{intVD(1)}}, VD{K: "tagged", S: []byte("lisp:typedef"), L: []VD{{K: "true"}}},
		VD{K: "tagged", L: []VD{{K: "array", D: []int{}}}}, VD{K: "typedef"},
		VD{K: "error", I: 1}, VD{K: "error", I: 3, S: []byte("internal-panic")}, VD{K: "error", L: []VD{{K: "array", D: []int{}}}},
		VD{K: "fun", I: 1}, VD{K: "fun", I: 9}, VD{K: "fun", I: 100}, VD{K: "fun", S: []byte("lisp:if")}, VD{K: "fun", I: 7},
		VD{K: "lambda", I: 1, L: []VD{symVD("x")}},
		callVD("s:is-truthy"), callVD("regexp:regexp-compile", strVD("a+")),
		self, selfMap, selfList,
		VD{K: "vector", L: []VD{{K: "array", D: []int{}}, {K: "array", D: []int{0, 2}}}},
		VD{K: "map", L: []VD{strVD("a"), {K: "array", D: []int{}}}},
		VD{K: "list", L: []VD{{K: "native", I: 30}, {K: "native", I: 14}}},
		VD{K: "int", I: 1, Q: 1}, VD{K: "list", L: []VD{intVD(1)}, Q: 2},
	)
	return out
}

func enumSchemaBlock(emit func(Apply) bool) bool {
	vals := hostileKindValues()
	n := 0
	bare := len(schemaConstraints()) + len(schemaTypes)
	for vi, v := range schemaValidators() {
		for _, x := range vals {
			n++
			via := "direct"
			if n%5 == 0 {
				via = "eval"
			}
			// (s:validate C x): the bare constraint / validator handed to validate
			if !emit(Apply{Pkg: "s", Name: "validate", Via: via, Args: []VD{v, x}, Tag: "schema"}) {
				return false
			}
			// (funcall C x): the constraint called as a function
			if vi >= bare {
				continue
			}
			if !emit(Apply{Pkg: "lisp", Name: "funcall", Via: via, Args: []VD{v, x}, Tag: "schema"}) {
				return false
			}
		}
	}
	// hostile values as constructor arguments of every schema callable
	for _, c := range matrixCallables() {
		if c.Pkg != "s" {
			continue
		}
		for _, shape := range matrixShapes(c, 2) {
			for p := range shape {
				for _, x := range vals {
					args := make([]VD, len(shape))
					for i, name := range shape {
						args[i] = fillers(name)[0]
						if name == "type" {
							args[i] = strVD("array")
						}
					}
					args[p] = x
					// the constraint built from the hostile argument, then applied
					if c.Name != "validate" && c.Name != "deftype" {
						built := callVD("s:"+c.Name, args...)
						if x.K == "array" {
							if !emit(Apply{Pkg: "s", Name: "validate", Via: "direct", Args: []VD{built, {K: "array", D: []int{0, 2}}}, Tag: "schema"}) {
								return false
							}
						}
						if !emit(Apply{Pkg: "s", Name: "validate", Via: "direct", Args: []VD{built, x}, Tag: "schema"}) {
							return false
						}
					}
				}
			}
		}
	}
	return true
}

// ---- block cycle ----

const cycleGuardDepth = 64 // lisp/cycle.go

// multiRef builds a chain of depth containers of the given kinds (cycled) whose
// innermost one refers back to the outermost one `refs` times; with mid, the
// middle one also refers back once (so a lap can be closed at two depths).
func multiRef(kinds []string, depth, refs int, mid bool, idBase int) VD {
	var build func(level int) VD
	build = func(level int) VD {
		k := kinds[level%len(kinds)]
		d := VD{K: k, ID: idBase + level}
		add := func(i int, v VD) {
			if k == "map" {
				d.L = append(d.L, strVD(string(rune('a'+i))), v)
			} else {
				d.L = append(d.L, v)
			}
		}
		i := 0
		if k == "tagged" {
			// a tagged value holds one datum
			if level == depth-1 {
				d.L = []VD{{K: "ref", ID: idBase}}
			} else {
				d.L = []VD{build(level + 1)}
			}
			return d
		}
		if level == depth-1 {
			for ; i < refs; i++ {
				add(i, VD{K: "ref", ID: idBase})
			}
			return d
		}
		add(i, intVD(int64(level)))
		i++
		add(i, build(level+1))
		i++
		if mid && level == depth/2 {
			add(i, VD{K: "ref", ID: idBase})
		}
		return d
	}
	return build(0)
}

func cycleValues() []VD {
	var out []VD
	id := 1000
	for _, kinds := range [][]string{{"list"}, {"vector"}, {"map"}, {"list", "vector", "map"}, {"tagged", "list"}} {
		for _, refs := range []int{2, 3} {
			for _, depth := range []int{2, cycleGuardDepth - 3, cycleGuardDepth + 3, 2*cycleGuardDepth + 5} {
				if kinds[0] == "tagged" && depth > 2 {
					continue
				}
				out = append(out, multiRef(kinds, depth, refs, depth > 2 && refs == 2, id))
				id += 200
			}
		}
	}
	return out
}

func enumCycleBlock(emit func(Apply) bool) bool {
	vals := cycleValues()
	n := 0
	for _, c := range matrixCallables() {
		if c.FunType != "function" {
			continue // a self-containing FORM is source-matrix business
		}
		for _, shape := range matrixShapes(c, 1) {
			for p := range shape {
				for _, x := range vals {
					args := make([]VD, len(shape))
					for i, name := range shape {
						args[i] = fillers(name)[0]
					}
					args[p] = x
					n++
					via := "direct"
					if n%5 == 0 {
						via = "eval"
					}
					if !emit(Apply{Pkg: c.Pkg, Name: c.Name, Via: via, Args: args, Tag: "cycle"}) {
						return false
					}
				}
				// the same self-containing value in two positions at once
				if p == 0 && len(shape) >= 2 {
					for _, x := range vals {
						if x.ID%1000 != 0 {
							continue
						}
						args := make([]VD, len(shape))
						for i, name := range shape {
							args[i] = fillers(name)[0]
						}
						args[0] = x
						args[1] = VD{K: "ref", ID: x.ID}
						if !emit(Apply{Pkg: c.Pkg, Name: c.Name, Via: "direct", Args: args, Tag: "cycle"}) {
							return false
						}
					}
				}
			}
		}
	}
	return true
}

// enumApplyMatrix partitions the whole matrix across shards by index.
func enumApplyMatrix(shard, nshards int, emit func(Apply) bool) {
	i := 0
	part := func(a Apply) bool {
		i++
		if (i-1)%nshards != shard {
			return true
		}
		return emit(a)
	}
	_ = enumTextBlock(part) && enumNativeBlock(part) && enumSchemaBlock(part) && enumCycleBlock(part)
}

// multiBackref reports whether some container is referred to by two or more
// ref nodes (a value reaching itself more than once per lap).
func multiBackref(l []VD) bool {
	count := map[int]int{}
	var walk func([]VD)
	walk = func(l []VD) {
		for _, d := range l {
			if d.K == "ref" {
				count[d.ID]++
			}
			walk(d.L)
		}
	}
	walk(l)
	for _, n := range count {
		if n >= 2 {
			return true
		}
	}
	return false
}
