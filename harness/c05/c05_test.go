// C05: a runtime is left clean after every top-level evaluation, successful or
// not.  History check: one long-lived runtime, generated sequences of
// entry-point calls that fail in generated ways at generated depths; after
// every action the cleanliness invariants are read through the public API and
// a probe battery must behave exactly as in a fresh twin runtime that only
// received the completed mutations.
package c05

import (
	"context"
	"fmt"
	"strings"
	"testing"

	"github.com/luthersystems/elps/lisp"
	"github.com/luthersystems/elps/parser"
	"github.com/luthersystems/elps/parser/token"
	"github.com/luthersystems/elps/verifharness/vcommon"
	"pgregory.net/rapid"
)

const prelude = `
(defun nest (d thunk) (if (<= d 0) (funcall thunk) (+ 0 (nest (- d 1) thunk))))
(defun deep (n) (if (<= n 0) 0 (+ 1 (deep (- n 1)))))
(defun spin (n) (if (<= n 0) 0 (spin (- n 1))))
(defmacro mloop (n) (if (<= n 0) 0 (quasiquote (mloop (unquote (- n 1))))))
(defmacro pmac () (host-panic "in macro"))
(defmacro wrapm (&rest body) (quasiquote (progn (unquote-splicing body))))
(defun prof-trap () "PROFILER-TRAP" 0)
(in-package 'lib)
(export 'twice)
(defun helper (x) (* x 2))
(defun twice (x) (helper x))
(defun fail-early (x) (helper x) (error 'early x) (helper x))
(defmacro mfail (x) (helper 1) (error 'early-macro) (quasiquote (helper (unquote x))))
(in-package 'user)
`

const battery = `
(defun b-loop (n acc) (if (<= n 0) acc (b-loop (- n 1) (+ acc n))))
(defun b-even (n) (if (= n 0) true (b-odd (- n 1))))
(defun b-odd (n) (if (= n 0) false (b-even (- n 1))))
(defmacro b-inc (x) (quasiquote (+ 1 (unquote x))))
(list
  (b-loop 50 0)
  (b-even 21)
  (handler-bind ((inner (lambda (c &rest d) (list 'outer d))))
    (handler-bind ((inner (lambda (c &rest d) (rethrow))))
      (error 'inner 7)))
  (handler-bind ((inner (lambda (c &rest d) (list c d)))) (error 'inner 7 8))
  (ignore-errors (error 'x))
  (lib:twice 21)
  (b-inc 41)
  (labels ([f (n) (if (<= n 0) 'done (g (- n 1)))] [g (n) (f n)]) (f 9))
  (ignore-errors (rethrow))
  (list (ignore-errors v0) (ignore-errors v1) (ignore-errors v2) (ignore-errors v3))
  (progn (set 'b-marker 1) (list b-marker (ignore-errors user:b-marker)))
  (nest 5 (lambda () 7))
  (deep 40) (spin 300) (mloop 20)
  (ignore-errors (ctxfn 5)) (ignore-errors (funcall ctxclosure 2))
  (ignore-errors (error 'internal-panic "forged: an ordinary error with that name"))
  (handler-bind ((condition (lambda (c &rest d) (list 'caught c)))) (car 5)))
`

var cfg = vcommon.Cfg{NoStdlib: true, MaxPhysical: 250, MaxNesting: 600, MaxTailIter: 2000, MaxMacroDepth: 50, MaxAlloc: 100000}

type Action struct {
	Entry  string `json:"entry"` // load | eval | evalsexpr | funcall | specialop | macrocall | load-ctx | eval-ctx | funcall-ctx | load-empty
	PreVar int    `json:"pre_var"`
	PreVal int    `json:"pre_val"`
	Fail   string `json:"fail"`
	Depth  int    `json:"depth"`
	Wrap   string `json:"wrap"` // "", "let", "handler", "ignore", "macro"
	Budget int    `json:"budget"`
	InPkg  bool   `json:"in_pkg"`
}

type History struct {
	Actions []Action `json:"actions"`
}

var failKinds = []string{"none", "none", "error", "error-in-handler", "error-in-handler-handler", "rethrow-in-handler", "rethrow-outside",
	"unbound", "arity", "phys", "nesting", "tail", "macro", "host-panic", "host-panic-in-handler", "host-panic-in-macro", "load-fail",
	"ignore-then-fail", "set-unbound", "bad-call-head", "nested-empty-load", "profiler-hook-panics", "host-panic-arg", "go-handler-panics", "cross-package-early-fail", "cross-package-early-fail", "cross-package-macro-fail"}

func genHistory() *rapid.Generator[History] {
	act := rapid.Custom(func(t *rapid.T) Action {
		a := Action{
			Entry:  rapid.SampledFrom([]string{"load", "load", "load", "eval", "evalsexpr", "funcall", "specialop", "macrocall", "load-ctx", "eval-ctx", "funcall-ctx", "load-empty", "def-ctx"}).Draw(t, "entry"),
			PreVar: rapid.IntRange(0, 3).Draw(t, "prevar"),
			PreVal: rapid.IntRange(0, 99).Draw(t, "preval"),
			Fail:   rapid.SampledFrom(failKinds).Draw(t, "fail"),
			Depth:  rapid.IntRange(0, 6).Draw(t, "depth"),
			Wrap:   rapid.SampledFrom([]string{"", "", "let", "handler", "ignore", "macro"}).Draw(t, "wrap"),
			InPkg:  rapid.IntRange(0, 4).Draw(t, "inpkg") == 0,
		}
		if rapid.IntRange(0, 3).Draw(t, "budgeted") == 0 && a.Entry != "def-ctx" {
			// (the two definitions of def-ctx are tracked as one completed
			// binding, so that load is never cut short by a budget)
			a.Budget = rapid.IntRange(1, 150).Draw(t, "budget")
		}
		return a
	})
	return rapid.Custom(func(t *rapid.T) History {
		return History{Actions: rapid.SliceOfN(act, 1, 12).Draw(t, "actions")}
	})
}

func failForm(kind string) string {
	switch kind {
	case "none":
		return "0"
	case "error":
		return "(error 'boom 1)"
	case "error-in-handler":
		return "(handler-bind ((boom (lambda (c &rest d) (error 'inner 2)))) (error 'boom 1))"
	case "error-in-handler-handler":
		return "(handler-bind ((boom (lambda (c &rest d) (handler-bind ((inner (lambda (c &rest d) (error 'innermost 3)))) (error 'inner 2))))) (error 'boom 1))"
	case "rethrow-in-handler":
		return "(handler-bind ((boom (lambda (c &rest d) (rethrow)))) (error 'boom 1))"
	case "rethrow-outside":
		return "(rethrow)"
	case "unbound":
		return "no-such-symbol"
	case "arity":
		return "(car)"
	case "phys":
		return "(deep 100000)"
	case "nesting":
		return strings.Repeat("(+ 1 ", 700) + "0" + strings.Repeat(")", 700)
	case "tail":
		return "(spin 100000)"
	case "macro":
		return "(mloop 1000)"
	case "host-panic":
		return "(host-panic \"x\")"
	case "host-panic-in-handler":
		return "(handler-bind ((boom (lambda (c &rest d) (host-panic \"h\")))) (error 'boom 1))"
	case "host-panic-in-macro":
		return "(pmac)"
	case "load-fail":
		return "(load-string \"(in-package 'other2) (gset 'v3 5) (error 'nested 3)\")"
	case "profiler-hook-panics":
		// the attached profiler's Start hook panics for this function
		return "(prof-trap)"
	case "host-panic-arg":
		return "(+ 1 (host-panic \"in argument\"))"
	case "nested-empty-load":
		return "(progn (load-string \"\") (load-string \" ; nothing here\\n\") 0)"
	case "ignore-then-fail":
		return "(progn (ignore-errors (error 'a)) (error 'b))"
	case "set-unbound":
		return "(set! never-bound 1)"
	case "bad-call-head":
		return "(1 2 3)"
	case "go-handler-panics":
		return "(handler-bind ((boom host-panic-handler)) (error 'boom 1))"
	case "cross-package-early-fail":
		return "(lib:fail-early 3)"
	case "cross-package-macro-fail":
		return "(lib:mfail 3)"
	}
	return "0"
}

func (a Action) body() string {
	inner := failForm(a.Fail)
	thunk := fmt.Sprintf("(nest %d (lambda () %s))", a.Depth, inner)
	if a.Depth == 0 && a.PreVal%3 == 0 {
		// the failing form stands directly in the entry point's own
		// environment (the root environment for the Load/Eval entries)
		thunk = inner
	}
	switch a.Wrap {
	case "let":
		thunk = "(let ([tmp 1]) " + thunk + ")"
	case "handler":
		thunk = "(handler-bind ((never (lambda (c &rest d) 0))) " + thunk + ")"
	case "ignore":
		thunk = "(list (ignore-errors (error 'swallowed)) " + thunk + ")"
	case "macro":
		thunk = "(wrapm 1 " + thunk + ")"
	}
	return fmt.Sprintf("(gset 'v%d %d) %s (gset 'v%d %d)", a.PreVar, a.PreVal, thunk, (a.PreVar+1)%4, a.PreVal+1000)
}

const ctxDefs = "(defun ctxfn (x) (if (<= x 0) 0 (+ 1 (ctxfn (- x 1))))) (set 'ctxclosure (let ((k 3)) (lambda (y) (map 'list (lambda (e) (+ e k y)) '(1 2)))))"

func parseOne(src string) (*lisp.LVal, error) {
	exprs, err := parser.NewReader().Read("action.lisp", strings.NewReader(src))
	if err != nil {
		return nil, err
	}
	if len(exprs) != 1 {
		return nil, fmt.Errorf("expected one expression, got %d", len(exprs))
	}
	return exprs[0], nil
}

// perform runs one action through its entry point and returns the result.
func perform(rt *vcommon.Rt, a Action) (*lisp.LVal, string) {
	env := rt.Env
	body := a.body()
	// the *Context entry points get a context of their own that the host
	// cancels as soon as the call has returned (the usual `defer cancel()`)
	ctx, cancel := context.WithCancel(context.Background())
	defer cancel()
	switch a.Entry {
	case "load-empty":
		src := "  ; nothing to evaluate\n"
		if a.PreVal%2 == 0 {
			src = ""
		}
		return env.LoadString("action.lisp", src), "LoadString (no forms): " + fmt.Sprintf("%q", src)
	case "def-ctx":
		// definitions made under a context that is cancelled afterwards: the
		// functions are completed bindings and must stay usable
		return env.LoadStringContext(ctx, "ctxdef.lisp", ctxDefs), "LoadStringContext: " + ctxDefs
	case "load-ctx":
		return env.LoadStringContext(ctx, "action.lisp", body), "LoadStringContext: " + body
	case "eval-ctx":
		e, err := parseOne("(progn " + body + ")")
		if err != nil {
			panic(err)
		}
		return env.EvalContext(ctx, e), "EvalContext: (progn " + body + ")"
	case "funcall-ctx":
		def := "(defun act () " + body + ")"
		if v := env.LoadString("def.lisp", def); v.Type == lisp.LError {
			return v, def
		}
		fn := env.GetGlobal(lisp.Symbol("act"))
		return env.FunCallContext(ctx, fn, lisp.SExpr(nil)), "FunCallContext act: " + def
	case "load":
		src := body
		if a.InPkg {
			src = "(in-package 'other) (lisp:set 'marker 1) (user:gset 'v0 77) " + strings.ReplaceAll(strings.ReplaceAll(body, "(gset ", "(user:gset "), "(nest ", "(user:nest ")
			src = strings.ReplaceAll(src, "(deep ", "(user:deep ")
			src = strings.ReplaceAll(src, "(spin ", "(user:spin ")
			src = strings.ReplaceAll(src, "(mloop ", "(user:mloop ")
			src = strings.ReplaceAll(src, "(pmac)", "(user:pmac)")
			src = strings.ReplaceAll(src, "(wrapm ", "(user:wrapm ")
			src = strings.ReplaceAll(src, "(host-panic ", "(user:host-panic ")
		}
		return env.LoadString("action.lisp", src), src
	case "eval":
		e, err := parseOne("(progn " + body + ")")
		if err != nil {
			panic(err)
		}
		return env.Eval(e), "Eval: (progn " + body + ")"
	case "evalsexpr":
		e, err := parseOne("(progn " + body + ")")
		if err != nil {
			panic(err)
		}
		return env.EvalSExpr(e), "EvalSExpr: (progn " + body + ")"
	case "funcall":
		def := "(defun act () " + body + ")"
		if v := env.LoadString("def.lisp", def); v.Type == lisp.LError {
			return v, def
		}
		fn := env.GetGlobal(lisp.Symbol("act"))
		return env.FunCall(fn, lisp.SExpr(nil)), "FunCall act: " + def
	case "specialop":
		e, err := parseOne("(" + body + ")")
		if err != nil {
			panic(err)
		}
		op := env.GetGlobal(lisp.Symbol("lisp:progn"))
		return env.SpecialOpCall(op, lisp.SExpr(e.Cells)), "SpecialOpCall progn: " + body
	default: // macrocall
		e, err := parseOne("(" + body + ")")
		if err != nil {
			panic(err)
		}
		mac := env.GetGlobal(lisp.Symbol("wrapm"))
		return env.MacroCall(mac, lisp.SExpr(e.Cells)), "MacroCall wrapm: " + body
	}
}

// describe renders everything the host can observe of one action's outcome.
//
func describe(rt *vcommon.Rt, a Action, res *lisp.LVal, tr []vcommon.Event) string {
	return describe1(rt, a, false, "", res, tr)
}

func locString(l *token.Location) string {
	if l == nil {
		return ""
	}
	return fmt.Sprintf("%s:%d:%d", l.File, l.Line, l.Col)
}

func describe1(rt *vcommon.Rt, a Action, hostEntry bool, hostLoc string, res *lisp.LVal, tr []vcommon.Event) string {
	var b strings.Builder
	if res == nil {
		return "#nil"
	}
	if res.Type != lisp.LError {
		b.WriteString("VALUE " + vcommon.Canon(res))
	} else {
		fmt.Fprintf(&b, "ERROR<%s> %s", res.Str, (*lisp.ErrorVal)(res).ErrorMessage())
		fmt.Fprintf(&b, " panic=%v", lisp.IsInternalPanic(res))
		if st := res.CallStack(); st != nil && len(st.GoStack) > 0 {
			b.WriteString(" +gostack")
		}
		if loc, ok := res.Source(); ok && !(hostEntry && locString(&loc) == hostLoc) {
			fmt.Fprintf(&b, " @%s", locString(&loc))
		} else if hostEntry {
			b.WriteString(" @<host>")
		} else {
			b.WriteString(" @nowhere")
		}
		if st := res.CallStack(); st != nil {
			for i := len(st.Frames) - 1; i >= 0; i-- {
				f := st.Frames[i]
				fmt.Fprintf(&b, " [%s:%s", f.Package, f.Name)
				if f.Source != nil && !(hostEntry && i == 0) {
					fmt.Fprintf(&b, " %s", locString(f.Source))
				}
				b.WriteString("]")
			}
		}
	}
	steps := rt.Env.Runtime.Steps()
	if a.Entry == "load-empty" {
		steps = 0 // nothing was evaluated: the counter still shows the evaluation before
	}
	fmt.Fprintf(&b, " | steps=%d | effects=%q | stderr=%q", steps, vcommon.TraceString(tr), rt.Stderr.String())
	return b.String()
}

// trapProfiler is an attached profiler whose Start hook panics for one marked
// function (host code in the window between frame push and deferred pop).
type trapProfiler struct{}

func (trapProfiler) Start(fun *lisp.LVal) func() {
	if fun != nil && fun.Type == lisp.LFun && fun.Docstring() == "PROFILER-TRAP" {
		panic("profiler hook panics")
	}
	return func() {}
}

func newRT() *vcommon.Rt {
	rt := vcommon.NewRuntime(cfg)
	rt.Env.Runtime.Profiler = trapProfiler{}
	if o := rt.Load(prelude); o.IsErr {
		panic("prelude: " + o.Msg)
	}
	rt.Trace = nil
	rt.Stderr.Reset()
	return rt
}

func runBattery(rt *vcommon.Rt) string {
	rt.Apply(vcommon.Cfg{MaxSteps: 1 << 40})
	rt.Stderr.Reset()
	o := rt.Observe(rt.Env.LoadString("battery.lisp", battery))
	s := ""
	if o.IsErr {
		s = "ERR<" + o.Cond + "> " + o.Msg
	} else {
		s = o.Canon
	}
	s += fmt.Sprintf(" | steps=%d | stderr=%q", rt.Env.Runtime.Steps(), rt.Stderr.String())
	rt.Apply(vcommon.Cfg{MaxSteps: 0})
	return s
}

func checkHistory(h History, c *vcommon.Ctx) *vcommon.Failure {
	rt := newRT()
	env := rt.Env
	r := env.Runtime
	var log strings.Builder
	type mut struct{ name, val string }
	var done []mut
	failedDeep, followed := false, false
	var defs []string
	for i, a := range h.Actions {
		if a.Entry == "def-ctx" {
			a.Budget = 0
		}
		if failedDeep {
			followed = true
		}
		pkgBefore := r.Package.Name
		ctxBefore := env.Context()
		mark := len(rt.Trace)
		// the same action in a fresh runtime that received only the completed
		// mutations: its own outcome (value or condition, message, location,
		// stack trace, effects, steps) is what a clean runtime must give
		twinA := newRT()
		for _, d := range defs {
			twinA.Env.LoadString("def.lisp", d)
		}
		{
			upkg := twinA.Env.Runtime.Registry.Package(lisp.DefaultUserPackage)
			for _, m := range done {
				var n int
				fmt.Sscanf(m.val, "%d", &n)
				upkg.Put(lisp.Symbol(m.name), lisp.Int(n))
			}
		}
		twinA.Trace = nil
		// The entry points that take no source expression (FunCall*,
		// SpecialOpCall, MacroCall) have no call expression of their own: their
		// outermost frame, and an error raised before any form is evaluated,
		// carry the location the environment was left at.  Both runtimes are
		// left at the same one, so that it cannot differ.
		env.LoadString("host.lisp", "0")
		twinA.Env.LoadString("host.lisp", "0")
		mark = len(rt.Trace)
		if a.Budget > 0 {
			rt.Apply(vcommon.Cfg{MaxSteps: int64(a.Budget)})
			twinA.Apply(vcommon.Cfg{MaxSteps: int64(a.Budget)})
		}
		rt.Stderr.Reset()
		twinA.Stderr.Reset()
		res, desc := perform(rt, a)
		resT, _ := perform(twinA, a)
		gotA := describe(rt, a, res, rt.Trace[mark:])
		wantA := describe(twinA, a, resT, twinA.Trace)
		rt.Apply(vcommon.Cfg{MaxSteps: 0})
		// definitions are completed bindings only if the defining load itself
		// succeeded (it runs under the action's budget too)
		if a.Entry == "def-ctx" && res != nil && res.Type != lisp.LError {
			defs = append(defs, ctxDefs)
		}
		if (a.Entry == "funcall" || a.Entry == "funcall-ctx") && !strings.HasPrefix(desc, "(defun act ") {
			defs = append(defs, "(defun act () "+a.body()+")")
		}
		fmt.Fprintf(&log, "#%d %s budget=%d\n", i, desc, a.Budget)
		c.Class("entry/" + a.Entry)
		c.Class("fail/" + a.Fail)
		if a.Budget > 0 {
			c.Class("budgeted")
		}
		if res == nil {
			return vcommon.Failf("nil-result", "entry point returned a nil *LVal\n%s", log.String())
		}
		isErr := res.Type == lisp.LError
		if isErr {
			c.Class("action-failed")
			if a.Depth >= 2 {
				failedDeep = true
			}
			if lisp.IsInternalPanic(res) && !strings.Contains(a.Fail, "panic") && a.Entry != "load-empty" && a.Entry != "def-ctx" {
				return vcommon.Failf("internal-panic", "unexpected internal panic: %v\n%s", (*lisp.ErrorVal)(res).ErrorMessage(), log.String())
			}
		}
		// completed mutations, as logged by the host primitive itself
		for _, e := range rt.Trace[mark:] {
			if e.Tag == "gset" {
				parts := strings.SplitN(e.Payload, " ", 2)
				done = append(done, mut{parts[0], parts[1]})
			}
		}
		switch a.Entry {
		case "load", "load-ctx", "eval", "eval-ctx", "evalsexpr", "def-ctx", "load-empty":
			// these entry points are handed the source: nothing they report may
			// carry the location the environment was left at beforehand
			if strings.Contains(gotA, "host.lisp") {
				return vcommon.Failf("stale-location/"+a.Entry, "action #%d reports a location left over from the PREVIOUS evaluation (host.lisp)\n%s\n%s", i, gotA, log.String())
			}
		}
		if gotA != wantA {
			return vcommon.Failf("action-differs/"+a.Entry, "action #%d behaves differently in the long-lived runtime than in a fresh runtime that received only the completed mutations\nlong-lived: %s\nfresh:      %s\n%s", i, gotA, wantA, log.String())
		}
		// ---- cleanliness invariants ----
		if n := len(r.Stack.Frames); n != 0 {
			return vcommon.Failf("dirty/stack", "call stack holds %d frames after the entry point returned (top: %s)\n%s", n, r.Stack.Top().String(), log.String())
		}
		if r.CurrentCondition() != nil {
			return vcommon.Failf("dirty/condition", "a condition is still pending for rethrow after the entry point returned\n%s", log.String())
		}
		if n := r.EvalNesting(); n != 0 {
			return vcommon.Failf("dirty/nesting", "evaluator nesting is %d after the entry point returned\n%s", n, log.String())
		}
		if r.Package.Name != pkgBefore {
			return vcommon.Failf("dirty/package", "current package is %q, was %q before the call\n%s", r.Package.Name, pkgBefore, log.String())
		}
		if env.Context() != ctxBefore {
			return vcommon.Failf("dirty/context", "evaluation context was not restored\n%s", log.String())
		}
		// ---- later evaluation behaves as if the failure had stopped cleanly ----
		twin := newRT()
		for _, d := range defs {
			twin.Env.LoadString("def.lisp", d)
		}
		upkg := twin.Env.Runtime.Registry.Package(lisp.DefaultUserPackage)
		for _, m := range done {
			var n int
			fmt.Sscanf(m.val, "%d", &n)
			upkg.Put(lisp.Symbol(m.name), lisp.Int(n))
		}
		got, want := runBattery(rt), runBattery(twin)
		if got != want {
			return vcommon.Failf("later-evaluation-differs", "after action #%d the probe battery behaves differently from a fresh runtime that received only the completed mutations\ndirty: %s\ntwin:  %s\n%s", i, got, want, log.String())
		}
	}
	if failedDeep && followed {
		c.NonTrivial(log.String())
		c.Note(log.String())
	}
	return nil
}

func TestCheck(t *testing.T) {
	vcommon.Main(t, "C05",
		vcommon.S("history", 6000, 200000, genHistory(), checkHistory),
	)
}

// TestBatteryRunsToTheEnd guards the harness itself: in a fresh runtime the
// probe battery must evaluate completely (a battery that fails half-way would
// compare only its first forms).
func TestBatteryRunsToTheEnd(t *testing.T) {
	rt := newRT()
	if s := runBattery(rt); strings.HasPrefix(s, "ERR") {
		t.Fatalf("the probe battery does not run to its end in a fresh runtime: %s", s)
	}
}
