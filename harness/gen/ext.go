package gen

// Generator productions for the C01 "ext" and "stdlib" sub-properties:
// user-defined types (deftype/new/type/type?/tagged-value?/user-data), defconst
// and set with docstrings, trace, qualified-symbol, and -- for runtimes that
// load the standard library -- the string, math and base64 packages.
//
// The productions hang off PG.Ext, which is nil for every other generator, so
// the draw sequence of the existing sub-properties is unchanged.

import (
	"pgregory.net/rapid"
)

// Ext switches the extension productions on.
type Ext struct {
	Lang int // % of expression holes diverted to a language-extension production
	Std  int // % of expression holes diverted to a standard-library production

	types  []*extType
	consts int
}

type extType struct {
	ref      string // how the type is written from the user package: box, pk:pt
	bare     string // the unqualified name
	qname    string // package-qualified name: user:box
	sig      *fnSig
	identity bool // the constructor returns its single argument
	rect     bool // the constructor returns (sorted-map :h h :w w)
}

func (g *PG) xstat(s string) { g.Stats["x/"+s]++ }

// rapid's integer generators are strongly biased towards the ends of a range
// (IntRange(0,99) is 0 or 1 one time in five); the extension productions want
// real percentages, so their choices are assembled from fair coin flips.
func (g *PG) un(lo, hi int, label string) int {
	span := hi - lo + 1
	if span <= 1 {
		return lo
	}
	bits := 3
	for 1<<uint(bits-3) < span {
		bits++
	}
	v := 0
	for i := 0; i < bits; i++ {
		v <<= 1
		if rapid.Bool().Draw(g.t, label) {
			v |= 1
		}
	}
	return lo + v%span
}

func (g *PG) chance(p int, label string) bool { return g.un(0, 99, label) < p }

func (g *PG) pickStr(label string, opts ...string) string {
	return opts[g.un(0, len(opts)-1, label)]
}

func (g *PG) pickVal(label string, opts []Val) Val {
	return opts[g.un(0, len(opts)-1, label)]
}

// extHook is called at the top of Expr when g.Ext != nil.
func (g *PG) extHook(sc *scope, ty Ty, depth int) (Val, bool) {
	x := g.Ext
	if x.Lang > 0 && g.chance(x.Lang, "ext-lang") {
		if v, ok := g.extLang(sc, ty, depth); ok {
			return v, true
		}
	}
	if x.Std > 0 && g.chance(x.Std, "ext-std") {
		if v, ok := g.extStd(sc, ty, depth); ok {
			return v, true
		}
	}
	return Val{}, false
}

// ---------- user-defined types ----------

var extTypeNames = []string{"box", "rect", "pt", "none", "bag", "cell"}

// extDeftype emits a (deftype ...) form in the current package pkg and records
// the type.  closed: the constructor body may not refer to user globals.
func (g *PG) extDeftype(pkg string, closed bool, depth int) Val {
	base := g.pickStr("tyname", extTypeNames...)
	name := g.Prefix + base
	t := &extType{ref: name, bare: name, qname: pkg + ":" + name}
	if pkg != "user" {
		t.ref = t.qname
	}
	var form Val
	switch k := g.un(0, 9, "tykind"); {
	case k <= 2:
		t.identity, t.sig = true, &fnSig{name: name, req: 1, ret: TyAny}
		form = L(S("deftype"), S(name), L(S("x")), S("x"))
		g.xstat("deftype-identity")
	case k <= 4:
		t.rect, t.sig = true, &fnSig{name: name, req: 2, ret: TyMap}
		form = L(S("deftype"), S(name), L(S("h"), S("w")), Call("sorted-map", S(":h"), S("h"), S(":w"), S("w")))
		g.xstat("deftype-map")
	case k == 5:
		t.sig = &fnSig{name: name, ret: TyAny}
		form = L(S("deftype"), S(name), L())
		g.xstat("deftype-empty")
	case k == 6:
		// several constructor expressions, run as if wrapped in a progn
		t.sig = &fnSig{name: name, req: 1, opt: 1, ret: TyAny}
		form = L(S("deftype"), S(name), L(S("x"), S("&optional"), S("y")), g.probe(S("x")), Call("list", S("x"), S("y")))
		g.xstat("deftype-multi-expr")
	default:
		fs, sig, vars := g.formals(name, TyAny)
		t.sig = sig
		parent := g.globals
		if closed {
			parent = &scope{}
		}
		inner := &scope{vars: vars, parent: parent}
		body := []Val{S("deftype"), S(name), fs}
		if g.chance(30, "ctor-extra") {
			body = append(body, g.Expr(inner, TyAny, depth-2))
		}
		body = append(body, g.Expr(inner, Ty(g.un(0, 8, "ctorty")), depth-1))
		form = L(body...)
		g.xstat("deftype-general")
	}
	g.xstat("deftype")
	// a redefinition replaces the earlier entry of the same name
	x := g.Ext
	for i, o := range x.types {
		if o.qname == t.qname {
			x.types[i] = t
			return form
		}
	}
	x.types = append(x.types, t)
	return form
}

func (g *PG) extPickType(pred func(*extType) bool) *extType {
	var c []*extType
	for _, t := range g.Ext.types {
		if pred == nil || pred(t) {
			c = append(c, t)
		}
	}
	if len(c) == 0 {
		return nil
	}
	return c[g.un(0, len(c)-1, "type")]
}

// extNewOf builds (new T args...) for a given type.
func (g *PG) extNewOf(sc *scope, t *extType, depth int, args []Val) Val {
	if args == nil {
		// callArgs adds a wrong-arity call about one time in three (rapid's bias);
		// constructor calls get their own, rarer, arity faults
		ill := g.IllRate
		g.IllRate = -2
		args = g.callArgs(sc, t.sig, depth)
		g.IllRate = ill
		if g.chance(3, "new-arity") {
			g.xstat("new-wrong-arity")
			if len(args) > 0 && g.chance(50, "new-drop") {
				args = args[:len(args)-1]
			} else {
				args = append(args, g.smallInt())
			}
		}
	}
	g.xstat("new")
	var spec Val
	switch k := g.un(0, 39, "newspec"); {
	case k <= 24:
		spec = S(t.ref)
	case k <= 33:
		// a quoted symbol is looked up at package level
		spec = QS(t.ref)
		g.xstat("new-quoted-symbol")
	case k <= 35:
		spec = QS(t.qname)
		g.xstat("new-quoted-symbol")
	case k <= 38:
		// a local variable of the type's name hides the typedef from (new name ...)
		// but not from (new 'name ...)
		g.xstat("new-under-local-shadow")
		which := S(t.ref)
		if g.chance(50, "shadow-quoted") {
			which = QS(t.ref)
		}
		if t.ref != t.bare {
			return L(append([]Val{S("new"), S(t.ref)}, args...)...)
		}
		return L(S("let"), L(L(S(t.ref), g.smallInt())), L(append([]Val{S("new"), which}, args...)...))
	default:
		g.xstat("new-bad-specifier")
		spec = g.pickVal("badspec", []Val{QS("no-such-type"), I(5), Str(t.ref), S("car"), L(S("new"), S(t.ref)), QS(":kw")})
	}
	return L(append([]Val{S("new"), spec}, args...)...)
}

func (g *PG) extNew(sc *scope, depth int) (Val, *extType, bool) {
	t := g.extPickType(nil)
	if t == nil {
		return Val{}, nil, false
	}
	return g.extNewOf(sc, t, depth, nil), t, true
}

// extTypeSpec builds a type specifier for (type? spec v).
func (g *PG) extTypeSpec(t *extType) Val {
	switch k := g.un(0, 9, "tspec"); {
	case k <= 3:
		g.xstat("type?-typedef")
		return S(t.ref)
	case k <= 6:
		g.xstat("type?-qualified-symbol")
		return QS(t.qname)
	case k == 7:
		// "user types must be referenced with qualified names"
		g.xstat("type?-unqualified-symbol")
		return QS(t.bare)
	case k == 8:
		if o := g.extPickType(func(o *extType) bool { return o != t }); o != nil {
			g.xstat("type?-other-type")
			return S(o.ref)
		}
		return QS("lisp:typedef")
	default:
		g.xstat("type?-bad-specifier")
		return g.pickVal("badtspec", []Val{Str(t.qname), I(1), L(S("new"), S(t.ref)), L(), QS("tagged-value")})
	}
}

func (g *PG) extLang(sc *scope, ty Ty, depth int) (Val, bool) {
	// type-preserving wrappers first: they apply to every hole
	switch g.un(0, 9, "ext-wrap") {
	case 0:
		g.xstat("trace")
		e := g.Expr(sc, ty, depth-1)
		if g.chance(50, "trace-msg") {
			return L(S("trace"), e, Str(g.pickStr("tmsg", "TRACE", "m", "", "a b", "\"q\"", "é"))), true
		}
		if g.chance(2, "trace-arity") {
			g.xstat("trace-wrong-arity")
			return L(S("trace"), e, Str("m"), I(1)), true
		}
		return L(S("trace"), e), true
	case 1, 2:
		if t := g.extPickType(func(t *extType) bool { return t.identity }); t != nil {
			// (user-data (new box e)) is e
			g.xstat("user-data")
			g.xstat("box-round-trip")
			return Call("user-data", g.extNewOf(sc, t, depth, []Val{g.Expr(sc, ty, depth-1)})), true
		}
	}
	switch ty {
	case TyBool:
		switch g.un(0, 5, "ext-bool") {
		case 0, 1:
			obj, t, ok := g.extNew(sc, depth)
			if !ok {
				return Val{}, false
			}
			g.xstat("type?")
			return Call("type?", g.extTypeSpec(t), obj), true
		case 2:
			g.xstat("tagged-value?")
			switch g.un(0, 2, "tv-arg") {
			case 0:
				if obj, _, ok := g.extNew(sc, depth); ok {
					return Call("tagged-value?", obj), true
				}
			case 1:
				if t := g.extPickType(nil); t != nil {
					return Call("tagged-value?", S(t.ref)), true // a typedef is a tagged value too
				}
			}
			return Call("tagged-value?", g.args(sc, depth, TyAny)...), true
		case 3:
			obj, _, ok := g.extNew(sc, depth)
			if !ok {
				return Val{}, false
			}
			g.xstat("predicate-on-tagged-value")
			return Call(g.pickStr("tpred", "sorted-map?", "list?", "nil?", "true?", "not", "symbol?", "array?", "string?", "int?", "bytes?", "empty?"), obj), true
		case 4:
			// equal? on tagged values: same type and equal user data
			t := g.extPickType(func(t *extType) bool { return t.identity || t.rect })
			if t == nil {
				return Val{}, false
			}
			g.xstat("equal?-tagged")
			n := t.sig.req
			a := make([]Val, n)
			b := make([]Val, n)
			for i := range a {
				a[i] = g.smallInt()
				b[i] = a[i]
				if g.chance(25, "eq-differ") {
					b[i] = g.literal(TyAny)
				}
			}
			if g.chance(35, "eq-other-type") {
				// same user data, different type: never equal
				if c := g.extPickType(func(c *extType) bool { return c != t && c.identity == t.identity && c.rect == t.rect }); c != nil {
					return Call("equal?", g.extNewOf(sc, t, depth, a), g.extNewOf(sc, c, depth, b)), true
				}
				// no second type of that shape: define a twin on the spot (not
				// recorded, the form may never be evaluated)
				name := g.Prefix + "twin"
				def := L(S("deftype"), S(name), L(S("x")), S("x"))
				if t.rect {
					def = L(S("deftype"), S(name), L(S("h"), S("w")), Call("sorted-map", S(":h"), S("h"), S(":w"), S("w")))
				}
				g.xstat("deftype")
				return L(S("progn"), def, Call("equal?", g.extNewOf(sc, t, depth, a), L(append([]Val{S("new"), S(name)}, b...)...))), true
			}
			return Call("equal?", g.extNewOf(sc, t, depth, a), g.extNewOf(sc, t, depth, b)), true
		default:
			obj, t, ok := g.extNew(sc, depth)
			if !ok {
				return Val{}, false
			}
			g.xstat("type-of-tagged")
			return Call("symbol=", Call("type", obj), QS(g.pickStr("tysym", t.qname, t.qname, t.ref, "lisp:typedef", "tagged-value"))), true
		}
	case TySym:
		switch g.un(0, 4, "ext-sym") {
		case 0:
			if obj, _, ok := g.extNew(sc, depth); ok {
				g.xstat("type-of-tagged")
				return Call("type", obj), true
			}
		case 1:
			if t := g.extPickType(nil); t != nil {
				g.xstat("type-of-typedef")
				return Call("type", S(t.ref)), true
			}
		case 2:
			// deftype itself returns the qualified type symbol
			return g.extDeftype("user", false, depth), true
		}
		g.xstat("qualified-symbol")
		name := g.pickStr("qsname", "x", "foo", "car", "user:x", "lisp:car", "other:y", ":k", "true")
		switch g.un(0, 9, "qskind") {
		case 0:
			g.xstat("qualified-symbol-ill")
			return L(S("qualified-symbol"), g.pickVal("qsill", []Val{Str("x"), I(3), L(S("quote"), S("x")), L(), L(S("car"), S("x"))})), true
		case 1, 2, 3:
			return L(S("qualified-symbol"), QS(name)), true
		default:
			return L(S("qualified-symbol"), S(name)), true
		}
	case TyMap:
		t := g.extPickType(func(t *extType) bool { return t.rect })
		if t == nil {
			return Val{}, false
		}
		g.xstat("user-data")
		obj := g.extNewOf(sc, t, depth, []Val{g.Expr(sc, TyInt, depth-1), g.Expr(sc, TyInt, depth-1)})
		if g.chance(50, "ud-mutate") {
			// the user data is the very object the constructor returned, not a copy
			g.xstat("user-data-shared")
			return L(S("let"), L(L(S("obj"), obj)),
				Call("assoc!", Call("user-data", S("obj")), g.keyLit(), g.Expr(sc, TyInt, depth-1)),
				Call("user-data", S("obj"))), true
		}
		return Call("user-data", obj), true
	case TyStr:
		obj, _, ok := g.extNew(sc, depth)
		if !ok {
			return Val{}, false
		}
		g.xstat("format-tagged")
		if g.chance(30, "tostr-type") {
			return Call("to-string", Call("type", obj)), true
		}
		return Call("format-string", Str(g.pickStr("tfmt", "{}", "<{}>", "{} {}")), obj, g.Expr(sc, TyAny, depth-1)), true
	case TyInt:
		t := g.extPickType(func(t *extType) bool { return t.rect })
		if t == nil {
			return Val{}, false
		}
		g.xstat("user-data")
		obj := g.extNewOf(sc, t, depth, []Val{g.Expr(sc, TyInt, depth-1), g.Expr(sc, TyInt, depth-1)})
		return Call("get", Call("user-data", obj), S(g.pickStr("rkey", ":h", ":w"))), true
	case TyAny:
		switch g.un(0, 6, "ext-any") {
		case 0, 1:
			if obj, _, ok := g.extNew(sc, depth); ok {
				return obj, true
			}
		case 2:
			if obj, _, ok := g.extNew(sc, depth); ok {
				g.xstat("user-data")
				return Call("user-data", obj), true
			}
		case 3:
			if g.chance(25, "ud-nontagged") {
				g.xstat("user-data")
				g.xstat("user-data-of-non-tagged")
				return Call("user-data", g.args(sc, depth, TyAny)...), true
			}
			if obj, _, ok := g.extNew(sc, depth); ok {
				return obj, true
			}
		case 4:
			if t := g.extPickType(nil); t != nil {
				g.xstat("typedef-value")
				if g.chance(50, "td-ud") {
					return Call("user-data", S(t.ref)), true
				}
				return S(t.ref), true
			}
		case 5:
			// the constructor's result is not copied: a later mutation of the
			// value shows through the instance
			if t := g.extPickType(func(t *extType) bool { return t.identity }); t != nil {
				g.xstat("user-data-shared")
				return L(S("let*"), L(L(S("m"), g.literal(TyMap)), L(S("obj"), g.extNewOf(sc, t, depth, []Val{S("m")}))),
					Call("assoc!", S("m"), g.keyLit(), g.Expr(sc, TyInt, depth-1)),
					g.pickVal("shared-res", []Val{S("obj"), Call("user-data", S("obj"))})), true
			}
		default:
			if a, _, ok := g.extNew(sc, depth); ok {
				b, _, _ := g.extNew(sc, depth)
				g.xstat("list-of-tagged")
				return Call("list", a, b), true
			}
		}
	}
	return Val{}, false
}

// ---------- top-level forms ----------

var extConstNames = []string{"kc", "limit", "gx", "a", "n", "title"}

func (g *PG) extDocs() []Val {
	var docs []Val
	for i, n := 0, g.un(0, 2, "ndocs"); i < n; i++ {
		docs = append(docs, Str(g.pickStr("doc", "A constant.", "", "Second paragraph.", "x")))
	}
	if g.chance(2, "bad-doc") {
		g.xstat("docstring-not-a-string")
		docs = append(docs, I(7))
	}
	return docs
}

func (g *PG) extDefconst(sc *scope, depth int) Val {
	name := g.Prefix + g.pickStr("cname", extConstNames...)
	ty := Ty(g.un(1, 8, "cty"))
	init := g.Expr(sc, ty, depth-1)
	g.globals.vars = append(g.globals.vars, varInfo{name: name, ty: ty})
	g.xstat("defconst")
	return L(append([]Val{S("defconst"), S(name), init}, g.extDocs()...)...)
}

func (g *PG) extSetDoc(depth int) Val {
	name := g.Prefix + g.pickStr("cname", extConstNames...)
	ty := Ty(g.un(1, 8, "cty"))
	init := g.Expr(g.globals, ty, depth-1)
	g.globals.vars = append(g.globals.vars, varInfo{name: name, ty: ty})
	g.xstat("set-with-docstring")
	docs := g.extDocs()
	if len(docs) == 0 {
		docs = []Val{Str("doc")}
	}
	return L(append([]Val{S("set"), QS(name), init}, docs...)...)
}

// extPackageScenario: a second package defines an exported constant (defconst),
// an unexported variable and a type whose constructor uses both the package's
// private variable and qualified-symbol; the user package then reaches them by
// qualified name, through use-package, and through new.
func (g *PG) extPackageScenario(depth int) []Val {
	g.xstat("package-scenario")
	pk := g.pickStr("pkname", "pk", "geo")
	closed := &scope{}
	cname := g.pickStr("pkconst", "kc", "limit")
	tname := g.pickStr("pktype", "pt", "cell")
	forms := []Val{
		Call("in-package", QS(pk)),
		L(append([]Val{S("defconst"), S(cname), g.Expr(closed, TyInt, depth-2)}, g.extDocs()...)...),
		Call("set", QS("hid"), g.smallInt()),
	}
	g.xstat("defconst")
	ctor := g.pickVal("pkctor", []Val{
		Call("list", S("x"), S("hid")),
		Call("list", S("x"), L(S("qualified-symbol"), S("q"))),
		Call("+", S("x"), S("hid"), S(cname)),
		L(S("progn"), Call("set", QS("made"), S("x")), L(S("qualified-symbol"), S("made"))),
	})
	forms = append(forms, L(S("deftype"), S(tname), L(S("x")), ctor))
	g.xstat("deftype")
	exported := g.chance(50, "export-type")
	if exported {
		forms = append(forms, Call("export", QS(tname)))
	}
	forms = append(forms, Call("in-package", QS("user")))
	used := g.chance(60, "use-package")
	if used {
		forms = append(forms, Call("use-package", QS(pk)))
	}
	t := &extType{ref: pk + ":" + tname, bare: tname, qname: pk + ":" + tname, sig: &fnSig{name: tname, req: 1, ret: TyAny}}
	g.Ext.types = append(g.Ext.types, t)
	for i, n := 0, g.un(1, 3, "pkuses"); i < n; i++ {
		arg := g.Expr(g.globals, TyInt, depth-2)
		var u Val
		switch g.un(0, 9, "pkuse") {
		case 0:
			u = S(cname) // bound only after use-package
		case 1:
			u = S(pk + ":" + cname)
		case 2:
			u = S("hid") // never imported: not exported
		case 3:
			u = S(pk + ":hid")
		case 4:
			u = L(S("new"), S(tname), arg) // needs export + use-package
		case 5:
			u = L(S("new"), QS(tname), arg)
		case 6:
			u = Call("type", g.extNewOf(g.globals, t, depth, []Val{arg}))
		case 7:
			u = Call("type?", g.extTypeSpec(t), g.extNewOf(g.globals, t, depth, []Val{arg}))
		case 8:
			u = L(S("progn"), g.extNewOf(g.globals, t, depth, []Val{arg}), S(pk+":made"))
		default:
			u = g.extNewOf(g.globals, t, depth, []Val{arg})
		}
		forms = append(forms, g.probe(u))
	}
	return forms
}

// extDirect is a top-level form that is an extension production itself (so it
// is evaluated whenever the forms before it succeed), under a probe.
func (g *PG) extDirect(std bool, depth int) (Val, bool) {
	tys := []Ty{TyAny, TyBool, TySym, TyMap, TyStr, TyInt, TyAny, TyBool}
	if std {
		tys = []Ty{TyStr, TyStr, TyNum, TyNum, TyInt, TyBool, TyAny, TyStr, TyNum}
	}
	ty := tys[g.un(0, len(tys)-1, "direct-ty")]
	var v Val
	var ok bool
	if std {
		v, ok = g.extStd(g.globals, ty, depth)
	} else {
		v, ok = g.extLang(g.globals, ty, depth)
	}
	if !ok {
		return Val{}, false
	}
	return g.probe(v), true
}

// GenProgramExt draws a core-language program enriched with the extension
// productions.  lang/std are the per-hole diversion rates in percent.
func GenProgramExt(maxForms, budget, depth, lang, std int) *rapid.Generator[Program] {
	return rapid.Custom(func(t *rapid.T) Program {
		g := NewPG(t, budget)
		g.Ext = &Ext{Lang: lang, Std: std}
		n := rapid.IntRange(1, maxForms).Draw(t, "nforms")
		var forms []Val
		for i, k := 0, g.un(0, 2, "ntypes"); i < k; i++ {
			forms = append(forms, g.extDeftype("user", false, depth))
		}
		// structural forms are rarer when the standard library is the subject
		w := 1
		if std > lang {
			w = 3
		}
		for i := 0; i < n; i++ {
			k := g.un(0, 99, "ext-top")
			switch {
			case k < 9/w:
				forms = append(forms, g.extDeftype("user", false, depth))
				continue
			case k < 18/w:
				forms = append(forms, g.extDefconst(g.globals, depth))
				continue
			case k < 21/w:
				forms = append(forms, g.extSetDoc(depth))
				continue
			case k < 27/w:
				forms = append(forms, g.extPackageScenario(depth)...)
				continue
			case k < 60:
				if v, ok := g.extDirect(std > lang && k%4 != 0, depth); ok {
					forms = append(forms, v)
					continue
				}
			}
			forms = append(forms, g.TopForm(depth))
		}
		return Program{Forms: forms, Stats: g.Stats}
	})
}

// ---------- standard library: string, math, base64 ----------

var stdStrings = []string{"a,b,c", ",a,,b,", "", "abc", "aaa", "aaaa", "xAbC", "  pad  ", "\t\nab \n", "ÉcOLE ß", "a-b-c-", "hello world", "--x--", "日本語", "xyx", "Ünïcödé", "λΠ жЖ", "Straße"}
var stdSeps = []string{",", "", "-", "aa", ",,", "abc", " ", "b", "本"}
var stdCutsets = []string{"", "a", "ab", " ", "-x", "xy ", "é ", ",", "cba"}
var stdB64 = []string{"", "QQ==", "QUI=", "QUJD", "QQ=", "QQ", "Q===", "====", "QUJ*", "QQ==QQ==", " QQ==", "QUJDRA==", "/+8=", "_-8=", "aGVsbG8gd29ybGQ=", "QUJD\n", "QR==", "QUJ=", "A", "AAAA", "=QQQ"}

func (g *PG) sstat(s string) { g.Stats["s/"+s]++ }

func (g *PG) stdStr(sc *scope, depth int) Val {
	if g.chance(35, "std-str-expr") {
		return g.Expr(sc, TyStr, depth-1)
	}
	return Str(g.pickStr("stdstr", stdStrings...))
}

func (g *PG) stdSplit(sc *scope, depth int) (Val, Val) {
	g.sstat("string:split")
	sep := Str(g.pickStr("sep", stdSeps...))
	a := []Val{g.stdStr(sc, depth), sep}
	if g.chance(g.IllRate, "split-ill") {
		a = g.args(sc, depth, TyStr, TyAny)
	}
	return Call("string:split", a...), sep
}

func (g *PG) stdNum(sc *scope, depth int) Val {
	switch g.un(0, 5, "std-num") {
	case 0:
		return S(g.pickStr("mconst", "math:pi", "math:inf", "math:-inf"))
	case 1:
		return F(float64(g.un(-9, 9, "quarters")) / 4)
	case 2:
		// NaN
		return Call("-", S("math:inf"), S("math:inf"))
	default:
		return g.Expr(sc, TyNum, depth-1)
	}
}

func (g *PG) extStd(sc *scope, ty Ty, depth int) (Val, bool) {
	switch ty {
	case TyStr:
		switch g.un(0, 9, "std-str") {
		case 0:
			g.sstat("string:lowercase")
			return Call("string:"+g.pickStr("case", "lowercase", "uppercase"), g.args(sc, depth, TyStr)[0:]...), true
		case 1:
			g.sstat("string:lowercase")
			return Call("string:"+g.pickStr("case", "lowercase", "uppercase"), g.stdStr(sc, depth)), true
		case 2:
			sp, sep := g.stdSplit(sc, depth)
			g.sstat("string:join")
			if g.chance(30, "other-sep") {
				sep = Str(g.pickStr("sep", stdSeps...))
			}
			return Call("string:join", sp, sep), true
		case 3:
			g.sstat("string:join")
			n := g.un(0, 4, "njoin")
			items := make([]Val, n)
			for i := range items {
				items[i] = g.stdStr(sc, depth)
				if g.chance(4, "join-nonstring") {
					items[i] = I(1)
				}
			}
			lst := Call("list", items...)
			if g.chance(10, "join-vector") {
				lst = Call("vector", items...)
			}
			return Call("string:join", lst, Str(g.pickStr("sep", stdSeps...))), true
		case 4:
			g.sstat("string:repeat")
			return Call("string:repeat", g.stdStr(sc, depth), I(int64(g.un(-1, 4, "nrep")))), true
		case 5:
			g.sstat("string:repeat")
			return Call("string:repeat", g.args(sc, depth, TyStr, TyInt)...), true
		case 6:
			g.sstat("string:trim-space")
			return Call("string:trim-space", g.stdStr(sc, depth)), true
		case 7, 8:
			op := g.pickStr("trimop", "trim", "trim-left", "trim-right")
			g.sstat("string:" + op)
			if g.chance(g.IllRate, "trim-ill") {
				return Call("string:"+op, g.args(sc, depth, TyStr, TyStr)...), true
			}
			cut := g.pickStr("cutset", stdCutsets...)
			if cut != "" && g.chance(60, "trim-padded") {
				// cutset characters at both ends by construction: the three
				// functions differ exactly here
				rs := []rune(cut)
				pad := func(label string) string {
					out := ""
					for i, k := 0, g.un(0, 3, label); i < k; i++ {
						out += string(rs[g.un(0, len(rs)-1, label)])
					}
					return out
				}
				core := g.pickStr("trim-core", "core", "", "m", "é-é", "q q")
				return Call("string:"+op, Str(pad("lpad")+core+pad("rpad")), Str(cut)), true
			}
			return Call("string:"+op, g.stdStr(sc, depth), Str(cut)), true
		default:
			g.sstat("base64:encode")
			enc := Call("base64:encode", g.stdStr(sc, depth))
			if g.chance(50, "b64-roundtrip") {
				g.sstat("base64:decode")
				return Call("to-string", Call("base64:decode", enc)), true
			}
			return Call("to-string", enc), true
		}
	case TyInt:
		switch g.un(0, 3, "std-int") {
		case 0:
			sp, _ := g.stdSplit(sc, depth)
			return Call("length", sp), true
		case 1:
			// int in, int out
			op := g.pickStr("mintop", "abs", "floor", "ceil")
			g.sstat("math:" + op)
			if g.chance(30, "math-boundary-int") {
				// the smallest int has no absolute value: documented as an error
				return Call("math:"+op, I([]int64{-9223372036854775808, -9223372036854775807, 9223372036854775807, -1, 0, 9007199254740993}[g.un(0, 5, "bint")])), true
			}
			return Call("math:"+op, g.args(sc, depth, TyInt)...), true
		case 2:
			g.sstat("base64:encode")
			return Call("length", Call("base64:encode", g.stdStr(sc, depth))), true
		default:
			g.sstat("math:floor")
			// rounding then converting: floor(-1.25) is -2, ceil is -1, to-int alone truncates
			num := F(float64(g.un(-17, 17, "quarters")) / 4)
			if g.chance(40, "round-quotient") {
				num = Call("/", g.smallInt(), I(int64(g.un(1, 7, "den"))), F(1))
			}
			return Call("to-int", Call("math:"+g.pickStr("round", "floor", "ceil"), num)), true
		}
	case TyNum:
		switch g.un(0, 9, "std-num-op") {
		case 0, 1, 2:
			op := g.pickStr("mop", "abs", "floor", "ceil")
			g.sstat("math:" + op)
			return Call("math:"+op, g.stdNum(sc, depth)), true
		case 3:
			g.sstat("math:sqrt")
			return Call("math:sqrt", g.stdNum(sc, depth)), true
		case 4, 8:
			op := g.pickStr("mreal", "exp", "ln", "sin", "cos", "tan")
			g.sstat("math:real-function")
			return Call("math:"+op, g.stdNum(sc, depth)), true
		case 5:
			g.sstat("math:log")
			return Call("math:log", g.args(sc, depth, TyNum, TyNum)...), true
		case 6:
			g.sstat("math:atan")
			if g.chance(50, "atan2") {
				return Call("math:atan", g.stdNum(sc, depth), g.stdNum(sc, depth)), true
			}
			return Call("math:atan", g.args(sc, depth, TyNum)...), true
		case 7:
			g.sstat("math:constant")
			return g.stdNum(sc, depth), true
		default:
			op := g.pickStr("mop", "abs", "floor", "ceil", "sqrt")
			g.sstat("math:" + op)
			return Call("math:"+op, g.args(sc, depth, TyNum)...), true
		}
	case TyBool:
		switch g.un(0, 3, "std-bool") {
		case 0:
			g.sstat("math:nan?")
			return Call("math:nan?", g.stdNum(sc, depth)), true
		case 1:
			g.sstat("math:nan?")
			return Call("math:nan?", g.args(sc, depth, TyAny)...), true
		case 2:
			// the numeric type of a rounding result
			op := g.pickStr("mop", "abs", "floor", "ceil")
			g.sstat("math:" + op)
			return Call(g.pickStr("numpred", "int?", "float?"), Call("math:"+op, g.stdNum(sc, depth))), true
		default:
			g.sstat("string:join")
			sp, sep := g.stdSplit(sc, depth)
			return Call("string=", Call("string:join", sp, sep), g.stdStr(sc, depth)), true
		}
	case TyAny, TyList:
		switch g.un(0, 4, "std-any") {
		case 0, 1:
			sp, _ := g.stdSplit(sc, depth)
			if ty == TyList {
				// a list of strings where a list of ints is expected: lengths
				return Call("map", QS("list"), S("length"), sp), true
			}
			return sp, true
		case 2:
			if ty == TyList {
				return Val{}, false
			}
			g.sstat("base64:encode")
			arg := g.stdStr(sc, depth)
			if g.chance(30, "b64-bytes") {
				arg = Call("to-bytes", arg)
			}
			if g.chance(g.IllRate, "b64-ill") {
				arg = g.Expr(sc, TyAny, depth-1)
			}
			return Call("base64:encode", arg), true
		default:
			if ty == TyList {
				return Val{}, false
			}
			g.sstat("base64:decode")
			arg := Str(g.pickStr("b64", stdB64...))
			switch g.un(0, 5, "b64-arg") {
			case 0:
				arg = Call("to-bytes", arg)
			case 1:
				arg = Call("base64:encode", g.stdStr(sc, depth))
			case 2:
				if g.chance(g.IllRate*3, "b64-ill") {
					arg = g.Expr(sc, TyAny, depth-1)
				}
			}
			return Call("base64:decode", arg), true
		}
	}
	return Val{}, false
}
