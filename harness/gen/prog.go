package gen

import (
	"math"
	"strconv"
	"strings"

	"pgregory.net/rapid"
)

// ---------- AST helpers ----------

func S(name string) Val        { return Val{K: "sym", B: []byte(name)} }
func QS(name string) Val       { return Val{K: "sym", B: []byte(name), Q: 1} }
func I(i int64) Val            { return Val{K: "int", I: i} }
func F(f float64) Val          { return Val{K: "float", FB: math.Float64bits(f)} }
func Str(s string) Val         { return Val{K: "str", B: []byte(s)} }
func L(items ...Val) Val       { return Val{K: "list", L: items} }
func QL(items ...Val) Val      { return Val{K: "list", L: items, Q: 1} }
func Call(fn string, a ...Val) Val {
	return Val{K: "list", L: append([]Val{S(fn)}, a...)}
}

// Render writes an AST node as source text the reader accepts; it is the
// generator's own printer (never LVal.String()).
func Render(v Val) string {
	var b strings.Builder
	render(&b, v)
	return b.String()
}

func RenderProgram(forms []Val) string {
	var b strings.Builder
	for _, f := range forms {
		render(&b, f)
		b.WriteByte('\n')
	}
	return b.String()
}

func FloatLit(f float64) string {
	s := strconv.FormatFloat(f, 'g', -1, 64)
	if !strings.ContainsAny(s, ".e") {
		s += ".0"
	}
	return s
}

func render(b *strings.Builder, v Val) {
	for i := 0; i < v.Q; i++ {
		b.WriteByte('\'')
	}
	switch v.K {
	case "int":
		b.WriteString(strconv.FormatInt(v.I, 10))
	case "float":
		b.WriteString(FloatLit(v.Float()))
	case "str":
		b.WriteString(strconv.Quote(string(v.B)))
	case "sym":
		b.Write(v.B)
	case "list":
		b.WriteByte('(')
		for i, c := range v.L {
			if i > 0 {
				b.WriteByte(' ')
			}
			render(b, c)
		}
		b.WriteByte(')')
	}
}

// ---------- typed-hole program generator ----------

type Ty int

const (
	TyAny Ty = iota
	TyInt
	TyNum
	TyStr
	TyBool
	TyList // list of ints
	TySym
	TyMap
	TyVec
)

type fnSig struct {
	name string
	req  int
	opt  int
	rest bool
	keys []string
	ret  Ty
}

type varInfo struct {
	name string
	ty   Ty
	fn   *fnSig // non-nil when bound to a function
}

type scope struct {
	vars   []varInfo
	parent *scope
}

func (s *scope) all() []varInfo {
	var out []varInfo
	seen := map[string]bool{}
	for c := s; c != nil; c = c.parent {
		for i := len(c.vars) - 1; i >= 0; i-- {
			v := c.vars[i]
			if !seen[v.name] {
				seen[v.name] = true
				out = append(out, v)
			}
		}
	}
	return out
}

// PG is the program generator state for one program.
type PG struct {
	t       *rapid.T
	budget  int
	probeID int
	Stats   map[string]int
	globals *scope
	// IllRate is the per-call probability (in %) of a deliberately ill-typed or
	// wrong-arity call.
	IllRate int
	NoProbe bool
	// Extra enables forms outside the reference interpreter's grammar
	// (condition handling, empty loops): used by checks that need no reference.
	Extra bool
	// Prefix is prepended to every global name the program defines.
	Prefix string
	names  []string
	// Ext, when non-nil, switches on the productions of ext.go (user-defined
	// types, defconst, trace, standard-library calls).  nil draws nothing.
	Ext *Ext
}

var varNames = []string{"a", "b", "c", "x", "y", "z", "n", "m", "acc", "f", "g", "h", "k", "lst", "v", "w"}

func NewPG(t *rapid.T, budget int) *PG {
	return &PG{t: t, budget: budget, Stats: map[string]int{}, globals: &scope{}, IllRate: 6, names: varNames}
}

func (g *PG) n(lo, hi int, label string) int { return rapid.IntRange(lo, hi).Draw(g.t, label) }
func (g *PG) pct(p int, label string) bool   { return rapid.IntRange(0, 99).Draw(g.t, label) < p }
func (g *PG) stat(s string)                  { g.Stats[s]++ }

func (g *PG) freshName() string {
	return rapid.SampledFrom(g.names).Draw(g.t, "name")
}

// bindName draws a name for a new binding, biased (50%) towards a name that is
// already bound in an enclosing scope or globally, so shadowing is common.
func (g *PG) bindName(sc *scope) string {
	if sc != nil && g.pct(50, "shadow-name") {
		var cands []string
		for _, v := range sc.all() {
			if v.fn == nil {
				cands = append(cands, v.name)
			}
		}
		if len(cands) > 0 {
			return cands[g.n(0, len(cands)-1, "shadowed")]
		}
	}
	return g.freshName()
}

func (g *PG) smallInt() Val {
	switch g.n(0, 9, "intk") {
	case 0:
		return I(GenInt().Draw(g.t, "bigint"))
	default:
		return I(int64(g.n(-3, 12, "smallint")))
	}
}

func (g *PG) numLit() Val {
	switch g.n(0, 5, "numk") {
	case 0:
		f := GenFiniteFloat().Draw(g.t, "float")
		return F(f)
	case 1:
		return F(float64(g.n(-4, 8, "halfs")) / 2)
	default:
		return g.smallInt()
	}
}

func (g *PG) strLit() Val {
	if g.pct(15, "hostile-str") {
		return Str(GenBytesString().Draw(g.t, "str"))
	}
	return Str(rapid.SampledFrom([]string{"", "a", "b", "ab", "abc", "hello", "x y", "10", "-3", "1.5", "zz"}).Draw(g.t, "str"))
}

func (g *PG) listLit(depth int) Val {
	n := g.n(0, 4, "listlen")
	items := make([]Val, n)
	for i := range items {
		if depth > 0 && g.pct(15, "nested") {
			items[i] = g.listLit(depth - 1)
			items[i].Q = 0
		} else if g.pct(10, "symelem") {
			items[i] = S(rapid.SampledFrom([]string{"p", "q", "r"}).Draw(g.t, "sym"))
		} else {
			items[i] = g.smallInt()
		}
	}
	return QL(items...)
}

func (g *PG) intListLit() Val {
	n := g.n(0, 5, "listlen")
	items := make([]Val, n)
	for i := range items {
		items[i] = I(int64(g.n(-3, 9, "e")))
	}
	return QL(items...)
}

func (g *PG) literal(ty Ty) Val {
	switch ty {
	case TyInt:
		return g.smallInt()
	case TyNum:
		return g.numLit()
	case TyStr:
		return g.strLit()
	case TyBool:
		return S(rapid.SampledFrom([]string{"true", "false"}).Draw(g.t, "bool"))
	case TyList:
		return g.intListLit()
	case TySym:
		return QS(rapid.SampledFrom([]string{"p", "q", "r", "foo"}).Draw(g.t, "qsym"))
	case TyMap:
		n := g.n(0, 3, "mapn")
		args := []Val{}
		for i := 0; i < n; i++ {
			k := rapid.SampledFrom([]string{"a", "b", "c", "k"}).Draw(g.t, "key")
			if g.pct(50, "symkey") {
				args = append(args, QS(k))
			} else {
				args = append(args, Str(k))
			}
			args = append(args, g.smallInt())
		}
		return Call("sorted-map", args...)
	case TyVec:
		n := g.n(0, 4, "vecn")
		args := make([]Val, n)
		for i := range args {
			args[i] = g.smallInt()
		}
		return Call("vector", args...)
	default:
		switch g.n(0, 7, "anylit") {
		case 0:
			return L() // ()
		case 1:
			return g.strLit()
		case 2:
			return g.listLit(2)
		case 3:
			return g.literal(TyBool)
		case 4:
			return g.literal(TySym)
		case 5:
			return S(":" + rapid.SampledFrom([]string{"k", "x", "a"}).Draw(g.t, "kw"))
		default:
			return g.numLit()
		}
	}
}

func compatible(want, have Ty) bool {
	if want == TyAny || want == have {
		return true
	}
	if want == TyNum && have == TyInt {
		return true
	}
	return false
}

func (g *PG) varOf(sc *scope, ty Ty) (Val, bool) {
	var cands []varInfo
	for _, v := range sc.all() {
		if v.fn == nil && compatible(ty, v.ty) {
			cands = append(cands, v)
		}
	}
	if len(cands) == 0 {
		return Val{}, false
	}
	v := cands[g.n(0, len(cands)-1, "var")]
	g.stat("var-ref")
	return S(v.name), true
}

func (g *PG) probe(v Val) Val {
	if g.NoProbe {
		return v
	}
	g.probeID++
	g.stat("probe")
	return Call("probe", I(int64(g.probeID)), v)
}

// Expr generates an expression expected to produce a value of type ty.
func (g *PG) Expr(sc *scope, ty Ty, depth int) Val {
	g.budget--
	if depth <= 0 || g.budget <= 0 {
		if v, ok := g.varOf(sc, ty); ok && g.pct(60, "leafvar") {
			return v
		}
		return g.literal(ty)
	}
	if g.Ext != nil {
		if v, ok := g.extHook(sc, ty, depth); ok {
			return v
		}
	}
	if g.pct(12, "probe") {
		return g.probe(g.Expr(sc, ty, depth-1))
	}
	// a deliberately wrong type now and then
	if g.pct(g.IllRate, "illtyped") {
		g.stat("ill-typed")
		other := Ty(g.n(0, 8, "othertype"))
		return g.Expr(sc, other, depth-1)
	}
	if g.Extra && g.pct(8, "extra") {
		switch g.n(0, 3, "extraform") {
		case 0:
			g.stat("ignore-errors")
			return L(S("ignore-errors"), g.Expr(sc, TyAny, depth-1), g.Expr(sc, ty, depth-1))
		case 1:
			g.stat("handler-bind")
			h := L(S("lambda"), L(S("c"), S("&rest"), S("d")), g.probe(S("c")))
			return L(S("handler-bind"), L(L(S("condition"), h)), g.Expr(sc, ty, depth-1))
		case 2:
			g.stat("empty-dotimes")
			return L(S("progn"), L(S("dotimes"), L(S("i"), I(int64(g.n(0, 30, "emptycount"))))), g.Expr(sc, ty, depth-1))
		default:
			g.stat("error-form")
			return L(S("progn"), g.Expr(sc, TyAny, depth-1), L(S("error"), QS("boom"), g.Expr(sc, TyAny, depth-1)))
		}
	}
	if g.pct(4, "misc") {
		switch g.n(0, 3, "miscform") {
		case 0:
			g.stat("assert")
			a := []Val{S("assert"), g.Expr(sc, TyBool, depth-1)}
			if g.pct(50, "assertmsg") {
				a = append(a, Str(rapid.SampledFrom([]string{"failed {}", "no placeholder", "{} {}"}).Draw(g.t, "amsg")), g.Expr(sc, TyAny, depth-2))
			}
			return L(S("progn"), L(a...), g.Expr(sc, ty, depth-1))
		case 1:
			g.stat("eval")
			return Call("eval", L(S("quote"), g.Expr(sc, ty, depth-1)))
		case 2:
			g.stat("function")
			name := rapid.SampledFrom([]string{"+", "list", "max", "no-such-function", "x"}).Draw(g.t, "fname")
			if name == "x" {
				name = g.Prefix + name
			}
			return Call("funcall", L(S("function"), S(name)), g.Expr(sc, TyInt, depth-1), g.Expr(sc, TyInt, depth-1))
		default:
			g.stat("type?")
			tn := rapid.SampledFrom([]string{"int", "float", "string", "symbol", "list", "sorted-map", "array", "function", "bytes", "bogus"}).Draw(g.t, "tname")
			return L(S("if"), Call("type?", QS(tn), g.Expr(sc, TyAny, depth-1)), g.Expr(sc, ty, depth-1), g.Expr(sc, ty, depth-1))
		}
	}
	switch g.n(0, 19, "form") {
	case 0, 1:
		if v, ok := g.varOf(sc, ty); ok {
			return v
		}
		return g.literal(ty)
	case 2:
		return g.literal(ty)
	case 3, 4, 5, 6:
		return g.builtinCall(sc, ty, depth)
	case 7:
		return g.letForm(sc, ty, depth)
	case 8:
		return g.ifForm(sc, ty, depth)
	case 9:
		return g.condForm(sc, ty, depth)
	case 10:
		return g.lambdaCall(sc, ty, depth)
	case 11:
		return g.fletForm(sc, ty, depth)
	case 12:
		return g.userCall(sc, ty, depth)
	case 13:
		return g.setForm(sc, ty, depth)
	case 14:
		return g.andOr(sc, ty, depth)
	case 15:
		return g.loopForm(sc, ty, depth)
	case 16:
		return g.higherOrder(sc, ty, depth)
	case 17:
		return g.closureForm(sc, ty, depth)
	case 18:
		return g.threadForm(sc, ty, depth)
	default:
		n := g.n(1, 3, "progn")
		forms := []Val{S("progn")}
		for i := 0; i < n-1; i++ {
			forms = append(forms, g.Expr(sc, TyAny, depth-1))
		}
		forms = append(forms, g.Expr(sc, ty, depth-1))
		g.stat("progn")
		return L(forms...)
	}
}

func (g *PG) args(sc *scope, depth int, tys ...Ty) []Val {
	out := make([]Val, len(tys))
	for i, t := range tys {
		out[i] = g.Expr(sc, t, depth-1)
	}
	// wrong arity sometimes
	if g.pct(g.IllRate/2+1, "wrong-arity") {
		g.stat("wrong-arity")
		if len(out) > 0 && g.pct(50, "drop") {
			out = out[:len(out)-1]
		} else {
			out = append(out, g.Expr(sc, TyAny, depth-1))
		}
	}
	return out
}

func (g *PG) builtinCall(sc *scope, ty Ty, depth int) Val {
	g.stat("builtin-call")
	pick := func(opts ...string) string { return rapid.SampledFrom(opts).Draw(g.t, "builtin") }
	nums := func(min, max int, t Ty) []Ty {
		n := g.n(min, max, "nargs")
		out := make([]Ty, n)
		for i := range out {
			out[i] = t
		}
		return out
	}
	switch ty {
	case TyInt:
		switch op := pick("+", "-", "*", "mod", "length", "length2", "max", "min", "pow", "to-int", "nth", "car", "foldl", "/"); op {
		case "+", "-", "*", "max", "min":
			lo := 0
			if op == "max" || op == "min" {
				lo = 1
			}
			return Call(op, g.args(sc, depth, nums(lo, 4, TyInt)...)...)
		case "/":
			return Call("/", g.args(sc, depth, nums(0, 3, TyInt)...)...)
		case "mod":
			return Call("mod", g.args(sc, depth, TyInt, TyInt)...)
		case "pow":
			return Call("pow", g.Expr(sc, TyInt, depth-1), I(int64(g.n(-1, 5, "exp"))))
		case "length":
			return Call("length", g.args(sc, depth, TyList)...)
		case "length2":
			return Call("length", g.args(sc, depth, Ty(rapid.SampledFrom([]Ty{TyStr, TyMap, TyVec, TyAny}).Draw(g.t, "lenarg")))...)
		case "to-int":
			return Call("to-int", g.args(sc, depth, Ty(rapid.SampledFrom([]Ty{TyStr, TyNum, TyInt}).Draw(g.t, "toint")))...)
		case "nth":
			if g.pct(60, "nth-in-range") {
				lit := g.intListLit()
				return Call("nth", lit, I(int64(g.n(0, len(lit.L), "idx"))))
			}
			return Call("nth", g.args(sc, depth, TyList, TyInt)...)
		case "car":
			return Call(pick("car", "first", "second"), g.args(sc, depth, TyList)...)
		default:
			return Call("foldl", S(pick("+", "*", "-", "max")), g.Expr(sc, TyInt, depth-1), g.Expr(sc, TyList, depth-1))
		}
	case TyNum:
		if g.pct(12, "bigmixed") {
			// integers near the 64-bit and 2^53 boundaries in a sum that also
			// holds a float: every operand is converted before anything is
			// added, so integer wrap-around can never be part of the result
			g.stat("big-mixed-sum")
			bigs := []int64{9223372036854775807, 9223372036854775806, -9223372036854775808, -9223372036854775807, 9007199254740993, 9007199254740992, 4611686018427387904, 1, -1, 2}
			n := g.n(2, 4, "nbig")
			args := make([]Val, 0, n+1)
			for i := 0; i < n; i++ {
				args = append(args, I(rapid.SampledFrom(bigs).Draw(g.t, "big")))
			}
			fl := F(rapid.SampledFrom([]float64{0.5, 0, -1.5, 1e3}).Draw(g.t, "bigf"))
			at := g.n(0, len(args), "fpos")
			args = append(args[:at:at], append([]Val{fl}, args[at:]...)...)
			return Call(pick("+", "+", "-", "max", "min"), args...)
		}
		switch op := pick("+", "-", "*", "/", "pow", "to-float", "max", "min"); op {
		case "pow":
			return Call("pow", g.args(sc, depth, TyNum, TyNum)...)
		case "to-float":
			return Call("to-float", g.args(sc, depth, Ty(rapid.SampledFrom([]Ty{TyStr, TyNum}).Draw(g.t, "tofloat")))...)
		case "max", "min":
			return Call(op, g.args(sc, depth, nums(1, 3, TyNum)...)...)
		default:
			return Call(op, g.args(sc, depth, nums(0, 4, TyNum)...)...)
		}
	case TyStr:
		switch op := pick("to-string", "concat", "format", "slice", "format-string", "format-string"); op {
		case "format-string":
			g.stat("format-string")
			f := pick("{}", "{} and {}", "{0}{1}{0}", "{{x}} {}", "{1}", "{} {0}", "a}b", "{", "{a}", "{ } / {  }", "{ 1 }-{0}", "no braces", "}}{{", "{-1}", "{}{}{}")
			n := g.n(0, 3, "nvals")
			args := []Val{Str(f)}
			for i := 0; i < n; i++ {
				args = append(args, g.Expr(sc, Ty(g.n(0, 8, "fmtty")), depth-1))
			}
			return Call("format-string", args...)
		case "to-string":
			return Call("to-string", g.args(sc, depth, Ty(rapid.SampledFrom([]Ty{TyNum, TyStr, TySym, TyInt}).Draw(g.t, "tostr")))...)
		case "concat":
			return Call("concat", append([]Val{QS("string")}, g.args(sc, depth, nums(0, 3, TyStr)...)...)...)
		case "slice":
			return Call("slice", QS("string"), g.Expr(sc, TyStr, depth-1), I(int64(g.n(0, 2, "i"))), I(int64(g.n(0, 3, "j"))))
		default:
			return Call("to-string", g.args(sc, depth, TyInt)...)
		}
	case TyBool:
		switch op := pick("<", "<=", ">", ">=", "=", "not", "nil?", "equal?", "pred", "string<", "key?", "empty?", "all?", "true?"); op {
		case "<", "<=", ">", ">=", "=":
			return Call(op, g.args(sc, depth, TyNum, TyNum)...)
		case "not", "true?", "nil?":
			return Call(op, g.args(sc, depth, TyAny)...)
		case "equal?":
			if g.pct(25, "eqsame") {
				// one and the same object on both sides: equality is structural,
				// not identity -- NaN, bytes and functions are not equal to themselves
				g.stat("equal-same-object")
				v := rapid.SampledFrom([]Val{
					L(S("-"), L(S("*"), F(1e308), I(10)), L(S("*"), F(1e308), I(10))),
					Call("to-bytes", Str("ab")),
					L(S("lambda"), L(S("x")), S("x")),
					S("car"),
					Call("list", I(1), Call("to-bytes", Str("a"))),
					Call("list", I(1), L(S("-"), L(S("*"), F(1e308), I(10)), L(S("*"), F(1e308), I(10)))),
					Call("list", I(1), I(2)),
					Call("sorted-map", Str("a"), I(1)),
				}).Draw(g.t, "samev")
				return L(S("let"), L(L(S("same"), v)), Call("equal?", S("same"), S("same")))
			}
			t := Ty(g.n(0, 8, "eqty"))
			return Call("equal?", g.args(sc, depth, t, t)...)
		case "pred":
			return Call(pick("list?", "int?", "float?", "number?", "string?", "symbol?", "bool?", "sorted-map?", "vector?", "array?", "bytes?"), g.args(sc, depth, TyAny)...)
		case "string<":
			if g.pct(25, "symboleq") {
				return Call("symbol=", g.args(sc, depth, TySym, TySym)...)
			}
			return Call(pick("string<", "string=", "string>=", "string>", "string<="), g.args(sc, depth, TyStr, TyStr)...)
		case "key?":
			return Call("key?", g.Expr(sc, TyMap, depth-1), g.keyLit())
		case "empty?":
			return Call("empty?", g.args(sc, depth, Ty(rapid.SampledFrom([]Ty{TyList, TyStr, TyMap, TyVec}).Draw(g.t, "emptyarg")))...)
		default:
			if g.pct(35, "valuepred") {
				// any? answers the first truthy RESULT of the predicate (not a
				// boolean): predicates that return data
				g.stat("any-value-predicate")
				pred := rapid.SampledFrom([]Val{
					S("identity"),
					L(S("lambda"), L(S("e")), L(S("if"), L(S(">"), S("e"), I(1)), L(S("list"), S("e")), L())),
					L(S("lambda"), L(S("e")), L(S("if"), L(S("="), I(0), L(S("mod"), S("e"), I(2))), L(S("*"), S("e"), I(10)), S("false"))),
					L(S("lambda"), L(S("e")), L(S("and"), L(S(">"), S("e"), I(0)), Str("hit"))),
				}).Draw(g.t, "vpred")
				return Call(pick("any?", "any?", "all?"), pred, g.Expr(sc, TyList, depth-1))
			}
			return Call(pick("all?", "any?"), g.predFn(sc, depth), g.Expr(sc, TyList, depth-1))
		}
	case TyList:
		switch op := pick("list", "cons", "cdr", "rest", "reverse", "append", "concat", "map", "select", "make-sequence", "slice", "keys", "zip", "foldr", "stable-sort", "insert-sorted", "insert-index", "sort-nested"); op {
		case "stable-sort":
			g.stat("sort")
			less := rapid.SampledFrom([]Val{S("<"), S(">"), QS("<"), L(S("lambda"), L(S("a"), S("b")), L(S("<"), S("a"), S("b")))}).Draw(g.t, "less")
			if g.pct(25, "longsort") {
				// stability only shows on inputs long enough to leave the
				// small-input path of the sorting routine, with many ties
				g.stat("sort-long-with-ties")
				n := g.n(13, 40, "longn")
				items := make([]Val, n)
				for i := range items {
					items[i] = I(int64(g.n(0, 29, "longv")))
				}
				k := int64(g.n(2, 4, "buckets"))
				if g.pct(50, "long-keyfun") {
					return Call("stable-sort", less, QL(items...), L(S("lambda"), L(S("e")), L(S("mod"), S("e"), I(k))))
				}
				return Call("stable-sort", L(S("lambda"), L(S("a"), S("b")), L(S("<"), L(S("mod"), S("a"), I(k)), L(S("mod"), S("b"), I(k)))), QL(items...))
			}
			if g.pct(30, "keyfun") {
				return Call("stable-sort", less, g.Expr(sc, TyList, depth-1), rapid.SampledFrom([]Val{S("-"), S("identity")}).Draw(g.t, "keyfun"))
			}
			return Call("stable-sort", less, g.Expr(sc, TyList, depth-1))
		case "insert-sorted":
			g.stat("sort")
			return Call("insert-sorted", QS("list"), Call("stable-sort", S("<"), g.Expr(sc, TyList, depth-1)), S("<"), g.Expr(sc, TyInt, depth-1))
		case "insert-index":
			return Call("insert-index", QS("list"), g.Expr(sc, TyList, depth-1), I(int64(g.n(0, 3, "idx"))), g.Expr(sc, TyInt, depth-1))
		case "sort-nested":
			// sort a list of lists / symbols by a key: elements are values that
			// are not self-evaluating as program text
			g.stat("sort")
			g.stat("sort-nested")
			n := g.n(0, 3, "nn")
			items := make([]Val, n)
			for i := range items {
				items[i] = g.intListLit()
				items[i].Q = 0
			}
			lit := QL(items...)
			if g.pct(50, "via-list") {
				args := make([]Val, n)
				for i := range items {
					args[i] = items[i]
					args[i].Q = 1
				}
				lit = Call("list", args...)
			}
			if g.pct(50, "keyfun") {
				return Call("map", QS("list"), S("length"), Call("stable-sort", S("<"), lit, S("length")))
			}
			return Call("map", QS("list"), S("length"), Call("stable-sort", L(S("lambda"), L(S("a"), S("b")), L(S("<"), L(S("length"), S("a")), L(S("length"), S("b")))), lit))
		case "list":
			return Call("list", g.args(sc, depth, nums(0, 4, TyInt)...)...)
		case "cons":
			return Call("cons", g.args(sc, depth, TyInt, TyList)...)
		case "cdr", "rest":
			return Call(op, g.args(sc, depth, TyList)...)
		case "reverse":
			return Call("reverse", append([]Val{QS("list")}, g.args(sc, depth, Ty(rapid.SampledFrom([]Ty{TyList, TyVec}).Draw(g.t, "revarg")))...)...)
		case "append":
			return Call("append", append([]Val{QS("list")}, g.args(sc, depth, TyList, TyInt)...)...)
		case "concat":
			return Call("concat", append([]Val{QS("list")}, g.args(sc, depth, nums(0, 3, TyList)...)...)...)
		case "map":
			return Call("map", QS("list"), g.mapFn(sc, depth), g.Expr(sc, TyList, depth-1))
		case "select":
			return Call(pick("select", "reject"), QS("list"), g.predFn(sc, depth), g.Expr(sc, TyList, depth-1))
		case "make-sequence":
			return Call("make-sequence", I(int64(g.n(-2, 3, "start"))), I(int64(g.n(-2, 6, "stop"))))
		case "slice":
			return Call("slice", QS("list"), g.Expr(sc, TyList, depth-1), I(int64(g.n(0, 2, "i"))), I(int64(g.n(0, 3, "j"))))
		case "keys":
			return Call("keys", g.args(sc, depth, TyMap)...)
		case "zip":
			return Call("zip", append([]Val{QS("list")}, g.args(sc, depth, nums(1, 3, TyList)...)...)...)
		default:
			return Call("foldr", S("cons"), L(), g.Expr(sc, TyList, depth-1))
		}
	case TyMap:
		switch op := pick("sorted-map", "assoc", "dissoc", "assoc!"); op {
		case "sorted-map":
			return g.literal(TyMap)
		case "assoc", "assoc!":
			return Call(op, g.Expr(sc, TyMap, depth-1), g.keyLit(), g.Expr(sc, TyAny, depth-1))
		default:
			return Call(pick("dissoc", "dissoc!"), g.Expr(sc, TyMap, depth-1), g.keyLit())
		}
	case TyVec:
		switch pick("vector", "append", "map", "reverse", "concat") {
		case "vector":
			return Call("vector", g.args(sc, depth, nums(0, 3, TyInt)...)...)
		case "append":
			return Call("append", append([]Val{QS("vector")}, g.args(sc, depth, TyVec, TyInt)...)...)
		case "map":
			return Call("map", QS("vector"), g.mapFn(sc, depth), g.Expr(sc, TyList, depth-1))
		case "concat":
			return Call("concat", QS("vector"), g.Expr(sc, TyList, depth-1), g.Expr(sc, TyVec, depth-1))
		default:
			return Call("reverse", QS("vector"), g.Expr(sc, TyList, depth-1))
		}
	case TySym:
		if g.pct(50, "type") {
			return Call("type", g.Expr(sc, TyAny, depth-1))
		}
		return g.literal(TySym)
	default:
		switch pick("get", "identity", "car", "nth", "aref", "if-any", "typed", "combinator", "combinator", "bytes", "get-default", "curry", "expr", "expr") {
		case "expr":
			g.stat("expr")
			a1, a2 := g.Expr(sc, TyInt, depth-1), g.Expr(sc, TyInt, depth-1)
			switch g.n(0, 7, "exprkind") {
			case 0:
				return L(L(S("expr"), L(S("+"), S("%"), I(1))), a1)
			case 1:
				return L(L(S("expr"), L(S("-"), S("%1"), S("%2"))), a1, a2)
			case 2:
				return L(L(S("expr"), L(S("list"), S("%2"), S("%&rest"))), a1, a2, I(9))
			case 3:
				return Call("map", QS("list"), L(S("expr"), L(S("*"), S("%"), S("%"))), g.Expr(sc, TyList, depth-1))
			case 4:
				return L(L(S("expr"), L(S("list"), S("%1"), S("%&optional"))), a1)
			case 5:
				return L(L(S("expr"), L(S("+"), S("%"), S("%2"))), a1, a2) // invalid mix
			case 6:
				return L(L(S("expr"), L(S("list"), S("%3"))), a1, a2) // too few arguments for %3
			default:
				return Call("funcall", L(S("expr"), L(S("cons"), S("%1"), QL(I(0)))), a1)
			}
		case "bytes":
			g.stat("bytes")
			b := Call("to-bytes", g.strLit())
			switch g.n(0, 5, "bytesop") {
			case 0:
				return Call("append-bytes", b, rapid.SampledFrom([]Val{Str("xy"), QL(I(1), I(255)), QL(I(256)), Call("to-bytes", Str("z")), I(3)}).Draw(g.t, "extra"))
			case 1:
				return Call("concat", QS("bytes"), b, g.strLit(), QL(I(65)))
			case 2:
				return Call("slice", QS(pick("bytes", "list", "string", "vector")), b, I(int64(g.n(0, 2, "i"))), I(int64(g.n(0, 3, "j"))))
			case 3:
				return Call("length", b)
			case 4:
				return Call("to-string", b)
			default:
				return Call("append", QS("bytes"), b, I(int64(g.n(-1, 300, "byte"))))
			}
		case "get-default":
			g.stat("get-default")
			return L(S("get-default"), g.Expr(sc, TyMap, depth-1), g.keyLit(), g.probe(g.Expr(sc, TyInt, depth-1)))
		case "curry":
			g.stat("curry-function")
			return L(L(S("curry-function"), S(pick("+", "list", "-", "max")), g.Expr(sc, TyInt, depth-1)), g.Expr(sc, TyInt, depth-1), g.Expr(sc, TyInt, depth-1))
		case "combinator":
			g.stat("combinator")
			switch g.n(0, 7, "comb") {
			case 0:
				return L(Call("compose", S(pick("-", "to-string", "not", "list")), S(pick("+", "*", "max", "list"))), g.Expr(sc, TyInt, depth-1), g.Expr(sc, TyInt, depth-1))
			case 1:
				return Call("funcall", Call("compose", S(pick("car", "length", "not", "first")), S(pick("cdr", "rest", "reverse2", "list"))), g.Expr(sc, TyList, depth-1))
			case 2:
				return L(Call("flip", S(pick("-", "cons", "<", "nth", "list", "append2"))), g.Expr(sc, TyAny, depth-1), g.Expr(sc, TyAny, depth-1))
			case 3:
				return Call("unpack", S(pick("+", "list", "max", "cons")), g.Expr(sc, TyList, depth-1))
			case 4:
				// an unbound or non-function designator
				return Call("compose", S(pick("car", "-")), rapid.SampledFrom([]Val{QS("no-such-function"), I(5), QS("car"), S("if")}).Draw(g.t, "badfn"))
			case 5:
				p := g.freshName()
				inner := &scope{vars: []varInfo{{name: p, ty: TyInt}}, parent: sc}
				lam := L(S("lambda"), L(S(p), S("&optional"), S("o")), g.Expr(inner, TyInt, depth-1))
				return L(Call("compose", S("-"), lam), g.Expr(sc, TyInt, depth-1))
			case 6:
				return Call("search-sorted", I(int64(g.n(-1, 9, "n"))), L(S("lambda"), L(S("i")), L(S(">="), S("i"), I(int64(g.n(-2, 9, "threshold"))))))
			default:
				return L(Call("compose", Call("flip", S("-")), L(S("lambda"), L(S("a"), S("&rest"), S("r")), L(S("list"), S("a"), S("r")))), g.Expr(sc, TyInt, depth-1), g.Expr(sc, TyInt, depth-1))
			}
		case "get":
			return Call("get", g.Expr(sc, TyMap, depth-1), g.keyLit())
		case "identity":
			return Call("identity", g.args(sc, depth, TyAny)...)
		case "car":
			return Call(pick("car", "first", "second", "cdr"), g.Expr(sc, TyAny, depth-1))
		case "nth":
			return Call("nth", g.args(sc, depth, TyAny, TyInt)...)
		case "aref":
			return Call("aref", g.args(sc, depth, TyVec, TyInt)...)
		default:
			return g.Expr(sc, Ty(g.n(1, 8, "anyty")), depth-1)
		}
	}
}

func (g *PG) keyLit() Val {
	k := rapid.SampledFrom([]string{"a", "b", "c", "k"}).Draw(g.t, "key")
	switch g.n(0, 9, "keykind") {
	case 0:
		return I(1) // unhashable
	case 1, 2, 3, 4:
		return QS(k)
	default:
		return Str(k)
	}
}

func (g *PG) mapFn(sc *scope, depth int) Val {
	g.stat("fn-arg")
	switch g.n(0, 4, "mapfn") {
	case 0:
		return S(rapid.SampledFrom([]string{"-", "to-string", "identity", "int?", "list"}).Draw(g.t, "fnname"))
	case 1:
		return QS(rapid.SampledFrom([]string{"-", "identity", "not"}).Draw(g.t, "qfnname"))
	default:
		p := g.freshName()
		inner := &scope{vars: []varInfo{{name: p, ty: TyInt}}, parent: sc}
		return L(S("lambda"), L(S(p)), g.Expr(inner, TyInt, depth-1))
	}
}

func (g *PG) predFn(sc *scope, depth int) Val {
	g.stat("fn-arg")
	switch g.n(0, 3, "predfn") {
	case 0:
		return S(rapid.SampledFrom([]string{"int?", "nil?", "not", "identity", "number?"}).Draw(g.t, "predname"))
	default:
		p := g.freshName()
		inner := &scope{vars: []varInfo{{name: p, ty: TyInt}}, parent: sc}
		return L(S("lambda"), L(S(p)), g.Expr(inner, TyBool, depth-1))
	}
}

func (g *PG) letForm(sc *scope, ty Ty, depth int) Val {
	seq := g.pct(40, "let*")
	n := g.n(0, 3, "nbind")
	inner := &scope{parent: sc}
	binds := []Val{}
	for i := 0; i < n; i++ {
		name := g.bindName(sc)
		if i > 0 && g.pct(30, "rebind-earlier") {
			name = inner.vars[g.n(0, len(inner.vars)-1, "earlier")].name
		}
		bt := Ty(g.n(0, 8, "bindty"))
		var init Val
		if seq {
			init = g.Expr(inner, bt, depth-1)
		} else {
			init = g.Expr(sc, bt, depth-1)
		}
		binds = append(binds, L(S(name), init))
		inner.vars = append(inner.vars, varInfo{name: name, ty: bt})
	}
	head := "let"
	if seq {
		head = "let*"
	}
	g.stat(head)
	for _, v := range inner.vars {
		for _, o := range sc.all() {
			if o.name == v.name {
				g.stat("shadowing")
			}
		}
	}
	body := []Val{S(head), L(binds...)}
	nb := g.n(1, 2, "nbody")
	for i := 0; i < nb-1; i++ {
		body = append(body, g.Expr(inner, TyAny, depth-1))
	}
	body = append(body, g.Expr(inner, ty, depth-1))
	return L(body...)
}

func (g *PG) ifForm(sc *scope, ty Ty, depth int) Val {
	g.stat("if")
	return L(S("if"), g.Expr(sc, TyBool, depth-1), g.Expr(sc, ty, depth-1), g.Expr(sc, ty, depth-1))
}

func (g *PG) condForm(sc *scope, ty Ty, depth int) Val {
	g.stat("cond")
	n := g.n(0, 3, "nclause")
	cl := []Val{S("cond")}
	for i := 0; i < n; i++ {
		c := []Val{g.Expr(sc, TyBool, depth-1)}
		for k := g.n(0, 2, "cbody"); k > 0; k-- {
			c = append(c, g.Expr(sc, ty, depth-1))
		}
		cl = append(cl, L(c...))
	}
	switch g.n(0, 3, "else") {
	case 0:
		cl = append(cl, L(S("else"), g.Expr(sc, ty, depth-1)))
	case 1:
		cl = append(cl, L(S(":else"), g.Expr(sc, ty, depth-1)))
	case 2:
		cl = append(cl, L(S("true"), g.Expr(sc, ty, depth-1)))
	}
	return L(cl...)
}

func (g *PG) andOr(sc *scope, ty Ty, depth int) Val {
	op := rapid.SampledFrom([]string{"and", "or"}).Draw(g.t, "andor")
	g.stat(op)
	n := g.n(0, 3, "n")
	f := []Val{S(op)}
	for i := 0; i < n; i++ {
		if i == n-1 {
			f = append(f, g.Expr(sc, ty, depth-1))
		} else {
			f = append(f, g.Expr(sc, TyAny, depth-1))
		}
	}
	return L(f...)
}

// formals generates a parameter list and the matching signature + inner scope.
func (g *PG) formals(name string, ret Ty) (Val, *fnSig, []varInfo) {
	sig := &fnSig{name: name, ret: ret}
	var fs []Val
	var vars []varInfo
	used := map[string]bool{}
	pname := func() string {
		for i := 0; i < 5; i++ {
			n := g.freshName()
			if !used[n] && n != name {
				used[n] = true
				return n
			}
		}
		n := "p" + strconv.Itoa(len(used))
		used[n] = true
		return n
	}
	sig.req = g.n(0, 2, "nreq")
	for i := 0; i < sig.req; i++ {
		n := pname()
		fs = append(fs, S(n))
		vars = append(vars, varInfo{name: n, ty: TyInt})
	}
	if g.pct(25, "optional") {
		sig.opt = g.n(1, 2, "nopt")
		fs = append(fs, S("&optional"))
		for i := 0; i < sig.opt; i++ {
			n := pname()
			fs = append(fs, S(n))
			vars = append(vars, varInfo{name: n, ty: TyAny})
		}
		g.stat("param-optional")
	}
	switch g.n(0, 5, "tailkind") {
	case 0:
		sig.rest = true
		n := pname()
		fs = append(fs, S("&rest"), S(n))
		vars = append(vars, varInfo{name: n, ty: TyList})
		g.stat("param-rest")
	case 1:
		fs = append(fs, S("&key"))
		for i, nk := 0, g.n(1, 2, "nkey"); i < nk; i++ {
			n := pname()
			fs = append(fs, S(n))
			sig.keys = append(sig.keys, n)
			vars = append(vars, varInfo{name: n, ty: TyAny})
		}
		g.stat("param-key")
	}
	return L(fs...), sig, vars
}

func (g *PG) callArgs(sc *scope, sig *fnSig, depth int) []Val {
	var a []Val
	nreq := sig.req
	for i := 0; i < nreq; i++ {
		a = append(a, g.Expr(sc, TyInt, depth-1))
	}
	nopt := 0
	if sig.opt > 0 {
		nopt = g.n(0, sig.opt, "optgiven")
		for i := 0; i < nopt; i++ {
			a = append(a, g.Expr(sc, TyInt, depth-1))
		}
	}
	if sig.rest && nopt == sig.opt {
		for i, n := 0, g.n(0, 3, "restgiven"); i < n; i++ {
			a = append(a, g.Expr(sc, TyInt, depth-1))
		}
	}
	if len(sig.keys) > 0 && nopt == sig.opt {
		// keyword arguments are unordered: given in a drawn order, and now and
		// then one keyword is supplied twice (the later value is the one bound)
		var given []string
		for _, k := range sig.keys {
			if g.pct(50, "keygiven") {
				given = append(given, k)
			}
		}
		if len(given) > 0 && g.pct(8, "dupkey") {
			given = append(given, given[g.n(0, len(given)-1, "dupwhich")])
			g.stat("dup-keyword")
		}
		for i := len(given) - 1; i > 0; i-- {
			j := g.n(0, i, "keyorder")
			given[i], given[j] = given[j], given[i]
		}
		for _, k := range given {
			a = append(a, S(":"+k), g.Expr(sc, TyInt, depth-1))
		}
		if g.pct(4, "badkey") {
			a = append(a, S(":zz"), I(1))
			g.stat("bad-keyword")
		}
	}
	if g.pct(g.IllRate/2+1, "fn-wrong-arity") {
		g.stat("wrong-arity")
		if len(a) > 0 && g.pct(50, "drop") {
			a = a[:len(a)-1]
		} else {
			a = append(a, g.Expr(sc, TyAny, depth-1))
		}
	}
	return a
}

func (g *PG) lambdaCall(sc *scope, ty Ty, depth int) Val {
	g.stat("lambda-call")
	fs, sig, vars := g.formals("", ty)
	inner := &scope{vars: vars, parent: sc}
	lam := []Val{S("lambda"), fs}
	for i, n := 0, g.n(0, 1, "extra-body"); i < n; i++ {
		lam = append(lam, g.Expr(inner, TyAny, depth-1))
	}
	lam = append(lam, g.Expr(inner, ty, depth-1))
	args := g.callArgs(sc, sig, depth)
	if g.pct(25, "via-funcall") {
		g.stat("funcall")
		return Call("funcall", append([]Val{L(lam...)}, args...)...)
	}
	if g.pct(15, "via-apply") {
		g.stat("apply")
		lst := Call("list", args...)
		return Call("apply", L(lam...), lst)
	}
	return L(append([]Val{L(lam...)}, args...)...)
}

func (g *PG) fletForm(sc *scope, ty Ty, depth int) Val {
	labels := g.pct(50, "labels")
	head := "flet"
	if labels {
		head = "labels"
	}
	g.stat(head)
	n := g.n(1, 2, "nfun")
	inner := &scope{parent: sc}
	type pending struct {
		name string
		fs   Val
		sig  *fnSig
		vars []varInfo
	}
	var ps []pending
	for i := 0; i < n; i++ {
		name := rapid.SampledFrom([]string{"f", "g", "h", "k"}).Draw(g.t, "fname")
		rt := Ty(g.n(1, 5, "fret"))
		fs, sig, vars := g.formals(name, rt)
		ps = append(ps, pending{name, fs, sig, vars})
		inner.vars = append(inner.vars, varInfo{name: name, fn: sig})
	}
	var defs []Val
	for _, p := range ps {
		var bodySc *scope
		if labels {
			bodySc = &scope{vars: p.vars, parent: inner}
		} else {
			bodySc = &scope{vars: p.vars, parent: sc}
		}
		defs = append(defs, L(S(p.name), p.fs, g.Expr(bodySc, p.sig.ret, depth-2)))
	}
	return L(S(head), L(defs...), g.Expr(inner, ty, depth-1))
}

func (g *PG) userCall(sc *scope, ty Ty, depth int) Val {
	var cands []varInfo
	for _, v := range sc.all() {
		if v.fn != nil && compatible(ty, v.fn.ret) {
			cands = append(cands, v)
		}
	}
	if len(cands) == 0 {
		return g.lambdaCall(sc, ty, depth)
	}
	v := cands[g.n(0, len(cands)-1, "fn")]
	g.stat("user-call")
	args := g.callArgs(sc, v.fn, depth)
	if g.pct(15, "via-funcall") {
		g.stat("funcall")
		return Call("funcall", append([]Val{S(v.name)}, args...)...)
	}
	return L(append([]Val{S(v.name)}, args...)...)
}

func (g *PG) setForm(sc *scope, ty Ty, depth int) Val {
	var cands []varInfo
	for _, v := range sc.all() {
		if v.fn == nil {
			cands = append(cands, v)
		}
	}
	if len(cands) == 0 {
		return g.letForm(sc, ty, depth)
	}
	v := cands[g.n(0, len(cands)-1, "setvar")]
	g.stat("set!")
	return L(S("progn"), L(S("set!"), S(v.name), g.Expr(sc, v.ty, depth-1)), g.Expr(sc, ty, depth-1))
}

func (g *PG) loopForm(sc *scope, ty Ty, depth int) Val {
	g.stat("dotimes")
	acc, i := "acc", "i"
	inner := &scope{vars: []varInfo{{name: acc, ty: TyInt}}, parent: sc}
	loopSc := &scope{vars: []varInfo{{name: i, ty: TyInt}}, parent: inner}
	count := I(int64(g.n(-1, 4, "count")))
	ctrl := []Val{S(i), count}
	if g.pct(40, "result-form") {
		ctrl = append(ctrl, g.Expr(loopSc, TyAny, depth-2))
	}
	body := L(S("set!"), S(acc), g.Expr(loopSc, TyInt, depth-2))
	res := g.Expr(inner, ty, depth-1)
	return L(S("let"), L(L(S(acc), I(0))), L(S("dotimes"), L(ctrl...), body), res)
}

func (g *PG) higherOrder(sc *scope, ty Ty, depth int) Val {
	g.stat("higher-order")
	switch ty {
	case TyInt, TyNum, TyAny:
		if g.pct(20, "designator") {
			// a function named by a QUOTED SYMBOL is looked up in the package,
			// never in the caller's lexical scope: a local function of the same
			// name (flet / labels / a let-bound lambda) must not be picked up
			g.stat("quoted-symbol-designator")
			name := rapid.SampledFrom([]string{"+", "max", "f", "g", "h", "zz-nowhere"}).Draw(g.t, "dname")
			if name == "f" || name == "g" || name == "h" {
				// the program's own global functions carry its prefix: a second
				// program loaded into the same runtime must not pick up the first
				// one's definitions through a package lookup
				name = g.Prefix + name
			}
			local := L(S(name), L(S("a"), S("b")), L(S(rapid.SampledFrom([]string{"*", "-", "list"}).Draw(g.t, "lop")), S("a"), S("b")))
			lst := g.Expr(sc, TyList, depth-2)
			var use Val
			switch g.n(0, 4, "duse") {
			case 0:
				use = Call("foldl", QS(name), g.Expr(sc, TyInt, depth-2), lst)
			case 1:
				use = Call("foldr", QS(name), g.Expr(sc, TyInt, depth-2), lst)
			case 2:
				use = Call("funcall", QS(name), g.Expr(sc, TyInt, depth-2), I(3))
			case 3:
				use = Call("apply", QS(name), Call("list", I(2), g.Expr(sc, TyInt, depth-2)))
			default:
				use = Call("map", QS("list"), L(S("lambda"), L(S("e")), Call("funcall", QS(name), S("e"), I(1))), lst)
			}
			switch g.n(0, 2, "dbind") {
			case 0:
				return L(S("flet"), L(local), use)
			case 1:
				return L(S("labels"), L(local), use)
			default:
				return L(S("let"), L(L(S(name), L(S("lambda"), L(S("a"), S("b")), L(S("*"), S("a"), S("b"))))), use)
			}
		}
		p, q := "acc", "e"
		inner := &scope{vars: []varInfo{{name: p, ty: TyInt}, {name: q, ty: TyInt}}, parent: sc}
		f := L(S("lambda"), L(S(p), S(q)), g.Expr(inner, TyInt, depth-2))
		op := "foldl"
		if g.pct(40, "foldr") {
			op = "foldr"
		}
		return Call(op, f, g.Expr(sc, TyInt, depth-1), g.Expr(sc, TyList, depth-1))
	case TyList:
		if g.pct(25, "loop-closures") {
			// closures made in the turns of a dotimes share the loop variable:
			// called after the loop they see its final value, with or without
			// a result form
			g.stat("dotimes-closures-called-after-loop")
			ctrl := []Val{S("i"), I(int64(g.n(0, 4, "cturns")))}
			if g.pct(40, "cresult") {
				ctrl = append(ctrl, S("i"))
			}
			return L(S("let"), L(L(S("fs"), L())),
				L(S("dotimes"), L(ctrl...), L(S("set!"), S("fs"), Call("cons", L(S("lambda"), L(), S("i")), S("fs")))),
				Call("map", QS("list"), L(S("lambda"), L(S("f")), Call("funcall", S("f"))), S("fs")))
		}
		return Call("map", QS("list"), g.mapFn(sc, depth), g.Expr(sc, TyList, depth-1))
	default:
		return g.builtinCall(sc, ty, depth)
	}
}

// closureForm builds closures sharing a mutable binding and observes it through
// each of them.
func (g *PG) closureForm(sc *scope, ty Ty, depth int) Val {
	g.stat("closure-shared-binding")
	c := "cnt"
	inner := &scope{vars: []varInfo{{name: c, ty: TyInt}}, parent: sc}
	inc := L(S("lambda"), L(), L(S("set!"), S(c), L(S("+"), S(c), g.Expr(inner, TyInt, depth-2))), S(c))
	get := L(S("lambda"), L(), S(c))
	fsc := &scope{vars: []varInfo{
		{name: "inc", fn: &fnSig{name: "inc", ret: TyInt}},
		{name: "get", fn: &fnSig{name: "get", ret: TyInt}},
	}, parent: inner}
	seq := []Val{}
	for i, n := 0, g.n(1, 3, "ncalls"); i < n; i++ {
		which := rapid.SampledFrom([]string{"inc", "get"}).Draw(g.t, "which")
		seq = append(seq, g.probe(L(S(which))))
	}
	seq = append(seq, g.Expr(fsc, ty, depth-1))
	body := append([]Val{S("let"), L(L(S("inc"), inc), L(S("get"), get))}, seq...)
	return L(S("let"), L(L(S(c), g.Expr(sc, TyInt, depth-2))), L(body...))
}

func (g *PG) threadForm(sc *scope, ty Ty, depth int) Val {
	op := rapid.SampledFrom([]string{"thread-first", "thread-last"}).Draw(g.t, "thread")
	g.stat(op)
	forms := []Val{S(op), g.Expr(sc, TyInt, depth-1)}
	for i, n := 0, g.n(0, 3, "nthread"); i < n; i++ {
		fn := rapid.SampledFrom([]string{"+", "-", "*", "max", "list", "probe"}).Draw(g.t, "tfn")
		if fn == "probe" {
			g.probeID++
			forms = append(forms, L(S("probe"), I(int64(g.probeID))))
			continue
		}
		forms = append(forms, L(S(fn), g.Expr(sc, TyInt, depth-2)))
	}
	return L(forms...)
}

// TopForm generates one top-level form: a definition or an expression.
// closureLoop builds a tail-recursive loop that creates one closure over its
// parameters per turn, lets them escape, and calls them after the loop.
func (g *PG) closureLoop() []Val {
	g.stat("closures-escape-tail-loop")
	name := g.Prefix + "collect"
	n := int64(g.n(2, 5, "turns"))
	var closure Val
	switch g.n(0, 2, "closure-kind") {
	case 0:
		closure = L(S("lambda"), L(), S("i"))
	case 1:
		closure = L(S("lambda"), L(), L(S("set!"), S("i"), L(S("+"), S("i"), I(100))), S("i"))
	default:
		closure = L(S("let"), L(L(S("j"), L(S("*"), S("i"), I(2)))), L(S("lambda"), L(S("&optional"), S("d")), L(S("list"), S("i"), S("j"), S("d"))))
	}
	recur := L(S(name), L(S("+"), S("i"), I(1)), L(S("cons"), closure, S("acc")))
	if g.pct(30, "via-funcall") {
		recur = L(S("funcall"), S(name), L(S("+"), S("i"), I(1)), L(S("cons"), closure, S("acc")))
	}
	def := L(S("defun"), S(name), L(S("i"), S("acc")), L(S("if"), L(S(">="), S("i"), I(n)), S("acc"), recur))
	use := L(S("let"), L(L(S("fs"), L(S(name), I(0), L()))),
		g.probe(L(S("map"), QS("list"), L(S("lambda"), L(S("f")), L(S("funcall"), S("f"))), S("fs"))),
		g.probe(L(S("map"), QS("list"), L(S("lambda"), L(S("f")), L(S("funcall"), S("f"))), S("fs"))))
	return []Val{def, use}
}

// threadRecursion builds a function that recurses THROUGH a thread-first /
// thread-last form whose sub-forms have 1-7 cells: the rewritten sub-form of an
// outer activation must not be disturbed by the inner activations.
func (g *PG) threadRecursion() []Val {
	g.stat("recursion-through-thread-form")
	name := g.Prefix + "thr"
	op := rapid.SampledFrom([]string{"thread-last", "thread-first"}).Draw(g.t, "threadop")
	pad := func(n int) []Val {
		out := make([]Val, n)
		for i := range out {
			out[i] = I(0)
		}
		return out
	}
	var body Val
	k := g.n(0, 5, "padding")
	if op == "thread-last" && g.pct(60, "recursion-inside-rewritten-form") {
		// (thread-last n (identity) (+ (NAME (- n 1)) 0...)) : the recursive call
		// is an ARGUMENT of the very sub-form the value is threaded into
		body = L(S(op), S("n"), L(S("identity")), L(append([]Val{S("+"), L(S(name), L(S("-"), S("n"), I(1)))}, pad(k)...)...))
	} else if op == "thread-last" {
		// (thread-last (- n 1) (NAME) (+ n 0...)) : n + NAME(n-1)
		body = L(S(op), L(S("-"), S("n"), I(1)), L(S(name)), L(append([]Val{S("+"), S("n")}, pad(k)...)...))
	} else {
		// (thread-first n (+ 0... (NAME (- n 1)))) : n + NAME(n-1)
		body = L(S(op), S("n"), L(append(append([]Val{S("+")}, pad(k)...), L(S(name), L(S("-"), S("n"), I(1))))...))
	}
	if g.pct(50, "three-forms") {
		body.L = append(body.L, L(append([]Val{S("list")}, pad(g.n(0, 4, "pad2"))...)...))
	}
	def := L(S("defun"), S(name), L(S("n")), L(S("if"), L(S("<="), S("n"), I(0)), I(0), body))
	return []Val{def, g.probe(L(S(name), I(int64(g.n(1, 5, "depth")))))}
}

func (g *PG) TopForm(depth int) Val {
	switch g.n(0, 9, "top") {
	case 0, 1, 2:
		name := g.Prefix + rapid.SampledFrom([]string{"f", "g", "h", "k", "fact", "helper"}).Draw(g.t, "defname")
		rt := Ty(g.n(1, 5, "ret"))
		fs, sig, vars := g.formals(name, rt)
		sig.name = name
		// recursion is possible: the function is in scope in its own body
		g.globals.vars = append(g.globals.vars, varInfo{name: name, fn: sig})
		body := g.Expr(&scope{vars: vars, parent: g.globals}, rt, depth-1)
		if g.pct(15, "guarded-recursion") && sig.req >= 1 && !sig.rest && len(sig.keys) == 0 && sig.opt == 0 {
			g.stat("recursion")
			p := string(fs.L[0].B)
			args := []Val{L(S("-"), S(p), I(1))}
			for i := 1; i < sig.req; i++ {
				args = append(args, S(string(fs.L[i].B)))
			}
			rec := L(append([]Val{S(name)}, args...)...)
			body = L(S("if"), L(S("<="), S(p), I(0)), body, rec)
		}
		g.stat("defun")
		return L(S("defun"), S(name), fs, body)
	case 3:
		name := g.Prefix + rapid.SampledFrom([]string{"gx", "gy", "x", "a", "n", "acc"}).Draw(g.t, "gname")
		ty := Ty(g.n(1, 8, "gty"))
		init := g.Expr(g.globals, ty, depth-1)
		g.globals.vars = append(g.globals.vars, varInfo{name: name, ty: ty})
		g.stat("set-global")
		return L(S("set"), QS(name), init)
	default:
		return g.Expr(g.globals, Ty(g.n(0, 8, "topty")), depth)
	}
}

// Program is a JSON-serialisable generated program.
type Program struct {
	Forms []Val          `json:"forms"`
	Stats map[string]int `json:"stats,omitempty"`
}

func (p Program) Source() string { return RenderProgram(p.Forms) }

// GenProgram draws a core-language program: up to maxForms top-level forms,
// node budget, nesting depth.
func GenProgram(maxForms, budget, depth int) *rapid.Generator[Program] {
	return genProgram(maxForms, budget, depth, false)
}

// GenProgramExtra is GenProgram plus condition-handling forms, raised errors and
// empty loops (no reference interpreter needed by its users).
func GenProgramExtra(maxForms, budget, depth int) *rapid.Generator[Program] {
	return genProgram(maxForms, budget, depth, true)
}

// ProgOpts parameterises GenProgramWith.
type ProgOpts struct {
	MaxForms, Budget, Depth int
	Extra                   bool
	Prefix                  string
	NoProbe                 bool
}

func GenProgramWith(o ProgOpts) *rapid.Generator[Program] {
	return rapid.Custom(func(t *rapid.T) Program {
		g := NewPG(t, o.Budget)
		g.Extra, g.Prefix, g.NoProbe = o.Extra, o.Prefix, o.NoProbe
		n := rapid.IntRange(1, o.MaxForms).Draw(t, "nforms")
		var forms []Val
		for i := 0; i < n; i++ {
			if g.pct(6, "closure-loop") {
				forms = append(forms, g.closureLoop()...)
				continue
			}
			if g.pct(4, "thread-recursion") {
				forms = append(forms, g.threadRecursion()...)
				continue
			}
			forms = append(forms, g.TopForm(o.Depth))
		}
		return Program{Forms: forms, Stats: g.Stats}
	})
}

func genProgram(maxForms, budget, depth int, extra bool) *rapid.Generator[Program] {
	return rapid.Custom(func(t *rapid.T) Program {
		g := NewPG(t, budget)
		g.Extra = extra
		n := rapid.IntRange(1, maxForms).Draw(t, "nforms")
		var forms []Val
		for i := 0; i < n; i++ {
			if g.pct(6, "closure-loop") {
				forms = append(forms, g.closureLoop()...)
				continue
			}
			if g.pct(4, "thread-recursion") {
				forms = append(forms, g.threadRecursion()...)
				continue
			}
			forms = append(forms, g.TopForm(depth))
		}
		return Program{Forms: forms, Stats: g.Stats}
	})
}
