// Package gen holds rapid generators shared by the property checks.
package gen

import (
	"math"
	"strings"
	"unicode/utf8"

	"github.com/luthersystems/elps/lisp"
	"pgregory.net/rapid"
)

// Val is a JSON-serialisable model of a data value (the domain of the reader /
// printer round trip and of quoted literals).
type Val struct {
	K  string `json:"k"`            // int | float | str | sym | list
	I  int64  `json:"i,omitempty"`  // int payload
	FB uint64 `json:"fb,omitempty"` // float64 bits
	B  []byte `json:"b,omitempty"`  // string bytes / symbol name
	Q  int    `json:"q,omitempty"`  // quote depth
	L  []Val  `json:"l,omitempty"`
}

func (v Val) Float() float64 { return math.Float64frombits(v.FB) }

// ToLVal builds the value with the Go constructors.
func (v Val) ToLVal() *lisp.LVal {
	var out *lisp.LVal
	switch v.K {
	case "int":
		out = lisp.Int(int(v.I))
	case "float":
		out = lisp.Float(v.Float())
	case "str":
		out = lisp.String(string(v.B))
	case "sym":
		out = lisp.Symbol(string(v.B))
	case "list":
		cells := make([]*lisp.LVal, len(v.L))
		for i := range v.L {
			cells[i] = v.L[i].ToLVal()
		}
		out = lisp.SExpr(cells)
	default:
		panic("bad Val kind " + v.K)
	}
	for i := 0; i < v.Q; i++ {
		out = lisp.Quote(out)
	}
	return out
}

// Depth of list nesting.
func (v Val) Depth() int {
	d := 0
	for _, c := range v.L {
		if x := c.Depth(); x > d {
			d = x
		}
	}
	if v.K == "list" {
		return d + 1
	}
	return d
}

func (v Val) Nodes() int {
	n := 1
	for _, c := range v.L {
		n += c.Nodes()
	}
	return n
}

var BoundaryInts = []int64{
	0, 1, -1, 2, -2, 7, 10, -10, 255, 256, 1 << 31, -(1 << 31), (1 << 31) - 1, 1 << 32,
	1 << 53, (1 << 53) + 1, (1 << 53) - 1, -(1 << 53), -(1 << 53) - 1,
	math.MaxInt64, math.MinInt64, math.MaxInt64 - 1, math.MinInt64 + 1,
	999999, 1000000, 100000000000000000, 1000000000000000000,
}

var BoundaryFloats = []float64{
	0, 1, -1, 0.5, -0.5, 1.5, 2.5, 0.1, 0.2, 0.3, 1e21, 1e20, 9.999999999999999e20, 1e22, 1e-6, 1e-7, 9.999999e-7,
	1e-5, 1e5, 1e6, 1e7, 123456.789, 5e-324, math.MaxFloat64, -math.MaxFloat64, math.SmallestNonzeroFloat64,
	2.2250738585072014e-308, 9007199254740992, 9007199254740993, 9223372036854775807, 9223372036854775808,
	-9223372036854775808, 1e15, 1e16, 1e17, 123456789012345680, 0.000001, 0.0000001, 3.141592653589793,
	4.35, 0.1 + 0.2, 100, 1e2, 1e100, 1e-100, 1.7976931348623157e308, 4.9e-324, 1e23, 8.41e21,
}

// GenInt draws an int64 with boundary bias.
func GenInt() *rapid.Generator[int64] {
	return rapid.OneOf(
		rapid.Int64(),
		rapid.SampledFrom(BoundaryInts),
		rapid.Int64Range(-20, 20),
		rapid.Custom(func(t *rapid.T) int64 {
			b := rapid.SampledFrom(BoundaryInts).Draw(t, "base")
			return b + rapid.Int64Range(-2, 2).Draw(t, "delta")
		}),
	)
}

// GenFiniteFloat draws a finite float64 (raw bits, rapid's float generator and
// decimal-boundary constants); negative zero included.
func GenFiniteFloat() *rapid.Generator[float64] {
	return rapid.OneOf(
		rapid.Map(rapid.Uint64(), math.Float64frombits).Filter(func(f float64) bool {
			return !math.IsNaN(f) && !math.IsInf(f, 0)
		}),
		rapid.Float64().Filter(func(f float64) bool { return !math.IsNaN(f) && !math.IsInf(f, 0) }),
		rapid.SampledFrom(BoundaryFloats),
		rapid.Custom(func(t *rapid.T) float64 {
			f := rapid.SampledFrom(BoundaryFloats).Draw(t, "base")
			if rapid.Bool().Draw(t, "neg") {
				f = -f
			}
			n := rapid.IntRange(-2, 2).Draw(t, "ulps")
			for ; n > 0; n-- {
				f = math.Nextafter(f, math.Inf(1))
			}
			for ; n < 0; n++ {
				f = math.Nextafter(f, math.Inf(-1))
			}
			if math.IsInf(f, 0) || math.IsNaN(f) {
				return 0
			}
			return f
		}),
		rapid.Custom(func(t *rapid.T) float64 {
			// short decimals: m * 10^e
			m := rapid.Int64Range(-99999, 99999).Draw(t, "m")
			e := rapid.IntRange(-30, 30).Draw(t, "e")
			return float64(m) * math.Pow(10, float64(e))
		}),
		rapid.Just(math.Copysign(0, -1)),
	)
}

var hostileStrings = []string{
	"", " ", "a", "\"", "\\", "\\\\", "a\\", "\\\"", "\n", "\t", "\r\n", "\x00", "\x7f", "\x1b[0m",
	"\u2028", "\u2029", "\ufeff", "\ufffd", "é", "日本語", "😀", "\xff", "\xc3", "\xe2\x82", "a\xffb", "\xed\xa0\x80",
	"'", ";", "(", ")", "[]", "#", "#'", "\"\"\"", "${x}", "%s", "%d%%", "<>&", "</script>", "\\u0041", "\\x41",
	"true", "false", "()", "nil", ":", "a:b", "0", "-1", "1e5", "NaN", "+Inf",
}

// GenBytesString draws an arbitrary byte string with class bias.
func GenBytesString() *rapid.Generator[string] {
	return rapid.OneOf(
		rapid.SampledFrom(hostileStrings),
		rapid.StringN(0, 12, -1),
		rapid.Map(rapid.SliceOfN(rapid.Byte(), 0, 10), func(b []byte) string { return string(b) }),
		rapid.StringOfN(rapid.RuneFrom([]rune{'a', 'b', '"', '\\', '\n', '\t', 0, 0x7f, 0x80, 0xff, 0x2028, 0x2029, 0xfffd, 0x1f600, 'é', ' ', '\'', ';'}), 0, 10, -1),
		rapid.Custom(func(t *rapid.T) string {
			a := rapid.SampledFrom(hostileStrings).Draw(t, "a")
			b := rapid.SampledFrom(hostileStrings).Draw(t, "b")
			return a + b
		}),
		rapid.Custom(func(t *rapid.T) string {
			n := rapid.IntRange(50, 400).Draw(t, "n")
			return strings.Repeat(rapid.SampledFrom([]string{"a", "\\", "\"", "é", "\xff"}).Draw(t, "c"), n)
		}),
	)
}

const miscStart = "._+*/=<>!&~%?$"
const miscCont = "._+-*/=<>!&~%?$0123456789"

var letterPool = []rune("abcdefghijklmnopqrstuvwxyzABCXYZéλπЖ日本ß")

// GenIdent draws an identifier that is a readable symbol BY CONSTRUCTION from
// the lexer's documented rune classes (docs/lang.md: identifiers start with a
// letter or one of the symbol characters, continue with letters, digits and
// the symbol characters; a leading '-' is a sign when a digit follows).
// It never asks the parser.
func GenIdent() *rapid.Generator[string] {
	return rapid.Custom(func(t *rapid.T) string {
		var b strings.Builder
		lead := rapid.IntRange(0, 9).Draw(t, "lead")
		if lead == 0 {
			// "-" alone or a '-' led symbol: next rune must be a start rune
			// other than '-', and not '.'+digit / digit (those are numbers or
			// number-like after the sign merge).
			if rapid.IntRange(0, 3).Draw(t, "bare") == 0 {
				return "-"
			}
			b.WriteByte('-')
		}
		startMisc := rapid.IntRange(0, 4).Draw(t, "startMisc") == 0
		if startMisc {
			b.WriteByte(miscStart[rapid.IntRange(0, len(miscStart)-1).Draw(t, "s")])
		} else {
			b.WriteRune(rapid.SampledFrom(letterPool).Draw(t, "s"))
		}
		n := rapid.IntRange(0, 8).Draw(t, "n")
		for i := 0; i < n; i++ {
			if rapid.IntRange(0, 3).Draw(t, "m") == 0 {
				b.WriteByte(miscCont[rapid.IntRange(0, len(miscCont)-1).Draw(t, "c")])
			} else {
				b.WriteRune(rapid.SampledFrom(letterPool).Draw(t, "c"))
			}
		}
		return b.String()
	})
}

var commonSyms = []string{"true", "false", "a", "b", "x", "foo", "foo-bar", "+", "-", "*", "/", "<=", "set!", "&rest", "&optional",
	"nil", "else", "lambda", "e5", "e", ".", "..", "+1", "-a", "-+", "a.b", "%", "$x", "?", "!", "~a", "_", "__x__", "a1", "x-1", "-x-1", "+.5", ".5", "+e5"}

// GenSymbolName draws a readable symbol spelling: plain identifier, keyword,
// or package-qualified name.
func GenSymbolName() *rapid.Generator[string] {
	id := GenIdent()
	return rapid.OneOf(
		rapid.SampledFrom(commonSyms),
		id,
		rapid.Custom(func(t *rapid.T) string { return ":" + id.Draw(t, "kw") }),
		rapid.Custom(func(t *rapid.T) string {
			// keyword continuation may start with a digit or '-'
			return ":" + rapid.SampledFrom([]string{"1", "-", "-1", "a-1", "0x", "9a", "true"}).Draw(t, "kw")
		}),
		rapid.Custom(func(t *rapid.T) string { return id.Draw(t, "pkg") + ":" + id.Draw(t, "name") }),
	)
}

// GenVal draws a data value of nesting ≤ maxDepth and quote depth ≤ 4.
func GenVal(maxDepth int) *rapid.Generator[Val] {
	return rapid.Custom(func(t *rapid.T) Val { return genVal(t, maxDepth, true) })
}

func genVal(t *rapid.T, depth int, top bool) Val {
	k := rapid.IntRange(0, 9).Draw(t, "kind")
	if depth <= 0 && k >= 6 {
		k = k - 6
	}
	var v Val
	switch {
	case k == 0 || k == 1:
		v = Val{K: "int", I: GenInt().Draw(t, "i")}
	case k == 2:
		v = Val{K: "float", FB: math.Float64bits(GenFiniteFloat().Draw(t, "f"))}
	case k == 3:
		v = Val{K: "str", B: []byte(GenBytesString().Draw(t, "s"))}
	case k == 4 || k == 5:
		v = Val{K: "sym", B: []byte(GenSymbolName().Draw(t, "y"))}
		v.Q = quoteDepth(t)
	default:
		n := rapid.IntRange(0, 5).Draw(t, "len")
		v = Val{K: "list", L: make([]Val, n)}
		for i := 0; i < n; i++ {
			v.L[i] = genVal(t, depth-1, false)
		}
		v.Q = quoteDepth(t)
	}
	return v
}

func quoteDepth(t *rapid.T) int {
	q := rapid.IntRange(0, 9).Draw(t, "q")
	switch {
	case q < 4:
		return 0
	case q < 7:
		return 1
	case q < 8:
		return 2
	case q < 9:
		return 3
	default:
		return 4
	}
}

// ValidUTF8 reports whether the string is valid UTF-8 (helper for classes).
func ValidUTF8(s string) bool { return utf8.ValidString(s) }
