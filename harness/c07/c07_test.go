// C07: a macro call means evaluating its expansion; quasiquote builds its
// template; gensyms are fresh.
package c07

import (
	"fmt"
	"regexp"
	"strings"
	"testing"

	"github.com/luthersystems/elps/lisp"
	"github.com/luthersystems/elps/verifharness/gen"
	"github.com/luthersystems/elps/verifharness/refint"
	"github.com/luthersystems/elps/verifharness/vcommon"
	"pgregory.net/rapid"
)

var rtCfg = vcommon.Cfg{MaxSteps: 300000, MaxPhysical: 2000, NoStdlib: true, MaxMacroDepth: 200, ProbesInLang: true}

type mg struct {
	t      *rapid.T
	probe  int
	stats  map[string]int
	macros []macroSig
}

type macroSig struct {
	name string
	req  int
	opt  int
	rest bool
}

func (g *mg) n(lo, hi int, l string) int { return rapid.IntRange(lo, hi).Draw(g.t, l) }
func (g *mg) pct(p int, l string) bool   { return rapid.IntRange(0, 99).Draw(g.t, l) < p }
func (g *mg) stat(s string)              { g.stats[s]++ }
func (g *mg) probeOf(v gen.Val) gen.Val {
	g.probe++
	return gen.Call("probe", gen.I(int64(g.probe)), v)
}

func unq(v gen.Val) gen.Val    { return gen.L(gen.S("unquote"), v) }
func splice(v gen.Val) gen.Val { return gen.L(gen.S("unquote-splicing"), v) }

// template builds an int-valued expression template over the macro's params.
func (g *mg) template(params []string, rest string, depth int) gen.Val {
	p := func() gen.Val {
		if len(params) == 0 {
			return gen.I(int64(g.n(0, 5, "lit")))
		}
		return unq(gen.S(params[g.n(0, len(params)-1, "param")]))
	}
	if depth <= 0 {
		return p()
	}
	switch g.n(0, 14, "tmpl") {
	case 0:
		return gen.L(gen.S("+"), p(), p(), gen.I(1))
	case 1:
		g.stat("arg-used-twice")
		x := p()
		return gen.L(gen.S("+"), x, x)
	case 2:
		return gen.L(gen.S("if"), p(), g.template(params, rest, depth-1), gen.I(0))
	case 3:
		return gen.L(gen.S("progn"), p(), g.template(params, rest, depth-1))
	case 4:
		g.stat("template-let")
		return gen.L(gen.S("let"), gen.L(gen.L(gen.S("tmp"), p())), gen.L(gen.S("+"), gen.S("tmp"), gen.S("tmp")))
	case 5:
		if rest != "" {
			g.stat("template-splice")
			return gen.L(gen.S("+"), gen.I(0), splice(gen.S(rest)))
		}
		return p()
	case 6:
		if rest != "" {
			g.stat("template-splice")
			return gen.L(gen.S("length"), gen.L(gen.S("list"), splice(gen.S(rest)), p(), splice(gen.S(rest))))
		}
		return p()
	case 7:
		// expansion contains another macro call
		if len(g.macros) > 0 {
			m := g.macros[g.n(0, len(g.macros)-1, "inner-macro")]
			g.stat("expands-to-macro-call")
			args := []gen.Val{gen.S(m.name)}
			for i := 0; i < m.req; i++ {
				args = append(args, p())
			}
			return gen.L(args...)
		}
		return p()
	case 8:
		// the argument FORM as data
		g.stat("template-quoted-arg")
		return gen.L(gen.S("length"), gen.L(gen.S("list"), gen.L(gen.S("quote"), p())))
	case 9:
		g.stat("template-nested-quasi")
		return gen.L(gen.S("car"), gen.L(gen.S("list"), g.template(params, rest, depth-1), gen.QL(gen.S("a"), p())))
	case 10:
		return gen.L(gen.S("funcall"), gen.L(gen.S("lambda"), gen.L(gen.S("z")), gen.L(gen.S("+"), gen.S("z"), p())), g.template(params, rest, depth-1))
	case 12:
		// the argument FORM may be list data: it reaches the expansion as written
		g.stat("template-length-of-arg")
		return gen.L(gen.S("length"), p())
	case 13:
		// a free name of the CALLER: the expansion is evaluated where the call is
		g.stat("template-caller-global")
		return gen.L(gen.S("*"), gen.S("scale"), gen.L(gen.S("+"), gen.I(0), p()))
	default:
		return gen.L(gen.S("*"), gen.I(2), g.template(params, rest, depth-1))
	}
}

func (g *mg) defmacro(idx int) gen.Val {
	sig := macroSig{name: fmt.Sprintf("m%d", idx), req: g.n(0, 2, "req")}
	var fs []gen.Val
	var params []string
	for i := 0; i < sig.req; i++ {
		p := fmt.Sprintf("a%d", i)
		fs, params = append(fs, gen.S(p)), append(params, p)
	}
	if g.pct(25, "opt") {
		sig.opt = 1
		fs = append(fs, gen.S("&optional"), gen.S("o"))
		params = append(params, "o")
	}
	rest := ""
	if g.pct(45, "rest") {
		sig.rest = true
		rest = "r"
		fs = append(fs, gen.S("&rest"), gen.S("r"))
	}
	body := []gen.Val{}
	if g.pct(35, "expansion-time-probe") {
		g.stat("expansion-time-effect")
		g.probe++
		body = append(body, gen.Call("probe", gen.I(int64(g.probe)), gen.QS("expanding")))
	}
	tmpl := g.template(params, rest, g.n(1, 3, "tdepth"))
	switch g.n(0, 10, "bodykind") {
	case 10:
		// a code-walking macro: while expanding, it asks for the expansion of a
		// call to ITSELF on the remaining arguments (the macro is re-entered
		// before its own parameters are used), like a hand-written `and`
		g.stat("self-expanding")
		sig.req, sig.opt, sig.rest = 1, 0, true
		fs = []gen.Val{gen.S("a0"), gen.S("&rest"), gen.S("r")}
		which := "macroexpand"
		if g.pct(50, "me1") {
			which = "macroexpand-1"
		}
		body = append(body, gen.L(gen.S("if"), gen.Call("nil?", gen.S("r")),
			gen.L(gen.S("quasiquote"), gen.L(gen.S("+"), gen.I(0), unq(gen.S("a0")))),
			gen.L(gen.S("let"), gen.L(gen.L(gen.S("inner"), gen.Call(which, gen.Call("cons", gen.QS(sig.name), gen.S("r"))))),
				gen.L(gen.S("quasiquote"), gen.L(gen.S("+"), unq(gen.S("a0")), unq(gen.S("inner")), unq(gen.S("a0")))))))
	case 0:
		// expands to a definition
		g.stat("expands-to-definition")
		fname := fmt.Sprintf("gen-fn-%d", idx)
		body = append(body, gen.L(gen.S("quasiquote"), gen.L(gen.S("progn"), gen.L(gen.S("defun"), gen.S(fname), gen.L(gen.S("y")), gen.L(gen.S("+"), gen.S("y"), tmpl)), gen.L(gen.S(fname), gen.I(10)))))
	case 1:
		// built with list instead of quasiquote (forms without positions)
		g.stat("list-built-expansion")
		var p gen.Val = gen.I(1)
		if len(params) > 0 {
			p = gen.S(params[0])
		}
		body = append(body, gen.Call("list", gen.QS("+"), p, gen.I(1), gen.Call("list", gen.QS("*"), gen.I(2), p)))
	default:
		body = append(body, gen.L(gen.S("quasiquote"), tmpl))
	}
	g.macros = append(g.macros, sig)
	return gen.L(append([]gen.Val{gen.S("defmacro"), gen.S(sig.name), gen.L(fs...)}, body...)...)
}

func (g *mg) argForm() gen.Val {
	switch g.n(0, 7, "argform") {
	case 6:
		g.stat("quoted-list-argument")
		return gen.QL(gen.I(1), gen.I(2), gen.I(3))
	case 7:
		g.stat("quoted-list-argument")
		return gen.QL(gen.S("a"), gen.QL(gen.I(4)))
	case 0:
		return gen.I(int64(g.n(0, 9, "v")))
	case 1:
		return g.probeOf(gen.L(gen.S("+"), gen.I(int64(g.n(0, 4, "x"))), gen.I(1)))
	case 2:
		if len(g.macros) > 0 && g.pct(50, "macro-in-arg") {
			g.stat("macro-call-in-argument")
			return g.call(g.macros[g.n(0, len(g.macros)-1, "am")])
		}
		return g.probeOf(gen.I(int64(g.n(0, 9, "v"))))
	default:
		return g.probeOf(gen.I(int64(g.n(0, 9, "v"))))
	}
}

func (g *mg) call(m macroSig) gen.Val {
	args := []gen.Val{gen.S(m.name)}
	for i := 0; i < m.req; i++ {
		args = append(args, g.argForm())
	}
	full := true
	if m.opt > 0 {
		if g.pct(60, "optgiven") {
			args = append(args, g.argForm())
		} else {
			full = false
		}
	}
	if m.rest && full {
		for i, n := 0, g.n(0, 3, "nrest"); i < n; i++ {
			args = append(args, g.argForm())
		}
	}
	if g.pct(2, "wrong-arity") {
		g.stat("wrong-arity")
		args = args[:1]
	}
	return gen.L(args...)
}

// MacroCase: definitions + one call form.
type MacroCase struct {
	// CrossPkg: the macros are defined (and exported) in package ml, which has
	// its own `scale`; the call is made from user, which uses ml.
	CrossPkg bool           `json:"cross_pkg"`
	Defs     []gen.Val      `json:"defs"`
	Call     gen.Val        `json:"call"`
	Macrolet bool           `json:"macrolet"`
	Stats    map[string]int `json:"stats"`
	// Mut: also macroexpand / macroexpand-1 the call, mutate the expansions
	// in place (reeval_test.go) and only then evaluate the call
	Mut *MutMode `json:"mut,omitempty"`
}

func genMacroCase() *rapid.Generator[MacroCase] {
	return rapid.Custom(func(t *rapid.T) MacroCase {
		g := &mg{t: t, stats: map[string]int{}}
		n := rapid.IntRange(1, 3).Draw(t, "nmacros")
		var defs []gen.Val
		for i := 0; i < n; i++ {
			defs = append(defs, g.defmacro(i))
		}
		call := g.call(g.macros[len(g.macros)-1])
		mc := MacroCase{Defs: defs, Call: call, Macrolet: rapid.IntRange(0, 3).Draw(t, "macrolet") == 0, Stats: g.stats}
		if !mc.Macrolet && rapid.IntRange(0, 3).Draw(t, "crosspkg") == 0 {
			mc.CrossPkg = true
			if rapid.Bool().Draw(t, "qualified-head") && mc.Call.K == "list" && len(mc.Call.L) > 0 && mc.Call.L[0].K == "sym" && !strings.Contains(string(mc.Call.L[0].B), ":") {
				// the call names the macro by its qualified name ml:name: the
				// call, macroexpand, macroexpand-1 and its iteration all see a
				// package-qualified head
				items := append([]gen.Val{}, mc.Call.L...)
				items[0] = gen.S("ml:" + string(items[0].B))
				mc.Call.L = items
				g.stats["qualified-macro-head"]++
			}
		}
		if rapid.IntRange(0, 9).Draw(t, "mutate-expansions") < 7 {
			m := genMutMode(t)
			mc.Mut = &m
		}
		return mc
	})
}

func refRun(forms []gen.Val) (*refint.Interp, *refint.V, *refint.Err, string) {
	in := refint.New()
	pos := 0
	fs := make([]*refint.V, len(forms))
	for i, f := range forms {
		fs[i] = refint.FromVal(f, &pos)
	}
	v, e, a := in.Run(fs)
	return in, v, e, a
}

func refTrace(in *refint.Interp) string {
	var b strings.Builder
	for _, e := range in.Trace {
		b.WriteString(e.Tag + "|" + e.Payload + "\n")
	}
	return b.String()
}

func out(o vcommon.Outcome) string {
	if o.IsErr {
		return "ERR<" + o.Cond + "> " + o.Msg
	}
	return o.Canon
}

func key(o vcommon.Outcome) string {
	if o.IsErr {
		return "ERR<" + o.Cond + ">"
	}
	return o.Canon
}

// macroletForm turns (defmacro name formals body...) definitions + a body form
// into nested macrolet forms.
func macroletForm(defs []gen.Val, body gen.Val) gen.Val {
	for i := len(defs) - 1; i >= 0; i-- {
		d := defs[i]
		bind := gen.L(d.L[1:]...)
		body = gen.L(gen.S("macrolet"), gen.L(bind), body)
	}
	return body
}

func checkMacro(mc MacroCase, c *vcommon.Ctx) *vcommon.Failure {
	if len(mc.Defs) == 0 {
		return nil
	}
	var direct, viaExpand []gen.Val
	quotedCall := mc.Call
	quotedCall.Q = 1
	expandCall := gen.Call("eval", gen.Call("macroexpand", quotedCall))
	if mc.Macrolet {
		// local macros: macrolet bindings do not see each other, so only the
		// last definition is usable unless it expands to calls of the others
		direct = []gen.Val{macroletForm(mc.Defs, mc.Call)}
		viaExpand = []gen.Val{macroletForm(mc.Defs, expandCall)}
		c.Class("macrolet")
	} else if mc.CrossPkg {
		var pre []gen.Val
		pre = append(pre, gen.Call("set", gen.QS("scale"), gen.I(2)), gen.Call("in-package", gen.QS("ml")), gen.Call("set", gen.QS("scale"), gen.I(1000)))
		for _, d := range mc.Defs {
			pre = append(pre, gen.Call("export", gen.L(gen.S("quote"), d.L[1])))
		}
		pre = append(pre, mc.Defs...)
		pre = append(pre, gen.Call("in-package", gen.QS("user")), gen.Call("use-package", gen.QS("ml")))
		direct = append(append([]gen.Val{}, pre...), mc.Call)
		viaExpand = append(append([]gen.Val{}, pre...), expandCall)
		c.Class("defmacro-in-another-package")
	} else {
		pre := []gen.Val{gen.Call("set", gen.QS("scale"), gen.I(2))}
		direct = append(append(pre, mc.Defs...), mc.Call)
		viaExpand = append(append([]gen.Val{gen.Call("set", gen.QS("scale"), gen.I(2))}, mc.Defs...), expandCall)
		c.Class("defmacro")
	}
	srcA, srcB := gen.RenderProgram(direct), gen.RenderProgram(viaExpand)
	for k, n := range mc.Stats {
		if n > 0 {
			c.Class("has/" + k)
		}
	}
	rtA := vcommon.NewRuntime(rtCfg)
	oA := rtA.Load(srcA)
	if oA.Panic {
		return vcommon.Failf("internal-panic", "internal panic: %s\n%s", oA.Msg, srcA)
	}
	if oA.Cond == "step-limit-exceeded" || strings.Contains(oA.Msg, "stack height") || strings.Contains(oA.Msg, "macro expansion depth") {
		c.Class("skip/limit")
		return nil
	}
	if mc.Stats["template-splice"]+mc.Stats["expands-to-macro-call"]+mc.Stats["arg-used-twice"]+mc.Stats["template-nested-quasi"] > 0 {
		c.NonTrivial(srcA)
		c.Note(srcA)
	}
	// (a) call == eval of macroexpand, in a twin runtime
	rtB := vcommon.NewRuntime(rtCfg)
	oB := rtB.Load(srcB)
	if key(oA) != key(oB) {
		return vcommon.Failf("call-vs-expansion/outcome", "evaluating the macro call gives %s, evaluating its macroexpand gives %s\ncall:\n%s\nexpansion:\n%s", out(oA), out(oB), srcA, srcB)
	}
	if ta, tb := vcommon.TraceString(rtA.Trace), vcommon.TraceString(rtB.Trace); ta != tb {
		return vcommon.Failf("call-vs-expansion/trace", "effects differ between the macro call and evaluating its macroexpand\ncall:\n%s\n%s\nexpansion:\n%s\n%s", srcA, ta, srcB, tb)
	}
	// (c) the reference predicts value and effects of the call
	in, rv, rerr, abort := refRun(direct)
	if abort != "" || in.Unsupported != "" {
		c.Class("skip/reference")
		return nil
	}
	if got, want := vcommon.TraceString(rtA.Trace), refTrace(in); got != want {
		return vcommon.Failf("reference/trace", "effects differ from the reference (arguments must reach the macro unevaluated and run exactly as often as they occur in the expansion)\n%s\nreal:\n%s\nreference:\n%s\nreal %s", srcA, got, want, out(oA))
	}
	if rerr != nil {
		if !oA.IsErr || oA.Cond != rerr.Cond {
			return vcommon.Failf("reference/outcome", "reference signals %q, real gives %s\n%s", rerr.Cond, out(oA), srcA)
		}
	} else if oA.IsErr || oA.Canon != refint.Canon(rv) {
		return vcommon.Failf("reference/outcome", "reference returns %s, real gives %s\n%s", refint.Canon(rv), out(oA), srcA)
	}
	if mc.Mut != nil {
		if f := checkMacroMutated(mc, quotedCall, c); f != nil {
			return f
		}
	}
	if mc.Macrolet {
		// macroexpand sees LEXICAL macros too: inside the macrolet the call's
		// expansion (one step and all steps) is what the reference computes
		for _, fn := range []string{"macroexpand-1", "macroexpand"} {
			prog := []gen.Val{macroletForm(mc.Defs, gen.Call(fn, quotedCall))}
			src := gen.RenderProgram(prog)
			inL, rvL, reL, abL := refRun(prog)
			if abL != "" || inL.Unsupported != "" {
				continue
			}
			rtL := vcommon.NewRuntime(rtCfg)
			oL := rtL.Load(src)
			if reL != nil {
				if !oL.IsErr {
					return vcommon.Failf("lexical-"+fn+"/outcome", "reference: %s of a macrolet macro signals %q, real returns %s\n%s", fn, reL.Cond, oL.Canon, src)
				}
			} else if oL.IsErr || oL.Canon != refint.Canon(rvL) {
				return vcommon.Failf("lexical-"+fn+"/expansion", "%s inside the macrolet gives %s, the reference %s\n%s", fn, out(oL), refint.Canon(rvL), src)
			}
			c.Class("lexical-macroexpand-compared")
		}
		return nil
	}
	// a local FUNCTION or a local macro shadowing the global macro: macroexpand
	// must follow the binding the call would reach
	{
		last := mc.Defs[len(mc.Defs)-1]
		name := last.L[1]
		shadowFn := gen.L(gen.S("flet"), gen.L(gen.L(name, gen.L(gen.S("&rest"), gen.S("zz")), gen.I(7))), gen.Call("macroexpand", quotedCall))
		shadowMac := gen.L(gen.S("macrolet"), gen.L(gen.L(name, gen.L(gen.S("&rest"), gen.S("zz")), gen.I(9))), gen.Call("macroexpand", quotedCall))
		for _, sh := range []gen.Val{shadowFn, shadowMac} {
			prog := append(append([]gen.Val{}, mc.Defs...), sh)
			src := gen.RenderProgram(prog)
			inS, rvS, reS, abS := refRun(prog)
			if abS != "" || inS.Unsupported != "" {
				continue
			}
			rtS := vcommon.NewRuntime(rtCfg)
			oS := rtS.Load(src)
			if reS != nil {
				if !oS.IsErr {
					return vcommon.Failf("shadowed-macroexpand/outcome", "reference signals %q, real returns %s\n%s", reS.Cond, oS.Canon, src)
				}
			} else if oS.IsErr || oS.Canon != refint.Canon(rvS) {
				return vcommon.Failf("shadowed-macroexpand/expansion", "macroexpand under a lexical binding of the operator gives %s, the reference %s\n%s", out(oS), refint.Canon(rvS), src)
			}
			c.Class("shadowed-macroexpand-compared")
		}
	}
	// (b) macroexpand-1 iterated == macroexpand, and one step == the
	// reference's template instantiation
	defs := gen.RenderProgram(mc.Defs)
	rtC := vcommon.NewRuntime(rtCfg)
	if o := rtC.Load(defs); o.IsErr {
		return nil
	}
	full := rtC.Load("(macroexpand " + gen.Render(quotedCall) + ")")
	rtD := vcommon.NewRuntime(rtCfg)
	rtD.Load(defs)
	one := rtD.Load("(macroexpand-1 " + gen.Render(quotedCall) + ")")
	// reference single step
	in1, r1, e1, ab1 := refRun(append(append([]gen.Val{}, mc.Defs...), gen.Call("macroexpand-1", quotedCall)))
	if ab1 == "" && in1.Unsupported == "" {
		if e1 != nil {
			if !one.IsErr {
				return vcommon.Failf("macroexpand-1/outcome", "reference: macroexpand-1 signals %q, real returns %s\n%s", e1.Cond, one.Canon, srcA)
			}
		} else if one.IsErr || one.Canon != refint.Canon(r1) {
			return vcommon.Failf("macroexpand-1/template", "one expansion step differs from the template instantiation: real %s reference %s\n%s", out(one), refint.Canon(r1), srcA)
		}
	}
	if one.IsErr || full.IsErr {
		if one.IsErr != full.IsErr && !one.IsErr {
			// a later step may fail while the first succeeds: fine
			return nil
		}
		return nil
	}
	// iterate macroexpand-1 through the Go API until the head is no macro
	env := rtD.Env
	fn := env.GetGlobal(lisp.Symbol("macroexpand-1"))
	cur := one.Val
	for i := 0; i < 300; i++ {
		if cur.Type != lisp.LSExpr || len(cur.Cells) == 0 || cur.Cells[0].Type != lisp.LSymbol {
			break
		}
		head := env.Get(cur.Cells[0])
		if head.Type != lisp.LFun || !head.IsMacro() {
			break
		}
		next := env.FunCall(fn, lisp.SExpr([]*lisp.LVal{cur}))
		if next.Type == lisp.LError {
			return nil
		}
		cur = next
	}
	if got := vcommon.Canon(cur); got != full.Canon {
		return vcommon.Failf("macroexpand-1/iterated", "iterating macroexpand-1 gives %s, macroexpand gives %s\n%s", got, full.Canon, srcA)
	}
	c.Class("iterated-expand-compared")
	return nil
}

// checkMacroMutated: the call is macroexpanded and macroexpand-1'ed first, both
// expansions are mutated in place by the walker of reeval_test.go (real
// interpreter only), and only then the call is evaluated.  An expansion is a
// fresh instantiation of the macro's template over the (literal) argument
// forms, so nothing the walker does to it may change what the call means.
func checkMacroMutated(mc MacroCase, quotedCall gen.Val, c *vcommon.Ctx) *vcommon.Failure {
	type step struct {
		form     gen.Val
		realOnly bool
	}
	steps := []step{
		{gen.Call("set", gen.QS("exp-all"), gen.Call("macroexpand", quotedCall)), false},
		{gen.Call(mc.Mut.fn(), gen.S("exp-all")), true},
		{gen.Call("set", gen.QS("exp-one"), gen.Call("macroexpand-1", quotedCall)), false},
		{gen.Call(mc.Mut.fn(), gen.S("exp-one")), true},
		{mc.Call, false},
	}
	build := func(real bool) []gen.Val {
		var body []gen.Val
		for _, s := range steps {
			if real || !s.realOnly {
				body = append(body, s.form)
			}
		}
		switch {
		case mc.Macrolet:
			return []gen.Val{macroletForm(mc.Defs, gen.L(append([]gen.Val{gen.S("progn")}, body...)...))}
		case mc.CrossPkg:
			pre := []gen.Val{gen.Call("set", gen.QS("scale"), gen.I(2)), gen.Call("in-package", gen.QS("ml")), gen.Call("set", gen.QS("scale"), gen.I(1000))}
			for _, d := range mc.Defs {
				pre = append(pre, gen.Call("export", gen.L(gen.S("quote"), d.L[1])))
			}
			pre = append(pre, mc.Defs...)
			pre = append(pre, gen.Call("in-package", gen.QS("user")), gen.Call("use-package", gen.QS("ml")))
			return append(pre, body...)
		}
		return append(append([]gen.Val{gen.Call("set", gen.QS("scale"), gen.I(2))}, mc.Defs...), body...)
	}
	refProg := build(false)
	in, rv, rerr, abort := refRun(refProg)
	if abort != "" || in.Unsupported != "" {
		c.Class("skip/reference-mutated")
		return nil
	}
	src := mutDefs(*mc.Mut) + gen.RenderProgram(build(true))
	rt := vcommon.NewRuntime(rtCfg)
	o := rt.Load(src)
	if o.Panic {
		return vcommon.Failf("internal-panic", "internal panic: %s\n%s", o.Msg, src)
	}
	if o.Cond == "step-limit-exceeded" || strings.Contains(o.Msg, "stack height") || strings.Contains(o.Msg, "macro expansion depth") {
		c.Class("skip/limit")
		return nil
	}
	tr, ws := splitWalkerTrace(rt.Trace)
	c.Class("expansions-mutated-before-the-call")
	ws.classes(c)
	if rerr != nil {
		if !o.IsErr || o.Cond != rerr.Cond {
			return vcommon.Failf("mutated-expansion/outcome", "after the call's expansions were mutated in place: reference signals %q, real gives %s\n%s", rerr.Cond, out(o), src)
		}
		return nil
	}
	if got, want := vcommon.TraceString(tr), refTrace(in); got != want {
		return vcommon.Failf("mutated-expansion/trace", "after the call's expansions were mutated in place the call's effects differ from the reference\n%s\nreal:\n%s\nreference:\n%s\nreal %s", src, got, want, out(o))
	}
	if o.IsErr || o.Canon != refint.Canon(rv) {
		return vcommon.Failf("mutated-expansion/outcome", "after the call's expansions were mutated in place: reference returns %s, real gives %s\n%s", refint.Canon(rv), out(o), src)
	}
	return nil
}

// ---------- quasiquote templates ----------

type qg struct {
	t     *rapid.T
	probe int
	stats map[string]int
}

func (g *qg) n(lo, hi int, l string) int { return rapid.IntRange(lo, hi).Draw(g.t, l) }

var qvars = []struct {
	name string
	init gen.Val
	list bool
}{
	{"x", gen.I(7), false},
	{"y", gen.QS("sym"), false},
	{"s", gen.Str("str"), false},
	{"l0", gen.L(), true},
	{"l1", gen.QL(gen.I(1)), true},
	{"l3", gen.QL(gen.I(1), gen.S("b"), gen.QL(gen.I(3))), true},
	{"nested", gen.QL(gen.QL(gen.I(1), gen.I(2)), gen.L(gen.S("u"), gen.S("v"))), true},
	// lists BUILT at run time (not literals): shared, unsealed values
	{"r3", gen.Call("list", gen.I(1), gen.I(2), gen.I(3)), true},
	{"r2", gen.Call("list", gen.QS("p"), gen.Call("list", gen.I(4))), true},
}

func (g *qg) unquoted() gen.Val {
	v := qvars[g.n(0, len(qvars)-1, "var")]
	switch g.n(0, 4, "uexpr") {
	case 0:
		g.probe++
		return gen.Call("probe", gen.I(int64(g.probe)), gen.S(v.name))
	case 1:
		return gen.Call("list", gen.S(v.name), gen.I(1))
	default:
		return gen.S(v.name)
	}
}

func (g *qg) spliced() gen.Val {
	var lists []int
	for i, v := range qvars {
		if v.list {
			lists = append(lists, i)
		}
	}
	v := qvars[lists[g.n(0, len(lists)-1, "lvar")]]
	switch g.n(0, 9, "sexpr") {
	case 0:
		g.stats["splice-non-list"]++
		return gen.S("x")
	case 1:
		g.probe++
		return gen.Call("probe", gen.I(int64(g.probe)), gen.S(v.name))
	case 2:
		return gen.Call("reverse", gen.QS("list"), gen.S(v.name))
	case 3, 4:
		// a call that answers the very same list object
		g.stats["splice-of-identity-call"]++
		return gen.Call("identity", gen.S(v.name))
	default:
		if v.name == "l0" {
			g.stats["splice-empty"]++
		}
		return gen.S(v.name)
	}
}

func (g *qg) item(depth int) gen.Val {
	k := g.n(0, 14, "item")
	if depth <= 0 && k >= 8 {
		k = k % 8
	}
	var v gen.Val
	switch k {
	case 0:
		v = gen.I(int64(g.n(-2, 9, "i")))
	case 1:
		v = gen.S(rapid.SampledFrom([]string{"a", "b", "x", "unquote-me", "+", ":k", "true"}).Draw(g.t, "sym"))
	case 2:
		v = gen.Str("t")
	case 3, 4:
		g.stats["unquote"]++
		v = unq(g.unquoted())
	case 5, 6:
		g.stats["splice"]++
		v = splice(g.spliced())
	case 7:
		v = gen.L()
	case 14:
		// a template inside the template (a macro-writing macro): it is
		// ordinary list structure, unquotes below it are still instantiated
		g.stats["nested-quasiquote"]++
		v = gen.L(gen.S("quasiquote"), g.item(depth-1))
	case 8:
		// wrong arity forms
		g.stats["bad-unquote-arity"]++
		if g.n(0, 1, "which") == 0 {
			v = gen.L(gen.S("unquote"))
		} else {
			v = gen.L(gen.S("unquote-splicing"), gen.S("l1"), gen.S("l1"))
		}
	default:
		n := g.n(0, 4, "len")
		items := make([]gen.Val, n)
		for i := range items {
			items[i] = g.item(depth - 1)
		}
		if n >= 2 && g.n(0, 9, "force-adjacent") == 0 {
			items[0], items[1] = splice(g.spliced()), splice(g.spliced())
			g.stats["splice"]++
		}
		if n == 1 && g.n(0, 4, "force-only") == 0 {
			items[0] = splice(g.spliced())
			g.stats["splice"]++
		}
		v = gen.L(items...)
		if n >= 2 {
			for i := 0; i+1 < n; i++ {
				if isSplice(items[i]) && isSplice(items[i+1]) {
					g.stats["adjacent-splices"]++
				}
			}
		}
		if n == 1 && isSplice(items[0]) {
			g.stats["only-element-splice"]++
		}
	}
	q := g.n(0, 11, "quote")
	if q == 8 {
		v.Q++
		g.stats["quoted-item"]++
	} else if q == 9 {
		v.Q += 2
		g.stats["doubly-quoted-item"]++
	} else if q >= 10 {
		// "at any nesting of lists and quotes": three and four marks
		v.Q += q - 7
		g.stats["item-under-3-or-4-quotes"]++
	}
	return v
}

func isSplice(v gen.Val) bool {
	return v.K == "list" && v.Q == 0 && len(v.L) >= 1 && v.L[0].K == "sym" && string(v.L[0].B) == "unquote-splicing"
}

type QuasiCase struct {
	Tmpl2 *gen.Val       `json:"tmpl2,omitempty"` // a second template instantiated after the first, over the same values
	Tmpl  gen.Val        `json:"tmpl"`
	Depth int            `json:"depth"`
	Stats map[string]int `json:"stats"`
	// Mut: the template lives in a function that is called twice; the first
	// result is mutated in place (reeval_test.go) before the second call
	Mut *MutMode `json:"mut,omitempty"`
}

func genQuasi() *rapid.Generator[QuasiCase] {
	return rapid.Custom(func(t *rapid.T) QuasiCase {
		g := &qg{t: t, stats: map[string]int{}}
		d := rapid.IntRange(0, 5).Draw(t, "depth")
		qc := QuasiCase{Tmpl: g.item(d), Depth: d, Stats: g.stats}
		if rapid.IntRange(0, 9).Draw(t, "second") < 4 {
			t2 := g.item(rapid.IntRange(0, 3).Draw(t, "depth2"))
			qc.Tmpl2 = &t2
			g.stats["two-templates"]++
		}
		if rapid.IntRange(0, 9).Draw(t, "mutate-first-result") < 7 {
			m := genMutMode(t)
			qc.Mut = &m
		}
		return qc
	})
}

func checkQuasi(q QuasiCase, c *vcommon.Ctx) *vcommon.Failure {
	var binds []gen.Val
	for _, v := range qvars {
		binds = append(binds, gen.L(gen.S(v.name), v.init))
	}
	var body gen.Val = gen.L(gen.S("quasiquote"), q.Tmpl)
	if q.Tmpl2 != nil {
		// instantiating one template must not change what the next one sees
		body = gen.Call("list", body, gen.L(gen.S("quasiquote"), *q.Tmpl2), gen.L(gen.S("quasiquote"), q.Tmpl))
	}
	form := gen.L(gen.S("let"), gen.L(binds...), body)
	prog := []gen.Val{form}
	src := gen.RenderProgram(prog)
	if q.Mut != nil {
		// the same quasiquote form(s) evaluated twice; the bindings are made
		// anew by every call, so whatever the walker does to the first result
		// can reach nothing the second call sees
		def := gen.L(gen.S("defun"), gen.S("qq-g"), gen.L(), form)
		first := []gen.Val{def, gen.Call("set", gen.QS("qq-r"), gen.Call("qq-g")), gen.Call("probe", gen.I(9000), gen.S("qq-r"))}
		prog = append(append([]gen.Val{}, first...), gen.Call("qq-g"))
		src = mutDefs(*q.Mut) + gen.RenderProgram(first) + gen.Render(gen.Call(q.Mut.fn(), gen.S("qq-r"))) + "\n" + gen.Render(gen.Call("qq-g")) + "\n"
		c.Class("evaluated-twice-with-mutation-between")
	}
	for k, n := range q.Stats {
		if n > 0 {
			c.Class("has/" + k)
		}
	}
	if q.Stats["splice"] > 0 || q.Depth >= 2 {
		c.NonTrivial(src)
		c.Note(src)
	}
	in, rv, rerr, abort := refRun(prog)
	if abort != "" || in.Unsupported != "" {
		c.Class("skip/reference")
		return nil
	}
	rt := vcommon.NewRuntime(rtCfg)
	o := rt.Load(src)
	if o.Panic {
		return vcommon.Failf("internal-panic", "internal panic: %s\n%s", o.Msg, src)
	}
	if rerr != nil {
		// the documented error cases (splice at top level or inside a quote,
		// splice of a non-list, wrong unquote arity): an error is required;
		// how much of the template was evaluated before it is not specified
		c.Class("outcome/error")
		if !o.IsErr {
			return vcommon.Failf("quasiquote/accepts-invalid", "the reference rejects the template (%s), real returns %s\n%s", rerr.Msg, o.Canon, src)
		}
		return nil
	}
	realTrace, ws := splitWalkerTrace(rt.Trace)
	if q.Mut != nil {
		ws.classes(c)
	}
	if got, want := vcommon.TraceString(realTrace), refTrace(in); got != want {
		return vcommon.Failf("quasiquote/trace", "unquoted expressions were not evaluated as the template prescribes\n%s\nreal:\n%s\nreference:\n%s", src, got, want)
	}
	c.Class("outcome/value")
	if o.IsErr {
		return vcommon.Failf("quasiquote/rejects-valid", "real signals %s (%s), the reference builds %s\n%s", o.Cond, o.Msg, refint.Canon(rv), src)
	}
	if want := refint.Canon(rv); o.Canon != want {
		return vcommon.Failf("quasiquote/structure", "template instantiated wrongly: real %s reference %s\n%s", o.Canon, want, src)
	}
	return nil
}

// ---------- gensym freshness ----------

type GensymCase struct {
	Names []int  `json:"names"` // numbers N of genNNNNNNNN-shaped symbols written in the program
	Order []bool `json:"order"` // interleaving: true = (gensym), false = use a written symbol
	// The three slices below run parallel to Order (missing entries = 0 / false).
	// Kind: 0 as Order says; 1-3 the fresh symbols inside the one-step expansion
	// of a builtin macro that protects a temporary (trace, get-default, curry-function).
	Kind []int `json:"kind,omitempty"`
	// Pkg: 0 stay; 1-3 this item starts a new top-level load that begins with
	// (in-package 'gp1 | 'gp2 | 'user).
	Pkg []int `json:"pkg,omitempty"`
	// Split: this item starts a new top-level load of the same runtime.
	Split []bool `json:"split,omitempty"`
}

func genGensym() *rapid.Generator[GensymCase] {
	return rapid.Custom(func(t *rapid.T) GensymCase {
		g := GensymCase{
			Names: rapid.SliceOfN(rapid.IntRange(1, 12), 0, 4).Draw(t, "names"),
			Order: rapid.SliceOfN(rapid.Bool(), 1, 14).Draw(t, "order"),
		}
		if rapid.IntRange(0, 2).Draw(t, "plain") > 0 {
			n := len(g.Order)
			g.Kind, g.Pkg, g.Split = make([]int, n), make([]int, n), make([]bool, n)
			for i := 0; i < n; i++ {
				g.Kind[i] = rapid.SampledFrom([]int{0, 0, 0, 0, 1, 2, 3}).Draw(t, "kind")
				g.Pkg[i] = rapid.SampledFrom([]int{0, 0, 0, 1, 2, 3}).Draw(t, "pkg")
				g.Split[i] = rapid.IntRange(0, 3).Draw(t, "split") == 0
			}
		}
		return g
	})
}

var symTok = regexp.MustCompile(`[A-Za-z0-9_+\-*/=<>!&~%?$.:]+`)
var genTok = regexp.MustCompile(`^gen[0-9]+$`)

var gensymExpansions = []struct {
	src   string
	fresh int
}{
	1: {"(macroexpand-1 '(trace zz))", 1},
	2: {"(macroexpand-1 '(get-default zm \"k\" 0))", 2},
	3: {"(macroexpand-1 '(curry-function + 1))", 1},
}

// genSymbolsIn lists the distinct gen<digits> symbols of a value in order of
// first appearance.
func genSymbolsIn(v *lisp.LVal, seen map[string]bool, out *[]string) {
	if v == nil {
		return
	}
	if v.Type == lisp.LSymbol && genTok.MatchString(v.Str) && !seen[v.Str] {
		seen[v.Str] = true
		*out = append(*out, v.Str)
	}
	if v.Type == lisp.LSExpr || v.Type == lisp.LQuote {
		for _, c := range v.Cells {
			genSymbolsIn(c, seen, out)
		}
	}
}

func checkGensym(g GensymCase, c *vcommon.Ctx) *vcommon.Failure {
	at := func(xs []int, i int) int {
		if i < len(xs) {
			return xs[i]
		}
		return 0
	}
	// one or more top-level loads of the same runtime; each is (list item ...)
	type item struct{ kind int } // -1 written symbol, 0 (gensym), 1-3 expansion
	var loads []string
	var items [][]item
	var b strings.Builder
	var cur []item
	flush := func() {
		if len(cur) > 0 {
			b.WriteString(")")
			loads, items = append(loads, b.String()), append(items, cur)
		}
		b.Reset()
		cur = nil
	}
	ni := 0
	pkgs, split, kinds := false, false, false
	for i, gs := range g.Order {
		if i < len(g.Split) && g.Split[i] && len(cur) > 0 {
			flush()
			split = true
		}
		if p := at(g.Pkg, i); p >= 1 && p <= 3 {
			// a load restores the current package when it returns, so the
			// switch is the first form of the load it is meant for
			flush()
			b.WriteString("(in-package '" + []string{"", "gp1", "gp2", "user"}[p] + ") ")
			pkgs = true
		}
		if len(cur) == 0 {
			b.WriteString("(list")
		}
		switch k := at(g.Kind, i); {
		case k >= 1 && k <= 3:
			b.WriteString(" " + gensymExpansions[k].src)
			cur = append(cur, item{k})
			kinds = true
		case gs || len(g.Names) == 0:
			b.WriteString(" (gensym)")
			cur = append(cur, item{0})
		default:
			fmt.Fprintf(&b, " 'gen%08d", g.Names[ni%len(g.Names)])
			ni++
			cur = append(cur, item{-1})
		}
	}
	flush()
	src := strings.Join(loads, "\n")
	written := map[string]bool{}
	for _, tok := range symTok.FindAllString(src, -1) {
		written[tok] = true
	}
	if len(g.Names) > 0 || pkgs || kinds {
		c.NonTrivial(src)
		c.Note(src)
	}
	if pkgs {
		c.Class("has/package-switch")
	}
	if split {
		c.Class("has/several-top-level-loads")
	}
	if kinds {
		c.Class("has/builtin-macro-expansion")
	}
	rt := vcommon.NewRuntime(rtCfg)
	seen := map[string]bool{}
	for li, load := range loads {
		o := rt.Load(load)
		if o.IsErr {
			return vcommon.Failf("gensym/error", "unexpected error %s in %s\n%s", o.Msg, load, src)
		}
		if len(o.Val.Cells) != len(items[li]) {
			return vcommon.Failf("gensym/error", "unexpected result %s of %s", o.Canon, load)
		}
		for i, cell := range o.Val.Cells {
			var names []string
			switch it := items[li][i]; {
			case it.kind < 0:
				continue
			case it.kind == 0:
				if cell.Type != lisp.LSymbol {
					return vcommon.Failf("gensym/not-a-symbol", "(gensym) returned %s\n%s", vcommon.Canon(cell), src)
				}
				names = []string{cell.Str}
			default:
				genSymbolsIn(cell, map[string]bool{}, &names)
				if want := gensymExpansions[it.kind].fresh; len(names) != want {
					return vcommon.Failf("gensym/expansion-temporaries", "%s => %s holds %d distinct fresh symbols, %d expected\n%s", gensymExpansions[it.kind].src, vcommon.Canon(cell), len(names), want, src)
				}
			}
			for _, name := range names {
				if seen[name] {
					return vcommon.Failf("gensym/duplicate", "the fresh symbol %s was handed out twice in one runtime\n%s\nlast load => %s", name, src, o.Canon)
				}
				seen[name] = true
				if written[name] {
					return vcommon.Failf("gensym/collides-with-program-symbol", "gensym returned %s, a symbol the program text itself contains\n%s => %s", name, src, o.Canon)
				}
			}
		}
	}
	return nil
}

// ---------- at the expansion-depth limit a call and its macroexpand still agree ----------

type ChainCase struct {
	Limit int  `json:"limit"` // configured maximum number of successive expansions
	Delta int  `json:"delta"` // chain length = limit + delta
	Atom  bool `json:"atom"`  // the chain ends in an atom instead of a list form
}

func checkChain(cc ChainCase, c *vcommon.Ctx) *vcommon.Failure {
	if cc.Limit < 2 {
		return nil
	}
	n := cc.Limit + cc.Delta
	if n < 0 {
		n = 0
	}
	last := "(quasiquote (+ 40 2))"
	if cc.Atom {
		last = "42"
	}
	defs := "(defmacro ch (n) (if (<= n 0) " + last + " (quasiquote (ch (unquote (- n 1))))))"
	cfg := rtCfg
	cfg.MaxMacroDepth = cc.Limit
	run := func(src string) vcommon.Outcome {
		rt := vcommon.NewRuntime(cfg)
		if o := rt.Load(defs); o.IsErr {
			return o
		}
		return rt.Load(src)
	}
	call := fmt.Sprintf("(ch %d)", n)
	direct := run(call)
	viaExpand := run(fmt.Sprintf("(eval (macroexpand '%s))", call))
	c.Class(fmt.Sprintf("delta/%+d", cc.Delta))
	if direct.Panic || viaExpand.Panic {
		return vcommon.Failf("internal-panic", "internal panic at the expansion limit: %s / %s", direct.Msg, viaExpand.Msg)
	}
	if !direct.IsErr {
		c.NonTrivial(fmt.Sprintf("%d/%d/%v", cc.Limit, cc.Delta, cc.Atom))
		c.Class("call-succeeds")
		if viaExpand.IsErr {
			return vcommon.Failf("limit/macroexpand-fails-where-call-succeeds", "with at most %d successive expansions %s evaluates to %s, but (macroexpand '%s) fails: %s (%s)", cc.Limit, call, direct.Canon, call, viaExpand.Cond, viaExpand.Msg)
		}
		if viaExpand.Canon != direct.Canon {
			return vcommon.Failf("limit/macroexpand-differs", "%s evaluates to %s, evaluating its macroexpand gives %s", call, direct.Canon, viaExpand.Canon)
		}
		// macroexpand is macroexpand-1 iterated to its fixed point
		rt := vcommon.NewRuntime(cfg)
		rt.Load(defs)
		full := rt.Load(fmt.Sprintf("(macroexpand '%s)", call))
		cur := "'" + call
		var step vcommon.Outcome
		for i := 0; i <= n+2; i++ {
			step = rt.Load("(macroexpand-1 " + cur + ")")
			if step.IsErr {
				break
			}
			next := step.Text
			if next == cur || "'"+next == cur {
				break
			}
			cur = next
			if !strings.HasPrefix(cur, "'") {
				cur = "'" + cur
			}
		}
		if !step.IsErr && !full.IsErr && step.Canon != full.Canon {
			return vcommon.Failf("limit/macroexpand-1-fixed-point", "iterating macroexpand-1 on %s ends at %s, macroexpand gives %s", call, step.Canon, full.Canon)
		}
	} else {
		c.Class("call-refused")
	}
	return nil
}

func genChain() *rapid.Generator[ChainCase] {
	return rapid.Custom(func(t *rapid.T) ChainCase {
		return ChainCase{Limit: rapid.IntRange(2, 60).Draw(t, "limit"), Delta: rapid.IntRange(-4, 3).Draw(t, "delta"), Atom: rapid.IntRange(0, 3).Draw(t, "atom") == 0}
	})
}

func TestCheck(t *testing.T) {
	vcommon.Main(t, "C07",
		vcommon.S("macros", 60000, 1500000, genMacroCase(), checkMacro),
		vcommon.S("quasiquote", 120000, 3000000, genQuasi(), checkQuasi),
		vcommon.S("gensym", 20000, 300000, genGensym(), checkGensym),
		vcommon.S("expansion-limit", 4000, 60000, genChain(), checkChain),
		vcommon.S("reeval", 48000, 1200000, genReeval(), checkReeval),
		vcommon.S("gensym-long", 64, 1, genGensymLong(), checkGensymLong),
	)
}
