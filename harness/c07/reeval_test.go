// C07, re-evaluation: a quasiquote form, a macro call and a macroexpand call
// give the result their WRITTEN text prescribes on every evaluation, whatever
// the program did to the values earlier evaluations returned.
//
// Every case evaluates one textual template / call site two to four times in
// ONE runtime.  Between two evaluations the real interpreter (only) runs a
// walker written in lisp over the earlier result: it applies every in-place
// mutator of the language -- stable-sort with and without a key function on
// lists and vectors, append! on vectors, assoc! on maps -- to the result, to
// its sub-lists, through quote wrappers, or to both.  By construction every
// list, vector and map reachable from a result is either written in the
// template (a fresh copy per instantiation), built by a constructor call that
// runs again on every instantiation, or a literal of the program text (which
// the mutators must copy, not rewrite), so nothing the walker does may be
// visible afterwards.  The reference interpreter therefore runs the SAME
// program WITHOUT the walker; its lists are immutable values instantiated
// from the written template each time.
package c07

import (
	"fmt"
	"strings"

	"github.com/luthersystems/elps/verifharness/gen"
	"github.com/luthersystems/elps/verifharness/refint"
	"github.com/luthersystems/elps/verifharness/vcommon"
	"pgregory.net/rapid"
)

// MutMode selects what the walker does.
type MutMode struct {
	// Sort: 0 `<` (through the key function only where an element is no int),
	// 1 `>` likewise, 2 `<` always through the key function, 3 `>` always
	// through the key function, 4 a predicate that is always true (sort.Stable
	// then reverses short sequences).
	Sort int `json:"sort"`
	// Scope: 0 the result and everything below it, 1 the result itself only,
	// 2 only what is below it.
	Scope int `json:"scope"`
	// AppendFirst: vectors are extended before they are sorted.
	AppendFirst bool `json:"append_first"`
}

func genMutMode(t *rapid.T) MutMode {
	return MutMode{
		Sort:        rapid.IntRange(0, 4).Draw(t, "mut-sort"),
		Scope:       rapid.SampledFrom([]int{0, 0, 0, 0, 1, 2, 2}).Draw(t, "mut-scope"),
		AppendFirst: rapid.Bool().Draw(t, "mut-append-first"),
	}
}

// walker event tags (host probes made by the walker; never part of the
// compared trace)
const (
	tagBefore = "7001"
	tagAfter  = "7002"
	tagAppend = "7003"
	tagAssoc  = "7004"
)

func (m MutMode) fn() string {
	switch m.Scope {
	case 1:
		return "mut-one"
	case 2:
		return "mut-subs"
	}
	return "mut-all"
}

// mutDefs is the walker's source text.  It is loaded into the real runtime
// only.
func mutDefs(m MutMode) string {
	var sortForm string
	switch m.Sort {
	case 0:
		sortForm = "(if (all? int? v) (stable-sort < v) (stable-sort < v mut-key))"
	case 1:
		sortForm = "(if (all? int? v) (stable-sort > v) (stable-sort > v mut-key))"
	case 2:
		sortForm = "(stable-sort < v mut-key)"
	case 3:
		sortForm = "(stable-sort > v mut-key)"
	default:
		sortForm = "(stable-sort (lambda (a b) true) v)"
	}
	vec := "(mut-seq v) (append! v 99 98) (probe " + tagAppend + " 1)"
	if m.AppendFirst {
		vec = "(append! v 99 98) (probe " + tagAppend + " 1) (mut-seq v)"
	}
	return `(defun mut-key (v) (cond ((int? v) v) ((string? v) (length v)) ((symbol? v) (length (to-string v))) ((list? v) (+ 100 (length v))) (:else 50)))
(defun mut-seq (v) (if (< (length v) 2) () (progn (probe ` + tagBefore + ` v) ` + sortForm + ` (probe ` + tagAfter + ` v))))
(defun mut-one (v) (cond ((equal? (type v) 'quote) (mut-one (eval v))) ((list? v) (mut-seq v)) ((vector? v) (progn ` + vec + `)) ((sorted-map? v) (progn (assoc! v "zz" 1) (probe ` + tagAssoc + ` 1))) (:else ())))
(defun mut-subs (v) (cond ((equal? (type v) 'quote) (mut-subs (eval v))) ((list? v) (map 'list mut-all v)) ((vector? v) (map 'list mut-all v)) ((sorted-map? v) (map 'list (lambda (k) (mut-all (get v k))) (keys v))) (:else ())))
(defun mut-all (v) (progn (mut-subs v) (mut-one v) ()))
`
}

// splitWalkerTrace separates the walker's own events from the program's and
// reports what the walker did.
type walkerStats struct {
	sorted, changed, appended, assoced int
}

func splitWalkerTrace(tr []vcommon.Event) ([]vcommon.Event, walkerStats) {
	var ws walkerStats
	var out []vcommon.Event
	before := ""
	for _, e := range tr {
		switch e.Tag {
		case tagBefore:
			before = e.Payload
		case tagAfter:
			ws.sorted++
			if e.Payload != before {
				ws.changed++
			}
		case tagAppend:
			ws.appended++
		case tagAssoc:
			ws.assoced++
		default:
			out = append(out, e)
		}
	}
	return out, ws
}

func (ws walkerStats) classes(c *vcommon.Ctx) {
	if ws.sorted > 0 {
		c.Class("walker/sorted-a-sequence")
	}
	if ws.changed > 0 {
		c.Class("walker/sort-changed-order-in-place")
	}
	if ws.appended > 0 {
		c.Class("walker/append!-on-a-vector")
	}
	if ws.assoced > 0 {
		c.Class("walker/assoc!-on-a-map")
	}
	if ws.sorted+ws.appended+ws.assoced == 0 {
		c.Class("walker/nothing-to-mutate")
	}
}

// renderBr renders like gen.Render, except that the k-th quoted list (in
// reading order) is written with brackets when bit k of mask is set:
// [a b] is the documented other spelling of '(a b).
func renderBr(b *strings.Builder, v gen.Val, mask uint64, k *int) {
	q := v.Q
	if v.K != "list" {
		b.WriteString(gen.Render(v))
		return
	}
	br := false
	if q >= 1 && len(v.L) > 0 {
		br = mask>>(uint(*k)%64)&1 == 1
		*k++
		if br {
			q--
		}
	}
	for i := 0; i < q; i++ {
		b.WriteByte('\'')
	}
	if br {
		b.WriteByte('[')
	} else {
		b.WriteByte('(')
	}
	for i, c := range v.L {
		if i > 0 {
			b.WriteByte(' ')
		}
		renderBr(b, c, mask, k)
	}
	if br {
		b.WriteByte(']')
	} else {
		b.WriteByte(')')
	}
}

func renderProgramBr(forms []gen.Val, mask uint64) string {
	var b strings.Builder
	k := 0
	for _, f := range forms {
		renderBr(&b, f, mask, &k)
		b.WriteByte('\n')
	}
	return b.String()
}

// ---------- generator ----------

const (
	siteDefun        = iota // (defun tf (a l) `T), evaluations are top-level forms
	siteLambdaLoop          // a lambda held in a let, called from a dotimes body
	siteInlineLoop          // the quasiquote form itself is the dotimes body
	siteDefmacro            // (defmacro tm (a l &rest r) ...), evaluations are top-level forms
	siteDefmacroOnce        // one textual call site inside a function that is called repeatedly
	siteMacrolet            // macrolet, evaluations in a progn
	siteMacroletLoop        // macrolet, one call site in a dotimes body
	nSites
)

var siteNames = []string{"defun", "lambda-in-loop", "inline-in-loop", "defmacro", "defmacro-one-call-site", "macrolet", "macrolet-in-loop"}

func macroSite(s int) bool { return s >= siteDefmacro }

const (
	bodyQuoteT  = iota // (quasiquote (quote T)): the call's value is T instantiated over the argument FORMS
	bodyQuotedT        // (quasiquote 'T) / (quasiquote [T])
	bodyListT          // (quasiquote (list X ...)): every X evaluates to the datum written
	bodyLiteral        // no quasiquote: the body is a quoted literal (quote 'T)
	// bodySortsRest: the macro reads the first of its &rest forms and then
	// sorts the &rest list IN PLACE before splicing it: (quasiquote (quote
	// ((unquote (first r)) (unquote-splicing (stable-sort < r)) T...))).  The
	// &rest list is the macro's own; the call form (or the quoted form handed
	// to macroexpand) must read the same the next time it is expanded.
	bodySortsRest
)

type ReevalCase struct {
	Site     int            `json:"site"`
	Body     int            `json:"body"`
	Tmpl     gen.Val        `json:"tmpl"`
	ArgA     gen.Val        `json:"arg_a"`
	ArgL     gen.Val        `json:"arg_l"`
	Rest     []gen.Val      `json:"rest"`
	Steps    []int          `json:"steps"` // one per evaluation: 0 call, 1 macroexpand, 2 macroexpand-1
	Brackets uint64         `json:"brackets"`
	Mut      MutMode        `json:"mut"`
	Stats    map[string]int `json:"stats"`
	// Closure: the macro is defined inside (let ((kv 41)) ...) and its
	// template may insert kv (a macro is a closure over its defining scope)
	Closure bool `json:"closure"`
}

type rg struct {
	t     *rapid.T
	stats map[string]int
	probe int
	macro bool
	body  int
	// closure: the template may name kv, a variable of the scope the macro is defined in
	closure bool
}

func (g *rg) n(lo, hi int, l string) int { return rapid.IntRange(lo, hi).Draw(g.t, l) }

func (g *rg) atom() gen.Val {
	switch g.n(0, 9, "atom") {
	case 0:
		return gen.S(rapid.SampledFrom([]string{"a", "b", "zz", "x", "+"}).Draw(g.t, "sym"))
	case 1:
		return gen.Str(rapid.SampledFrom([]string{"", "s", "str"}).Draw(g.t, "str"))
	case 2:
		return gen.S(rapid.SampledFrom([]string{":k", ":key"}).Draw(g.t, "kw"))
	case 3:
		return gen.QS(rapid.SampledFrom([]string{"q", "quo"}).Draw(g.t, "qsym"))
	default:
		return gen.I(int64(g.n(0, 9, "int")))
	}
}

func (g *rg) quoteOf(v gen.Val, label string) gen.Val {
	switch q := g.n(0, 9, label); {
	case q >= 9:
		v.Q = 2
		g.stats["doubly-quoted-list"]++
	case q >= 6:
		v.Q = 1
		g.stats["quoted-list"]++
	}
	return v
}

// atomList: a list of atoms only (what a copy-on-first-replacement walk never copies).
func (g *rg) atomList() gen.Val {
	n := g.n(2, 5, "alen")
	items := make([]gen.Val, n)
	ints := g.n(0, 3, "all-ints") > 0
	for i := range items {
		if ints {
			items[i] = gen.I(int64(g.n(0, 9, "int")))
		} else {
			items[i] = g.atom()
		}
	}
	g.stats["all-atom-list"]++
	return g.quoteOf(gen.L(items...), "aquote")
}

func (g *rg) unquoted() gen.Val {
	k := g.n(0, 7, "uexpr")
	if g.closure && g.n(0, 2, "kv") == 0 {
		g.stats["unquote-of-closed-over-variable"]++
		return gen.S("kv")
	}
	if g.macro && g.body == bodySortsRest && k >= 6 {
		// r is sorted in place by the body: no second reference to it
		return gen.S("a")
	}
	if g.macro && k >= 6 {
		// the macro's &rest list: a fresh list of the argument forms
		g.stats["unquote-of-rest-list"]++
		return gen.S("r")
	}
	switch k {
	case 0, 1:
		return gen.S("a")
	case 2:
		g.stats["unquote-of-list-argument"]++
		return gen.S("l")
	case 3:
		g.stats["unquote-of-fresh-list"]++
		return gen.Call("list", gen.I(int64(g.n(0, 9, "i"))), gen.I(int64(g.n(0, 9, "j"))), gen.S("a"))
	case 4:
		if g.macro && g.body == bodyListT {
			return gen.S("a")
		}
		g.stats["unquote-of-vector"]++
		return gen.Call("vector", gen.I(int64(g.n(0, 9, "i"))), gen.I(int64(g.n(0, 9, "j"))), gen.Call("list", gen.I(int64(g.n(0, 9, "k"))), gen.I(int64(g.n(0, 9, "m")))))
	case 5:
		if g.macro && g.body == bodyListT {
			return gen.S("a")
		}
		g.stats["unquote-of-map"]++
		return gen.Call("sorted-map", gen.Str("k"), gen.Call("list", gen.I(int64(g.n(0, 9, "i"))), gen.I(int64(g.n(0, 9, "j")))))
	default:
		g.probe++
		return gen.Call("probe", gen.I(int64(g.probe)), gen.S("a"))
	}
}

func (g *rg) spliced() gen.Val {
	k := g.n(0, 5, "sexpr")
	if g.macro && g.body == bodySortsRest && k >= 4 {
		return gen.S("l")
	}
	if g.macro && k >= 4 {
		g.stats["splice-of-rest-list"]++
		return gen.S("r")
	}
	switch k {
	case 0, 1:
		return gen.S("l")
	case 2:
		return gen.Call("identity", gen.S("l"))
	default:
		if g.macro && g.body == bodyListT {
			// elements must be evaluable forms
			return gen.Call("list", gen.I(int64(g.n(0, 9, "i"))), gen.I(int64(g.n(0, 9, "j"))))
		}
		return gen.Call("list", gen.I(int64(g.n(0, 9, "i"))), gen.I(int64(g.n(0, 9, "j"))), gen.S("a"))
	}
}

func (g *rg) item(depth int) gen.Val {
	k := g.n(0, 12, "item")
	if depth <= 0 && k >= 10 {
		k -= 7
	}
	switch {
	case k <= 1:
		return g.atom()
	case k <= 5:
		return g.atomList()
	case k <= 7:
		g.stats["unquote"]++
		return unq(g.unquoted())
	case k <= 9:
		g.stats["splice"]++
		return splice(g.spliced())
	default:
		return g.quoteOf(g.list(depth-1), "lquote")
	}
}

func (g *rg) list(depth int) gen.Val {
	n := g.n(1, 5, "len")
	items := make([]gen.Val, n)
	atoms, unqs, subs := 0, 0, 0
	for i := range items {
		items[i] = g.item(depth)
		switch {
		case items[i].K != "list":
			atoms++
		case isSplice(items[i]) || isUnquote(items[i]):
			unqs++
		default:
			subs++
		}
	}
	if atoms > 0 && unqs > 0 {
		g.stats["list-mixing-atoms-and-unquotes"]++
	}
	if subs > 0 && depth >= 1 {
		g.stats["nested-sub-list"]++
	}
	return gen.L(items...)
}

func isUnquote(v gen.Val) bool {
	return v.K == "list" && len(v.L) >= 1 && v.L[0].K == "sym" && string(v.L[0].B) == "unquote"
}

// evaluable turns a template item into one whose instantiation EVALUATES to
// the datum written (body kind (list X ...)): lists and symbols are quoted.
func evaluable(v gen.Val) gen.Val {
	if isSplice(v) {
		return v
	}
	if isUnquote(v) {
		// a and l are bound to evaluable argument forms; everything else the
		// macro computes is data and must be quoted
		if e := v.L[1]; e.K == "sym" && (string(e.B) == "a" || string(e.B) == "l") {
			return v
		}
		if v.Q == 0 {
			v.Q = 1
		}
		return v
	}
	if (v.K == "list" || (v.K == "sym" && v.B[0] != ':')) && v.Q == 0 {
		v.Q = 1
	}
	return v
}

func (g *rg) intList(label string) []gen.Val {
	n := g.n(2, 4, label)
	out := make([]gen.Val, n)
	for i := range out {
		out[i] = gen.I(int64(g.n(0, 9, label+"-i")))
	}
	return out
}

func genReeval() *rapid.Generator[ReevalCase] {
	return rapid.Custom(func(t *rapid.T) ReevalCase {
		g := &rg{t: t, stats: map[string]int{}}
		rc := ReevalCase{Site: g.n(0, nSites-1, "site"), Stats: g.stats}
		g.macro = macroSite(rc.Site)
		if g.macro {
			rc.Body = rapid.SampledFrom([]int{bodyQuoteT, bodyQuoteT, bodyQuoteT, bodyQuotedT, bodyQuotedT, bodyListT, bodyListT, bodyLiteral, bodySortsRest, bodySortsRest}).Draw(t, "body")
			g.body = rc.Body
			rc.Closure = g.n(0, 3, "closure") == 0
			g.closure = rc.Closure
		}
		depth := g.n(0, 2, "depth")
		rc.Tmpl = g.list(depth)
		switch {
		case g.macro && rc.Body == bodyListT:
			items := []gen.Val{gen.S("list")}
			for _, it := range rc.Tmpl.L {
				items = append(items, evaluable(it))
			}
			rc.Tmpl = gen.L(items...)
		case g.macro && rc.Body == bodyLiteral:
			// plain data: no unquote may remain (it would be literal text)
			rc.Tmpl = stripUnquotes(rc.Tmpl)
		}
		// arguments
		switch g.n(0, 2, "arg-a") {
		case 0:
			rc.ArgA = gen.I(int64(g.n(0, 9, "a")))
		case 1:
			rc.ArgA = gen.QS("sy")
		default:
			rc.ArgA = gen.Str("st")
		}
		evalOnly := !g.macro || rc.Body == bodyListT
		switch k := g.n(0, 4, "arg-l"); {
		case k <= 1 || (rc.Body == bodyListT && g.macro):
			rc.ArgL = gen.QL(g.intList("larg")...)
		case k == 2:
			rc.ArgL = gen.Call("list", g.intList("larg")...)
		case k == 3:
			rc.ArgL = gen.Call("list", gen.I(int64(g.n(0, 9, "x"))), gen.Call("list", g.intList("larg")...))
		default:
			if evalOnly {
				rc.ArgL = gen.QL(gen.I(int64(g.n(0, 9, "x"))), gen.QL(g.intList("larg")...))
			} else {
				// an argument FORM that is a plain list: data for the macro
				g.stats["raw-list-argument-form"]++
				rc.ArgL = gen.L(g.intList("larg")...)
			}
		}
		if g.macro && rc.Body == bodySortsRest {
			rc.Rest = g.intList("sorted-rest")
		} else if g.macro {
			for i, n := 0, g.n(0, 3, "nrest"); i < n; i++ {
				switch k := g.n(0, 3, "rest"); {
				case k <= 1:
					rc.Rest = append(rc.Rest, gen.I(int64(g.n(0, 9, "ri"))))
				case k == 2 || evalOnly:
					rc.Rest = append(rc.Rest, gen.QL(g.intList("rarg")...))
				default:
					rc.Rest = append(rc.Rest, gen.L(g.intList("rarg")...))
				}
			}
		}
		n := g.n(2, 4, "evaluations")
		rc.Steps = make([]int, n)
		if rc.Site == siteDefmacro || rc.Site == siteDefmacroOnce || rc.Site == siteMacrolet {
			for i := range rc.Steps {
				rc.Steps[i] = rapid.SampledFrom([]int{0, 0, 0, 1, 2}).Draw(t, "step")
			}
		}
		rc.Brackets = rapid.Uint64().Draw(t, "brackets")
		if g.n(0, 2, "no-brackets") == 0 {
			rc.Brackets = 0
		}
		rc.Mut = genMutMode(t)
		return rc
	})
}

func stripUnquotes(v gen.Val) gen.Val {
	if v.K != "list" {
		return v
	}
	if isUnquote(v) || isSplice(v) {
		return gen.I(7)
	}
	out := v
	out.L = make([]gen.Val, len(v.L))
	for i := range v.L {
		out.L[i] = stripUnquotes(v.L[i])
	}
	return out
}

// ---------- program construction ----------

type twoProgs struct {
	real, ref []gen.Val
	mutFn     string
}

func (p *twoProgs) both(f gen.Val) { p.real, p.ref = append(p.real, f), append(p.ref, f) }

const stepTagBase = 100

// reevalPrograms builds the real program (with walker calls) and the
// reference program (without).
func reevalPrograms(rc ReevalCase) (real, ref []gen.Val) {
	mut := func(sym string) gen.Val { return gen.Call(rc.Mut.fn(), gen.S(sym)) }
	qq := gen.L(gen.S("quasiquote"), rc.Tmpl)
	callArgs := append([]gen.Val{rc.ArgA, rc.ArgL}, rc.Rest...)
	tmCall := gen.L(append([]gen.Val{gen.S("tm")}, callArgs...)...)
	quotedCall := tmCall
	quotedCall.Q = 1
	stepForm := func(kind int) gen.Val {
		switch kind {
		case 1:
			return gen.Call("macroexpand", quotedCall)
		case 2:
			return gen.Call("macroexpand-1", quotedCall)
		}
		return tmCall
	}
	var macroBody gen.Val
	switch rc.Body {
	case bodyQuoteT:
		macroBody = gen.L(gen.S("quasiquote"), gen.L(gen.S("quote"), rc.Tmpl))
	case bodyQuotedT:
		t := rc.Tmpl
		t.Q = 1
		macroBody = gen.L(gen.S("quasiquote"), t)
	case bodyListT:
		macroBody = qq
	case bodySortsRest:
		items := []gen.Val{unq(gen.Call("first", gen.S("r"))), splice(gen.Call("stable-sort", gen.S("<"), gen.S("r")))}
		macroBody = gen.L(gen.S("quasiquote"), gen.L(gen.S("quote"), gen.L(append(items, rc.Tmpl.L...)...)))
	default:
		t := rc.Tmpl
		t.Q = 1
		macroBody = gen.L(gen.S("quote"), t)
	}
	macroFormals := gen.L(gen.S("a"), gen.S("l"), gen.S("&rest"), gen.S("r"))
	closed := func(f gen.Val) gen.Val {
		if !rc.Closure {
			return f
		}
		return gen.L(gen.S("let"), gen.L(gen.L(gen.S("kv"), gen.I(41))), f)
	}
	// the body of a loop: bind the result, show it, (real only) mutate it
	loop := func(n int, step gen.Val) (gen.Val, gen.Val) {
		bind := gen.L(gen.L(gen.S("res"), step))
		show := gen.Call("probe", gen.Call("+", gen.I(stepTagBase), gen.S("i")), gen.S("res"))
		head := []gen.Val{gen.S("dotimes"), gen.L(gen.S("i"), gen.I(int64(n)))}
		realLoop := gen.L(append(append([]gen.Val{}, head...), gen.L(gen.S("let"), bind, show, mut("res")))...)
		refLoop := gen.L(append(append([]gen.Val{}, head...), gen.L(gen.S("let"), bind, show))...)
		return realLoop, refLoop
	}
	// a sequence of evaluations as forms
	seq := func(stepOf func(i int) gen.Val) (rs, fs []gen.Val) {
		for i := range rc.Steps {
			set := gen.Call("set", gen.QS("res"), stepOf(i))
			show := gen.Call("probe", gen.I(int64(stepTagBase+i)), gen.S("res"))
			rs = append(rs, set, show, mut("res"))
			fs = append(fs, set, show)
		}
		// one more evaluation is the program's value
		rs, fs = append(rs, stepOf(0)), append(fs, stepOf(0))
		return
	}
	n := len(rc.Steps)
	switch rc.Site {
	case siteDefun:
		def := gen.L(gen.S("defun"), gen.S("tf"), gen.L(gen.S("a"), gen.S("l")), qq)
		call := gen.Call("tf", rc.ArgA, rc.ArgL)
		rs, fs := seq(func(int) gen.Val { return call })
		real, ref = append([]gen.Val{def}, rs...), append([]gen.Val{def}, fs...)
	case siteLambdaLoop:
		lam := gen.L(gen.S("lambda"), gen.L(gen.S("a"), gen.S("l")), qq)
		rl, fl := loop(n, gen.Call("f", rc.ArgA, rc.ArgL))
		wrap := func(body gen.Val) gen.Val {
			return gen.L(gen.S("let"), gen.L(gen.L(gen.S("f"), lam)), body, gen.Call("f", rc.ArgA, rc.ArgL))
		}
		real, ref = []gen.Val{wrap(rl)}, []gen.Val{wrap(fl)}
	case siteInlineLoop:
		// the bindings are made anew on every turn: a list built once outside
		// the loop and unquoted into every result would be legitimately shared
		bound := gen.L(gen.S("let"), gen.L(gen.L(gen.S("a"), rc.ArgA), gen.L(gen.S("l"), rc.ArgL)), qq)
		rl, fl := loop(n, bound)
		real, ref = []gen.Val{rl}, []gen.Val{fl}
	case siteDefmacro:
		def := closed(gen.L(gen.S("defmacro"), gen.S("tm"), macroFormals, macroBody))
		rs, fs := seq(func(i int) gen.Val { return stepForm(rc.Steps[i]) })
		real, ref = append([]gen.Val{def}, rs...), append([]gen.Val{def}, fs...)
	case siteDefmacroOnce:
		defs := []gen.Val{
			closed(gen.L(gen.S("defmacro"), gen.S("tm"), macroFormals, macroBody)),
			gen.L(gen.S("defun"), gen.S("once-0"), gen.L(), stepForm(0)),
			gen.L(gen.S("defun"), gen.S("once-1"), gen.L(), stepForm(1)),
			gen.L(gen.S("defun"), gen.S("once-2"), gen.L(), stepForm(2)),
		}
		rs, fs := seq(func(i int) gen.Val { return gen.Call(fmt.Sprintf("once-%d", rc.Steps[i])) })
		real, ref = append(append([]gen.Val{}, defs...), rs...), append(append([]gen.Val{}, defs...), fs...)
	case siteMacrolet:
		rs, fs := seq(func(i int) gen.Val { return stepForm(rc.Steps[i]) })
		wrap := func(body []gen.Val) gen.Val {
			return closed(gen.L(gen.S("macrolet"), gen.L(gen.L(gen.S("tm"), macroFormals, macroBody)), gen.L(append([]gen.Val{gen.S("progn")}, body...)...)))
		}
		real, ref = []gen.Val{wrap(rs)}, []gen.Val{wrap(fs)}
	default: // siteMacroletLoop
		rl, fl := loop(n, tmCall)
		wrap := func(body gen.Val) gen.Val {
			return closed(gen.L(gen.S("macrolet"), gen.L(gen.L(gen.S("tm"), macroFormals, macroBody)), body))
		}
		real, ref = []gen.Val{wrap(rl)}, []gen.Val{wrap(fl)}
	}
	return real, ref
}

// stepPayloads groups the results shown by the program by kind of evaluation.
func stepPayloads(rc ReevalCase, tr []vcommon.Event) map[int][]string {
	out := map[int][]string{}
	for _, e := range tr {
		var tag int
		if _, err := fmt.Sscanf(e.Tag, "%d", &tag); err != nil || fmt.Sprint(tag) != e.Tag {
			continue
		}
		i := tag - stepTagBase
		if i < 0 || i >= len(rc.Steps) {
			continue
		}
		out[rc.Steps[i]] = append(out[rc.Steps[i]], e.Payload)
	}
	return out
}

func checkReeval(rc ReevalCase, c *vcommon.Ctx) *vcommon.Failure {
	if len(rc.Steps) < 2 || rc.Site < 0 || rc.Site >= nSites {
		return nil
	}
	realForms, refForms := reevalPrograms(rc)
	src := mutDefs(rc.Mut) + renderProgramBr(realForms, rc.Brackets)
	c.Class("site/" + siteNames[rc.Site])
	if macroSite(rc.Site) {
		c.Class(fmt.Sprintf("macro-body/%d", rc.Body))
		if rc.Closure {
			c.Class("macro-defined-inside-let")
		}
		for _, s := range rc.Steps {
			if s != 0 {
				c.Class("has/macroexpand-step")
				break
			}
		}
	}
	for k, n := range rc.Stats {
		if n > 0 {
			c.Class("has/" + k)
		}
	}
	if rc.Brackets != 0 && strings.Contains(src, "[") {
		c.Class("has/bracket-list")
	}
	c.Class(fmt.Sprintf("mut/sort-%d", rc.Mut.Sort))
	c.Class(fmt.Sprintf("mut/scope-%d", rc.Mut.Scope))
	rt := vcommon.NewRuntime(rtCfg)
	o := rt.Load(src)
	if o.Panic {
		return vcommon.Failf("internal-panic", "internal panic: %s\n%s", o.Msg, src)
	}
	if o.Cond == "step-limit-exceeded" {
		c.Class("skip/limit")
		return nil
	}
	tr, ws := splitWalkerTrace(rt.Trace)
	ws.classes(c)
	if ws.changed > 0 {
		c.NonTrivial(src)
		c.Note(src)
	}
	// (1) no reference needed: the same evaluation gives the same result each
	// time (the program is pure apart from its probes)
	for kind, ps := range stepPayloads(rc, tr) {
		for i := 1; i < len(ps); i++ {
			if ps[i] != ps[0] {
				return vcommon.Failf("reeval/later-evaluation-differs", "evaluation %d of the same %s gives %s, the first gave %s (an earlier result was mutated in place in between)\n%s", i+1, []string{"call / template", "macroexpand", "macroexpand-1"}[kind], ps[i], ps[0], src)
			}
		}
	}
	// (2) every result is the instantiation of the WRITTEN template
	in, rv, rerr, abort := refRun(refForms)
	if abort != "" || in.Unsupported != "" {
		c.Class("skip/reference")
		return nil
	}
	if rerr != nil {
		c.Class("outcome/error")
		if !o.IsErr {
			return vcommon.Failf("reeval/accepts-invalid", "the reference rejects the program (%s), real returns %s\n%s", rerr.Msg, o.Canon, src)
		}
		return nil
	}
	c.Class("outcome/value")
	if got, want := vcommon.TraceString(tr), refTrace(in); got != want {
		return vcommon.Failf("reeval/trace", "results differ from the instantiation of the written template\n%s\nreal:\n%s\nreference:\n%s", src, got, want)
	}
	if o.IsErr {
		return vcommon.Failf("reeval/rejects-valid", "real signals %s (%s), the reference returns %s\n%s", o.Cond, o.Msg, refint.Canon(rv), src)
	}
	if want := refint.Canon(rv); o.Canon != want {
		return vcommon.Failf("reeval/value", "real %s reference %s\n%s", o.Canon, want, src)
	}
	return nil
}
