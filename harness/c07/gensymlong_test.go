// C07, gensym over the life of a runtime: symbols from gensym are distinct
// from one another -- not only the first few of a fresh runtime.  One case
// draws names from ONE runtime until the per-runtime counter has crossed every
// power of ten up to 10^Exp (and a little more), through the exported Go entry
// points the gensym builtin itself uses (Runtime.GenSym / LEnv.GenSym), with
// real (gensym) evaluations at the start, around every power of ten and at the
// end.  The quick tier stops at 10^5 (a smoke run); only the thorough tier
// reaches 10^8, where a counter rendered into a fixed-width field wraps
// (about 45 s of CPU per case on an idle core).
package c07

import (
	"fmt"
	"os"
	"strconv"

	"github.com/luthersystems/elps/lisp"
	"github.com/luthersystems/elps/verifharness/vcommon"
	"pgregory.net/rapid"
)

type GensymLongCase struct {
	Exp    int `json:"exp"`    // draw until 10^Exp names have been handed out ...
	Past   int `json:"past"`   // ... and this many more
	Window int `json:"window"` // names kept in memory on each side of every power of ten
	Head   int `json:"head"`   // the first names are kept as well
	Via    int `json:"via"`    // bulk draws: 0 Runtime.GenSym, 1 LEnv.GenSym, 2 alternating
	Lisp   int `json:"lisp"`   // (gensym) evaluations at the start, at every power of ten and at the end
	// Pkgs: every other (gensym) evaluation is made from another package
	// (the load begins with (in-package 'glN), N cycling through 3 packages)
	Pkgs bool `json:"pkgs"`
}

func genGensymLong() *rapid.Generator[GensymLongCase] {
	return rapid.Custom(func(t *rapid.T) GensymLongCase {
		// the size of a case is configuration, not chance: the quick tier is a
		// smoke run; in the thorough tier every fourth shard goes all the way
		// to 10^8 (each shard runs one case), the others stop at 10^6 or 10^7
		lo, hi := 1, 5
		if os.Getenv("VERIF_TIER") == "thorough" {
			lo, hi = 6, 7
			if k, err := strconv.Atoi(os.Getenv("VERIF_SHARD")); err != nil || k%4 == 0 {
				lo, hi = 8, 8
			}
		}
		return GensymLongCase{
			Exp:    rapid.IntRange(lo, hi).Draw(t, "exp"),
			Past:   rapid.IntRange(1, 5000).Draw(t, "past"),
			Window: rapid.IntRange(2, 300).Draw(t, "window"),
			Head:   rapid.IntRange(1, 4000).Draw(t, "head"),
			Via:    rapid.IntRange(0, 2).Draw(t, "via"),
			Lisp:   rapid.IntRange(1, 6).Draw(t, "lisp"),
			Pkgs:   rapid.Bool().Draw(t, "pkgs"),
		}
	})
}

// nameSet records every name of the shape gen<digits> exactly: one bit per
// (number of digits, numeric value), in chunks allocated on demand (10^8
// consecutive values need 12.5 MB).  Names it cannot index are kept as strings
// up to a bound.
type nameSet struct {
	chunks   map[uint64]*[512]uint64 // key = digits<<40 | value>>15
	lastKey  uint64
	last     *[512]uint64
	other    map[string]bool
	dropped  int
	maxChunk int
}

func newNameSet() *nameSet {
	return &nameSet{chunks: map[uint64]*[512]uint64{}, other: map[string]bool{}, maxChunk: 40000, lastKey: ^uint64(0)}
}

// add reports whether the name was already present.
func (s *nameSet) add(name string) bool {
	digits := name[3:]
	if len(digits) <= 12 {
		var v uint64
		for i := 0; i < len(digits); i++ {
			v = v*10 + uint64(digits[i]-'0')
		}
		key := uint64(len(digits))<<40 | v>>15
		ch := s.last
		if key != s.lastKey {
			ch = s.chunks[key]
			if ch == nil {
				if len(s.chunks) >= s.maxChunk {
					s.dropped++
					return false
				}
				ch = new([512]uint64)
				s.chunks[key] = ch
			}
			s.lastKey, s.last = key, ch
		}
		bit := v & 32767
		w, m := bit>>6, uint64(1)<<(bit&63)
		if ch[w]&m != 0 {
			return true
		}
		ch[w] |= m
		return false
	}
	if s.other[name] {
		return true
	}
	if len(s.other) < 1<<20 {
		s.other[name] = true
	} else {
		s.dropped++
	}
	return false
}

func genShape(name string) bool {
	if len(name) < 4 || name[:3] != "gen" {
		return false
	}
	for i := 3; i < len(name); i++ {
		if name[i] < '0' || name[i] > '9' {
			return false
		}
	}
	return true
}

func checkGensymLong(g GensymLongCase, c *vcommon.Ctx) *vcommon.Failure {
	if g.Exp < 1 || g.Exp > 9 || g.Past < 0 || g.Window < 0 || g.Head < 0 || g.Lisp < 0 {
		return nil
	}
	total := 1
	for i := 0; i < g.Exp; i++ {
		total *= 10
	}
	total += g.Past
	rt := vcommon.NewRuntime(rtCfg)
	env := rt.Env
	set := newNameSet()
	kept := map[string]int{} // name -> index of the draw (first names and the names around each power of ten)
	prev, prevLen := "", 0
	drawn := 0
	var early []string
	accept := func(name, how string) *vcommon.Failure {
		drawn++
		if !genShape(name) {
			return vcommon.Failf("gensym-long/shape", "draw %d (%s): %q is not \"gen\" followed by decimal digits", drawn, how, name)
		}
		if len(name) < prevLen {
			return vcommon.Failf("gensym-long/name-got-shorter", "draw %d (%s): %s is shorter than the name before it, %s", drawn, how, name, prev)
		}
		if at, dup := kept[name]; dup {
			return vcommon.Failf("gensym-long/duplicate", "draw %d (%s) returned %s, which draw %d of the same runtime had returned already", drawn, how, name, at)
		}
		if set.add(name) {
			return vcommon.Failf("gensym-long/duplicate", "draw %d (%s) returned %s, a name the same runtime had handed out before", drawn, how, name)
		}
		prev, prevLen = name, len(name)
		return nil
	}
	lispDraws := 0
	viaLisp := func() *vcommon.Failure {
		src := "(gensym)"
		lispDraws++
		if g.Pkgs && lispDraws%2 == 0 {
			src = fmt.Sprintf("(in-package 'gl%d) (gensym)", lispDraws/2%3)
		}
		o := rt.Load(src)
		if o.IsErr {
			return vcommon.Failf("gensym-long/error", "(gensym) fails after %d draws: %s", drawn, o.Msg)
		}
		if o.Val.Type != lisp.LSymbol {
			return vcommon.Failf("gensym-long/not-a-symbol", "(gensym) returns %s after %d draws", o.Canon, drawn)
		}
		if f := accept(o.Val.Str, "(gensym)"); f != nil {
			return f
		}
		kept[o.Val.Str] = drawn
		return nil
	}
	// the program keeps its first symbols
	for i := 0; i < g.Lisp; i++ {
		if f := viaLisp(); f != nil {
			return f
		}
		early = append(early, prev)
	}
	if o := rt.Load("(set 'early (gensym))"); o.IsErr || o.Val.Type != lisp.LSymbol {
		return vcommon.Failf("gensym-long/error", "(set 'early (gensym)): %s", out(o))
	} else if f := accept(o.Val.Str, "(gensym)"); f != nil {
		return f
	} else {
		kept[o.Val.Str] = drawn
	}
	next, step := 10, 0
	for drawn < total {
		// distance to the next power of ten (in draws of this runtime)
		for next+g.Window < drawn {
			next *= 10
		}
		near := drawn >= next-g.Window && drawn <= next+g.Window
		if drawn == next && g.Lisp > 0 {
			for i := 0; i < g.Lisp && drawn < total; i++ {
				if f := viaLisp(); f != nil {
					return f
				}
			}
			continue
		}
		var name, how string
		step++
		if g.Via == 0 || (g.Via == 2 && step%2 == 0) {
			name, how = env.Runtime.GenSym(), "Runtime.GenSym"
		} else {
			v := env.GenSym()
			if v.Type != lisp.LSymbol {
				return vcommon.Failf("gensym-long/not-a-symbol", "LEnv.GenSym returns %s after %d draws", vcommon.Canon(v), drawn)
			}
			name, how = v.Str, "LEnv.GenSym"
		}
		if f := accept(name, how); f != nil {
			return f
		}
		if near || drawn <= g.Head {
			kept[name] = drawn
		}
	}
	// a late expansion must still get a symbol nothing else has
	for i := 0; i < g.Lisp+1; i++ {
		if f := viaLisp(); f != nil {
			return f
		}
	}
	o := rt.Load("(list early (gensym) (equal? early (gensym)))")
	if o.IsErr || len(o.Val.Cells) != 3 {
		return vcommon.Failf("gensym-long/error", "late gensym: %s", out(o))
	}
	if f := accept(o.Val.Cells[1].Str, "(gensym)"); f != nil {
		return f
	}
	if vcommon.Canon(o.Val.Cells[2]) != "false" {
		return vcommon.Failf("gensym-long/late-symbol-equals-early-one", "after %d draws (equal? early (gensym)) is %s: %s", drawn, vcommon.Canon(o.Val.Cells[2]), o.Canon)
	}
	c.Class(fmt.Sprintf("crossed/10^%d", g.Exp))
	c.Class([]string{"via/Runtime.GenSym", "via/LEnv.GenSym", "via/alternating"}[g.Via%3])
	if g.Pkgs {
		c.Class("gensym-from-several-packages")
	}
	if set.dropped > 0 {
		c.Class("names-not-indexed")
	}
	if g.Exp >= 3 {
		c.NonTrivial(fmt.Sprintf("%+v", g))
	}
	return nil
}
