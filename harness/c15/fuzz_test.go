package c15

// Native fuzz targets (thorough tier only): byte-level search over the two
// string parsers with the same oracles as the rapid sub-properties.  The
// reference scanner decides which claim applies to an arbitrary string:
// valid -> must be accepted and round-trip; invalid -> must be rejected;
// unspecified -> no claim.  Failures whose key is a listed known finding are
// skipped so the fuzzer keeps searching past them.

import (
	"encoding/json"
	"fmt"
	"os"
	"testing"

	"github.com/luthersystems/elps/verifharness/c15/reftime"
	"github.com/luthersystems/elps/verifharness/vcommon"
)

var knownKeys map[string]bool

func isKnownKey(key string) bool {
	if knownKeys == nil {
		knownKeys = map[string]bool{}
		if p := os.Getenv("VERIF_KNOWN"); p != "" {
			if b, err := os.ReadFile(p); err == nil {
				var kf struct {
					Findings []vcommon.KnownFinding `json:"findings"`
				}
				if json.Unmarshal(b, &kf) == nil {
					for _, f := range kf.Findings {
						if f.Property == "C15" && f.Status == "known" {
							knownKeys[f.Key] = true
						}
					}
				}
			}
		}
	}
	return knownKeys[key]
}

func stampOf(s string, ts reftime.TS) Stamp {
	off := "Z"
	if !ts.Zulu {
		sign := "+"
		if ts.OffNeg {
			sign = "-"
		}
		off = fmt.Sprintf("%s%02d:%02d", sign, ts.OffH, ts.OffM)
	}
	return Stamp{S: s, Y: ts.Year, Mo: ts.Month, D: ts.Day, H: ts.Hour, Mi: ts.Min, Sec: ts.Sec, Frac: ts.Frac, Off: off}
}

// checkAnyString applies whichever parser claim the reference scanner says
// holds for s.
func checkAnyString(s string) *vcommon.Failure {
	ts, v, _ := reftime.Parse(s)
	switch v {
	case reftime.Valid:
		return checkValid(stampOf(s, ts), nil)
	case reftime.Invalid:
		return checkNearMiss(NearMiss{S: []byte(s), Class: "fuzz"}, nil)
	}
	return nil
}

func FuzzParseRFC3339(f *testing.F) {
	for _, s := range []string{
		"2023-01-15T10:30:00Z", "1985-04-12T23:20:50.52Z", "1996-12-19T16:39:57-08:00", "0000-02-29T00:00:00+23:59",
		"9999-12-31T23:59:59.999999999-23:59", "2023-01-15T10:30:00-00:00", "2023-01-15T10:30:00.000000001+05:45",
		"2023-01-15T10:30:00+24:00", "2023-01-15T10:30:00+23:60", "2023-01-15T10:30:00,5Z", "2023-01-15T1:30:00Z",
		"2023-02-29T10:30:00Z", "2023-01-15T24:00:00Z", "2023-01-15T10:30:60Z", "2023-01-15t10:30:00z", "2023-01-15 10:30:00Z",
		"2023-01-15T10:30:00.Z", "2023-01-15T10:30:00+0100", "2023-01-15T10:30Z", "", "2023-01-15T10:30:00.1234567890Z",
	} {
		f.Add([]byte(s))
	}
	f.Fuzz(func(t *testing.T, b []byte) {
		if len(b) > 64 {
			return
		}
		if fl := checkAnyString(string(b)); fl != nil && !isKnownKey(fl.Key) {
			t.Fatalf("[%s] %s", fl.Key, fl.Msg)
		}
	})
}

func FuzzParseDuration(f *testing.F) {
	for _, s := range []string{"0", "1h30m", "-2h45m30.5s", "1.5s", "500ms", "1µs", "1μs", "9223372036854775807ns", "-9223372036854775808ns",
		"2562047h47m16.854775807s", ".5s", "1.s", "0.000000001h", "1.50000000000000000000000s", "", "1", ".s", "1h-1m"} {
		f.Add([]byte(s))
	}
	f.Fuzz(func(t *testing.T, b []byte) {
		if len(b) > 64 {
			return
		}
		if fl := checkDur(DurCase{S: string(b), Kind: "fuzz"}, nil); fl != nil && !isKnownKey(fl.Key) {
			t.Fatalf("[%s] %s", fl.Key, fl.Msg)
		}
	})
}
