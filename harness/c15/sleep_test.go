package c15

// (f) time:sleep is bounded.  These are the only wall-clock-dependent legs of
// the check.  Margins are wide, a slow return is retried once, and remaining
// slowness is counted as "slow-inconclusive" rather than reported -- EXCEPT
// when a call that had to be refused (or cancelled) demonstrably slept for
// seconds: every refusal/cancel leg requests >= 5 s, so a return after >= 4 s
// (or the 10 s watchdog) on both attempts means the sleep really happened.

import (
	"context"
	"fmt"
	"math"
	"sort"
	"strings"
	"time"

	"github.com/luthersystems/elps/verifharness/vcommon"
	"pgregory.net/rapid"
)

type SleepCase struct {
	DurNs         int64  `json:"dur_ns"`
	HasMax        bool   `json:"has_max"`
	MaxNs         int64  `json:"max_ns"`
	CeilingNs     int64  `json:"ceiling_ns"`      // host ceiling (WithMaxSleep); <= 0 means none
	Ctx           string `json:"ctx"`             // none | cancelable | deadline | deadline-nodone | expired
	DeadlineMs    int64  `json:"deadline_ms"`     // for ctx=deadline: timeout measured from the call
	CancelAfterMs int64  `json:"cancel_after_ms"` // > 0: cancel the context this long after the call starts
	Leg           string `json:"leg"`             // generator's intent (histogram only; the oracle recomputes)
}

const (
	nsMilli  = int64(time.Millisecond)
	nsSecond = int64(time.Second)
	nsHour   = int64(time.Hour)

	condLimit = "sleep-limit-exceeded"
	condCtx   = "context-cancelled"

	minRefusedSleep = 5 * time.Second // every leg that must not sleep asks for at least this
	refusalBound    = 2 * time.Second
	cancelBound     = 1500 * time.Millisecond
	allowedSlack    = 1500 * time.Millisecond
	sleptForReal    = 4 * time.Second
	watchdog        = 10 * time.Second
)

// sleepModel is the documented behaviour (docstring of time:sleep, docs/lang.md
// "Sleep length", lisp.WithMaxSleep), restricted to what the property states.
type sleepModel struct {
	accept     map[string]bool // acceptable outcomes: "" = returns (), else condition name
	anyError   bool            // any (non-panic) error is acceptable: non-positive :max
	mustRefuse bool            // the call may not sleep
	cancelLeg  bool
	ambiguous  bool
	kind       string
	active     int // number of interacting constraints
}

func modelSleep(c SleepCase) sleepModel {
	m := sleepModel{accept: map[string]bool{}}
	ceiling := c.CeilingNs
	if ceiling < 0 {
		ceiling = 0
	}
	capRefuse, capUnspecified := false, false
	switch {
	case !c.HasMax:
		limit := nsHour
		if ceiling > 0 && ceiling < limit {
			limit = ceiling
		}
		capRefuse = c.DurNs > limit
	case c.MaxNs <= 0:
		m.anyError = true
	case ceiling > 0 && c.MaxNs > ceiling:
		// ":max cannot exceed the host ceiling".  Above the ceiling the sleep
		// must be refused; at or below it the property's text ("any duration
		// above the applicable cap") does not decide whether the unusable
		// :max is itself an error, so both outcomes are accepted.
		if c.DurNs > ceiling {
			capRefuse = true
		} else {
			capUnspecified = true
		}
	default:
		capRefuse = c.DurNs > c.MaxNs
	}
	ctxRefuse := false
	switch c.Ctx {
	case "expired":
		ctxRefuse = true
	case "deadline", "deadline-nodone":
		dl := c.DeadlineMs * nsMilli
		if c.DurNs > dl {
			ctxRefuse = true
		} else if c.DurNs > 0 && c.DurNs > dl-3*nsSecond {
			m.ambiguous = true // too close to the deadline to call on a wall clock
		}
	}
	if c.HasMax {
		m.active++
	}
	if ceiling > 0 {
		m.active++
	}
	if c.Ctx == "deadline" || c.Ctx == "deadline-nodone" || c.Ctx == "expired" || c.CancelAfterMs > 0 {
		m.active++
	}
	switch {
	case m.anyError:
		m.mustRefuse, m.kind = true, "max-nonpositive"
		if ctxRefuse {
			m.kind = "max-nonpositive+ctx"
		}
	case capRefuse && ctxRefuse:
		m.accept[condLimit], m.accept[condCtx] = true, true
		m.mustRefuse, m.kind = true, "cap+deadline"
	case capRefuse:
		m.accept[condLimit] = true
		m.mustRefuse, m.kind = true, "cap"
	case ctxRefuse:
		m.accept[condCtx] = true
		if capUnspecified {
			m.accept[condLimit] = true
		}
		m.mustRefuse, m.kind = true, "deadline"
		if c.Ctx == "expired" {
			m.kind = "expired-context"
		}
	case capUnspecified:
		m.accept[""], m.accept[condLimit] = true, true
		m.kind = "max-over-ceiling-unspecified"
	case c.CancelAfterMs > 0 && c.DurNs > c.CancelAfterMs*nsMilli+3*nsSecond && (c.Ctx == "cancelable" || c.Ctx == "deadline"):
		m.accept[condCtx] = true
		m.cancelLeg, m.kind = true, "cancel"
	default:
		m.accept[""] = true
		m.kind = "allowed"
	}
	return m
}

type sleepRun struct {
	o       vcommon.Outcome
	elapsed time.Duration
	hung    bool
}

func sleepSource(c SleepCase) string {
	src := fmt.Sprintf(`(time:sleep (time:parse-duration "%dns")`, c.DurNs)
	if c.HasMax {
		src += fmt.Sprintf(` :max (time:parse-duration "%dns")`, c.MaxNs)
	}
	return src + ")"
}

// noDoneCtx is a context an embedder's wrapper may legally hand over: it
// reports a Deadline but its Done channel is nil (the Context interface allows
// that; sleepContext's comment calls this case out).  Err turns non-nil once
// the deadline has passed.  Nothing can wake a sleeper through it, so the
// deadline refusal on entry is the only thing that bounds the call.
type noDoneCtx struct {
	context.Context
	deadline time.Time
}

func (c noDoneCtx) Deadline() (time.Time, bool) { return c.deadline, true }
func (c noDoneCtx) Done() <-chan struct{}       { return nil }
func (c noDoneCtx) Err() error {
	if !time.Now().Before(c.deadline) {
		return context.DeadlineExceeded
	}
	return nil
}

func runSleep(c SleepCase) sleepRun {
	var ctx context.Context
	cancel := func() {}
	switch c.Ctx {
	case "cancelable":
		ctx, cancel = context.WithCancel(context.Background())
	case "deadline":
		ctx, cancel = context.WithTimeout(context.Background(), time.Duration(c.DeadlineMs)*time.Millisecond)
	case "deadline-nodone":
		ctx = noDoneCtx{Context: context.Background(), deadline: time.Now().Add(time.Duration(c.DeadlineMs) * time.Millisecond)}
	case "expired":
		ctx, cancel = context.WithCancel(context.Background())
		cancel()
	}
	defer cancel()
	rt := vcommon.NewRuntime(vcommon.Cfg{MaxSleep: time.Duration(c.CeilingNs), Ctx: ctx, NoProbes: true})
	src := sleepSource(c)
	done := make(chan vcommon.Outcome, 1)
	start := time.Now()
	if c.CancelAfterMs > 0 && (c.Ctx == "cancelable" || c.Ctx == "deadline") {
		tm := time.AfterFunc(time.Duration(c.CancelAfterMs)*time.Millisecond, cancel)
		defer tm.Stop()
	}
	go func() { done <- rt.Load(src) }()
	select {
	case o := <-done:
		return sleepRun{o: o, elapsed: time.Since(start)}
	case <-time.After(watchdog):
		// the runtime is abandoned (a sleeper without a context cannot be woken)
		return sleepRun{elapsed: time.Since(start), hung: true}
	}
}

func describe(c SleepCase) string {
	s := fmt.Sprintf("%s with host ceiling %v, context %s", sleepSource(c), time.Duration(c.CeilingNs), c.Ctx)
	if c.Ctx == "deadline" || c.Ctx == "deadline-nodone" {
		s += fmt.Sprintf(" (deadline in %d ms", c.DeadlineMs)
		if c.Ctx == "deadline-nodone" {
			s += "; the context's Done channel is nil"
		}
		s += ")"
	}
	if c.CancelAfterMs > 0 {
		s += fmt.Sprintf(", cancelled after %d ms", c.CancelAfterMs)
	}
	return s
}

func checkSleep(c SleepCase, ctx *vcommon.Ctx) *vcommon.Failure {
	m := modelSleep(c)
	if m.ambiguous {
		ctx.Class("ambiguous-deadline-skipped")
		return nil
	}
	ctx.Class("expect:" + m.kind)
	if m.kind == "allowed" && c.DurNs > 0 && ((c.HasMax && c.MaxNs == c.DurNs) || c.CeilingNs == c.DurNs) {
		ctx.Class("allowed:duration-equals-cap")
	}
	if m.kind == "allowed" && c.DurNs <= 0 {
		ctx.Class("allowed:nonpositive-duration")
	}
	ctx.Class("ctx:" + c.Ctx)
	if m.active >= 2 {
		ctx.NonTrivial(fmt.Sprintf("%+v", c))
		ctx.Note(describe(c) + " -> " + m.kind)
	}
	requested := time.Duration(c.DurNs)
	var bound time.Duration
	switch {
	case m.mustRefuse:
		bound = refusalBound
	case m.cancelLeg:
		bound = cancelBound
	default:
		bound = allowedSlack
		if requested > 0 {
			bound += requested
		}
	}
	r := runSleep(c)
	if r.hung || r.elapsed > bound {
		ctx.Class("retried")
		if r2 := runSleep(c); !r2.hung && (r.hung || r2.elapsed < r.elapsed) {
			r = r2
		}
	}
	if r.hung || r.elapsed > bound {
		// slow on both attempts
		slept := r.hung || r.elapsed >= sleptForReal
		switch {
		case m.mustRefuse && requested >= minRefusedSleep && slept:
			return vcommon.Failf("sleep/blocks-instead-of-refusing/"+m.kind,
				"%s must be refused immediately (%s) but blocked for %v (watchdog=%v) on two attempts", describe(c), m.kind, r.elapsed.Round(time.Millisecond), r.hung)
		case m.cancelLeg && slept:
			return vcommon.Failf("sleep/ignores-cancellation",
				"%s kept blocking for %v (watchdog=%v) after the context was cancelled, on two attempts", describe(c), r.elapsed.Round(time.Millisecond), r.hung)
		case !m.mustRefuse && !m.cancelLeg && slept && requested < time.Second:
			// same evidence as for the refusal legs: a request below 1 s that
			// takes >= 4 s on both attempts was not delayed by the machine
			return vcommon.Failf("sleep/blocks-past-request",
				"%s blocked for %v (watchdog=%v) on two attempts, the request is %v", describe(c), r.elapsed.Round(time.Millisecond), r.hung, requested)
		}
		ctx.Class("slow-inconclusive")
		return nil
	}
	o := r.o
	if o.Panic {
		return vcommon.Failf("internal-panic", "%s recovered a Go panic: %s", describe(c), o.Msg)
	}
	got := ""
	if o.IsErr {
		got = o.Cond
	} else if !o.Val.IsNil() {
		return vcommon.Failf("sleep/result", "%s returned %s, want ()", describe(c), o.Text)
	}
	if m.anyError {
		if !o.IsErr {
			return vcommon.Failf("sleep/accepts-nonpositive-max", "%s returned %s although :max is not a positive duration", describe(c), o.Text)
		}
		return nil
	}
	if !m.accept[got] {
		var wants []string
		for k := range m.accept {
			if k == "" {
				k = "()"
			}
			wants = append(wants, k)
		}
		sort.Strings(wants)
		want := strings.Join(wants, " or ")
		key := "sleep/wrong-outcome/" + m.kind
		if m.kind == "allowed" && o.IsErr {
			key = "sleep/refuses-allowed-sleep"
		}
		shown := got
		if !o.IsErr {
			shown = "() after " + r.elapsed.Round(time.Millisecond).String()
		} else {
			shown += ": " + o.Msg
		}
		return vcommon.Failf(key, "%s: got %s, want %s (%s)", describe(c), shown, want, m.kind)
	}
	return nil
}

// ---------------------------------------------------------------------------
// generators

func drawCtxFree(t *rapid.T, c *SleepCase) {
	// a context that does not constrain the call
	k := rapid.IntRange(0, 3).Draw(t, "ctxk")
	if k >= 2 && c.DurNs > 100*nsHour {
		k = 1 // a deadline beyond such a duration does not fit a time.Duration comfortably
	}
	switch k {
	case 0:
		c.Ctx = "none"
	case 1:
		c.Ctx = "cancelable"
	default:
		c.Ctx = "deadline"
		if k == 3 {
			c.Ctx = "deadline-nodone" // Deadline reported, Done nil
		}
		// far beyond anything that is allowed to run in this leg
		c.DeadlineMs = max64(c.DurNs/nsMilli, 0) + rapid.Int64Range(5_000, 60_000).Draw(t, "dlms")
	}
}

func max64(a, b int64) int64 {
	if a > b {
		return a
	}
	return b
}

func drawAbove(t *rapid.T, limit int64, label string) int64 {
	// a duration > limit and >= 5 s
	lo := max64(limit+1, int64(minRefusedSleep))
	switch rapid.IntRange(0, 4).Draw(t, label+"k") {
	case 0:
		return lo
	case 1:
		return math.MaxInt64
	case 2:
		if lo < math.MaxInt64-nsHour {
			return lo + rapid.Int64Range(0, nsHour).Draw(t, label+"h")
		}
		return lo
	}
	return rapid.Int64Range(lo, math.MaxInt64).Draw(t, label)
}

var capValues = []int64{1, nsMilli, 20 * nsMilli, nsSecond, 5 * nsSecond, 5*nsSecond + 1, 60 * nsSecond, 30 * 60 * nsSecond, nsHour - 1, nsHour, nsHour + 1, 2 * nsHour, 10 * nsHour, 24 * nsHour, math.MaxInt64 - 1}

func drawCap(t *rapid.T, label string) int64 {
	if rapid.Bool().Draw(t, label+"c") {
		return rapid.SampledFrom(capValues).Draw(t, label+"v")
	}
	return rapid.Int64Range(1, 10*nsHour).Draw(t, label)
}

func drawSleepRefuse(t *rapid.T) SleepCase {
	var c SleepCase
	c.Leg = rapid.SampledFrom([]string{"default-cap", "ceiling-below-default", "max-cap", "max-cap", "max-over-ceiling", "max-over-ceiling", "max-nonpositive", "deadline", "deadline", "deadline+cap", "expired", "nonpositive"}).Draw(t, "leg")
	switch c.Leg {
	case "default-cap":
		c.CeilingNs = rapid.SampledFrom([]int64{0, 0, -1, math.MinInt64, nsHour, nsHour + 1, 2 * nsHour, math.MaxInt64}).Draw(t, "ceil")
		c.DurNs = drawAbove(t, nsHour, "d")
		drawCtxFree(t, &c)
	case "ceiling-below-default":
		c.CeilingNs = rapid.Int64Range(1, nsHour-1).Draw(t, "ceil")
		if rapid.Bool().Draw(t, "ceilc") {
			c.CeilingNs = rapid.SampledFrom([]int64{1, nsMilli, nsSecond, 5 * nsSecond, 60 * nsSecond, nsHour - 1}).Draw(t, "ceilv")
		}
		c.DurNs = drawAbove(t, c.CeilingNs, "d")
		if rapid.Bool().Draw(t, "underdefault") && c.CeilingNs < nsHour-1 {
			c.DurNs = rapid.Int64Range(max64(c.CeilingNs+1, int64(minRefusedSleep)), nsHour).Draw(t, "dd")
		}
		drawCtxFree(t, &c)
	case "max-cap":
		c.HasMax = true
		c.MaxNs = drawCap(t, "max")
		switch rapid.IntRange(0, 2).Draw(t, "ceilk") {
		case 0:
			c.CeilingNs = 0
		case 1:
			c.CeilingNs = c.MaxNs // :max equal to the ceiling is usable
		default:
			c.CeilingNs = c.MaxNs + rapid.Int64Range(0, math.MaxInt64-c.MaxNs).Draw(t, "ceilup")
		}
		c.DurNs = drawAbove(t, c.MaxNs, "d")
		drawCtxFree(t, &c)
	case "max-over-ceiling":
		c.HasMax = true
		c.CeilingNs = drawCap(t, "ceil")
		if c.CeilingNs > math.MaxInt64-2 {
			c.CeilingNs = nsHour
		}
		c.MaxNs = c.CeilingNs + 1
		if rapid.Bool().Draw(t, "maxfar") {
			c.MaxNs = rapid.Int64Range(c.CeilingNs+1, math.MaxInt64).Draw(t, "max")
		}
		c.DurNs = drawAbove(t, c.CeilingNs, "d")
		if rapid.IntRange(0, 2).Draw(t, "undermax") > 0 && max64(c.CeilingNs+1, int64(minRefusedSleep)) <= c.MaxNs {
			// the telling case: above the ceiling, within the :max the program granted itself
			c.DurNs = rapid.Int64Range(max64(c.CeilingNs+1, int64(minRefusedSleep)), c.MaxNs).Draw(t, "dd")
		}
		drawCtxFree(t, &c)
	case "max-nonpositive":
		c.HasMax = true
		c.MaxNs = rapid.SampledFrom([]int64{0, -1, -nsSecond, -nsHour, math.MinInt64}).Draw(t, "max")
		c.CeilingNs = rapid.SampledFrom([]int64{0, nsSecond, nsHour}).Draw(t, "ceil")
		c.DurNs = rapid.Int64Range(int64(minRefusedSleep), nsHour).Draw(t, "d")
		drawCtxFree(t, &c)
	case "deadline", "deadline+cap":
		c.Ctx = "deadline"
		c.DeadlineMs = rapid.Int64Range(6_000, 30_000).Draw(t, "dlms")
		beyond := c.DeadlineMs*nsMilli + int64(minRefusedSleep)
		if c.Leg == "deadline" {
			// within every length cap, so only the deadline can refuse it
			switch rapid.IntRange(0, 2).Draw(t, "capk") {
			case 0:
				c.DurNs = rapid.Int64Range(beyond, nsHour).Draw(t, "d")
			case 1:
				c.HasMax = true
				c.MaxNs = rapid.Int64Range(nsHour, 10*nsHour).Draw(t, "max")
				c.DurNs = rapid.Int64Range(beyond, c.MaxNs).Draw(t, "d")
			default:
				c.CeilingNs = rapid.Int64Range(beyond, 10*nsHour).Draw(t, "ceil")
				c.DurNs = rapid.Int64Range(beyond, min64(c.CeilingNs, nsHour)).Draw(t, "d")
			}
		} else {
			c.DurNs = drawAbove(t, nsHour, "d")
			if rapid.Bool().Draw(t, "withceil") {
				c.CeilingNs = rapid.Int64Range(nsSecond, nsHour).Draw(t, "ceil")
			}
		}
		if rapid.IntRange(0, 2).Draw(t, "nodone") == 0 {
			// the wrapper case: only the refusal on entry can bound this call
			c.Ctx = "deadline-nodone"
		}
	case "expired":
		c.Ctx = "expired"
		c.DurNs = rapid.Int64Range(int64(minRefusedSleep), nsHour).Draw(t, "d")
		if rapid.Bool().Draw(t, "withmax") {
			c.HasMax = true
			c.MaxNs = drawCap(t, "max")
		}
	case "nonpositive":
		// The complement, in bulk and without real sleeping: a non-positive
		// duration is above no cap and returns at once, so whatever the cap
		// arithmetic decides about it -- incl. durations next to the minimum
		// Duration and a :max EQUAL to the ceiling -- shows in the outcome.
		switch rapid.IntRange(0, 3).Draw(t, "dk") {
		case 0:
			c.DurNs = rapid.SampledFrom([]int64{0, -1, -nsMilli, -nsSecond, -nsHour, -nsHour - 1, -2 * nsHour, math.MinInt64, math.MinInt64 + 1}).Draw(t, "d")
		case 1:
			c.DurNs = math.MinInt64 + rapid.Int64Range(0, 10*nsHour).Draw(t, "dlow")
		default:
			c.DurNs = rapid.Int64Range(math.MinInt64, 0).Draw(t, "d")
		}
		switch rapid.IntRange(0, 5).Draw(t, "cfg") {
		case 0:
		case 1:
			c.HasMax, c.MaxNs = true, drawCap(t, "max")
		case 2:
			c.CeilingNs = drawCap(t, "ceil")
		case 3:
			c.HasMax, c.MaxNs = true, drawCap(t, "max")
			c.CeilingNs = c.MaxNs // :max equal to the ceiling is usable
		case 4:
			c.HasMax, c.MaxNs = true, drawCap(t, "max")
			c.CeilingNs = c.MaxNs + rapid.Int64Range(0, math.MaxInt64-c.MaxNs).Draw(t, "ceilup")
		default: // :max above the ceiling: the property does not decide (see modelSleep)
			c.CeilingNs = drawCap(t, "ceil")
			if c.CeilingNs > math.MaxInt64-2 {
				c.CeilingNs = nsHour
			}
			c.HasMax, c.MaxNs = true, rapid.Int64Range(c.CeilingNs+1, math.MaxInt64).Draw(t, "max")
		}
		drawCtxFree(t, &c)
	}
	return c
}

func min64(a, b int64) int64 {
	if a < b {
		return a
	}
	return b
}

func genSleepRefuse() *rapid.Generator[SleepCase] { return rapid.Custom(drawSleepRefuse) }

func drawSleepReal(t *rapid.T) SleepCase {
	var c SleepCase
	c.Leg = rapid.SampledFrom([]string{"allowed", "allowed", "allowed-boundary", "allowed-boundary", "allowed-nonpositive", "max-over-ceiling-small", "cancel", "cancel", "cancel"}).Draw(t, "leg")
	small := func() int64 { return rapid.Int64Range(5*nsMilli, 30*nsMilli).Draw(t, "d") }
	switch c.Leg {
	case "allowed":
		c.DurNs = small()
		switch rapid.IntRange(0, 3).Draw(t, "cfg") {
		case 0:
		case 1:
			c.HasMax, c.MaxNs = true, c.DurNs+rapid.Int64Range(1, 2*nsHour).Draw(t, "maxup")
		case 2:
			c.CeilingNs = c.DurNs + rapid.Int64Range(1, 2*nsHour).Draw(t, "ceilup")
		default:
			c.HasMax, c.MaxNs = true, c.DurNs+rapid.Int64Range(1, nsHour).Draw(t, "maxup")
			c.CeilingNs = c.MaxNs + rapid.Int64Range(0, nsHour).Draw(t, "ceilup")
		}
		drawCtxFree(t, &c)
	case "allowed-boundary":
		// the requested duration EQUALS the applicable cap: allowed ("above" is strict)
		c.DurNs = small()
		switch rapid.IntRange(0, 2).Draw(t, "cfg") {
		case 0:
			c.HasMax, c.MaxNs = true, c.DurNs
		case 1:
			c.CeilingNs = c.DurNs
		default:
			c.HasMax, c.MaxNs, c.CeilingNs = true, c.DurNs, c.DurNs
		}
		drawCtxFree(t, &c)
	case "allowed-nonpositive":
		c.DurNs = rapid.SampledFrom([]int64{0, -1, -nsSecond, -2 * nsHour, math.MinInt64}).Draw(t, "d")
		if rapid.Bool().Draw(t, "withmax") {
			c.HasMax, c.MaxNs = true, rapid.Int64Range(1, nsHour).Draw(t, "max")
		}
		if rapid.Bool().Draw(t, "withceil") {
			c.CeilingNs = max64(c.MaxNs, 0) + rapid.Int64Range(1, nsHour).Draw(t, "ceil")
		}
		drawCtxFree(t, &c)
	case "max-over-ceiling-small":
		c.DurNs = small()
		c.CeilingNs = c.DurNs + rapid.Int64Range(0, nsSecond).Draw(t, "ceilup")
		c.HasMax, c.MaxNs = true, c.CeilingNs+rapid.Int64Range(1, nsHour).Draw(t, "maxup")
		drawCtxFree(t, &c)
	case "cancel":
		c.CancelAfterMs = rapid.Int64Range(10, 50).Draw(t, "cancelms")
		switch rapid.IntRange(0, 2).Draw(t, "cfg") {
		case 0:
			c.DurNs = rapid.Int64Range(int64(minRefusedSleep), nsHour).Draw(t, "d")
		case 1:
			c.HasMax, c.MaxNs = true, 10*nsHour
			c.DurNs = rapid.Int64Range(int64(minRefusedSleep), 10*nsHour).Draw(t, "d")
		default:
			c.CeilingNs = rapid.Int64Range(10*nsSecond, nsHour).Draw(t, "ceil")
			c.DurNs = rapid.Int64Range(int64(minRefusedSleep), c.CeilingNs).Draw(t, "d")
		}
		if rapid.Bool().Draw(t, "withdeadline") {
			c.Ctx = "deadline"
			c.DeadlineMs = c.DurNs/nsMilli + rapid.Int64Range(10_000, 3_600_000).Draw(t, "dlms")
		} else {
			c.Ctx = "cancelable"
		}
	}
	return c
}

func genSleepReal() *rapid.Generator[SleepCase] { return rapid.Custom(drawSleepReal) }
