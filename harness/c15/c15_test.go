// C15: time values round-trip, order and add consistently; sleeping is bounded.
//
// Sub-properties (all lisp calls go through the real reader and evaluator):
//
//	valid       (a)+(b) every field-wise RFC 3339 string is accepted by both
//	            parsers; format∘parse keeps the instant (second / nanosecond)
//	nearmiss    (b)     near-miss strings by class are rejected by both parsers
//	order       (c)+(d) time=/time</time> are a strict total order agreeing with
//	            reftime and with the sign of time-from; time-add∘time-from
//	add         (d)     time-from t (time-add t d) = d; result instant exact
//	duration    (e)     parse-duration/duration-ns/-s/-ms vs exact arithmetic
//	sleep-refuse, sleep-real (f) see sleep_test.go
package c15

import (
	"fmt"
	"math"
	"math/big"
	"strings"
	"testing"

	"github.com/luthersystems/elps/verifharness/c15/reftime"
	"github.com/luthersystems/elps/verifharness/vcommon"
)

var (
	parsers    = []string{"time:parse-rfc3339", "time:parse-rfc3339-nano"}
	formatters = []string{"time:format-rfc3339", "time:format-rfc3339-nano"}
)

// ---------------------------------------------------------------------------
// (a)+(b) positives

func checkValid(c Stamp, ctx *vcommon.Ctx) *vcommon.Failure {
	ts, v, reason := reftime.Parse(c.S)
	if v != reftime.Valid {
		return vcommon.Failf("harness/generator-unsound", "generated positive %q is %v for the reference scanner (%s)", c.S, v, reason)
	}
	if ts.Year != c.Y || ts.Month != c.Mo || ts.Day != c.D || ts.Hour != c.H || ts.Min != c.Mi || ts.Sec != c.Sec || ts.Frac != c.Frac {
		return vcommon.Failf("harness/scanner-fields", "reference scanner read %+v from %q built from %+v", ts, c.S, c)
	}
	if ts.OffsetSeconds() != offsetSeconds(c.Off) {
		return vcommon.Failf("harness/scanner-offset", "reference scanner read offset %d from %q", ts.OffsetSeconds(), c.S)
	}
	want := ts.UnixNanos()
	wantSec, wantNanos := reftime.Split(want)

	// classes
	switch {
	case c.Off == "Z":
		ctx.Class("offset-Z")
	case ts.OffsetSeconds() == 0:
		ctx.Class("offset-zero-numeric")
	default:
		ctx.Class("offset-nonzero")
	}
	ctx.Class(fmt.Sprintf("frac-digits-%d", len(c.Frac)))
	if c.Mo == 2 && c.D == 29 {
		ctx.Class("leap-day")
	}
	if c.Y == 0 || c.Y == 9999 {
		ctx.Class("year-edge")
	}
	if cv := reftime.CivilAt(want, 0); cv.Year < 0 || cv.Year > 9999 {
		ctx.Class("utc-year-outside-0000-9999")
	}
	if ts.OffsetSeconds() != 0 && c.Frac != "" {
		ctx.NonTrivial(c.S)
		ctx.Note("stamp: " + c.S)
	}

	s := session()
	s.bindStr("s", c.S)
	for pi, parse := range parsers {
		s.clear("p", "q")
		src := "(set 'p (" + parse + " s))"
		o := s.eval(src)
		if f := panicFail(src, o); f != nil {
			return f
		}
		if o.IsErr {
			return vcommon.Failf("parse/rejects-valid", "(%s %q) rejects a well-formed RFC 3339 timestamp: %s: %s", parse, c.S, o.Cond, o.Msg)
		}
		for fi, format := range formatters {
			text, f := s.str("(" + format + " p)")
			if f != nil {
				return f
			}
			back, bv, br := reftime.Parse(text)
			if bv != reftime.Valid {
				return vcommon.Failf("format/not-rfc3339", "(%s (%s %q)) = %q is not a well-formed RFC 3339 timestamp (%s)", format, parse, c.S, text, br)
			}
			gotSec, gotNanos := reftime.Split(back.UnixNanos())
			if gotSec.Cmp(wantSec) != 0 {
				return vcommon.Failf("roundtrip/second", "(%s (%s %q)) = %q: instant second %v, the input is second %v", format, parse, c.S, text, gotSec, wantSec)
			}
			if fi == 1 && gotNanos != wantNanos {
				return vcommon.Failf("roundtrip/nanos", "(%s (%s %q)) = %q: %d ns within the second, the input has %d", format, parse, c.S, text, gotNanos, wantNanos)
			}
			if fi == 0 && gotNanos != 0 && gotNanos != wantNanos {
				return vcommon.Failf("roundtrip/plain-fraction", "(%s (%s %q)) = %q carries a fraction that is not the input's", format, parse, c.S, text)
			}
			// … and parsing the result (with the matching parser) yields an
			// equal instant, observed inside the interpreter.
			if fi != pi {
				continue
			}
			if f := s.define("q", "("+parse+" ("+format+" p))"); f != nil {
				return rekey(f, "roundtrip/reparse-rejects")
			}
			d, f := s.integer("(time:duration-ns (time:time-from q p))")
			if f != nil {
				return f
			}
			eq, f := s.boolean("(time:time= q p)")
			if f != nil {
				return f
			}
			if fi == 1 {
				if d != 0 || !eq {
					return vcommon.Failf("roundtrip/reparse-nano", "parse-nano(format-nano(parse-nano %q)) differs from the first parse by %d ns (time= %v)", c.S, d, eq)
				}
			} else {
				if d != wantNanos || eq != (wantNanos == 0) {
					return vcommon.Failf("roundtrip/reparse-second", "parse(format(parse %q)) differs from the first parse by %d ns (time= %v); the input's sub-second part is %d ns", c.S, d, eq, wantNanos)
				}
			}
		}
	}
	return nil
}

// ---------------------------------------------------------------------------
// (b) near misses

func checkNearMiss(c NearMiss, ctx *vcommon.Ctx) *vcommon.Failure {
	str := string(c.S)
	_, v, reason := reftime.Parse(str)
	ctx.Class("class:" + c.Class)
	switch v {
	case reftime.Valid:
		return vcommon.Failf("harness/nearmiss-valid", "near-miss generator (%s) produced the valid timestamp %q", c.Class, str)
	case reftime.Unspecified:
		ctx.Class("unspecified-skipped")
		return nil
	}
	ctx.Class("reason:" + reason)
	ctx.NonTrivial(str)
	ctx.Note(fmt.Sprintf("%q (%s; reference: %s)", str, c.Class, reason))
	s := session()
	s.bindStr("s", str)
	for _, parse := range parsers {
		src := "(" + parse + " s)"
		o := s.eval(src)
		if f := panicFail(src, o); f != nil {
			return f
		}
		if !o.IsErr {
			shown, _ := s.str("(time:format-rfc3339-nano (" + parse + " s))")
			return vcommon.Failf("parse/accepts-"+reason, "(%s %q) is accepted (as %s) although the string is not RFC 3339: %s [generator class %s, derived from %q]",
				parse, str, shown, reason, c.Class, c.Base)
		}
	}
	return nil
}

// ---------------------------------------------------------------------------
// (c)+(d) order and time-from / time-add inverse on pairs and triples

// rekey gives an "unexpected-error" failure a specific key; recovered panics
// keep theirs.
func rekey(f *vcommon.Failure, key string) *vcommon.Failure {
	if f.Key == "unexpected-error" {
		f.Key = key
	}
	return f
}

func sign(x int64) int {
	switch {
	case x < 0:
		return -1
	case x > 0:
		return 1
	}
	return 0
}

func checkOrder(c Triple, ctx *vcommon.Ctx) *vcommon.Failure {
	names := []string{"a", "b", "c"}
	strs := []string{c.A, c.B, c.C}
	var ref [3]*big.Int
	var tss [3]reftime.TS
	for i, s := range strs {
		ts, v, r := reftime.Parse(s)
		if v != reftime.Valid {
			return vcommon.Failf("harness/generator-unsound", "generated instant %q is %v (%s)", s, v, r)
		}
		ref[i], tss[i] = ts.UnixNanos(), ts
	}
	if i := strings.IndexByte(c.Rel, ','); i >= 0 {
		ctx.Class("relB:" + c.Rel[:i])
		ctx.Class("relC:" + c.Rel[i+1:])
	}
	parse := parsers[0]
	if c.Nano {
		parse = parsers[1]
	}
	s := session()
	s.clear("a", "b", "c")
	for i, n := range names {
		s.bindStr("s", strs[i])
		if f := s.define(n, "("+parse+" s)"); f != nil {
			return rekey(f, "parse/rejects-valid")
		}
	}
	var lt, eq, gt [3][3]bool
	nontrivial := false
	for i := 0; i < 3; i++ {
		for j := 0; j < 3; j++ {
			x, y := names[i], names[j]
			var f *vcommon.Failure
			if lt[i][j], f = s.boolean("(time:time< " + x + " " + y + ")"); f != nil {
				return f
			}
			if eq[i][j], f = s.boolean("(time:time= " + x + " " + y + ")"); f != nil {
				return f
			}
			if gt[i][j], f = s.boolean("(time:time> " + x + " " + y + ")"); f != nil {
				return f
			}
			n := 0
			for _, b := range []bool{lt[i][j], eq[i][j], gt[i][j]} {
				if b {
					n++
				}
			}
			desc := fmt.Sprintf("x=%q y=%q: time< %v, time= %v, time> %v", strs[i], strs[j], lt[i][j], eq[i][j], gt[i][j])
			if n != 1 {
				return vcommon.Failf("order/trichotomy", "exactly one of time<, time=, time> must hold; %s", desc)
			}
			cmp := ref[i].Cmp(ref[j]) // -1: x earlier
			if lt[i][j] != (cmp < 0) || eq[i][j] != (cmp == 0) || gt[i][j] != (cmp > 0) {
				return vcommon.Failf("order/disagrees-with-reference", "reference order of the instants is %d (x-y sign); %s", cmp, desc)
			}
			if i == j {
				continue
			}
			diff := new(big.Int).Sub(ref[j], ref[i]) // time-from x y = y - x
			from, f := s.integer("(time:duration-ns (time:time-from " + x + " " + y + "))")
			if f != nil {
				return f
			}
			if sign(from) != diff.Sign() || sign(from) != -cmp {
				return vcommon.Failf("order/time-from-sign", "(time-from x y) = %d ns, but the order says sign %d; %s", from, -cmp, desc)
			}
			absd := new(big.Int).Abs(diff)
			if absd.Sign() != 0 && absd.Cmp(big.NewInt(1_000_000_000)) < 0 && tss[i].OffsetSeconds() != tss[j].OffsetSeconds() {
				nontrivial = true
				ctx.Class("pair<1s-different-offsets")
			}
			if absd.Sign() == 0 && tss[i].OffsetSeconds() != tss[j].OffsetSeconds() {
				ctx.Class("pair-equal-instant-different-offsets")
			}
			if !fitsInt64(diff) {
				ctx.Class("pair-difference-overflows")
				continue // "whenever no overflow occurs"
			}
			if from != diff.Int64() {
				return vcommon.Failf("from/value", "(time-from %q %q) = %d ns, exact difference is %v ns", strs[i], strs[j], from, diff)
			}
			// (time-add x (time-from x y)) equals y
			if f := s.define("r", "(time:time-add "+x+" (time:time-from "+x+" "+y+"))"); f != nil {
				return f
			}
			same, f := s.boolean("(time:time= r " + y + ")")
			if f != nil {
				return f
			}
			rest, f := s.integer("(time:duration-ns (time:time-from r " + y + "))")
			if f != nil {
				return f
			}
			if !same || rest != 0 {
				return vcommon.Failf("add/from-inverse", "(time-add x (time-from x y)) is not y: time= %v, remaining difference %d ns; x=%q y=%q", same, rest, strs[i], strs[j])
			}
			// the result keeps x's offset; when its local year is printable the
			// printed instant must be y's exactly
			if cv := reftime.CivilAt(ref[j], tss[i].OffsetSeconds()); cv.Year >= 0 && cv.Year <= 9999 {
				text, f := s.str("(time:format-rfc3339-nano r)")
				if f != nil {
					return f
				}
				back, bv, br := reftime.Parse(text)
				if bv != reftime.Valid {
					return vcommon.Failf("format/not-rfc3339", "(time-add x (time-from x y)) prints as %q (%s); x=%q y=%q", text, br, strs[i], strs[j])
				}
				if back.UnixNanos().Cmp(ref[j]) != 0 {
					return vcommon.Failf("add/from-inverse-printed", "(time-add x (time-from x y)) prints as %q, which is not the instant of y=%q (x=%q)", text, strs[j], strs[i])
				}
			}
		}
	}
	// transitivity on the interpreter's own answers (independent of reftime)
	for i := 0; i < 3; i++ {
		for j := 0; j < 3; j++ {
			for k := 0; k < 3; k++ {
				if lt[i][j] && lt[j][k] && !lt[i][k] {
					return vcommon.Failf("order/transitivity", "time< holds for (%q,%q) and (%q,%q) but not (%q,%q)", strs[i], strs[j], strs[j], strs[k], strs[i], strs[k])
				}
				if eq[i][j] && eq[j][k] && !eq[i][k] {
					return vcommon.Failf("order/eq-transitivity", "time= holds for (%q,%q) and (%q,%q) but not (%q,%q)", strs[i], strs[j], strs[j], strs[k], strs[i], strs[k])
				}
			}
		}
	}
	if nontrivial {
		ctx.NonTrivial(c.A + "|" + c.B + "|" + c.C)
		ctx.Note(fmt.Sprintf("a=%s b=%s c=%s", c.A, c.B, c.C))
	}
	return nil
}

// ---------------------------------------------------------------------------
// (d) time-add then time-from

func checkAdd(c AddCase, ctx *vcommon.Ctx) *vcommon.Failure {
	ts, v, r := reftime.Parse(c.T)
	if v != reftime.Valid {
		return vcommon.Failf("harness/generator-unsound", "generated instant %q is %v (%s)", c.T, v, r)
	}
	base := ts.UnixNanos()
	want := new(big.Int).Add(base, big.NewInt(c.D))
	switch {
	case c.D == 0:
		ctx.Class("d=0")
	case c.D > -1_000_000_000 && c.D < 1_000_000_000:
		ctx.Class("|d|<1s")
	case c.D == math.MaxInt64 || c.D == math.MinInt64:
		ctx.Class("d=int64-extreme")
	default:
		ctx.Class("|d|>=1s")
	}
	s := session()
	s.clear("t0", "d", "r")
	s.bindStr("s", c.T)
	s.bindStr("ds", fmt.Sprintf("%dns", c.D))
	if f := s.define("t0", "(time:parse-rfc3339-nano s)"); f != nil {
		return rekey(f, "parse/rejects-valid")
	}
	if f := s.define("d", "(time:parse-duration ds)"); f != nil {
		return rekey(f, "duration/rejects-valid")
	}
	dn, f := s.integer("(time:duration-ns d)")
	if f != nil {
		return f
	}
	if dn != c.D {
		return vcommon.Failf("duration/ns", "(duration-ns (parse-duration %q)) = %d", fmt.Sprintf("%dns", c.D), dn)
	}
	if f := s.define("r", "(time:time-add t0 d)"); f != nil {
		return f
	}
	got, f := s.integer("(time:duration-ns (time:time-from t0 r))")
	if f != nil {
		return f
	}
	if got != c.D {
		return vcommon.Failf("add/add-inverse", "(time-from t (time-add t d)) = %d ns, d = %d ns, t = %q", got, c.D, c.T)
	}
	// the order must see the shift
	lt, f := s.boolean("(time:time< t0 r)")
	if f != nil {
		return f
	}
	gt, f := s.boolean("(time:time> t0 r)")
	if f != nil {
		return f
	}
	eq, f := s.boolean("(time:time= t0 r)")
	if f != nil {
		return f
	}
	if lt != (c.D > 0) || gt != (c.D < 0) || eq != (c.D == 0) {
		return vcommon.Failf("add/order", "t=%q d=%d ns: time< %v time> %v time= %v for (t, t+d)", c.T, c.D, lt, gt, eq)
	}
	if cv := reftime.CivilAt(want, ts.OffsetSeconds()); cv.Year >= 0 && cv.Year <= 9999 {
		text, f := s.str("(time:format-rfc3339-nano r)")
		if f != nil {
			return f
		}
		back, bv, br := reftime.Parse(text)
		if bv != reftime.Valid {
			return vcommon.Failf("format/not-rfc3339", "(time-add %q %dns) prints as %q (%s)", c.T, c.D, text, br)
		}
		if back.UnixNanos().Cmp(want) != 0 {
			return vcommon.Failf("add/value", "(time-add %q %dns) prints as %q, exact result is %v ns since the epoch", c.T, c.D, text, want)
		}
		if ts.OffsetSeconds() != 0 && ts.Frac != "" && c.D != 0 {
			ctx.NonTrivial(fmt.Sprintf("%s+%d", c.T, c.D))
			ctx.Note(fmt.Sprintf("%s + %dns = %s", c.T, c.D, text))
		}
	} else {
		ctx.Class("result-year-outside-0000-9999")
	}
	return nil
}

// ---------------------------------------------------------------------------
// (e) durations

// ulpDistance returns how many representable float64 values lie between a and b.
func ulpDistance(a, b float64) uint64 {
	ord := func(f float64) int64 {
		u := int64(math.Float64bits(f))
		if u < 0 {
			u = math.MinInt64 - u
		}
		return u
	}
	x, y := ord(a), ord(b)
	if x > y {
		return uint64(x - y)
	}
	return uint64(y - x)
}

func quotientFloat(n int64, unit int64) float64 {
	f, _ := new(big.Rat).SetFrac(big.NewInt(n), big.NewInt(unit)).Float64() // nearest float64
	return f
}

func checkDur(c DurCase, ctx *vcommon.Ctx) *vcommon.Failure {
	ref, ok := reftime.ParseDuration(c.S)
	ctx.Class("kind:" + c.Kind)
	s := session()
	s.clear("d")
	s.bindStr("ds", c.S)
	src := "(set 'd (time:parse-duration ds))"
	o := s.eval(src)
	if f := panicFail(src, o); f != nil {
		return f
	}
	if !ok {
		// not a duration string by the documented grammar: the property makes
		// no claim beyond "no crash"
		ctx.Class("malformed-no-claim")
		return nil
	}
	lo := new(big.Rat).SetInt(bigMinI64)
	hi := new(big.Rat).SetInt(bigMaxI64)
	if ref.Ns.Cmp(lo) < 0 || ref.Ns.Cmp(hi) > 0 {
		ctx.Class("out-of-int64-no-claim")
		return nil
	}
	if o.IsErr {
		return vcommon.Failf("duration/rejects-valid", "(parse-duration %q) fails: %s: %s (exact value %s ns)", c.S, o.Cond, o.Msg, ref.Ns.RatString())
	}
	n, f := s.integer("(time:duration-ns d)")
	if f != nil {
		return f
	}
	// duration-ns against exact arithmetic.  Every component that is a whole
	// number of nanoseconds must be counted exactly; for a component with
	// sub-nanosecond digits the property does not say how it rounds, so either
	// neighbour is accepted (".4ns.6ns" may be 0, 1 or 2 ns).
	mag := new(big.Int).Abs(big.NewInt(n))
	if n != 0 && (n < 0) != ref.Neg {
		return vcommon.Failf("duration/sign", "(duration-ns (parse-duration %q)) = %d has the wrong sign", c.S, n)
	}
	if ref.SubNs == 0 {
		ctx.Class("exact-integral")
		if ref.Components >= 2 || ref.FracComps >= 1 {
			ctx.NonTrivial(c.S)
			ctx.Note(fmt.Sprintf("%q = %d ns", c.S, n))
		}
	} else {
		ctx.Class("sub-ns-digits-either-neighbour")
	}
	if mag.Cmp(ref.FloorMag) < 0 || mag.Cmp(ref.CeilMag) > 0 {
		key := "duration/ns"
		// one defect class gets its own key: the result falls short of the
		// exact value by at most 1 ns per component written with a fraction
		// (the signature of scaling the fraction in floating point and
		// truncating)
		short := new(big.Int).Sub(ref.FloorMag, mag)
		if ref.FracComps > 0 && short.Sign() > 0 && short.Cmp(big.NewInt(int64(ref.FracComps))) <= 0 {
			key = "duration/ns-fraction-float-rounding"
		}
		return vcommon.Failf(key, "(duration-ns (parse-duration %q)) = %d, exact value is %s ns (acceptable magnitudes %v..%v)", c.S, n, ref.Ns.FloatString(12), ref.FloorMag, ref.CeilMag)
	}
	// duration-s / duration-ms against the exact quotient of the duration's
	// own nanosecond count: exact when |n| <= 2^53 (the int→float conversion is
	// exact and IEEE division is correctly rounded), otherwise the conversion
	// and the division each round once, which can move the result at most two
	// representable values away from the correctly rounded quotient.
	for _, q := range []struct {
		fn   string
		unit int64
	}{{"time:duration-s", 1_000_000_000}, {"time:duration-ms", 1_000_000}} {
		got, f := s.float("(" + q.fn + " d)")
		if f != nil {
			return f
		}
		want := quotientFloat(n, q.unit)
		tol := uint64(0)
		if n > 1<<53 || n < -(1<<53) {
			tol = 2
			ctx.Class("|ns|>2^53")
		}
		if math.IsNaN(got) || ulpDistance(got, want) > tol || (got == 0) != (n == 0) {
			return vcommon.Failf("duration/float-"+q.fn[len("time:duration-"):], "(%s (parse-duration %q)) = %v, exact quotient %d/%d rounds to %v (tolerance %d ulp)", q.fn, c.S, got, n, q.unit, want, tol)
		}
	}
	return nil
}

func TestCheck(t *testing.T) {
	vcommon.Main(t, "C15",
		vcommon.S("valid", 200000, 6000000, genStamp(), checkValid),
		vcommon.S("nearmiss", 160000, 5000000, genNearMiss(), checkNearMiss),
		vcommon.S("order", 80000, 2400000, genTriple(), checkOrder),
		vcommon.S("add", 100000, 3000000, genAdd(), checkAdd),
		vcommon.S("duration", 120000, 3600000, genDur(), checkDur),
		vcommon.S("sleep-refuse", 6400, 200000, genSleepRefuse(), checkSleep),
		vcommon.S("sleep-real", 48, 600, genSleepReal(), checkSleep),
	)
}
