package c15

import (
	"fmt"
	"strings"

	"github.com/luthersystems/elps/lisp"
	"github.com/luthersystems/elps/parser"
	"github.com/luthersystems/elps/verifharness/vcommon"
)

// sess is the one interpreter the pure (non-sleep) oracles of a shard process
// share.  Every expression is read once by the real reader and evaluated by
// the real evaluator; inputs are handed over as global bindings in the user
// package so no input byte has to survive string-literal escaping.  Oracles
// rebind everything they read, so a case never sees state of an earlier one.
type sess struct {
	rt    *vcommon.Rt
	pkg   *lisp.Package
	cache map[string]*lisp.LVal
}

var theSess *sess

func session() *sess {
	if theSess == nil {
		rt := vcommon.NewRuntime(vcommon.Cfg{NoProbes: true})
		theSess = &sess{
			rt:    rt,
			pkg:   rt.Env.Runtime.Registry.Package(lisp.DefaultUserPackage),
			cache: map[string]*lisp.LVal{},
		}
	}
	return theSess
}

func (s *sess) bindStr(name, val string) { s.pkg.Put(lisp.Symbol(name), lisp.String(val)) }

// clear unbinds the scratch globals an oracle is about to (re)define, so that a
// failed definition can never be papered over by a stale value.
func (s *sess) clear(names ...string) {
	for _, n := range names {
		s.pkg.Put(lisp.Symbol(n), lisp.Nil())
	}
}

func (s *sess) eval(src string) vcommon.Outcome {
	expr := s.cache[src]
	if expr == nil {
		exprs, err := parser.NewReader().Read("c15.lisp", strings.NewReader(src))
		if err != nil || len(exprs) != 1 {
			panic(fmt.Sprintf("harness: cannot read %q: %v", src, err))
		}
		expr = exprs[0]
		s.cache[src] = expr
	}
	return s.rt.Observe(s.rt.Env.Eval(expr))
}

// --- typed result extraction; every result is checked for recovered panics ---

func panicFail(src string, o vcommon.Outcome) *vcommon.Failure {
	if o.Panic {
		return vcommon.Failf("internal-panic", "%s recovered a Go panic: %s", src, o.Msg)
	}
	return nil
}

func (s *sess) str(src string) (string, *vcommon.Failure) {
	o := s.eval(src)
	if f := panicFail(src, o); f != nil {
		return "", f
	}
	if o.IsErr {
		return "", vcommon.Failf("unexpected-error", "%s failed: %s: %s", src, o.Cond, o.Msg)
	}
	if o.Val.Type != lisp.LString {
		return "", vcommon.Failf("unexpected-type", "%s returned %s, want a string", src, o.Text)
	}
	return o.Val.Str, nil
}

func (s *sess) integer(src string) (int64, *vcommon.Failure) {
	o := s.eval(src)
	if f := panicFail(src, o); f != nil {
		return 0, f
	}
	if o.IsErr {
		return 0, vcommon.Failf("unexpected-error", "%s failed: %s: %s", src, o.Cond, o.Msg)
	}
	if o.Val.Type != lisp.LInt {
		return 0, vcommon.Failf("unexpected-type", "%s returned %s, want an int", src, o.Text)
	}
	return int64(o.Val.Int), nil
}

func (s *sess) float(src string) (float64, *vcommon.Failure) {
	o := s.eval(src)
	if f := panicFail(src, o); f != nil {
		return 0, f
	}
	if o.IsErr {
		return 0, vcommon.Failf("unexpected-error", "%s failed: %s: %s", src, o.Cond, o.Msg)
	}
	if o.Val.Type != lisp.LFloat {
		return 0, vcommon.Failf("unexpected-type", "%s returned %s, want a float", src, o.Text)
	}
	return o.Val.Float, nil
}

func (s *sess) boolean(src string) (bool, *vcommon.Failure) {
	o := s.eval(src)
	if f := panicFail(src, o); f != nil {
		return false, f
	}
	if o.IsErr {
		return false, vcommon.Failf("unexpected-error", "%s failed: %s: %s", src, o.Cond, o.Msg)
	}
	if o.Val.Type == lisp.LSymbol && o.Val.Str == "true" {
		return true, nil
	}
	if o.Val.Type == lisp.LSymbol && o.Val.Str == "false" {
		return false, nil
	}
	return false, vcommon.Failf("unexpected-type", "%s returned %s, want true or false", src, o.Text)
}

// define evaluates (set 'name expr) and requires success.
func (s *sess) define(name, expr string) *vcommon.Failure {
	src := "(set '" + name + " " + expr + ")"
	o := s.eval(src)
	if f := panicFail(src, o); f != nil {
		return f
	}
	if o.IsErr {
		return vcommon.Failf("unexpected-error", "%s failed: %s: %s", src, o.Cond, o.Msg)
	}
	return nil
}
