package c15

import (
	"fmt"
	"math"
	"math/big"
	"strings"

	"github.com/luthersystems/elps/verifharness/c15/reftime"
	"pgregory.net/rapid"
)

// ---------------------------------------------------------------------------
// Field-wise RFC 3339 timestamps

// Stamp is a positive case: the string plus the fields it was built from (the
// oracle cross-checks the reference scanner against the construction).
type Stamp struct {
	S    string `json:"s"`
	Y    int    `json:"y"`
	Mo   int    `json:"mo"`
	D    int    `json:"d"`
	H    int    `json:"h"`
	Mi   int    `json:"mi"`
	Sec  int    `json:"sec"`
	Frac string `json:"frac"`
	Off  string `json:"off"`
}

var specialYears = []int{1, 4, 99, 100, 400, 1582, 1600, 1677, 1678, 1900, 1969, 1970, 1999, 2000, 2023, 2024, 2038, 2100, 2261, 2262, 2263, 9996, 9998}

var specialOffsets = []string{"+23:59", "-23:59", "+00:01", "-00:01", "+14:00", "-12:00", "+05:30", "+05:45", "+12:45", "-09:30", "+23:00", "-23:00", "+00:59", "-00:59", "+01:00", "-08:00"}

func genYear(t *rapid.T) int {
	switch rapid.IntRange(0, 9).Draw(t, "yk") {
	case 0:
		return 0
	case 1:
		return 9999
	case 2, 3:
		return rapid.SampledFrom(specialYears).Draw(t, "ys")
	}
	return rapid.IntRange(0, 9999).Draw(t, "y")
}

func genDate(t *rapid.T) (y, mo, d int) {
	y = genYear(t)
	switch rapid.IntRange(0, 9).Draw(t, "dk") {
	case 0: // leap day
		y = rapid.IntRange(0, 2499).Draw(t, "y4") * 4
		if !reftime.IsLeap(y) {
			y = rapid.SampledFrom([]int{0, 400, 1600, 2000, 2400, 9600}).Draw(t, "y400")
		}
		return y, 2, 29
	case 1:
		return y, 12, 31
	case 2:
		return y, 1, 1
	case 3:
		mo = rapid.IntRange(1, 12).Draw(t, "mo")
		return y, mo, reftime.DaysInMonth(y, mo)
	case 4:
		return y, 2, 28
	case 5:
		return y, 3, 1
	}
	mo = rapid.IntRange(1, 12).Draw(t, "mo")
	d = rapid.IntRange(1, reftime.DaysInMonth(y, mo)).Draw(t, "d")
	return
}

func genClock(t *rapid.T) (h, mi, s int) {
	switch rapid.IntRange(0, 7).Draw(t, "ck") {
	case 0:
		return 0, 0, 0
	case 1:
		return 23, 59, 59
	}
	return rapid.IntRange(0, 23).Draw(t, "h"), rapid.IntRange(0, 59).Draw(t, "mi"), rapid.IntRange(0, 59).Draw(t, "s")
}

func genDigits(t *rapid.T, n int, label string) string {
	b := make([]byte, n)
	for i := range b {
		b[i] = byte('0' + rapid.IntRange(0, 9).Draw(t, label))
	}
	return string(b)
}

// genFrac returns 0-9 fractional digits ("" = no fraction).
func genFrac(t *rapid.T) string {
	n := rapid.IntRange(0, 9).Draw(t, "fn")
	if n == 0 {
		return ""
	}
	switch rapid.IntRange(0, 7).Draw(t, "fk") {
	case 0:
		return strings.Repeat("0", n)
	case 1:
		return strings.Repeat("9", n)
	case 2:
		return strings.Repeat("0", n-1) + "1"
	case 3:
		return genDigits(t, 1, "fd") + strings.Repeat("0", n-1)
	}
	return genDigits(t, n, "fd")
}

func genOffset(t *rapid.T) string {
	switch rapid.IntRange(0, 9).Draw(t, "ok") {
	case 0, 1:
		return "Z"
	case 2:
		return "+00:00"
	case 3:
		return "-00:00"
	case 4:
		return rapid.SampledFrom(specialOffsets).Draw(t, "os")
	}
	sign := rapid.SampledFrom([]string{"+", "-"}).Draw(t, "sign")
	return fmt.Sprintf("%s%02d:%02d", sign, rapid.IntRange(0, 23).Draw(t, "oh"), rapid.IntRange(0, 59).Draw(t, "om"))
}

func (s *Stamp) build() {
	s.S = fmt.Sprintf("%04d-%02d-%02dT%02d:%02d:%02d", s.Y, s.Mo, s.D, s.H, s.Mi, s.Sec)
	if s.Frac != "" {
		s.S += "." + s.Frac
	}
	s.S += s.Off
}

func drawStamp(t *rapid.T) Stamp {
	var s Stamp
	s.Y, s.Mo, s.D = genDate(t)
	s.H, s.Mi, s.Sec = genClock(t)
	s.Frac = genFrac(t)
	s.Off = genOffset(t)
	if rapid.IntRange(0, 24).Draw(t, "edge") == 0 {
		// local time inside 0000-9999 whose UTC instant lies outside it
		h, m := rapid.IntRange(0, 23).Draw(t, "eh"), rapid.IntRange(0, 59).Draw(t, "em")
		if h == 0 && m == 0 {
			m = 1
		}
		if rapid.Bool().Draw(t, "low") {
			s.Y, s.Mo, s.D, s.H, s.Mi, s.Sec = 0, 1, 1, 0, 0, rapid.IntRange(0, 59).Draw(t, "es")
			s.Off = fmt.Sprintf("+%02d:%02d", h, m)
		} else {
			s.Y, s.Mo, s.D, s.H, s.Mi, s.Sec = 9999, 12, 31, 23, 59, rapid.IntRange(0, 59).Draw(t, "es")
			s.Off = fmt.Sprintf("-%02d:%02d", h, m)
		}
	}
	s.build()
	return s
}

func genStamp() *rapid.Generator[Stamp] { return rapid.Custom(drawStamp) }

// ---------------------------------------------------------------------------
// Near-miss strings by class

type NearMiss struct {
	S     []byte `json:"s"`
	Class string `json:"class"`
	Base  string `json:"base"`
}

// parts of a timestamp, so a mutation can address one field
type parts struct {
	year, month, day, hour, min, sec string
	frac                             string // digits, "" when none
	zulu                             bool
	sign, oh, om                     string
}

func (p parts) offset() string {
	if p.zulu {
		return "Z"
	}
	return p.sign + p.oh + ":" + p.om
}

func (p parts) fracPart() string {
	if p.frac == "" {
		return ""
	}
	return "." + p.frac
}

func (p parts) String() string {
	return p.year + "-" + p.month + "-" + p.day + "T" + p.hour + ":" + p.min + ":" + p.sec + p.fracPart() + p.offset()
}

func partsOf(s Stamp) parts {
	p := parts{
		year: fmt.Sprintf("%04d", s.Y), month: fmt.Sprintf("%02d", s.Mo), day: fmt.Sprintf("%02d", s.D),
		hour: fmt.Sprintf("%02d", s.H), min: fmt.Sprintf("%02d", s.Mi), sec: fmt.Sprintf("%02d", s.Sec),
		frac: s.Frac,
	}
	if s.Off == "Z" {
		p.zulu = true
	} else {
		p.sign, p.oh, p.om = s.Off[:1], s.Off[1:3], s.Off[4:6]
	}
	return p
}

func (p *parts) field(name string) *string {
	switch name {
	case "year":
		return &p.year
	case "month":
		return &p.month
	case "day":
		return &p.day
	case "hour":
		return &p.hour
	case "minute":
		return &p.min
	case "second":
		return &p.sec
	case "offset-hour":
		return &p.oh
	case "offset-minute":
		return &p.om
	}
	panic("field " + name)
}

var nearMissClasses = []string{
	"missing-field", "width-narrow", "width-wide",
	"range-month", "range-day", "range-hour", "range-minute", "range-second",
	"range-offset-hour", "range-offset-minute",
	"comma-fraction", "missing-T", "trailing-garbage", "leading-garbage",
	"fraction-empty", "non-digit", "offset-form", "separator", "truncated",
}

var junkChars = []string{"O", "l", " ", "+", "-", "x", "٠", "\xff", ":", ".", "१"}

func drawNearMiss(t *rapid.T) NearMiss {
	base := drawStamp(t)
	class := rapid.SampledFrom(nearMissClasses).Draw(t, "class")
	p := partsOf(base)
	numericOffset := func() {
		if p.zulu {
			p.zulu = false
			p.sign = rapid.SampledFrom([]string{"+", "-"}).Draw(t, "sign")
			p.oh = fmt.Sprintf("%02d", rapid.IntRange(0, 23).Draw(t, "oh"))
			p.om = fmt.Sprintf("%02d", rapid.IntRange(0, 59).Draw(t, "om"))
		}
	}
	fields := []string{"year", "month", "day", "hour", "minute", "second", "offset-hour", "offset-minute"}
	var out string
	switch class {
	case "missing-field":
		f := rapid.SampledFrom([]string{"year", "month", "day", "date", "hour", "minute", "second", "time", "offset", "offset-hour", "offset-minute"}).Draw(t, "f")
		class += "/" + f
		numericOffset()
		date := p.year + "-" + p.month + "-" + p.day
		tod := p.hour + ":" + p.min + ":" + p.sec + p.fracPart()
		switch f {
		case "year":
			out = p.month + "-" + p.day + "T" + tod + p.offset()
		case "month":
			out = p.year + "-" + p.day + "T" + tod + p.offset()
		case "day":
			out = p.year + "-" + p.month + "T" + tod + p.offset()
		case "date":
			out = rapid.SampledFrom([]string{"", "T"}).Draw(t, "keepT") + tod + p.offset()
		case "hour":
			out = date + "T" + p.min + ":" + p.sec + p.fracPart() + p.offset()
		case "minute":
			out = date + "T" + p.hour + ":" + p.sec + p.fracPart() + p.offset()
		case "second":
			out = date + "T" + p.hour + ":" + p.min + p.offset()
		case "time":
			out = date + rapid.SampledFrom([]string{"", "T"}).Draw(t, "keepT") + p.offset()
		case "offset":
			out = date + "T" + tod
		case "offset-hour":
			out = date + "T" + tod + p.sign + p.om
		case "offset-minute":
			out = date + "T" + tod + p.sign + p.oh + rapid.SampledFrom([]string{"", ":"}).Draw(t, "colon")
		}
	case "width-narrow", "width-wide":
		numericOffset()
		f := rapid.SampledFrom(fields).Draw(t, "f")
		fp := p.field(f)
		if class == "width-narrow" {
			// drop one digit: the leading one (keeps the low digits) or the last
			if rapid.Bool().Draw(t, "dropfirst") {
				*fp = (*fp)[1:]
			} else {
				*fp = (*fp)[:len(*fp)-1]
			}
		} else {
			if rapid.Bool().Draw(t, "pad0") {
				*fp = "0" + *fp
			} else {
				*fp = *fp + genDigits(t, 1, "extra")
			}
		}
		class += "/" + f
		out = p.String()
	case "range-month":
		v := rapid.SampledFrom([]int{0, 13, 14, 20, 99}).Draw(t, "v")
		if rapid.Bool().Draw(t, "any") {
			v = rapid.IntRange(13, 99).Draw(t, "vv")
		}
		p.month = fmt.Sprintf("%02d", v)
		out = p.String()
	case "range-day":
		dim := reftime.DaysInMonth(base.Y, base.Mo)
		v := rapid.SampledFrom([]int{0, dim + 1, 32, 99}).Draw(t, "v")
		switch rapid.IntRange(0, 3).Draw(t, "dk") {
		case 0: // Feb 29 of a common year
			y := base.Y
			if reftime.IsLeap(y) {
				y = rapid.SampledFrom([]int{1, 1900, 2023, 2100, 9999, 100}).Draw(t, "cy")
			}
			p.year, p.month, v = fmt.Sprintf("%04d", y), "02", 29
		case 1: // Feb 30
			p.month, v = "02", 30
		case 2: // day 31 of a 30-day month
			p.month, v = rapid.SampledFrom([]string{"04", "06", "09", "11"}).Draw(t, "m30"), 31
		}
		p.day = fmt.Sprintf("%02d", v)
		out = p.String()
	case "range-hour":
		p.hour = fmt.Sprintf("%02d", pickRange(t, 24, 99))
		out = p.String()
	case "range-minute":
		p.min = fmt.Sprintf("%02d", pickRange(t, 60, 99))
		out = p.String()
	case "range-second":
		p.sec = fmt.Sprintf("%02d", pickRange(t, 61, 99)) // 60 is a leap second: unspecified
		out = p.String()
	case "range-offset-hour":
		numericOffset()
		p.oh = fmt.Sprintf("%02d", pickRange(t, 24, 99))
		out = p.String()
	case "range-offset-minute":
		numericOffset()
		p.om = fmt.Sprintf("%02d", pickRange(t, 60, 99))
		out = p.String()
	case "comma-fraction":
		if p.frac == "" {
			p.frac = genDigits(t, rapid.IntRange(1, 9).Draw(t, "fn"), "fd")
		}
		out = p.year + "-" + p.month + "-" + p.day + "T" + p.hour + ":" + p.min + ":" + p.sec + "," + p.frac + p.offset()
	case "missing-T":
		sep := rapid.SampledFrom([]string{"", "_", "/", "-", ":", "TT", "\t", "T ", "D", "\u00a0"}).Draw(t, "sep")
		out = p.year + "-" + p.month + "-" + p.day + sep + p.hour + ":" + p.min + ":" + p.sec + p.fracPart() + p.offset()
	case "trailing-garbage":
		out = p.String() + rapid.SampledFrom([]string{" ", "Z", "x", "\n", "\x00", "+00:00", ".5", "0", "\t", "\r\n", "[UTC]", "\xff"}).Draw(t, "tail")
	case "leading-garbage":
		out = rapid.SampledFrom([]string{" ", "+", "-", "\n", "\x00", "0", "T", "\ufeff", "\""}).Draw(t, "head") + p.String()
	case "fraction-empty":
		out = p.year + "-" + p.month + "-" + p.day + "T" + p.hour + ":" + p.min + ":" + p.sec + "." + p.offset()
	case "non-digit":
		numericOffset()
		f := rapid.SampledFrom(fields).Draw(t, "f")
		fp := p.field(f)
		i := rapid.IntRange(0, len(*fp)-1).Draw(t, "i")
		j := rapid.SampledFrom(junkChars).Draw(t, "junk")
		*fp = (*fp)[:i] + j + (*fp)[i+1:]
		class += "/" + f
		out = p.String()
	case "offset-form":
		numericOffset()
		head := p.year + "-" + p.month + "-" + p.day + "T" + p.hour + ":" + p.min + ":" + p.sec + p.fracPart()
		k := rapid.SampledFrom([]string{"no-colon", "hours-only", "no-sign", "z-and-numeric", "name", "with-seconds", "space-before", "double-sign", "unicode-minus"}).Draw(t, "form")
		class += "/" + k
		switch k {
		case "no-colon":
			out = head + p.sign + p.oh + p.om
		case "hours-only":
			out = head + p.sign + p.oh
		case "no-sign":
			out = head + p.oh + ":" + p.om
		case "z-and-numeric":
			out = head + "Z" + p.offset()
		case "name":
			out = head + rapid.SampledFrom([]string{"UTC", "GMT", "EST", "UT", " UTC", "ZULU"}).Draw(t, "name")
		case "with-seconds":
			out = head + p.offset() + ":" + genDigits(t, 2, "os")
		case "space-before":
			out = head + " " + p.offset()
		case "double-sign":
			out = head + p.sign + p.offset()
		case "unicode-minus":
			out = head + "−" + p.oh + ":" + p.om
		}
	case "separator":
		numericOffset()
		k := rapid.SampledFrom([]string{"date-slash", "date-dot", "date-none", "time-dot", "time-none", "time-dash", "offset-dot"}).Draw(t, "sepk")
		class += "/" + k
		date := p.year + "-" + p.month + "-" + p.day
		tod := p.hour + ":" + p.min + ":" + p.sec
		switch k {
		case "date-slash":
			date = p.year + "/" + p.month + "/" + p.day
		case "date-dot":
			date = p.year + "." + p.month + "." + p.day
		case "date-none":
			date = p.year + p.month + p.day
		case "time-dot":
			tod = p.hour + "." + p.min + "." + p.sec
		case "time-none":
			tod = p.hour + p.min + p.sec
		case "time-dash":
			tod = p.hour + "-" + p.min + "-" + p.sec
		}
		off := p.offset()
		if k == "offset-dot" {
			off = p.sign + p.oh + "." + p.om
		}
		out = date + "T" + tod + p.fracPart() + off
	case "truncated":
		full := p.String()
		out = full[:rapid.IntRange(0, len(full)-1).Draw(t, "cut")]
	}
	return NearMiss{S: []byte(out), Class: class, Base: base.S}
}

func pickRange(t *rapid.T, lo, hi int) int {
	switch rapid.IntRange(0, 3).Draw(t, "rk") {
	case 0:
		return lo
	case 1:
		return hi
	}
	return rapid.IntRange(lo, hi).Draw(t, "rv")
}

func genNearMiss() *rapid.Generator[NearMiss] { return rapid.Custom(drawNearMiss) }

// ---------------------------------------------------------------------------
// Pairs / triples of instants

type Triple struct {
	A    string `json:"a"`
	B    string `json:"b"`
	C    string `json:"c"`
	Rel  string `json:"rel"`  // how B was derived from A and C from B (histogram only)
	Nano bool   `json:"nano"` // which parser loads the three stamps
}

var (
	big2p63   = new(big.Int).Lsh(big.NewInt(1), 63)
	bigMaxI64 = big.NewInt(math.MaxInt64)
	bigMinI64 = big.NewInt(math.MinInt64)
)

func fitsInt64(x *big.Int) bool { return x.Cmp(bigMinI64) >= 0 && x.Cmp(bigMaxI64) <= 0 }

func offsetSeconds(off string) int64 {
	if off == "Z" {
		return 0
	}
	var h, m int64
	fmt.Sscanf(off[1:], "%02d:%02d", &h, &m)
	o := h*3600 + m*60
	if off[0] == '-' {
		return -o
	}
	return o
}

// renderInstant writes ns at a freshly drawn offset, with the fewest digits
// that keep it exact plus a drawn amount of zero padding.  Falls back to other
// offsets when the local year leaves 0000-9999; ok=false if none fits.
func renderInstant(t *rapid.T, ns *big.Int, preferOff string) (string, bool) {
	offs := []string{preferOff, "Z", "+23:59", "-23:59"}
	_, nanos := reftime.Split(ns)
	minDigits := 0
	if nanos != 0 {
		f := fmt.Sprintf("%09d", nanos)
		minDigits = len(strings.TrimRight(f, "0"))
	}
	digits := rapid.IntRange(minDigits, 9).Draw(t, "digits")
	for _, off := range offs {
		zulu := off == "Z"
		neg := off == "-00:00"
		if s, ok := reftime.Render(ns, offsetSeconds(off), digits, zulu, neg); ok {
			return s, true
		}
	}
	return "", false
}

var relKinds = []string{"same-instant", "same-instant", "sub-second", "sub-second", "one-ns", "seconds", "days", "within-292y", "int64-edge", "independent", "independent", "identical"}

func derive(t *rapid.T, from string, label string) (string, string) {
	kind := rapid.SampledFrom(relKinds).Draw(t, label)
	ts, v, _ := reftime.Parse(from)
	if v != reftime.Valid {
		panic("harness: derive from invalid " + from)
	}
	ns := ts.UnixNanos()
	delta := new(big.Int)
	switch kind {
	case "identical":
		return from, kind
	case "independent":
		return drawStamp(t).S, kind
	case "same-instant":
	case "sub-second":
		delta.SetInt64(rapid.Int64Range(1, 999_999_999).Draw(t, "dns"))
	case "one-ns":
		delta.SetInt64(1)
	case "seconds":
		delta.SetInt64(rapid.Int64Range(1, 86_400).Draw(t, "dsec"))
		delta.Mul(delta, big.NewInt(1_000_000_000))
		if rapid.Bool().Draw(t, "plusfrac") {
			delta.Add(delta, big.NewInt(rapid.Int64Range(-999_999_999, 999_999_999).Draw(t, "dfr")))
		}
	case "days":
		delta.SetInt64(rapid.Int64Range(1, 366*400).Draw(t, "ddays"))
		delta.Mul(delta, big.NewInt(86_400_000_000_000))
	case "within-292y":
		delta.SetInt64(rapid.Int64Range(1, math.MaxInt64).Draw(t, "d63"))
	case "int64-edge":
		delta.Set(big2p63)
		delta.Add(delta, big.NewInt(rapid.Int64Range(-2, 2).Draw(t, "edge")))
	}
	if kind != "same-instant" && rapid.Bool().Draw(t, "neg") {
		delta.Neg(delta)
	}
	ns.Add(ns, delta)
	if s, ok := renderInstant(t, ns, genOffset(t)); ok {
		return s, kind
	}
	// the shifted instant left the representable years: go the other way
	ns.Sub(ns, delta)
	ns.Sub(ns, delta)
	if s, ok := renderInstant(t, ns, genOffset(t)); ok {
		return s, kind
	}
	return drawStamp(t).S, "independent"
}

func drawTriple(t *rapid.T) Triple {
	a := drawStamp(t).S
	b, k1 := derive(t, a, "relB")
	from := b
	if rapid.IntRange(0, 2).Draw(t, "cfrom") == 0 {
		from = a
	}
	c, k2 := derive(t, from, "relC")
	return Triple{A: a, B: b, C: c, Rel: k1 + "," + k2, Nano: rapid.Bool().Draw(t, "nano")}
}

func genTriple() *rapid.Generator[Triple] { return rapid.Custom(drawTriple) }

// ---------------------------------------------------------------------------
// time-add cases

type AddCase struct {
	T string `json:"t"`
	D int64  `json:"d"` // nanoseconds
}

func drawInt64Dur(t *rapid.T) int64 {
	switch rapid.IntRange(0, 9).Draw(t, "dk") {
	case 0:
		return rapid.SampledFrom([]int64{0, 1, -1, 999_999_999, -999_999_999, 1_000_000_000, -1_000_000_000, 1_000_000_001,
			86_400_000_000_000, -86_400_000_000_000, 3_600_000_000_000, math.MaxInt64, math.MinInt64, math.MaxInt64 - 1, math.MinInt64 + 1,
			1 << 53, 1<<53 + 1, -(1 << 53) - 1, 31_536_000_000_000_000}).Draw(t, "dc")
	case 1:
		return rapid.Int64Range(-999_999_999, 999_999_999).Draw(t, "dsub")
	case 2:
		return rapid.Int64Range(-86_400, 86_400).Draw(t, "dsec") * 1_000_000_000
	case 3:
		return rapid.Int64Range(-1_000_000, 1_000_000).Draw(t, "dms") * 1_000_000
	}
	return rapid.Int64().Draw(t, "d")
}

func genAdd() *rapid.Generator[AddCase] {
	return rapid.Custom(func(t *rapid.T) AddCase {
		return AddCase{T: drawStamp(t).S, D: drawInt64Dur(t)}
	})
}

// ---------------------------------------------------------------------------
// Go duration strings

type DurCase struct {
	S    string `json:"s"`
	Kind string `json:"kind"`
}

var durUnits = []string{"ns", "us", "µs", "μs", "ms", "s", "m", "h"}

// exactFracDigits: the number of fractional digits a component of this unit can
// carry while its exact value stays a whole number of nanoseconds.
var exactFracDigits = map[string]int{"ns": 0, "us": 3, "µs": 3, "μs": 3, "ms": 6, "s": 9, "m": 10, "h": 11}

// frac digits f (k of them) in unit u are exact iff u * f / 10^k is an integer.
func fracIsExact(unit string, frac string) bool {
	d, ok := reftime.ParseDuration("0." + frac + unit)
	return ok && d.Ns.IsInt()
}

func drawDurComponent(t *rapid.T, exact bool) string {
	unit := rapid.SampledFrom(durUnits).Draw(t, "unit")
	var ip string
	switch rapid.IntRange(0, 5).Draw(t, "ik") {
	case 0:
		ip = ""
	case 1:
		ip = "0"
	case 2:
		ip = strings.Repeat("0", rapid.IntRange(1, 4).Draw(t, "lz")) + fmt.Sprint(rapid.IntRange(0, 999).Draw(t, "iv"))
	default:
		ip = fmt.Sprint(rapid.IntRange(0, 100_000).Draw(t, "iv"))
	}
	fp := ""
	hasDot := false
	switch rapid.IntRange(0, 4).Draw(t, "fk") {
	case 0: // no dot
	case 1: // trailing dot
		hasDot = true
	default:
		hasDot = true
		maxd := exactFracDigits[unit]
		if !exact {
			maxd += rapid.IntRange(1, 12).Draw(t, "over")
		}
		if maxd > 0 {
			fp = genDigits(t, rapid.IntRange(1, maxd).Draw(t, "fdn"), "fd")
			if exact && !fracIsExact(unit, fp) {
				// m and h only admit some digit strings at full width: zero the tail
				fp = fp[:len(fp)-1] + "0"
				for !fracIsExact(unit, fp) && len(fp) > 1 {
					fp = fp[:len(fp)-2] + "0"
				}
				if !fracIsExact(unit, fp) {
					fp = "5"
				}
			}
		}
		if rapid.IntRange(0, 3).Draw(t, "tz") == 0 {
			fp += strings.Repeat("0", rapid.IntRange(1, 25).Draw(t, "tzn"))
		}
		if unit == "ns" && exact {
			fp = strings.Repeat("0", len(fp)) // only zeros are exact for ns
		}
	}
	if ip == "" && fp == "" {
		ip = "7"
	}
	s := ip
	if hasDot {
		s += "." + fp
	}
	return s + unit
}

func renderNsAs(t *rapid.T, mag *big.Int) string {
	// mag >= 0 rendered exactly in a drawn textual form
	form := rapid.SampledFrom([]string{"ns", "us", "ms", "s", "hms", "hms-ns", "m", "h"}).Draw(t, "form")
	dec := func(unit int64, digits int, suffix string) string {
		q, r := new(big.Int).QuoRem(mag, big.NewInt(unit), new(big.Int))
		if r.Sign() == 0 && rapid.Bool().Draw(t, "nofrac") {
			return q.String() + suffix
		}
		f := fmt.Sprintf("%0*d", digits, r.Int64())
		if rapid.Bool().Draw(t, "trim") {
			f = strings.TrimRight(f, "0")
		}
		return q.String() + "." + f + suffix
	}
	switch form {
	case "ns":
		return mag.String() + "ns"
	case "us":
		return dec(1_000, 3, rapid.SampledFrom([]string{"us", "µs", "μs"}).Draw(t, "mu"))
	case "ms":
		return dec(1_000_000, 6, "ms")
	case "s":
		return dec(1_000_000_000, 9, "s")
	case "m", "h":
		unit := int64(60_000_000_000)
		if form == "h" {
			unit = 3_600_000_000_000
		}
		q, r := new(big.Int).QuoRem(mag, big.NewInt(unit), new(big.Int))
		out := q.String() + form
		if r.Sign() != 0 {
			out += r.String() + "ns"
		}
		return out
	}
	h, r := new(big.Int).QuoRem(mag, big.NewInt(3_600_000_000_000), new(big.Int))
	m, r2 := new(big.Int).QuoRem(r, big.NewInt(60_000_000_000), new(big.Int))
	if form == "hms-ns" {
		s, ns := new(big.Int).QuoRem(r2, big.NewInt(1_000_000_000), new(big.Int))
		return fmt.Sprintf("%sh%sm%ss%sns", h, m, s, ns)
	}
	s, ns := new(big.Int).QuoRem(r2, big.NewInt(1_000_000_000), new(big.Int))
	f := fmt.Sprintf("%09d", ns.Int64())
	return fmt.Sprintf("%sh%sm%s.%ss", h, m, s, f)
}

var malformedDurations = []string{"", "1", ".s", "1 s", "1x", "--1s", "1h-1m", "s", "+", "-", "1.5.5s", "1e3s", "١s", " 1s", "1s ", "1S", "1sec", "1d", "1w", "0x10s", "1_000s", "NaNs", "+-1s", "1h 30m", "1,5s", "0.", ".", "00"}

func drawDur(t *rapid.T) DurCase {
	switch rapid.IntRange(0, 11).Draw(t, "kind") {
	case 0, 1, 2, 3: // from an int64 nanosecond count, rendered exactly
		n := drawInt64Dur(t)
		mag := new(big.Int).Abs(big.NewInt(n))
		s := renderNsAs(t, mag)
		if n < 0 {
			s = "-" + s
		} else if rapid.IntRange(0, 5).Draw(t, "plus") == 0 {
			s = "+" + s
		}
		return DurCase{S: s, Kind: "from-int64"}
	case 4, 5, 6, 7: // free multi-component, each component a whole number of ns
		n := rapid.IntRange(1, 4).Draw(t, "ncomp")
		var b strings.Builder
		b.WriteString(rapid.SampledFrom([]string{"", "", "", "+", "-", "-"}).Draw(t, "sign"))
		for i := 0; i < n; i++ {
			b.WriteString(drawDurComponent(t, true))
		}
		return DurCase{S: b.String(), Kind: "free-exact"}
	case 8: // sub-nanosecond fractions: checked with a tolerance
		n := rapid.IntRange(1, 3).Draw(t, "ncomp")
		var b strings.Builder
		b.WriteString(rapid.SampledFrom([]string{"", "-"}).Draw(t, "sign"))
		for i := 0; i < n; i++ {
			b.WriteString(drawDurComponent(t, false))
		}
		return DurCase{S: b.String(), Kind: "free-inexact"}
	case 9:
		return DurCase{S: rapid.SampledFrom([]string{"0", "+0", "-0", "0s", "-0s", "0.0s", "0h0m0s", ".0s", "0.ns"}).Draw(t, "zero"), Kind: "zero"}
	case 10: // around the int64 edge, possibly beyond it
		mag := new(big.Int).Add(big2p63, big.NewInt(rapid.Int64Range(-3, 3).Draw(t, "edge")))
		s := renderNsAs(t, mag)
		if rapid.Bool().Draw(t, "neg") {
			s = "-" + s
		}
		return DurCase{S: s, Kind: "int64-edge"}
	}
	return DurCase{S: rapid.SampledFrom(malformedDurations).Draw(t, "bad"), Kind: "malformed"}
}

func genDur() *rapid.Generator[DurCase] { return rapid.Custom(drawDur) }
