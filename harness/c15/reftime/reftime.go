// Package reftime is the independent reference model for property C15.
//
// It contains
//   - a strict RFC 3339 scanner written from the RFC's ABNF (section 5.6),
//     which also says WHY a string is not a timestamp (the reason is the key
//     of a finding when the implementation accepts such a string);
//   - proleptic-Gregorian day arithmetic (days-from-civil / civil-from-days)
//     and exact instants as math/big nanosecond counts;
//   - a parser for Go-style duration strings into exact rationals.
//
// Nothing in here calls Go's time parsing, formatting or calendar code: the
// package does not import "time" at all.
package reftime

import (
	"fmt"
	"math/big"
	"strings"
)

// Verdict classifies a candidate timestamp.
type Verdict int

const (
	// Valid: a well-formed RFC 3339 timestamp in the property's positive
	// domain (year 0000-9999, uppercase T and Z, numeric offset -23:59…+23:59,
	// 0-9 fractional digits, second 00-59).
	Valid Verdict = iota
	// Invalid: a field is missing, malformed or out of range.
	Invalid
	// Unspecified: well-formed under one reading of RFC 3339 but outside the
	// property's parenthesis (lowercase t/z, space separator, second 60, more
	// than nine fractional digits).  No claim is checked on these.
	Unspecified
)

func (v Verdict) String() string {
	switch v {
	case Valid:
		return "valid"
	case Invalid:
		return "invalid"
	}
	return "unspecified"
}

// TS holds the fields of a scanned timestamp.
type TS struct {
	Year, Month, Day  int
	Hour, Min, Sec    int
	Frac              string // digits after the decimal mark ("" when absent)
	Zulu              bool   // offset written as Z
	OffNeg            bool
	OffH, OffM        int
	UnspecifiedReason string
}

func isDigit(c byte) bool { return c >= '0' && c <= '9' }

type scanner struct {
	s   string
	pos int
}

func (sc *scanner) peek() (byte, bool) {
	if sc.pos >= len(sc.s) {
		return 0, false
	}
	return sc.s[sc.pos], true
}

// fixed reads a field of exactly width ASCII digits.  On failure it reports a
// specific reason: "<name>-missing", "<name>-<n>-digit" (too narrow),
// "<name>-too-wide" or "<name>-malformed".
func (sc *scanner) fixed(name string, width int) (int, string) {
	start := sc.pos
	for sc.pos < len(sc.s) && isDigit(sc.s[sc.pos]) {
		sc.pos++
	}
	n := sc.pos - start
	switch {
	case n == width:
		v := 0
		for _, c := range []byte(sc.s[start:sc.pos]) {
			v = v*10 + int(c-'0')
		}
		return v, ""
	case n == 0:
		if start >= len(sc.s) {
			return 0, name + "-missing"
		}
		c := sc.s[start]
		if c == '-' || c == ':' || c == 'T' || c == 'Z' || c == '+' || c == '.' {
			return 0, name + "-missing"
		}
		return 0, name + "-malformed"
	case n < width:
		return 0, fmt.Sprintf("%s-%d-digit", name, n)
	default:
		return 0, name + "-too-wide"
	}
}

func (sc *scanner) expect(c byte, reason string) string {
	b, ok := sc.peek()
	if !ok || b != c {
		return reason
	}
	sc.pos++
	return ""
}

// IsLeap reports whether y is a leap year of the proleptic Gregorian calendar.
func IsLeap(y int) bool { return y%4 == 0 && (y%100 != 0 || y%400 == 0) }

// DaysInMonth returns the length of month m (1-12) of year y.
func DaysInMonth(y, m int) int {
	switch m {
	case 2:
		if IsLeap(y) {
			return 29
		}
		return 28
	case 4, 6, 9, 11:
		return 30
	}
	return 31
}

// Parse scans s.  For Invalid the reason names the first defect (syntax is
// checked left to right first, ranges afterwards); for Unspecified it names
// the lenient feature; for Valid it is "".
func Parse(s string) (TS, Verdict, string) {
	var ts TS
	sc := &scanner{s: s}
	unspec := ""
	var r string
	if ts.Year, r = sc.fixed("year", 4); r != "" {
		return ts, Invalid, r
	}
	if r = sc.expect('-', "date-separator"); r != "" {
		return ts, Invalid, r
	}
	if ts.Month, r = sc.fixed("month", 2); r != "" {
		return ts, Invalid, r
	}
	if r = sc.expect('-', "date-separator"); r != "" {
		return ts, Invalid, r
	}
	if ts.Day, r = sc.fixed("day", 2); r != "" {
		return ts, Invalid, r
	}
	c, ok := sc.peek()
	switch {
	case !ok:
		return ts, Invalid, "time-missing"
	case c == 'T':
		sc.pos++
	case c == 't':
		sc.pos++
		unspec = "lowercase-t"
	case c == ' ':
		sc.pos++
		unspec = "space-separator"
	default:
		return ts, Invalid, "missing-T"
	}
	if ts.Hour, r = sc.fixed("hour", 2); r != "" {
		return ts, Invalid, r
	}
	if r = sc.expect(':', "time-separator"); r != "" {
		return ts, Invalid, r
	}
	if ts.Min, r = sc.fixed("minute", 2); r != "" {
		return ts, Invalid, r
	}
	if r = sc.expect(':', "second-missing"); r != "" {
		return ts, Invalid, r
	}
	if ts.Sec, r = sc.fixed("second", 2); r != "" {
		return ts, Invalid, r
	}
	if c, ok = sc.peek(); ok && (c == '.' || c == ',') {
		if c == ',' {
			return ts, Invalid, "comma-fraction"
		}
		sc.pos++
		start := sc.pos
		for sc.pos < len(s) && isDigit(s[sc.pos]) {
			sc.pos++
		}
		ts.Frac = s[start:sc.pos]
		if len(ts.Frac) == 0 {
			return ts, Invalid, "fraction-empty"
		}
		if len(ts.Frac) > 9 && unspec == "" {
			unspec = "fraction-over-9-digits"
		}
	}
	c, ok = sc.peek()
	switch {
	case !ok:
		return ts, Invalid, "offset-missing"
	case c == 'Z':
		sc.pos++
		ts.Zulu = true
	case c == 'z':
		sc.pos++
		ts.Zulu = true
		if unspec == "" {
			unspec = "lowercase-z"
		}
	case c == '+' || c == '-':
		sc.pos++
		ts.OffNeg = c == '-'
		if ts.OffH, r = sc.fixed("offset-hour", 2); r != "" {
			return ts, Invalid, r
		}
		if r = sc.expect(':', "offset-separator"); r != "" {
			return ts, Invalid, r
		}
		if ts.OffM, r = sc.fixed("offset-minute", 2); r != "" {
			return ts, Invalid, r
		}
	default:
		return ts, Invalid, "offset-malformed"
	}
	if sc.pos != len(s) {
		return ts, Invalid, "trailing-garbage"
	}
	// ranges
	if ts.Month < 1 || ts.Month > 12 {
		return ts, Invalid, "month-range"
	}
	if ts.Day < 1 || ts.Day > DaysInMonth(ts.Year, ts.Month) {
		return ts, Invalid, "day-range"
	}
	if ts.Hour > 23 {
		return ts, Invalid, "hour-range"
	}
	if ts.Min > 59 {
		return ts, Invalid, "minute-range"
	}
	if ts.Sec > 60 {
		return ts, Invalid, "second-range"
	}
	if ts.OffH > 23 {
		return ts, Invalid, "offset-hour>=24"
	}
	if ts.OffM > 59 {
		return ts, Invalid, "offset-minute>=60"
	}
	if ts.Sec == 60 && unspec == "" {
		unspec = "leap-second"
	}
	if unspec != "" {
		ts.UnspecifiedReason = unspec
		return ts, Unspecified, unspec
	}
	return ts, Valid, ""
}

// DaysFromCivil returns the number of days from 1970-01-01 to y-m-d in the
// proleptic Gregorian calendar (negative before the epoch).  It counts whole
// 400-year eras of 146097 days; the year is shifted to start in March so the
// leap day is the last day of the (shifted) year.
func DaysFromCivil(y, m, d int64) int64 {
	if m <= 2 {
		y--
	}
	var era int64
	if y >= 0 {
		era = y / 400
	} else {
		era = (y - 399) / 400
	}
	yoe := y - era*400 // [0, 399]
	mp := (m + 9) % 12 // March = 0
	doy := (153*mp+2)/5 + d - 1
	doe := yoe*365 + yoe/4 - yoe/100 + doy
	return era*146097 + doe - 719468
}

// CivilFromDays is the inverse of DaysFromCivil.
func CivilFromDays(z int64) (y, m, d int64) {
	z += 719468
	var era int64
	if z >= 0 {
		era = z / 146097
	} else {
		era = (z - 146096) / 146097
	}
	doe := z - era*146097
	yoe := (doe - doe/1460 + doe/36524 - doe/146096) / 365
	y = yoe + era*400
	doy := doe - (365*yoe + yoe/4 - yoe/100)
	mp := (5*doy + 2) / 153
	d = doy - (153*mp+2)/5 + 1
	if mp < 10 {
		m = mp + 3
	} else {
		m = mp - 9
	}
	if m <= 2 {
		y++
	}
	return
}

// OffsetSeconds returns the signed UTC offset in seconds.
func (ts TS) OffsetSeconds() int64 {
	o := int64(ts.OffH)*3600 + int64(ts.OffM)*60
	if ts.OffNeg {
		return -o
	}
	return o
}

// FracNanos returns the fraction as nanoseconds (digits beyond the ninth are
// dropped; only relevant for Unspecified inputs).
func (ts TS) FracNanos() int64 {
	f := ts.Frac
	if len(f) > 9 {
		f = f[:9]
	}
	var n int64
	for i := 0; i < 9; i++ {
		n *= 10
		if i < len(f) {
			n += int64(f[i] - '0')
		}
	}
	return n
}

var (
	bigE9 = big.NewInt(1_000_000_000)
)

// UnixSeconds is the whole-second part of the instant (floor), as a big.Int.
func (ts TS) UnixSeconds() *big.Int {
	days := DaysFromCivil(int64(ts.Year), int64(ts.Month), int64(ts.Day))
	sec := new(big.Int).Mul(big.NewInt(days), big.NewInt(86400))
	sec.Add(sec, big.NewInt(int64(ts.Hour)*3600+int64(ts.Min)*60+int64(ts.Sec)))
	sec.Sub(sec, big.NewInt(ts.OffsetSeconds()))
	return sec
}

// UnixNanos is the exact instant in nanoseconds since 1970-01-01T00:00:00Z.
func (ts TS) UnixNanos() *big.Int {
	ns := ts.UnixSeconds()
	ns.Mul(ns, bigE9)
	ns.Add(ns, big.NewInt(ts.FracNanos()))
	return ns
}

// Split decomposes a nanosecond instant into (floor seconds, nanos in [0,1e9)).
func Split(ns *big.Int) (*big.Int, int64) {
	sec, rem := new(big.Int).DivMod(ns, bigE9, new(big.Int)) // Euclidean: rem >= 0
	return sec, rem.Int64()
}

// Civil is the broken-down local time of an instant at a given offset.
type Civil struct {
	Year, Month, Day, Hour, Min, Sec int64
	Nanos                            int64
}

// CivilAt breaks the instant ns down at UTC offset offSec.
func CivilAt(ns *big.Int, offSec int64) Civil {
	sec, nanos := Split(ns)
	sec.Add(sec, big.NewInt(offSec))
	days, sod := new(big.Int).DivMod(sec, big.NewInt(86400), new(big.Int))
	y, m, d := CivilFromDays(days.Int64())
	s := sod.Int64()
	return Civil{y, m, d, s / 3600, s % 3600 / 60, s % 60, nanos}
}

// Render writes the instant ns at offset offSec (|offSec| < 86400, whole
// minutes) with exactly fracDigits fractional digits (0-9; digits that do not
// fit are truncated, so callers wanting an exact rendering pass 9 or make sure
// the dropped digits are zero).  zulu selects "Z" for a zero offset, negZero
// selects "-00:00".  ok is false when the local year is outside 0000-9999.
func Render(ns *big.Int, offSec int64, fracDigits int, zulu, negZero bool) (string, bool) {
	c := CivilAt(ns, offSec)
	if c.Year < 0 || c.Year > 9999 {
		return "", false
	}
	var b strings.Builder
	fmt.Fprintf(&b, "%04d-%02d-%02dT%02d:%02d:%02d", c.Year, c.Month, c.Day, c.Hour, c.Min, c.Sec)
	if fracDigits > 0 {
		f := fmt.Sprintf("%09d", c.Nanos)
		b.WriteByte('.')
		b.WriteString(f[:fracDigits])
	}
	switch {
	case offSec == 0 && zulu:
		b.WriteByte('Z')
	case offSec == 0 && negZero:
		b.WriteString("-00:00")
	default:
		sign := byte('+')
		o := offSec
		if o < 0 {
			sign = '-'
			o = -o
		}
		fmt.Fprintf(&b, "%c%02d:%02d", sign, o/3600, o%3600/60)
	}
	return b.String(), true
}

// ---------------------------------------------------------------------------
// Durations

// Dur is the exact value of a Go-style duration string.
type Dur struct {
	Ns         *big.Rat // exact value in nanoseconds
	Components int      // number of number+unit components
	FracComps  int      // components written with a non-empty fractional part
	SubNs      int      // components whose own value is not a whole number of ns
	Neg        bool     // written with a leading '-'
	// FloorMag / CeilMag: the magnitude with every component rounded down / up
	// to a whole nanosecond (equal to |Ns| when SubNs == 0).
	FloorMag, CeilMag *big.Int
}

var unitNs = map[string]int64{
	"ns": 1,
	"us": 1_000,
	"µs": 1_000, // U+00B5 micro sign
	"μs": 1_000, // U+03BC greek mu
	"ms": 1_000_000,
	"s":  1_000_000_000,
	"m":  60_000_000_000,
	"h":  3_600_000_000_000,
}

// ParseDuration parses the documented grammar
//
//	[-+]? ( "0" | ( digits? ( "." digits? )? unit )+ )
//
// where every number has at least one digit and unit is one of ns, us, µs, μs,
// ms, s, m, h.  ok is false for anything else.
func ParseDuration(s string) (Dur, bool) {
	d := Dur{Ns: new(big.Rat), FloorMag: new(big.Int), CeilMag: new(big.Int)}
	neg := false
	if s != "" && (s[0] == '-' || s[0] == '+') {
		neg = s[0] == '-'
		s = s[1:]
	}
	if s == "0" {
		return d, true
	}
	if s == "" {
		return d, false
	}
	for s != "" {
		i := 0
		for i < len(s) && isDigit(s[i]) {
			i++
		}
		intPart := s[:i]
		s = s[i:]
		fracPart := ""
		hasDot := false
		if s != "" && s[0] == '.' {
			hasDot = true
			s = s[1:]
			j := 0
			for j < len(s) && isDigit(s[j]) {
				j++
			}
			fracPart = s[:j]
			s = s[j:]
		}
		if intPart == "" && fracPart == "" {
			return d, false
		}
		k := 0
		for k < len(s) && s[k] != '.' && !isDigit(s[k]) {
			k++
		}
		u, okU := unitNs[s[:k]]
		if !okU {
			return d, false
		}
		s = s[k:]
		num := new(big.Int)
		if intPart+fracPart != "" {
			num.SetString(intPart+fracPart, 10)
		}
		den := new(big.Int).Exp(big.NewInt(10), big.NewInt(int64(len(fracPart))), nil)
		v := new(big.Rat).SetFrac(num, den)
		v.Mul(v, new(big.Rat).SetInt64(u))
		d.Ns.Add(d.Ns, v)
		fl := new(big.Int).Quo(v.Num(), v.Denom()) // v >= 0: truncation is floor
		d.FloorMag.Add(d.FloorMag, fl)
		d.CeilMag.Add(d.CeilMag, fl)
		if !v.IsInt() {
			d.SubNs++
			d.CeilMag.Add(d.CeilMag, big.NewInt(1))
		}
		d.Components++
		if hasDot && fracPart != "" {
			d.FracComps++
		}
	}
	d.Neg = neg
	if neg {
		d.Ns.Neg(d.Ns)
	}
	return d, true
}
