package reftime

// Sanity tests OF THE MODEL (not part of the oracle): the day arithmetic is
// compared with Go's calendar on a sweep, and the scanner is pinned on the
// RFC's own examples and on each near-miss class.
import (
	"math/big"
	"testing"
	"time"
)

func TestDaysFromCivilAgainstGoCalendar(t *testing.T) {
	// every day of years 0000-0001, 1599-1601, 1899-1901, 1969-1971, 1999-2001,
	// 2099-2101, 9998-9999 plus the first of every month of every year.
	check := func(y, m, d int) {
		want := time.Date(y, time.Month(m), d, 0, 0, 0, 0, time.UTC).Unix() / 86400
		if y < 1970 {
			want = -((-time.Date(y, time.Month(m), d, 0, 0, 0, 0, time.UTC).Unix()) / 86400)
		}
		got := DaysFromCivil(int64(y), int64(m), int64(d))
		if got != want {
			t.Fatalf("DaysFromCivil(%d,%d,%d)=%d want %d", y, m, d, got, want)
		}
		yy, mm, dd := CivilFromDays(got)
		if yy != int64(y) || mm != int64(m) || dd != int64(d) {
			t.Fatalf("CivilFromDays(%d)=%d-%d-%d want %d-%d-%d", got, yy, mm, dd, y, m, d)
		}
	}
	for y := 0; y <= 9999; y++ {
		full := y <= 1 || (y >= 1599 && y <= 1601) || (y >= 1899 && y <= 1901) || (y >= 1969 && y <= 1971) ||
			(y >= 1999 && y <= 2001) || (y >= 2099 && y <= 2101) || y >= 9998
		for m := 1; m <= 12; m++ {
			if full {
				for d := 1; d <= DaysInMonth(y, m); d++ {
					check(y, m, d)
				}
			} else {
				check(y, m, 1)
				check(y, m, DaysInMonth(y, m))
			}
		}
	}
	// consecutive day numbers across the whole range
	prev := DaysFromCivil(0, 1, 1) - 1
	for y := 0; y <= 9999; y += 97 {
		_ = prev
		a := DaysFromCivil(int64(y), 12, 31)
		b := DaysFromCivil(int64(y)+1, 1, 1)
		if b != a+1 {
			t.Fatalf("year boundary %d: %d then %d", y, a, b)
		}
	}
}

func TestScanner(t *testing.T) {
	cases := []struct {
		s string
		v Verdict
		r string
	}{
		{"1985-04-12T23:20:50.52Z", Valid, ""},
		{"1996-12-19T16:39:57-08:00", Valid, ""},
		{"1937-01-01T12:00:27.87+00:20", Valid, ""},
		{"0000-02-29T00:00:00+23:59", Valid, ""},
		{"9999-12-31T23:59:59.999999999-23:59", Valid, ""},
		{"2023-01-15T10:30:00-00:00", Valid, ""},
		{"1990-12-31T23:59:60Z", Unspecified, "leap-second"},
		{"2023-01-15t10:30:00Z", Unspecified, "lowercase-t"},
		{"2023-01-15 10:30:00Z", Unspecified, "space-separator"},
		{"2023-01-15T10:30:00z", Unspecified, "lowercase-z"},
		{"2023-01-15T10:30:00.1234567890Z", Unspecified, "fraction-over-9-digits"},
		{"2023-01-15t10:30:00+24:00", Invalid, "offset-hour>=24"},
		{"2023-01-15T10:30:00+24:00", Invalid, "offset-hour>=24"},
		{"2023-01-15T10:30:00+23:60", Invalid, "offset-minute>=60"},
		{"2023-01-15T10:30:00,5Z", Invalid, "comma-fraction"},
		{"2023-01-15T1:30:00Z", Invalid, "hour-1-digit"},
		{"2023-01-15T010:30:00Z", Invalid, "hour-too-wide"},
		{"2023-1-15T10:30:00Z", Invalid, "month-1-digit"},
		{"223-01-15T10:30:00Z", Invalid, "year-3-digit"},
		{"12023-01-15T10:30:00Z", Invalid, "year-too-wide"},
		{"2023-13-15T10:30:00Z", Invalid, "month-range"},
		{"2023-00-15T10:30:00Z", Invalid, "month-range"},
		{"2023-02-29T10:30:00Z", Invalid, "day-range"},
		{"2024-02-30T10:30:00Z", Invalid, "day-range"},
		{"1900-02-29T10:30:00Z", Invalid, "day-range"},
		{"2000-02-29T10:30:00Z", Valid, ""},
		{"2023-01-00T10:30:00Z", Invalid, "day-range"},
		{"2023-01-15T24:00:00Z", Invalid, "hour-range"},
		{"2023-01-15T10:60:00Z", Invalid, "minute-range"},
		{"2023-01-15T10:30:61Z", Invalid, "second-range"},
		{"2023-01-15T10:30Z", Invalid, "second-missing"},
		{"2023-01-15T10:30:00", Invalid, "offset-missing"},
		{"2023-01-15", Invalid, "time-missing"},
		{"2023-01-1510:30:00Z", Invalid, "day-too-wide"},
		{"2023-01-15_10:30:00Z", Invalid, "missing-T"},
		{"2023-01-15T10:30:00.Z", Invalid, "fraction-empty"},
		{"2023-01-15T10:30:00+0100", Invalid, "offset-hour-too-wide"},
		{"2023-01-15T10:30:00+01", Invalid, "offset-separator"},
		{"2023-01-15T10:30:00+1:00", Invalid, "offset-hour-1-digit"},
		{"2023-01-15T10:30:00Z ", Invalid, "trailing-garbage"},
		{" 2023-01-15T10:30:00Z", Invalid, "year-malformed"},
		{"", Invalid, "year-missing"},
		{"2023-01-15T10:30:00+٠١:00", Invalid, "offset-hour-malformed"},
	}
	for _, c := range cases {
		_, v, r := Parse(c.s)
		if v != c.v || r != c.r {
			t.Errorf("Parse(%q) = %v %q, want %v %q", c.s, v, r, c.v, c.r)
		}
	}
}

func TestInstantAndRender(t *testing.T) {
	ts, v, _ := Parse("1970-01-01T00:00:00Z")
	if v != Valid || ts.UnixNanos().Sign() != 0 {
		t.Fatal("epoch")
	}
	ts, _, _ = Parse("1996-12-19T16:39:57-08:00")
	ts2, _, _ := Parse("1996-12-20T00:39:57Z")
	if ts.UnixNanos().Cmp(ts2.UnixNanos()) != 0 {
		t.Fatal("RFC 3339 section 5.8 equivalence")
	}
	ts, _, _ = Parse("1969-12-31T23:59:59.25Z")
	sec, nanos := Split(ts.UnixNanos())
	if sec.Int64() != -1 || nanos != 250000000 {
		t.Fatalf("floor split: %v %v", sec, nanos)
	}
	// render/parse round trip over a spread of instants and offsets
	ns := new(big.Int)
	ns.SetString("-62167219200000000000", 10) // 0000-01-01T00:00:00Z
	step := new(big.Int)
	step.SetString("86399999999977", 10)
	step.Mul(step, big.NewInt(3011))
	for i := 0; i < 1200; i++ {
		off := int64((i*37)%2879-1439) * 60
		s, ok := Render(ns, off, 9, false, false)
		if ok {
			p, v, r := Parse(s)
			if v != Valid {
				t.Fatalf("rendered %q is %v (%s)", s, v, r)
			}
			if p.UnixNanos().Cmp(ns) != 0 {
				t.Fatalf("rendered %q parses to %v want %v", s, p.UnixNanos(), ns)
			}
		}
		ns.Add(ns, step)
	}
}

func TestParseDuration(t *testing.T) {
	for s, want := range map[string]string{
		"0": "0", "-0": "0", "1.5s": "1500000000", "1h30m": "5400000000000", "-2h45m30s": "-9930000000000",
		"1µs": "1000", "1μs": "1000", ".5ms": "500000", "1.s": "1000000000", "1.5ns": "3/2",
		"2562047h47m16.854775807s": "9223372036854775807", "1s1h1s": "3602000000000", "+1ns": "1",
	} {
		d, ok := ParseDuration(s)
		if !ok || d.Ns.RatString() != want {
			t.Errorf("ParseDuration(%q) = %v %v want %s", s, d.Ns, ok, want)
		}
	}
	for _, s := range []string{"", "1", ".s", "1 s", "1x", "--1s", "1h-1m", "s", "+", "1.5.5s", "1e3s", "１s"} {
		if _, ok := ParseDuration(s); ok {
			t.Errorf("ParseDuration(%q) accepted", s)
		}
	}
}
