package probe
import ("testing";"github.com/luthersystems/elps/verifharness/vcommon")
func BenchmarkRT(b *testing.B){ for i:=0;i<b.N;i++{ vcommon.NewRuntime(vcommon.Cfg{}) } }
func BenchmarkRTNoStd(b *testing.B){ for i:=0;i<b.N;i++{ vcommon.NewRuntime(vcommon.Cfg{NoStdlib:true}) } }
