package probe
import ("testing";"fmt";"github.com/luthersystems/elps/verifharness/vcommon")
func TestP(t *testing.T){
  src := "(defmacro mbn (a) (quasiquote (progn (list 0) (unquote (list (car '(car)) a)))))\n(defun f (x) (mbn x))\n(f 8)"
    rt := vcommon.NewRuntime(vcommon.Cfg{NoStdlib:true, MaxSteps: 100000})
    o := rt.Load(src)
    loc,_ := o.Val.Source()
    fmt.Println("=>", o.Key(), o.Msg, loc.Line, loc.Col)
}
