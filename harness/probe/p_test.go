package probe
import ("testing";"fmt";"github.com/luthersystems/elps/verifharness/vcommon")
func run(cfg vcommon.Cfg, src string) (vcommon.Outcome, int, int, *vcommon.Rt) {
    rt := vcommon.NewRuntime(cfg)
    o := rt.Load(src)
    mh, mn := 0,0
    for _, e := range rt.Trace { if e.Height>mh {mh=e.Height}; if e.Nesting>mn {mn=e.Nesting} }
    return o, mh, mn, rt
}
func TestP(t *testing.T){
  src := `(defun f (n) (if (<= (probe 'h n) 0) 0 (+ 1 (f (- n 1))))) (f 10)`
  o, mh, mn, _ := run(vcommon.Cfg{MaxSteps:1<<40, NoStdlib:true}, src)
  fmt.Println("unl", o.Key(), mh, mn, o.Steps)
  for _, h := range []int{mh-1, mh, mh+1} { o,_,_,_ := run(vcommon.Cfg{MaxSteps:1<<40, NoStdlib:true, MaxPhysical:h}, src); fmt.Println("H",h,o.Key(),o.Msg) }
  for _, e := range []int{mn-1, mn, mn+1, mn+2} { o,_,_,_ := run(vcommon.Cfg{MaxSteps:1<<40, NoStdlib:true, MaxNesting:e}, src); fmt.Println("E",e,o.Key(),o.Msg) }
  tl := `(defun g (n acc) (if (<= n 0) acc (g (- n 1) (+ acc 1)))) (g 10 0)`
  for _, ti := range []int{8,9,10,11} { o,_,_,_ := run(vcommon.Cfg{MaxSteps:1<<40, NoStdlib:true, MaxTailIter:ti}, tl); fmt.Println("T",ti,o.Key(),o.Msg) }
  mc := `(defmacro m (n) (if (<= n 0) 42 (list 'm (- n 1)))) (m 5)`
  for _, md := range []int{4,5,6,7} { o,_,_,_ := run(vcommon.Cfg{MaxSteps:1<<40, NoStdlib:true, MaxMacroDepth:md}, mc); fmt.Println("M",md,o.Key(),o.Msg) }
  // catchable
  o,_,_,rt := run(vcommon.Cfg{MaxSteps:1<<40, NoStdlib:true, MaxPhysical:10}, `(defun f (n) (if (<= n 0) 0 (+ 1 (f (- n 1))))) (handler-bind ((condition (lambda (c &rest d) 'caught))) (f 50))`)
  fmt.Println("catch", o.Key(), o.Msg, len(rt.Env.Runtime.Stack.Frames))
  o,_,_,rt = run(vcommon.Cfg{MaxSteps:1<<40, NoStdlib:true, MaxNesting:20}, `(defun f (n) (if (<= n 0) 0 (+ 1 (f (- n 1))))) (handler-bind ((condition (lambda (c &rest d) 'caught))) (f 50))`)
  fmt.Println("catchN", o.Key(), o.Msg, len(rt.Env.Runtime.Stack.Frames))
  // steps after trip
  o,_,_,rt = run(vcommon.Cfg{MaxSteps:20, NoStdlib:true}, `(defun f (n) (if (<= n 0) 0 (+ 1 (f (- n 1))))) (probe 1 (f 50))`)
  fmt.Println("trip", o.Key(), rt.Env.Runtime.Steps(), rt.Env.Runtime.TotalSteps())
  o2 := rt.Load("(probe 2 (+ 1 2))"); fmt.Println("next", o2.Key(), rt.Env.Runtime.Steps(), rt.Trace)
}
