package probe
import ("testing";"fmt";"github.com/luthersystems/elps/verifharness/vcommon")
func TestP(t *testing.T){
  src := "(set 'cnt 0)\n(defun g (k) (set 'cnt (+ cnt 1)) (if (= k 0) 0 (f 3)))\n(defun f (n) (g 0) (if (= n 0) 'done (f (- n 1))))\n(g 1)\ncnt"
  src2 := "(defun f (n) (probe 'inner (f2 n)) (if (<= n 0) 'done (f (- n 1))))\n(defun f2 (n) n)\n(defun h (n) (probe 'x n) (if (<= n 0) 0 (+ 1 (h 0))) (if (<= n 0) 'd (h (- n 1))))\n(list (f 2) (h 2))"
  for _, dbg := range []bool{false,true} {
    for _, s := range []string{src, src2} {
    rt := vcommon.NewRuntime(vcommon.Cfg{NoStdlib:true, Debugger:dbg, MaxSteps: 100000})
    o := rt.Load(s)
    fmt.Println("debugger", dbg, "=>", o.Key(), o.Msg, vcommon.TraceString(rt.Trace))
    }
  }
}
