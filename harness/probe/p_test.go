package probe
import ("testing";"fmt";"os";"github.com/luthersystems/elps/verifharness/vcommon")
func TestP(t *testing.T){
  for _, src := range []string{
   `(any? (lambda (x) x) '(a b))`,
   `(all? (lambda (x) x) '((1 2)))`,
   `(any? (lambda (x) x) (list 'a 'b))`,
   `(handler-bind ((condition (lambda (c &rest d) d))) (error 'boom (car '(x))))`,
   `(handler-bind ((condition (lambda (c &rest d) d))) (error 'boom (car '((+ 1 2)))))`,
   `(stable-sort (lambda (a b) (< (length a) (length b))) (list '(1 2) '(1)))`,
   `(stable-sort (lambda (a b) true) '((1 2) (3)))`,
   `(* 9223372036854775807 2 0.5)`,
   `(+ 9223372036854775807 1 0.5)`,
   `(map 'list (lambda (x) x) '(a (b c)))`,
   `(foldl (lambda (a x) (cons x a)) () '(a (b c)))`,
   os.Getenv("SRC"),
  } { if src=="" {continue}
    rt := vcommon.NewRuntime(vcommon.Cfg{MaxSteps:100000})
    o := rt.Load(src)
    fmt.Printf("%s\n   => err=%v cond=%s msg=%q canon=%s text=%s\n", src, o.IsErr, o.Cond, o.Msg, o.Canon, o.Text)
  }
}
