// C13 (c): arbitrary documents -> json:load-* under every flag combination,
// compared with refjson on acceptance, condition name and decoded structure.
package c13

import (
	"fmt"
	"math"
	"strings"

	"github.com/luthersystems/elps/lisp"
	"github.com/luthersystems/elps/verifharness/vcommon"
)

type DocCase struct {
	Doc       []byte `json:"doc"`
	SN        bool   `json:"sn"`         // :string-numbers
	EI        bool   `json:"ei"`         // :exact-integers
	Bytes     bool   `json:"bytes"`      // primary path load-bytes (the other one is compared too)
	OmitFalse bool   `json:"omit_false"` // false keywords omitted instead of passed
}

const (
	condSyntax = "json:syntax-error"
	condRange  = "json:integer-range-error"
)

// numPlan is what the document's numbers allow/require under a mode.
type numPlan struct {
	overflowAny  bool // some literal (shadowed or not) overflows float64 where a float is needed
	rangeEff     bool // an effective integer-shaped literal must raise json:integer-range-error
	rangeAny     bool // same, counting literals shadowed by a later duplicate key
	negZero      bool
	canonExcept  bool // integer-shaped, does not fit, canonical float text: stays a float
	exactInts    int
	beyond53     bool
	expForm      bool
	fracForm     bool
	underflow    bool
	longMantissa bool
}

// wantsRangeError: under :exact-integers an integer-shaped literal that does
// not fit an int must signal, unless it is the canonical text of its float.
func wantsRangeError(lit string) bool {
	if _, ok := fitsInt64(lit); ok {
		return false
	}
	return !isCanonicalFloatText(lit)
}

func planNumbers(n *jnode, sn, ei bool) numPlan {
	var p numPlan
	n.walkNums(true, func(lit string, eff bool) {
		nl := splitNum(lit)
		if nl.hasExp {
			p.expForm = true
		}
		if nl.hasFrac {
			p.fracForm = true
		}
		if len(nl.intPart)+len(nl.frac) > 17 {
			p.longMantissa = true
		}
		if lit == "-0" {
			p.negZero = true
		}
		if sn {
			return
		}
		if ei && nl.intShaped() && lit != "-0" {
			if _, ok := fitsInt64(lit); ok {
				p.exactInts++
				if len(strings.TrimLeft(lit, "-")) >= 16 {
					p.beyond53 = true
				}
				return
			}
			if wantsRangeError(lit) {
				p.rangeAny = true
				if eff {
					p.rangeEff = true
				}
			} else {
				p.canonExcept = true
			}
			return
		}
		f, over := nearestFloat(lit)
		if over {
			p.overflowAny = true
		} else if f == 0 {
			if _, class := nl.exact(); class != magZero {
				p.underflow = true
			}
		}
	})
	return p
}

// cmpDoc compares a loaded value with the reference tree under a mode.
// Overflowed float literals are not compared (either outcome is allowed).
func cmpDoc(n *jnode, v *lisp.LVal, sn, ei bool, path string) string {
	if v == nil {
		return path + ": nil *LVal"
	}
	switch n.kind {
	case jNull:
		if !v.IsNil() {
			return fmt.Sprintf("%s: got %s want nil for null", path, describe(v))
		}
	case jBool:
		if v.Type != lisp.LSymbol || (v.Str != "true" && v.Str != "false") || (v.Str == "true") != n.b {
			return fmt.Sprintf("%s: got %s want %v", path, describe(v), n.b)
		}
	case jStr:
		if v.Type != lisp.LString || v.Str != n.str {
			return fmt.Sprintf("%s: got %s want string %q", path, describe(v), n.str)
		}
	case jNum:
		nl := splitNum(n.num)
		switch {
		case sn:
			if v.Type != lisp.LString || v.Str != n.num {
				return fmt.Sprintf("%s: :string-numbers gives %s want the literal text %q", path, describe(v), n.num)
			}
		case ei && nl.intShaped() && n.num != "-0":
			if i, ok := fitsInt64(n.num); ok {
				if v.Type != lisp.LInt || int64(v.Int) != i {
					return fmt.Sprintf("%s: :exact-integers gives %s for the integer literal %s, want int %d", path, describe(v), n.num, i)
				}
				return ""
			}
			// does not fit: only reachable for canonical float text
			f, _ := nearestFloat(n.num)
			if v.Type != lisp.LFloat || math.Float64bits(v.Float) != math.Float64bits(f) {
				return fmt.Sprintf("%s: :exact-integers gives %s for the canonical float text %s, want float %s", path, describe(v), n.num, vcommon.FloatCanon(f))
			}
		default:
			f, over := nearestFloat(n.num)
			if over {
				if v.Type != lisp.LFloat {
					return fmt.Sprintf("%s: got %s for the overflowing literal %s", path, describe(v), n.num)
				}
				return ""
			}
			if v.Type != lisp.LFloat || math.Float64bits(v.Float) != math.Float64bits(f) {
				return fmt.Sprintf("%s: number literal %s loads as %s, the nearest float64 is %s", path, n.num, describe(v), vcommon.FloatCanon(f))
			}
		}
	case jArr:
		if v.Type != lisp.LArray || len(v.Cells) != 2 || v.Cells[0].Len() != 1 {
			return fmt.Sprintf("%s: got %s want a vector of %d", path, describe(v), len(n.arr))
		}
		cells := v.Cells[1].Cells
		if dim := v.Cells[0].Cells[0]; dim.Type != lisp.LInt || dim.Int != len(cells) {
			return fmt.Sprintf("%s: vector dimension %v disagrees with its %d cells", path, dim, len(cells))
		}
		if len(cells) != len(n.arr) {
			return fmt.Sprintf("%s: vector of %d want %d", path, len(cells), len(n.arr))
		}
		for i := range cells {
			if d := cmpDoc(n.arr[i], cells[i], sn, ei, pIdx(path, i)); d != "" {
				return d
			}
		}
	case jObj:
		if v.Type != lisp.LSortMap {
			return fmt.Sprintf("%s: got %s want a sorted-map", path, describe(v))
		}
		keys, vals := n.effective()
		ents := v.MapEntries()
		if ents.Type == lisp.LError {
			return fmt.Sprintf("%s: map entries: %v", path, ents)
		}
		if len(ents.Cells) != len(keys) || v.Map().Len() != len(keys) {
			return fmt.Sprintf("%s: map with %d entries (Len %d) want %d keys %q: %s", path, len(ents.Cells), v.Map().Len(), len(keys), keys, describe(v))
		}
		for i, p := range ents.Cells {
			if len(p.Cells) != 2 || p.Cells[0].Type != lisp.LString || p.Cells[0].Str != keys[i] {
				return fmt.Sprintf("%s: entry %d has key %s want %q", path, i, describe(p.Cells[0]), keys[i])
			}
			if d := cmpDoc(vals[i], p.Cells[1], sn, ei, pKey(path, keys[i])); d != "" {
				return d
			}
		}
	}
	return ""
}

// cmpRedump compares the reference parse r of dump(load(doc)) with the
// reference parse n of doc: the loaded value is itself a value "made of sorted
// maps, arrays, strings, numbers, booleans and nil", so (a) applies to it.
func cmpRedump(n, r *jnode, sn, ei bool, path string) string {
	switch n.kind {
	case jNull, jBool:
		if r.kind != n.kind || r.b != n.b {
			return fmt.Sprintf("%s: re-dumped as %v", path, r.kind)
		}
	case jStr:
		if r.kind != jStr || r.str != n.str {
			return fmt.Sprintf("%s: string %q re-dumped as %v %q", path, n.str, r.kind, r.str)
		}
	case jNum:
		nl := splitNum(n.num)
		switch {
		case sn:
			if r.kind != jStr || r.str != n.num {
				return fmt.Sprintf("%s: literal %s loaded with :string-numbers re-dumps as %v %q", path, n.num, r.kind, r.str+r.num)
			}
		case ei && nl.intShaped() && n.num != "-0" && func() bool { _, ok := fitsInt64(n.num); return ok }():
			i, _ := fitsInt64(n.num)
			if r.kind != jNum || r.num != intText(i) {
				return fmt.Sprintf("%s: integer %s re-dumps as %v %q", path, n.num, r.kind, r.num)
			}
		default:
			f, over := nearestFloat(n.num)
			if over {
				return ""
			}
			if r.kind != jNum {
				return fmt.Sprintf("%s: number %s re-dumps as %v", path, n.num, r.kind)
			}
			if key, why := canonFloatIssue(r.num, f); key != "" {
				return fmt.Sprintf("%s: number %s (float %v) re-dumps badly: %s", path, n.num, f, why)
			}
		}
	case jArr:
		if r.kind != jArr || len(r.arr) != len(n.arr) {
			return fmt.Sprintf("%s: array of %d re-dumped as %v of %d", path, len(n.arr), r.kind, len(r.arr))
		}
		for i := range n.arr {
			if d := cmpRedump(n.arr[i], r.arr[i], sn, ei, pIdx(path, i)); d != "" {
				return d
			}
		}
	case jObj:
		keys, vals := n.effective()
		if r.kind != jObj || len(r.keys) != len(keys) {
			return fmt.Sprintf("%s: object with keys %q re-dumped as %v with keys %q", path, keys, r.kind, r.keys)
		}
		for i := range keys {
			// keys is strictly sorted, so equality member by member also
			// proves the re-dumped keys are strictly sorted
			if r.keys[i] != keys[i] {
				return fmt.Sprintf("%s: re-dumped member %d has key %q want %q (all: %q)", path, i, r.keys[i], keys[i], r.keys)
			}
			if d := cmpRedump(vals[i], r.vals[i], sn, ei, pKey(path, keys[i])); d != "" {
				return d
			}
		}
	}
	return ""
}

func modeName(sn, ei bool) string {
	return fmt.Sprintf("string-numbers=%v exact-integers=%v", sn, ei)
}

func resultKey(r result) string {
	if r.err {
		return "ERR<" + r.cond + ">"
	}
	return vcommon.Canon(r.v)
}

func checkDoc(dc DocCase, ctx *vcommon.Ctx) *vcommon.Failure {
	c := newCls(ctx)
	e := getElps()
	mode := modeName(dc.SN, dc.EI)
	c.Class("mode/" + mode)
	n, info, rerr := refParse(dc.Doc)
	if rerr != nil && strings.Contains(rerr.Error(), "out of scope") {
		c.Class("skipped-too-deep")
		return nil
	}

	load := func(useBytes bool) (result, *vcommon.Failure) {
		fn := "json:load-string"
		var arg *lisp.LVal
		if useBytes {
			fn = "json:load-bytes"
			arg = lisp.Bytes(append([]byte{}, dc.Doc...))
		} else {
			arg = lisp.String(string(dc.Doc))
		}
		v, pan := e.invoke(fn, arg, dc.OmitFalse, false, flag{"string-numbers", dc.SN}, flag{"exact-integers", dc.EI})
		return observe(fn, v, pan)
	}
	r, f := load(dc.Bytes)
	if f != nil {
		return f
	}
	r2, f := load(!dc.Bytes)
	if f != nil {
		return f
	}

	if rerr != nil {
		// ----- invalid JSON text: must be rejected -----
		c.Class("ref-invalid")
		if !r.err {
			return vcommon.Failf("load/accepts-invalid", "%s: the invalid document %q (%v) is accepted as %s", mode, dc.Doc, rerr, describe(r.v))
		}
		c.Class("rejected-as/" + r.cond)
		if !dc.SN && r.cond != condSyntax {
			return vcommon.Failf("load/invalid-not-syntax-error", "%s: the invalid document %q (%v) is rejected with condition %q (%s), want %s", mode, dc.Doc, rerr, r.cond, r.msg, condSyntax)
		}
		if !r2.err || (!dc.SN && r2.cond != r.cond) {
			return vcommon.Failf("load/string-vs-bytes", "%s: load-string and load-bytes disagree on %q: %s vs %s", mode, dc.Doc, resultKey(r), resultKey(r2))
		}
		return nil
	}

	// ----- valid JSON text -----
	c.Class("ref-valid")
	if info.depth >= 1000 {
		c.Class("depth>=1000")
	}
	if info.depth >= decoderMaxDepth-10 && info.depth <= decoderMaxDepth {
		c.Class("depth within 10 of the decoder's nesting limit (10000)")
	}
	if info.depth > decoderMaxDepth {
		// documented limit of the decoder: refusal is not judged, but both
		// entry points must refuse alike; acceptance is judged as usual
		c.Class("limit_zone/document nested deeper than the decoder's limit (10000)")
		if r.err || r2.err {
			if r.err != r2.err {
				return vcommon.Failf("load/string-vs-bytes", "%s: load-string and load-bytes disagree on a document nested %d levels deep: %s vs %s", mode, info.depth, resultKey(r), resultKey(r2))
			}
			c.Class("limit_zone/refused")
			return nil
		}
	}
	if info.invalidUTF8 > 0 {
		c.Class("lenient_zone/invalid-utf8")
	}
	if info.loneSurr > 0 {
		c.Class("lenient_zone/lone-surrogate")
	}
	if info.dupKeys > 0 {
		c.Class("lenient_zone/duplicate-keys")
	}
	if info.surrPairs > 0 {
		c.Class("surrogate-pair")
	}
	if info.escapes > 0 {
		c.Class("string-escape")
	}
	if info.wsBetween {
		c.Class("whitespace")
	}
	if info.depth >= 2 {
		c.Class("depth>=2")
	}
	if info.depth >= 64 {
		c.Class("depth>=64 (encoder guard depth)")
	}
	p := planNumbers(n, dc.SN, dc.EI)
	for _, cl := range []struct {
		name string
		on   bool
	}{
		{"num/overflow", p.overflowAny}, {"num/must-range-error", p.rangeEff}, {"num/range-error-shadowed", p.rangeAny && !p.rangeEff},
		{"num/neg-zero", p.negZero}, {"num/canonical-float-exception", p.canonExcept}, {"num/exact-int", p.exactInts > 0},
		{"num/exact-int-beyond-2^53", p.beyond53}, {"num/exponent", p.expForm}, {"num/fraction", p.fracForm},
		{"num/underflow-to-zero", p.underflow}, {"num/long-mantissa", p.longMantissa},
	} {
		if cl.on {
			c.Class(cl.name)
		}
	}
	if info.numbers >= 1 && info.strings >= 1 {
		var b strings.Builder
		n.canon(&b)
		c.NonTrivial(mode + "|" + string(dc.Doc))
		c.Note(fmt.Sprintf("doc: %q  ref: %s", dc.Doc, b.String()))
	}

	if resultKey(r) != resultKey(r2) {
		// two failing numbers inside one object may be reported in either
		// order (the decoder walks a Go map); only acceptance must agree then
		if !(r.err && r2.err && p.overflowAny && p.rangeAny) {
			return vcommon.Failf("load/string-vs-bytes", "%s: load-string and load-bytes disagree on %q: %s vs %s", mode, dc.Doc, resultKey(r), resultKey(r2))
		}
	}

	if r.err {
		c.Class("valid-rejected-as/" + r.cond)
		if r.cond == condSyntax {
			return vcommon.Failf("load/valid-syntax-error", "%s: the valid document %q is rejected with %s (%s)", mode, dc.Doc, r.cond, r.msg)
		}
		switch {
		case r.cond == condRange:
			if !p.rangeAny {
				return vcommon.Failf("load/spurious-range-error", "%s: %s for %q, which holds no integer literal that is out of range and non-canonical (%s)", mode, r.cond, dc.Doc, r.msg)
			}
		case p.overflowAny:
			// a float64 overflow: any condition but a syntax error
		default:
			key := "load/rejects-valid"
			if p.rangeEff {
				key = "load/range-error-wrong-condition"
			}
			return vcommon.Failf(key, "%s: the valid document %q is rejected: %s: %s", mode, dc.Doc, r.cond, r.msg)
		}
		return nil
	}
	c.Class("accepted")
	if p.rangeEff {
		return vcommon.Failf("load/range-error-missing", "%s: %q holds an integer literal that does not fit an int and is not canonical float text, yet it loads as %s", mode, dc.Doc, describe(r.v))
	}
	if info.depth > 150 {
		// resultKey only renders the top 200 levels: compare the other entry
		// point's value in full as well, and send the deep document through
		// the third entry point (a message supplied by the embedder)
		if d := cmpDoc(n, r2.v, dc.SN, dc.EI, "$"); d != "" {
			return vcommon.Failf("load/string-vs-bytes", "%s: the second entry point's value for the deep document differs from the reference: %s", mode, d)
		}
		r3, f := loadAll(e, dc.Doc, "json:load-message", dc.SN, dc.EI)
		if f != nil {
			return f
		}
		if r3.err {
			return vcommon.Failf("load/message-vs-string", "%s: json:load-message rejects the %d-deep document that load-string accepts: %s: %s", mode, info.depth, r3.cond, r3.msg)
		}
		if d := cmpDoc(n, r3.v, dc.SN, dc.EI, "$"); d != "" {
			return vcommon.Failf("load/message-vs-string", "%s: json:load-message of the deep document differs from the reference: %s", mode, d)
		}
	}
	if d := cmpDoc(n, r.v, dc.SN, dc.EI, "$"); d != "" {
		key := "load/structure"
		switch {
		case strings.Contains(d, ":string-numbers"):
			key = "load/string-numbers-text"
		case strings.Contains(d, ":exact-integers"):
			key = "load/exact-integers-value"
		case strings.Contains(d, "nearest float64"):
			key = "load/float-value"
		}
		return vcommon.Failf(key, "%s: %q: %s", mode, dc.Doc, d)
	}

	// the loaded value must dump to a document that denotes the same data
	dv, pan := e.call("json:dump-string", r.v)
	dr, f := observe("json:dump-string", dv, pan)
	if f != nil {
		return f
	}
	if dr.err {
		if p.overflowAny {
			return nil
		}
		return vcommon.Failf("redump/error", "%s: value loaded from %q cannot be dumped: %s: %s", mode, dc.Doc, dr.cond, dr.msg)
	}
	if dr.v.Type != lisp.LString {
		return vcommon.Failf("redump/result-type", "json:dump-string returned %s", describe(dr.v))
	}
	rn, _, err := refParse([]byte(dr.v.Str))
	if err != nil {
		return vcommon.Failf("redump/invalid-json", "%s: value loaded from %q dumps as %q, which is not valid JSON: %v", mode, dc.Doc, dr.v.Str, err)
	}
	if d := cmpRedump(n, rn, dc.SN, dc.EI, "$"); d != "" {
		return vcommon.Failf("redump/value", "%s: %q loads and dumps again as %q: %s", mode, dc.Doc, dr.v.Str, d)
	}
	return nil
}
