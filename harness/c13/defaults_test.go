// C13 "defaults": the runtime-wide switches (json:use-string-numbers,
// json:use-exact-integers) combined with each keyword being absent, explicitly
// false or explicitly true, through all three load and all three dump entry
// points.  The effective mode is: the keyword if it is given, else the
// switch.  Every entry point must agree with the reference under the
// effective mode (and therefore with the other two).
package c13

import (
	"bytes"
	"encoding/json"
	"fmt"
	"strings"
	"sync"

	"github.com/luthersystems/elps/lisp"
	"github.com/luthersystems/elps/verifharness/vcommon"
	"pgregory.net/rapid"
)

const (
	kwAbsent = 0
	kwFalse  = 1
	kwTrue   = 2
)

var kwNames = [...]string{"absent", "false", "true"}

func effective(kw int, def bool) bool {
	switch kw {
	case kwFalse:
		return false
	case kwTrue:
		return true
	}
	return def
}

type DefCase struct {
	Doc     []byte `json:"doc"`
	V       MV     `json:"v"`
	Defs    []MV   `json:"defs,omitempty"` // objects the ref nodes of V denote (shared parts)
	DefSN   bool   `json:"def_sn"` // (json:use-string-numbers DefSN)
	DefEI   bool   `json:"def_ei"` // (json:use-exact-integers DefEI)
	KwSN    int    `json:"kw_sn"`  // load keyword :string-numbers: 0 absent, 1 false, 2 true
	KwEI    int    `json:"kw_ei"`  // load keyword :exact-integers
	DumpKw  int    `json:"dump_kw"`
	ViaEval bool   `json:"via_eval"`
}

// a runtime of its own: the switches are per-runtime state and must not leak
// into the runtime the other sub-properties use
var (
	elpsSwOnce sync.Once
	elpsSwInst *elps
)

func getElpsSw() *elps {
	elpsSwOnce.Do(func() { elpsSwInst = newElps() })
	return elpsSwInst
}

func (e *elps) setSwitches(sn, ei bool) *vcommon.Failure {
	src := fmt.Sprintf("(json:use-string-numbers %v) (json:use-exact-integers %v)", sn, ei)
	if v := e.env.LoadString("c13-switch.lisp", src); v == nil || v.Type == lisp.LError {
		return vcommon.Failf("defaults/switch-error", "%s signalled %v", src, v)
	}
	return nil
}

type kwArg struct {
	name  string
	state int
}

func (e *elps) invokeKw(fn string, arg *lisp.LVal, viaEval bool, kws ...kwArg) (*lisp.LVal, string) {
	if viaEval {
		var b strings.Builder
		for _, k := range kws {
			if k.state != kwAbsent {
				b.WriteString(" :" + k.name + " " + kwNames[k.state])
			}
		}
		return e.callEval(fn, arg, b.String())
	}
	args := []*lisp.LVal{arg}
	for _, k := range kws {
		if k.state != kwAbsent {
			args = append(args, lisp.Symbol(":"+k.name), lisp.Bool(k.state == kwTrue))
		}
	}
	return e.call(fn, args...)
}

// judgeLoad applies oracle (c) to one load result under the effective mode.
func judgeLoad(what string, doc []byte, n *jnode, rerr error, r result, sn, ei bool) *vcommon.Failure {
	if rerr != nil {
		if !r.err {
			return vcommon.Failf("defaults/accepts-invalid", "%s: the invalid document %q (%v) is accepted as %s", what, doc, rerr, describe(r.v))
		}
		if !sn && r.cond != condSyntax {
			return vcommon.Failf("defaults/invalid-not-syntax-error", "%s: the invalid document %q is rejected with %q, want %s", what, doc, r.cond, condSyntax)
		}
		return nil
	}
	p := planNumbers(n, sn, ei)
	if r.err {
		switch {
		case r.cond == condSyntax:
			return vcommon.Failf("defaults/valid-syntax-error", "%s: the valid document %q is rejected with %s (%s)", what, doc, r.cond, r.msg)
		case r.cond == condRange && p.rangeAny:
			return nil
		case r.cond != condRange && p.overflowAny:
			return nil
		}
		return vcommon.Failf("defaults/rejects-valid", "%s: the valid document %q is rejected: %s: %s", what, doc, r.cond, r.msg)
	}
	if p.rangeEff {
		return vcommon.Failf("defaults/range-error-missing", "%s: %q holds an out-of-range integer literal, yet it loads as %s", what, doc, describe(r.v))
	}
	if d := cmpDoc(n, r.v, sn, ei, "$"); d != "" {
		return vcommon.Failf("defaults/load-value", "%s: %q: %s", what, doc, d)
	}
	return nil
}

var loaders = []string{"json:load-string", "json:load-bytes", "json:load-message"}

func loaderArg(loader string, doc []byte) *lisp.LVal {
	switch loader {
	case "json:load-string":
		return lisp.String(string(doc))
	case "json:load-bytes":
		return lisp.Bytes(append([]byte{}, doc...))
	}
	raw := json.RawMessage(append([]byte{}, doc...))
	return lisp.Native(&raw)
}

func checkDefaults(dc DefCase, ctx *vcommon.Ctx) *vcommon.Failure {
	c := newCls(ctx)
	e := getElpsSw()
	if f := e.setSwitches(dc.DefSN, dc.DefEI); f != nil {
		return f
	}
	defer e.setSwitches(false, false)
	kw := func(i int) int { return ((i % 3) + 3) % 3 }
	kwSN, kwEI, dumpKw := kw(dc.KwSN), kw(dc.KwEI), kw(dc.DumpKw)
	sn, ei := effective(kwSN, dc.DefSN), effective(kwEI, dc.DefEI)
	setup := fmt.Sprintf("use-string-numbers=%v use-exact-integers=%v, keywords :string-numbers %s :exact-integers %s (effective %s)",
		dc.DefSN, dc.DefEI, kwNames[kwSN], kwNames[kwEI], modeName(sn, ei))
	c.Class(fmt.Sprintf("switches/sn=%v,ei=%v", dc.DefSN, dc.DefEI))
	c.Class("load-kw/sn-" + kwNames[kwSN] + ",ei-" + kwNames[kwEI])
	if kwEI == kwAbsent && dc.DefEI {
		c.Class("exact-integers-from-switch-only")
	}
	if kwSN == kwAbsent && dc.DefSN {
		c.Class("string-numbers-from-switch-only")
	}
	if (kwEI == kwFalse && dc.DefEI) || (kwSN == kwFalse && dc.DefSN) {
		c.Class("explicit-false-overrides-switch")
	}

	// ----- loads of the document through the three entry points -----
	n, info, rerr := refParse(dc.Doc)
	if rerr != nil && strings.Contains(rerr.Error(), "out of scope") {
		rerr, n = nil, &jnode{kind: jNull}
		dc.Doc = []byte("null")
	}
	if rerr == nil {
		c.Class("doc-valid")
		if info != nil && info.numbers > 0 {
			c.Class("doc-with-number")
			c.NonTrivial(fmt.Sprintf("%s|%s|%x", dc.Doc, setup, dc.V.FB))
			c.Note(fmt.Sprintf("doc %q under %s", dc.Doc, setup))
		}
	} else {
		c.Class("doc-invalid")
	}
	var keys [3]string
	for i, ld := range loaders {
		v, pan := e.invokeKw(ld, loaderArg(ld, dc.Doc), dc.ViaEval && i == 0, kwArg{"string-numbers", kwSN}, kwArg{"exact-integers", kwEI})
		r, f := observe(ld, v, pan)
		if f != nil {
			return f
		}
		if f := judgeLoad(ld+" with "+setup, dc.Doc, n, rerr, r, sn, ei); f != nil {
			f.Key = strings.Replace(f.Key, "defaults/", "defaults/"+strings.TrimPrefix(ld, "json:")+"/", 1)
			return f
		}
		keys[i] = resultKey(r)
	}
	if rerr == nil && (keys[0] != keys[1] || keys[0] != keys[2]) {
		if p := planNumbers(n, sn, ei); !(p.overflowAny && p.rangeAny) {
			return vcommon.Failf("defaults/entry-points-disagree", "%s: the three load entry points disagree on %q: %s / %s / %s", setup, dc.Doc, keys[0], keys[1], keys[2])
		}
	}

	// ----- dumps of the value through the three entry points -----
	m, rf := dc.V.resolveIn(e, dc.Defs)
	if rf != nil {
		return rf
	}
	if classifyShared(dc.V, dc.Defs, c) {
		if d := m.depth(); d >= encoderGuardDepth-1 {
			c.Class("shared value crossing the encoder's guard depth")
		}
	}
	if nonFiniteKind(m) != "" {
		return nil
	}
	dsn := effective(dumpKw, dc.DefSN)
	c.Class("dump-kw/" + kwNames[dumpKw])
	var want bytes.Buffer
	refEncode(&want, m, dsn)
	hazard := false
	var msgNative *lisp.LVal
	for _, fn := range []string{"json:dump-string", "json:dump-bytes", "json:dump-message"} {
		arg := m.toLVal()
		if len(dc.Defs) > 0 {
			arg = newBuilder(dc.Defs).build(dc.V)
		}
		v, pan := e.invokeKw(fn, arg, false, kwArg{"string-numbers", dumpKw})
		r, f := observe(fn, v, pan)
		if f != nil {
			return f
		}
		if r.err {
			return vcommon.Failf("defaults/dump-error", "%s (use-string-numbers=%v, keyword %s) signalled %s: %s", fn, dc.DefSN, kwNames[dumpKw], r.cond, r.msg)
		}
		var got []byte
		switch r.v.Type {
		case lisp.LString:
			got = []byte(r.v.Str)
		case lisp.LBytes:
			got = r.v.Bytes()
		case lisp.LNative:
			msgNative = r.v
			mb, pan := e.call("json:message-bytes", r.v)
			if pan != "" || mb == nil || mb.Type != lisp.LBytes {
				return vcommon.Failf("defaults/message-bytes", "json:message-bytes failed on a dumped message: %v %s", mb, pan)
			}
			got = mb.Bytes()
		}
		if !bytes.Equal(got, want.Bytes()) {
			return vcommon.Failf("defaults/"+strings.TrimPrefix(fn, "json:")+"/bytes", "%s with use-string-numbers=%v and keyword :string-numbers %s (effective %v) gives\n %q\nthe reference encoder gives\n %q", fn, dc.DefSN, kwNames[dumpKw], dsn, got, want.Bytes())
		}
	}
	// ----- the dumped message (libjson's own message type) loaded back -----
	pn, _, perr := refParse(want.Bytes())
	if perr != nil {
		return vcommon.Failf("selfcheck/ref-encoder-output", "reference encoder output %q does not parse: %v", want.Bytes(), perr)
	}
	{
		// maps whose keys collide after U+FFFD replacement are the known
		// finding's zone (checked by the value sub-property), not this one's
		d := &dumpCtx{sn: dsn, c: c}
		if f := d.cmpDump(m, pn, "$"); f != nil {
			return f
		}
		hazard = d.deferred != nil
	}
	if hazard || msgNative == nil {
		c.Class("skipped-roundtrip/invalid-utf8-key")
		return nil
	}
	v, pan := e.invokeKw("json:load-message", msgNative, false, kwArg{"string-numbers", kwSN}, kwArg{"exact-integers", kwEI})
	r, f := observe("json:load-message", v, pan)
	if f != nil {
		return f
	}
	if r.err {
		return vcommon.Failf("defaults/load-message/rejects-dump", "json:load-message with %s rejects the message json:dump-message produced (%q): %s: %s", setup, want.Bytes(), r.cond, r.msg)
	}
	if d := cmpLoaded(expectLoad(m, pn, dsn, sn, ei), r.v, "$"); d != "" {
		return vcommon.Failf("defaults/load-message/roundtrip", "json:load-message with %s of the message dumped as %q: %s", setup, want.Bytes(), d)
	}
	return nil
}

var defDocs = []string{
	`{"id":9007199254740993,"max":9223372036854775807,"n":7}`, `9007199254740993`, `[1,2.5,"x",-0,1e2]`, `{"a":[3],"b":{"c":10000000000000000000}}`,
	`9223372036854775808`, `[1e400]`, `{"a":1,}`, `7`, `[]`, `"s"`, `1 2`, `[18446744073709551616,1]`,
}

func genDefCase() *rapid.Generator[DefCase] {
	return rapid.Custom(func(t *rapid.T) DefCase {
		var doc []byte
		switch rapid.IntRange(0, 3).Draw(t, "dk") {
		case 0:
			doc = []byte(rapid.SampledFrom(defDocs).Draw(t, "dd"))
		case 1:
			doc = genDocBytes(t)
		default:
			o := docOpts{numeric: true, force: rapid.Bool().Draw(t, "force")}
			budget := 12
			var b strings.Builder
			genDocValue(t, rapid.IntRange(0, 2).Draw(t, "depth"), &budget, o, &b)
			doc = []byte(b.String())
		}
		budget := 12
		var v MV
		var defs []MV
		if rapid.IntRange(0, 7).Draw(t, "sharedv") == 3 {
			v, defs = genSharedValue(t)
		} else {
			v = genMV(t, rapid.IntRange(0, 2).Draw(t, "vdepth"), &budget, false)
		}
		return DefCase{
			Doc:     doc,
			Defs:    defs,
			V:       v,
			DefSN:   rapid.IntRange(0, 2).Draw(t, "def_sn") == 1,
			DefEI:   rapid.Bool().Draw(t, "def_ei"),
			KwSN:    rapid.SampledFrom([]int{kwAbsent, kwAbsent, kwFalse, kwTrue}).Draw(t, "kw_sn"),
			KwEI:    rapid.SampledFrom([]int{kwAbsent, kwAbsent, kwFalse, kwTrue}).Draw(t, "kw_ei"),
			DumpKw:  rapid.SampledFrom([]int{kwAbsent, kwAbsent, kwFalse, kwTrue}).Draw(t, "dump_kw"),
			ViaEval: rapid.IntRange(0, 4).Draw(t, "via_eval") == 2,
		}
	})
}
