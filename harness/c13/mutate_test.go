// C13 "mutate": every value json:load-* returns is its own value.  A loaded
// document is mutated in place (append! on arrays, assoc!/dissoc! on objects,
// empty ones included); then (a) the whole loaded value -- the untouched parts
// above all -- must still agree with the independent decoder's tree after the
// same edits, (b) fresh loads of the same text, in the same runtime and in
// another runtime created afterwards, in every mode and through every loader,
// must still agree with the independent decoder, and (c) the dump of the
// mutated value must equal the reference encoder's output for the edited tree.
package c13

import (
	"bytes"
	"encoding/json"
	"fmt"
	"sort"
	"strings"
	"sync"

	"github.com/luthersystems/elps/lisp"
	"github.com/luthersystems/elps/verifharness/vcommon"
	"pgregory.net/rapid"
)

type MutOp struct {
	Target      int    `json:"target"`       // index (mod count) into the candidate containers, pre-order
	PreferEmpty bool   `json:"prefer_empty"` // candidates = the empty containers, if there are any
	Op          string `json:"op"`           // objects: assoc | dissoc (arrays always get append!)
	KeyIdx      int    `json:"key_idx"`      // >= 0: use the (KeyIdx mod n)-th existing key, if any
	Key         string `json:"key"`          // otherwise this key
	Val         int    `json:"val"`          // index into mutVals
}

type MutCase struct {
	Doc        []byte  `json:"doc"`
	SN         bool    `json:"sn"`
	EI         bool    `json:"ei"`
	Bytes      bool    `json:"bytes"`
	Ops        []MutOp `json:"ops"`
	NewRuntime bool    `json:"new_runtime"` // (b) uses a runtime created after the mutation instead of the standing second one
}

// mutVals: what gets appended / associated.  No numbers: a number's lisp type
// depends on the load mode, which is not what this sub-property is about.
var mutVals = []struct {
	name string
	node func() *jnode
	lval func() *lisp.LVal
}{
	{"string", func() *jnode { return &jnode{kind: jStr, str: "urgent"} }, func() *lisp.LVal { return lisp.String("urgent") }},
	{"empty-string", func() *jnode { return &jnode{kind: jStr, str: ""} }, func() *lisp.LVal { return lisp.String("") }},
	{"true", func() *jnode { return &jnode{kind: jBool, b: true} }, func() *lisp.LVal { return lisp.Bool(true) }},
	{"nil", func() *jnode { return &jnode{kind: jNull} }, func() *lisp.LVal { return lisp.Nil() }},
	{"empty-vector", func() *jnode { return &jnode{kind: jArr, arr: []*jnode{}} }, func() *lisp.LVal { return lisp.Array(nil, nil) }},
	{"empty-map", func() *jnode { return &jnode{kind: jObj} }, func() *lisp.LVal { return lisp.SortedMap() }},
	{"escape-string", func() *jnode { return &jnode{kind: jStr, str: "a\"<\u2028\n"} }, func() *lisp.LVal { return lisp.String("a\"<\u2028\n") }},
}

// normalize returns a copy of the tree with "last duplicate wins" applied and
// members in bytewise key order: the shape the loaded value has.
func normalize(n *jnode) *jnode {
	switch n.kind {
	case jArr:
		out := &jnode{kind: jArr, arr: make([]*jnode, len(n.arr))}
		for i, c := range n.arr {
			out.arr[i] = normalize(c)
		}
		return out
	case jObj:
		keys, vals := n.effective()
		out := &jnode{kind: jObj, keys: keys, vals: make([]*jnode, len(vals))}
		for i, c := range vals {
			out.vals[i] = normalize(c)
		}
		return out
	}
	cp := *n
	return &cp
}

type contRef struct {
	node *jnode
	lval *lisp.LVal
}

// containers lists the arrays and objects of the model together with the
// corresponding LVals of the loaded value, pre-order.
func containers(n *jnode, v *lisp.LVal, out *[]contRef) string {
	switch n.kind {
	case jArr:
		if v.Type != lisp.LArray || len(v.Cells) != 2 || len(v.Cells[1].Cells) != len(n.arr) {
			return "array shape"
		}
		*out = append(*out, contRef{n, v})
		for i, c := range n.arr {
			if d := containers(c, v.Cells[1].Cells[i], out); d != "" {
				return d
			}
		}
	case jObj:
		if v.Type != lisp.LSortMap {
			return "object shape"
		}
		*out = append(*out, contRef{n, v})
		for i, k := range n.keys {
			cv, ok := v.Map().Get(lisp.String(k))
			if !ok || cv == nil {
				return "object member " + k
			}
			if d := containers(n.vals[i], cv, out); d != "" {
				return d
			}
		}
	}
	return ""
}

func (n *jnode) setKey(k string, v *jnode) {
	i := sort.SearchStrings(n.keys, k)
	if i < len(n.keys) && n.keys[i] == k {
		n.vals[i] = v
		return
	}
	n.keys = append(n.keys, "")
	copy(n.keys[i+1:], n.keys[i:])
	n.keys[i] = k
	n.vals = append(n.vals, nil)
	copy(n.vals[i+1:], n.vals[i:])
	n.vals[i] = v
}

func (n *jnode) delKey(k string) {
	i := sort.SearchStrings(n.keys, k)
	if i < len(n.keys) && n.keys[i] == k {
		n.keys = append(n.keys[:i:i], n.keys[i+1:]...)
		n.vals = append(n.vals[:i:i], n.vals[i+1:]...)
	}
}

// refEncodeJ writes what json:dump-string must produce for the value that
// loading the tree n under (loadSN, loadEI) yields.
func refEncodeJ(b *bytes.Buffer, n *jnode, loadSN, loadEI, dumpSN bool) {
	switch n.kind {
	case jNull:
		b.WriteString("null")
	case jBool:
		if n.b {
			b.WriteString("true")
		} else {
			b.WriteString("false")
		}
	case jStr:
		refEscape(b, []byte(n.str))
	case jNum:
		var text string
		switch {
		case loadSN: // loaded as a string holding the literal
			refEscape(b, []byte(n.num))
			return
		case loadEI && splitNum(n.num).intShaped() && n.num != "-0":
			if i, ok := fitsInt64(n.num); ok {
				text = intText(i)
				break
			}
			fallthrough
		default:
			f, _ := nearestFloat(n.num)
			text = refFloatText(f)
		}
		if dumpSN {
			b.WriteString(`"` + text + `"`)
		} else {
			b.WriteString(text)
		}
	case jArr:
		b.WriteByte('[')
		for i, c := range n.arr {
			if i > 0 {
				b.WriteByte(',')
			}
			refEncodeJ(b, c, loadSN, loadEI, dumpSN)
		}
		b.WriteByte(']')
	case jObj:
		b.WriteByte('{')
		for i, k := range n.keys { // normalized: unique, sorted
			if i > 0 {
				b.WriteByte(',')
			}
			refEscape(b, []byte(k))
			b.WriteByte(':')
			refEncodeJ(b, n.vals[i], loadSN, loadEI, dumpSN)
		}
		b.WriteByte('}')
	}
}

var (
	elps2Once sync.Once
	elps2Inst *elps
)

func getElps2() *elps {
	elps2Once.Do(func() { elps2Inst = newElps() })
	return elps2Inst
}

// loadAll loads doc in runtime e through one loader and mode.
func loadAll(e *elps, doc []byte, loader string, sn, ei bool) (result, *vcommon.Failure) {
	var arg *lisp.LVal
	switch loader {
	case "json:load-string":
		arg = lisp.String(string(doc))
	case "json:load-bytes":
		arg = lisp.Bytes(append([]byte{}, doc...))
	default: // a message supplied by the embedder, as the docstring allows
		raw := json.RawMessage(append([]byte{}, doc...))
		arg = lisp.Native(&raw)
	}
	v, pan := e.invoke(loader, arg, false, false, flag{"string-numbers", sn}, flag{"exact-integers", ei})
	return observe(loader, v, pan)
}

func checkMutate(mc MutCase, ctx *vcommon.Ctx) *vcommon.Failure {
	c := newCls(ctx)
	e := getElps()
	orig, info, rerr := refParse(mc.Doc)
	if rerr != nil {
		c.Class("skipped/invalid-document")
		return nil
	}
	for _, ei := range []bool{false, true} {
		if p := planNumbers(orig, false, ei); p.overflowAny || p.rangeAny {
			c.Class("skipped/number-that-some-mode-rejects")
			return nil
		}
	}
	mode := modeName(mc.SN, mc.EI)
	c.Class("mode/" + mode)
	loader := "json:load-string"
	if mc.Bytes {
		loader = "json:load-bytes"
	}
	r, f := loadAll(e, mc.Doc, loader, mc.SN, mc.EI)
	if f != nil {
		return f
	}
	if r.err {
		return vcommon.Failf("load/rejects-valid", "%s: the valid document %q is rejected: %s: %s", mode, mc.Doc, r.cond, r.msg)
	}
	model := normalize(orig)
	if d := cmpDoc(model, r.v, mc.SN, mc.EI, "$"); d != "" {
		// A plain load that disagrees with the reference is the business of
		// the "doc" sub-property, which runs first in a process nothing has
		// mutated.  Here it can also be the after-effect of an EARLIER case of
		// this sub-property (process-wide state shared between loads): that
		// earlier case has already failed on its own, and a case that only
		// fails because of its predecessors would not replay.  So it is
		// counted and not reported, which also keeps rapid's shrinking from
		// drifting to a case that is not reproducible on its own.
		c.Class("skipped/loads-wrongly-before-mutation (left to the doc sub-property)")
		return nil
	}

	// ----- mutate in place -----
	var log []string
	for _, op := range mc.Ops {
		var all []contRef
		if d := containers(model, r.v, &all); d != "" {
			if len(log) > 0 {
				// the value matched the model before the previous edit
				return vcommon.Failf("mutate/other-part-changed", "%s: after %s on the value loaded from %q the value no longer has the shape of the independent decoder's tree with the same edits (%s)", mode, strings.Join(log, " ; "), mc.Doc, d)
			}
			return vcommon.Failf("mutate/locate", "cannot walk the loaded value of %q: %s", mc.Doc, d)
		}
		if len(all) == 0 {
			c.Class("no-container")
			break
		}
		cands := all
		if op.PreferEmpty {
			var empties []contRef
			for _, cr := range all {
				if len(cr.node.arr)+len(cr.node.keys) == 0 {
					empties = append(empties, cr)
				}
			}
			if len(empties) > 0 {
				cands = empties
			}
		}
		idx := op.Target % len(cands)
		if idx < 0 {
			idx += len(cands)
		}
		t := cands[idx]
		val := mutVals[((op.Val%len(mutVals))+len(mutVals))%len(mutVals)]
		empty := len(t.node.arr)+len(t.node.keys) == 0
		var res *lisp.LVal
		var pan, what string
		switch {
		case t.node.kind == jArr:
			what = fmt.Sprintf("(append! <array #%d of %d> %s)", idx, len(cands), val.name)
			res, pan = e.call("append!", t.lval, val.lval())
			t.node.arr = append(t.node.arr, val.node())
			c.Class("op/append!")
			if empty {
				c.Class("op/append!-on-empty-array")
			}
		case op.Op == "dissoc":
			key := op.Key
			if op.KeyIdx >= 0 && len(t.node.keys) > 0 {
				key = t.node.keys[op.KeyIdx%len(t.node.keys)]
			}
			what = fmt.Sprintf("(dissoc! <object #%d> %q)", idx, key)
			res, pan = e.call("dissoc!", t.lval, lisp.String(key))
			t.node.delKey(key)
			c.Class("op/dissoc!")
		default:
			key := op.Key
			if op.KeyIdx >= 0 && len(t.node.keys) > 0 {
				key = t.node.keys[op.KeyIdx%len(t.node.keys)]
			}
			what = fmt.Sprintf("(assoc! <object #%d> %q %s)", idx, key, val.name)
			res, pan = e.call("assoc!", t.lval, lisp.String(key), val.lval())
			t.node.setKey(key, val.node())
			c.Class("op/assoc!")
			if empty {
				c.Class("op/assoc!-on-empty-object")
			}
		}
		log = append(log, what)
		or, f := observe("mutation", res, pan)
		if f != nil {
			return f
		}
		if or.err {
			return vcommon.Failf("mutate/op-error", "%s on the value loaded from %q signalled %s: %s", what, mc.Doc, or.cond, or.msg)
		}
	}
	if len(log) > 0 && info.nodes >= 3 {
		c.NonTrivial(fmt.Sprintf("%s|%s|%s", mc.Doc, mode, strings.Join(log, ";")))
		c.Note(fmt.Sprintf("doc %q ops %s", mc.Doc, strings.Join(log, " ; ")))
	}
	ops := strings.Join(log, " ; ")

	// (a) the whole loaded value against the edited model
	if d := cmpDoc(model, r.v, mc.SN, mc.EI, "$"); d != "" {
		return vcommon.Failf("mutate/other-part-changed", "%s: after %s on the value loaded from %q the value no longer matches the independent decoder's tree with the same edits: %s", mode, ops, mc.Doc, d)
	}
	// (c) dump of the mutated value against the reference encoder
	for _, dumpSN := range []bool{false, true} {
		dv, pan := e.invoke("json:dump-string", r.v, false, false, flag{"string-numbers", dumpSN})
		dr, f := observe("json:dump-string", dv, pan)
		if f != nil {
			return f
		}
		if dr.err || dr.v.Type != lisp.LString {
			return vcommon.Failf("mutate/dump-error", "%s: the mutated value of %q (%s) cannot be dumped: %s %s", mode, mc.Doc, ops, dr.cond, dr.msg)
		}
		var want bytes.Buffer
		refEncodeJ(&want, model, mc.SN, mc.EI, dumpSN)
		if dr.v.Str != want.String() {
			return vcommon.Failf("mutate/dump-differs", "%s: after %s the value loaded from %q dumps (string-numbers=%v) as\n %s\nthe reference encoder gives\n %s", mode, ops, mc.Doc, dumpSN, dr.v.Str, want.String())
		}
	}
	// (b) fresh loads of the same text: same runtime, and another runtime
	other := getElps2()
	if mc.NewRuntime {
		other = newElps()
		c.Class("fresh-loads-in-brand-new-runtime")
	}
	for ri, rt := range []*elps{e, other} {
		where := "the same runtime"
		if ri == 1 {
			where = "another runtime"
		}
		for _, ld := range []string{"json:load-string", "json:load-bytes", "json:load-message"} {
			for m := 0; m < 4; m++ {
				sn, ei := m&1 != 0, m&2 != 0
				fr, f := loadAll(rt, mc.Doc, ld, sn, ei)
				if f != nil {
					return f
				}
				if fr.err {
					return vcommon.Failf("mutate/fresh-load-rejected", "%s (%s) in %s rejects %q after a loaded copy was mutated (%s): %s: %s", ld, modeName(sn, ei), where, mc.Doc, ops, fr.cond, fr.msg)
				}
				if d := cmpDoc(orig, fr.v, sn, ei, "$"); d != "" {
					return vcommon.Failf("mutate/fresh-load-differs", "after %s on a value loaded from %q, a fresh %s (%s) of the same text in %s disagrees with the independent decoder: %s", ops, mc.Doc, ld, modeName(sn, ei), where, d)
				}
			}
		}
	}
	return nil
}

// ---------- generator ----------

var mutTemplates = []string{
	`{"refs":[],"tags":[]}`, `[[],[]]`, `[]`, `{}`, `{"a":{},"b":{}}`, `{"a":{"b":[]},"c":[],"d":{}}`, `[{},[],{},[]]`,
	`{"rows":[{"id":1,"tags":[]},{"id":2,"tags":[]}],"meta":{}}`, `[[[]],[[]]]`, `{"k":[1,"x",[]],"e":[]}`, `[[], {"a": []}, []]`,
	// equal non-empty sub-documents: each must load as an object of its own
	`[[1,2],[1,2]]`, `{"a":{"x":[1]},"b":{"x":[1]}}`, `[{"t":["x"]},{"t":["x"]},["x"]]`, `{"a":["s",{}],"b":["s",{}]}`,
}

func genMutCase() *rapid.Generator[MutCase] {
	return rapid.Custom(func(t *rapid.T) MutCase {
		var doc []byte
		if rapid.IntRange(0, 2).Draw(t, "tmpl") == 0 {
			doc = []byte(rapid.SampledFrom(mutTemplates).Draw(t, "t"))
		} else {
			o := docOpts{dups: rapid.IntRange(0, 4).Draw(t, "dups") == 0, force: true, simpleNums: true}
			budget := 25
			var b strings.Builder
			genDocValue(t, rapid.IntRange(1, 4).Draw(t, "depth"), &budget, o, &b)
			doc = []byte(b.String())
		}
		n := rapid.IntRange(1, 4).Draw(t, "nops")
		ops := make([]MutOp, n)
		for i := range ops {
			ops[i] = MutOp{
				Target:      rapid.IntRange(0, 40).Draw(t, "target"),
				PreferEmpty: rapid.IntRange(0, 2).Draw(t, "prefer_empty") > 0,
				Op:          rapid.SampledFrom([]string{"assoc", "assoc", "dissoc"}).Draw(t, "op"),
				KeyIdx:      rapid.IntRange(-1, 3).Draw(t, "key_idx"),
				Key:         rapid.SampledFrom([]string{"k", "a", "", "new", "z\n", "é", "tags"}).Draw(t, "key"),
				Val:         rapid.IntRange(0, len(mutVals)-1).Draw(t, "val"),
			}
		}
		return MutCase{
			Doc:        doc,
			SN:         rapid.IntRange(0, 3).Draw(t, "sn") == 0,
			EI:         rapid.Bool().Draw(t, "ei"),
			Bytes:      rapid.Bool().Draw(t, "bytes"),
			Ops:        ops,
			NewRuntime: rapid.IntRange(0, 19).Draw(t, "new_runtime") == 7,
		}
	})
}
