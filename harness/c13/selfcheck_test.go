// Self-checks of the reference (NOT oracles for elps): refjson is compared
// with encoding/json and with CPython's json on generated corpora, and the
// math/big number routines with strconv.  A failure here has a key that starts
// with "selfcheck/" and means the harness is wrong, not elps.
package c13

import (
	"bytes"
	"encoding/base64"
	"encoding/hex"
	"encoding/json"
	"fmt"
	"math"
	"os/exec"
	"sort"
	"strconv"
	"strings"

	"github.com/luthersystems/elps/verifharness/vcommon"
	"pgregory.net/rapid"
)

type RefCase struct {
	Doc []byte `json:"doc"`
}

func genRefCase() *rapid.Generator[RefCase] {
	return rapid.Custom(func(t *rapid.T) RefCase { return RefCase{Doc: genDocBytes(t)} })
}

// cmpGo compares the reference tree with encoding/json's UseNumber decode.
func cmpGo(n *jnode, x any, path string) string {
	switch n.kind {
	case jNull:
		if x != nil {
			return fmt.Sprintf("%s: go has %T want null", path, x)
		}
	case jBool:
		if b, ok := x.(bool); !ok || b != n.b {
			return fmt.Sprintf("%s: go has %v want %v", path, x, n.b)
		}
	case jNum:
		if s, ok := x.(json.Number); !ok || string(s) != n.num {
			return fmt.Sprintf("%s: go has %v want number %s", path, x, n.num)
		}
	case jStr:
		if s, ok := x.(string); !ok || s != n.str {
			return fmt.Sprintf("%s: go has %q want %q", path, x, n.str)
		}
	case jArr:
		a, ok := x.([]any)
		if !ok || len(a) != len(n.arr) {
			return fmt.Sprintf("%s: go has %T want array of %d", path, x, len(n.arr))
		}
		for i := range a {
			if d := cmpGo(n.arr[i], a[i], pIdx(path, i)); d != "" {
				return d
			}
		}
	case jObj:
		m, ok := x.(map[string]any)
		keys, vals := n.effective()
		if !ok || len(m) != len(keys) {
			return fmt.Sprintf("%s: go has %T (%d) want object with keys %q", path, x, len(m), keys)
		}
		for i, k := range keys {
			v, ok := m[k]
			if !ok {
				return fmt.Sprintf("%s: go lacks key %q", path, k)
			}
			if d := cmpGo(vals[i], v, pKey(path, k)); d != "" {
				return d
			}
		}
	}
	return ""
}

func checkRefSelf(rc RefCase, ctx *vcommon.Ctx) *vcommon.Failure {
	c := newCls(ctx)
	n, info, err := refParse(rc.Doc)
	if err != nil && strings.Contains(err.Error(), "out of scope") {
		return nil
	}
	goValid := json.Valid(rc.Doc)
	if goValid != (err == nil) {
		return vcommon.Failf("selfcheck/accept", "refjson accept=%v (%v) but encoding/json valid=%v for %q", err == nil, err, goValid, rc.Doc)
	}
	if err != nil {
		c.Class("invalid")
		return nil
	}
	c.Class("valid")
	_ = info // self-check cases are never counted as non-trivial coverage of C13
	dec := json.NewDecoder(bytes.NewReader(rc.Doc))
	dec.UseNumber()
	var x any
	if derr := dec.Decode(&x); derr != nil {
		return vcommon.Failf("selfcheck/decode", "encoding/json cannot decode %q: %v", rc.Doc, derr)
	}
	if d := cmpGo(n, x, "$"); d != "" {
		return vcommon.Failf("selfcheck/structure", "refjson and encoding/json differ on %q: %s", rc.Doc, d)
	}
	var bad *vcommon.Failure
	n.walkNums(true, func(lit string, _ bool) {
		if bad != nil {
			return
		}
		f, over := nearestFloat(lit)
		g, perr := strconv.ParseFloat(lit, 64)
		if over != (perr != nil) || (!over && math.Float64bits(f) != math.Float64bits(g)) {
			bad = vcommon.Failf("selfcheck/nearest-float", "literal %s: math/big gives %v overflow=%v, strconv gives %v err=%v", lit, f, over, g, perr)
			return
		}
		if splitNum(lit).intShaped() {
			i, ok := fitsInt64(lit)
			j, ierr := strconv.ParseInt(lit, 10, 64)
			if ok != (ierr == nil) || (ok && i != j) {
				bad = vcommon.Failf("selfcheck/int64", "literal %s: math/big gives %d fits=%v, strconv gives %d err=%v", lit, i, ok, j, ierr)
				return
			}
		}
		if !over {
			c.Class("float-checked")
			text, _ := json.Marshal(f)
			if mine := refFloatText(f); mine != string(text) {
				bad = vcommon.Failf("selfcheck/ref-float-text", "refFloatText(%v) = %s but encoding/json writes %s", f, mine, text)
				return
			}
			if key, why := canonFloatIssue(string(text), f); key != "" {
				bad = vcommon.Failf("selfcheck/canonical-float", "encoding/json writes %v as %s, which canonFloatIssue rejects: %s", f, text, why)
				return
			}
			// and a literal with one more digit than needed must be rejected
			if f != 0 && !strings.ContainsAny(string(text), "e") && strings.Contains(string(text), ".") {
				if key, _ := canonFloatIssue(string(text)+"0", f); key == "" {
					bad = vcommon.Failf("selfcheck/canonical-float-lax", "canonFloatIssue accepts the padded literal %s0", text)
				}
			}
		}
	})
	return bad
}

// ---------- CPython ----------

type PyCase struct {
	Docs [][]byte `json:"docs"`
}

func genPyCase() *rapid.Generator[PyCase] {
	return rapid.Custom(func(t *rapid.T) PyCase {
		n := 120
		pc := PyCase{Docs: make([][]byte, n)}
		for i := range pc.Docs {
			pc.Docs[i] = genDocBytes(t)
		}
		return pc
	})
}

const pyScript = `
import sys, json, base64
sys.setrecursionlimit(10000)
class Num(str): pass
def bad(c): raise ValueError(c)
def fix(s): return ''.join('\ufffd' if 0xD800 <= ord(ch) <= 0xDFFF else ch for ch in s)
def hx(s): return fix(s).encode('utf-8').hex()
def canon(v):
    if v is None: return 'n'
    if v is True: return 't'
    if v is False: return 'f'
    if isinstance(v, Num): return '#' + str(v)
    if isinstance(v, str): return 's' + hx(v)
    if isinstance(v, list): return '[' + ','.join(canon(x) for x in v) + ']'
    if isinstance(v, Obj):
        d = {}
        for k, x in v.pairs: d[fix(k).encode('utf-8')] = x
        return '{' + ','.join(k.hex() + ':' + canon(d[k]) for k in sorted(d)) + '}'
    raise TypeError(type(v))
class Obj:
    def __init__(self, pairs): self.pairs = pairs
out = []
for b64 in json.load(sys.stdin):
    raw = base64.b64decode(b64)
    try:
        text = raw.decode('utf-8')
    except UnicodeDecodeError:
        out.append({'r': 'skip'}); continue
    try:
        v = json.loads(text, parse_int=Num, parse_float=Num, parse_constant=bad, object_pairs_hook=Obj)
        out.append({'r': 'ok', 'c': canon(v)})
    except RecursionError:
        out.append({'r': 'skip'})
    except ValueError:
        out.append({'r': 'bad'})
json.dump(out, sys.stdout)
`

func (n *jnode) pyCanon(b *strings.Builder) {
	switch n.kind {
	case jNull:
		b.WriteString("n")
	case jBool:
		if n.b {
			b.WriteString("t")
		} else {
			b.WriteString("f")
		}
	case jNum:
		b.WriteString("#" + n.num)
	case jStr:
		b.WriteString("s" + hex.EncodeToString([]byte(n.str)))
	case jArr:
		b.WriteByte('[')
		for i, c := range n.arr {
			if i > 0 {
				b.WriteByte(',')
			}
			c.pyCanon(b)
		}
		b.WriteByte(']')
	case jObj:
		b.WriteByte('{')
		keys, vals := n.effective()
		idx := make([]int, len(keys))
		for i := range idx {
			idx[i] = i
		}
		sort.Slice(idx, func(a, c int) bool { return keys[idx[a]] < keys[idx[c]] })
		for j, i := range idx {
			if j > 0 {
				b.WriteByte(',')
			}
			b.WriteString(hex.EncodeToString([]byte(keys[i])) + ":")
			vals[i].pyCanon(b)
		}
		b.WriteByte('}')
	}
}

func checkRefPy(pc PyCase, ctx *vcommon.Ctx) *vcommon.Failure {
	c := newCls(ctx)
	enc := make([]string, len(pc.Docs))
	for i, d := range pc.Docs {
		enc[i] = base64.StdEncoding.EncodeToString(d)
	}
	in, _ := json.Marshal(enc)
	cmd := exec.Command("python3", "-c", pyScript)
	cmd.Stdin = bytes.NewReader(in)
	var stderr bytes.Buffer
	cmd.Stderr = &stderr
	out, err := cmd.Output()
	if err != nil {
		if _, lookErr := exec.LookPath("python3"); lookErr != nil {
			c.Class("python-unavailable")
			return nil
		}
		return vcommon.Failf("selfcheck/python-run", "python3 failed: %v: %s", err, stderr.String())
	}
	var res []struct {
		R string `json:"r"`
		C string `json:"c"`
	}
	if err := json.Unmarshal(out, &res); err != nil || len(res) != len(pc.Docs) {
		return vcommon.Failf("selfcheck/python-output", "cannot read python output: %v", err)
	}
	nontrivial := 0
	for i, d := range pc.Docs {
		n, info, rerr := refParse(d)
		switch res[i].R {
		case "skip":
			c.Class("py-skip")
			continue
		case "bad":
			c.Class("py-invalid")
			if rerr == nil {
				return vcommon.Failf("selfcheck/python-accept", "refjson accepts %q, CPython rejects it", d)
			}
		case "ok":
			c.Class("py-valid")
			if rerr != nil {
				return vcommon.Failf("selfcheck/python-accept", "refjson rejects %q (%v), CPython accepts it", d, rerr)
			}
			var b strings.Builder
			n.pyCanon(&b)
			if b.String() != res[i].C {
				return vcommon.Failf("selfcheck/python-structure", "refjson and CPython differ on %q:\n%s\n%s", d, b.String(), res[i].C)
			}
			if info.numbers > 0 && info.strings > 0 {
				nontrivial++
			}
		}
	}
	if nontrivial > 0 {
		c.Class("batch-with-number-and-string")
	}
	return nil
}
