// refjson: an independent RFC 8259 reference parser used as the oracle of C13.
//
// It shares no code with encoding/json or with /repo: own scanner, own UTF-8
// decoder/encoder (Unicode table 3-7), numbers kept as their literal text and
// interpreted with math/big only.  The three leniencies the package under
// test inherits from Go and that DESIGN.md makes part of the reference are
// modelled explicitly and *counted* so that the class histogram shows how much
// of the search ran inside them ("lenient_zone/..."):
//
//   - raw invalid UTF-8 bytes inside a string literal -> one U+FFFD per byte
//   - \uXXXX escapes that do not form a surrogate pair  -> U+FFFD
//   - duplicate object keys                              -> last one wins
package c13

import (
	"fmt"
	"math"
	"math/big"
	"sort"
	"strings"
)

type jkind uint8

const (
	jNull jkind = iota
	jBool
	jNum
	jStr
	jArr
	jObj
)

func (k jkind) String() string {
	return [...]string{"null", "bool", "number", "string", "array", "object"}[k]
}

type jnode struct {
	kind jkind
	b    bool
	num  string // literal text of a number
	str  string // decoded string (always valid UTF-8)
	arr  []*jnode
	keys []string // document order, duplicates kept
	vals []*jnode
}

type jinfo struct {
	invalidUTF8  int // raw bytes replaced by U+FFFD
	loneSurr     int // \u escapes replaced by U+FFFD
	dupKeys      int // keys shadowed by a later equal key
	numbers      int
	strings      int // string values and keys
	escapes      int
	surrPairs    int
	depth        int
	nodes        int
	wsBetween    bool
	nonASCIIKeys int
}

func (i *jinfo) lenient() bool { return i.invalidUTF8 > 0 || i.loneSurr > 0 || i.dupKeys > 0 }

type jerror struct {
	off int
	msg string
}

func (e *jerror) Error() string { return fmt.Sprintf("offset %d: %s", e.off, e.msg) }

const refMaxDepth = 12000 // documents nested deeper are out of scope (never generated; the decoder's own limit is 10000)

type jparser struct {
	b     []byte
	i     int
	info  *jinfo
	depth int
}

// refParse parses one JSON text.  A nil error means "RFC 8259 accepts it (with
// the three counted leniencies)".
func refParse(b []byte) (*jnode, *jinfo, error) {
	p := &jparser{b: b, info: &jinfo{}}
	p.ws()
	if p.i >= len(p.b) {
		return nil, p.info, &jerror{p.i, "empty document"}
	}
	n, err := p.value()
	if err != nil {
		return nil, p.info, err
	}
	p.ws()
	if p.i < len(p.b) {
		return nil, p.info, &jerror{p.i, "trailing data after top-level value"}
	}
	return n, p.info, nil
}

func (p *jparser) ws() {
	start := p.i
	for p.i < len(p.b) {
		switch p.b[p.i] {
		case 0x20, 0x09, 0x0a, 0x0d:
			p.i++
		default:
			if p.i > start {
				p.info.wsBetween = true
			}
			return
		}
	}
	if p.i > start {
		p.info.wsBetween = true
	}
}

func (p *jparser) fail(format string, a ...any) error {
	return &jerror{p.i, fmt.Sprintf(format, a...)}
}

func (p *jparser) value() (*jnode, error) {
	if p.i >= len(p.b) {
		return nil, p.fail("unexpected end, value expected")
	}
	p.info.nodes++
	c := p.b[p.i]
	switch {
	case c == '{':
		return p.object()
	case c == '[':
		return p.array()
	case c == '"':
		s, err := p.string()
		if err != nil {
			return nil, err
		}
		return &jnode{kind: jStr, str: s}, nil
	case c == '-' || (c >= '0' && c <= '9'):
		return p.number()
	case c == 't':
		return p.word("true", &jnode{kind: jBool, b: true})
	case c == 'f':
		return p.word("false", &jnode{kind: jBool, b: false})
	case c == 'n':
		return p.word("null", &jnode{kind: jNull})
	}
	return nil, p.fail("unexpected byte 0x%02x, value expected", c)
}

func (p *jparser) word(w string, n *jnode) (*jnode, error) {
	if len(p.b)-p.i < len(w) || string(p.b[p.i:p.i+len(w)]) != w {
		return nil, p.fail("bad literal, %q expected", w)
	}
	p.i += len(w)
	return n, nil
}

func (p *jparser) enter() error {
	p.depth++
	if p.depth > p.info.depth {
		p.info.depth = p.depth
	}
	if p.depth > refMaxDepth {
		return p.fail("out of scope: nesting deeper than %d", refMaxDepth)
	}
	return nil
}

func (p *jparser) array() (*jnode, error) {
	if err := p.enter(); err != nil {
		return nil, err
	}
	defer func() { p.depth-- }()
	p.i++ // [
	n := &jnode{kind: jArr, arr: []*jnode{}}
	p.ws()
	if p.i < len(p.b) && p.b[p.i] == ']' {
		p.i++
		return n, nil
	}
	for {
		p.ws()
		v, err := p.value()
		if err != nil {
			return nil, err
		}
		n.arr = append(n.arr, v)
		p.ws()
		if p.i >= len(p.b) {
			return nil, p.fail("unexpected end inside array")
		}
		switch p.b[p.i] {
		case ',':
			p.i++
		case ']':
			p.i++
			return n, nil
		default:
			return nil, p.fail("unexpected byte 0x%02x inside array", p.b[p.i])
		}
	}
}

func (p *jparser) object() (*jnode, error) {
	if err := p.enter(); err != nil {
		return nil, err
	}
	defer func() { p.depth-- }()
	p.i++ // {
	n := &jnode{kind: jObj}
	p.ws()
	if p.i < len(p.b) && p.b[p.i] == '}' {
		p.i++
		return n, nil
	}
	seen := map[string]bool{}
	for {
		p.ws()
		if p.i >= len(p.b) || p.b[p.i] != '"' {
			return nil, p.fail("object key expected")
		}
		k, err := p.string()
		if err != nil {
			return nil, err
		}
		p.ws()
		if p.i >= len(p.b) || p.b[p.i] != ':' {
			return nil, p.fail("':' expected after object key")
		}
		p.i++
		p.ws()
		v, err := p.value()
		if err != nil {
			return nil, err
		}
		if seen[k] {
			p.info.dupKeys++
		}
		seen[k] = true
		for i := 0; i < len(k); i++ {
			if k[i] >= 0x80 {
				p.info.nonASCIIKeys++
				break
			}
		}
		n.keys = append(n.keys, k)
		n.vals = append(n.vals, v)
		p.ws()
		if p.i >= len(p.b) {
			return nil, p.fail("unexpected end inside object")
		}
		switch p.b[p.i] {
		case ',':
			p.i++
		case '}':
			p.i++
			return n, nil
		default:
			return nil, p.fail("unexpected byte 0x%02x inside object", p.b[p.i])
		}
	}
}

func isDigit(c byte) bool { return c >= '0' && c <= '9' }

func (p *jparser) number() (*jnode, error) {
	start := p.i
	if p.b[p.i] == '-' {
		p.i++
	}
	if p.i >= len(p.b) || !isDigit(p.b[p.i]) {
		return nil, p.fail("digit expected in number")
	}
	if p.b[p.i] == '0' {
		p.i++
	} else {
		for p.i < len(p.b) && isDigit(p.b[p.i]) {
			p.i++
		}
	}
	if p.i < len(p.b) && p.b[p.i] == '.' {
		p.i++
		if p.i >= len(p.b) || !isDigit(p.b[p.i]) {
			return nil, p.fail("digit expected after decimal point")
		}
		for p.i < len(p.b) && isDigit(p.b[p.i]) {
			p.i++
		}
	}
	if p.i < len(p.b) && (p.b[p.i] == 'e' || p.b[p.i] == 'E') {
		p.i++
		if p.i < len(p.b) && (p.b[p.i] == '+' || p.b[p.i] == '-') {
			p.i++
		}
		if p.i >= len(p.b) || !isDigit(p.b[p.i]) {
			return nil, p.fail("digit expected in exponent")
		}
		for p.i < len(p.b) && isDigit(p.b[p.i]) {
			p.i++
		}
	}
	// A number must be followed by a structural character, whitespace or the
	// end: "01", "1a", "1.2.3" fail here or at the caller.
	if p.i < len(p.b) {
		switch c := p.b[p.i]; c {
		case ',', ']', '}', 0x20, 0x09, 0x0a, 0x0d:
		default:
			return nil, p.fail("unexpected byte 0x%02x after number", c)
		}
	}
	p.info.numbers++
	return &jnode{kind: jNum, num: string(p.b[start:p.i])}, nil
}

// decodeUTF8 decodes one well-formed UTF-8 sequence (Unicode table 3-7) at
// s[i:].  ok=false means s[i] does not start one.
func decodeUTF8(s []byte, i int) (r rune, size int, ok bool) {
	c0 := s[i]
	cont := func(k int, lo, hi byte) bool {
		return i+k < len(s) && s[i+k] >= lo && s[i+k] <= hi
	}
	switch {
	case c0 < 0x80:
		return rune(c0), 1, true
	case c0 >= 0xc2 && c0 <= 0xdf:
		if cont(1, 0x80, 0xbf) {
			return rune(c0&0x1f)<<6 | rune(s[i+1]&0x3f), 2, true
		}
	case c0 >= 0xe0 && c0 <= 0xef:
		lo, hi := byte(0x80), byte(0xbf)
		if c0 == 0xe0 {
			lo = 0xa0
		}
		if c0 == 0xed {
			hi = 0x9f
		}
		if cont(1, lo, hi) && cont(2, 0x80, 0xbf) {
			return rune(c0&0x0f)<<12 | rune(s[i+1]&0x3f)<<6 | rune(s[i+2]&0x3f), 3, true
		}
	case c0 >= 0xf0 && c0 <= 0xf4:
		lo, hi := byte(0x80), byte(0xbf)
		if c0 == 0xf0 {
			lo = 0x90
		}
		if c0 == 0xf4 {
			hi = 0x8f
		}
		if cont(1, lo, hi) && cont(2, 0x80, 0xbf) && cont(3, 0x80, 0xbf) {
			return rune(c0&0x07)<<18 | rune(s[i+1]&0x3f)<<12 | rune(s[i+2]&0x3f)<<6 | rune(s[i+3]&0x3f), 4, true
		}
	}
	return 0xfffd, 1, false
}

func appendUTF8(b []byte, r rune) []byte {
	switch {
	case r < 0x80:
		return append(b, byte(r))
	case r < 0x800:
		return append(b, 0xc0|byte(r>>6), 0x80|byte(r&0x3f))
	case r < 0x10000:
		return append(b, 0xe0|byte(r>>12), 0x80|byte((r>>6)&0x3f), 0x80|byte(r&0x3f))
	default:
		return append(b, 0xf0|byte(r>>18), 0x80|byte((r>>12)&0x3f), 0x80|byte((r>>6)&0x3f), 0x80|byte(r&0x3f))
	}
}

// normUTF8 replaces every byte that does not start a well-formed sequence by
// U+FFFD (the documented behaviour of the encoder for invalid UTF-8).
func normUTF8(s []byte) (string, int) {
	out := make([]byte, 0, len(s))
	bad := 0
	for i := 0; i < len(s); {
		_, size, ok := decodeUTF8(s, i)
		if ok {
			out = append(out, s[i:i+size]...)
		} else {
			out = append(out, 0xef, 0xbf, 0xbd)
			bad++
		}
		i += size
	}
	return string(out), bad
}

func hexVal(c byte) int {
	switch {
	case c >= '0' && c <= '9':
		return int(c - '0')
	case c >= 'a' && c <= 'f':
		return int(c-'a') + 10
	case c >= 'A' && c <= 'F':
		return int(c-'A') + 10
	}
	return -1
}

// hex4 reads \uXXXX at p.b[at:] (at points at the backslash).
func (p *jparser) hex4(at int) (int, bool) {
	if at+6 > len(p.b) || p.b[at] != '\\' || p.b[at+1] != 'u' {
		return 0, false
	}
	v := 0
	for k := 2; k < 6; k++ {
		h := hexVal(p.b[at+k])
		if h < 0 {
			return 0, false
		}
		v = v<<4 | h
	}
	return v, true
}

func (p *jparser) string() (string, error) {
	p.i++ // opening quote
	p.info.strings++
	out := []byte{}
	for {
		if p.i >= len(p.b) {
			return "", p.fail("unterminated string")
		}
		c := p.b[p.i]
		switch {
		case c == '"':
			p.i++
			return string(out), nil
		case c < 0x20:
			return "", p.fail("raw control character 0x%02x in string", c)
		case c == '\\':
			if p.i+1 >= len(p.b) {
				return "", p.fail("unterminated escape")
			}
			p.info.escapes++
			switch e := p.b[p.i+1]; e {
			case '"', '\\', '/':
				out = append(out, e)
				p.i += 2
			case 'b':
				out = append(out, 0x08)
				p.i += 2
			case 'f':
				out = append(out, 0x0c)
				p.i += 2
			case 'n':
				out = append(out, 0x0a)
				p.i += 2
			case 'r':
				out = append(out, 0x0d)
				p.i += 2
			case 't':
				out = append(out, 0x09)
				p.i += 2
			case 'u':
				v, ok := p.hex4(p.i)
				if !ok {
					return "", p.fail("bad \\u escape")
				}
				p.i += 6
				switch {
				case v >= 0xd800 && v < 0xdc00:
					if lo, ok := p.hex4(p.i); ok && lo >= 0xdc00 && lo < 0xe000 {
						p.i += 6
						p.info.surrPairs++
						out = appendUTF8(out, rune(0x10000+((v-0xd800)<<10)+(lo-0xdc00)))
					} else {
						p.info.loneSurr++
						out = append(out, 0xef, 0xbf, 0xbd)
					}
				case v >= 0xdc00 && v < 0xe000:
					p.info.loneSurr++
					out = append(out, 0xef, 0xbf, 0xbd)
				default:
					out = appendUTF8(out, rune(v))
				}
			default:
				return "", p.fail("bad escape \\%c", e)
			}
		case c < 0x80:
			out = append(out, c)
			p.i++
		default:
			_, size, ok := decodeUTF8(p.b, p.i)
			if ok {
				out = append(out, p.b[p.i:p.i+size]...)
			} else {
				p.info.invalidUTF8++
				out = append(out, 0xef, 0xbf, 0xbd)
			}
			p.i += size
		}
	}
}

// effective returns the object's entries after "last duplicate wins", sorted
// bytewise by key.
func (n *jnode) effective() (keys []string, vals []*jnode) {
	last := map[string]int{}
	for i, k := range n.keys {
		last[k] = i
	}
	keys = make([]string, 0, len(last))
	for k := range last {
		keys = append(keys, k)
	}
	sort.Strings(keys)
	vals = make([]*jnode, len(keys))
	for i, k := range keys {
		vals[i] = n.vals[last[k]]
	}
	return
}

// walkNums visits every number literal; eff reports whether the literal
// survives "last wins".
func (n *jnode) walkNums(eff bool, f func(lit string, eff bool)) {
	switch n.kind {
	case jNum:
		f(n.num, eff)
	case jArr:
		for _, c := range n.arr {
			c.walkNums(eff, f)
		}
	case jObj:
		last := map[string]int{}
		for i, k := range n.keys {
			last[k] = i
		}
		for i, k := range n.keys {
			n.vals[i].walkNums(eff && last[k] == i, f)
		}
	}
}

// ---------------------------------------------------------------------------
// numbers: literal text -> exact rational -> nearest float64 (math/big only)

type numLit struct {
	neg      bool
	intPart  string
	frac     string
	hasFrac  bool
	hasExp   bool
	expNeg   bool
	expDigit string
}

// splitNum splits a literal that already satisfies the JSON number grammar.
func splitNum(lit string) numLit {
	var n numLit
	s := lit
	if strings.HasPrefix(s, "-") {
		n.neg = true
		s = s[1:]
	}
	if i := strings.IndexAny(s, "eE"); i >= 0 {
		n.hasExp = true
		e := s[i+1:]
		s = s[:i]
		if strings.HasPrefix(e, "-") {
			n.expNeg = true
			e = e[1:]
		} else if strings.HasPrefix(e, "+") {
			e = e[1:]
		}
		n.expDigit = e
	}
	if i := strings.IndexByte(s, '.'); i >= 0 {
		n.hasFrac = true
		n.frac = s[i+1:]
		s = s[:i]
	}
	n.intPart = s
	return n
}

// intShaped: written as an integer (no fraction, no exponent).
func (n numLit) intShaped() bool { return !n.hasFrac && !n.hasExp }

const (
	magFinite = iota
	magZero
	magHuge // certainly >= 1e400: overflows float64
	magTiny // certainly <  1e-400: rounds to zero
)

// exact returns the exact magnitude of the literal as a rational (sign is in
// n.neg), or a magnitude class when the value is far outside float64's range.
func (n numLit) exact() (*big.Rat, int) {
	digits := strings.TrimLeft(n.intPart+n.frac, "0")
	if digits == "" {
		return new(big.Rat), magZero
	}
	// decimal exponent with saturation (the exponent itself may have
	// thousands of digits)
	e := strings.TrimLeft(n.expDigit, "0")
	var exp int64
	if len(e) > 8 {
		exp = 1 << 40
	} else {
		for i := 0; i < len(e); i++ {
			exp = exp*10 + int64(e[i]-'0')
		}
	}
	if n.expNeg {
		exp = -exp
	}
	exp -= int64(len(n.frac))
	d := int64(len(digits))
	// 10^(d-1+exp) <= value < 10^(d+exp)
	if d+exp > 400 {
		return nil, magHuge
	}
	if d+exp < -400 {
		return nil, magTiny
	}
	m, _ := new(big.Int).SetString(digits, 10)
	r := new(big.Rat)
	if exp >= 0 {
		m.Mul(m, new(big.Int).Exp(big.NewInt(10), big.NewInt(exp), nil))
		r.SetInt(m)
	} else {
		r.SetFrac(m, new(big.Int).Exp(big.NewInt(10), big.NewInt(-exp), nil))
	}
	return r, magFinite
}

// nearest returns the float64 nearest to the literal (round half to even) and
// whether the literal overflows float64.
func nearestFloat(lit string) (f float64, overflow bool) {
	n := splitNum(lit)
	r, class := n.exact()
	switch class {
	case magZero, magTiny:
		f = 0
	case magHuge:
		return math.Inf(1), true
	default:
		f, _ = r.Float64()
		if math.IsInf(f, 0) {
			return f, true
		}
	}
	if n.neg {
		f = -f
	}
	return f, false
}

// fitsInt64 reports the exact int64 value of an integer-shaped literal.
func fitsInt64(lit string) (int64, bool) {
	z, ok := new(big.Int).SetString(lit, 10)
	if !ok || !z.IsInt64() {
		return 0, false
	}
	return z.Int64(), true
}

var pow10cache = map[int]*big.Int{}

func pow10(k int) *big.Int {
	if v, ok := pow10cache[k]; ok {
		return v
	}
	v := new(big.Int).Exp(big.NewInt(10), big.NewInt(int64(k)), nil)
	pow10cache[k] = v
	return v
}

// scaleRat returns m * 10^e as a rational.
func scaleRat(m *big.Int, e int) *big.Rat {
	if e >= 0 {
		return new(big.Rat).SetInt(new(big.Int).Mul(m, pow10(e)))
	}
	return new(big.Rat).SetFrac(m, pow10(-e))
}

// canonFloatIssue decides whether lit is THE canonical text of the finite
// float x: (1) it denotes a number whose nearest float64 is x (sign of zero
// included); (2) it uses the fewest significant digits of any decimal that
// rounds to x and, among those, is the closest to x; (3) it is laid out by the
// ECMAScript Number::toString rule (positional for 1e-6 <= |x| < 1e21,
// otherwise d.ddde±n with no padding).  Everything is decided with exact
// rational arithmetic; strconv is not consulted.  Returns "" or (key, reason).
func canonFloatIssue(lit string, x float64) (key, reason string) {
	n := splitNum(lit)
	r, class := n.exact()
	if class == magHuge || class == magTiny {
		return "float-value", fmt.Sprintf("literal %s is outside float64's range, want %v", lit, x)
	}
	if x == 0 {
		want := "0"
		if math.Signbit(x) {
			want = "-0"
		}
		if lit != want {
			return "float-zero", fmt.Sprintf("zero written %q, want %q", lit, want)
		}
		return "", ""
	}
	if class == magZero {
		return "float-value", fmt.Sprintf("literal %s denotes zero, want %v", lit, x)
	}
	if n.neg != (x < 0) {
		return "float-value", fmt.Sprintf("literal %s has the wrong sign for %v", lit, x)
	}
	ax := math.Abs(x)
	if f, _ := r.Float64(); f != ax {
		return "float-value", fmt.Sprintf("literal %s reads back as %v, want %v", lit, f, ax)
	}
	// significant digits D (k of them) and ES exponent nn: value = 0.D * 10^nn
	all := n.intPart + n.frac
	lead := len(all) - len(strings.TrimLeft(all, "0"))
	digits := strings.TrimRight(strings.TrimLeft(all, "0"), "0")
	k := len(digits)
	exp := 0
	for _, c := range strings.TrimLeft(n.expDigit, "0") {
		exp = exp*10 + int(c-'0') // bounded: the magnitude class is finite
	}
	if n.expNeg {
		exp = -exp
	}
	nn := len(n.intPart) - lead + exp
	v := new(big.Rat).SetFloat64(ax) // exact
	// (2a) no shorter decimal rounds to x
	if k > 1 {
		e := nn - (k - 1)
		q := new(big.Rat).Quo(v, scaleRat(big.NewInt(1), e))
		lo := new(big.Int).Quo(q.Num(), q.Denom())
		for d := 0; d < 2; d++ {
			c := scaleRat(new(big.Int).Add(lo, big.NewInt(int64(d))), e)
			if f, _ := c.Float64(); f == ax {
				return "float-not-shortest", fmt.Sprintf("literal %s has %d significant digits but a %d-digit decimal (%s) already reads back as %v", lit, k, k-1, c.FloatString(0), ax)
			}
		}
	}
	// (2b) closest among the k-digit decimals that read back as x
	{
		e := nn - k
		q := new(big.Rat).Quo(v, scaleRat(big.NewInt(1), e))
		lo := new(big.Int).Quo(q.Num(), q.Denom())
		dist := new(big.Rat).Sub(r, v)
		dist.Abs(dist)
		for d := 0; d < 2; d++ {
			c := scaleRat(new(big.Int).Add(lo, big.NewInt(int64(d))), e)
			// only decimals that themselves read back as x compete (next to a
			// power of two the nearer k-digit decimal may belong to the
			// neighbouring float)
			if f, _ := c.Float64(); f != ax {
				continue
			}
			cd := new(big.Rat).Sub(c, v)
			cd.Abs(cd)
			if cd.Cmp(dist) < 0 {
				return "float-not-closest", fmt.Sprintf("literal %s is not the %d-digit decimal closest to %v", lit, k, ax)
			}
			// exact tie between two k-digit decimals: the even one is canonical
			if cd.Cmp(dist) == 0 && c.Cmp(r) != 0 && new(big.Int).Add(lo, big.NewInt(int64(d))).Bit(0) == 0 {
				return "float-tie-not-even", fmt.Sprintf("literal %s and %s are equally close to %v; the canonical choice is the even one", lit, c.FloatString(20), ax)
			}
		}
	}
	// (3) layout
	want := esLayout(x < 0, digits, nn)
	if lit != want {
		return "float-format", fmt.Sprintf("float %v written %q, canonical layout is %q", x, lit, want)
	}
	return "", ""
}

// esLayout renders digits (no leading/trailing zeros) with value 0.D*10^n by
// the ECMAScript Number::toString rule.
func esLayout(neg bool, digits string, n int) string {
	k := len(digits)
	var b strings.Builder
	if neg {
		b.WriteByte('-')
	}
	switch {
	case k <= n && n <= 21:
		b.WriteString(digits)
		b.WriteString(strings.Repeat("0", n-k))
	case 0 < n && n <= 21:
		b.WriteString(digits[:n])
		b.WriteByte('.')
		b.WriteString(digits[n:])
	case -6 < n && n <= 0:
		b.WriteString("0.")
		b.WriteString(strings.Repeat("0", -n))
		b.WriteString(digits)
	default:
		b.WriteString(digits[:1])
		if k > 1 {
			b.WriteByte('.')
			b.WriteString(digits[1:])
		}
		b.WriteByte('e')
		e := n - 1
		if e < 0 {
			b.WriteByte('-')
			e = -e
		} else {
			b.WriteByte('+')
		}
		b.WriteString(fmt.Sprint(e))
	}
	return b.String()
}

// isCanonicalFloatText: lit (integer shaped) is exactly the canonical text of
// the float it rounds to.
func isCanonicalFloatText(lit string) bool {
	f, over := nearestFloat(lit)
	if over {
		return false
	}
	k, _ := canonFloatIssue(lit, f)
	return k == ""
}

// refCanonical writes the reference tree in a canonical layout (sorted
// effective keys, no whitespace, numbers as their literal text, strings as
// hex) -- used to compare two parses and as the NonTrivial key.
func (n *jnode) canon(b *strings.Builder) {
	switch n.kind {
	case jNull:
		b.WriteString("null")
	case jBool:
		fmt.Fprint(b, n.b)
	case jNum:
		b.WriteString("#" + n.num)
	case jStr:
		fmt.Fprintf(b, "%q", n.str)
	case jArr:
		b.WriteByte('[')
		for i, c := range n.arr {
			if i > 0 {
				b.WriteByte(',')
			}
			c.canon(b)
		}
		b.WriteByte(']')
	case jObj:
		b.WriteByte('{')
		ks, vs := n.effective()
		for i := range ks {
			if i > 0 {
				b.WriteByte(',')
			}
			fmt.Fprintf(b, "%q:", ks[i])
			vs[i].canon(b)
		}
		b.WriteByte('}')
	}
}
