// Generators for C13: model values and JSON documents.  All randomness comes
// from rapid draws.
package c13

import (
	"math"
	"strconv"
	"strings"

	"github.com/luthersystems/elps/lisp"
	"github.com/luthersystems/elps/verifharness/gen"
	"pgregory.net/rapid"
)

// ---------- scalars ----------

func genInt() *rapid.Generator[int64] {
	return rapid.OneOf(
		gen.GenInt(),
		rapid.Custom(func(t *rapid.T) int64 {
			base := rapid.SampledFrom([]int64{
				1 << 53, -(1 << 53), 1 << 62, -(1 << 62), math.MaxInt64, math.MinInt64,
				1000000000000000, 10000000000000000, 100000000000000000, 1000000000000000000,
				999999999999999999, 9007199254740993, 4611686018427387904, 1 << 31, 1 << 32,
			}).Draw(t, "base")
			d := rapid.Int64Range(-3, 3).Draw(t, "d")
			if (d > 0 && base > math.MaxInt64-d) || (d < 0 && base < math.MinInt64-d) {
				return base
			}
			return base + d
		}),
	)
}

func ulps(f float64, n int) float64 {
	for ; n > 0; n-- {
		f = math.Nextafter(f, math.Inf(1))
	}
	for ; n < 0; n++ {
		f = math.Nextafter(f, math.Inf(-1))
	}
	if math.IsInf(f, 0) || math.IsNaN(f) {
		return 0
	}
	return f
}

func genFloat() *rapid.Generator[float64] {
	sign := func(t *rapid.T, f float64) float64 {
		if rapid.IntRange(0, 3).Draw(t, "neg") == 0 {
			return -f
		}
		return f
	}
	return rapid.OneOf(
		gen.GenFiniteFloat(),
		// powers of ten around both format switches, +- a few ulps
		rapid.Custom(func(t *rapid.T) float64 {
			k := rapid.SampledFrom([]int{-10, -9, -8, -7, -7, -6, -6, -5, -4, -1, 0, 1, 15, 16, 17, 18, 19, 20, 20, 21, 21, 22, 22, 23, 25, 100, 308, -308, -323}).Draw(t, "k")
			f, _ := strconv.ParseFloat("1e"+strconv.Itoa(k), 64)
			return sign(t, ulps(f, rapid.IntRange(-3, 3).Draw(t, "u")))
		}),
		// integral floats around 2^53 .. 2^70
		rapid.Custom(func(t *rapid.T) float64 {
			k := rapid.IntRange(50, 70).Draw(t, "k")
			f := math.Ldexp(1, k)
			return sign(t, ulps(f, rapid.IntRange(-3, 3).Draw(t, "u")))
		}),
		// short decimals m * 10^e near the switches
		rapid.Custom(func(t *rapid.T) float64 {
			m := rapid.Int64Range(1, 99999).Draw(t, "m")
			e := rapid.SampledFrom([]int{-12, -11, -10, -9, -8, -7, -6, -5, -4, 15, 16, 17, 18, 19, 20, 21, 22}).Draw(t, "e")
			f, _ := strconv.ParseFloat(strconv.FormatInt(m, 10)+"e"+strconv.Itoa(e), 64)
			return sign(t, f)
		}),
		// integers converted to float (the integral-float / exact-integers overlap)
		rapid.Custom(func(t *rapid.T) float64 { return float64(genInt().Draw(t, "i")) }),
		// subnormals and the largest values
		rapid.Custom(func(t *rapid.T) float64 {
			return sign(t, rapid.SampledFrom([]float64{5e-324, 1e-323, 2.2250738585072014e-308, 2.225073858507201e-308, math.MaxFloat64, 1.7976931348623155e308, 8.98846567431158e307}).Draw(t, "f"))
		}),
	)
}

var strPieces = []string{
	"\"", "\\", "/", "<", ">", "&", "'", "\x7f", "\u2028", "\u2029", "\u00a0", "\ud7ff", "\ue000", "\ufffd", "\ufffe", "\uffff",
	"\U00010000", "\U0010ffff", "\U0001f600", "é", "ß", "日本", "\ufeff",
	"\xed\xa0\x80", "\xed\xbf\xbf", "\xc0\x80", "\xc1\xbf", "\xe0\x80\x80", "\xf0\x80\x80\x80", "\xf4\x90\x80\x80", "\xf5", "\xff", "\xfe", "\x80", "\xbf", "\xe2\x82", "\xf0\x9f\x98", "\xc3",
	"\\u0041", "\\n", "\\", "\\\"", "a", "b", "abc", " ", "0", "1e5", "true", "null", "{}", "[", ":", ",",
}

func genString() *rapid.Generator[string] {
	return rapid.OneOf(
		gen.GenBytesString(),
		rapid.Custom(func(t *rapid.T) string {
			n := rapid.IntRange(1, 4).Draw(t, "n")
			var b strings.Builder
			for i := 0; i < n; i++ {
				if rapid.IntRange(0, 3).Draw(t, "ctl") == 0 {
					b.WriteByte(byte(rapid.IntRange(0, 0x1f).Draw(t, "c")))
				} else {
					b.WriteString(rapid.SampledFrom(strPieces).Draw(t, "p"))
				}
			}
			return b.String()
		}),
	)
}

var keyPool = []string{"a", "b", "c", "k1", "id", "name", "", "A", "aa", "ab", "a b", "0", "10", "9", "-1", "true", "null", "z",
	"\uff61", "\U00010000", "\uffff", "\ufffd", "\ufffe", "é", "e\u0301", "a\x00", "a\x00b", "\x00", "\"", "\\", "a\"b", "\u2028", "<k>", "a/b"}

var badKeyPool = []string{"\xff", "\xfe", "a\xff", "\xef\xbf", "\xed\xa0\x80", "\xc0\x80", "\x80", "\xf5x"}

// genKey draws a map key.  allowBad (decided once per map, for ~3 % of maps)
// admits keys that are not valid UTF-8: that class runs into the known
// finding dump/key-order-after-utf8-replacement and is kept rare so that it
// does not mask the load-back half of the oracle.
func genKey(t *rapid.T, allowBad bool) MKey {
	k := MKey{Sym: rapid.IntRange(0, 9).Draw(t, "sym") < 4}
	switch c := rapid.IntRange(0, 49).Draw(t, "kc"); {
	case c < 12 && allowBad:
		k.B = []byte(rapid.SampledFrom(badKeyPool).Draw(t, "bad"))
	case c < 30:
		k.B = []byte(rapid.SampledFrom(keyPool).Draw(t, "pool"))
	case c < 42:
		k.B = []byte(gen.GenIdent().Draw(t, "ident"))
	default:
		k.B = []byte(genString().Draw(t, "str"))
		if len(k.B) > 40 {
			k.B = k.B[:40]
		}
		// keep invalid UTF-8 in keys to the dedicated 2 % class
		if _, bad := normUTF8(k.B); bad > 0 {
			s, _ := normUTF8(k.B)
			k.B = []byte(s)
		}
	}
	return k
}

func genScalar(t *rapid.T) MV {
	switch c := rapid.IntRange(0, 24).Draw(t, "scalar"); {
	case c < 2:
		return MV{K: "nil"}
	case c < 4:
		return MV{K: "bool", B: rapid.Bool().Draw(t, "b")}
	case c < 11:
		return MV{K: "int", I: genInt().Draw(t, "i")}
	case c < 19:
		return MV{K: "float", FB: math.Float64bits(genFloat().Draw(t, "f"))}
	default:
		return MV{K: "str", S: []byte(genString().Draw(t, "s"))}
	}
}

func genMV(t *rapid.T, depth int, budget *int, spine bool) MV {
	*budget--
	if depth <= 0 || *budget <= 0 {
		return genScalar(t)
	}
	c := rapid.IntRange(0, 19).Draw(t, "kind")
	if spine && c < 8 {
		c = 8 + c%12 // a spine forces a container at every level
	}
	width := func() int {
		if spine {
			return rapid.IntRange(1, 2).Draw(t, "w")
		}
		if rapid.IntRange(0, 9).Draw(t, "wide") == 0 {
			return rapid.IntRange(7, 12).Draw(t, "w")
		}
		return rapid.IntRange(0, 5).Draw(t, "w")
	}
	switch {
	case c < 8:
		return genScalar(t)
	case c < 13:
		n := width()
		m := MV{K: "vec", L: make([]MV, n)}
		for i := range m.L {
			m.L[i] = genMV(t, depth-1, budget, spine && i == 0)
		}
		return m
	case c < 16:
		n := width()
		m := MV{K: "list", L: make([]MV, n)}
		for i := range m.L {
			m.L[i] = genMV(t, depth-1, budget, spine && i == 0)
		}
		return m
	default:
		n := width()
		m := MV{K: "map", L: make([]MV, n), MK: make([]MKey, n)}
		allowBad := rapid.IntRange(0, 29).Draw(t, "badkeys") == 0
		for i := range m.L {
			m.MK[i] = genKey(t, allowBad)
			m.L[i] = genMV(t, depth-1, budget, spine && i == 0)
		}
		return m
	}
}

// finite run-time expressions (indexes into rtExprs)
func genFiniteExpr(t *rapid.T) MV {
	return MV{K: "expr", I: int64(rapid.IntRange(rtNaNLast+1, len(rtExprs)-1).Draw(t, "expr"))}
}

// wrap nests inner under `levels` containers of mixed kinds.
func wrap(t *rapid.T, inner MV, levels int) MV {
	kinds := rapid.SampledFrom([]string{"mixed", "vec", "map", "list"}).Draw(t, "wrapkind")
	for i := 0; i < levels; i++ {
		k := kinds
		if k == "mixed" {
			k = rapid.SampledFrom([]string{"vec", "map", "list"}).Draw(t, "wk")
		}
		switch k {
		case "map":
			inner = MV{K: "map", L: []MV{inner}, MK: []MKey{{B: []byte("k"), Sym: i%3 == 0}}}
		default:
			inner = MV{K: k, L: []MV{inner}}
		}
	}
	return inner
}

// genDeepMV: one branch nested around the encoder's guard depth (64) or far
// past it, next to shallow members that hold numbers.
func genDeepMV(t *rapid.T) MV {
	if rapid.IntRange(0, 15).Draw(t, "verydeep") == 7 {
		return genVeryDeepMV(t)
	}
	levels := rapid.OneOf(rapid.IntRange(58, 70), rapid.IntRange(61, 66), rapid.IntRange(100, 130)).Draw(t, "levels")
	budget := 8
	leaf := MV{K: "vec", L: []MV{genScalar(t), {K: "int", I: genInt().Draw(t, "li")}, {K: "float", FB: math.Float64bits(genFloat().Draw(t, "lf"))}}}
	if rapid.IntRange(0, 3).Draw(t, "leafk") == 0 {
		leaf = genMV(t, 2, &budget, false)
	}
	deep := wrap(t, leaf, levels)
	sib := func(label string) MV {
		switch rapid.IntRange(0, 3).Draw(t, label) {
		case 0:
			return MV{K: "int", I: genInt().Draw(t, label+"i")}
		case 1:
			return MV{K: "float", FB: math.Float64bits(genFloat().Draw(t, label+"f"))}
		case 2:
			return genFiniteExpr(t)
		}
		return genScalar(t)
	}
	switch rapid.IntRange(0, 3).Draw(t, "top") {
	case 0:
		return MV{K: "map", L: []MV{sib("s1"), deep, sib("s2")}, MK: []MKey{{B: []byte("id")}, {B: []byte("deep"), Sym: true}, {B: []byte("ratio")}}}
	case 1:
		return MV{K: "vec", L: []MV{sib("s1"), deep, sib("s2")}}
	case 2:
		return MV{K: "list", L: []MV{deep, sib("s1")}}
	}
	return deep
}

func genValueCase() *rapid.Generator[ValueCase] {
	return rapid.Custom(func(t *rapid.T) ValueCase {
		depth := rapid.SampledFrom([]int{0, 0, 1, 1, 2, 2, 2, 3, 3, 3, 4, 5, 6, 8}).Draw(t, "depth")
		spine := depth >= 4 && rapid.Bool().Draw(t, "spine")
		budget := 45
		var v MV
		switch k := rapid.IntRange(0, 23).Draw(t, "shape"); {
		case k == 13: // (rapid favours the ends of a range; keep the costly shapes in the middle)
			v = genDeepMV(t)
		case k == 11:
			// a float computed at run time, at top level or inside a container
			v = genFiniteExpr(t)
			if rapid.Bool().Draw(t, "nest") {
				v = MV{K: "vec", L: []MV{genScalar(t), v}}
			}
		default:
			v = genMV(t, depth, &budget, spine)
		}
		return ValueCase{
			V:         v,
			DumpSN:    rapid.IntRange(0, 3).Draw(t, "dump_sn") == 0,
			LoadSN:    rapid.IntRange(0, 3).Draw(t, "load_sn") == 0,
			LoadEI:    rapid.Bool().Draw(t, "load_ei"),
			Bytes:     rapid.Bool().Draw(t, "bytes"),
			OmitFalse: rapid.Bool().Draw(t, "omit_false"),
			ViaEval:   rapid.IntRange(0, 4).Draw(t, "via_eval") == 0,
		}
	})
}

// ---------- documents ----------

var wsPool = []string{"", "", "", "", " ", " ", "\n", "\t", "\r\n", "  ", " \n\t"}

func ws(t *rapid.T) string { return rapid.SampledFrom(wsPool).Draw(t, "ws") }

var intLits = []string{
	"0", "1", "9", "10", "42", "255", "9007199254740991", "9007199254740992", "9007199254740993", "9007199254740995",
	"9223372036854775806", "9223372036854775807", "9223372036854775808", "9223372036854775809", "9223372036854776000",
	"9223372036854777856", "18446744073709551615", "18446744073709551616", "18446744073709552000",
	"10000000000000000000", "10000000000000000001", "100000000000000000000", "999999999999999999999",
	"1000000000000000000000", "1000000000000000000001", "123456789012345678901234567890", "4611686018427387904", "4611686018427388000",
	"12345678901234567890", "12345678901234567000", "20000000000000000000", "99999999999999999999", "100000000000000000000000",
}

var fracLits = []string{"0", "5", "50", "000", "1", "25", "000001", "0000001", "123456789012345678", "999999999999999999999", "10"}

var expLits = []string{"0", "1", "2", "5", "7", "10", "15", "16", "19", "20", "21", "22", "100", "300", "307", "308", "309", "310", "323", "324", "325", "400", "007", "00", "1000", "99999999999", "4294967296", "18446744073709551616"}

var wholeNums = []string{
	"-0", "0", "-0.0", "0.0", "0e0", "-0e-0", "0E+0", "1e21", "1e+21", "1E21", "1e-7", "1e-07", "1e-6", "0.000001", "0.0000001",
	"1.7976931348623157e308", "1.7976931348623158e308", "1.7976931348623159e308", "1.797693134862315807e308", "1e308", "1e309", "-1e309", "2e308",
	"4.9e-324", "5e-324", "2.4703282292062327e-324", "2.4703282292062328e-324", "2.5e-324", "1e-400", "-1e-400", "1e400", "-1e400",
	"100e7", "1000000000", "1.0", "1.5", "1e2", "123456789.123456789e-5", "0.1", "0.30000000000000004", "9007199254740993.0", "9007199254740993e0",
	"9223372036854775808.0", "1e19", "1E+19", "-9223372036854775808", "-9223372036854775809", "-10000000000000000000", "-9223372036854775807",
	"0.00000000000000000000000000000000000000000000000000000000000000000000000000001e77",
	"100000000000000000000000000000000000000000000000000000000000000000000000000000e-77",
}

// genNumber draws a syntactically valid number literal.
func genNumber(t *rapid.T) string {
	switch c := rapid.IntRange(0, 9).Draw(t, "numk"); {
	case c < 2:
		return rapid.SampledFrom(wholeNums).Draw(t, "whole")
	case c < 3:
		// canonical text of a float >= 2^63 (the :exact-integers exception),
		// sometimes perturbed so that it is not canonical any more
		k := rapid.IntRange(63, 69).Draw(t, "k")
		f := ulps(math.Ldexp(1, k)*(1+float64(rapid.IntRange(0, 1000).Draw(t, "m"))/1000), rapid.IntRange(-2, 2).Draw(t, "u"))
		s := strconv.FormatFloat(f, 'f', -1, 64)
		if rapid.IntRange(0, 2).Draw(t, "perturb") == 0 {
			b := []byte(s)
			pos := rapid.IntRange(0, len(b)-1).Draw(t, "pos")
			b[pos] = byte('0' + rapid.IntRange(0, 9).Draw(t, "digit"))
			if b[0] == '0' {
				b[0] = '1'
			}
			s = string(b)
		}
		if rapid.IntRange(0, 4).Draw(t, "neg") == 0 {
			s = "-" + s
		}
		return s
	}
	var b strings.Builder
	if rapid.IntRange(0, 3).Draw(t, "neg") == 0 {
		b.WriteByte('-')
	}
	switch rapid.IntRange(0, 5).Draw(t, "ik") {
	case 0, 1, 2:
		b.WriteString(rapid.SampledFrom(intLits).Draw(t, "il"))
	case 3:
		b.WriteString("0")
	default:
		n := rapid.IntRange(1, 40).Draw(t, "nd")
		if rapid.IntRange(0, 2).Draw(t, "short") > 0 {
			n = rapid.IntRange(1, 6).Draw(t, "nds")
		}
		b.WriteByte(byte('1' + rapid.IntRange(0, 8).Draw(t, "d0")))
		for i := 1; i < n; i++ {
			b.WriteByte(byte('0' + rapid.IntRange(0, 9).Draw(t, "d")))
		}
	}
	if rapid.IntRange(0, 2).Draw(t, "frac") == 0 {
		b.WriteByte('.')
		if rapid.Bool().Draw(t, "fpool") {
			b.WriteString(rapid.SampledFrom(fracLits).Draw(t, "fl"))
		} else {
			n := rapid.IntRange(1, 20).Draw(t, "nf")
			for i := 0; i < n; i++ {
				b.WriteByte(byte('0' + rapid.IntRange(0, 9).Draw(t, "fd")))
			}
		}
	}
	if rapid.IntRange(0, 2).Draw(t, "exp") == 0 {
		b.WriteString(rapid.SampledFrom([]string{"e", "E"}).Draw(t, "e"))
		b.WriteString(rapid.SampledFrom([]string{"", "+", "-"}).Draw(t, "es"))
		b.WriteString(rapid.SampledFrom(expLits).Draw(t, "el"))
	}
	return b.String()
}

var docStrSegs = []string{
	"a", "b", "key", "value", " ", "é", "日本", "\U0001f600", "\u2028", "\u00a0", "\x7f", "/", "'", "<>&",
	`\"`, `\\`, `\/`, `\b`, `\f`, `\n`, `\r`, `\t`, `\u0000`, `\u001f`, `\u0041`, `\u00e9`, `\u00E9`, `\u2028`, `\u2029`, `\uFFFF`, `\ufffd`, `\uFeFf`,
	`\ud83d\ude00`, `\uD83D\uDE00`, `\ud800\udc00`, `\udbff\udfff`,
}

var docLenientSegs = []string{
	`\ud800`, `\udc00`, `\ud83d`, `\ude00\ud83d`, `\ud800\u0041`, `\ud800\ud800\udc00`, `\udfff`, `\ud800a`, `\ud800\n`,
	"\xff", "\x80", "\xc3", "\xe2\x82", "\xed\xa0\x80", "\xc0\xaf", "\xf4\x90\x80\x80",
}

func genDocString(t *rapid.T, lenient bool) string {
	var b strings.Builder
	b.WriteByte('"')
	n := rapid.IntRange(0, 4).Draw(t, "segs")
	for i := 0; i < n; i++ {
		if lenient && rapid.IntRange(0, 2).Draw(t, "len") == 0 {
			b.WriteString(rapid.SampledFrom(docLenientSegs).Draw(t, "lseg"))
		} else {
			b.WriteString(rapid.SampledFrom(docStrSegs).Draw(t, "seg"))
		}
	}
	b.WriteByte('"')
	return b.String()
}

var docKeys = []string{`"a"`, `"b"`, `"c"`, `"a"`, `"\u0061"`, `""`, `"id"`, `"A"`, `"ab"`, `"a b"`, `"\u00e9"`, `"é"`, `"\ud83d\ude00"`, `"z\n"`, `"0"`, `"\uff61"`, `"\ud800\udc00"`}

type docOpts struct {
	lenient bool // lone surrogates / raw invalid UTF-8 allowed
	dups    bool // keys drawn from a small pool so that duplicates happen
	numeric bool // mostly numbers
	force   bool // the top levels are containers
	simpleNums bool // numbers every mode accepts (no overflow, no range error)
}

var simpleNums = []string{"0", "1", "-1", "42", "1.5", "-0", "1e2", "2.5e-3", "9007199254740993", "9223372036854775807", "10000000000000000000", "0.1", "1E+2", "123456789.125"}

func genDocValue(t *rapid.T, depth int, budget *int, o docOpts, b *strings.Builder) {
	*budget--
	c := rapid.IntRange(0, 19).Draw(t, "vk")
	if depth <= 0 || *budget <= 0 {
		c = c % 10
	} else if o.force && c < 10 {
		c += 10
	}
	o.force = o.force && depth > 4
	if o.numeric && c < 10 && c%2 == 0 {
		c = 4
	}
	switch {
	case c < 1:
		b.WriteString("null")
	case c < 2:
		b.WriteString("true")
	case c < 3:
		b.WriteString("false")
	case c < 7:
		if o.simpleNums {
			b.WriteString(rapid.SampledFrom(simpleNums).Draw(t, "snum"))
		} else {
			b.WriteString(genNumber(t))
		}
	case c < 10:
		b.WriteString(genDocString(t, o.lenient))
	case c < 15:
		b.WriteByte('[')
		b.WriteString(ws(t))
		n := rapid.IntRange(0, 5).Draw(t, "n")
		for i := 0; i < n; i++ {
			if i > 0 {
				b.WriteString(ws(t) + "," + ws(t))
			}
			genDocValue(t, depth-1, budget, o, b)
		}
		b.WriteString(ws(t))
		b.WriteByte(']')
	default:
		b.WriteByte('{')
		b.WriteString(ws(t))
		n := rapid.IntRange(0, 5).Draw(t, "n")
		for i := 0; i < n; i++ {
			if i > 0 {
				b.WriteString(ws(t) + "," + ws(t))
			}
			if o.dups || rapid.Bool().Draw(t, "poolkey") {
				b.WriteString(rapid.SampledFrom(docKeys).Draw(t, "key"))
			} else {
				b.WriteString(genDocString(t, o.lenient))
			}
			b.WriteString(ws(t) + ":" + ws(t))
			genDocValue(t, depth-1, budget, o, b)
		}
		b.WriteString(ws(t))
		b.WriteByte('}')
	}
}

func genValidDoc(t *rapid.T) []byte {
	o := docOpts{
		lenient: rapid.IntRange(0, 3).Draw(t, "lenient") == 0,
		dups:    rapid.IntRange(0, 3).Draw(t, "dups") == 0,
		numeric: rapid.IntRange(0, 3).Draw(t, "numeric") == 0,
	}
	depth := rapid.SampledFrom([]int{0, 1, 1, 2, 2, 2, 3, 3, 4, 6, 8}).Draw(t, "depth")
	o.force = rapid.IntRange(0, 9).Draw(t, "force") < 6
	budget := 30
	var b strings.Builder
	b.WriteString(ws(t))
	genDocValue(t, depth, &budget, o, &b)
	b.WriteString(ws(t))
	return []byte(b.String())
}

var nearMiss = []string{
	",", ":", "[", "]", "{", "}", "\"", "'", "'a'", "\"a", "a\"", "tru", "True", "TRUE", "fals", "nul", "NULL", "None", "nil", "undefined",
	"NaN", "Infinity", "-Infinity", "+1", "-", "--1", "01", "-01", "00", "1.", ".5", "-.5", "1.e5", "1e", "1e+", "1e-", "1E", "0x10", "1_000", "1,5",
	"1e1.5", "1.2.3", "1ee5", "١", "\"\\x41\"", "\"\\u12\"", "\"\\u12G4\"", "\"\\U0041\"", "\"\\a\"", "\"\\'\"", "\"\\\"", "\"\n\"", "\"\t\"", "\"\x00\"", "\"\x1f\"",
	"/*c*/", "//c\n", "#c\n", "\ufeff", "\x00", "\x0c", "\x0b", "\u00a0", "\u2028", "\xff", "\x80", " ", "\n", "null", "1", "\"s\"", "[]", "{}", "[1,]", "[,1]", "{\"a\":1,}", "{\"a\"}", "{\"a\":}", "{a:1}", "{1:2}", "{\"a\" 1}", "[1 2]", "[1;2]",
}

func mutateDoc(t *rapid.T, b []byte) []byte {
	n := rapid.IntRange(1, 2).Draw(t, "muts")
	for i := 0; i < n; i++ {
		switch op := rapid.IntRange(0, 9).Draw(t, "op"); {
		case op == 0: // trailing data
			b = append(append([]byte{}, b...), rapid.SampledFrom([]string{"x", " 1", ",", "]", "}", " null", "\x00", "//c", " {}", "\"", "0", " \ufeff", "\n[]"}).Draw(t, "trail")...)
		case op == 1: // leading junk
			b = append([]byte(rapid.SampledFrom([]string{"\ufeff", ",", "\x00", "x", "]", "\x0c", "//c\n", "+"}).Draw(t, "lead")), b...)
		case op == 2 && len(b) > 0: // truncate
			b = append([]byte{}, b[:rapid.IntRange(0, len(b)-1).Draw(t, "cut")]...)
		case op == 3 && len(b) > 0: // delete one byte
			pos := rapid.IntRange(0, len(b)-1).Draw(t, "pos")
			b = append(append([]byte{}, b[:pos]...), b[pos+1:]...)
		case op == 4 && len(b) > 0: // replace one byte
			b = append([]byte{}, b...)
			b[rapid.IntRange(0, len(b)-1).Draw(t, "pos")] = rapid.Byte().Draw(t, "byte")
		case op == 5: // comma before a closing bracket / doubled comma
			idx := []int{}
			for i, c := range b {
				if c == ']' || c == '}' || c == ',' {
					idx = append(idx, i)
				}
			}
			if len(idx) > 0 {
				pos := rapid.SampledFrom(idx).Draw(t, "at")
				b = append(append(append([]byte{}, b[:pos]...), ','), b[pos:]...)
			}
		case op == 6: // swap quote style / case of a literal
			s := string(b)
			from, to := "\"", "'"
			switch rapid.IntRange(0, 3).Draw(t, "swap") {
			case 1:
				from, to = "true", "True"
			case 2:
				from, to = "null", "NULL"
			case 3:
				from, to = ":", "="
			}
			b = []byte(strings.Replace(s, from, to, 1))
		default: // insert a near-miss lexeme
			pos := rapid.IntRange(0, len(b)).Draw(t, "pos")
			lex := rapid.SampledFrom(nearMiss).Draw(t, "lex")
			b = append(append(append([]byte{}, b[:pos]...), lex...), b[pos:]...)
		}
	}
	return b
}

func genDocBytes(t *rapid.T) []byte {
	switch c := rapid.IntRange(0, 22).Draw(t, "dock"); {
	case c == 10:
		// one deep branch (around and far past the encoder's guard depth of
		// 64, which the re-dump of the loaded value crosses) next to shallow
		// members holding numbers
		n := rapid.OneOf(rapid.IntRange(58, 70), rapid.IntRange(100, 130)).Draw(t, "levels")
		open, cl := "[", "]"
		if rapid.Bool().Draw(t, "objs") {
			open, cl = `{"k":`, "}"
		}
		deep := strings.Repeat(open, n) + "[" + genNumber(t) + "," + genDocString(t, false) + "]" + strings.Repeat(cl, n)
		return []byte(`{"id":` + genNumber(t) + `,"deep":` + deep + `,"ratio":` + genNumber(t) + `}`)
	case c >= 20:
		// crafted shapes around numbers that fail: shadowed by a duplicate
		// key, two different failures in one container
		tmpl := rapid.SampledFrom([]string{`{"a":%s,"a":%s}`, `{"a":%s,"b":%s}`, `[%s,%s]`, `{"a":[%s],"a":{"b":%s}}`, `{"k":{"a":%s,"a":%s}}`,
			`{"a":9223372036854775808,"b":%s,"a":%s}`, `{"k":[{"x":[123456789012345678901234567890],"y":%s,"x":%s}]}`}).Draw(t, "tmpl")
		num := func(label string) string {
			switch rapid.IntRange(0, 5).Draw(t, label) {
			case 0:
				return "1"
			case 1, 2, 3:
				return rapid.SampledFrom(intLits).Draw(t, label+"i")
			case 4:
				return rapid.SampledFrom([]string{"1e400", "-1e999", "2e308", "1.5", "\"s\"", "null"}).Draw(t, label+"o")
			}
			return genNumber(t)
		}
		return []byte(strings.Replace(strings.Replace(tmpl, "%s", num("n1"), 1), "%s", num("n2"), 1))
	case c < 7:
		return genValidDoc(t)
	case c < 15: // (c == 10 is taken above)
		return mutateDoc(t, genValidDoc(t))
	case c < 17:
		// token soup
		n := rapid.IntRange(1, 8).Draw(t, "n")
		var b strings.Builder
		for i := 0; i < n; i++ {
			if rapid.IntRange(0, 3).Draw(t, "num") == 0 {
				b.WriteString(genNumber(t))
			} else {
				b.WriteString(rapid.SampledFrom(nearMiss).Draw(t, "lex"))
			}
			b.WriteString(ws(t))
		}
		return []byte(b.String())
	case c < 18:
		// a lone number, valid or nearly so
		s := genNumber(t)
		if rapid.IntRange(0, 2).Draw(t, "mut") == 0 {
			return mutateDoc(t, []byte(s))
		}
		return []byte(ws(t) + s + ws(t))
	case c < 19:
		// a dumped model value, possibly damaged
		budget := 20
		m := genMV(t, 3, &budget, false)
		v, pan := getElps().call("json:dump-string", m.toLVal())
		if pan != "" || v == nil || v.Type != lisp.LString {
			return []byte("null")
		}
		if rapid.Bool().Draw(t, "mut") {
			return mutateDoc(t, []byte(v.Str))
		}
		return []byte(v.Str)
	default:
		return rapid.SliceOfN(rapid.Byte(), 0, 24).Draw(t, "bytes")
	}
}

func genDocCase() *rapid.Generator[DocCase] {
	return rapid.Custom(func(t *rapid.T) DocCase {
		var doc []byte
		if rapid.IntRange(0, 399).Draw(t, "limitdoc") == 200 {
			doc = genLimitDoc(t)
		} else {
			doc = genDocBytes(t)
		}
		return DocCase{
			Doc:       doc,
			SN:        rapid.IntRange(0, 3).Draw(t, "sn") == 0,
			EI:        rapid.Bool().Draw(t, "ei"),
			Bytes:     rapid.Bool().Draw(t, "bytes"),
			OmitFalse: rapid.Bool().Draw(t, "omit_false"),
		}
	})
}

// ---------- non-finite floats ----------

func genNonFiniteLeaf(t *rapid.T, kind int) MV {
	// kind 0 -inf, 1 +inf, 2 nan; half host-built, half computed at run time
	if rapid.Bool().Draw(t, "host") {
		f := []float64{math.Inf(-1), math.Inf(1), math.NaN()}[kind]
		return MV{K: "float", FB: math.Float64bits(f)}
	}
	lo, hi := 0, rtNegInfLast
	switch kind {
	case 1:
		lo, hi = rtNegInfLast+1, rtPosInfLast
	case 2:
		lo, hi = rtPosInfLast+1, rtNaNLast
	}
	return MV{K: "expr", I: int64(rapid.IntRange(lo, hi).Draw(t, "expr"))}
}

// plant replaces the idx-th scalar leaf (pre-order) of m by leaf.
func plant(m *MV, idx *int, leaf MV) bool {
	switch m.K {
	case "vec", "list", "map":
		for i := range m.L {
			if plant(&m.L[i], idx, leaf) {
				return true
			}
		}
		return false
	}
	if *idx == 0 {
		*m = leaf
		return true
	}
	*idx--
	return false
}

func countLeaves(m MV) int {
	switch m.K {
	case "vec", "list", "map":
		n := 0
		for _, c := range m.L {
			n += countLeaves(c)
		}
		return n
	}
	return 1
}

func genNonFiniteCase() *rapid.Generator[NonFiniteCase] {
	return rapid.Custom(func(t *rapid.T) NonFiniteCase {
		kind := rapid.SampledFrom([]int{0, 0, 1, 2}).Draw(t, "kind")
		leaf := genNonFiniteLeaf(t, kind)
		var v MV
		switch shape := rapid.IntRange(0, 9).Draw(t, "shape"); {
		case shape < 2:
			v = leaf
		case shape < 3:
			v = wrap(t, MV{K: "vec", L: []MV{{K: "int", I: 1}, leaf}}, rapid.SampledFrom([]int{1, 2, 30, 62, 63, 64, 65, 110}).Draw(t, "levels"))
		default:
			budget := 25
			v = genMV(t, rapid.IntRange(1, 4).Draw(t, "depth"), &budget, rapid.Bool().Draw(t, "spine"))
			n := countLeaves(v)
			if n == 0 {
				v = MV{K: "vec", L: []MV{v, leaf}}
			} else {
				idx := rapid.IntRange(0, n-1).Draw(t, "at")
				plant(&v, &idx, leaf)
				if rapid.IntRange(0, 3).Draw(t, "second") == 0 && n > 1 {
					idx = rapid.IntRange(0, n-1).Draw(t, "at2")
					plant(&v, &idx, genNonFiniteLeaf(t, kind))
				}
			}
		}
		// the planted leaf may sit under a map key that a later entry sets
		// again; make sure the value really holds a non-finite float
		if !holdsPlanted(v) {
			v = MV{K: "vec", L: []MV{v, leaf}}
		}
		return NonFiniteCase{
			V:         v,
			SN:        rapid.Bool().Draw(t, "sn"),
			OmitFalse: rapid.Bool().Draw(t, "omit_false"),
			ViaEval:   rapid.IntRange(0, 3).Draw(t, "via_eval") == 0,
		}
	})
}

// holdsPlanted: a non-finite leaf (host bits or a non-finite expr index) is
// reachable through effective map entries.
func holdsPlanted(m MV) bool {
	switch m.K {
	case "float":
		f := m.F()
		return math.IsNaN(f) || math.IsInf(f, 0)
	case "expr":
		return m.I <= rtNaNLast
	case "map":
		_, vals := m.entries()
		for _, c := range vals {
			if holdsPlanted(c) {
				return true
			}
		}
		return false
	}
	for _, c := range m.L {
		if holdsPlanted(c) {
			return true
		}
	}
	return false
}
