// C13: JSON encoding and decoding are faithful, canonical and mutually
// consistent.  See NOTES.md for the oracle and its soundness notes.
package c13

import (
	"encoding/json"
	"os"
	"testing"

	"github.com/luthersystems/elps/verifharness/vcommon"
)

func TestCheck(t *testing.T) {
	vcommon.Main(t, "C13",
		vcommon.S("value", 280000, 8400000, genValueCase(), checkValue),
		vcommon.S("doc", 512000, 15360000, genDocCase(), checkDoc),
		vcommon.S("shared", 32000, 960000, genSharedCase(), checkValue),
		vcommon.S("nonfinite", 32000, 960000, genNonFiniteCase(), checkNonFinite),
		vcommon.S("defaults", 64000, 1920000, genDefCase(), checkDefaults),
		vcommon.S("mutate", 48000, 1440000, genMutCase(), checkMutate),
		vcommon.S("refself", 48000, 1600000, genRefCase(), checkRefSelf),
		vcommon.S("refpy", 64, 1920, genPyCase(), checkRefPy),
	)
}

// knownKeys reads the known-finding keys for C13 (native fuzz leg only; the
// rapid legs get them through vcommon).
func knownKeys() map[string]bool {
	out := map[string]bool{}
	p := os.Getenv("VERIF_KNOWN")
	if p == "" {
		return out
	}
	b, err := os.ReadFile(p)
	if err != nil {
		return out
	}
	var kf struct {
		Findings []vcommon.KnownFinding `json:"findings"`
	}
	if json.Unmarshal(b, &kf) == nil {
		for _, f := range kf.Findings {
			if f.Property == "C13" && f.Status == "known" {
				out[f.Key] = true
			}
		}
	}
	return out
}

// FuzzJSONDoc: native coverage-guided fuzzing of json:load-* with the same
// oracle as the "doc" sub-property inside the target.
func FuzzJSONDoc(f *testing.F) {
	seeds := []string{
		`{"a":1,"b":[true,false,null,"xé😀"],"a":2}`, `9223372036854775808`, `10000000000000000000`, `-0`, `1e400`, `[1e400,99999999999999999999]`,
		`{"a":1e400,"b":99999999999999999999}`, `"\ud800"`, "\"\xff\"", `[1,]`, `01`, `1.`, `.5`, `+1`, `nul`, ``, ` `, `1 2`, `[1]]`, "\ufeff1", `{"a":1}x`, `"a` + "\n" + `"`,
		`1e-400`, `2.4703282292062328e-324`, `1.7976931348623159e308`, `123456789012345678901234567890`, `{"a":1,"a":2}`, `[[[[[[[[[[1]]]]]]]]]]`, `{"":{"":{"":[]}}}`,
		`4611686018427388000`, `-9223372036854775809`, `0.1e1`, `1E+2`, `"  "`, `NaN`, `Infinity`, `'a'`, `{a:1}`, "1\x00", "\"\x00\"",
	}
	for _, s := range seeds {
		for mode := uint8(0); mode < 4; mode++ {
			f.Add([]byte(s), mode)
		}
	}
	known := knownKeys()
	f.Fuzz(func(t *testing.T, doc []byte, mode uint8) {
		if len(doc) > 4096 {
			return
		}
		dc := DocCase{Doc: doc, SN: mode&1 != 0, EI: mode&2 != 0, Bytes: mode&4 != 0, OmitFalse: mode&8 != 0}
		if fl := checkDoc(dc, nil); fl != nil && !known[fl.Key] {
			b, _ := json.Marshal(dc)
			t.Fatalf("[%s] %s\ncase: %s", fl.Key, fl.Msg, b)
		}
	})
}
