// C13 (a)+(b): model values -> json:dump-* -> refjson -> compare; then
// json:load-* of the dumped document under every flag combination.
package c13

import (
	"bytes"
	"fmt"
	"math"
	"math/big"
	"sort"
	"strings"
	"sync"

	"github.com/luthersystems/elps/lisp"
	"github.com/luthersystems/elps/verifharness/vcommon"
)

// ---------- model ----------

// MV is the JSON-serialisable model of a "JSON-representable" lisp value.
type MV struct {
	// nil | bool | int | float | str | vec | list | map | expr (I indexes rtExprs:
	// a float computed by the interpreter at run time) | ref (I indexes the
	// case's Defs: ONE object wherever it is referenced; B = the occurrence is a
	// fresh header made by LVal.Copy() over the same storage) | chain (L[0]
	// nested under I containers, innermost first, kinds taken cyclically from
	// the letters of S: v vector, l list, m map under the string key "k", y map
	// under the symbol key k -- a compact spelling, so that a 10 000-deep case
	// still fits a replay file).  See shared_test.go.
	K  string `json:"k"`
	B  bool   `json:"b,omitempty"`
	I  int64  `json:"i,omitempty"`
	FB uint64 `json:"fb,omitempty"` // float64 bits
	S  []byte `json:"s,omitempty"`  // string bytes (arbitrary)
	L  []MV   `json:"l,omitempty"`  // elements, or map values
	MK []MKey `json:"mk,omitempty"` // map keys, parallel to L (insertion order; later wins)
}

type MKey struct {
	B   []byte `json:"b"`
	Sym bool   `json:"sym,omitempty"` // inserted as a symbol key
}

func (m MV) F() float64 { return math.Float64frombits(m.FB) }

// rtExprs are float-valued programs; an "expr" leaf of a model is the float
// the interpreter computes for one of them at run time.
var rtExprs = []string{
	"(* -1e308 10.0)", "(/ -1.0 0.0)", "(- (* 1e308 10.0))", // -Inf
	"(* 1e308 10.0)", "(/ 1.0 0.0)", // +Inf
	"(- (* 1e308 10.0) (* 1e308 10.0))", "(* 0.0 (/ 1.0 0.0))", // NaN
	"(* -1.0 0.0)", "(/ -1.0 (* 1e308 10.0))", "(- 0.0)", // -0.0 (the last one may be +0: whatever the interpreter says)
	"(* 5e-324 3.0)", "(/ 1e-310 10.0)", "(/ 2.2250738585072014e-308 2.0)", "(* -5e-324 1.0)", // subnormals
	"(/ 1.0 3.0)", "(* 1e21 1.0)", "(/ 1e21 10.0)", "(* 1e-7 10.0)", "(+ 9007199254740992.0 2.0)", "(* 1.7976931348623157e308 1.0)",
}

const (
	rtNegInfLast = 2
	rtPosInfLast = 4
	rtNaNLast    = 6
)

// resolve replaces every expr leaf by the float the interpreter computes for
// it (model side).  A program that does not yield a float is a harness error.
func (m MV) resolve(e *elps) (MV, *vcommon.Failure) { return m.resolveIn(e, nil) }

// resolveIn additionally expands ref and chain nodes: the result is the plain
// TREE the value denotes (JSON has no sharing), which is what every oracle
// works on.
func (m MV) resolveIn(e *elps, defs []MV) (MV, *vcommon.Failure) {
	switch m.K {
	case "ref":
		if m.I < 0 || int(m.I) >= len(defs) {
			return m, vcommon.Failf("selfcheck/bad-ref", "ref %d outside the %d definitions", m.I, len(defs))
		}
		// a definition only refers to EARLIER definitions: acyclic by construction
		return defs[m.I].resolveIn(e, defs[:m.I])
	case "chain":
		if len(m.L) != 1 || len(m.S) == 0 || m.I < 0 {
			return m, vcommon.Failf("selfcheck/bad-chain", "malformed chain node")
		}
		inner, f := m.L[0].resolveIn(e, defs)
		if f != nil {
			return m, f
		}
		for i := 0; i < int(m.I); i++ {
			inner = chainLevel(m.S[i%len(m.S)], inner)
		}
		return inner, nil
	}
	if m.K == "expr" {
		v := e.evalExpr(int(m.I))
		if v == nil || v.Type != lisp.LFloat {
			return m, vcommon.Failf("selfcheck/rt-expr", "%s does not evaluate to a float: %v", rtExprs[m.I], v)
		}
		return MV{K: "float", FB: math.Float64bits(v.Float)}, nil
	}
	if len(m.L) == 0 {
		return m, nil
	}
	out := m
	out.L = make([]MV, len(m.L))
	for i := range m.L {
		c, f := m.L[i].resolveIn(e, defs)
		if f != nil {
			return m, f
		}
		out.L[i] = c
	}
	return out, nil
}

func (m MV) depth() int {
	d := 0
	for _, c := range m.L {
		if x := c.depth(); x > d {
			d = x
		}
	}
	switch m.K {
	case "vec", "list", "map":
		return d + 1
	}
	return d
}

// toLVal builds the value with the Go constructors only.
func (m MV) toLVal() *lisp.LVal { return (&builder{}).build(m) }

// builder builds a value whose ref nodes all denote ONE object per
// definition (built on first use).
type builder struct {
	defs []MV
	memo []*lisp.LVal
}

func newBuilder(defs []MV) *builder { return &builder{defs: defs, memo: make([]*lisp.LVal, len(defs))} }

func (b *builder) build(m MV) *lisp.LVal {
	switch m.K {
	case "ref":
		if b.memo[m.I] == nil {
			b.memo[m.I] = (&builder{defs: b.defs[:m.I], memo: b.memo[:m.I]}).build(b.defs[m.I])
		}
		if m.B {
			// a second header over the same storage (vector cells, map data);
			// a list is copied cell by cell, its vectors and maps are not
			return b.memo[m.I].Copy()
		}
		return b.memo[m.I]
	case "chain":
		v := b.build(m.L[0])
		for i := 0; i < int(m.I); i++ {
			switch m.S[i%len(m.S)] {
			case 'v':
				v = lisp.Array(nil, []*lisp.LVal{v})
			case 'l':
				v = lisp.QExpr([]*lisp.LVal{v})
			default:
				sm := lisp.SortedMap()
				k := lisp.String("k")
				if m.S[i%len(m.S)] == 'y' {
					k = lisp.Symbol("k")
				}
				if r := sm.MapSet(k, v); r.Type == lisp.LError {
					panic("model map set: " + r.String())
				}
				v = sm
			}
		}
		return v
	case "nil":
		return lisp.Nil()
	case "bool":
		return lisp.Bool(m.B)
	case "int":
		return lisp.Int(int(m.I))
	case "float":
		return lisp.Float(m.F())
	case "expr":
		// the very LVal the interpreter produced, not a re-built one
		return getElps().evalExpr(int(m.I))
	case "str":
		return lisp.String(string(m.S))
	case "vec", "list":
		cells := make([]*lisp.LVal, len(m.L))
		for i := range m.L {
			cells[i] = b.build(m.L[i])
		}
		if m.K == "vec" {
			return lisp.Array(nil, cells)
		}
		return lisp.QExpr(cells)
	case "map":
		sm := lisp.SortedMap()
		for i, k := range m.MK {
			var kv *lisp.LVal
			if k.Sym {
				kv = lisp.Symbol(string(k.B))
			} else {
				kv = lisp.String(string(k.B))
			}
			if r := sm.MapSet(kv, b.build(m.L[i])); r.Type == lisp.LError {
				panic("model map set: " + r.String())
			}
		}
		return sm
	}
	panic("bad model kind " + m.K)
}

// entries returns the map's effective entries: later insertion wins, sorted
// bytewise by the raw key name (string and symbol spellings share identity).
func (m MV) entries() (keys [][]byte, vals []MV) {
	last := map[string]int{}
	for i, k := range m.MK {
		last[string(k.B)] = i
	}
	names := make([]string, 0, len(last))
	for k := range last {
		names = append(names, k)
	}
	sort.Strings(names)
	for _, k := range names {
		keys = append(keys, []byte(k))
		vals = append(vals, m.L[last[k]])
	}
	return
}

// normLVal is the value json can represent faithfully: lists become vectors
// (the empty list is nil), invalid UTF-8 becomes U+FFFD; symbol keys are kept
// (equal? identifies map keys by name).
func (m MV) normLVal() *lisp.LVal {
	switch m.K {
	case "str":
		s, _ := normUTF8(m.S)
		return lisp.String(s)
	case "vec", "list":
		if m.K == "list" && len(m.L) == 0 {
			return lisp.Nil()
		}
		cells := make([]*lisp.LVal, len(m.L))
		for i := range m.L {
			cells[i] = m.L[i].normLVal()
		}
		return lisp.Array(nil, cells)
	case "map":
		sm := lisp.SortedMap()
		for i, k := range m.MK {
			s, _ := normUTF8(k.B)
			var kv *lisp.LVal
			if k.Sym {
				kv = lisp.Symbol(s)
			} else {
				kv = lisp.String(s)
			}
			sm.MapSet(kv, m.L[i].normLVal())
		}
		return sm
	}
	return m.toLVal()
}

func (m MV) canon(b *strings.Builder) {
	switch m.K {
	case "nil":
		b.WriteString("nil")
	case "bool":
		fmt.Fprint(b, m.B)
	case "int":
		fmt.Fprintf(b, "i%d", m.I)
	case "float":
		fmt.Fprintf(b, "f%x", m.FB)
	case "expr":
		fmt.Fprintf(b, "e%d", m.I)
	case "ref":
		fmt.Fprintf(b, "r%d/%v", m.I, m.B)
	case "chain":
		fmt.Fprintf(b, "chain%d%s(", m.I, m.S)
		m.L[0].canon(b)
		b.WriteByte(')')
	case "str":
		fmt.Fprintf(b, "%q", m.S)
	case "vec", "list":
		b.WriteString(m.K + "[")
		for _, c := range m.L {
			c.canon(b)
			b.WriteByte(' ')
		}
		b.WriteByte(']')
	case "map":
		b.WriteString("{")
		for i, k := range m.MK {
			fmt.Fprintf(b, "%q/%v:", k.B, k.Sym)
			m.L[i].canon(b)
			b.WriteByte(' ')
		}
		b.WriteString("}")
	}
}

// cls wraps the evidence context so that a class label is counted once per
// case, however many nodes of the case carry it.
type cls struct {
	ctx  *vcommon.Ctx
	seen map[string]bool
}

func newCls(ctx *vcommon.Ctx) *cls { return &cls{ctx: ctx, seen: map[string]bool{}} }

func (c *cls) Class(name string) {
	if c == nil || c.seen[name] {
		return
	}
	c.seen[name] = true
	c.ctx.Class(name)
}
func (c *cls) NonTrivial(key string) {
	if c != nil {
		c.ctx.NonTrivial(key)
	}
}
func (c *cls) Note(s string) {
	if c != nil {
		c.ctx.Note(s)
	}
}

// ---------- the interpreter ----------

type elps struct {
	rt  *vcommon.Rt
	env *lisp.LEnv
	fn  map[string]*lisp.LVal
}

var (
	elpsOnce sync.Once
	elpsInst *elps
)

func newElps() *elps {
	rt := vcommon.NewRuntime(vcommon.Cfg{})
	e := &elps{rt: rt, env: rt.Env, fn: map[string]*lisp.LVal{}}
	for _, name := range []string{"json:dump-string", "json:dump-bytes", "json:dump-message", "json:message-bytes", "json:load-string", "json:load-bytes", "json:load-message", "equal?", "append!", "assoc!", "dissoc!"} {
		f := rt.Env.GetFun(lisp.Symbol(name))
		if f.Type != lisp.LFun {
			panic(fmt.Sprintf("cannot look up %s: %v", name, f))
		}
		e.fn[name] = f
	}
	return e
}

func getElps() *elps {
	elpsOnce.Do(func() { elpsInst = newElps() })
	return elpsInst
}

// call invokes a looked-up function through the real interpreter
// (LEnv.FunCall).  A Go panic is returned as text, never propagated.
func (e *elps) call(name string, args ...*lisp.LVal) (res *lisp.LVal, pan string) {
	defer func() {
		if r := recover(); r != nil {
			pan = fmt.Sprint(r)
		}
	}()
	return e.env.FunCall(e.fn[name], lisp.SExpr(args)), ""
}

// evalExpr evaluates rtExprs[i] in the interpreter (a fresh evaluation per
// call: the float is computed at run time).
func (e *elps) evalExpr(i int) *lisp.LVal {
	if i < 0 || i >= len(rtExprs) {
		return nil
	}
	return e.env.LoadString("c13-expr.lisp", rtExprs[i])
}

// callEval binds the first argument as a global and evaluates a source form
// (the path a program takes).
func (e *elps) callEval(name string, arg *lisp.LVal, kws string) (res *lisp.LVal, pan string) {
	defer func() {
		if r := recover(); r != nil {
			pan = fmt.Sprint(r)
		}
	}()
	if r := e.env.PutGlobal(lisp.Symbol("c13-arg"), arg); r.Type == lisp.LError {
		return r, ""
	}
	return e.env.LoadString("c13.lisp", "("+name+" c13-arg"+kws+")"), ""
}

type flag struct {
	name string
	on   bool
}

// invoke calls fn(arg, keywords...).  omitFalse leaves a false keyword out
// instead of passing `false` explicitly; viaEval goes through source text.
func (e *elps) invoke(fn string, arg *lisp.LVal, omitFalse, viaEval bool, flags ...flag) (*lisp.LVal, string) {
	if viaEval {
		var kws strings.Builder
		for _, f := range flags {
			if f.on {
				kws.WriteString(" :" + f.name + " true")
			} else if !omitFalse {
				kws.WriteString(" :" + f.name + " false")
			}
		}
		return e.callEval(fn, arg, kws.String())
	}
	args := []*lisp.LVal{arg}
	for _, f := range flags {
		if f.on {
			args = append(args, lisp.Symbol(":"+f.name), lisp.Bool(true))
		} else if !omitFalse {
			args = append(args, lisp.Symbol(":"+f.name), lisp.Bool(false))
		}
	}
	return e.call(fn, args...)
}

// outcome of one interpreter call
type result struct {
	v    *lisp.LVal
	err  bool
	cond string
	msg  string
}

func observe(op string, v *lisp.LVal, pan string) (result, *vcommon.Failure) {
	if pan != "" {
		return result{}, vcommon.Failf("go-panic/"+op, "%s panicked in Go: %s", op, pan)
	}
	if v == nil {
		return result{}, vcommon.Failf("nil-result/"+op, "%s returned a nil *LVal", op)
	}
	if v.Type == lisp.LError {
		if lisp.IsInternalPanic(v) {
			return result{}, vcommon.Failf("internal-panic/"+op, "%s recovered a Go panic: %s", op, (*lisp.ErrorVal)(v).ErrorMessage())
		}
		return result{v: v, err: true, cond: v.Str, msg: (*lisp.ErrorVal)(v).ErrorMessage()}, nil
	}
	return result{v: v}, nil
}

// ---------- (a) dumped document vs model ----------

type dumpCtx struct {
	sn       bool
	c        *cls
	deferred *vcommon.Failure // key-order hazard caused by U+FFFD substitution in keys
}

func intText(i int64) string { return big.NewInt(i).String() }

// cmpDump compares the reference parse of the dumped document with the model.
func (d *dumpCtx) cmpDump(m MV, n *jnode, path string) *vcommon.Failure {
	mismatch := func(want string) *vcommon.Failure {
		return vcommon.Failf("dump/kind", "%s: dumped as JSON %v, model is %s", path, n.kind, want)
	}
	switch m.K {
	case "nil":
		if n.kind != jNull {
			return mismatch("nil")
		}
	case "bool":
		if n.kind != jBool {
			return mismatch("bool")
		}
		if n.b != m.B {
			return vcommon.Failf("dump/bool", "%s: dumped %v want %v", path, n.b, m.B)
		}
	case "int":
		want := intText(m.I)
		got, kind := n.num, jNum
		if d.sn {
			got, kind = n.str, jStr
		}
		if n.kind != kind {
			return mismatch(fmt.Sprintf("int (string-numbers=%v)", d.sn))
		}
		if got != want {
			return vcommon.Failf("dump/int-text", "%s: int %d dumped as %q want %q", path, m.I, got, want)
		}
	case "float":
		got, kind := n.num, jNum
		if d.sn {
			got, kind = n.str, jStr
			// the string must itself be a JSON number literal
			if n.kind == jStr {
				if nn, _, err := refParse([]byte(got)); err != nil || nn.kind != jNum {
					return vcommon.Failf("dump/float-sn-text", "%s: float %v dumped under :string-numbers as %q which is not a number literal", path, m.F(), got)
				}
			}
		}
		if n.kind != kind {
			return mismatch(fmt.Sprintf("float (string-numbers=%v)", d.sn))
		}
		if key, why := canonFloatIssue(got, m.F()); key != "" {
			return vcommon.Failf("dump/"+key, "%s: %s", path, why)
		}
	case "str":
		if n.kind != jStr {
			return mismatch("string")
		}
		want, _ := normUTF8(m.S)
		if n.str != want {
			return vcommon.Failf("dump/string", "%s: string %q dumped so that it reads back as %q (want %q)", path, m.S, n.str, want)
		}
	case "list", "vec":
		if m.K == "list" && len(m.L) == 0 {
			if n.kind != jNull {
				return mismatch("the empty list (nil)")
			}
			return nil
		}
		if n.kind != jArr {
			return mismatch(m.K)
		}
		if len(n.arr) != len(m.L) {
			return vcommon.Failf("dump/array-len", "%s: %d elements dumped, model has %d", path, len(n.arr), len(m.L))
		}
		for i := range m.L {
			if f := d.cmpDump(m.L[i], n.arr[i], pIdx(path, i)); f != nil {
				return f
			}
		}
	case "map":
		if n.kind != jObj {
			return mismatch("sorted-map")
		}
		keys, vals := m.entries()
		if len(n.keys) != len(keys) {
			return vcommon.Failf("dump/object-len", "%s: %d members dumped, map has %d entries (dumped keys %q)", path, len(n.keys), len(keys), n.keys)
		}
		hazard := false
		for i := range keys {
			want, bad := normUTF8(keys[i])
			if bad > 0 {
				d.c.Class("lenient_zone/invalid-utf8-key")
			}
			if n.keys[i] != want {
				return vcommon.Failf("dump/object-key", "%s: member %d has key %q want %q (map keys %q)", path, i, n.keys[i], want, keys)
			}
			if i > 0 {
				prev, _ := normUTF8(keys[i-1])
				if !(prev < want) {
					hazard = true
				}
			}
		}
		for i := 1; i < len(n.keys); i++ {
			if !(n.keys[i-1] < n.keys[i]) {
				f := vcommon.Failf("dump/key-order", "%s: object keys not strictly sorted: %q then %q", path, n.keys[i-1], n.keys[i])
				if hazard {
					f = vcommon.Failf("dump/key-order-after-utf8-replacement",
						"%s: map keys %q are distinct and sorted, but after the encoder replaces invalid UTF-8 by U+FFFD the document carries keys %q, which are not strictly sorted (duplicate or out of order)", path, keys, n.keys)
					if d.deferred == nil {
						d.deferred = f
					}
					break
				}
				return f
			}
		}
		for i := range vals {
			if f := d.cmpDump(vals[i], n.vals[i], pKey(path, keys[i])); f != nil {
				return f
			}
		}
	default:
		panic("bad kind")
	}
	return nil
}

// ---------- (b) expected value of load(dump(v)) ----------

type ev struct {
	kind  string // nil bool int float str arr map
	b     bool
	i     int64
	f     float64
	s     string
	elems []ev
	keys  []string
}

// expectLoad derives the value load must return for the dumped document n of
// model m.  n has already been checked against m, so float literals in n are
// the canonical texts.
func expectLoad(m MV, n *jnode, dumpSN, loadSN, loadEI bool) ev {
	switch m.K {
	case "nil":
		return ev{kind: "nil"}
	case "bool":
		return ev{kind: "bool", b: m.B}
	case "str":
		return ev{kind: "str", s: n.str}
	case "int":
		switch {
		case dumpSN || loadSN:
			return ev{kind: "str", s: intText(m.I)}
		case loadEI:
			return ev{kind: "int", i: m.I}
		}
		// nearest float64 of the integer, by exact rational arithmetic
		f, _ := new(big.Rat).SetInt64(m.I).Float64()
		return ev{kind: "float", f: f}
	case "float":
		if dumpSN {
			return ev{kind: "str", s: n.str}
		}
		if loadSN {
			return ev{kind: "str", s: n.num}
		}
		if loadEI {
			nl := splitNum(n.num)
			if nl.intShaped() && n.num != "-0" {
				if i, ok := fitsInt64(n.num); ok {
					return ev{kind: "int", i: i}
				}
				// canonical float text that does not fit an int: stays a float
			}
		}
		return ev{kind: "float", f: m.F()}
	case "list", "vec":
		if m.K == "list" && len(m.L) == 0 {
			return ev{kind: "nil"}
		}
		e := ev{kind: "arr", elems: make([]ev, len(m.L))}
		for i := range m.L {
			e.elems[i] = expectLoad(m.L[i], n.arr[i], dumpSN, loadSN, loadEI)
		}
		return e
	case "map":
		_, vals := m.entries()
		e := ev{kind: "map"}
		for i := range vals {
			e.keys = append(e.keys, n.keys[i])
			e.elems = append(e.elems, expectLoad(vals[i], n.vals[i], dumpSN, loadSN, loadEI))
		}
		return e
	}
	panic("bad kind")
}

// cmpLoaded compares a value returned by json:load-* with the expectation:
// exact types, exact ints, exact float bits.
func cmpLoaded(e ev, v *lisp.LVal, path string) string {
	if v == nil {
		return path + ": nil *LVal"
	}
	switch e.kind {
	case "nil":
		if !v.IsNil() {
			return fmt.Sprintf("%s: got %s want nil", path, describe(v))
		}
	case "bool":
		if v.Type != lisp.LSymbol || (v.Str != "true" && v.Str != "false") || (v.Str == "true") != e.b {
			return fmt.Sprintf("%s: got %s want boolean %v", path, describe(v), e.b)
		}
	case "int":
		if v.Type != lisp.LInt || int64(v.Int) != e.i {
			return fmt.Sprintf("%s: got %s want int %d", path, describe(v), e.i)
		}
	case "float":
		if v.Type != lisp.LFloat || math.Float64bits(v.Float) != math.Float64bits(e.f) {
			return fmt.Sprintf("%s: got %s want float %s", path, describe(v), vcommon.FloatCanon(e.f))
		}
	case "str":
		if v.Type != lisp.LString || v.Str != e.s {
			return fmt.Sprintf("%s: got %s want string %q", path, describe(v), e.s)
		}
	case "arr":
		if v.Type != lisp.LArray || len(v.Cells) != 2 || v.Cells[0].Len() != 1 {
			return fmt.Sprintf("%s: got %s want a vector of %d", path, describe(v), len(e.elems))
		}
		cells := v.Cells[1].Cells
		if dim := v.Cells[0].Cells[0]; dim.Type != lisp.LInt || dim.Int != len(cells) {
			return fmt.Sprintf("%s: vector dimension %v disagrees with its %d cells", path, dim, len(cells))
		}
		if len(cells) != len(e.elems) {
			return fmt.Sprintf("%s: vector of %d want %d", path, len(cells), len(e.elems))
		}
		for i := range cells {
			if d := cmpLoaded(e.elems[i], cells[i], pIdx(path, i)); d != "" {
				return d
			}
		}
	case "map":
		if v.Type != lisp.LSortMap {
			return fmt.Sprintf("%s: got %s want a sorted-map", path, describe(v))
		}
		ents := v.MapEntries()
		if ents.Type == lisp.LError {
			return fmt.Sprintf("%s: map entries: %v", path, ents)
		}
		if len(ents.Cells) != len(e.keys) || v.Map().Len() != len(e.keys) {
			return fmt.Sprintf("%s: map with %d entries (Len %d) want %d: %s", path, len(ents.Cells), v.Map().Len(), len(e.keys), describe(v))
		}
		for i, p := range ents.Cells {
			if len(p.Cells) != 2 || p.Cells[0].Type != lisp.LString || p.Cells[0].Str != e.keys[i] {
				return fmt.Sprintf("%s: entry %d has key %s want %q", path, i, describe(p.Cells[0]), e.keys[i])
			}
			if d := cmpLoaded(e.elems[i], p.Cells[1], pKey(path, e.keys[i])); d != "" {
				return d
			}
		}
	}
	return ""
}

func describe(v *lisp.LVal) string {
	s := vcommon.Canon(v)
	if len(s) > 200 {
		s = s[:200] + "..."
	}
	return fmt.Sprintf("%v %s", v.Type, s)
}

// ---------- the value case ----------

type ValueCase struct {
	V         MV   `json:"v"`
	Defs      []MV `json:"defs,omitempty"` // objects that ref nodes denote; Defs[i] refers only to Defs[j], j < i
	DumpSN    bool `json:"dump_sn"`    // :string-numbers on the dump
	LoadSN    bool `json:"load_sn"`    // :string-numbers on the load
	LoadEI    bool `json:"load_ei"`    // :exact-integers on the load
	Bytes     bool `json:"bytes"`      // primary path is dump-bytes/load-bytes
	OmitFalse bool `json:"omit_false"` // false keywords omitted instead of passed
	ViaEval   bool `json:"via_eval"`   // call through source text + global binding
}

func dumpedBytes(r result, bytesFn bool) ([]byte, string) {
	if bytesFn {
		if r.v.Type != lisp.LBytes {
			return nil, "json:dump-bytes returned " + describe(r.v)
		}
		return append([]byte{}, r.v.Bytes()...), ""
	}
	if r.v.Type != lisp.LString {
		return nil, "json:dump-string returned " + describe(r.v)
	}
	return []byte(r.v.Str), ""
}

func classifyValue(m MV, c *cls) (interesting bool) {
	switch m.K {
	case "int":
		if m.I >= 1<<53 || m.I <= -(1<<53) {
			c.Class("int-beyond-2^53")
			interesting = true
		}
	case "float":
		a := math.Abs(m.F())
		switch {
		case a == 0 && math.Signbit(m.F()):
			c.Class("float-neg-zero")
			interesting = true
		case a >= 1e-7 && a <= 1e-5:
			c.Class("float-boundary-1e-6")
			interesting = true
		case a >= 1e20 && a <= 1e22:
			c.Class("float-boundary-1e21")
			interesting = true
		case a >= 9007199254740992 && a < 1e20:
			c.Class("float-integral-beyond-2^53")
			if a >= 9223372036854775808 {
				c.Class("float-integral-beyond-2^63")
			}
			interesting = true
		case a != 0 && (a < 1e-7 || a > 1e22):
			c.Class("float-exponent-form")
		case a == math.Trunc(a):
			c.Class("float-integral")
		}
	case "str":
		if needsEscape(m.S, c) {
			interesting = true
		}
	case "list":
		c.Class("has-list")
	case "vec":
		c.Class("has-vector")
	case "map":
		c.Class("has-map")
		seen := map[string]bool{}
		for _, k := range m.MK {
			if k.Sym {
				c.Class("map-symbol-key")
			}
			if seen[string(k.B)] {
				c.Class("map-key-set-twice")
			}
			seen[string(k.B)] = true
			if needsEscape(k.B, nil) {
				c.Class("map-key-needs-escape")
				interesting = true
			}
		}
	}
	for _, ch := range m.L {
		if classifyValue(ch, c) {
			interesting = true
		}
	}
	return
}

func needsEscape(s []byte, c *cls) bool {
	esc := false
	if _, bad := normUTF8(s); bad > 0 {
		c.Class("lenient_zone/invalid-utf8-string")
		esc = true
	}
	if bytes.Contains(s, []byte("\u2028")) || bytes.Contains(s, []byte("\u2029")) {
		c.Class("str-u2028")
		esc = true
	}
	for _, b := range s {
		if b < 0x20 {
			c.Class("str-control")
			esc = true
			break
		}
	}
	if bytes.ContainsAny(s, "\"\\") {
		c.Class("str-quote-backslash")
		esc = true
	}
	if bytes.ContainsAny(s, "<>&") {
		c.Class("str-html")
		esc = true
	}
	for i := 0; i < len(s); {
		r, size, ok := decodeUTF8(s, i)
		if ok && r >= 0x10000 {
			c.Class("str-astral")
			break
		}
		i += size
	}
	return esc
}

func checkValue(vc ValueCase, ctx *vcommon.Ctx) *vcommon.Failure {
	c := newCls(ctx)
	e := getElps()
	raw := vc.V // may hold expr leaves; mk() uses the interpreter's own floats
	m, rf := raw.resolveIn(e, vc.Defs)
	if rf != nil {
		return rf
	}
	// mk builds a fresh value; all ref nodes of one build share their object
	mk := func() *lisp.LVal { return newBuilder(vc.Defs).build(raw) }
	shared := classifyShared(raw, vc.Defs, c)
	if hasExpr(raw) {
		c.Class("float-computed-at-run-time")
	}
	if k := nonFiniteKind(m); k != "" {
		return vcommon.Failf("selfcheck/nonfinite-in-value-case", "value case holds a %s float; those belong to the nonfinite sub-property", k)
	}
	interesting := classifyValue(m, c)
	if d := m.depth(); d >= 2 {
		c.Class("depth>=2")
		interesting = true
		if d >= 64 {
			c.Class("depth>=64 (encoder guard depth)")
		}
		if d >= 100 {
			c.Class("depth>=100")
		}
		if d >= 1000 {
			c.Class("depth>=1000")
		}
		if d >= decoderMaxDepth-10 && d <= decoderMaxDepth {
			c.Class("depth within 10 of the decoder's nesting limit (10000)")
		}
		if d > decoderMaxDepth {
			c.Class("limit_zone/value nested deeper than the decoder's limit (10000)")
		}
	}
	docDepth := m.depth()
	c.Class(fmt.Sprintf("mode/dumpSN=%v,loadSN=%v,loadEI=%v", vc.DumpSN, vc.LoadSN, vc.LoadEI))
	if vc.Bytes {
		c.Class("path/bytes")
	} else {
		c.Class("path/string")
	}
	if interesting {
		var b strings.Builder
		m.canon(&b)
		c.NonTrivial(fmt.Sprintf("%s|%v%v%v%v", b.String(), vc.DumpSN, vc.LoadSN, vc.LoadEI, vc.Bytes))
	}

	dumpFn, otherDump := "json:dump-string", "json:dump-bytes"
	loadFn := "json:load-string"
	if vc.Bytes {
		dumpFn, otherDump = otherDump, dumpFn
		loadFn = "json:load-bytes"
	}
	// (a) dump: twice through the primary path, once through the other one,
	// once through json:dump-message + json:message-bytes
	// For values with shared parts and for deep ones a fifth dump goes through
	// the VERY object the first dump was given (a dump must leave neither the
	// value nor anything else behind), and that object is compared with the
	// model afterwards.
	again := shared || docDepth >= 40
	var docs [5][]byte
	var first *lisp.LVal
	for i := 0; i < 5; i++ {
		if i == 4 && !again {
			docs[4] = docs[0]
			break
		}
		fn, isBytes := dumpFn, vc.Bytes
		if i == 2 {
			fn, isBytes = otherDump, !vc.Bytes
		}
		if i == 3 {
			fn, isBytes = "json:dump-message", true
		}
		// a fresh LVal per call: determinism must not depend on object identity
		arg := mk()
		if i == 0 {
			first = arg
		}
		if i == 4 {
			arg = first
		}
		v, pan := e.invoke(fn, arg, vc.OmitFalse, vc.ViaEval && i == 0, flag{"string-numbers", vc.DumpSN})
		r, f := observe(fn, v, pan)
		if f != nil {
			return f
		}
		if r.err {
			return vcommon.Failf("dump/error", "%s signalled %s (%s) for a JSON-representable value %s%s", fn, r.cond, r.msg, describe(m.toLVal()), sharedNote(vc))
		}
		if i == 3 {
			if r.v.Type != lisp.LNative {
				return vcommon.Failf("dump/result-type", "json:dump-message returned %s", describe(r.v))
			}
			v, pan = e.call("json:message-bytes", r.v)
			if r, f = observe("json:message-bytes", v, pan); f != nil {
				return f
			}
			if r.err {
				return vcommon.Failf("dump/message-bytes-error", "json:message-bytes of a dumped message signalled %s (%s)", r.cond, r.msg)
			}
		}
		b, bad := dumpedBytes(r, isBytes)
		if bad != "" {
			return vcommon.Failf("dump/result-type", "%s", bad)
		}
		docs[i] = b
	}
	doc := docs[0]
	c.Note(fmt.Sprintf("dumped: %q", clip(doc, 0)))
	if !bytes.Equal(doc, docs[1]) {
		return vcommon.Failf("dump/nondeterministic", "dumping the same value twice gives %q and %q", doc, docs[1])
	}
	if !bytes.Equal(doc, docs[2]) {
		return vcommon.Failf("dump/string-vs-bytes", "%s gives %q but %s gives %q", dumpFn, doc, otherDump, docs[2])
	}
	if !bytes.Equal(doc, docs[3]) {
		return vcommon.Failf("dump/string-vs-message", "%s gives %q but json:dump-message gives %q", dumpFn, doc, docs[3])
	}
	if !bytes.Equal(doc, docs[4]) {
		return vcommon.Failf("dump/same-object-twice", "dumping the very same object a second time gives %q, the first time %q", docs[4], doc)
	}
	if again {
		if d := cmpBuilt(m, first, "$"); d != "" {
			return vcommon.Failf("dump/changes-its-argument", "after json:dump-* the dumped object differs from the value that was built: %s", d)
		}
	}
	n, info, err := refParse(doc)
	if err != nil {
		return vcommon.Failf("dump/invalid-json", "dumped document %q is not valid JSON: %v", doc, err)
	}
	if info.invalidUTF8 > 0 {
		return vcommon.Failf("dump/raw-invalid-utf8", "dumped document %q contains invalid UTF-8", doc)
	}
	if info.wsBetween {
		return vcommon.Failf("dump/whitespace", "dumped document %q contains insignificant whitespace (not a deterministic compact form)", doc)
	}
	if bytes.Contains(doc, []byte("\u2028")) || bytes.Contains(doc, []byte("\u2029")) {
		// not a JSON validity question: the anchored encoder promises the escape
		c.Class("doc-raw-u2028")
	}
	d := &dumpCtx{sn: vc.DumpSN, c: c}
	if f := d.cmpDump(m, n, "$"); f != nil {
		return f
	}
	if d.deferred != nil {
		// the document has colliding / unordered keys: nothing further can be
		// decided about loading it back
		return d.deferred
	}
	// byte for byte against the independent reference encoder
	var want bytes.Buffer
	refEncode(&want, m, vc.DumpSN)
	if !bytes.Equal(doc, want.Bytes()) {
		i := 0
		for i < len(doc) && i < want.Len() && doc[i] == want.Bytes()[i] {
			i++
		}
		return vcommon.Failf("dump/bytes-differ-from-reference", "dumped document differs from the reference encoder's at byte %d:\n got  %q\n want %q", i, clip(doc, i), clip(want.Bytes(), i))
	}

	// (b) load the dumped document back
	exp := expectLoad(m, n, vc.DumpSN, vc.LoadSN, vc.LoadEI)
	var arg *lisp.LVal
	if vc.Bytes {
		arg = lisp.Bytes(append([]byte{}, doc...))
	} else {
		arg = lisp.String(string(doc))
	}
	v, pan := e.invoke(loadFn, arg, vc.OmitFalse, vc.ViaEval, flag{"string-numbers", vc.LoadSN}, flag{"exact-integers", vc.LoadEI})
	r, f := observe(loadFn, v, pan)
	if f != nil {
		return f
	}
	mode := fmt.Sprintf("string-numbers=%v exact-integers=%v", vc.LoadSN, vc.LoadEI)
	if r.err && docDepth > decoderMaxDepth {
		// documented limit (encode.go, loadableBytes): the decoder stops at
		// 10000 levels; the dump side of such a value has been checked in full
		c.Class("limit_zone/load refuses the dump of a value nested deeper than 10000")
		return nil
	}
	if r.err {
		key := "roundtrip/load-rejects-dump"
		if r.cond == "json:integer-range-error" {
			key = "roundtrip/range-error-on-own-output"
		}
		return vcommon.Failf(key, "%s (%s) rejects the document %q that dump produced: %s: %s", loadFn, mode, doc, r.cond, r.msg)
	}
	if diff := cmpLoaded(exp, r.v, "$"); diff != "" {
		key := "roundtrip/value"
		if vc.LoadEI && !vc.LoadSN && !vc.DumpSN {
			key = "roundtrip/value-exact-integers"
		}
		return vcommon.Failf(key, "load(dump(v)) under %s differs from v for document %q: %s", mode, doc, diff)
	}
	// every container of a loaded value is an object of its own, however many
	// equal sub-documents the text holds (in-place edits -- append!, assoc! --
	// must not show up elsewhere; the mutate sub-property does the edits)
	if d := aliasedParts(r.v); d != "" {
		return vcommon.Failf("roundtrip/loaded-parts-alias", "the value loaded from %q under %s is not a tree of distinct objects: %s", doc, mode, d)
	}
	if !vc.DumpSN && !vc.LoadSN {
		norm := m.normLVal()
		for _, order := range [][2]*lisp.LVal{{r.v, norm}, {norm, r.v}} {
			ev, pan := e.call("equal?", order[0], order[1])
			er, f := observe("equal?", ev, pan)
			if f != nil {
				return f
			}
			if er.err || !lisp.True(er.v) {
				return vcommon.Failf("roundtrip/equal?", "(equal? %s %s) is %s for document %q under %s", describe(order[0]), describe(order[1]), describe(ev), doc, mode)
			}
		}
	}
	return nil
}

// clip shows the neighbourhood of byte i of a (possibly very long) document.
func clip(b []byte, i int) string {
	lo, hi := i-60, i+60
	if lo < 0 {
		lo = 0
	}
	if hi > len(b) {
		hi = len(b)
	}
	s := string(b[lo:hi])
	if lo > 0 {
		s = "..." + s
	}
	if hi < len(b) {
		s += "..."
	}
	return s
}

func hasExpr(m MV) bool {
	if m.K == "expr" {
		return true
	}
	for _, c := range m.L {
		if hasExpr(c) {
			return true
		}
	}
	return false
}

// nonFiniteKind names the first non-finite float of a resolved model
// (effective map entries only).
func nonFiniteKind(m MV) string {
	if m.K == "float" {
		switch f := m.F(); {
		case math.IsNaN(f):
			return "nan"
		case math.IsInf(f, 1):
			return "+inf"
		case math.IsInf(f, -1):
			return "-inf"
		}
	}
	kids := m.L
	if m.K == "map" {
		_, kids = m.entries() // a value shadowed by a later MapSet of the same key is not part of the map
	}
	for _, c := range kids {
		if k := nonFiniteKind(c); k != "" {
			return k
		}
	}
	return ""
}

// ---------- non-finite floats: no JSON text denotes them, so every dump
// builtin must refuse the value with an ordinary error ----------

type NonFiniteCase struct {
	V         MV   `json:"v"`          // holds >= 1 non-finite float (host-built bits or a run-time expr)
	SN        bool `json:"sn"`         // :string-numbers
	OmitFalse bool `json:"omit_false"` // false keyword omitted instead of passed
	ViaEval   bool `json:"via_eval"`
}

func checkNonFinite(nc NonFiniteCase, ctx *vcommon.Ctx) *vcommon.Failure {
	c := newCls(ctx)
	e := getElps()
	m, rf := nc.V.resolve(e)
	if rf != nil {
		return rf
	}
	kind := nonFiniteKind(m)
	if kind == "" {
		return vcommon.Failf("selfcheck/nonfinite-missing", "non-finite case without a non-finite float")
	}
	c.Class("kind/" + kind)
	if hasExpr(nc.V) {
		c.Class("float-computed-at-run-time")
	} else {
		c.Class("float-host-built")
	}
	if m.K == "float" {
		c.Class("position/top-level")
	} else {
		c.Class("position/nested")
		if m.depth() >= 64 {
			c.Class("depth>=64 (encoder guard depth)")
		}
	}
	c.Class(fmt.Sprintf("string-numbers=%v", nc.SN))
	var b strings.Builder
	nc.V.canon(&b)
	c.NonTrivial(fmt.Sprintf("%s|%v", b.String(), nc.SN))
	for i, fn := range []string{"json:dump-string", "json:dump-bytes", "json:dump-message"} {
		v, pan := e.invoke(fn, nc.V.toLVal(), nc.OmitFalse, nc.ViaEval && i == 0, flag{"string-numbers", nc.SN})
		r, f := observe(fn, v, pan)
		if f != nil {
			return f
		}
		if r.err {
			continue
		}
		var doc []byte
		switch {
		case r.v.Type == lisp.LString:
			doc = []byte(r.v.Str)
		case r.v.Type == lisp.LBytes:
			doc = r.v.Bytes()
		case r.v.Type == lisp.LNative:
			if mb, pan := e.call("json:message-bytes", r.v); pan == "" && mb != nil && mb.Type == lisp.LBytes {
				doc = mb.Bytes()
			}
		}
		_, _, perr := refParse(doc)
		verdict := "which is not even JSON"
		if perr == nil {
			verdict = "which is JSON but cannot denote the value"
		}
		return vcommon.Failf("dump/nonfinite-not-refused/"+kind, "%s (string-numbers=%v) of a value holding a %s float returns %q, %s (%v); the only faithful outcome is a refusal", fn, nc.SN, kind, doc, verdict, perr)
	}
	return nil
}
