// refenc: an independent reference ENCODER.  Given the model it writes the one
// document json:dump-* is expected to produce, byte for byte: compact, object
// members in bytewise key order, ints as decimal text, floats as the shortest
// round-tripping decimal in the ECMAScript layout (digits are GENERATED here
// with math/big, strconv is not consulted), numbers quoted under
// :string-numbers, and strings escaped by the policy the property's anchor
// names (encode.go "string escaping"): \" \\ \b \f \n \r \t, every other
// byte < 0x20 and < > & as \u00xx (lower-case hex), U+2028/U+2029 as
// the six-character escapes \\u2028 / \\u2029, each byte of invalid UTF-8 as the
// escape \\ufffd, everything else raw.
package c13

import (
	"bytes"
	"math"
	"math/big"
	"strings"
)

// refFloatText generates the canonical text of a finite float.
func refFloatText(x float64) string {
	if x == 0 {
		if math.Signbit(x) {
			return "-0"
		}
		return "0"
	}
	ax := math.Abs(x)
	v := new(big.Rat).SetFloat64(ax)
	// nn: 10^(nn-1) <= v < 10^nn, estimated then corrected exactly
	nn := int(math.Floor(math.Log10(ax))) + 1
	for v.Cmp(scaleRat(big.NewInt(1), nn)) >= 0 {
		nn++
	}
	for v.Cmp(scaleRat(big.NewInt(1), nn-1)) < 0 {
		nn--
	}
	// try(k): the best k-digit decimal that reads back as x, if any.  If k
	// digits suffice so do k+1 (the set of reals rounding to x is an interval
	// around v), so the smallest k is found by bisection.
	try := func(k int) (string, bool) {
		e := nn - k
		q := new(big.Rat).Quo(v, scaleRat(big.NewInt(1), e))
		lo := new(big.Int).Quo(q.Num(), q.Denom())
		var best *big.Int
		var bestDist *big.Rat
		for d := int64(0); d < 2; d++ {
			m := new(big.Int).Add(lo, big.NewInt(d))
			c := scaleRat(m, e)
			if f, _ := c.Float64(); f != ax {
				continue
			}
			dist := new(big.Rat).Sub(c, v)
			dist.Abs(dist)
			// an exact tie goes to the even digit (ECMAScript Number::toString
			// step 5: "if there are two such possible values of n, choose the
			// one that is even")
			if best == nil || dist.Cmp(bestDist) < 0 || (dist.Cmp(bestDist) == 0 && m.Bit(0) == 0) {
				best, bestDist = m, dist
			}
		}
		if best == nil {
			return "", false
		}
		s := best.String()
		return esLayout(x < 0, strings.TrimRight(s, "0"), e+len(s)), true
	}
	lo, hi := 1, 17 // 17 digits always round-trip
	for lo < hi {
		mid := (lo + hi) / 2
		if _, ok := try(mid); ok {
			hi = mid
		} else {
			lo = mid + 1
		}
	}
	if s, ok := try(lo); ok {
		return s
	}
	return "?" // unreachable: 17 digits always round-trip
}

func refEscape(b *bytes.Buffer, s []byte) {
	const hex = "0123456789abcdef"
	b.WriteByte('"')
	for i := 0; i < len(s); {
		r, size, ok := decodeUTF8(s, i)
		switch {
		case !ok:
			b.WriteString("\\ufffd")
		case r == '"':
			b.WriteString(`\"`)
		case r == '\\':
			b.WriteString(`\\`)
		case r == 0x08:
			b.WriteString(`\b`)
		case r == 0x0c:
			b.WriteString(`\f`)
		case r == 0x0a:
			b.WriteString(`\n`)
		case r == 0x0d:
			b.WriteString(`\r`)
		case r == 0x09:
			b.WriteString(`\t`)
		case r < 0x20 || r == '<' || r == '>' || r == '&':
			b.WriteString(`\u00`)
			b.WriteByte(hex[r>>4])
			b.WriteByte(hex[r&0xf])
		case r == 0x2028:
			b.WriteString("\\u2028")
		case r == 0x2029:
			b.WriteString("\\u2029")
		default:
			b.Write(s[i : i+size])
		}
		i += size
	}
	b.WriteByte('"')
}

// refEncode writes the expected document for a (resolved, finite) model.
func refEncode(b *bytes.Buffer, m MV, sn bool) {
	num := func(text string) {
		if sn {
			b.WriteByte('"')
			b.WriteString(text)
			b.WriteByte('"')
		} else {
			b.WriteString(text)
		}
	}
	switch m.K {
	case "nil":
		b.WriteString("null")
	case "bool":
		if m.B {
			b.WriteString("true")
		} else {
			b.WriteString("false")
		}
	case "int":
		num(intText(m.I))
	case "float":
		num(refFloatText(m.F()))
	case "str":
		refEscape(b, m.S)
	case "vec", "list":
		if m.K == "list" && len(m.L) == 0 {
			b.WriteString("null")
			return
		}
		b.WriteByte('[')
		for i, c := range m.L {
			if i > 0 {
				b.WriteByte(',')
			}
			refEncode(b, c, sn)
		}
		b.WriteByte(']')
	case "map":
		keys, vals := m.entries()
		b.WriteByte('{')
		for i := range keys {
			if i > 0 {
				b.WriteByte(',')
			}
			refEscape(b, keys[i])
			b.WriteByte(':')
			refEncode(b, vals[i], sn)
		}
		b.WriteByte('}')
	default:
		panic("refEncode: unresolved model kind " + m.K)
	}
}
