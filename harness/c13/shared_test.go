// C13 "shared": values with SHARED (aliased, acyclic) parts, and values and
// documents nested up to the decoder's own limit.
//
// JSON has no notion of identity: a value in which one vector, list, sorted-map
// or scalar OBJECT occurs several times -- as siblings, as cousins, at
// different depths, or through a second header made by LVal.Copy() over the
// same storage -- denotes the plain tree obtained by writing the part out at
// each occurrence.  The model therefore carries the sharing (ref nodes that
// index the case's Defs; a definition refers to earlier definitions only, so
// the value is acyclic by construction), the value is BUILT with one object
// per definition, and every oracle of the value sub-property (reference
// parser, byte-for-byte reference encoder, exact load-back, equal?) is applied
// to the expanded tree.  The encoder tells a deep tree from a value that
// contains itself with a path set that is only active from nesting depth 64
// (encodeGuardDepth), so the occurrences are placed below, at and above that
// depth, inside and outside deep shared parts.
//
// The decoder (encoding/json underneath) refuses documents nested deeper than
// 10000 levels.  Values and documents are generated up to and just beyond
// that limit: up to 10000 levels everything the property promises must hold;
// beyond it the refusal is a documented limit (encode.go, loadableBytes) and
// is counted as limit_zone/*, while the dump side is still checked in full.
package c13

import (
	"fmt"
	"math"
	"strings"

	"github.com/luthersystems/elps/lisp"
	"pgregory.net/rapid"
)

// decoderMaxDepth: documents nested deeper may be refused (counted, not
// judged); documents nested up to it must load.  The figure is the documented
// limit of the decoder the package is built on; a decoder that refuses less
// deep documents fails the property ("accepts every document dump produces").
const decoderMaxDepth = 10000

// encoderGuardDepth: where the encoder starts tracking the path (read from
// encode.go to AIM the generator; no oracle depends on it).
const encoderGuardDepth = 64

// ---------- bounded path strings (a 10000-deep comparison must not build
// 10000 ever longer strings) ----------

func pClip(p string) string {
	if len(p) > 400 {
		return p[:150] + "...(deep)..." + p[len(p)-150:]
	}
	return p
}

func pIdx(path string, i int) string { return pClip(path) + fmt.Sprintf("[%d]", i) }
func pKey(path string, k any) string { return pClip(path) + fmt.Sprintf("{%q}", k) }

// chainLevel wraps inner in one container of the kind the letter names.
func chainLevel(letter byte, inner MV) MV {
	switch letter {
	case 'v':
		return MV{K: "vec", L: []MV{inner}}
	case 'l':
		return MV{K: "list", L: []MV{inner}}
	case 'y':
		return MV{K: "map", L: []MV{inner}, MK: []MKey{{B: []byte("k"), Sym: true}}}
	}
	return MV{K: "map", L: []MV{inner}, MK: []MKey{{B: []byte("k")}}}
}

// ---------- classification of the sharing in a case ----------

type occurrence struct {
	parent int // instance number of the enclosing container visit
	depth  int // 1 + number of enclosing containers
	copied bool
}

type sharedWalk struct {
	defs     []MV
	occ      map[int][]occurrence
	instance int
	nodes    int
}

func (w *sharedWalk) walk(m MV, parent, depth int) {
	w.nodes++
	if w.nodes > 200000 {
		return
	}
	switch m.K {
	case "ref":
		if m.I < 0 || int(m.I) >= len(w.defs) {
			return
		}
		w.occ[int(m.I)] = append(w.occ[int(m.I)], occurrence{parent, depth, m.B})
		sub := &sharedWalk{defs: w.defs[:m.I], occ: w.occ, instance: w.instance, nodes: w.nodes}
		sub.walk(w.defs[m.I], parent, depth)
		w.instance, w.nodes = sub.instance, sub.nodes
	case "chain":
		if len(m.L) == 1 {
			// the wrappers are single-member containers: only the depth matters
			w.instance++
			w.walk(m.L[0], w.instance, depth+int(m.I))
		}
	case "vec", "list", "map":
		w.instance++
		me := w.instance
		for _, c := range m.L {
			w.walk(c, me, depth+1)
		}
	}
}

func defKind(defs []MV, i int) string {
	m := defs[i]
	for m.K == "chain" && len(m.L) == 1 {
		return "deep-" + defKind([]MV{m.L[0]}, 0)
	}
	switch m.K {
	case "vec", "list", "map":
		return m.K
	case "ref":
		return "alias"
	}
	return "scalar"
}

// classifyShared records what kind of sharing the case has and reports
// whether there is any.
func classifyShared(raw MV, defs []MV, c *cls) bool {
	if len(defs) == 0 {
		return false
	}
	w := &sharedWalk{defs: defs, occ: map[int][]occurrence{}}
	w.walk(raw, 0, 1)
	found := false
	for i, occs := range w.occ {
		if len(occs) < 2 {
			continue
		}
		found = true
		c.Class("object-occurs-twice/" + defKind(defs, i))
		if len(occs) >= 3 {
			c.Class("object-occurs-three-times-or-more")
		}
		sib, cousin, diffDepth, copied, plain := false, false, false, false, false
		for a := range occs {
			if occs[a].copied {
				copied = true
			} else {
				plain = true
			}
			switch d := occs[a].depth; {
			case d <= encoderGuardDepth-3:
				c.Class("occurrence-depth/below the guard (<=61)")
			case d <= encoderGuardDepth+2:
				c.Class(fmt.Sprintf("occurrence-depth/%d", d))
			default:
				c.Class("occurrence-depth/above the guard (>=67)")
			}
			for b := a + 1; b < len(occs); b++ {
				switch {
				case occs[a].parent == occs[b].parent:
					sib = true
				case occs[a].depth == occs[b].depth:
					cousin = true
				default:
					diffDepth = true
				}
			}
		}
		for _, x := range []struct {
			on   bool
			name string
		}{{sib, "relation/siblings"}, {cousin, "relation/cousins (same depth, different parents)"}, {diffDepth, "relation/different depths"},
			{copied, "occurrence through a Copy()-made header"}, {copied && plain, "object and its Copy()-made header both occur"}} {
			if x.on {
				c.Class(x.name)
			}
		}
	}
	if found {
		c.Class("has-shared-object")
	} else {
		c.Class("no-object-occurs-twice")
	}
	return found
}

func sharedNote(vc ValueCase) string {
	if len(vc.Defs) == 0 {
		return ""
	}
	return fmt.Sprintf(" (built with %d shared object(s): an acyclic value in which one object occurs more than once)", len(vc.Defs))
}

// ---------- the built object against the model ----------

// cmpBuilt compares a lisp value with the (resolved) model it was built from:
// types, ints, float bits, string bytes, list/vector, map keys and values.
func cmpBuilt(m MV, v *lisp.LVal, path string) string {
	if v == nil {
		return path + ": nil *LVal"
	}
	bad := func(want string) string { return fmt.Sprintf("%s: holds %s, built as %s", path, describe(v), want) }
	switch m.K {
	case "nil":
		if !v.IsNil() {
			return bad("nil")
		}
	case "bool":
		if v.Type != lisp.LSymbol || v.Str != fmt.Sprint(m.B) {
			return bad(fmt.Sprint(m.B))
		}
	case "int":
		if v.Type != lisp.LInt || int64(v.Int) != m.I {
			return bad(fmt.Sprintf("int %d", m.I))
		}
	case "float":
		if v.Type != lisp.LFloat || math.Float64bits(v.Float) != m.FB {
			return bad(fmt.Sprintf("float bits %x", m.FB))
		}
	case "str":
		if v.Type != lisp.LString || v.Str != string(m.S) {
			return bad(fmt.Sprintf("string %q", m.S))
		}
	case "vec", "list":
		var cells []*lisp.LVal
		if m.K == "vec" {
			if v.Type != lisp.LArray || len(v.Cells) != 2 || v.Cells[0].Len() != 1 {
				return bad("a vector")
			}
			cells = v.Cells[1].Cells
		} else {
			if v.Type != lisp.LSExpr {
				return bad("a list")
			}
			cells = v.Cells
		}
		if len(cells) != len(m.L) {
			return bad(fmt.Sprintf("%s of %d", m.K, len(m.L)))
		}
		for i := range cells {
			if d := cmpBuilt(m.L[i], cells[i], pIdx(path, i)); d != "" {
				return d
			}
		}
	case "map":
		if v.Type != lisp.LSortMap {
			return bad("a sorted-map")
		}
		keys, vals := m.entries()
		ents := v.MapEntries()
		if ents.Type == lisp.LError || len(ents.Cells) != len(keys) {
			return bad(fmt.Sprintf("a sorted-map with keys %q", keys))
		}
		for i, p := range ents.Cells {
			if len(p.Cells) != 2 || p.Cells[0].Str != string(keys[i]) {
				return bad(fmt.Sprintf("a sorted-map with keys %q", keys))
			}
			if d := cmpBuilt(vals[i], p.Cells[1], pKey(path, keys[i])); d != "" {
				return d
			}
		}
	}
	return ""
}

// aliasedParts reports a container object (vector header, vector storage,
// sorted-map) that is reachable along two paths of a LOADED value.
func aliasedParts(v *lisp.LVal) string {
	seen := map[*lisp.LVal]string{}
	var walk func(v *lisp.LVal, path string) string
	mark := func(p *lisp.LVal, path, what string) string {
		if prev, ok := seen[p]; ok {
			return fmt.Sprintf("%s at %s is the very object at %s", what, path, prev)
		}
		seen[p] = path
		return ""
	}
	walk = func(v *lisp.LVal, path string) string {
		if v == nil {
			return ""
		}
		switch v.Type {
		case lisp.LArray:
			if d := mark(v, path, "the vector"); d != "" {
				return d
			}
			if len(v.Cells) == 2 && v.Cells[1] != nil {
				if d := mark(v.Cells[1], path, "the storage of the vector"); d != "" {
					return d
				}
				for i, c := range v.Cells[1].Cells {
					if d := walk(c, pIdx(path, i)); d != "" {
						return d
					}
				}
			}
		case lisp.LSortMap:
			if d := mark(v, path, "the sorted-map"); d != "" {
				return d
			}
			ents := v.MapEntries()
			if ents.Type == lisp.LError {
				return ""
			}
			for _, p := range ents.Cells {
				if len(p.Cells) == 2 {
					if d := walk(p.Cells[1], pKey(path, p.Cells[0].Str)); d != "" {
						return d
					}
				}
			}
		}
		return ""
	}
	return walk(v, "$")
}

// ---------- generators ----------

var chainPatterns = []string{"v", "m", "l", "y", "vm", "lv", "vly", "mvl", "vvvm", "mmy"}

func genPattern(t *rapid.T, label string) []byte {
	return []byte(rapid.SampledFrom(chainPatterns).Draw(t, label))
}

func chainOf(t *rapid.T, inner MV, levels int, label string) MV {
	if levels <= 0 {
		return inner
	}
	return MV{K: "chain", I: int64(levels), S: genPattern(t, label), L: []MV{inner}}
}

var sharedKeys = []MKey{{B: []byte("a")}, {B: []byte("b"), Sym: true}, {B: []byte("c")}, {B: []byte("d"), Sym: true}, {B: []byte("tags")}, {B: []byte("z\n")}, {B: []byte("é"), Sym: true}, {B: []byte("")}}

// cont builds a container of a drawn kind around kids (map keys distinct).
func cont(t *rapid.T, label string, kids ...MV) MV {
	switch rapid.IntRange(0, 8).Draw(t, label) {
	case 0, 1, 2, 3:
		return MV{K: "vec", L: kids}
	case 4, 5:
		return MV{K: "list", L: kids}
	}
	off := rapid.IntRange(0, len(sharedKeys)-1).Draw(t, label+"k")
	m := MV{K: "map", L: kids, MK: make([]MKey, len(kids))}
	for i := range kids {
		m.MK[i] = sharedKeys[(off+i)%len(sharedKeys)]
	}
	return m
}

// occ draws one occurrence of a definition among defs[:n] (the latest one
// most of the time, so that definitions built from definitions get used).
func occ(t *rapid.T, n int, label string) MV {
	j := n - 1
	if n > 1 && rapid.IntRange(0, 9).Draw(t, label+"j") < 3 {
		j = rapid.IntRange(0, n-2).Draw(t, label+"jj")
	}
	return MV{K: "ref", I: int64(j), B: rapid.IntRange(0, 3).Draw(t, label+"cp") == 0}
}

func genSharedDef(t *rapid.T, i int) MV {
	label := fmt.Sprintf("d%d", i)
	k := rapid.IntRange(0, 19).Draw(t, label+"kind")
	if k < 2 {
		return genScalar(t) // one scalar OBJECT in several places
	}
	n := rapid.IntRange(0, 3).Draw(t, label+"n")
	kids := make([]MV, n)
	for x := range kids {
		if i > 0 && rapid.IntRange(0, 2).Draw(t, label+"kidref") > 0 {
			kids[x] = occ(t, i, fmt.Sprintf("%sk%d", label, x))
		} else {
			kids[x] = genScalar(t)
		}
	}
	var d MV
	switch {
	case k < 11:
		d = MV{K: "vec", L: kids}
	case k < 15:
		d = MV{K: "list", L: kids}
	default:
		d = MV{K: "map", L: kids, MK: make([]MKey, n)}
		off := rapid.IntRange(0, len(sharedKeys)-1).Draw(t, label+"koff")
		for x := range kids {
			d.MK[x] = sharedKeys[(off+x)%len(sharedKeys)]
		}
	}
	if rapid.IntRange(0, 5).Draw(t, label+"deep") == 0 {
		// the shared part is itself deep
		d = chainOf(t, d, rapid.SampledFrom([]int{1, 2, 3, 20, 58, 60, 61, 62, 63, 64, 65, 100}).Draw(t, label+"levels"), label+"pat")
	}
	return d
}

func genNumSib(t *rapid.T, label string) MV {
	switch rapid.IntRange(0, 3).Draw(t, label) {
	case 0:
		return MV{K: "int", I: genInt().Draw(t, label+"i")}
	case 1:
		return MV{K: "float", FB: math.Float64bits(genFloat().Draw(t, label+"f"))}
	case 2:
		return genFiniteExpr(t)
	}
	return genScalar(t)
}

// genSharedValue draws the definitions and a root in which at least one of
// them occurs twice, the whole under an outer chain whose length is aimed at
// the encoder's guard depth.
func genSharedValue(t *rapid.T) (MV, []MV) {
	nd := rapid.IntRange(1, 3).Draw(t, "ndefs")
	defs := make([]MV, 0, nd)
	for i := 0; i < nd; i++ {
		defs = append(defs, genSharedDef(t, i))
	}
	n := len(defs)
	nearGuard := func(label string) int {
		return rapid.SampledFrom([]int{1, 2, 3, 10, 30, 58, 59, 60, 61, 62, 63, 64, 65, 66}).Draw(t, label)
	}
	var root MV
	switch rapid.IntRange(0, 6).Draw(t, "rootshape") {
	case 0: // siblings
		o := occ(t, n, "o")
		o2 := o
		o2.B = rapid.IntRange(0, 3).Draw(t, "o2cp") == 0
		root = cont(t, "c", o, o2)
	case 1: // siblings between scalars
		o := occ(t, n, "o")
		root = cont(t, "c", genNumSib(t, "s1"), o, genScalar(t), o, genNumSib(t, "s2"))
	case 2: // cousins
		o := occ(t, n, "o")
		root = cont(t, "c", cont(t, "c1", o, genNumSib(t, "s1")), cont(t, "c2", o))
	case 3: // different depths
		o := occ(t, n, "o")
		first, second := o, chainOf(t, o, nearGuard("d"), "pat")
		if rapid.Bool().Draw(t, "deepfirst") {
			first, second = second, first
		}
		root = cont(t, "c", first, second)
	case 4: // three occurrences, two definitions
		o := occ(t, n, "o")
		root = cont(t, "c", o, cont(t, "c1", occ(t, n, "p"), o), chainOf(t, o, nearGuard("d"), "pat"))
	case 5: // an ordinary generated tree with occurrences planted at its leaves
		budget := 14
		root = genMV(t, rapid.IntRange(1, 3).Draw(t, "depth"), &budget, false)
		root = stripBadKeys(root)
		o := occ(t, n, "o")
		if leaves := countLeaves(root); leaves < 2 {
			root = cont(t, "c", root, o, o)
		} else {
			plants := rapid.IntRange(2, 3).Draw(t, "plants")
			for x := 0; x < plants; x++ {
				idx := rapid.IntRange(0, leaves-1).Draw(t, fmt.Sprintf("at%d", x))
				plant(&root, &idx, o)
			}
		}
	default: // the definitions alone carry the sharing (a definition used twice inside a later one)
		root = cont(t, "c", occ(t, n, "o"), genNumSib(t, "s1"))
	}
	var levels int
	switch w := rapid.IntRange(0, 19).Draw(t, "outer"); {
	case w < 6:
		levels = rapid.IntRange(0, 3).Draw(t, "w")
	case w < 8:
		levels = rapid.IntRange(20, 54).Draw(t, "w")
	case w < 17:
		levels = rapid.IntRange(55, 68).Draw(t, "w")
	default:
		levels = rapid.IntRange(100, 130).Draw(t, "w")
	}
	root = chainOf(t, root, levels, "outerpat")
	switch rapid.IntRange(0, 3).Draw(t, "top") {
	case 0:
		root = MV{K: "map", L: []MV{genNumSib(t, "t1"), root, genNumSib(t, "t2")}, MK: []MKey{{B: []byte("id")}, {B: []byte("deep"), Sym: true}, {B: []byte("ratio")}}}
	case 1:
		root = MV{K: "vec", L: []MV{genNumSib(t, "t1"), root}}
	}
	return root, defs
}

// stripBadKeys replaces map keys that are not valid UTF-8 (the known finding
// dump/key-order-after-utf8-replacement is the value sub-property's business).
func stripBadKeys(m MV) MV {
	for i := range m.MK {
		if _, bad := normUTF8(m.MK[i].B); bad > 0 {
			s, _ := normUTF8(m.MK[i].B)
			m.MK[i].B = []byte(s)
		}
	}
	for i := range m.L {
		m.L[i] = stripBadKeys(m.L[i])
	}
	return m
}

func genSharedCase() *rapid.Generator[ValueCase] {
	return rapid.Custom(func(t *rapid.T) ValueCase {
		v, defs := genSharedValue(t)
		return ValueCase{
			V:         v,
			Defs:      defs,
			DumpSN:    rapid.IntRange(0, 2).Draw(t, "dump_sn") == 0,
			LoadSN:    rapid.IntRange(0, 3).Draw(t, "load_sn") == 0,
			LoadEI:    rapid.Bool().Draw(t, "load_ei"),
			Bytes:     rapid.Bool().Draw(t, "bytes"),
			OmitFalse: rapid.Bool().Draw(t, "omit_false"),
			ViaEval:   rapid.IntRange(0, 4).Draw(t, "via_eval") == 0,
		}
	})
}

// limitLevels: nesting depths up to, at and just beyond the decoder's limit.
var limitLevels = []int{300, 1000, 2500, 5000, 9000, 9990, 9996, 9997, 9998, 9999, 10000, 10000, 10001, 10002, 10003, 10050, 11000}

// genVeryDeepMV: a value nested hundreds to 11000 levels deep (compact chain
// spelling), with numbers at the bottom and, half of the time, next to it.
func genVeryDeepMV(t *rapid.T) MV {
	levels := rapid.SampledFrom(limitLevels).Draw(t, "limitlevels") - rapid.IntRange(0, 2).Draw(t, "less")
	leaf := MV{K: "vec", L: []MV{{K: "int", I: genInt().Draw(t, "li")}, {K: "float", FB: math.Float64bits(genFloat().Draw(t, "lf"))}, genScalar(t)}}
	switch rapid.IntRange(0, 3).Draw(t, "leafk") {
	case 0:
		leaf = genScalar(t)
	case 1:
		leaf = MV{K: "vec"}
	}
	deep := chainOf(t, leaf, levels, "pat")
	switch rapid.IntRange(0, 3).Draw(t, "top") {
	case 0:
		return MV{K: "map", L: []MV{genNumSib(t, "t1"), deep, genNumSib(t, "t2")}, MK: []MKey{{B: []byte("id")}, {B: []byte("deep"), Sym: true}, {B: []byte("ratio")}}}
	case 1:
		return MV{K: "vec", L: []MV{deep, genNumSib(t, "t1")}}
	}
	return deep
}

// genLimitDoc: a document nested up to, at and just beyond the decoder's
// limit, well-formed most of the time.
func genLimitDoc(t *rapid.T) []byte {
	n := rapid.SampledFrom(limitLevels).Draw(t, "limitlevels") - rapid.IntRange(0, 2).Draw(t, "less")
	var open, cl string
	per := 1
	switch rapid.IntRange(0, 4).Draw(t, "style") {
	case 0, 1:
		open, cl = "[", "]"
	case 2:
		open, cl = `{"k":`, "}"
	case 3:
		open, cl, per = `[{"k":`, "}]", 2
	default:
		open, cl = "[ ", "\n]"
	}
	reps := n / per
	leaf := rapid.SampledFrom([]string{"", "1", `"s"`, "null"}).Draw(t, "leaf")
	switch rapid.IntRange(0, 3).Draw(t, "leafk") {
	case 0:
		leaf = "[" + genNumber(t) + "," + genDocString(t, false) + "]"
	case 1:
		leaf = genNumber(t)
	}
	if leaf == "" {
		if open == `{"k":` || per == 2 {
			leaf = "{}"
		} else {
			leaf = "[]"
		}
		reps-- // the empty container is a level of its own
	}
	var b strings.Builder
	top := rapid.IntRange(0, 3).Draw(t, "top")
	if top == 0 {
		b.WriteString(`{"id":` + genNumber(t) + `,"deep":`)
		reps--
	}
	closers := reps
	switch rapid.IntRange(0, 11).Draw(t, "damage") {
	case 0:
		closers-- // unterminated
	case 1:
		closers++ // one closer too many
	}
	b.WriteString(strings.Repeat(open, reps))
	b.WriteString(leaf)
	b.WriteString(strings.Repeat(cl, closers))
	if top == 0 {
		b.WriteString(`,"ratio":` + genNumber(t) + `}`)
	}
	return []byte(b.String())
}
