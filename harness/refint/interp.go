package refint

import (
	"fmt"
	"sort"
	"strconv"
	"strings"
)

// Err is a signalled condition.
type Err struct {
	Cond  string
	Data  []*V
	Panic bool // produced by recovering a panic in host code
	User  bool // raised by the error builtin (Data is meaningful)
	ID    int  // identity of the error object (rethrow must preserve it)
	Node  int  // AST position of the form whose evaluation raised it (-1 unknown)
	Chain []Frame
	Msg   string
	// Pending counts the conditions that were being handled when this one was raised.
	Pending int
}

// Frame is one active call recorded when an error is raised.
type Frame struct {
	Name string
	Node int // call-site AST position
	Tail bool
	// Alt is a second acceptable call-site position (-1: none).  A condition
	// handler is called by handler-bind without a written call expression:
	// the handler-bind form (Node) and the handler expression (Alt) are both
	// taken as its call site.
	Alt int
}

// Abort is raised (as a Go panic) when the reference gives up: recursion too
// deep or too many steps.  The case is then inconclusive, never a verdict.
type Abort struct{ Why string }

type Event struct {
	Tag     string
	Payload string
}

type Package struct {
	Name    string
	Syms    map[string]*V
	Exports []string
}

type Env struct {
	vars   map[string]*V
	parent *Env
}

func NewEnv(parent *Env) *Env { return &Env{vars: map[string]*V{}, parent: parent} }

type Interp struct {
	Pkgs     map[string]*Package
	Cur      *Package
	Root     *Env
	Trace    []Event
	Stderr   strings.Builder
	gensym   int
	errID    int
	funID    int
	depth    int
	steps    int
	MaxDepth int
	MaxSteps int
	chain    []Frame
	pushAlt  int // Alt+1 for the next frame pushed (0: none)
	opNode   int // position of the special form being applied (read at operator entry)
	condStk  []*Err
	CondIDs  []int // error identities seen by (host-cond ...), 0 = none pending
	CondLog  []CondEv // condlog.go
	curNode  int
	// Sources maps a source text to its forms, for load-string (the reference
	// has no reader of its own: the generator supplies text and forms).
	Sources map[string][]*V
	// Unsupported is set when the program used a construct the reference does
	// not model exactly; the comparison is then skipped (counted).
	Unsupported string
	// StderrOpaque is set when something was written to stderr whose text the
	// reference cannot render (a closure): stderr is then not comparable.
	StderrOpaque bool
	// Used counts the calls of the extension builtins (ext.go) that passed their
	// arity check: evidence that a construct was evaluated, not only generated.
	Used map[string]int
	// Fault injection, default off (fault.go): from the FaultAt-th evaluation
	// entry on every entry fails with condition FaultCond; Entries counts them.
	FaultAt   int
	FaultCond string
	Entries   int
	// MutLists switches on the documented sharing model of sequences: cdr, rest
	// and slice return VIEWS of their source and stable-sort permutes a mutable
	// list in place (a quoted literal is sorted into a fresh list).  Off (the
	// default) lists are immutable values: views are copies and stable-sort of a
	// list returns a sorted copy.
	MutLists bool
}

const LangPkg = "lisp"
const UserPkg = "user"

func New() *Interp {
	in := &Interp{Pkgs: map[string]*Package{}, MaxDepth: 300, MaxSteps: 400000, curNode: -1}
	lang := &Package{Name: LangPkg, Syms: map[string]*V{}}
	in.Pkgs[LangPkg] = lang
	in.Cur = lang
	installSpecials(in, lang)
	installBuiltins(in, lang)
	installExt(in, lang) // user-defined types, defconst, trace, qualified-symbol (ext.go)
	user := &Package{Name: UserPkg, Syms: map[string]*V{}}
	in.Pkgs[UserPkg] = user
	in.Cur = user
	in.usePackage(lang)
	in.Root = NewEnv(nil)
	return in
}

func (in *Interp) usePackage(p *Package) {
	for _, name := range p.Exports {
		if v, ok := p.Syms[name]; ok {
			in.Cur.Syms[name] = v
		}
	}
}

// BuiltinMsg stands for the message text of an error raised by the
// interpreter itself: every such error carries exactly one datum (its message),
// whose wording the reference does not model.  A check must not compare values
// in which the marker is visible.
const BuiltinMsg = "\x00builtin-error-message\x00"

func (in *Interp) errf(format string, a ...any) *Err {
	return in.cond("error", []*V{Str(BuiltinMsg)}, fmt.Sprintf(format, a...))
}

func (in *Interp) cond(name string, data []*V, msg string) *Err {
	in.errID++
	ch := make([]Frame, len(in.chain))
	copy(ch, in.chain)
	return &Err{Cond: name, Data: data, ID: in.errID, Node: in.curNode, Chain: ch, Msg: msg, Pending: len(in.condStk)}
}

func (in *Interp) tick() {
	in.steps++
	if in.steps > in.MaxSteps {
		panic(Abort{"reference step budget exhausted"})
	}
}

// Run evaluates the top-level forms in order and returns the last value, or
// the first error.  ok=false means the reference aborted (inconclusive).
func (in *Interp) Run(forms []*V) (val *V, err *Err, abort string) {
	defer func() {
		if r := recover(); r != nil {
			if a, ok := r.(Abort); ok {
				abort = a.Why
				val, err = nil, nil
				return
			}
			panic(r)
		}
	}()
	val = Nil()
	start := in.Cur
	defer func() { in.Cur = start }()
	for _, f := range forms {
		in.chain = in.chain[:0]
		v, e := in.Eval(in.Root, f)
		if e != nil {
			return nil, e, ""
		}
		val = v
	}
	return val, nil, ""
}

func (env *Env) lookup(name string) (*V, bool) {
	for e := env; e != nil; e = e.parent {
		if v, ok := e.vars[name]; ok {
			return v, true
		}
	}
	return nil, false
}

func (in *Interp) lookupSym(env *Env, s *V) (*V, *Err) {
	name := s.S
	if name == "true" || name == "false" {
		return Sym(name), nil
	}
	ci := strings.IndexByte(name, ':')
	if ci == 0 {
		return s, nil // keyword
	}
	if ci > 0 {
		ns, nm := name[:ci], name[ci+1:]
		if strings.IndexByte(nm, ':') >= 0 {
			return nil, in.errf("illegal symbol %q", name)
		}
		p := in.Pkgs[ns]
		if p == nil {
			return nil, in.errf("unknown package %q", ns)
		}
		if nm == "true" || nm == "false" {
			return Sym(nm), nil
		}
		if v, ok := p.Syms[nm]; ok {
			return v, nil
		}
		e := in.errf("unbound symbol: %s", nm)
		e.Node = posOr(s.Pos, e.Node) // a symbol built at run time has no position of its own
		return nil, e
	}
	if v, ok := env.lookup(name); ok {
		return v, nil
	}
	if v, ok := in.Cur.Syms[name]; ok {
		return v, nil
	}
	e := in.errf("unbound symbol: %s", name)
	e.Node = posOr(s.Pos, e.Node) // a symbol built at run time has no position of its own
	return nil, e
}

func (in *Interp) putLocal(env *Env, k *V, v *V) *Err {
	if k.T != TSym {
		return in.errf("key is not a symbol")
	}
	if k.S == "true" || k.S == "false" {
		return in.errf("cannot rebind constant")
	}
	env.vars[k.S] = v
	return nil
}

func (in *Interp) putGlobal(k *V, v *V) *Err {
	if k.T != TSym {
		return in.errf("not a symbol")
	}
	name := k.S
	parts := strings.Split(name, ":")
	if len(parts) > 2 {
		return in.errf("illegal symbol")
	}
	if len(parts) == 2 {
		if parts[0] == "" {
			return in.errf("value cannot be assigned to a keyword")
		}
		p := in.Pkgs[parts[0]]
		if p == nil {
			return in.errf("unknown package")
		}
		if parts[1] == "true" || parts[1] == "false" {
			return in.errf("cannot rebind constant")
		}
		p.Syms[parts[1]] = v
		return nil
	}
	if name == "true" || name == "false" {
		return in.errf("cannot rebind constant")
	}
	in.Cur.Syms[name] = v
	return nil
}

// Eval is the definitional evaluator.
func (in *Interp) Eval(env *Env, v *V) (*V, *Err) {
	if e := in.entry(); e != nil { // fault injection (fault.go); never fails by default
		return nil, e
	}
	in.tick()
	in.depth++
	if in.depth > in.MaxDepth {
		panic(Abort{"reference recursion depth exceeded"})
	}
	defer func() { in.depth-- }()
	saved := in.curNode
	if v.Pos >= 0 {
		in.curNode = v.Pos
	}
	defer func() { in.curNode = saved }()
	if v.Q {
		return v, nil
	}
	switch v.T {
	case TSym:
		return in.lookupSym(env, v)
	case TList:
		if len(v.C) == 0 {
			return Nil(), nil
		}
		return in.evalCall(env, v)
	case TQuote:
		return in.Eval(env, v.C[0])
	default:
		return v, nil
	}
}

func (in *Interp) evalCall(env *Env, form *V) (*V, *Err) {
	head, err := in.Eval(env, form.C[0])
	if err != nil {
		return nil, err
	}
	if head.T != TFun {
		e := in.errf("first element of expression is not a function")
		e.Node = form.C[0].Pos
		if e.Node < 0 {
			e.Node = form.Pos
		}
		return nil, e
	}
	fn := head.Fn
	rawArgs := form.C[1:]
	if fn.Special || fn.Macro {
		return in.applySpecial(env, fn, rawArgs, form)
	}
	args := make([]*V, 0, len(rawArgs))
	for _, a := range rawArgs {
		v, err := in.Eval(env, a)
		if err != nil {
			return nil, err
		}
		args = append(args, v)
	}
	in.curNode = posOr(form.Pos, in.curNode)
	return in.Apply(env, fn, args, form.Pos)
}

func posOr(p, d int) int {
	if p >= 0 {
		return p
	}
	return d
}

func (in *Interp) push(name string, node int) func() {
	in.chain = append(in.chain, Frame{Name: name, Node: node, Alt: in.pushAlt - 1})
	in.pushAlt = 0
	n := len(in.chain)
	return func() { in.chain = in.chain[:n-1] }
}

// Apply calls a regular function with evaluated arguments.
func (in *Interp) Apply(env *Env, fn *Fun, args []*V, callNode int) (*V, *Err) {
	if fn.Special || fn.Macro {
		return nil, in.errf("not a regular function")
	}
	in.tick()
	pop := in.push(fn.Name, callNode)
	defer pop()
	if fn.Builtin != nil {
		if e := in.checkArity(fn, args); e != nil {
			return nil, e
		}
		return fn.Builtin(in, env, args)
	}
	fenv, e := in.bind(fn, args)
	if e != nil {
		return nil, e
	}
	if e := in.entry(); e != nil { // function-body entry (fault.go)
		return nil, e
	}
	return in.runBody(fn, fenv)
}

func (in *Interp) runBody(fn *Fun, fenv *Env) (*V, *Err) {
	outer := in.Cur
	if p := in.Pkgs[fn.Pkg]; p != nil && p != outer {
		in.Cur = p
		defer func() { in.Cur = outer }()
	}
	var ret *V = Nil()
	for _, b := range fn.Body {
		v, e := in.Eval(fenv, b)
		if e != nil {
			return nil, e
		}
		ret = v
	}
	return ret, nil
}

func (in *Interp) checkArity(fn *Fun, args []*V) *Err {
	n := len(args)
	if n < fn.Arity[0] || (fn.Arity[1] >= 0 && n > fn.Arity[1]) {
		return in.errf("invalid number of arguments: %d", n)
	}
	return nil
}

// bind implements formal parameter binding as documented: required, then
// &optional (missing => ()), then either &rest (list of the remainder) or &key.
func (in *Interp) bind(fn *Fun, args []*V) (*Env, *Err) {
	fenv := NewEnv(fn.Env)
	put := func(k *V, v *V) {
		if k.T == TSym && k.S != "true" && k.S != "false" {
			fenv.vars[k.S] = v
		}
	}
	narg := len(args)
	i := 0
	fs := fn.Formals
	for fi := 0; fi < len(fs); fi++ {
		f := fs[fi]
		switch {
		case f.S == "&key":
			if fi == len(fs)-1 {
				return nil, in.errf("control symbol at invalid location")
			}
			keys := fs[fi+1:]
			rem := args[i:]
			if len(rem)%2 != 0 {
				return nil, in.errf("function called with an odd number of keyword arguments")
			}
			given := map[string]*V{}
			var order []string
			for j := 0; j < len(rem); j += 2 {
				k := rem[j]
				if k.T != TSym || !strings.HasPrefix(k.S, ":") {
					return nil, in.errf("argument is not a keyword")
				}
				given[k.S[1:]] = rem[j+1]
				order = append(order, k.S[1:])
			}
			i = len(args)
			for _, k := range keys {
				if strings.HasPrefix(k.S, "&") {
					return nil, in.errf("control symbol at invalid location")
				}
				if v, ok := given[k.S]; ok {
					put(k, v)
					delete(given, k.S)
				} else {
					put(k, Nil())
				}
			}
			if len(given) > 0 {
				return nil, in.errf("unrecognized keyword argument")
			}
			fi = len(fs)
		case f.S == "&optional":
			if fi == len(fs)-1 {
				return nil, in.errf("control symbol at invalid location")
			}
			for fi+1 < len(fs) && !strings.HasPrefix(fs[fi+1].S, "&") {
				fi++
				if i < len(args) {
					put(fs[fi], args[i])
					i++
				} else {
					put(fs[fi], Nil())
				}
			}
		case f.S == "&rest":
			if len(fs)-fi-1 != 1 || strings.HasPrefix(fs[fi+1].S, "&") {
				return nil, in.errf("control symbol at invalid location")
			}
			rest := make([]*V, len(args)-i)
			copy(rest, args[i:])
			put(fs[fi+1], QList(rest))
			i = len(args)
			fi = len(fs)
		case strings.HasPrefix(f.S, "&"):
			return nil, in.errf("invalid control symbol")
		default:
			if i >= len(args) {
				return nil, in.errf("invalid number of arguments: %d", narg)
			}
			put(f, args[i])
			i++
		}
	}
	if i < len(args) {
		return nil, in.errf("invalid number of arguments: %d", narg)
	}
	return fenv, nil
}

// applySpecial handles special operators and macros (unevaluated arguments).
func (in *Interp) applySpecial(env *Env, fn *Fun, raw []*V, form *V) (*V, *Err) {
	in.curNode = posOr(form.Pos, in.curNode)
	pop := in.push(fn.Name, form.Pos)
	if fn.Builtin != nil && !fn.Macro {
		defer pop()
		if e := in.checkArity(fn, raw); e != nil {
			return nil, e
		}
		in.opNode = form.Pos
		return fn.Builtin(in, env, raw)
	}
	// macro: expand, then evaluate the expansion once in the caller's scope
	exp, e := in.expandOnce(env, fn, raw)
	pop()
	if e != nil {
		return nil, e
	}
	exp = stampPos(exp, form.Pos)
	return in.Eval(env, unquoteShallow(exp))
}

// stampPos gives macro-built forms that carry no position the call site.
func stampPos(v *V, pos int) *V {
	if v == nil || pos < 0 {
		return v
	}
	if v.Pos >= 0 && v.T != TList && v.T != TQuote {
		return v
	}
	if v.Pos < 0 {
		cp := *v
		cp.Pos = pos
		v = &cp
	}
	if (v.T == TList || v.T == TQuote) && len(v.C) > 0 {
		changed := false
		nc := make([]*V, len(v.C))
		for i, c := range v.C {
			nc[i] = stampPos(c, pos)
			if nc[i] != c {
				changed = true
			}
		}
		if changed {
			cp := *v
			cp.C = nc
			v = &cp
		}
	}
	return v
}

func (in *Interp) expandOnce(env *Env, fn *Fun, raw []*V) (*V, *Err) {
	if fn.Builtin != nil {
		if e := in.checkArity(fn, raw); e != nil {
			return nil, e
		}
		return fn.Builtin(in, env, raw)
	}
	fenv, e := in.bind(fn, raw)
	if e != nil {
		return nil, e
	}
	return in.runBody(fn, fenv)
}

func (in *Interp) newLambda(env *Env, formals *V, body []*V) (*V, *Err) {
	if formals.T != TList {
		return nil, in.errf("formals is not a list of symbols")
	}
	in.funID++
	f := &Fun{Name: "lambda", Formals: formals.C, Body: body, Env: env, Pkg: in.Cur.Name, ID: in.funID}
	return &V{T: TFun, Fn: f, Pos: -1}, nil
}

func (in *Interp) progn(env *Env, forms []*V) (*V, *Err) {
	var ret *V = Nil()
	for _, f := range forms {
		v, e := in.Eval(env, f)
		if e != nil {
			return nil, e
		}
		ret = v
	}
	return ret, nil
}

func special(name string, min, max int, f func(in *Interp, env *Env, a []*V) (*V, *Err)) *V {
	return &V{T: TFun, Pos: -1, Fn: &Fun{Name: LangPkg + ":" + name, Builtin: f, Special: true, Arity: [2]int{min, max}, Pkg: LangPkg}}
}

func builtin(name string, min, max int, f func(in *Interp, env *Env, a []*V) (*V, *Err)) *V {
	return &V{T: TFun, Pos: -1, Fn: &Fun{Name: LangPkg + ":" + name, Builtin: f, Arity: [2]int{min, max}, Pkg: LangPkg}}
}

func macroB(name string, min, max int, f func(in *Interp, env *Env, a []*V) (*V, *Err)) *V {
	return &V{T: TFun, Pos: -1, Fn: &Fun{Name: LangPkg + ":" + name, Builtin: f, Macro: true, Arity: [2]int{min, max}, Pkg: LangPkg}}
}

func def(p *Package, name string, v *V) {
	p.Syms[name] = v
	p.Exports = append(p.Exports, name)
	sort.Strings(p.Exports)
}

func installSpecials(in *Interp, p *Package) {
	def(p, "quote", special("quote", 1, 1, func(in *Interp, env *Env, a []*V) (*V, *Err) {
		return Quote(a[0]), nil
	}))
	def(p, "lambda", special("lambda", 1, -1, func(in *Interp, env *Env, a []*V) (*V, *Err) {
		if a[0].T == TList {
			for _, s := range a[0].C {
				if s.T != TSym {
					return nil, in.errf("first argument contains a non-symbol")
				}
			}
		} else {
			// formals.Cells of a non-list is empty in the implementation's
			// check; Lambda itself then rejects a non-list
			return nil, in.errf("formals is not a list of symbols")
		}
		return in.newLambda(env, a[0], a[1:])
	}))
	def(p, "progn", special("progn", 0, -1, func(in *Interp, env *Env, a []*V) (*V, *Err) {
		return in.progn(env, a)
	}))
	def(p, "if", special("if", 3, 3, func(in *Interp, env *Env, a []*V) (*V, *Err) {
		c, e := in.Eval(env, a[0])
		if e != nil {
			return nil, e
		}
		if Truthy(c) {
			return in.Eval(env, a[1])
		}
		return in.Eval(env, a[2])
	}))
	def(p, "cond", special("cond", 0, -1, func(in *Interp, env *Env, a []*V) (*V, *Err) {
		for i, br := range a {
			if br.T != TList {
				return nil, in.errf("argument is not a list")
			}
			if len(br.C) == 0 {
				return nil, in.errf("argument is not a pair")
			}
			var test *V
			if br.C[0].T == TSym && br.C[0].S == "else" {
				if i != len(a)-1 {
					return nil, in.errf("invalid syntax: else")
				}
				test = Sym("true")
			} else {
				t, e := in.Eval(env, br.C[0])
				if e != nil {
					return nil, e
				}
				test = t
			}
			if !Truthy(test) {
				continue
			}
			return in.progn(env, br.C[1:])
		}
		return Nil(), nil
	}))
	def(p, "and", special("and", 0, -1, func(in *Interp, env *Env, a []*V) (*V, *Err) {
		var r *V = Bool(true)
		for _, x := range a {
			v, e := in.Eval(env, x)
			if e != nil {
				return nil, e
			}
			r = v
			if !Truthy(v) {
				return v, nil
			}
		}
		return r, nil
	}))
	def(p, "or", special("or", 0, -1, func(in *Interp, env *Env, a []*V) (*V, *Err) {
		var r *V = Bool(false)
		for _, x := range a {
			v, e := in.Eval(env, x)
			if e != nil {
				return nil, e
			}
			r = v
			if Truthy(v) {
				return v, nil
			}
		}
		return r, nil
	}))
	bindPairs := func(in *Interp, a []*V) ([]*V, *Err) {
		if a[0].T != TList {
			return nil, in.errf("first argument is not a list")
		}
		for _, b := range a[0].C {
			if b.T != TList || len(b.C) != 2 {
				return nil, in.errf("first argument is not a list of pairs")
			}
		}
		return a[0].C, nil
	}
	def(p, "let", special("let", 1, -1, func(in *Interp, env *Env, a []*V) (*V, *Err) {
		if a[0].T != TList {
			return nil, in.errf("first argument is not a list")
		}
		lenv := NewEnv(env)
		vals := make([]*V, len(a[0].C))
		for i, b := range a[0].C {
			if b.T != TList || len(b.C) != 2 {
				return nil, in.errf("first argument is not a list of pairs")
			}
			v, e := in.Eval(lenv, b.C[1])
			if e != nil {
				return nil, e
			}
			vals[i] = v
		}
		for i, b := range a[0].C {
			if e := in.putLocal(lenv, b.C[0], vals[i]); e != nil {
				return nil, e
			}
		}
		return in.progn(lenv, a[1:])
	}))
	_ = bindPairs
	def(p, "let*", special("let*", 1, -1, func(in *Interp, env *Env, a []*V) (*V, *Err) {
		if a[0].T != TList {
			return nil, in.errf("first argument is not a list")
		}
		lenv := NewEnv(env)
		for _, b := range a[0].C {
			if b.T != TList || len(b.C) != 2 {
				return nil, in.errf("first argument is not a list of pairs")
			}
			v, e := in.Eval(lenv, b.C[1])
			if e != nil {
				return nil, e
			}
			if e := in.putLocal(lenv, b.C[0], v); e != nil {
				return nil, e
			}
		}
		return in.progn(lenv, a[1:])
	}))
	fletLike := func(name string, shared bool, macro bool) {
		def(p, name, special(name, 1, -1, func(in *Interp, env *Env, a []*V) (*V, *Err) {
			if a[0].T != TList {
				return nil, in.errf("first argument is not a list")
			}
			fenv := NewEnv(env)
			for _, b := range a[0].C {
				if b.T != TList || len(b.C) < 2 {
					return nil, in.errf("first argument is not a list of function definitions")
				}
				cenv := env
				if shared {
					cenv = fenv
				} else {
					cenv = NewEnv(env)
				}
				fv, e := in.newLambda(cenv, b.C[1], b.C[2:])
				if e != nil {
					return nil, e
				}
				fv.Fn.Macro = macro
				if b.C[0].T == TSym {
					fv.Fn.Name = b.C[0].S
				}
				if e := in.putLocal(fenv, b.C[0], fv); e != nil {
					return nil, e
				}
			}
			return in.progn(fenv, a[1:])
		}))
	}
	fletLike("flet", false, false)
	fletLike("labels", true, false)
	fletLike("macrolet", false, true)
	def(p, "set!", special("set!", 2, 2, func(in *Interp, env *Env, a []*V) (*V, *Err) {
		if a[0].T != TSym {
			return nil, in.errf("first argument is not a symbol")
		}
		v, e := in.Eval(env, a[1])
		if e != nil {
			return nil, e
		}
		k := a[0]
		in.curNode = posOr(k.Pos, in.curNode)
		if k.S == "true" || k.S == "false" {
			return nil, in.errf("cannot rebind constant")
		}
		for s := env; s != nil; s = s.parent {
			if _, ok := s.vars[k.S]; ok {
				s.vars[k.S] = v
				return Nil(), nil
			}
		}
		if _, ok := in.Cur.Syms[k.S]; ok {
			in.Cur.Syms[k.S] = v
			return Nil(), nil
		}
		return nil, in.errf("symbol not bound: %s", k.S)
	}))
	def(p, "dotimes", special("dotimes", 1, -1, func(in *Interp, env *Env, a []*V) (*V, *Err) {
		cs := a[0]
		if cs.T != TList {
			return nil, in.errf("first argument is not a list")
		}
		if len(cs.C) > 3 || len(cs.C) == 0 {
			return nil, in.errf("bad control sequence")
		}
		sym := cs.C[0]
		if sym.T != TSym {
			return nil, in.errf("control-sequence does not start with a symbol")
		}
		if len(cs.C) < 2 {
			return nil, in.errf("missing iteration count")
		}
		cnt, e := in.Eval(env, cs.C[1])
		if e != nil {
			return nil, e
		}
		if cnt.T != TInt {
			return nil, in.errf("count did not evaluate to an int")
		}
		lenv := NewEnv(env)
		n := int64(0)
		for i := int64(0); i < cnt.I; i++ {
			if e := in.entry(); e != nil { // a turn is an entry (fault.go)
				return nil, e
			}
			in.tick()
			n++
			if e := in.putLocal(lenv, sym, Int(i)); e != nil {
				return nil, e
			}
			for _, b := range a[1:] {
				if _, e := in.Eval(lenv, b); e != nil {
					return nil, e
				}
			}
		}
		if e := in.putLocal(lenv, sym, Int(n)); e != nil {
			return nil, e
		}
		if len(cs.C) == 3 {
			return in.Eval(lenv, cs.C[2])
		}
		if e := in.entry(); e != nil { // the defaulted result form () is evaluated too (fault.go)
			return nil, e
		}
		return Nil(), nil
	}))
	thread := func(name string, first bool) {
		def(p, name, special(name, 1, -1, func(in *Interp, env *Env, a []*V) (*V, *Err) {
			for _, x := range a[1:] {
				if x.T != TList || x.Q {
					return nil, in.errf("expression argument is not a function call")
				}
				if len(x.C) < 1 {
					return nil, in.errf("expression argument is nil")
				}
			}
			// the threaded value is spliced in as (unevaluated) program text of
			// the next form, exactly as the documentation's rewriting says
			val := a[0]
			if len(a) == 1 {
				return in.Eval(env, val)
			}
			for i, x := range a[1:] {
				var cells []*V
				if first {
					cells = append(cells, x.C[0], val)
					cells = append(cells, x.C[1:]...)
				} else {
					cells = append(cells, x.C...)
					cells = append(cells, val)
				}
				form := &V{T: TList, C: cells, Pos: x.Pos}
				v, e := in.Eval(env, form)
				if e != nil {
					return nil, e
				}
				if i == len(a)-2 {
					return v, nil
				}
				val = v
			}
			return val, nil
		}))
	}
	thread("thread-first", true)
	thread("thread-last", false)
	def(p, "assert", special("assert", 1, -1, func(in *Interp, env *Env, a []*V) (*V, *Err) {
		if len(a) > 1 && a[1].T != TStr {
			return nil, in.errf("second argument is not a string")
		}
		ok, e := in.Eval(env, a[0])
		if e != nil {
			return nil, e
		}
		if Truthy(ok) {
			return Nil(), nil
		}
		if len(a) == 1 {
			return nil, in.errf("assertion failure")
		}
		for _, x := range a[2:] {
			if _, e := in.Eval(env, x); e != nil {
				return nil, e
			}
		}
		// format errors are also condition "error"
		return nil, in.errf("assertion failure (formatted)")
	}))
	def(p, "function", special("function", 1, 1, func(in *Interp, env *Env, a []*V) (*V, *Err) {
		if a[0].T == TSym {
			v, e := in.lookupSym(env, a[0])
			if e != nil {
				return nil, e
			}
			if v.T != TFun {
				return nil, in.errf("symbol not bound to a function")
			}
			return v, nil
		}
		if a[0].T != TFun {
			return nil, in.errf("first argument is not a function")
		}
		return a[0], nil
	}))
	def(p, "expr", special("expr", 1, 1, func(in *Interp, env *Env, a []*V) (*V, *Err) {
		// (expr pattern): % is the single argument, %1 %2 ... numbered arguments,
		// %&optional / %&rest as documented; placeholders are those written
		// directly in the pattern
		body := a[0]
		n, short, opt, rest := 0, false, false, false
		scan := func(c *V) *Err {
			if c.Q || c.T != TSym || !strings.HasPrefix(c.S, "%") {
				return nil
			}
			switch num := c.S[1:]; {
			case num == "":
				if n > 0 {
					return in.errf("invalid mixing of expr argument symbols")
				}
				short = true
			case num == "&rest":
				rest = true
			case num == "&optional":
				opt = true
			default:
				k, err := strconv.Atoi(num)
				if err != nil || k < 0 || k > 1024 || strings.HasPrefix(num, "&") || strings.HasPrefix(num, "+") {
					return in.errf("invalid expr argument symbol")
				}
				if short {
					return in.errf("invalid mix of expr argument symbols")
				}
				if k > n {
					n = k
				}
			}
			return nil
		}
		switch {
		case body.Q:
		case body.T == TSym:
			if e := scan(body); e != nil {
				return nil, e
			}
		case body.T == TList:
			for _, c := range body.C {
				if e := scan(c); e != nil {
					return nil, e
				}
			}
		case body.T == TInt || body.T == TFloat || body.T == TStr:
		default:
			return nil, in.errf("invalid internal expression type")
		}
		var fs []*V
		if short {
			fs = append(fs, Sym("%"))
		} else {
			for i := 1; i <= n; i++ {
				fs = append(fs, Sym(fmt.Sprintf("%%%d", i)))
			}
		}
		if opt {
			fs = append(fs, Sym("&optional"), Sym("%&optional"))
		}
		if rest {
			fs = append(fs, Sym("&rest"), Sym("%&rest"))
		}
		return in.newLambda(env, List(fs), []*V{body})
	}))
	def(p, "handler-bind", special("handler-bind", 1, -1, opHandlerBind))
	def(p, "ignore-errors", special("ignore-errors", 0, -1, func(in *Interp, env *Env, a []*V) (*V, *Err) {
		var ret *V = Nil()
		for _, f := range a {
			v, e := in.Eval(env, f)
			if e != nil {
				if e.Panic {
					return nil, e
				}
				return Nil(), nil
			}
			ret = v
		}
		return ret, nil
	}))
	def(p, "quasiquote", special("quasiquote", 1, 1, func(in *Interp, env *Env, a []*V) (*V, *Err) {
		r, e := in.quasi(env, a[0], 0)
		if e != nil {
			return nil, e
		}
		return Quote(r), nil
	}))
	// builtin macros
	defLike := func(name string, macro bool) {
		def(p, name, macroB(name, 2, -1, func(in *Interp, env *Env, a []*V) (*V, *Err) {
			if a[0].T != TSym {
				return nil, in.errf("first argument is not a symbol")
			}
			fv, e := in.newLambda(env, a[1], a[2:])
			if e != nil {
				return nil, e
			}
			fv.Fn.Macro = macro
			fv.Fn.Name = in.Cur.Name + ":" + a[0].S
			return List([]*V{Sym("lisp:progn"), List([]*V{Sym("lisp:set"), Quote(a[0]), fv}), Nil()}), nil
		}))
	}
	defLike("defun", false)
	defLike("defmacro", true)
}

func opHandlerBind(in *Interp, env *Env, a []*V) (*V, *Err) {
	self := in.opNode // the handler-bind form: the call site of its handlers
	binds := a[0]
	if binds.T != TList {
		return nil, in.errf("first argument is not a list")
	}
	for _, b := range binds.C {
		if b.T != TList {
			return nil, in.errf("first argument is not a list of bindings")
		}
		if len(b.C) != 2 {
			return nil, in.errf("first argument is not a list of bindings")
		}
		if b.C[0].T != TSym {
			return nil, in.errf("binding type is not a symbol")
		}
	}
	var ret *V = Nil()
	for _, f := range a[1:] {
		v, e := in.Eval(env, f)
		if e != nil {
			for _, b := range binds.C {
				spec := b.C[0].S
				if spec != e.Cond && (spec != "condition" || e.Panic) {
					continue
				}
				h, he := in.Eval(env, b.C[1])
				if he != nil {
					return nil, he
				}
				if h.T != TFun {
					return nil, in.errf("handler not a function")
				}
				in.condStk = append(in.condStk, e)
				in.condLog("enter")
				args := append([]*V{QSym(e.Cond)}, e.Data...)
				var rv *V
				var re *Err
				if h.Fn.Special || h.Fn.Macro {
					in.Unsupported = "special function used as a condition handler"
					re = in.errf("unsupported")
				} else {
					in.curNode = posOr(self, in.curNode)
					if b.C[1].Pos >= 0 {
						in.pushAlt = b.C[1].Pos + 1
					}
					rv, re = in.Apply(env, h.Fn, args, self)
				}
				in.condLog("leave")
				in.condStk = in.condStk[:len(in.condStk)-1]
				return rv, re
			}
			return nil, e
		}
		ret = v
	}
	return ret, nil
}

// quasi implements quasiquote template instantiation.
func (in *Interp) quasi(env *Env, t *V, level int) (*V, *Err) {
	r, spliced, e := in.quasi1(env, t, level)
	if e != nil {
		return nil, e
	}
	if spliced {
		return nil, in.errf("unquote-splicing used in an invalid context")
	}
	return r, nil
}

func headIs(v *V, name string) bool {
	if v.T != TList || len(v.C) == 0 || v.C[0].T != TSym {
		return false
	}
	s := v.C[0].S
	return s == name
}

func (in *Interp) quasi1(env *Env, t *V, level int) (*V, bool, *Err) {
	if t.T == TQuote {
		r, sp, e := in.quasi1(env, t.C[0], level)
		if e != nil {
			return nil, false, e
		}
		if sp {
			return nil, false, in.errf("splice in quote")
		}
		return Quote(r), false, nil
	}
	if t.T != TList {
		return t, false, nil
	}
	if t.Q {
		// a quoted sublist: its contents are still template text
		inner := unquoteShallow(t)
		r, sp, e := in.quasi1(env, inner, level)
		if e != nil {
			return nil, false, e
		}
		if sp {
			return nil, false, in.errf("splice in quote")
		}
		return Quote(r), false, nil
	}
	if headIs(t, "unquote") {
		if len(t.C) != 2 {
			return nil, false, in.errf("unquote: one argument expected")
		}
		v, e := in.Eval(env, t.C[1])
		return v, false, e
	}
	if headIs(t, "unquote-splicing") {
		if len(t.C) != 2 {
			return nil, false, in.errf("unquote-splicing: one argument expected")
		}
		v, e := in.Eval(env, t.C[1])
		if e != nil {
			return nil, false, e
		}
		if v.T != TList {
			return nil, false, in.errf("unquote-splicing: not a list")
		}
		return v, true, nil
	}
	out := make([]*V, 0, len(t.C))
	for _, c := range t.C {
		r, sp, e := in.quasi1(env, c, level)
		if e != nil {
			return nil, false, e
		}
		if sp {
			out = append(out, r.C...)
		} else {
			out = append(out, r)
		}
	}
	return &V{T: TList, C: out, Pos: t.Pos}, false, nil
}
