package refint

// Extension of the reference interpreter (C01 "ext" / "stdlib" sub-properties):
//
//   - user-defined types: deftype, new, type, type?, tagged-value?, user-data
//     (docs/lang.md "User-Defined Types", docs/func.md, the docstrings);
//   - defconst (= set + export) -- set with trailing docstrings was already there;
//   - trace (prints "<message> <value>" through debug-print, returns the value)
//     and qualified-symbol;
//   - the string package, part of the math package and base64, installed by
//     InstallStdlib for runtimes that load the standard library.
//
// Everything here is written from the documentation.  Where the documentation is
// silent and an implementation could reasonably differ, the case sets
// in.Unsupported (the comparison is skipped and counted) instead of guessing.

import (
	"fmt"
	"math"
	"strings"
	"unicode"
	"unicode/utf8"
)

const typedefName = LangPkg + ":typedef"

func tagged(name string, data *V) *V {
	return &V{T: TTagged, S: name, C: []*V{data}, Pos: -1}
}

func canonTagged(b *strings.Builder, v *V, depth int, seen map[*Map]bool) {
	b.WriteString("#tagged<" + v.S + " ")
	canon(b, v.C[0], depth+1, seen)
	b.WriteString(">")
}

// printTagged: docs/func.md shows  #{user:myobject "hello"}  and
// #{lisp:typedef '('user:myobject (lambda (x) x))}  (the latter holds a closure
// and is therefore not printable by the reference).
func printTagged(b *strings.Builder, v *V) bool {
	b.WriteString("#{" + v.S + " ")
	if !print1(b, v.C[0], false) {
		return false
	}
	b.WriteString("}")
	return true
}

// equal? is "deep comparison across all value types": same type name and equal
// user data.
func equalTagged(a, b *V) bool {
	return a.S == b.S && Equal(a.C[0], b.C[0])
}

// typedefParts: a typedef is a tagged value of type lisp:typedef whose user data
// is the list (type-name constructor).
func typedefParts(v *V) (name *V, ctor *V, ok bool) {
	if v.T != TTagged || v.S != typedefName {
		return nil, nil, false
	}
	d := v.C[0]
	if d.T != TList || len(d.C) != 2 || d.C[0].T != TSym || d.C[1].T != TFun {
		return nil, nil, false
	}
	return d.C[0], d.C[1], true
}

// typeSpecName: "A type specifier must either be a symbol or a typedef."
func typeSpecName(in *Interp, spec *V) (string, *Err) {
	switch spec.T {
	case TSym:
		return spec.S, nil
	case TTagged:
		name, _, ok := typedefParts(spec)
		if !ok {
			return "", in.errf("first argument is not a valid type specifier")
		}
		in.use("type?/typedef")
		return name.S, nil
	}
	return "", in.errf("first argument is not a valid type specifier")
}

// qualify implements qualified-symbol: "Returns a quoted package-qualified
// symbol.  If the symbol is already qualified (contains a colon), returns it
// as-is.  Otherwise prepends the current package name."
func (in *Interp) qualify(s *V) (*V, *Err) {
	if s.T != TSym {
		return nil, in.errf("argument is not a symbol")
	}
	switch strings.Count(s.S, ":") {
	case 0:
		return QSym(in.Cur.Name + ":" + s.S), nil
	case 1:
		return QSym(s.S), nil
	}
	return nil, in.errf("illegal symbol %q", s.S)
}

func (in *Interp) writeStderr(vals ...*V) {
	for i, v := range vals {
		if i > 0 {
			in.Stderr.WriteByte(' ')
		}
		txt, ok := Print(v)
		if !ok {
			in.StderrOpaque = true
		}
		in.Stderr.WriteString(txt)
	}
	in.Stderr.WriteByte('\n')
}

func (in *Interp) use(name string) {
	if in.Used == nil {
		in.Used = map[string]int{}
	}
	in.Used[name]++
}

func counted(name string, f bfn) bfn {
	return func(in *Interp, env *Env, a []*V) (*V, *Err) {
		in.use(name)
		return f(in, env, a)
	}
}

func installExt(in *Interp, p *Package) {
	B := func(name string, min, max int, f bfn) { def(p, name, builtin(name, min, max, counted(name, f))) }
	special := func(name string, min, max int, f bfn) *V { return special(name, min, max, counted(name, f)) }

	// the meta-typedef: (new typedef 'pkg:name constructor) makes a typedef.  It is
	// bound in the language package but not exported.
	metaCtor := builtin("typedef-ctor", 2, 2, func(in *Interp, env *Env, a []*V) (*V, *Err) {
		if a[0].T != TSym {
			return nil, in.errf("first argument is not a symbol")
		}
		if a[1].T != TFun {
			return nil, in.errf("second argument is not a function")
		}
		if a[1].Fn.Special || a[1].Fn.Macro {
			return nil, in.errf("second argument is not a regular function")
		}
		return QList([]*V{a[0], a[1]}), nil
	})
	p.Syms["typedef"] = tagged(typedefName, QList([]*V{QSym(typedefName), metaCtor}))

	// (deftype name constructor-formals constructor-exprs...): "Defines a new
	// type in the current package -- binding its name to a typedef ... Returns
	// the qualified type symbol."
	def(p, "deftype", special("deftype", 2, -1, func(in *Interp, env *Env, a []*V) (*V, *Err) {
		name, formals := a[0], a[1]
		if name.T != TSym {
			return nil, in.errf("first argument is not a symbol")
		}
		if formals.T != TList {
			return nil, in.errf("second argument is not a list")
		}
		in.gensym++ // the expansion names the qualified symbol with a fresh symbol
		fq, e := in.qualify(name)
		if e != nil {
			return nil, e
		}
		lam, e := in.Eval(env, List(append([]*V{Sym(LangPkg + ":lambda"), formals}, a[2:]...)))
		if e != nil {
			return nil, e
		}
		td, e := in.newInstance(env, p.Syms["typedef"], []*V{fq, lam})
		if e != nil {
			return nil, e
		}
		if e := in.putGlobal(Sym(fq.S), td); e != nil {
			return nil, e
		}
		return fq, nil
	}))

	// (new type-specifier args...): "If given a typedef its constructor is called
	// and the resulting user data is placed in a tagged-value.  Otherwise, if
	// given a symbol, new looks for a package-level symbol bound to a typedef."
	B("new", 1, -1, func(in *Interp, env *Env, a []*V) (*V, *Err) {
		spec := a[0]
		if spec.T == TSym {
			g, e := in.getGlobal(spec)
			if e != nil {
				return nil, e
			}
			spec = g
		}
		return in.newInstance(env, spec, a[1:])
	})
	B("tagged-value?", 1, 1, func(in *Interp, env *Env, a []*V) (*V, *Err) {
		return Bool(a[0].T == TTagged), nil
	})
	B("user-data", 1, 1, func(in *Interp, env *Env, a []*V) (*V, *Err) {
		if a[0].T != TTagged {
			return nil, in.errf("argument is not a tagged value")
		}
		return a[0].C[0], nil
	})

	def(p, "qualified-symbol", special("qualified-symbol", 1, 1, func(in *Interp, env *Env, a []*V) (*V, *Err) {
		return in.qualify(a[0])
	}))

	// (defconst name value docstring...): "Equivalent to (set 'name value
	// docs...) followed by (export 'name)."  export returns nil.
	def(p, "defconst", special("defconst", 2, -1, func(in *Interp, env *Env, a []*V) (*V, *Err) {
		if a[0].T != TSym {
			return nil, in.errf("first argument is not a symbol")
		}
		set := append([]*V{Sym(LangPkg + ":set"), Quote(a[0])}, a[1:]...)
		if _, e := in.Eval(env, List(set)); e != nil {
			return nil, e
		}
		return in.Eval(env, List([]*V{Sym(LangPkg + ":export"), Quote(a[0])}))
	}))

	// (trace expr [message]): "Evaluates expr, prints the result to stderr
	// prefixed by message (default "TRACE") using debug-print, then returns the
	// result.  The expression is evaluated exactly once."  debug-print "prints
	// all arguments to stderr followed by a newline": the arguments are taken to
	// be written in their printed form, separated by one space.
	def(p, "trace", special("trace", 1, 2, func(in *Interp, env *Env, a []*V) (*V, *Err) {
		in.gensym++ // the value is held in a freshly named variable
		v, e := in.Eval(env, a[0])
		if e != nil {
			return nil, e
		}
		msg := Str("TRACE")
		if len(a) == 2 {
			if a[1].T != TStr {
				// when and in which scope a computed message is evaluated, and what
				// an explicit () means, is not documented
				in.Unsupported = "trace with a message that is not a string literal"
				return v, nil
			}
			msg = a[1]
		}
		in.writeStderr(msg, v)
		return v, nil
	}))
	B("debug-print", 0, -1, func(in *Interp, env *Env, a []*V) (*V, *Err) {
		in.writeStderr(a...)
		return Nil(), nil
	})
}

func (in *Interp) newInstance(env *Env, spec *V, args []*V) (*V, *Err) {
	name, ctor, ok := typedefParts(spec)
	if !ok {
		return nil, in.errf("first argument is not a typedef")
	}
	data, e := in.Apply(env, ctor.Fn, args, in.curNode)
	if e != nil {
		return nil, e
	}
	return tagged(name.S, data), nil
}

// ---------------------------------------------------------------------------
// standard library packages (string, math, base64)

// InstallStdlib adds the packages a runtime has after lisplib.LoadLibrary, as
// far as the reference models them.  They are not used by the user package:
// their functions are reached by qualified names (string:join ...).
func (in *Interp) InstallStdlib() {
	mk := func(name string) (*Package, func(string, int, int, bfn)) {
		p := &Package{Name: name, Syms: map[string]*V{}}
		in.Pkgs[name] = p
		return p, func(fname string, min, max int, f bfn) {
			f = counted(name+":"+fname, f)
			def(p, fname, &V{T: TFun, Pos: -1, Fn: &Fun{Name: name + ":" + fname, Builtin: f, Arity: [2]int{min, max}, Pkg: name}})
		}
	}
	installString(mk)
	installMath(mk)
	installBase64(mk)
}

type mkPkg = func(name string) (*Package, func(string, int, int, bfn))

func needStr(in *Interp, v *V, what string) *Err {
	if v.T != TStr {
		return in.errf("%s is not a string", what)
	}
	return nil
}

// text functions that speak about "characters" are defined on valid UTF-8 only
func (in *Interp) needUTF8(ss ...string) {
	for _, s := range ss {
		if !utf8.ValidString(s) {
			in.Unsupported = "character-level string function on a string that is not valid UTF-8"
		}
	}
}

func mapRunes(s string, f func(rune) rune) string {
	var b strings.Builder
	for _, r := range s {
		b.WriteRune(f(r))
	}
	return b.String()
}

func trimSet(s, cut string, left, right bool) string {
	in := func(r rune) bool { return strings.ContainsRune(cut, r) }
	if left {
		for len(s) > 0 {
			r, n := utf8.DecodeRuneInString(s)
			if !in(r) {
				break
			}
			s = s[n:]
		}
	}
	if right {
		for len(s) > 0 {
			r, n := utf8.DecodeLastRuneInString(s)
			if !in(r) {
				break
			}
			s = s[:len(s)-n]
		}
	}
	return s
}

const asciiSpace = " \t\n\v\f\r"

func installString(mk mkPkg) {
	_, B := mk("string")
	caseFn := func(f func(rune) rune) bfn {
		return func(in *Interp, env *Env, a []*V) (*V, *Err) {
			if e := needStr(in, a[0], "argument"); e != nil {
				return nil, e
			}
			in.needUTF8(a[0].S)
			return Str(mapRunes(a[0].S, f)), nil
		}
	}
	// "all Unicode characters converted to lowercase / uppercase"
	B("lowercase", 1, 1, caseFn(unicode.ToLower))
	B("uppercase", 1, 1, caseFn(unicode.ToUpper))
	// "Splits str on each occurrence of the separator string sep and returns a
	// list of the substrings between separators.  If sep is empty, splits after
	// each UTF-8 character."
	B("split", 2, 2, func(in *Interp, env *Env, a []*V) (*V, *Err) {
		if e := needStr(in, a[0], "first argument"); e != nil {
			return nil, e
		}
		if e := needStr(in, a[1], "second argument"); e != nil {
			return nil, e
		}
		s, sep := a[0].S, a[1].S
		var out []*V
		if sep == "" {
			in.needUTF8(s)
			for len(s) > 0 {
				_, n := utf8.DecodeRuneInString(s)
				out = append(out, Str(s[:n]))
				s = s[n:]
			}
			return QList(out), nil
		}
		for {
			i := strings.Index(s, sep)
			if i < 0 {
				out = append(out, Str(s))
				break
			}
			out = append(out, Str(s[:i]))
			s = s[i+len(sep):]
		}
		return QList(out), nil
	})
	// "Concatenates a list of strings with sep inserted between each element
	// ... All elements of list must be strings."
	B("join", 2, 2, func(in *Interp, env *Env, a []*V) (*V, *Err) {
		if a[0].T != TList {
			return nil, in.errf("first argument is not a list")
		}
		if e := needStr(in, a[1], "second argument"); e != nil {
			return nil, e
		}
		var b strings.Builder
		for i, c := range a[0].C {
			if c.T != TStr {
				return nil, in.errf("first argument is not a list of strings")
			}
			if i > 0 {
				b.WriteString(a[1].S)
			}
			b.WriteString(c.S)
		}
		return Str(b.String()), nil
	})
	// "n copies of str concatenated together.  n must be a non-negative integer."
	B("repeat", 2, 2, func(in *Interp, env *Env, a []*V) (*V, *Err) {
		if e := needStr(in, a[0], "first argument"); e != nil {
			return nil, e
		}
		if a[1].T != TInt {
			return nil, in.errf("second argument is not an int")
		}
		if a[1].I < 0 {
			return nil, in.errf("count is negative")
		}
		if a[1].I > 4096 || int64(len(a[0].S))*a[1].I > 65536 {
			in.Unsupported = "string:repeat result large enough to meet the configured allocation limit"
			return Str(""), nil
		}
		var b strings.Builder
		for i := int64(0); i < a[1].I; i++ {
			b.WriteString(a[0].S)
		}
		return Str(b.String()), nil
	})
	// "all leading and trailing whitespace removed (spaces, tabs, newlines,
	// etc.)": the ASCII whitespace characters; which further Unicode characters
	// "etc." covers is not stated.
	B("trim-space", 1, 1, func(in *Interp, env *Env, a []*V) (*V, *Err) {
		if e := needStr(in, a[0], "argument"); e != nil {
			return nil, e
		}
		in.needUTF8(a[0].S)
		s := trimSet(a[0].S, asciiSpace, true, true)
		if s != "" {
			first, _ := utf8.DecodeRuneInString(s)
			last, _ := utf8.DecodeLastRuneInString(s)
			if (first >= 0x80 && unicode.IsSpace(first)) || (last >= 0x80 && unicode.IsSpace(last)) {
				in.Unsupported = "string:trim-space at a non-ASCII space character"
			}
		}
		return Str(s), nil
	})
	trim := func(left, right bool) bfn {
		return func(in *Interp, env *Env, a []*V) (*V, *Err) {
			if e := needStr(in, a[0], "first argument"); e != nil {
				return nil, e
			}
			if e := needStr(in, a[1], "second argument"); e != nil {
				return nil, e
			}
			in.needUTF8(a[0].S, a[1].S)
			return Str(trimSet(a[0].S, a[1].S, left, right)), nil
		}
	}
	// "all leading and/or trailing characters found in cutset removed"
	B("trim", 2, 2, trim(true, true))
	B("trim-left", 2, 2, trim(true, false))
	B("trim-right", 2, 2, trim(false, true))
}

func installMath(mk mkPkg) {
	p, B := mk("math")
	def(p, "pi", Float(math.Pi))
	def(p, "inf", Float(math.Inf(1)))
	def(p, "-inf", Float(math.Inf(-1)))
	num := func(in *Interp, v *V) *Err {
		if !v.IsNumeric() {
			return in.errf("argument is not a number")
		}
		return nil
	}
	// "Integers always return false.  Returns an error if the argument is not a number."
	B("nan?", 1, 1, func(in *Interp, env *Env, a []*V) (*V, *Err) {
		if e := num(in, a[0]); e != nil {
			return nil, e
		}
		return Bool(a[0].T == TFloat && a[0].F != a[0].F), nil
	})
	// "Preserves the type ... Returns an error on integer overflow (min-int)."
	B("abs", 1, 1, func(in *Interp, env *Env, a []*V) (*V, *Err) {
		if e := num(in, a[0]); e != nil {
			return nil, e
		}
		if a[0].T == TInt {
			if a[0].I == math.MinInt64 {
				return nil, in.errf("integer overflow")
			}
			if a[0].I < 0 {
				return Int(-a[0].I), nil
			}
			return a[0], nil
		}
		if a[0].F < 0 || (a[0].F == 0 && math.Signbit(a[0].F)) {
			return Float(-a[0].F), nil
		}
		return a[0], nil
	})
	// "Integers are returned unchanged.  The result is always a float for float input."
	round := func(up bool) bfn {
		return func(in *Interp, env *Env, a []*V) (*V, *Err) {
			if e := num(in, a[0]); e != nil {
				return nil, e
			}
			if a[0].T == TInt {
				return a[0], nil
			}
			f := a[0].F
			if f != f || math.IsInf(f, 0) {
				return a[0], nil
			}
			t := math.Trunc(f)
			if t == f {
				return a[0], nil
			}
			if up {
				if f > 0 {
					t++
				} else if t == 0 {
					// the smallest float not less than -0.5 is zero: which zero is not said
					in.Unsupported = "math:ceil of a number in (-1, 0): sign of the zero result"
				}
			} else if f < 0 {
				t--
			}
			return Float(t), nil
		}
	}
	B("ceil", 1, 1, round(true))
	B("floor", 1, 1, round(false))
	// functions of the real line: "as a float.  Accepts int or float arguments."
	real := func(name string, f func(float64) float64) {
		B(name, 1, 1, func(in *Interp, env *Env, a []*V) (*V, *Err) {
			if e := num(in, a[0]); e != nil {
				return nil, e
			}
			x := toF(a[0])
			if x == 0 && math.Signbit(x) {
				in.Unsupported = "math function of negative zero"
			}
			return Float(f(x)), nil
		})
	}
	real("sqrt", math.Sqrt)
	real("exp", math.Exp)
	real("ln", math.Log)
	real("sin", math.Sin)
	real("cos", math.Cos)
	real("tan", math.Tan)
	// "Computed as ln(number)/ln(base)."
	B("log", 2, 2, func(in *Interp, env *Env, a []*V) (*V, *Err) {
		if e := num(in, a[0]); e != nil {
			return nil, e
		}
		if e := num(in, a[1]); e != nil {
			return nil, e
		}
		return Float(math.Log(toF(a[1])) / math.Log(toF(a[0]))), nil
	})
	// "With one argument, returns atan(radians).  With two arguments, returns
	// atan2(radians, quotient)."
	B("atan", 1, 2, func(in *Interp, env *Env, a []*V) (*V, *Err) {
		if e := num(in, a[0]); e != nil {
			return nil, e
		}
		if len(a) == 1 {
			return Float(math.Atan(toF(a[0]))), nil
		}
		if a[1].IsNil() {
			in.Unsupported = "math:atan with an explicit () second argument"
			return Float(0), nil
		}
		if !a[1].IsNumeric() {
			return nil, in.errf("second argument is not a number")
		}
		return Float(math.Atan2(toF(a[0]), toF(a[1]))), nil
	})
}

const b64Alphabet = "ABCDEFGHIJKLMNOPQRSTUVWXYZabcdefghijklmnopqrstuvwxyz0123456789+/"

// b64Encode: RFC 4648 section 4, with padding.
func b64Encode(src []byte) []byte {
	var out []byte
	for i := 0; i < len(src); i += 3 {
		var n uint32
		k := 0
		for j := 0; j < 3; j++ {
			n <<= 8
			if i+j < len(src) {
				n |= uint32(src[i+j])
				k++
			}
		}
		for j := 0; j < 4; j++ {
			if j <= k {
				out = append(out, b64Alphabet[(n>>(18-6*uint(j)))&63])
			} else {
				out = append(out, '=')
			}
		}
	}
	return out
}

// b64Decode: strict reading of RFC 4648 section 4.  odd reports inputs on which
// conforming decoders may differ (line breaks, non-zero padding bits).
func b64Decode(src []byte) (out []byte, ok bool, odd bool) {
	for _, c := range src {
		if c == '\r' || c == '\n' {
			return nil, false, true
		}
	}
	if len(src)%4 != 0 {
		return nil, false, false
	}
	for i := 0; i < len(src); i += 4 {
		q := src[i : i+4]
		pad := 0
		if q[3] == '=' {
			pad = 1
			if q[2] == '=' {
				pad = 2
			}
		}
		if pad > 0 && i+4 != len(src) {
			return nil, false, false
		}
		var n uint32
		for j := 0; j < 4-pad; j++ {
			k := strings.IndexByte(b64Alphabet, q[j])
			if k < 0 {
				return nil, false, false
			}
			n |= uint32(k) << (18 - 6*uint(j))
		}
		switch pad {
		case 0:
			out = append(out, byte(n>>16), byte(n>>8), byte(n))
		case 1:
			if n&0xff != 0 {
				odd = true
			}
			out = append(out, byte(n>>16), byte(n>>8))
		case 2:
			if n&0xffff != 0 {
				odd = true
			}
			out = append(out, byte(n>>16))
		}
	}
	return out, true, odd
}

func installBase64(mk mkPkg) {
	_, B := mk("base64")
	data := func(in *Interp, v *V) ([]byte, *Err) {
		switch v.T {
		case TStr:
			return []byte(v.S), nil
		case TBytes:
			return v.B, nil
		}
		return nil, in.errf("argument is not a string or bytes")
	}
	// "Encodes data using standard base64 encoding and returns the result as
	// bytes.  The argument may be a string or bytes value."
	B("encode", 1, 1, func(in *Interp, env *Env, a []*V) (*V, *Err) {
		d, e := data(in, a[0])
		if e != nil {
			return nil, e
		}
		return &V{T: TBytes, B: b64Encode(d), Pos: -1}, nil
	})
	// "Returns an error if the input is not valid base64."
	B("decode", 1, 1, func(in *Interp, env *Env, a []*V) (*V, *Err) {
		d, e := data(in, a[0])
		if e != nil {
			return nil, e
		}
		out, ok, odd := b64Decode(d)
		if odd {
			in.Unsupported = "base64:decode of input with line breaks or non-zero padding bits"
		}
		if !ok {
			return nil, in.errf("%s", fmt.Sprintf("illegal base64 data (%d bytes)", len(d)))
		}
		if out == nil {
			out = []byte{}
		}
		return &V{T: TBytes, B: out, Pos: -1}, nil
	})
}
