package refint

// CondEv is one entry of Interp.CondLog: what happened to the stack of
// conditions being handled (used by C18 to compare what a handler is handed
// with what the real interpreter hands it, and to classify generated cases).
//
//	"enter"   a handler is about to be called with Err; Depth counts the
//	          conditions being handled including this one
//	"leave"   that handler call is over
//	"see"     (host-cond ...) was called; Err is the condition pending for
//	          rethrow (nil: none), Depth the number of conditions being handled
//	"rethrow" (rethrow) returned Err
type CondEv struct {
	What  string
	Err   *Err
	Depth int
}

func (in *Interp) condLog(what string) {
	var e *Err
	if n := len(in.condStk); n > 0 {
		e = in.condStk[n-1]
	}
	in.CondLog = append(in.CondLog, CondEv{What: what, Err: e, Depth: len(in.condStk)})
}
