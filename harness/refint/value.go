// Package refint is a small definitional interpreter for the ELPS core
// language, written from docs/lang.md, the builtin docstrings and docs/func.md.
// It shares no code with /repo/lisp: own value type, own environments, own
// printer, own condition values.  It has no tail-call elimination, no step
// counting and no sealing — it is the reference semantics only.
package refint

import (
	"fmt"
	"math"
	"sort"
	"strconv"
	"strings"

	"github.com/luthersystems/elps/verifharness/gen"
)

type Type int

const (
	TInt Type = iota
	TFloat
	TStr
	TSym
	TList
	TVec
	TMap
	TFun
	TQuote // extra quote level wrapper (''x)
	TBytes
	TTagged // user-defined type instance: S = type name, C[0] = user data (ext.go)
)

func (t Type) String() string {
	return [...]string{"int", "float", "string", "symbol", "list", "array", "sorted-map", "function", "quote", "bytes", "tagged-value"}[t]
}

// V is a value (and, as in any lisp, also program text).
type V struct {
	T   Type
	I   int64
	F   float64
	S   string
	Q   bool   // one level of quoting carried by the value itself
	C   []*V   // list / vector cells, or the single inner value of a TQuote
	M   *Map   // TMap
	Fn  *Fun   // TFun
	B   []byte // TBytes
	Pos int    // index of the AST node this value was read from (-1 = none)
	// Sealed marks a list that is (a view of) program text: a quoted literal is
	// never modified, stable-sort sorts a fresh copy of it (only consulted when
	// Interp.MutLists is set).
	Sealed bool
}

type entry struct {
	key string
	sym bool
	val *V
}

// Map is a finite map keyed by name with a presentation flag per key.
type Map struct {
	e map[string]*entry
}

func NewMap() *Map { return &Map{e: map[string]*entry{}} }

func (m *Map) sortedKeys() []string {
	ks := make([]string, 0, len(m.e))
	for k := range m.e {
		ks = append(ks, k)
	}
	sort.Strings(ks)
	return ks
}

func (m *Map) clone() *Map {
	n := NewMap()
	for k, e := range m.e {
		n.e[k] = &entry{e.key, e.sym, e.val}
	}
	return n
}

type Fun struct {
	Name    string // for diagnostics
	Builtin func(in *Interp, env *Env, args []*V) (*V, *Err)
	Special bool // receives unevaluated arguments; result not re-evaluated
	Macro   bool // receives unevaluated arguments; result re-evaluated
	Formals []*V
	Body    []*V
	Env     *Env
	Pkg     string
	Arity   [2]int // builtins: min, max (-1 = unbounded)
	KeyOK   bool
	ID      int
}

func Int(i int64) *V     { return &V{T: TInt, I: i, Pos: -1} }
func Float(f float64) *V { return &V{T: TFloat, F: f, Pos: -1} }
func Str(s string) *V    { return &V{T: TStr, S: s, Pos: -1} }
func Sym(s string) *V    { return &V{T: TSym, S: s, Pos: -1} }
func QSym(s string) *V   { return &V{T: TSym, S: s, Q: true, Pos: -1} }
func Nil() *V            { return &V{T: TList, Pos: -1} }
func Bool(b bool) *V {
	if b {
		return Sym("true")
	}
	return Sym("false")
}
func QList(c []*V) *V { return &V{T: TList, C: c, Q: true, Pos: -1} }
func List(c []*V) *V  { return &V{T: TList, C: c, Pos: -1} }
func Vec(c []*V) *V   { return &V{T: TVec, C: c, Pos: -1} }

// Quote adds one quote level (mirrors the documented reading of 'x and ''x).
func Quote(v *V) *V {
	if !v.Q {
		cp := *v
		cp.Q = true
		return &cp
	}
	return &V{T: TQuote, Q: true, C: []*V{v}, Pos: -1}
}

func unquoteShallow(v *V) *V {
	cp := *v
	cp.Q = false
	return &cp
}

func (v *V) IsNil() bool     { return v.T == TList && len(v.C) == 0 }
func (v *V) IsNumeric() bool { return v.T == TInt || v.T == TFloat }
func (v *V) IsSeq() bool     { return v.T == TList || v.T == TVec }

// Truthy: () and the symbol false are falsey.
func Truthy(v *V) bool {
	if v.IsNil() {
		return false
	}
	if v.T == TSym && v.S == "false" {
		return false
	}
	return true
}

// FromVal converts the generator's AST node into a reference value; positions
// are assigned in pre-order (the same order the source renderer uses).
func FromVal(g gen.Val, pos *int) *V {
	my := *pos
	*pos++
	var v *V
	switch g.K {
	case "int":
		v = Int(g.I)
	case "float":
		v = Float(g.Float())
	case "str":
		v = Str(string(g.B))
	case "sym":
		v = Sym(string(g.B))
	case "list":
		c := make([]*V, len(g.L))
		for i := range g.L {
			c[i] = FromVal(g.L[i], pos)
		}
		v = List(c)
		v.Sealed = true
	default:
		panic("refint: bad gen.Val kind " + g.K)
	}
	v.Pos = my
	for i := 0; i < g.Q; i++ {
		v = Quote(v)
		v.Pos = my
	}
	return v
}

// CanonLimit bounds the canonical rendering (same constant in vcommon.Canon).
const CanonLimit = 200000

func floatCanon(f float64) string {
	if math.IsNaN(f) {
		return "NaN"
	}
	if math.IsInf(f, 1) {
		return "+Inf"
	}
	if math.IsInf(f, -1) {
		return "-Inf"
	}
	if f == 0 && math.Signbit(f) {
		return "-0.0f"
	}
	return strconv.FormatFloat(f, 'g', -1, 64) + "f"
}

// Canon renders the value in exactly the format vcommon.Canon uses for an
// *lisp.LVal, so the two sides compare as strings.
func Canon(v *V) string {
	var b strings.Builder
	canon(&b, v, 0, map[*Map]bool{})
	return b.String()
}

// HasCycle reports whether a map reachable from v contains itself.
func HasCycle(v *V) bool {
	return strings.Contains(Canon(v), "#cycle")
}

func canon(b *strings.Builder, v *V, depth int, seen map[*Map]bool) {
	if v == nil {
		b.WriteString("#nil")
		return
	}
	if depth > 200 {
		b.WriteString("#deep")
		return
	}
	if b.Len() > CanonLimit {
		// values with heavy sharing print exponentially; both Canon
		// implementations cut at the same point
		b.WriteString("#trunc")
		return
	}
	switch v.T {
	case TInt:
		b.WriteString(strconv.FormatInt(v.I, 10))
	case TFloat:
		b.WriteString(floatCanon(v.F))
	case TStr:
		b.WriteString(strconv.Quote(v.S))
	case TSym:
		if v.Q {
			b.WriteString("'")
		}
		b.WriteString(v.S)
	case TList:
		if v.Q {
			b.WriteString("'")
		}
		b.WriteString("(")
		for i, c := range v.C {
			if i > 0 {
				b.WriteString(" ")
			}
			canon(b, c, depth+1, seen)
		}
		b.WriteString(")")
	case TQuote:
		b.WriteString("'")
		canon(b, v.C[0], depth+1, seen)
	case TVec:
		b.WriteString("#vec[")
		for i, c := range v.C {
			if i > 0 {
				b.WriteString(" ")
			}
			canon(b, c, depth+1, seen)
		}
		b.WriteString("]")
	case TMap:
		if seen[v.M] {
			b.WriteString("#cycle")
			return
		}
		seen[v.M] = true
		defer delete(seen, v.M)
		b.WriteString("#map{")
		for i, k := range v.M.sortedKeys() {
			if i > 0 {
				b.WriteString(" ")
			}
			b.WriteString(strconv.Quote(k))
			b.WriteString(":")
			canon(b, v.M.e[k].val, depth+1, seen)
		}
		b.WriteString("}")
	case TBytes:
		b.WriteString(fmt.Sprintf("#bytes%v", v.B))
	case TFun:
		b.WriteString("#fn")
	case TTagged:
		canonTagged(b, v, depth, seen)
	}
}

// Print is the reference printer (documented rendering: ints in decimal,
// floats in shortest %g form, strings Go-quoted, 'x for quoted symbols and
// lists, (vector ...), (sorted-map k v ...)).  Closures are not printable by
// the reference (their rendering embeds captured bindings).
func Print(v *V) (string, bool) {
	if HasCycle(v) {
		return "", false
	}
	var b strings.Builder
	ok := print1(&b, v, false)
	return b.String(), ok
}

func print1(b *strings.Builder, v *V, onRecord bool) bool {
	q := ""
	if onRecord {
		q = "'"
	}
	switch v.T {
	case TInt:
		b.WriteString(q + strconv.FormatInt(v.I, 10))
	case TFloat:
		b.WriteString(q + strconv.FormatFloat(v.F, 'g', -1, 64))
	case TStr:
		b.WriteString(q + strconv.Quote(v.S))
	case TSym:
		if v.Q {
			q = "'"
		}
		b.WriteString(q + v.S)
	case TList:
		if v.Q {
			q = "'"
		}
		b.WriteString(q + "(")
		for i, c := range v.C {
			if i > 0 {
				b.WriteString(" ")
			}
			if !print1(b, c, false) {
				return false
			}
		}
		b.WriteString(")")
	case TQuote:
		b.WriteString("'")
		return print1(b, v.C[0], true)
	case TVec:
		if len(v.C) == 0 {
			b.WriteString(q + "(vector)")
			return true
		}
		b.WriteString(q + "(vector ")
		for i, c := range v.C {
			if i > 0 {
				b.WriteString(" ")
			}
			if !print1(b, c, false) {
				return false
			}
		}
		b.WriteString(")")
	case TMap:
		b.WriteString(q + "(sorted-map")
		for _, k := range v.M.sortedKeys() {
			e := v.M.e[k]
			b.WriteString(" ")
			if e.sym {
				b.WriteString("'" + k)
			} else {
				b.WriteString(strconv.Quote(k))
			}
			b.WriteString(" ")
			if !print1(b, e.val, false) {
				return false
			}
		}
		b.WriteString(")")
	case TBytes:
		if len(v.B) == 0 {
			b.WriteString(q + "#<bytes>")
		} else {
			b.WriteString(q + "#<bytes " + strings.Trim(fmt.Sprint(v.B), "[]") + ">")
		}
	case TFun:
		if v.Fn.Builtin != nil {
			b.WriteString("#<builtin>")
			return true
		}
		return false
	case TTagged:
		return printTagged(b, v)
	}
	return true
}
