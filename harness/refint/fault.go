package refint

// Fault injection (used by C04's ref-truncation sub-property; default off).
//
// The reference counts its EVALUATION ENTRIES: every evaluation of an
// expression (literal or not, including the second look at an unwrapped quote
// and the evaluation of a macro's expansion), every entry into the body of a
// user-defined function, every turn of dotimes and the evaluation of dotimes'
// (possibly defaulted) result form.  With Interp.FaultAt = k > 0, the k-th entry
// and every entry after it fail with condition Interp.FaultCond: this is the
// statement "from that moment on no further evaluation step succeeds" of an
// exhausted step budget / a cancelled context, expressed without any model of
// what a construct costs.  What may still happen after the fault is only what
// needs no evaluation entry: a builtin whose arguments are already evaluated
// finishes, ignore-errors turns the failure into (), `and` returns a falsey
// operand, and so on.
//
// Interp.Entries is the number of entries counted so far (also when no fault is
// configured), so an unlimited run tells how many injection points exist.

// entry accounts one evaluation entry and reports the injected failure.
func (in *Interp) entry() *Err {
	in.Entries++
	if in.FaultAt > 0 && in.Entries >= in.FaultAt {
		cond := in.FaultCond
		if cond == "" {
			cond = "step-limit-exceeded"
		}
		return in.cond(cond, []*V{Str(BuiltinMsg)}, "injected fault: no further evaluation step succeeds")
	}
	return nil
}
