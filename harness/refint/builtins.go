package refint

import (
	"fmt"
	"math"
	"sort"
	"strconv"
	"strings"
)

type bfn = func(in *Interp, env *Env, a []*V) (*V, *Err)

// funArg resolves a function designator the way the higher-order builtins
// document it: a function value, or a symbol naming a function in the current
// package (global lookup, not lexical).
func (in *Interp) funArg(v *V) (*Fun, *Err) {
	if v.T == TSym {
		g, e := in.getGlobal(v)
		if e != nil {
			return nil, e
		}
		if g.T != TFun {
			return nil, in.errf("symbol not bound to a function")
		}
		return g.Fn, nil
	}
	if v.T != TFun {
		return nil, in.errf("argument is not a function")
	}
	return v.Fn, nil
}

func (in *Interp) getGlobal(k *V) (*V, *Err) {
	name := k.S
	parts := strings.Split(name, ":")
	if len(parts) > 2 {
		return nil, in.errf("illegal symbol")
	}
	if len(parts) == 2 {
		if parts[0] == "" {
			return k, nil
		}
		p := in.Pkgs[parts[0]]
		if p == nil {
			return nil, in.errf("unknown package")
		}
		if parts[1] == "true" || parts[1] == "false" {
			return Sym(parts[1]), nil
		}
		if v, ok := p.Syms[parts[1]]; ok {
			return v, nil
		}
		return nil, in.errf("unbound symbol")
	}
	if name == "true" || name == "false" {
		return Sym(name), nil
	}
	if v, ok := in.Cur.Syms[name]; ok {
		return v, nil
	}
	return nil, in.errf("unbound symbol: %s", name)
}

func regularFun(in *Interp, f *Fun) *Err {
	if f.Special || f.Macro {
		return in.errf("not a regular function")
	}
	return nil
}

func toF(v *V) float64 {
	if v.T == TInt {
		return float64(v.I)
	}
	return v.F
}

func allNumeric(in *Interp, a []*V) *Err {
	for _, x := range a {
		if !x.IsNumeric() {
			return in.errf("argument is not a number")
		}
	}
	return nil
}

func anyFloat(a []*V) bool {
	for _, x := range a {
		if x.T == TFloat {
			return true
		}
	}
	return false
}

func numLess(a, b *V) bool {
	if a.T == TInt && b.T == TInt {
		return a.I < b.I
	}
	return toF(a) < toF(b)
}

func numEq(a, b *V) bool {
	if a.T == TInt && b.T == TInt {
		return a.I == b.I
	}
	return toF(a) == toF(b)
}

// Equal implements equal? as documented: numbers compare numerically across
// int/float, strings/symbols by text, lists and vectors elementwise, maps by
// key name and value; functions, bytes and errors are never equal.
func Equal(a, b *V) bool {
	if a.T != b.T {
		if a.IsNumeric() && b.IsNumeric() {
			return numEq(a, b)
		}
		return false
	}
	switch a.T {
	case TInt, TFloat:
		return numEq(a, b)
	case TStr, TSym:
		return a.S == b.S
	case TList, TVec:
		if len(a.C) != len(b.C) {
			return false
		}
		for i := range a.C {
			if !Equal(a.C[i], b.C[i]) {
				return false
			}
		}
		return true
	case TMap:
		if len(a.M.e) != len(b.M.e) {
			return false
		}
		for k, ea := range a.M.e {
			eb, ok := b.M.e[k]
			if !ok || !Equal(ea.val, eb.val) {
				return false
			}
		}
		return true
	case TTagged:
		return equalTagged(a, b)
	}
	return false
}

// viewOf is the documented result of cdr / rest / slice on a list or vector
// under Interp.MutLists: a view that shares its ELEMENTS' storage with the
// source (an in-place sort of either shows through the other) but cannot grow
// into it (capacity clamped); a view of a literal is as protected as the
// literal.
func viewOf(src *V, kind string, i, j int) *V {
	var v *V
	if kind == "vector" {
		v = Vec(src.C[i:j:j])
	} else {
		v = QList(src.C[i:j:j])
	}
	v.Sealed = src.Sealed
	return v
}

func seqOf(in *Interp, kind string, cells []*V) (*V, *Err) {
	switch kind {
	case "list":
		return QList(cells), nil
	case "vector":
		return Vec(cells), nil
	}
	return nil, in.errf("type specifier is invalid")
}

func typeSpec(in *Interp, v *V) (string, *Err) {
	if v.T != TSym {
		return "", in.errf("first argument is not a valid type specifier")
	}
	return v.S, nil
}

func mapKey(in *Interp, k *V) (string, bool, *Err) {
	switch k.T {
	case TStr:
		return k.S, false, nil
	case TSym:
		return k.S, true, nil
	}
	return "", false, in.errf("unhashable type")
}

func (m *Map) set(key string, sym bool, v *V) {
	if e, ok := m.e[key]; ok {
		e.val = v
		if sym {
			e.sym = true
		}
		return
	}
	m.e[key] = &entry{key, sym, v}
}

func typeName(v *V) string {
	switch v.T {
	case TVec:
		return "array"
	case TTagged:
		return v.S // the user-defined type name (ext.go)
	default:
		return v.T.String()
	}
}

func byteCells(in *Interp, v *V) ([]byte, *Err) {
	if !v.IsSeq() {
		return nil, in.errf("argument is not a sequence of bytes")
	}
	out := make([]byte, 0, len(v.C))
	for _, c := range v.C {
		if c.T != TInt {
			return nil, in.errf("value not a byte")
		}
		if c.I < 0 || c.I > 255 {
			return nil, in.errf("value overflows byte")
		}
		out = append(out, byte(c.I))
	}
	return out, nil
}

func seqLen(v *V) int {
	switch v.T {
	case TStr:
		return len(v.S)
	case TBytes:
		return len(v.B)
	case TList, TVec:
		return len(v.C)
	case TMap:
		return len(v.M.e)
	}
	return -1
}

func installBuiltins(in *Interp, p *Package) {
	B := func(name string, min, max int, f bfn) { def(p, name, builtin(name, min, max, f)) }

	// ---- host probe (registered in the user package by the harness; here it
	// lives in lisp so every package sees it) ----
	B("probe", 1, -1, func(in *Interp, env *Env, a []*V) (*V, *Err) {
		parts := make([]string, len(a)-1)
		for i, v := range a[1:] {
			parts[i] = Canon(v)
		}
		in.Trace = append(in.Trace, Event{Canon(a[0]), strings.Join(parts, " ")})
		if len(a) == 1 {
			return Nil(), nil
		}
		return a[len(a)-1], nil
	})

	B("identity", 1, 1, func(in *Interp, env *Env, a []*V) (*V, *Err) { return a[0], nil })
	B("set", 2, -1, func(in *Interp, env *Env, a []*V) (*V, *Err) {
		if a[0].T != TSym {
			return nil, in.errf("first argument is not a symbol")
		}
		if e := in.putGlobal(a[0], a[1]); e != nil {
			return nil, e
		}
		for _, d := range a[2:] {
			if d.T != TStr {
				return nil, in.errf("docstring argument is not a string")
			}
		}
		return in.getGlobal(a[0])
	})
	B("list", 0, -1, func(in *Interp, env *Env, a []*V) (*V, *Err) {
		c := make([]*V, len(a))
		copy(c, a)
		return QList(c), nil
	})
	B("vector", 0, -1, func(in *Interp, env *Env, a []*V) (*V, *Err) {
		c := make([]*V, len(a))
		copy(c, a)
		return Vec(c), nil
	})
	B("cons", 2, 2, func(in *Interp, env *Env, a []*V) (*V, *Err) {
		if a[1].T != TList {
			return nil, in.errf("second argument is not a list")
		}
		c := append([]*V{a[0]}, a[1].C...)
		return QList(c), nil
	})
	B("car", 1, 1, func(in *Interp, env *Env, a []*V) (*V, *Err) {
		if a[0].T != TList {
			return nil, in.errf("argument is not a list")
		}
		if len(a[0].C) == 0 {
			return Nil(), nil
		}
		return a[0].C[0], nil
	})
	B("cdr", 1, 1, func(in *Interp, env *Env, a []*V) (*V, *Err) {
		if a[0].T != TList {
			return nil, in.errf("argument is not a list")
		}
		if len(a[0].C) < 2 {
			return Nil(), nil
		}
		if in.MutLists {
			return viewOf(a[0], "list", 1, len(a[0].C)), nil
		}
		return QList(append([]*V{}, a[0].C[1:]...)), nil
	})
	B("rest", 1, 1, func(in *Interp, env *Env, a []*V) (*V, *Err) {
		if !a[0].IsSeq() {
			return nil, in.errf("argument is not a proper sequence")
		}
		if len(a[0].C) < 2 {
			return Nil(), nil
		}
		if in.MutLists {
			return viewOf(a[0], "list", 1, len(a[0].C)), nil
		}
		return QList(append([]*V{}, a[0].C[1:]...)), nil
	})
	B("first", 1, 1, func(in *Interp, env *Env, a []*V) (*V, *Err) {
		if !a[0].IsSeq() {
			return nil, in.errf("argument is not a proper sequence")
		}
		if len(a[0].C) == 0 {
			return Nil(), nil
		}
		return a[0].C[0], nil
	})
	B("second", 1, 1, func(in *Interp, env *Env, a []*V) (*V, *Err) {
		if !a[0].IsSeq() {
			return nil, in.errf("argument is not a proper sequence")
		}
		if len(a[0].C) < 2 {
			return Nil(), nil
		}
		return a[0].C[1], nil
	})
	B("nth", 2, 2, func(in *Interp, env *Env, a []*V) (*V, *Err) {
		if !a[0].IsSeq() {
			return nil, in.errf("first argument is not a proper sequence")
		}
		if a[1].T != TInt {
			return nil, in.errf("second argument is not an integer")
		}
		if a[1].I < 0 {
			return nil, in.errf("index cannot be negative")
		}
		if int64(len(a[0].C)) <= a[1].I {
			return Nil(), nil
		}
		return a[0].C[a[1].I], nil
	})
	B("length", 1, 1, func(in *Interp, env *Env, a []*V) (*V, *Err) {
		n := seqLen(a[0])
		if n < 0 {
			return nil, in.errf("first argument is not a list, map, vector, bytes, or a string")
		}
		return Int(int64(n)), nil
	})
	B("empty?", 1, 1, func(in *Interp, env *Env, a []*V) (*V, *Err) {
		n := seqLen(a[0])
		if n < 0 {
			return nil, in.errf("first argument is not a list, map, vector, bytes, or a string")
		}
		return Bool(n == 0), nil
	})
	B("reverse", 2, 2, func(in *Interp, env *Env, a []*V) (*V, *Err) {
		ts, e := typeSpec(in, a[0])
		if e != nil {
			return nil, e
		}
		if !a[1].IsSeq() {
			return nil, in.errf("first argument is not a proper sequence")
		}
		n := len(a[1].C)
		c := make([]*V, n)
		for i, x := range a[1].C {
			c[n-1-i] = x
		}
		return seqOf(in, ts, c)
	})
	B("append", 2, -1, func(in *Interp, env *Env, a []*V) (*V, *Err) {
		ts, e := typeSpec(in, a[0])
		if e != nil {
			return nil, e
		}
		if ts == "bytes" {
			if a[1].T != TBytes {
				return nil, in.errf("second argument is not bytes")
			}
			extra, e := byteCells(in, QList(a[2:]))
			if e != nil {
				return nil, e
			}
			return &V{T: TBytes, B: append(append([]byte{}, a[1].B...), extra...), Pos: -1}, nil
		}
		if !a[1].IsSeq() {
			return nil, in.errf("second argument is not a proper sequence")
		}
		c := append(append([]*V{}, a[1].C...), a[2:]...)
		return seqOf(in, ts, c)
	})
	// append!: "Appends values to vec, mutating it in place. Returns the modified
	// vector."  The vector keeps its identity; a view taken earlier never sees the
	// appended values ("a view cannot grow into the memory behind it"), and
	// whether it still shares the OLD elements afterwards is not documented, so
	// the reference always moves the vector to fresh storage and the generators
	// do not take views of vectors they append to.
	B("append!", 1, -1, func(in *Interp, env *Env, a []*V) (*V, *Err) {
		if a[0].T == TBytes {
			in.Unsupported = "append! on bytes"
			return Nil(), nil
		}
		if a[0].T != TVec {
			return nil, in.errf("first argument is not a vector")
		}
		a[0].C = append(append(make([]*V, 0, len(a[0].C)+len(a)-1), a[0].C...), a[1:]...)
		return a[0], nil
	})
	B("concat", 1, -1, func(in *Interp, env *Env, a []*V) (*V, *Err) {
		ts, e := typeSpec(in, a[0])
		if e != nil {
			return nil, e
		}
		switch ts {
		case "list", "vector":
			var c []*V
			for _, s := range a[1:] {
				if !s.IsSeq() {
					return nil, in.errf("argument is not a proper sequence")
				}
				c = append(c, s.C...)
			}
			if len(c) == 0 && ts == "list" {
				return Nil(), nil
			}
			return seqOf(in, ts, c)
		case "string", "bytes":
			var b []byte
			for _, s := range a[1:] {
				if seqLen(s) < 0 {
					return nil, in.errf("argument is not sequence of bytes")
				}
			}
			for _, s := range a[1:] {
				switch s.T {
				case TStr:
					b = append(b, s.S...)
				case TBytes:
					b = append(b, s.B...)
				default:
					x, e := byteCells(in, s)
					if e != nil {
						return nil, e
					}
					b = append(b, x...)
				}
			}
			if ts == "string" {
				return Str(string(b)), nil
			}
			return &V{T: TBytes, B: b, Pos: -1}, nil
		}
		return nil, in.errf("type specifier is not valid")
	})
	B("slice", 4, 4, func(in *Interp, env *Env, a []*V) (*V, *Err) {
		ts, e := typeSpec(in, a[0])
		if e != nil {
			return nil, e
		}
		s := a[1]
		if !s.IsSeq() && s.T != TStr && s.T != TBytes {
			return nil, in.errf("second argument is not a proper sequence")
		}
		if a[2].T != TInt || a[3].T != TInt {
			return nil, in.errf("index is not an integer")
		}
		n := int64(seqLen(s))
		i, j := a[2].I, a[3].I
		if i < 0 || i > n || j < 0 || j > n {
			return nil, in.errf("index out of range")
		}
		if i > j {
			return nil, in.errf("end before start")
		}
		var asBytes []byte
		var cells []*V
		isBytes := false
		switch s.T {
		case TStr:
			asBytes, isBytes = []byte(s.S[i:j]), true
		case TBytes:
			asBytes, isBytes = append([]byte{}, s.B[i:j]...), true
		default:
			if in.MutLists && (ts == "list" || ts == "vector") {
				return viewOf(s, ts, int(i), int(j)), nil
			}
			cells = append([]*V{}, s.C[i:j]...)
		}
		switch ts {
		case "string", "bytes":
			if !isBytes {
				b, e := byteCells(in, QList(cells))
				if e != nil {
					return nil, e
				}
				asBytes = b
			}
			if ts == "string" {
				return Str(string(asBytes)), nil
			}
			return &V{T: TBytes, B: asBytes, Pos: -1}, nil
		case "list", "vector":
			if isBytes {
				cells = make([]*V, len(asBytes))
				for k, b := range asBytes {
					cells[k] = Int(int64(b))
				}
			}
			return seqOf(in, ts, cells)
		}
		return nil, in.errf("type specifier is not valid")
	})
	B("zip", 2, -1, func(in *Interp, env *Env, a []*V) (*V, *Err) {
		ts, e := typeSpec(in, a[0])
		if e != nil {
			return nil, e
		}
		n := -1
		for _, l := range a[1:] {
			if !l.IsSeq() {
				return nil, in.errf("argument is not a proper list")
			}
			if n < 0 || len(l.C) < n {
				n = len(l.C)
			}
		}
		if ts != "list" && ts != "vector" {
			return nil, in.errf("type specifier is invalid")
		}
		out := make([]*V, n)
		for i := 0; i < n; i++ {
			el := make([]*V, len(a)-1)
			for j, l := range a[1:] {
				el[j] = l.C[i]
			}
			out[i], _ = seqOf(in, ts, el)
		}
		return seqOf(in, ts, out)
	})
	B("make-sequence", 2, 3, func(in *Interp, env *Env, a []*V) (*V, *Err) {
		if !a[0].IsNumeric() || !a[1].IsNumeric() {
			return nil, in.errf("argument is not numeric")
		}
		var step *V
		if len(a) == 2 {
			if a[0].T == TInt {
				step = Int(1)
			} else {
				step = Float(1)
			}
		} else {
			step = a[2]
			if !step.IsNumeric() {
				return nil, in.errf("third argument is not numeric")
			}
			if !numLess(Float(0), step) {
				return nil, in.errf("third argument is not positive")
			}
		}
		var out []*V
		for x := a[0]; numLess(x, a[1]); {
			if len(out) > 20000 {
				panic(Abort{"make-sequence too long for the reference"})
			}
			out = append(out, x)
			if x.T == TInt && step.T == TInt {
				x = Int(x.I + step.I)
			} else {
				x = Float(toF(x) + toF(step))
			}
		}
		return QList(out), nil
	})
	B("aref", 1, -1, func(in *Interp, env *Env, a []*V) (*V, *Err) {
		if a[0].T != TVec {
			return nil, in.errf("first argument is not an array")
		}
		if len(a) != 2 {
			return nil, in.errf("invalid index into array")
		}
		if a[1].T != TInt {
			return nil, in.errf("index is not an integer")
		}
		if a[1].I < 0 || a[1].I >= int64(len(a[0].C)) {
			return nil, in.errf("index out of bounds")
		}
		return a[0].C[a[1].I], nil
	})

	// ---- predicates ----
	pred := func(name string, f func(v *V) bool) {
		B(name, 1, 1, func(in *Interp, env *Env, a []*V) (*V, *Err) { return Bool(f(a[0])), nil })
	}
	pred("not", func(v *V) bool { return !Truthy(v) })
	pred("true?", Truthy)
	pred("nil?", func(v *V) bool { return v.IsNil() })
	pred("list?", func(v *V) bool { return v.T == TList })
	pred("sorted-map?", func(v *V) bool { return v.T == TMap })
	pred("array?", func(v *V) bool { return v.T == TVec })
	pred("vector?", func(v *V) bool { return v.T == TVec })
	pred("bool?", func(v *V) bool { return v.T == TSym && (v.S == "true" || v.S == "false") })
	pred("number?", func(v *V) bool { return v.IsNumeric() })
	pred("int?", func(v *V) bool { return v.T == TInt })
	pred("float?", func(v *V) bool { return v.T == TFloat })
	pred("symbol?", func(v *V) bool { return v.T == TSym })
	pred("string?", func(v *V) bool { return v.T == TStr })
	pred("bytes?", func(v *V) bool { return v.T == TBytes })
	B("equal?", 2, 2, func(in *Interp, env *Env, a []*V) (*V, *Err) {
		if HasCycle(a[0]) || HasCycle(a[1]) {
			panic(Abort{"equal? on self-containing maps is not modelled"})
		}
		return Bool(Equal(a[0], a[1])), nil
	})
	B("type", 1, 1, func(in *Interp, env *Env, a []*V) (*V, *Err) { return QSym(typeName(a[0])), nil })
	B("type?", 2, 2, func(in *Interp, env *Env, a []*V) (*V, *Err) {
		// a symbol, or a typedef made by deftype (ext.go)
		name, e := typeSpecName(in, a[0])
		if e != nil {
			return nil, e
		}
		return Bool(typeName(a[1]) == name), nil
	})

	// ---- numbers ----
	B("+", 0, -1, func(in *Interp, env *Env, a []*V) (*V, *Err) {
		if e := allNumeric(in, a); e != nil {
			return nil, e
		}
		if !anyFloat(a) {
			s := int64(0)
			for _, x := range a {
				s += x.I
			}
			return Int(s), nil
		}
		s := 0.0
		for _, x := range a {
			s += toF(x)
		}
		return Float(s), nil
	})
	B("-", 0, -1, func(in *Interp, env *Env, a []*V) (*V, *Err) {
		if e := allNumeric(in, a); e != nil {
			return nil, e
		}
		if len(a) == 0 {
			return Int(0), nil
		}
		if len(a) == 1 {
			if a[0].T == TInt {
				return Int(-a[0].I), nil
			}
			return Float(-a[0].F), nil
		}
		if !anyFloat(a) {
			d := a[0].I
			for _, x := range a[1:] {
				d -= x.I
			}
			return Int(d), nil
		}
		d := toF(a[0])
		for _, x := range a[1:] {
			d -= toF(x)
		}
		return Float(d), nil
	})
	B("*", 0, -1, func(in *Interp, env *Env, a []*V) (*V, *Err) {
		if e := allNumeric(in, a); e != nil {
			return nil, e
		}
		if !anyFloat(a) {
			p := int64(1)
			for _, x := range a {
				p *= x.I
			}
			return Int(p), nil
		}
		p := 1.0
		for _, x := range a {
			p *= toF(x)
		}
		// The documentation says only "float if any argument is a float".  Two
		// readings exist for a mixed product: multiply everything as floats,
		// or multiply the leading ints exactly (wrapping) and promote at the
		// first float.  Where they differ (int overflow of a prefix, sign of a
		// zero) the case is outside what the reference can decide.
		ip, i := int64(1), 0
		for i < len(a) && a[i].T == TInt {
			ip *= a[i].I
			i++
		}
		q := float64(ip)
		for _, x := range a[i:] {
			q *= toF(x)
		}
		if math.Float64bits(p) != math.Float64bits(q) && !(math.IsNaN(p) && math.IsNaN(q)) {
			in.Unsupported = "mixed int/float product whose value depends on the undocumented promotion point"
		}
		return Float(p), nil
	})
	B("/", 0, -1, func(in *Interp, env *Env, a []*V) (*V, *Err) {
		if e := allNumeric(in, a); e != nil {
			return nil, e
		}
		if len(a) == 0 {
			return Int(1), nil
		}
		var x *V
		var ys []*V
		if len(a) == 1 {
			x, ys = Int(1), a
		} else {
			x, ys = a[0], a[1:]
		}
		// exact integer division while every division is exact, float after
		i := 0
		for x.T == TInt && i < len(ys) {
			y := ys[i]
			if y.T != TInt || y.I == 0 {
				break
			}
			if y.I == -1 {
				x = Int(-x.I) // wraps for MinInt64, as int arithmetic does
				i++
				continue
			}
			if x.I%y.I != 0 {
				break
			}
			x = Int(x.I / y.I)
			i++
		}
		if i == len(ys) {
			return x, nil
		}
		d := toF(x)
		for _, y := range ys[i:] {
			d /= toF(y)
		}
		return Float(d), nil
	})
	B("mod", 2, 2, func(in *Interp, env *Env, a []*V) (*V, *Err) {
		if a[0].T != TInt || a[1].T != TInt {
			return nil, in.errf("argument is not an int")
		}
		if a[1].I == 0 {
			return nil, in.errf("second argument is zero")
		}
		if a[1].I == -1 {
			return Int(0), nil
		}
		return Int(a[0].I % a[1].I), nil
	})
	B("pow", 2, 2, func(in *Interp, env *Env, a []*V) (*V, *Err) {
		if !a[0].IsNumeric() || !a[1].IsNumeric() {
			return nil, in.errf("argument is not a number")
		}
		if a[0].T == TInt && a[1].T == TInt {
			if a[1].I < 0 {
				return Float(math.Pow(float64(a[0].I), float64(a[1].I))), nil
			}
			// b-fold product in wrapping int arithmetic (square-and-multiply
			// gives the same ring element)
			r, base, b := int64(1), a[0].I, a[1].I
			for b > 0 {
				if b&1 == 1 {
					r *= base
				}
				b >>= 1
				base *= base
			}
			return Int(r), nil
		}
		return Float(math.Pow(toF(a[0]), toF(a[1]))), nil
	})
	cmp := func(name string, f func(a, b *V) bool) {
		B(name, 2, 2, func(in *Interp, env *Env, a []*V) (*V, *Err) {
			if !a[0].IsNumeric() || !a[1].IsNumeric() {
				return nil, in.errf("argument is not a number")
			}
			return Bool(f(a[0], a[1])), nil
		})
	}
	cmp("<", func(a, b *V) bool { return numLess(a, b) })
	cmp(">", func(a, b *V) bool { return numLess(b, a) })
	cmp("<=", func(a, b *V) bool {
		if a.T == TInt && b.T == TInt {
			return a.I <= b.I
		}
		return toF(a) <= toF(b)
	})
	cmp(">=", func(a, b *V) bool {
		if a.T == TInt && b.T == TInt {
			return a.I >= b.I
		}
		return toF(a) >= toF(b)
	})
	cmp("=", numEq)
	B("max", 1, -1, func(in *Interp, env *Env, a []*V) (*V, *Err) {
		if e := allNumeric(in, a); e != nil {
			return nil, e
		}
		m := a[0]
		for _, x := range a[1:] {
			if numLess(m, x) {
				m = x
			}
		}
		return m, nil
	})
	B("min", 1, -1, func(in *Interp, env *Env, a []*V) (*V, *Err) {
		if e := allNumeric(in, a); e != nil {
			return nil, e
		}
		m := a[0]
		for _, x := range a[1:] {
			if numLess(x, m) {
				m = x
			}
		}
		return m, nil
	})

	// ---- strings / conversions ----
	scmp := func(name string, f func(a, b string) bool) {
		B(name, 2, 2, func(in *Interp, env *Env, a []*V) (*V, *Err) {
			if a[0].T != TStr || a[1].T != TStr {
				return nil, in.errf("argument is not a string")
			}
			return Bool(f(a[0].S, a[1].S)), nil
		})
	}
	scmp("string=", func(a, b string) bool { return a == b })
	scmp("string<", func(a, b string) bool { return a < b })
	scmp("string<=", func(a, b string) bool { return a <= b })
	scmp("string>", func(a, b string) bool { return a > b })
	scmp("string>=", func(a, b string) bool { return a >= b })
	B("symbol=", 2, 2, func(in *Interp, env *Env, a []*V) (*V, *Err) {
		if a[0].T != TSym || a[1].T != TSym {
			return nil, in.errf("argument is not a symbol")
		}
		return Bool(a[0].S == a[1].S), nil
	})
	B("to-string", 1, 1, func(in *Interp, env *Env, a []*V) (*V, *Err) {
		switch a[0].T {
		case TStr, TSym:
			return Str(a[0].S), nil
		case TBytes:
			return Str(string(a[0].B)), nil
		case TInt:
			return Str(strconv.FormatInt(a[0].I, 10)), nil
		case TFloat:
			return Str(strconv.FormatFloat(a[0].F, 'g', -1, 64)), nil
		}
		return nil, in.errf("cannot convert type to string")
	})
	B("to-int", 1, 1, func(in *Interp, env *Env, a []*V) (*V, *Err) {
		switch a[0].T {
		case TStr:
			x, err := strconv.ParseInt(a[0].S, 10, 64)
			if err != nil {
				return nil, in.errf("cannot parse int")
			}
			return Int(x), nil
		case TInt:
			return a[0], nil
		case TFloat:
			f := a[0].F
			if math.IsNaN(f) || f >= 9.2e18 || f <= -9.2e18 {
				in.Unsupported = "to-int of a float outside the int64 range (platform-defined)"
				return Int(0), nil
			}
			return Int(int64(f)), nil
		}
		return nil, in.errf("cannot convert type to int")
	})
	B("to-float", 1, 1, func(in *Interp, env *Env, a []*V) (*V, *Err) {
		switch a[0].T {
		case TStr:
			x, err := strconv.ParseFloat(a[0].S, 64)
			if err != nil {
				return nil, in.errf("cannot parse float")
			}
			return Float(x), nil
		case TInt:
			return Float(float64(a[0].I)), nil
		case TFloat:
			return a[0], nil
		}
		return nil, in.errf("cannot convert type to float")
	})
	B("to-bytes", 1, 1, func(in *Interp, env *Env, a []*V) (*V, *Err) {
		switch a[0].T {
		case TBytes:
			return a[0], nil
		case TStr:
			return &V{T: TBytes, B: []byte(a[0].S), Pos: -1}, nil
		}
		return nil, in.errf("cannot convert type to bytes")
	})


	B("format-string", 1, -1, func(in *Interp, env *Env, a []*V) (*V, *Err) {
		if a[0].T != TStr {
			return nil, in.errf("first argument is not a string")
		}
		f, vals := a[0].S, a[1:]
		var out strings.Builder
		seq, mode := 0, 0 // mode 1 sequential, 2 positional
		for i := 0; i < len(f); {
			c := f[i]
			switch {
			case c == '}':
				if i+1 < len(f) && f[i+1] == '}' {
					out.WriteByte('}')
					i += 2
					continue
				}
				return nil, in.errf("unexpected closing brace")
			case c == '{':
				if i+1 >= len(f) {
					return nil, in.errf("unclosed brace")
				}
				if f[i+1] == '{' {
					out.WriteByte('{')
					i += 2
					continue
				}
				j := strings.IndexByte(f[i+1:], '}')
				if j < 0 {
					return nil, in.errf("unclosed brace")
				}
				inner := strings.TrimSpace(f[i+1 : i+1+j])
				idx := 0
				if inner == "" {
					if mode == 2 {
						return nil, in.errf("cannot mix placeholder styles")
					}
					mode, idx = 1, seq
					seq++
				} else {
					n, err := strconv.Atoi(inner)
					if err != nil || n < 0 {
						return nil, in.errf("invalid format directive")
					}
					if mode == 1 {
						return nil, in.errf("cannot mix placeholder styles")
					}
					mode, idx = 2, n
				}
				if idx >= len(vals) {
					return nil, in.errf("not enough values")
				}
				v := vals[idx]
				if v.T == TStr && !v.Q {
					out.WriteString(v.S)
				} else {
					txt, ok := Print(v)
					if !ok {
						in.Unsupported = "format-string of a closure"
					}
					out.WriteString(txt)
				}
				i += j + 2
			default:
				out.WriteByte(c)
				i++
			}
		}
		return Str(out.String()), nil
	})


	B("append-bytes", 2, 2, func(in *Interp, env *Env, a []*V) (*V, *Err) {
		if a[0].T != TBytes {
			return nil, in.errf("first argument is not bytes")
		}
		var extra []byte
		switch a[1].T {
		case TStr:
			extra = []byte(a[1].S)
		case TBytes:
			extra = a[1].B
		default:
			x, e := byteCells(in, a[1])
			if e != nil {
				return nil, e
			}
			extra = x
		}
		return &V{T: TBytes, B: append(append([]byte{}, a[0].B...), extra...), Pos: -1}, nil
	})
	// get-default and curry-function are documented by their equivalences
	def(p, "get-default", macroB("get-default", 3, 3, func(in *Interp, env *Env, a []*V) (*V, *Err) {
		// (get-default m k d) == (let ((mm m) (kk k)) (if (key? mm kk) (get mm kk) d)) with fresh names
		in.gensym += 2
		mm, kk := Sym(fmt.Sprintf("gen%08d", in.gensym-1)), Sym(fmt.Sprintf("gen%08d", in.gensym))
		return Quote(List([]*V{Sym("lisp:let"), List([]*V{List([]*V{mm, a[0]}), List([]*V{kk, a[1]})}),
			List([]*V{Sym("lisp:if"), List([]*V{Sym("lisp:key?"), mm, kk}), List([]*V{Sym("lisp:get"), mm, kk}), a[2]})})), nil
	}))
	def(p, "curry-function", macroB("curry-function", 1, -1, func(in *Interp, env *Env, a []*V) (*V, *Err) {
		// (curry-function f a...) == (lambda (&rest rest) (apply f a... rest))
		in.gensym++
		r := Sym(fmt.Sprintf("gen%08d", in.gensym))
		call := append([]*V{Sym("lisp:apply"), a[0]}, a[1:]...)
		call = append(call, r)
		return List([]*V{Sym("lambda"), List([]*V{Sym("&rest"), r}), List(call)}), nil
	}))

	// ---- maps ----
	B("sorted-map", 0, -1, func(in *Interp, env *Env, a []*V) (*V, *Err) {
		if len(a)%2 != 0 {
			return nil, in.errf("uneven number of arguments")
		}
		m := NewMap()
		for i := 0; i < len(a); i += 2 {
			k, sym, e := mapKey(in, a[i])
			if e != nil {
				return nil, e
			}
			m.set(k, sym, a[i+1])
		}
		return &V{T: TMap, M: m, Pos: -1}, nil
	})
	assoc := func(mutate bool) bfn {
		return func(in *Interp, env *Env, a []*V) (*V, *Err) {
			var m *V
			switch {
			case a[0].IsNil():
				if mutate {
					return nil, in.errf("first argument is nil")
				}
				m = &V{T: TMap, M: NewMap(), Pos: -1}
			case a[0].T != TMap:
				return nil, in.errf("first argument is not a map")
			case mutate:
				m = a[0]
			default:
				m = &V{T: TMap, M: a[0].M.clone(), Pos: -1}
			}
			k, sym, e := mapKey(in, a[1])
			if e != nil {
				return nil, e
			}
			m.M.set(k, sym, a[2])
			return m, nil
		}
	}
	B("assoc", 3, 3, assoc(false))
	B("assoc!", 3, 3, assoc(true))
	dissoc := func(mutate bool) bfn {
		return func(in *Interp, env *Env, a []*V) (*V, *Err) {
			var m *V
			switch {
			case a[0].IsNil():
				if mutate {
					return nil, in.errf("first argument is nil")
				}
				m = &V{T: TMap, M: NewMap(), Pos: -1}
			case a[0].T != TMap:
				return nil, in.errf("first argument is not a map")
			case mutate:
				m = a[0]
			default:
				m = &V{T: TMap, M: a[0].M.clone(), Pos: -1}
			}
			k, _, e := mapKey(in, a[1])
			if e != nil {
				return nil, e
			}
			delete(m.M.e, k)
			return m, nil
		}
	}
	B("dissoc", 2, 2, dissoc(false))
	B("dissoc!", 2, 2, dissoc(true))
	B("get", 2, 2, func(in *Interp, env *Env, a []*V) (*V, *Err) {
		if a[0].IsNil() {
			return Nil(), nil
		}
		if a[0].T != TMap {
			return nil, in.errf("first argument is not a map")
		}
		k, _, e := mapKey(in, a[1])
		if e != nil {
			return nil, e
		}
		if en, ok := a[0].M.e[k]; ok {
			return en.val, nil
		}
		return Nil(), nil
	})
	B("key?", 2, 2, func(in *Interp, env *Env, a []*V) (*V, *Err) {
		if a[0].T != TMap {
			return nil, in.errf("first argument is not a map")
		}
		k, _, e := mapKey(in, a[1])
		if e != nil {
			return nil, e
		}
		_, ok := a[0].M.e[k]
		return Bool(ok), nil
	})
	B("keys", 1, 1, func(in *Interp, env *Env, a []*V) (*V, *Err) {
		if a[0].T != TMap {
			return nil, in.errf("first argument is not a map")
		}
		ks := a[0].M.sortedKeys()
		out := make([]*V, len(ks))
		for i, k := range ks {
			if a[0].M.e[k].sym {
				out[i] = QSym(k)
			} else {
				out[i] = Str(k)
			}
		}
		return QList(out), nil
	})

	// ---- higher order ----
	B("funcall", 1, -1, func(in *Interp, env *Env, a []*V) (*V, *Err) {
		f, e := in.funArg(a[0])
		if e != nil {
			return nil, e
		}
		if e := regularFun(in, f); e != nil {
			return nil, e
		}
		return in.Apply(env, f, a[1:], in.curNode)
	})
	B("apply", 1, -1, func(in *Interp, env *Env, a []*V) (*V, *Err) {
		if len(a) < 2 {
			return nil, in.errf("last argument must be a list")
		}
		f, e := in.funArg(a[0])
		if e != nil {
			return nil, e
		}
		tail := a[len(a)-1]
		if tail.T != TList {
			return nil, in.errf("last argument is not a list")
		}
		if e := regularFun(in, f); e != nil {
			return nil, e
		}
		args := append(append([]*V{}, a[1:len(a)-1]...), tail.C...)
		return in.Apply(env, f, args, in.curNode)
	})
	B("map", 3, 3, func(in *Interp, env *Env, a []*V) (*V, *Err) {
		nilRet := a[0].IsNil()
		if !nilRet && a[0].T != TSym {
			return nil, in.errf("first argument is not a valid type specification")
		}
		f, e := in.funArg(a[1])
		if e != nil {
			return nil, e
		}
		if e := regularFun(in, f); e != nil {
			return nil, e
		}
		if !a[2].IsSeq() {
			return nil, in.errf("third argument is not a proper sequence")
		}
		if !nilRet && a[0].S != "list" && a[0].S != "vector" {
			return nil, in.errf("type specifier is invalid")
		}
		out := make([]*V, len(a[2].C))
		for i, x := range a[2].C {
			v, e := in.Apply(env, f, []*V{x}, in.curNode)
			if e != nil {
				return nil, e
			}
			out[i] = v
		}
		if nilRet {
			return Nil(), nil
		}
		return seqOf(in, a[0].S, out)
	})
	B("foldl", 3, 3, func(in *Interp, env *Env, a []*V) (*V, *Err) {
		f, e := in.funArg(a[0])
		if e != nil {
			return nil, e
		}
		if e := regularFun(in, f); e != nil {
			return nil, e
		}
		if !a[2].IsSeq() {
			return nil, in.errf("third argument is not a proper sequence")
		}
		acc := a[1]
		for _, x := range a[2].C {
			v, e := in.Apply(env, f, []*V{acc, x}, in.curNode)
			if e != nil {
				return nil, e
			}
			acc = v
		}
		return acc, nil
	})
	B("foldr", 3, 3, func(in *Interp, env *Env, a []*V) (*V, *Err) {
		f, e := in.funArg(a[0])
		if e != nil {
			return nil, e
		}
		if e := regularFun(in, f); e != nil {
			return nil, e
		}
		if !a[2].IsSeq() {
			return nil, in.errf("third argument is not a proper sequence")
		}
		acc := a[1]
		for i := len(a[2].C) - 1; i >= 0; i-- {
			v, e := in.Apply(env, f, []*V{a[2].C[i], acc}, in.curNode)
			if e != nil {
				return nil, e
			}
			acc = v
		}
		return acc, nil
	})
	filter := func(keep bool) bfn {
		return func(in *Interp, env *Env, a []*V) (*V, *Err) {
			ts, e := typeSpec(in, a[0])
			if e != nil {
				return nil, e
			}
			f, e := in.funArg(a[1])
			if e != nil {
				return nil, e
			}
			if e := regularFun(in, f); e != nil {
				return nil, e
			}
			if !a[2].IsSeq() {
				return nil, in.errf("third argument is not a proper sequence")
			}
			if ts != "list" && ts != "vector" {
				return nil, in.errf("type specifier is invalid")
			}
			var out []*V
			for _, x := range a[2].C {
				v, e := in.Apply(env, f, []*V{x}, in.curNode)
				if e != nil {
					return nil, e
				}
				if Truthy(v) == keep {
					out = append(out, x)
				}
			}
			return seqOf(in, ts, out)
		}
	}
	B("select", 3, 3, filter(true))
	B("reject", 3, 3, filter(false))
	B("all?", 2, 2, func(in *Interp, env *Env, a []*V) (*V, *Err) {
		f, e := in.funArg(a[0])
		if e != nil {
			return nil, e
		}
		if !a[1].IsSeq() {
			return nil, in.errf("second argument is not a proper sequence")
		}
		for _, x := range a[1].C {
			if f.Special || f.Macro {
				in.Unsupported = "special function as predicate"
				return Nil(), nil
			}
			v, e := in.Apply(env, f, []*V{x}, in.curNode)
			if e != nil {
				return nil, e
			}
			if !Truthy(v) {
				return Bool(false), nil
			}
		}
		return Bool(true), nil
	})
	B("any?", 2, 2, func(in *Interp, env *Env, a []*V) (*V, *Err) {
		f, e := in.funArg(a[0])
		if e != nil {
			return nil, e
		}
		if !a[1].IsSeq() {
			return nil, in.errf("second argument is not a list")
		}
		for _, x := range a[1].C {
			if f.Special || f.Macro {
				in.Unsupported = "special function as predicate"
				return Nil(), nil
			}
			v, e := in.Apply(env, f, []*V{x}, in.curNode)
			if e != nil {
				return nil, e
			}
			if Truthy(v) {
				return v, nil
			}
		}
		return Bool(false), nil
	})



	// ---- function combinators ----
	formalsOf := func(f *Fun) []*V {
		if f.Builtin == nil {
			return f.Formals
		}
		var fs []*V
		for i := 0; i < f.Arity[0]; i++ {
			fs = append(fs, Sym(fmt.Sprintf("p%d", i+1)))
		}
		if f.Arity[1] < 0 {
			fs = append(fs, Sym("&rest"), Sym("r"))
		} else if f.Arity[1] > f.Arity[0] {
			fs = append(fs, Sym("&optional"))
			for i := f.Arity[0]; i < f.Arity[1]; i++ {
				fs = append(fs, Sym(fmt.Sprintf("o%d", i+1)))
			}
		}
		return fs
	}
	fv := func(f *Fun) *V { return &V{T: TFun, Fn: f, Pos: -1} }
	B("compose", 2, 2, func(in *Interp, env *Env, a []*V) (*V, *Err) {
		f, e := in.funArg(a[0])
		if e != nil {
			return nil, e
		}
		if e := regularFun(in, f); e != nil {
			return nil, e
		}
		g, e := in.funArg(a[1])
		if e != nil {
			return nil, e
		}
		if e := regularFun(in, g); e != nil {
			return nil, e
		}
		// (compose f g) is (lambda <g's formals> (f (g ...)))
		gf := formalsOf(g)
		call := []*V{Sym("lisp:apply"), fv(g)}
		var rest *V
		for i, s := range gf {
			if s.S == "&optional" {
				continue
			}
			if s.S == "&key" {
				in.Unsupported = "compose over a function with keyword parameters"
				continue
			}
			if s.S == "&rest" {
				if i+1 < len(gf) {
					rest = gf[i+1]
				}
				break
			}
			call = append(call, Sym(s.S))
		}
		if rest != nil {
			call = append(call, Sym(rest.S))
		} else {
			call = append(call, Nil())
		}
		body := List([]*V{Sym("lisp:funcall"), fv(f), List(call)})
		return in.newLambda(env, List(gf), []*V{body})
	})
	B("flip", 1, 1, func(in *Interp, env *Env, a []*V) (*V, *Err) {
		f, e := in.funArg(a[0])
		if e != nil {
			return nil, e
		}
		if e := regularFun(in, f); e != nil {
			return nil, e
		}
		if len(formalsOf(f)) < 2 {
			return nil, in.errf("argument is not a function of two arguments")
		}
		body := List([]*V{fv(f), Sym("y"), Sym("x")})
		return in.newLambda(env, List([]*V{Sym("x"), Sym("y")}), []*V{body})
	})
	B("unpack", 2, 2, func(in *Interp, env *Env, a []*V) (*V, *Err) {
		f, e := in.funArg(a[0])
		if e != nil {
			return nil, e
		}
		if a[1].T != TList {
			return nil, in.errf("last argument is not a list")
		}
		if e := regularFun(in, f); e != nil {
			return nil, e
		}
		return in.Apply(env, f, append([]*V{}, a[1].C...), in.curNode)
	})
	B("search-sorted", 2, 2, func(in *Interp, env *Env, a []*V) (*V, *Err) {
		if a[0].T != TInt {
			return nil, in.errf("first argument is not an integer")
		}
		f, e := in.funArg(a[1])
		if e != nil {
			return nil, e
		}
		if f.Special || f.Macro {
			in.Unsupported = "special function as search predicate"
			return Nil(), nil
		}
		// "Equivalent to Go's sort.Search"
		lo, hi := int64(0), a[0].I
		if hi < 0 {
			hi = 0
		}
		for lo < hi {
			h := int64(uint64(lo+hi) >> 1)
			v, e := in.Apply(env, f, []*V{Int(h)}, in.curNode)
			if e != nil {
				return nil, e
			}
			if !Truthy(v) {
				lo = h + 1
			} else {
				hi = h
			}
		}
		return Int(lo), nil
	})

	// ---- sorting ----
	B("insert-index", 4, 4, func(in *Interp, env *Env, a []*V) (*V, *Err) {
		ts, e := typeSpec(in, a[0])
		if e != nil {
			return nil, e
		}
		if !a[1].IsSeq() {
			return nil, in.errf("second argument is not a proper sequence")
		}
		if a[2].T != TInt {
			return nil, in.errf("third argument is not an integer")
		}
		if a[2].I < 0 || a[2].I > int64(len(a[1].C)) {
			return nil, in.errf("index out of bounds")
		}
		if ts != "list" && ts != "vector" {
			return nil, in.errf("type specifier is invalid")
		}
		i := int(a[2].I)
		out := append(append(append([]*V{}, a[1].C[:i]...), a[3]), a[1].C[i:]...)
		return seqOf(in, ts, out)
	})
	// stable-sort: documented as a stable sort by the binary less-predicate,
	// optionally over keys extracted by key-fun.  The reference uses insertion
	// sort (stable by construction) and, because the NUMBER and ORDER of
	// predicate calls is not documented, requires the predicate to be free of
	// probe effects (the generator guarantees it).
	B("stable-sort", 2, 3, func(in *Interp, env *Env, a []*V) (*V, *Err) {
		less, e := in.funArg(a[0])
		if e != nil {
			return nil, e
		}
		if !a[1].IsSeq() {
			return nil, in.errf("second argument is not a proper list")
		}
		var key *Fun
		if len(a) == 3 {
			key, e = in.funArg(a[2])
			if e != nil {
				return nil, e
			}
		}
		if less.Special || less.Macro || (key != nil && (key.Special || key.Macro)) {
			in.Unsupported = "special function as sort predicate"
			return Nil(), nil
		}
		cells := append([]*V{}, a[1].C...)
		keys := make([]*V, len(cells))
		for i, c := range cells {
			keys[i] = c
		}
		lessFn := func(x, y *V) (bool, *Err) {
			if key != nil {
				kx, e := in.Apply(env, key, []*V{x}, in.curNode)
				if e != nil {
					return false, e
				}
				ky, e := in.Apply(env, key, []*V{y}, in.curNode)
				if e != nil {
					return false, e
				}
				x, y = kx, ky
			}
			v, e := in.Apply(env, less, []*V{x, y}, in.curNode)
			if e != nil {
				return false, e
			}
			return Truthy(v), nil
		}
		for i := 1; i < len(cells); i++ {
			for j := i; j > 0; j-- {
				lt, e := lessFn(cells[j], cells[j-1])
				if e != nil {
					if in.MutLists && !a[1].Sealed {
						// which elements have already moved when the predicate
						// fails is not documented
						in.Unsupported = "in-place sort interrupted by a failing predicate"
					}
					return nil, e
				}
				if !lt {
					break
				}
				cells[j], cells[j-1] = cells[j-1], cells[j]
			}
		}
		if in.MutLists {
			// "A mutable list is sorted in place ... A quoted program literal is
			// never modified -- its elements are sorted into a fresh list"
			if a[1].Sealed {
				if a[1].T == TVec {
					in.Unsupported = "stable-sort of a vector slice of a literal"
					return Nil(), nil
				}
				out := *a[1]
				out.Sealed = false
				out.C = cells
				return &out, nil
			}
			copy(a[1].C, cells)
			return a[1], nil
		}
		// sorts in place: the result is the same container kind as the input
		if a[1].T == TVec {
			a[1].C = cells
			return a[1], nil
		}
		// lists: a mutable list is sorted in place, a literal is copied; the
		// reference value model has immutable lists, so return the sorted list
		// with the input's quoting
		out := *a[1]
		out.C = cells
		return &out, nil
	})
	B("insert-sorted", 4, 5, func(in *Interp, env *Env, a []*V) (*V, *Err) {
		ts, e := typeSpec(in, a[0])
		if e != nil {
			return nil, e
		}
		if !a[1].IsSeq() {
			return nil, in.errf("second argument is not a proper sequence")
		}
		if a[2].T != TFun {
			return nil, in.errf("third argument is not a function")
		}
		p := a[2].Fn
		var key *Fun
		if len(a) == 5 {
			key, e = in.funArg(a[4])
			if e != nil {
				return nil, e
			}
		}
		if p.Special || p.Macro || (key != nil && (key.Special || key.Macro)) {
			in.Unsupported = "special function as sort predicate"
			return Nil(), nil
		}
		// Go's sort.Search semantics (documented for search-sorted): smallest
		// index i for which (p item elem_i) is true, assuming monotonicity;
		// binary search probes are not documented, so the generator uses
		// effect-free predicates and monotone inputs are not required: the
		// reference replays the same binary search.
		n := len(a[1].C)
		lo, hi := 0, n
		for lo < hi {
			h := int(uint(lo+hi) >> 1)
			x, y := a[3], a[1].C[h]
			if key != nil {
				kx, e := in.Apply(env, key, []*V{x}, in.curNode)
				if e != nil {
					return nil, e
				}
				ky, e := in.Apply(env, key, []*V{y}, in.curNode)
				if e != nil {
					return nil, e
				}
				x, y = kx, ky
			}
			v, e := in.Apply(env, p, []*V{x, y}, in.curNode)
			if e != nil {
				return nil, e
			}
			if !Truthy(v) {
				lo = h + 1
			} else {
				hi = h
			}
		}
		if ts != "list" && ts != "vector" {
			return nil, in.errf("type specifier is invalid")
		}
		out := append(append(append([]*V{}, a[1].C[:lo]...), a[3]), a[1].C[lo:]...)
		return seqOf(in, ts, out)
	})



	B("load-string", 1, 3, func(in *Interp, env *Env, a []*V) (*V, *Err) {
		if a[0].T != TStr {
			return nil, in.errf("first argument is not a string")
		}
		forms, ok := in.Sources[a[0].S]
		if !ok {
			in.Unsupported = "load-string of a text the generator did not register"
			return Nil(), nil
		}
		// evaluated in the root environment; the current package is restored
		// for the caller afterwards
		saved := in.Cur
		defer func() { in.Cur = saved }()
		var ret *V = Nil()
		for _, f := range forms {
			v, e := in.Eval(in.Root, f)
			if e != nil {
				return nil, e
			}
			ret = v
		}
		return ret, nil
	})

	// ---- packages ----
	nameArg := func(in *Interp, v *V) (string, *Err) {
		if v.T != TSym && v.T != TStr {
			return "", in.errf("argument is not a symbol or a string")
		}
		return v.S, nil
	}
	B("in-package", 1, -1, func(in *Interp, env *Env, a []*V) (*V, *Err) {
		name, e := nameArg(in, a[0])
		if e != nil {
			return nil, e
		}
		p := in.Pkgs[name]
		if p == nil {
			p = &Package{Name: name, Syms: map[string]*V{}}
			in.Pkgs[name] = p
			in.Cur = p
			in.usePackage(in.Pkgs[LangPkg])
		}
		in.Cur = p
		for _, d := range a[1:] {
			if d.T != TStr {
				return nil, in.errf("docstring argument is not a string")
			}
		}
		return Nil(), nil
	})
	B("use-package", 0, -1, func(in *Interp, env *Env, a []*V) (*V, *Err) {
		for _, x := range a {
			name, e := nameArg(in, x)
			if e != nil {
				return nil, e
			}
			p := in.Pkgs[name]
			if p == nil {
				return nil, in.errf("unknown package")
			}
			// copies the exported bindings as they are now, in export order
			for _, ex := range p.Exports {
				v, ok := p.Syms[ex]
				if !ok {
					if ex == "true" || ex == "false" {
						continue
					}
					return nil, in.errf("package %s: unbound symbol %s", name, ex)
				}
				if ex == "true" || ex == "false" {
					continue
				}
				in.Cur.Syms[ex] = v
			}
		}
		return Nil(), nil
	})
	var export func(in *Interp, a []*V) *Err
	export = func(in *Interp, a []*V) *Err {
		for _, x := range a {
			switch x.T {
			case TSym, TStr:
				found := false
				for _, e := range in.Cur.Exports {
					if e == x.S {
						found = true
					}
				}
				if !found {
					in.Cur.Exports = append(in.Cur.Exports, x.S)
					sort.Strings(in.Cur.Exports)
				}
			case TList:
				if e := export(in, x.C); e != nil {
					return e
				}
			default:
				return in.errf("argument is not a symbol, a string, or a list of valid types")
			}
		}
		return nil
	}
	B("export", 0, -1, func(in *Interp, env *Env, a []*V) (*V, *Err) {
		if e := export(in, a); e != nil {
			return nil, e
		}
		return Nil(), nil
	})

	// ---- conditions ----
	B("error", 1, -1, func(in *Interp, env *Env, a []*V) (*V, *Err) {
		if a[0].T != TSym {
			return nil, in.errf("condition type is not a symbol")
		}
		e := in.cond(a[0].S, append([]*V{}, a[1:]...), "")
		e.User = true
		return nil, e
	})
	B("rethrow", 0, 0, func(in *Interp, env *Env, a []*V) (*V, *Err) {
		if len(in.condStk) == 0 {
			return nil, in.errf("rethrow: not inside a handler-bind handler")
		}
		in.condLog("rethrow")
		return nil, in.condStk[len(in.condStk)-1]
	})
	B("host-cond", 1, 1, func(in *Interp, env *Env, a []*V) (*V, *Err) {
		in.condLog("see")
		id := 0
		if n := len(in.condStk); n > 0 {
			id = in.condStk[n-1].ID
		}
		in.CondIDs = append(in.CondIDs, id)
		in.Trace = append(in.Trace, Event{"host-cond", Canon(a[0])})
		return Nil(), nil
	})
	B("host-panic-handler", 1, -1, func(in *Interp, env *Env, a []*V) (*V, *Err) {
		in.Trace = append(in.Trace, Event{"host-panic-handler", Canon(a[0])})
		e := in.cond("internal-panic", []*V{Str(BuiltinMsg)}, "host panic in handler")
		e.Panic = true
		return nil, e
	})
	B("host-panic", 1, 1, func(in *Interp, env *Env, a []*V) (*V, *Err) {
		in.Trace = append(in.Trace, Event{"host-panic", Canon(a[0])})
		e := in.cond("internal-panic", []*V{Str(BuiltinMsg)}, "host panic")
		e.Panic = true
		return nil, e
	})
	B("gensym", 0, 0, func(in *Interp, env *Env, a []*V) (*V, *Err) {
		// documented as "a new unique symbol"; the per-runtime counter naming
		// (genNNNNNNNN) is what the printer shows
		in.gensym++
		return Sym(fmt.Sprintf("gen%08d", in.gensym)), nil
	})
	mexp := func(once bool) bfn {
		return func(in *Interp, env *Env, a []*V) (*V, *Err) {
			form := a[0]
			if form.T != TList {
				return nil, in.errf("first argument is not a list")
			}
			for depth := 0; ; depth++ {
				if depth > 1000 {
					return nil, in.errf("macro expansion depth exceeded")
				}
				if form.IsNil() {
					return form, nil
				}
				head := form.C[0]
				if head.T != TSym {
					return form, nil
				}
				hv, e := in.lookupSym(env, head)
				if e != nil || hv.T != TFun || !hv.Fn.Macro {
					return form, nil
				}
				pop := in.push(hv.Fn.Name, in.curNode)
				r, e := in.expandOnce(env, hv.Fn, form.C[1:])
				pop()
				if e != nil {
					return nil, e
				}
				r = Quote(unquoteShallow(r))
				if once || r.T != TList {
					return r, nil
				}
				form = r
			}
		}
	}
	B("macroexpand", 1, 1, mexp(false))
	B("macroexpand-1", 1, 1, mexp(true))
	B("eval", 1, 1, func(in *Interp, env *Env, a []*V) (*V, *Err) {
		if a[0].T == TQuote {
			return a[0].C[0], nil
		}
		return in.Eval(env, unquoteShallow(a[0]))
	})
}
