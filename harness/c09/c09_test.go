// C09: parsed programs are immutable and runtimes isolated under any
// interleaving.
//
// Sub-properties
//
//	loads       targeted programs (gen_test.go): one Program loaded k times in
//	            the same runtime and in fresh runtimes vs fresh parses; sealed
//	            fingerprint unchanged after every load
//	general     the same oracle over gen.GenProgram's core-language programs
//	literal     a literal-returning function evaluated before / after values
//	            obtained from it were sorted, appended to, sliced ...: equal to
//	            the generator's own model of the literal every time
//	concurrent  G goroutines, each with its own runtime and private prelude /
//	            limits, load the SAME Program (also run under -race)
//	isolation   what runtime A evaluates / defines / mutates / configures is
//	            invisible to runtimes B created before, during and after
//	sweep       every exported function of every package applied to values
//	            obtained from a literal, result fed to the in-place builtins
//	            (sweep_test.go; oracle = literal)
package c09

import (
	"fmt"
	"os"
	"strings"
	"sync"
	"testing"

	"github.com/luthersystems/elps/internal/astraw"
	"github.com/luthersystems/elps/lisp"
	"github.com/luthersystems/elps/parser"
	"github.com/luthersystems/elps/verifharness/gen"
	"github.com/luthersystems/elps/verifharness/vcommon"
	"pgregory.net/rapid"
)

// ---------- parsing, fingerprints, transcripts ----------

func parse(src string) (lisp.Program, error) {
	return lisp.ReadProgram(parser.NewReader(), "test.lisp", strings.NewReader(src))
}

func fingerprint(p lisp.Program) uint64 {
	return lisp.SealedASTFingerprint(astraw.Exprs(p))
}

// Limits is the JSON-serialisable part of a runtime configuration.
type Limits struct {
	MaxSteps    int64 `json:"max_steps"`
	MaxPhysical int   `json:"max_physical,omitempty"`
	MaxAlloc    int   `json:"max_alloc,omitempty"`
	MaxNesting  int   `json:"max_nesting,omitempty"`
}

var defaultLimits = Limits{MaxSteps: 200000, MaxPhysical: 2000, MaxAlloc: 100000}

func (l Limits) cfg() vcommon.Cfg {
	if l.MaxSteps <= 0 {
		l.MaxSteps = defaultLimits.MaxSteps
	}
	return vcommon.Cfg{MaxSteps: l.MaxSteps, MaxPhysical: l.MaxPhysical, MaxAlloc: l.MaxAlloc, MaxNesting: l.MaxNesting}
}

// transcript is everything the host observes of one load: canonical value or
// condition name, rendered text, error message, captured stderr, and the probe
// trace with the step index of every event.
type transcript struct {
	s     string
	panic bool
	isErr bool
	bad   string // first probe event whose "=<canon>" tag disagrees with its payload
}

func loadOnce(rt *vcommon.Rt, p lisp.Program) transcript {
	rt.Trace = rt.Trace[:0]
	rt.Stderr.Reset()
	o := rt.Observe(rt.Env.LoadProgram(p))
	var b strings.Builder
	b.WriteString("result: ")
	b.WriteString(o.Key())
	if o.IsErr {
		b.WriteString("\nmessage: ")
		b.WriteString(o.Msg)
	} else {
		b.WriteString("\ntext: ")
		b.WriteString(o.Text)
	}
	b.WriteString("\nstderr: ")
	b.WriteString(rt.Stderr.String())
	b.WriteString("\ntrace:\n")
	bad := ""
	for _, e := range rt.Trace {
		fmt.Fprintf(&b, "%s|%s|@%d\n", e.Tag, e.Payload, e.Steps)
		// a tag of the form "=<canon>" states the value the generator's
		// model gives the probed expression (a template / quoted literal)
		if bad == "" && strings.HasPrefix(e.Tag, "\"=") && strings.HasSuffix(e.Tag, "\"") {
			if want := e.Tag[2 : len(e.Tag)-1]; e.Payload != want {
				bad = fmt.Sprintf("a literal that the model says is %s was observed as %s", want, e.Payload)
			}
		}
	}
	return transcript{s: b.String(), panic: o.Panic, isErr: o.IsErr, bad: bad}
}

func firstDiff(a, b string) string {
	la, lb := strings.Split(a, "\n"), strings.Split(b, "\n")
	for i := 0; i < len(la) || i < len(lb); i++ {
		var x, y string
		if i < len(la) {
			x = la[i]
		}
		if i < len(lb) {
			y = lb[i]
		}
		if x != y {
			return fmt.Sprintf("line %d:\n  got : %s\n  want: %s", i+1, clip(x), clip(y))
		}
	}
	return "(no difference)"
}

func clip(s string) string {
	if len(s) > 400 {
		return s[:400] + "…"
	}
	return s
}

// sinkFamily names the in-place builtin families a source text mentions, for
// failure keys: a different defect gets a different key.
func sinkFamily(src string) string {
	var f []string
	for _, n := range []string{"unquote-splicing", "stable-sort", "append!", "append-bytes!", "assoc!", "dissoc!", "elpspath:?set!", "elpspath:?del!", "elpspath:?nil!",
		"append 'vector", "slice 'vector", "macroexpand", "insert-sorted", "insert-index", "s:validate"} {
		if strings.Contains(src, "("+n+" ") {
			f = append(f, strings.ReplaceAll(n, " ", "-"))
		}
	}
	if len(f) == 0 {
		return "none"
	}
	if len(f) > 3 {
		return fmt.Sprintf("%s+%d", strings.Join(f[:3], "+"), len(f)-3)
	}
	return strings.Join(f, "+")
}

// ---------- loads: k loads, same runtime and fresh runtimes ----------

// Case is one shared program plus the private preludes of the runtimes that
// load it.
type Case struct {
	Preludes []string `json:"preludes"` // Preludes[0] is used by loads; all by concurrent
	Limits   []Limits `json:"limits,omitempty"`
	Src      string   `json:"src"`
	K        int      `json:"k"`
	G        int      `json:"g,omitempty"`
	Routes   []string `json:"routes,omitempty"`
}

func (c Case) prelude(i int) string {
	if len(c.Preludes) == 0 {
		return ""
	}
	return c.Preludes[i%len(c.Preludes)]
}

func (c Case) limits(i int) Limits {
	if len(c.Limits) == 0 {
		return defaultLimits
	}
	return c.Limits[i%len(c.Limits)]
}

func classifyRoutes(c Case, ctx *vcommon.Ctx) (nontrivial bool) {
	for _, r := range c.Routes {
		ctx.Class(r)
		if strings.HasPrefix(r, "route:") {
			nontrivial = true
		}
	}
	return
}

// newPrepared builds a runtime and loads the private prelude from its OWN parse.
func newPrepared(l Limits, prelude string) (*vcommon.Rt, *vcommon.Failure) {
	// the private prelude runs under the default limits; the variant's own
	// limits are configured afterwards (configuration is part of what differs
	// between the runtimes sharing a Program)
	rt := vcommon.NewRuntime(defaultLimits.cfg())
	defer rt.Apply(l.cfg())
	if prelude != "" {
		pp, err := parse(prelude)
		if err != nil {
			return nil, vcommon.Failf("harness/prelude-parse", "prelude does not parse: %v\n%s", err, prelude)
		}
		if t := loadOnce(rt, pp); t.isErr {
			return nil, vcommon.Failf("harness/prelude-error", "prelude fails: %s\n%s", t.s, prelude)
		}
	}
	return rt, nil
}

// referenceSame loads k FRESH parses of src one after another in one runtime.
func referenceSame(c Case, variant int) ([]transcript, *vcommon.Failure) {
	rt, f := newPrepared(c.limits(variant), c.prelude(variant))
	if f != nil {
		return nil, f
	}
	out := make([]transcript, c.K)
	for i := range out {
		p, err := parse(c.Src)
		if err != nil {
			return nil, vcommon.Failf("harness/parse", "source does not parse: %v", err)
		}
		out[i] = loadOnce(rt, p)
	}
	return out, nil
}

func sameTranscripts(a, b []transcript) bool {
	if len(a) != len(b) {
		return false
	}
	for i := range a {
		if a[i].s != b[i].s {
			return false
		}
	}
	return true
}

func checkLoads(c Case, ctx *vcommon.Ctx) *vcommon.Failure {
	if c.K < 1 || c.K > 8 {
		return nil
	}
	p, err := parse(c.Src)
	if err != nil {
		ctx.Class("skip/parse-error")
		return nil
	}
	sn0 := snapshot(p)
	if classifyRoutes(c, ctx) || generalNonTrivial(c) {
		ctx.NonTrivial(c.prelude(0) + "\x00" + c.Src)
		ctx.Note(c.Src)
	}
	fam := sinkFamily(c.Src)

	ref, f := referenceSame(c, 0)
	if f != nil {
		return f
	}
	// a transcript mismatch is only blamed on the shared parse when the
	// reference itself is reproducible (ordinary nondeterminism is C10's
	// subject): checked lazily, on the failure path only
	mismatch := func(key, format string, a ...any) *vcommon.Failure {
		ref2, f := referenceSame(c, 0)
		if f != nil {
			return f
		}
		if !sameTranscripts(ref, ref2) {
			ctx.Class("skip/nondeterministic-reference")
			return nil
		}
		return vcommon.Failf(key, format, a...)
	}
	for i, t := range ref {
		if t.panic {
			return vcommon.Failf("internal-panic/"+fam, "a load raised an internal panic:\n%s\nprogram:\n%s", t.s, c.Src)
		}
		if t.bad != "" {
			return vcommon.Failf("literal/re-evaluated/fresh-parse/"+fam, "load %d of a fresh parse: %s\nprelude:\n%s\nprogram:\n%s", i+1, t.bad, c.prelude(0), c.Src)
		}
	}
	if ref[0].isErr {
		ctx.Class("outcome/load-error")
	} else {
		ctx.Class("outcome/load-value")
	}
	if strings.Contains(ref[0].s, "\"err\"|") {
		ctx.Class("outcome/handled-error-inside")
	}
	if strings.Contains(ref[0].s, "\n\"=") {
		ctx.Class("outcome/model-stated-literal-probed")
	}
	if nerr, nok := strings.Count(ref[0].s, "\n\"err\"|"), strings.Count(ref[0].s, "\n\"p"); nok > nerr {
		ctx.Class("outcome/more-probes-than-errors")
	}

	// (b1) the same Program k times in one runtime
	rt, f := newPrepared(c.limits(0), c.prelude(0))
	if f != nil {
		return f
	}
	for i := 0; i < c.K; i++ {
		got := loadOnce(rt, p)
		if got.bad != "" {
			return vcommon.Failf("literal/re-evaluated/same-program/"+fam, "load %d of the same Program in one runtime: %s\nprelude:\n%s\nprogram:\n%s", i+1, got.bad, c.prelude(0), c.Src)
		}
		if kind, what := sn0.changed(p, c.Src); kind != "" {
			return vcommon.Failf(kind+"/same-runtime/"+fam, "the parsed Program was changed by load %d of %d in one runtime: %s\nprogram:\n%s", i+1, c.K, what, c.Src)
		}
		if got.s != ref[i].s {
			return mismatch("reload/same-runtime/"+fam, "load %d of the same Program in one runtime differs from load %d of a fresh parse: %s\nprogram:\n%s", i+1, i+1, firstDiff(got.s, ref[i].s), c.Src)
		}
	}
	// (b2) the same Program in k fresh runtimes
	for i := 0; i < c.K; i++ {
		rt, f := newPrepared(c.limits(0), c.prelude(0))
		if f != nil {
			return f
		}
		got := loadOnce(rt, p)
		if kind, what := sn0.changed(p, c.Src); kind != "" {
			return vcommon.Failf(kind+"/fresh-runtime/"+fam, "the parsed Program was changed by a load in fresh runtime %d: %s\nprogram:\n%s", i+1, what, c.Src)
		}
		if got.s != ref[0].s {
			return mismatch("reload/fresh-runtime/"+fam, "loading the used Program in fresh runtime %d differs from loading a fresh parse in a fresh runtime: %s\nprogram:\n%s", i+1, firstDiff(got.s, ref[0].s), c.Src)
		}
	}
	return nil
}

func generalNonTrivial(c Case) bool {
	if len(c.Routes) > 0 {
		return false
	}
	if !strings.Contains(c.Src, "'(") {
		return false
	}
	for _, n := range []string{"(stable-sort ", "(append ", "(insert-sorted ", "(insert-index ", "(concat ", "(reverse ", "(slice ", "(map "} {
		if strings.Contains(c.Src, n) {
			return true
		}
	}
	return false
}

func genTargeted(maxSteps int, variants bool) *rapid.Generator[Case] {
	return rapid.Custom(func(t *rapid.T) Case {
		g := newTgen(t)
		var src string
		if variants && rapid.IntRange(0, 4).Draw(t, "general") == 0 {
			// a core-language program next to the private preludes
			src = gen.GenProgram(4, 60, 5).Draw(t, "prog").Source()
		} else {
			src = g.program(maxSteps)
		}
		c := Case{Src: src, K: rapid.IntRange(2, 5).Draw(t, "k"), Routes: nil}
		nv := 1
		if variants {
			nv = rapid.IntRange(1, 3).Draw(t, "nvariants")
			c.G = rapid.IntRange(2, 16).Draw(t, "g")
			c.K = rapid.IntRange(1, 3).Draw(t, "kc")
		}
		for i := 0; i < nv; i++ {
			c.Preludes = append(c.Preludes, genPrelude(t, i))
			l := defaultLimits
			if variants && i > 0 {
				switch rapid.IntRange(0, 4).Draw(t, "lim") {
				case 0:
					l.MaxSteps = int64(rapid.IntRange(20, 400).Draw(t, "steps"))
				case 1:
					l.MaxAlloc = rapid.IntRange(1, 6).Draw(t, "alloc")
				case 2:
					l.MaxPhysical = rapid.IntRange(3, 12).Draw(t, "phys")
				}
			}
			c.Limits = append(c.Limits, l)
		}
		c.Routes = g.routeList()
		return c
	})
}

func genGeneral() *rapid.Generator[Case] {
	return rapid.Custom(func(t *rapid.T) Case {
		p := gen.GenProgram(4, 60, 5).Draw(t, "prog")
		return Case{Src: p.Source(), K: rapid.IntRange(2, 4).Draw(t, "k")}
	})
}

// ---------- concurrent: one Program, many runtimes, many goroutines ----------

func raceBuild() bool { return os.Getenv("VERIF_RACE") == "1" }

func checkConcurrent(c Case, ctx *vcommon.Ctx) *vcommon.Failure {
	if c.K < 1 || c.K > 8 || c.G < 1 || c.G > 64 || len(c.Preludes) == 0 {
		return nil
	}
	G, K := c.G, c.K
	if raceBuild() {
		// less work per case under the race detector (cost only; the verdict
		// rules are the same)
		if G > 6 {
			G = 6
		}
		if K > 2 {
			K = 2
		}
	}
	p, err := parse(c.Src)
	if err != nil {
		ctx.Class("skip/parse-error")
		return nil
	}
	sn0 := snapshot(p)
	nv := len(c.Preludes)
	// shared prelude Programs: every goroutine of a variant loads the same one
	preludes := make([]lisp.Program, nv)
	pfp := make([]snap, nv)
	for i := range preludes {
		pp, err := parse(c.Preludes[i])
		if err != nil {
			return vcommon.Failf("harness/prelude-parse", "prelude does not parse: %v", err)
		}
		preludes[i] = pp
		pfp[i] = snapshot(pp)
	}
	if len(c.Routes) == 0 {
		ctx.Class("general-program")
	}
	if classifyRoutes(c, ctx) || generalNonTrivial(c) {
		ctx.NonTrivial(strings.Join(c.Preludes, "\x01") + "\x00" + c.Src + fmt.Sprint(c.G, c.K))
		ctx.Note(c.Src)
	}
	ctx.Class(fmt.Sprintf("goroutines/%d", (c.G+3)/4*4))
	ctx.Class(fmt.Sprintf("variants/%d", nv))
	fam := sinkFamily(c.Src)

	// single-threaded reference per variant, from fresh parses
	refs := make([][]transcript, nv)
	for v := 0; v < nv; v++ {
		r, f := referenceSame(c, v)
		if f != nil {
			return f
		}
		for _, t := range r {
			if t.panic {
				return vcommon.Failf("internal-panic/"+fam, "a load raised an internal panic:\n%s\nprogram:\n%s", t.s, c.Src)
			}
		}
		refs[v] = r
	}
	distinct := map[string]bool{}
	for _, r := range refs {
		distinct[r[0].s] = true
	}
	if len(distinct) > 1 {
		ctx.Class("variants-observably-different")
	}

	got := make([][]transcript, G)
	errs := make([]string, G)
	start := make(chan struct{})
	var wg sync.WaitGroup
	for g := 0; g < G; g++ {
		wg.Add(1)
		go func(g int) {
			defer wg.Done()
			defer func() {
				if r := recover(); r != nil {
					errs[g] = fmt.Sprint(r)
				}
			}()
			v := g % nv
			var rt *vcommon.Rt
			if g%2 == 0 {
				// half of the runtimes are built before the start signal,
				// half concurrently with the others' evaluation
				rt = vcommon.NewRuntime(defaultLimits.cfg())
			}
			<-start
			if rt == nil {
				rt = vcommon.NewRuntime(defaultLimits.cfg())
			}
			if t := loadOnce(rt, preludes[v]); t.isErr {
				errs[g] = "prelude failed: " + t.s
				return
			}
			rt.Apply(c.limits(v).cfg())
			out := make([]transcript, K)
			for i := range out {
				out[i] = loadOnce(rt, p)
			}
			got[g] = out
		}(g)
	}
	close(start)
	wg.Wait()

	if kind, what := sn0.changed(p, c.Src); kind != "" {
		return vcommon.Failf(kind+"/concurrent/"+fam, "the parsed Program was changed while %d goroutines loaded it %d times each: %s\nprogram:\n%s", G, K, what, c.Src)
	}
	for i := range preludes {
		if kind, what := pfp[i].changed(preludes[i], c.Preludes[i]); kind != "" {
			return vcommon.Failf(kind+"/concurrent-prelude", "shared prelude Program %d was changed: %s\n%s", i, what, c.Preludes[i])
		}
	}
	for g := 0; g < G; g++ {
		if errs[g] != "" {
			return vcommon.Failf("concurrent/goroutine-failed/"+fam, "goroutine %d: %s\nprogram:\n%s", g, errs[g], c.Src)
		}
		v := g % nv
		for i := 0; i < K; i++ {
			if got[g][i].bad != "" {
				return vcommon.Failf("literal/re-evaluated/concurrent/"+fam, "goroutine %d load %d: %s\nprelude:\n%s\nprogram:\n%s", g, i+1, got[g][i].bad, c.Preludes[v], c.Src)
			}
			if got[g][i].s != refs[v][i].s {
				if again, f := referenceSame(c, v); f != nil || !sameTranscripts(again, refs[v]) {
					ctx.Class("skip/nondeterministic-reference")
					return nil
				}
				return vcommon.Failf("concurrent/transcript/"+fam, "goroutine %d (variant %d) load %d differs from the single-threaded load of a fresh parse: %s\nprelude:\n%s\nprogram:\n%s",
					g, v, i+1, firstDiff(got[g][i].s, refs[v][i].s), c.Preludes[v], c.Src)
			}
		}
	}
	return nil
}

// ---------- literal: a quoted literal yields the same value every time ----------

type LitCase struct {
	Lit    gen.Val  `json:"lit"`   // the literal's model (a list, quote depth 0)
	Shape  int      `json:"shape"` // how the literal-returning function is spelled
	Mut    string   `json:"mut"`   // program operating on values obtained from (lit)
	Routes []string `json:"routes,omitempty"`
}

// modelCanon renders the value a quoted literal evaluates to, in vcommon.Canon
// notation, from the generator's model alone.
func modelCanon(v gen.Val, top bool) string {
	switch v.K {
	case "int":
		return fmt.Sprint(v.I)
	case "float":
		return vcommon.FloatCanon(v.Float())
	case "str":
		return fmt.Sprintf("%q", string(v.B))
	case "sym":
		return string(v.B)
	}
	parts := make([]string, len(v.L))
	for i := range v.L {
		parts[i] = modelCanon(v.L[i], false)
	}
	s := "(" + strings.Join(parts, " ") + ")"
	if top {
		return "'" + s
	}
	return s
}

func litValOfKind(g *tgen, k ek, n int) gen.Val {
	items := make([]gen.Val, n)
	for i := range items {
		switch k {
		case ekInt:
			items[i] = gen.I(int64(g.n(0, 9, "li")))
		case ekStr:
			items[i] = gen.Str(g.oneOf("ls", strPool...))
		case ekPair:
			items[i] = gen.L(gen.I(int64(g.n(0, 9, "lpi"))), gen.S(g.oneOf("lps", symPool...)))
		default:
			switch g.n(0, 4, "lmk") {
			case 0:
				items[i] = gen.I(int64(g.n(-3, 300, "lmi")))
			case 1:
				items[i] = gen.Str(g.oneOf("lms", strPool...))
			case 2:
				items[i] = gen.S(g.oneOf("lmy", symPool...))
			case 3:
				items[i] = gen.L(gen.I(int64(g.n(0, 9, "lmn"))), gen.I(int64(g.n(0, 9, "lmm"))))
			default:
				items[i] = gen.F(1.5)
			}
		}
	}
	return gen.L(items...)
}

func genLiteral() *rapid.Generator[LitCase] {
	return rapid.Custom(func(t *rapid.T) LitCase {
		g := newTgen(t)
		g.tweak = false
		k := g.kind()
		n := g.length()
		lit := litValOfKind(g, k, n)
		g.lits = []vx{{"(lit)", "list", k, n, "litfn"}}
		g.mlit = "(mlit)"
		// x is bound to the first value obtained from the literal
		g.srcs = []vx{{"x", "list", k, n, "litfn"}}
		ns := g.n(1, 5, "nsteps")
		steps := make([]string, 0, ns+2)
		for i := 0; i < ns; i++ {
			steps = append(steps, g.step())
		}
		var b strings.Builder
		for _, d := range g.defs {
			b.WriteString(d + "\n")
		}
		b.WriteString("(set 'x (lit))\n")
		for _, s := range steps {
			b.WriteString(s + "\n")
		}
		b.WriteString(g.observeAll("\"final\"") + "\n")
		return LitCase{Lit: lit, Shape: g.n(0, 3, "shape"), Mut: b.String(), Routes: g.routeList()}
	})
}

func (c LitCase) defSrc() string {
	body := gen.Render(c.Lit)
	// (mlit): a macro, defined by this EARLIER load, whose quasiquote template
	// is the same literal; every evaluation of a call site must expand afresh
	mlit := "(defmacro mlit () (quasiquote (quote " + body + ")))\n" +
		"(defmacro tlit () ''" + body + ")\n" +
		"(defmacro olit (&optional x) (if x x ''" + body + "))\n" +
		"(defmacro ilit (x) x)\n"
	switch c.Shape {
	case 0:
		return "(defun lit () '" + body + ")\n" + mlit
	case 1:
		return "(defun lit () (quote " + body + "))\n" + mlit
	case 2:
		return "(set 'lit (lambda () '" + body + "))\n" + mlit
	}
	return "(defun lit (&optional o) (if o o '" + body + "))\n" + mlit
}

func checkLiteral(c LitCase, ctx *vcommon.Ctx) *vcommon.Failure {
	if c.Lit.K != "list" || c.Lit.Q != 0 {
		return nil
	}
	want := modelCanon(c.Lit, true)
	def, err1 := parse(c.defSrc())
	get, err2 := parse("(lit)")
	mut, err3 := parse(c.Mut)
	if err1 != nil || err2 != nil || err3 != nil {
		ctx.Class("skip/parse-error")
		return nil
	}
	fam := sinkFamily(c.Mut)
	nontrivial := false
	for _, r := range c.Routes {
		ctx.Class(r)
		if strings.HasPrefix(r, "route:") {
			nontrivial = true
		}
	}
	if nontrivial {
		ctx.NonTrivial(c.defSrc() + c.Mut)
		ctx.Note(c.defSrc() + c.Mut)
	}
	fps := []snap{snapshot(def), snapshot(get), snapshot(mut)}
	rt := vcommon.NewRuntime(defaultLimits.cfg())
	if t := loadOnce(rt, def); t.isErr {
		return vcommon.Failf("harness/literal-def", "definition fails: %s", t.s)
	}
	eval := func(rt *vcommon.Rt, when string) (vcommon.Outcome, *vcommon.Failure) {
		o := rt.Observe(rt.Env.LoadProgram(get))
		if o.IsErr {
			return o, vcommon.Failf("literal/error/"+fam, "(lit) %s fails: %s %s\n%s%s", when, o.Cond, o.Msg, c.defSrc(), c.Mut)
		}
		if o.Canon != want {
			return o, vcommon.Failf("literal/value/"+fam, "(lit) %s evaluates to %s, the literal is %s\n%s%s", when, o.Canon, want, c.defSrc(), c.Mut)
		}
		return o, nil
	}
	first, f := eval(rt, "before any mutation")
	if f != nil {
		return f
	}
	rt.Trace = rt.Trace[:0]
	mo := rt.Observe(rt.Env.LoadProgram(mut))
	if mo.Panic {
		return vcommon.Failf("internal-panic/"+fam, "mutation program raised an internal panic: %s\n%s%s", mo.Msg, c.defSrc(), c.Mut)
	}
	if mo.IsErr {
		ctx.Class("outcome/mutation-error")
	} else {
		ctx.Class("outcome/mutation-value")
	}
	calls := 0
	for _, e := range rt.Trace {
		if e.Tag == "\"call\"" {
			calls++
		}
	}
	if calls > 0 {
		ctx.Class("sweep-call-returned-a-value")
	}
	// every time the mutation program itself looked at (lit) it saw the literal
	for _, e := range rt.Trace {
		if e.Tag == "\"final\"" || strings.HasPrefix(e.Tag, "\"obs") {
			if e.Payload != want && !strings.HasPrefix(e.Payload, want+" ") {
				return vcommon.Failf("literal/observed-inside/"+fam, "inside the mutating program (lit) was observed as %s, the literal is %s\n%s%s", clip(e.Payload), want, c.defSrc(), c.Mut)
			}
		}
	}
	again, f := eval(rt, "after values obtained from it were operated on")
	if f != nil {
		return f
	}
	if again.Text != first.Text {
		return vcommon.Failf("literal/text/"+fam, "(lit) prints as %s before and %s after\n%s%s", first.Text, again.Text, c.defSrc(), c.Mut)
	}
	// a second load of the mutation program, then a third evaluation
	rt.Env.LoadProgram(mut)
	if _, f := eval(rt, "after the mutating program ran twice"); f != nil {
		return f
	}
	// another runtime sharing the same Programs
	rt2 := vcommon.NewRuntime(defaultLimits.cfg())
	if t := loadOnce(rt2, def); t.isErr {
		return vcommon.Failf("literal/def-in-second-runtime/"+fam, "definition fails in a second runtime: %s", t.s)
	}
	if _, f := eval(rt2, "in a second runtime sharing the Program"); f != nil {
		return f
	}
	for i, p := range []lisp.Program{def, get, mut} {
		if kind, what := fps[i].changed(p, []string{c.defSrc(), "(lit)", c.Mut}[i]); kind != "" {
			return vcommon.Failf(kind+"/literal/"+fam, "parsed program %d was changed: %s\n%s%s", i, what, c.defSrc(), c.Mut)
		}
	}
	return nil
}

func TestCheck(t *testing.T) {
	vcommon.Main(t, "C09",
		vcommon.S("loads", 8000, 120000, genTargeted(8, false), checkLoads),
		vcommon.S("general", 2000, 40000, genGeneral(), checkLoads),
		vcommon.S("literal", 12000, 200000, genLiteral(), checkLiteral),
		vcommon.S("concurrent", 1600, 24000, genTargeted(5, true), checkConcurrent),
		vcommon.S("isolation", 2400, 48000, genIso(), checkIso),
		vcommon.S("sweep", 8000, 160000, genSweep(), checkLiteral),
	)
}
