package c09

// sweep: every exported regular function of every package (kernel builtins
// and the standard library, enumerated from a live runtime so that a newly
// added builtin is covered without touching this file) is applied to values
// obtained from a literal and to views of them; whatever it returns is then
// fed to the in-place builtins; the literal must still evaluate to the
// generator's model of it, and the sealed fingerprints must not move.
// The oracle is checkLiteral.

import (
	"fmt"
	"sort"
	"strings"
	"sync"

	"github.com/luthersystems/elps/lisp"
	"github.com/luthersystems/elps/verifharness/vcommon"
	"pgregory.net/rapid"
)

type sweepFn struct {
	name    string
	formals []string // declared parameter names (a generator hint only)
}

var (
	sweepOnce  sync.Once
	sweepNames []sweepFn
)

// not swept: file/clock/sleep access, the harness's own host builtins, and
// package switching (which only makes the rest of the program unbound)
var sweepSkip = map[string]bool{
	"lisp:load-file": true, "time:sleep": true, "time:utc-now": true, "time:time-elapsed": true,
	"user:host-panic": true, "user:host-panic-handler": true, "user:host-see": true, "user:host-cond": true, "user:gset": true, "user:probe": true,
	"lisp:in-package": true,
}

func sweepFunctions() []sweepFn {
	sweepOnce.Do(func() {
		rt := vcommon.NewRuntime(vcommon.Cfg{MaxSteps: 1000})
		reg := rt.Env.Runtime.Registry
		for _, pn := range reg.PackageNames() {
			p := reg.Package(pn)
			for _, s := range p.Externals() {
				v, ok := p.Symbol(s)
				if !ok || v.Type != lisp.LFun || v.IsSpecialFun() {
					continue
				}
				q := pn + ":" + s
				if sweepSkip[q] {
					continue
				}
				f := sweepFn{name: q}
				if len(v.Cells) > 0 && v.Cells[0] != nil {
					for _, c := range v.Cells[0].Cells {
						f.formals = append(f.formals, c.Str)
					}
				}
				sweepNames = append(sweepNames, f)
			}
		}
		sort.Slice(sweepNames, func(i, j int) bool { return sweepNames[i].name < sweepNames[j].name })
	})
	return sweepNames
}

var sweepTainted = []string{
	"(lit)", "x", "x", "(cdr x)", "(rest x)", "(slice 'list x 0 2)", "(slice 'list x 1 3)", "(slice 'vector x 0 2)",
	"(cdr (cdr x))", "(slice 'list (cdr x) 0 1)", "(elpspath:? x '(range 0 2))", "(append 'vector x)",
	"(vector x x)", "(sorted-map \"k\" x)", "(list x (cdr x))", "(car (list x))",
	"(slice 'list x 0 1)", "(slice 'list x 0 0)", "(concat 'list x)", "(cons 0 x)",
	"(quasiquote ((unquote-splicing x)))", "(quasiquote ((unquote-splicing (cdr x))))", "(quasiquote (0 (unquote-splicing x)))",
}

var sweepPlain = []string{
	"'<", "<", "'list", "'vector", "'bytes", "'string", "0", "1", "2", "-1", "\"k\"", "\"a,b\"", ":k", "()", "true",
	"(lambda (a b) (< a b))", "(lambda (e) e)", "(lambda (&rest r) r)", "identity", "car", "(to-bytes \"ab\")",
	"'(range 0 1)", "'*", "(vector 3 1 2)", "(sorted-map \"k\" 1)", "\"{}\"", "'sym", "1.5",
}

// uniformIndex draws an index in [0,n) from single-bit draws: rapid's integer
// generators are deliberately biased towards small values (index 0 and 1 of a
// 200-entry table get ~10% each), which is wrong for a coverage sweep.
func uniformIndex(t *rapid.T, n int, label string) int {
	v := 0
	for bits := 1; bits < 2*n; bits <<= 1 {
		v <<= 1
		if rapid.Bool().Draw(t, label) {
			v |= 1
		}
	}
	return v % n
}

var (
	sweepTypespecs = []string{"'list", "'vector", "'list", "'vector", "'bytes", "'string"}
	sweepFuncs     = []string{"<", "'<", "(lambda (a b) (< a b))", "(lambda (e) e)", "(lambda (e) true)", "(lambda (&rest r) r)", "identity", "car", "list", "(lambda (a e) (cons e a))"}
	sweepInts      = []string{"0", "1", "2", "3", "-1"}
)

// hinted picks an argument spelling from the declared parameter name.
func hinted(t *rapid.T, formal string) (arg string, tainted bool) {
	f := strings.ToLower(formal)
	has := func(subs ...string) bool {
		for _, x := range subs {
			if strings.Contains(f, x) {
				return true
			}
		}
		return false
	}
	switch {
	case has("type"):
		return sweepTypespecs[uniformIndex(t, len(sweepTypespecs), "hty")], false
	case has("fn", "fun", "pred", "less", "binary"):
		return sweepFuncs[uniformIndex(t, len(sweepFuncs), "hfn")], false
	case has("map"):
		return "(sorted-map \"k\" x \"j\" (cdr x))", true
	case has("index", "start", "end", "stop", "step", "count") || f == "n" || f == "i":
		return sweepInts[uniformIndex(t, len(sweepInts), "hint")], false
	case has("key"):
		return "\"k\"", false
	case has("bytes"):
		return "(slice 'bytes x 0 2)", true
	case has("seq", "list", "lis", "vec", "val", "arg", "tail", "input", "steps", "head", "allowed", "item") || f == "a" || f == "z":
		return sweepTainted[uniformIndex(t, len(sweepTainted), "htaint")], true
	}
	return "", false
}

func genSweep() *rapid.Generator[LitCase] {
	return rapid.Custom(func(t *rapid.T) LitCase {
		g := newTgen(t)
		g.tweak = false
		fns := sweepFunctions()
		k := ekInt
		if g.pct(30, "otherkind") {
			k = g.kind()
		}
		n := g.n(2, 6, "n")
		lit := litValOfKind(g, k, n)
		var b strings.Builder
		b.WriteString("(set 'x (lit))\n")
		routes := map[string]bool{}
		calls := g.n(1, 3, "ncalls")
		for i := 0; i < calls; i++ {
			sf := fns[uniformIndex(t, len(fns), "fn")]
			fn := sf.name
			routes["sweep:"+fn[:strings.Index(fn, ":")]] = true
			routes["fn:"+fn] = true
			na := g.n(0, 4, "nargs")
			// most calls follow the declared parameter list (so that the call
			// gets past argument binding and type checks), some are free-form
			var plan []string
			if g.pct(75, "follow-formals") {
				for _, f := range sf.formals {
					if f == "&optional" || f == "&key" {
						break
					}
					if f == "&rest" {
						for r := g.n(0, 3, "nrest"); r > 0; r-- {
							plan = append(plan, sf.formals[len(sf.formals)-1])
						}
						break
					}
					plan = append(plan, f)
				}
				na = len(plan)
			}
			args := make([]string, na)
			tainted := false
			for j := range args {
				if j < len(plan) && g.pct(85, "hinted") {
					if a, tn := hinted(t, plan[j]); a != "" {
						args[j] = a
						tainted = tainted || tn
						continue
					}
				}
				if g.pct(55, "tainted") {
					args[j] = sweepTainted[uniformIndex(t, len(sweepTainted), "targ")]
					tainted = true
				} else {
					args[j] = sweepPlain[uniformIndex(t, len(sweepPlain), "parg")]
				}
			}
			if tainted {
				routes["route:sweep<-litfn"] = true
			}
			call := "(" + fn + " " + strings.Join(args, " ") + ")"
			r := fmt.Sprintf("r%d", i)
			guard := func(tag, e string) string {
				return "(handler-bind ((condition (lambda (c &rest a) (probe \"err\" c)))) (probe \"" + tag + "\" " + e + "))\n"
			}
			b.WriteString("(set '" + r + " ())\n")
			b.WriteString(guard("call", "(set '"+r+" "+call+")"))
			// whatever came back goes into the in-place builtins
			switch g.n(0, 5, "after") {
			case 0:
				b.WriteString(guard("sort", g.sortCall(k, r)))
			case 1:
				b.WriteString(guard("append!", "(append! "+r+" "+g.elem(k)+")"))
				b.WriteString(guard("sort", g.sortCall(k, r)))
			case 2:
				b.WriteString(guard("ep", "(elpspath:?set! "+r+" 0 "+g.elem(k)+")"))
			case 3:
				b.WriteString(guard("ep", "(elpspath:?del! "+r+" 0)"))
				b.WriteString(guard("sort", g.sortCall(k, "(slice 'vector "+r+" 0 (length "+r+"))")))
			case 4:
				b.WriteString(guard("sort", g.sortCall(k, "(car "+r+")")))
				b.WriteString(guard("sort", g.sortCall(k, "(rest "+r+")")))
			default:
				b.WriteString(guard("assoc!", "(assoc! "+r+" \"k\" "+g.elem(k)+")"))
				b.WriteString(guard("sort", g.sortCall(k, "(get "+r+" \"k\")")))
			}
			b.WriteString("(probe \"obs" + fmt.Sprint(i) + "\" (lit))\n")
		}
		b.WriteString("(in-package 'user)\n(probe \"final\" (lit) (ignore-errors x))\n")
		rl := make([]string, 0, len(routes))
		for r := range routes {
			rl = append(rl, r)
		}
		sort.Strings(rl)
		return LitCase{Lit: lit, Shape: g.n(0, 3, "shape"), Mut: b.String(), Routes: rl}
	})
}
