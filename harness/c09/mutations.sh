#!/bin/bash
# applies each mutation to a pristine copy and runs shard 0 of 16 of the quick tier
apply() {
python3 - "$1" <<'PY'
import sys
name=sys.argv[1]
def sub(p, old, new):
    s=open(p).read()
    assert old in s, (name, old)
    open(p,'w').write(s.replace(old,new,1))
B='/tmp/wt-c09/lisp/builtins.go'
if name=='m1':
    sub(B,'	if list.sealed {\n		// Copy-on-write: list is (or shares storage with) a parsed program','	if false && list.sealed {\n		// Copy-on-write: list is (or shares storage with) a parsed program')
elif name=='m2':
    sub(B,'	// on v itself.\n	r.sealed = v.sealed\n	return r','	// on v itself.\n	return r')
elif name=='m2b':
    sub(B,'	// The sealed constraint travels with the shared backing -- see builtinCDR.\n	r.sealed = v.sealed','	// The sealed constraint travels with the shared backing -- see builtinCDR.')
elif name=='m3':
    sub(B,'		list.sealed = sealed\n	}','		_ = sealed\n	}')
elif name=='m4':
    sub(B,'if seq.sealed || len(vals) == 0 {','if false {')
elif name=='m5a':
    sub('/tmp/wt-c09/lisp/runtime.go','func (r *Runtime) gensym() uint {\n	return r.numsym.Add(1)\n}','var globalNumsym uint\n\nfunc (r *Runtime) gensym() uint {\n	globalNumsym++\n	return globalNumsym\n}')
elif name=='m5b':
    sub(B,'''	var v *LVal
	var cells []*LVal
	switch typespec.Str {
	case "vector":
		v = Array(QExpr([]*LVal{Int(list.Len())}), nil)
		cells = seqCells(v)
	case "list":
		cells = make([]*LVal, list.Len())
		v = QExpr(cells)
	default:
		return env.Errorf("type specifier is invalid: %v", typespec)
	}
	for i, v := range seqCells(list) {
		cells[len(cells)-1-i] = v
	}
	return v
}''','''	if list.sealed && typespec.Str == "list" {
		if r, ok := reverseMemo[list]; ok {
			return r
		}
	}
	var v *LVal
	var cells []*LVal
	switch typespec.Str {
	case "vector":
		v = Array(QExpr([]*LVal{Int(list.Len())}), nil)
		cells = seqCells(v)
	case "list":
		cells = make([]*LVal, list.Len())
		v = QExpr(cells)
	default:
		return env.Errorf("type specifier is invalid: %v", typespec)
	}
	for i, v := range seqCells(list) {
		cells[len(cells)-1-i] = v
	}
	if list.sealed && typespec.Str == "list" {
		reverseMemo[list] = v
	}
	return v
}

var reverseMemo = map[*LVal]*LVal{}''')
elif name=='m6':
    sub(B,'	margs := make([]*LVal, len(form.Cells)-1)\n	copy(margs, form.Cells[1:])\n	return SExpr(margs)','	return SExpr(form.Cells[1:])')
elif name=='m7b':
    sub('/tmp/wt-c09/lisp/macro.go','	if v.sealed {\n		return\n	}\n	// Only a node with children','	// Only a node with children')
    sub('/tmp/wt-c09/lisp/macro.go','	if v.source == nil || v.source.Pos < 0 {\n		v.source = callSite','	if v.source == nil || v.source.Pos < 0 || v.sealed {\n		v.source = callSite')
elif name=='m8':
    sub(B,'		cells := list.Cells\n		if list.sealed {','		cells := list.Cells\n		if false && list.sealed {')
elif name=='m9':
    sub('/tmp/wt-c09/lisp/lisplib/libelpspath/path.go','	if in != nil && in.Type == lisp.LSExpr {\n		return errors.New("elpspath: in-place','	if false && in != nil && in.Type == lisp.LSExpr {\n		return errors.New("elpspath: in-place')
PY
}
export GOFLAGS=-mod=mod GOPROXY=off
for m in "$@"; do
  rm -rf /tmp/wt-c09 && cp -r /repo /tmp/wt-c09 && apply $m || { echo "$m: apply failed"; continue; }
  rm -rf /tmp/h-c09 && cp -r /verif/harness /tmp/h-c09 && sed -i 's#=> /repo#=> /tmp/wt-c09#' /tmp/h-c09/go.mod
  cd /tmp/h-c09
  for sub in loads literal concurrent isolation sweep; do
    VERIF_SUBS=$sub VERIF_TIER=quick VERIF_NSHARDS=16 VERIF_SHARD=0 VERIF_OUT=/tmp/h-c09/out-$sub.json go test -count=1 -run TestCheck ./c09/ > /tmp/c09-mut-$m-$sub.log 2>&1
    python3 - $m $sub <<'PY'
import json,sys
m,sub=sys.argv[1:3]
try:
    d=json.load(open('/tmp/h-c09/out-%s.json'%sub))
    v=d['violations'] or []
    sk=sum(n for k,n in d['classes'].items() if 'skip/nondet' in k)
    print("%-4s %-10s %s after %d cases%s %s"%(m,sub,'CAUGHT' if v else 'missed',d['evaluations'], (' (%d nondeterministic-reference skips)'%sk if sk else ''), v[0]['key'] if v else ''))
except Exception as e:
    print(m,sub,'no evidence',e)
PY
  done
  VERIF_RACE=1 VERIF_SUBS=concurrent VERIF_TIER=quick VERIF_NSHARDS=4 VERIF_SHARD=0 VERIF_OUT=/tmp/h-c09/out-race.json go test -race -count=1 -run TestCheck ./c09/ > /tmp/c09-mut-$m-race.log 2>&1
  echo "$m   race-leg   $(grep -c 'WARNING: DATA RACE' /tmp/c09-mut-$m-race.log) race reports; $(python3 -c "
import json
try:
    d=json.load(open('/tmp/h-c09/out-race.json')); v=d['violations'] or []; print('oracle', 'CAUGHT '+v[0]['key'] if v else 'missed', 'after', d['evaluations'])
except Exception as e: print('no evidence')
")"
done
