package c09

// Structural dump of a parsed Program, independent of the repository's own
// lisp.SealedASTFingerprint: every field of every parsed node that is reachable
// through exported fields / accessors (Type, FunType, Str, Int, Float, Native,
// IsQuoted, IsSealed, Source() contents, MacroExpansion presence, the Cells
// header -- data pointer, len, cap -- and the spare slots between len and cap),
// plus the IDENTITY of every node and of every stored source location, so that
// "the Program is unchanged" also means "no node was replaced by an equal
// copy and no header was re-sliced".  Unlike the fingerprint it descends into
// nodes that are not (or no longer) flagged sealed: clearing the flag itself is
// a change it reports.
//
// The hot path computes a 64-bit digest (treeHash); the textual form (treeText,
// without addresses) is only produced on a mismatch, where the changed tree is
// compared with a fresh parse of the same text to name the first field that
// differs.

import (
	"fmt"
	"math"
	"reflect"
	"strings"
	"unsafe"

	"github.com/luthersystems/elps/internal/astraw"
	"github.com/luthersystems/elps/lisp"
)

const (
	dumpMaxDepth = 400
	dumpMaxNodes = 200000
)

type treeHasher struct {
	h      uint64
	budget int
}

func (s *treeHasher) u64(x uint64) {
	for i := 0; i < 8; i++ {
		s.h ^= x & 0xff
		s.h *= 1099511628211
		x >>= 8
	}
}

func (s *treeHasher) str(x string) {
	s.u64(uint64(len(x)))
	for i := 0; i < len(x); i++ {
		s.h ^= uint64(x[i])
		s.h *= 1099511628211
	}
}

func (s *treeHasher) b(x bool) {
	if x {
		s.u64(1)
	} else {
		s.u64(0)
	}
}

func nativeTag(v *lisp.LVal) string {
	if v.Native == nil {
		return ""
	}
	return reflect.TypeOf(v.Native).String()
}

func (s *treeHasher) walk(v *lisp.LVal, depth int) {
	if v == nil {
		s.u64(0xdead)
		return
	}
	if s.budget <= 0 || depth > dumpMaxDepth {
		s.u64(0xbeef)
		return
	}
	s.budget--
	s.u64(uint64(uintptr(unsafe.Pointer(v))))
	s.u64(uint64(v.Type))
	s.u64(uint64(v.FunType))
	s.b(v.IsQuoted())
	s.b(v.IsSealed())
	s.str(v.Str)
	s.u64(uint64(v.Int))
	s.u64(math.Float64bits(v.Float))
	s.str(nativeTag(v))
	loc, ok := v.Source()
	s.b(ok)
	s.str(loc.File)
	s.str(loc.Path)
	s.u64(uint64(loc.Pos))
	s.u64(uint64(loc.Line))
	s.u64(uint64(loc.Col))
	s.u64(uint64(loc.EndPos))
	s.u64(uint64(loc.EndLine))
	s.u64(uint64(loc.EndCol))
	s.u64(uint64(uintptr(unsafe.Pointer(astraw.SourceRef(v)))))
	_, mx := v.MacroExpansion()
	s.b(mx)
	s.u64(uint64(len(v.Cells)))
	s.u64(uint64(cap(v.Cells)))
	s.u64(uint64(uintptr(unsafe.Pointer(unsafe.SliceData(v.Cells)))))
	for _, c := range v.Cells {
		s.walk(c, depth+1)
	}
	// spare capacity: what an append through an aliasing header would write
	for _, c := range v.Cells[len(v.Cells):cap(v.Cells)] {
		s.u64(uint64(uintptr(unsafe.Pointer(c))))
	}
}

// treeHash digests the whole parsed tree of p, identities included.
func treeHash(p lisp.Program) uint64 {
	s := treeHasher{h: 14695981039346656037, budget: dumpMaxNodes}
	roots := astraw.Exprs(p)
	s.u64(uint64(len(roots)))
	s.u64(uint64(uintptr(unsafe.Pointer(unsafe.SliceData(roots)))))
	for _, r := range roots {
		s.walk(r, 0)
	}
	return s.h
}

func treeTextNode(b *strings.Builder, v *lisp.LVal, path string, depth int, budget *int) {
	if v == nil {
		fmt.Fprintf(b, "%s: <nil>\n", path)
		return
	}
	if *budget <= 0 || depth > dumpMaxDepth {
		fmt.Fprintf(b, "%s: <truncated>\n", path)
		return
	}
	*budget--
	loc, ok := v.Source()
	_, mx := v.MacroExpansion()
	spare := 0
	for _, c := range v.Cells[len(v.Cells):cap(v.Cells)] {
		if c != nil {
			spare++
		}
	}
	fmt.Fprintf(b, "%s: type=%v funtype=%v quoted=%v sealed=%v str=%q int=%d float=%x native=%q src=%v{%s %s %d %d:%d %d %d:%d} macroexp=%v len=%d cap=%d nonnil-spare=%d\n",
		path, v.Type, v.FunType, v.IsQuoted(), v.IsSealed(), v.Str, v.Int, math.Float64bits(v.Float), nativeTag(v),
		ok, loc.File, loc.Path, loc.Pos, loc.Line, loc.Col, loc.EndPos, loc.EndLine, loc.EndCol, mx, len(v.Cells), cap(v.Cells), spare)
	for i, c := range v.Cells {
		treeTextNode(b, c, fmt.Sprintf("%s.%d", path, i), depth+1, budget)
	}
}

// treeText renders the parsed tree without addresses, one node per line.
func treeText(p lisp.Program) string {
	var b strings.Builder
	budget := dumpMaxNodes
	for i, r := range astraw.Exprs(p) {
		treeTextNode(&b, r, fmt.Sprint(i), 0, &budget)
	}
	return b.String()
}

// snap is the state of a Program the oracles compare before / after: the
// repository's fingerprint and the harness's own structural digest.
type snap struct {
	fp uint64
	th uint64
}

func snapshot(p lisp.Program) snap { return snap{fingerprint(p), treeHash(p)} }

// changed reports how p differs from the snapshot s ("" when it does not) and
// the key prefix: "fingerprint" when the repository's own digest moved,
// "tree-dump" when only the harness's dump did.  src is the program text, used
// to name the first differing field against a fresh parse.
func (s snap) changed(p lisp.Program, src string) (kind, what string) {
	fp, th := fingerprint(p), treeHash(p)
	if fp == s.fp && th == s.th {
		return "", ""
	}
	detail := "no field of a node differs from a fresh parse: a node, a Cells header or a stored source location was REPLACED (identity / capacity / spare slot changed)"
	if fresh, err := parse(src); err == nil {
		if a, b := treeText(p), treeText(fresh); a != b {
			detail = "first node that differs from a fresh parse of the same text, " + firstDiff(a, b)
		}
	}
	kind = "tree-dump"
	if fp != s.fp {
		kind = "fingerprint"
		what = fmt.Sprintf("sealed fingerprint changed from %x to %x; ", s.fp, fp)
	}
	if th != s.th {
		what += fmt.Sprintf("structural dump digest changed from %x to %x; ", s.th, th)
	}
	return kind, what + detail
}
