package c09

// Targeted program generator for C09.  It routes values whose storage belongs
// to (or is handed out by) the parsed program -- quoted literals, literals
// returned by functions, macro argument lists, &rest lists, parameters bound to
// literals, elements pulled out of literals, quasiquote leaves -- through views
// (cdr, rest, slice of each kind, elpspath ranges, views of views) into every
// in-place or capacity-sensitive builtin, and then looks at the literal again.
//
// The generator builds source text directly (its own printer); every random
// choice is a rapid draw.  The bookkeeping it does (which source / view / sink
// families a program uses) is stored in the case so that the oracle stays a
// pure function of the case.

import (
	"fmt"
	"sort"
	"strconv"
	"strings"

	"pgregory.net/rapid"
)

type ek int // element kind of a sequence

const (
	ekInt ek = iota
	ekStr
	ekPair // elements are lists (int sym)
	ekMixed
)

// vx is an expression together with what the generator knows about its value.
type vx struct {
	code string
	kind string // list | vec | bytes | map
	ek   ek
	n    int    // length if known, else -1
	src  string // coarse class of the source the value derives from
}

type tgen struct {
	t      *rapid.T
	routes map[string]bool
	srcs   []vx // in-scope variables bound to program-derived sequences
	lits   []vx // global literal-returning functions
	nvar   int
	nmac   int
	nprobe int
	defs   []string // top-level definitions hoisted before the steps (macros)
	tweak  bool     // (tweak x) and salt are defined by the prelude
	mlit   string   // literal sub-property: the def program defines (mlit)
}

func (g *tgen) n(lo, hi int, label string) int { return rapid.IntRange(lo, hi).Draw(g.t, label) }
func (g *tgen) pct(p int, label string) bool   { return rapid.IntRange(0, 99).Draw(g.t, label) < p }
func (g *tgen) oneOf(label string, opts ...string) string {
	return rapid.SampledFrom(opts).Draw(g.t, label)
}
func (g *tgen) route(s string) { g.routes[s] = true }

// u draws lo..hi uniformly (rapid's IntRange favours the bounds and small
// values, which starves the later alternatives of a big switch).
func (g *tgen) u(lo, hi int, label string) int {
	return lo + uniformIndex(g.t, hi-lo+1, label)
}

var symPool = []string{"a", "b", "c", "p", "q", "z"}
var strPool = []string{"b", "a", "zz", "", "m", "a b", "Q"}

// atoms renders n element texts of kind k as they appear INSIDE a literal.
func (g *tgen) atoms(k ek, n int) []string {
	out := make([]string, n)
	for i := range out {
		switch k {
		case ekInt:
			out[i] = strconv.Itoa(g.n(0, 9, "ei"))
		case ekStr:
			out[i] = strconv.Quote(g.oneOf("es", strPool...))
		case ekPair:
			out[i] = fmt.Sprintf("(%d %s)", g.n(0, 9, "pi"), g.oneOf("ps", symPool...))
		default:
			switch g.n(0, 4, "mk") {
			case 0:
				out[i] = strconv.Itoa(g.n(-3, 300, "mi"))
			case 1:
				out[i] = strconv.Quote(g.oneOf("ms", strPool...))
			case 2:
				out[i] = g.oneOf("my", symPool...)
			case 3:
				out[i] = "(" + strings.Join(g.atoms(ekInt, g.n(0, 3, "mn")), " ") + ")"
			default:
				out[i] = "1.5"
			}
		}
	}
	return out
}

func (g *tgen) litBody(k ek, n int) string { return "(" + strings.Join(g.atoms(k, n), " ") + ")" }

func (g *tgen) kind() ek {
	switch g.n(0, 9, "ek") {
	case 0, 1, 2, 3, 4:
		return ekInt
	case 5, 6:
		return ekStr
	case 7, 8:
		return ekPair
	}
	return ekMixed
}

func (g *tgen) length() int {
	if g.pct(8, "short") {
		return g.n(0, 1, "n01")
	}
	return g.n(2, 6, "n")
}

// elem is an expression producing one NEW element of kind k.
func (g *tgen) elem(k ek) string {
	switch k {
	case ekInt:
		if g.tweak && g.pct(25, "salt") {
			return "salt"
		}
		return strconv.Itoa(g.n(0, 9, "ne"))
	case ekStr:
		return strconv.Quote(g.oneOf("nes", strPool...))
	case ekPair:
		if g.pct(50, "pairlit") {
			return "'" + g.atoms(ekPair, 1)[0]
		}
		return fmt.Sprintf("(list %d '%s)", g.n(0, 9, "npi"), g.oneOf("nps", symPool...))
	}
	return g.oneOf("nem", "7", "\"s\"", "'y", "'(1 2)", "()")
}

func (g *tgen) less(k ek) string {
	switch k {
	case ekInt:
		return g.oneOf("less", "<", ">", "'<", "#'<", "(lambda (a b) (< a b))", "(lambda (a b) (> a b))", "(flip <)")
	case ekStr:
		return g.oneOf("sless", "string<", "string>", "(lambda (a b) (string< a b))")
	case ekPair:
		return g.oneOf("pless", "<", ">")
	}
	return g.oneOf("mless", "(lambda (a b) false)", "(lambda (a b) true)", "(lambda (a b) (string< (format-string \"{}\" a) (format-string \"{}\" b)))")
}

// sortCall builds (stable-sort less seq [key]) for a sequence of kind k.
func (g *tgen) sortCall(k ek, seq string) string {
	switch k {
	case ekPair:
		return "(stable-sort " + g.less(k) + " " + seq + " " + g.oneOf("pkey", "car", "first", "#'car", "(lambda (e) (car e))") + ")"
	case ekInt:
		if g.pct(20, "intkey") {
			return "(stable-sort " + g.less(k) + " " + seq + " " + g.oneOf("ikey", "-", "identity", "(lambda (e) (mod e 3))") + ")"
		}
	}
	return "(stable-sort " + g.less(k) + " " + seq + ")"
}

func add(n, d int) int {
	if n < 0 {
		return -1
	}
	return n + d
}

// ---------- sources ----------

func (g *tgen) source() vx {
	if len(g.srcs) > 0 && g.pct(45, "usevar") {
		v := g.srcs[g.n(0, len(g.srcs)-1, "var")]
		g.route("src:" + v.src)
		return v
	}
	k := g.kind()
	n := g.length()
	switch g.u(-1, 14, "src") {
	case -1:
		return g.elementSource(k, n)
	case 14:
		return g.quasiSource(k, n)
	case 0, 1:
		g.route("src:literal")
		return vx{"'" + g.litBody(k, n), "list", k, n, "literal"}
	case 3, 4, 5:
		if len(g.lits) > 0 {
			l := g.lits[g.n(0, len(g.lits)-1, "lit")]
			g.route("src:litfn")
			return vx{l.code, "list", l.ek, l.n, "litfn"}
		}
		fallthrough
	case 6:
		g.route("src:lambda-literal")
		return vx{"((lambda () '" + g.litBody(k, n) + "))", "list", k, n, "literal"}
	case 2, 7:
		return g.elementSource(k, n)
	case 8:
		return g.quasiSource(k, n)
	case 9:
		g.route("src:let-literal")
		return vx{"(let ([z '" + g.litBody(k, n) + "]) z)", "list", k, n, "literal"}
	case 10:
		g.route("src:identity-literal")
		return vx{"(identity '" + g.litBody(k, n) + ")", "list", k, n, "literal"}
	case 11:
		// list of literals: fresh outer list, program-owned inner lists
		g.route("src:list-of-literals")
		a := g.atoms(ekPair, n)
		for i := range a {
			a[i] = "'" + a[i]
		}
		return vx{"(list " + strings.Join(a, " ") + ")", "list", ekPair, n, "literal"}
	case 12:
		// a string literal's bytes / a literal list of small ints as bytes
		g.route("src:bytes-of-literal")
		if g.pct(50, "bstr") {
			s := g.oneOf("bs", "abc", "zyx", "", "q")
			return vx{"(to-bytes " + strconv.Quote(s) + ")", "bytes", ekInt, len(s), "literal"}
		}
		return vx{"(slice 'bytes '" + g.litBody(ekInt, n) + " 0 " + strconv.Itoa(n) + ")", "bytes", ekInt, n, "literal"}
	default:
		g.route("src:map-of-literals")
		return vx{"(sorted-map \"k\" '" + g.litBody(k, n) + " \"j\" '" + g.litBody(ekInt, 3) + ")", "map", k, n, "literal"}
	}
}

func (g *tgen) elementSource(k ek, n int) vx {
	{
		// element of a nested literal
		g.route("src:element")
		inner := g.litBody(k, n)
		other := g.litBody(ekInt, 2)
		switch g.u(0, 6, "elemhow") {
		case 0:
			return vx{"(car '(" + inner + " " + other + "))", "list", k, n, "element"}
		case 1:
			return vx{"(nth '(" + other + " " + inner + ") 1)", "list", k, n, "element"}
		case 2:
			return vx{"(second '(" + other + " " + inner + "))", "list", k, n, "element"}
		case 3:
			return vx{"(first '(" + inner + "))", "list", k, n, "element"}
		case 4:
			return vx{"(aref (vector '" + inner + ") 0)", "list", k, n, "element"}
		case 5:
			return vx{"(get (sorted-map \"k\" '" + inner + ") \"k\")", "list", k, n, "element"}
		default:
			return vx{"(car (cdr '(" + other + " " + inner + ")))", "list", k, n, "element"}
		}
	}
}

func (g *tgen) quasiSource(k ek, n int) vx {
	{
		// quasiquote: a leaf list handed out of the template, or the template
		g.route("src:quasiquote")
		inner := g.litBody(k, n)
		switch g.u(0, 5, "qq") {
		case 4, 5:
			return vx{"(quasiquote ((unquote-splicing '" + inner + ")))", "list", k, n, "quasiquote"}
		case 0:
			return vx{"(car (quasiquote (" + inner + " (unquote (+ 1 2)))))", "list", k, n, "quasiquote"}
		case 1:
			return vx{"(quasiquote " + inner + ")", "list", k, n, "quasiquote"}
		case 2:
			e := g.elem(k)
			at := g.atoms(k, n)
			return vx{"(quasiquote (" + strings.Join(at, " ") + " (unquote " + e + ")))", "list", k, n + 1, "quasiquote"}
		default:
			return vx{"(quasiquote ((unquote-splicing '" + inner + ") " + strings.Join(g.atoms(k, 1), " ") + "))", "list", k, n + 1, "quasiquote"}
		}
	}
}

// ---------- views and copying constructors ----------

func (g *tgen) idx(n int) (int, int) {
	if n < 0 || g.pct(6, "wildidx") {
		i := g.n(0, 3, "wi")
		return i, g.n(0, 4, "wj")
	}
	i := g.n(0, n, "i")
	j := g.n(i, n, "j")
	if g.pct(40, "full") {
		i, j = 0, n
	}
	return i, j
}

func dec(n int) int {
	if n <= 0 {
		return n
	}
	return n - 1
}

func span(n, i, j int) int {
	if n < 0 || j < i || j > n {
		return -1
	}
	return j - i
}

func (g *tgen) view(s vx) vx {
	c := s.code
	switch s.kind {
	case "list":
		switch op := g.u(0, 33, "lview"); op {
		case 30, 31, 32, 33:
			return g.spliceView(s)
		case 0, 1:
			g.route("view:cdr")
			return vx{"(cdr " + c + ")", "list", s.ek, dec(s.n), s.src}
		case 2, 3:
			g.route("view:rest")
			return vx{"(rest " + c + ")", "list", s.ek, dec(s.n), s.src}
		case 4, 5, 6:
			i, j := g.idx(s.n)
			g.route("view:slice-list")
			return vx{fmt.Sprintf("(slice 'list %s %d %d)", c, i, j), "list", s.ek, span(s.n, i, j), s.src}
		case 7, 8, 9:
			i, j := g.idx(s.n)
			g.route("view:slice-vector")
			return vx{fmt.Sprintf("(slice 'vector %s %d %d)", c, i, j), "vec", s.ek, span(s.n, i, j), s.src}
		case 10:
			i, j := g.idx(s.n)
			g.route("view:elpspath-range")
			return vx{fmt.Sprintf("(elpspath:? %s '(range %d %d))", c, i, j), "list", s.ek, span(s.n, i, j), s.src}
		case 11, 28, 29:
			// zero appended values: the one input on which a capacity clamp
			// alone hands back the input's own backing array
			g.route("view:append-vector-0")
			return vx{"(append 'vector " + c + ")", "vec", s.ek, s.n, s.src}
		case 12, 13:
			g.route("view:append-vector")
			return vx{"(append 'vector " + c + " " + g.elem(s.ek) + ")", "vec", s.ek, add(s.n, 1), s.src}
		case 14:
			g.route("view:append-list")
			if g.pct(30, "al0") {
				return vx{"(append 'list " + c + ")", "list", s.ek, s.n, s.src}
			}
			return vx{"(append 'list " + c + " " + g.elem(s.ek) + ")", "list", s.ek, add(s.n, 1), s.src}
		case 15:
			g.route("view:concat")
			ty := g.oneOf("cty", "list", "vector")
			kd := map[string]string{"list": "list", "vector": "vec"}[ty]
			if g.pct(50, "c1") {
				return vx{"(concat '" + ty + " " + c + ")", kd, s.ek, s.n, s.src}
			}
			return vx{"(concat '" + ty + " " + c + " " + c + ")", kd, s.ek, add(s.n, s.n), s.src}
		case 16:
			g.route("view:reverse")
			if g.pct(30, "revvec") {
				return vx{"(reverse 'vector " + c + ")", "vec", s.ek, s.n, s.src}
			}
			return vx{"(reverse 'list " + c + ")", "list", s.ek, s.n, s.src}
		case 17:
			g.route("view:map")
			ty := g.oneOf("mty", "list", "vector")
			kd := map[string]string{"list": "list", "vector": "vec"}[ty]
			return vx{"(map '" + ty + " identity " + c + ")", kd, s.ek, s.n, s.src}
		case 18:
			g.route("view:insert-index")
			i, _ := g.idx(s.n)
			return vx{fmt.Sprintf("(insert-index 'list %s %d %s)", c, i, g.elem(s.ek)), "list", s.ek, add(s.n, 1), s.src}
		case 19:
			g.route("view:insert-sorted")
			if s.ek == ekInt {
				return vx{"(insert-sorted 'list " + c + " < " + g.elem(ekInt) + ")", "list", s.ek, add(s.n, 1), s.src}
			}
			if s.ek == ekStr {
				return vx{"(insert-sorted 'list " + c + " string< " + g.elem(ekStr) + ")", "list", s.ek, add(s.n, 1), s.src}
			}
			return vx{"(insert-sorted 'list " + c + " (lambda (a b) false) " + g.elem(s.ek) + ")", "list", s.ek, add(s.n, 1), s.src}
		case 20:
			g.route("view:cons")
			return vx{"(cons " + g.elem(s.ek) + " " + c + ")", "list", s.ek, add(s.n, 1), s.src}
		case 21:
			g.route("view:select-reject")
			if g.pct(50, "sel") {
				return vx{"(select 'list (lambda (e) true) " + c + ")", "list", s.ek, s.n, s.src}
			}
			return vx{"(reject 'vector (lambda (e) false) " + c + ")", "vec", s.ek, s.n, s.src}
		case 22:
			g.route("view:apply-list")
			switch g.n(0, 3, "ap") {
			case 0:
				return vx{"(apply list " + c + ")", "list", s.ek, s.n, s.src}
			case 1:
				return vx{"(apply vector " + c + ")", "vec", s.ek, s.n, s.src}
			case 2:
				return vx{"(unpack list " + c + ")", "list", s.ek, s.n, s.src}
			default:
				return vx{"(apply (lambda (&rest r) r) " + c + ")", "list", s.ek, s.n, "rest"}
			}
		case 23:
			g.route("view:elpspath-copy")
			switch g.n(0, 2, "epc") {
			case 0:
				return vx{"(elpspath:?set " + c + " 0 " + g.elem(s.ek) + ")", "list", s.ek, s.n, s.src}
			case 1:
				return vx{"(elpspath:?del " + c + " 0)", "list", s.ek, dec(s.n), s.src}
			default:
				return vx{"(elpspath:?nil " + c + " 0)", "list", ekMixed, s.n, s.src}
			}
		case 24:
			g.route("view:element-of-pair")
			if s.ek == ekPair {
				return vx{"(car " + c + ")", "list", ekMixed, 2, s.src}
			}
			return vx{"(list " + c + " " + c + ")", "list", ekMixed, 2, s.src}
		case 25:
			g.route("view:wrap-vector")
			return vx{"(vector " + c + " " + c + ")", "vec", ekMixed, 2, s.src}
		case 26:
			g.route("view:wrap-map")
			return vx{"(sorted-map \"k\" " + c + ")", "map", s.ek, s.n, s.src}
		default:
			if s.ek == ekInt {
				g.route("view:slice-bytes")
				i, j := g.idx(s.n)
				return vx{fmt.Sprintf("(slice 'bytes %s %d %d)", c, i, j), "bytes", ekInt, span(s.n, i, j), s.src}
			}
			g.route("view:zip")
			return vx{"(zip 'list " + c + " " + c + ")", "list", ekMixed, s.n, s.src}
		}
	case "vec":
		switch g.u(0, 9, "vview") {
		case 0, 1:
			i, j := g.idx(s.n)
			g.route("view:vec-slice-vector")
			return vx{fmt.Sprintf("(slice 'vector %s %d %d)", c, i, j), "vec", s.ek, span(s.n, i, j), s.src}
		case 2, 3:
			i, j := g.idx(s.n)
			g.route("view:vec-slice-list")
			return vx{fmt.Sprintf("(slice 'list %s %d %d)", c, i, j), "list", s.ek, span(s.n, i, j), s.src}
		case 4:
			g.route("view:vec-rest")
			return vx{"(rest " + c + ")", "list", s.ek, dec(s.n), s.src}
		case 5:
			g.route("view:vec-append-vector")
			if g.pct(30, "va0") {
				return vx{"(append 'vector " + c + ")", "vec", s.ek, s.n, s.src}
			}
			return vx{"(append 'vector " + c + " " + g.elem(s.ek) + ")", "vec", s.ek, add(s.n, 1), s.src}
		case 6:
			g.route("view:vec-concat")
			return vx{"(concat 'list " + c + ")", "list", s.ek, s.n, s.src}
		case 7:
			i, j := g.idx(s.n)
			g.route("view:vec-elpspath-range")
			return vx{fmt.Sprintf("(elpspath:? %s '(range %d %d))", c, i, j), "vec", s.ek, span(s.n, i, j), s.src}
		case 8:
			g.route("view:vec-append-list")
			return vx{"(append 'list " + c + " " + g.elem(s.ek) + ")", "list", s.ek, add(s.n, 1), s.src}
		default:
			g.route("view:vec-map")
			return vx{"(map 'list identity " + c + ")", "list", s.ek, s.n, s.src}
		}
	case "map":
		g.route("view:map-get")
		return vx{"(get " + c + " \"k\")", "list", s.ek, s.n, s.src}
	}
	// bytes
	g.route("view:bytes-slice")
	i, j := g.idx(s.n)
	return vx{fmt.Sprintf("(slice 'bytes %s %d %d)", c, i, j), "bytes", ekInt, span(s.n, i, j), s.src}
}

// spliceView derives a list from s through a quasiquote template, in every
// splice shape: the template that is exactly one unquote-splicing (the shape
// used to forward &rest arguments), head / middle / tail / double splices,
// nested templates, whole-value unquote, and the forwarding function / macro.
func (g *tgen) spliceView(s vx) vx {
	c := s.code
	e := func() string { return g.atoms(s.ek, 1)[0] }
	switch g.u(0, 13, "splice") {
	case 0, 1, 2, 3:
		g.route("view:qq-lone-splice")
		return vx{"(quasiquote ((unquote-splicing " + c + ")))", "list", s.ek, s.n, s.src}
	case 4:
		g.route("view:qq-head-splice")
		return vx{"(quasiquote ((unquote-splicing " + c + ") " + e() + "))", "list", s.ek, add(s.n, 1), s.src}
	case 5:
		g.route("view:qq-tail-splice")
		return vx{"(quasiquote (" + e() + " (unquote-splicing " + c + ")))", "list", s.ek, add(s.n, 1), s.src}
	case 6:
		g.route("view:qq-middle-splice")
		return vx{"(quasiquote (" + e() + " (unquote-splicing " + c + ") " + e() + "))", "list", s.ek, add(s.n, 2), s.src}
	case 7:
		g.route("view:qq-double-splice")
		return vx{"(quasiquote ((unquote-splicing " + c + ") (unquote-splicing " + c + ")))", "list", s.ek, add(s.n, s.n), s.src}
	case 8:
		g.route("view:qq-nested-lone-splice")
		if g.pct(50, "nest") {
			return vx{"(car (quasiquote (((unquote-splicing " + c + ")))))", "list", s.ek, s.n, s.src}
		}
		return vx{"(second (quasiquote (" + e() + " ((unquote-splicing " + c + ")) " + e() + ")))", "list", s.ek, s.n, s.src}
	case 9:
		g.route("view:qq-unquote")
		if g.pct(50, "uq") {
			return vx{"(quasiquote (unquote " + c + "))", "list", s.ek, s.n, s.src}
		}
		return vx{"(car (quasiquote ((unquote " + c + ") " + e() + ")))", "list", s.ek, s.n, s.src}
	case 10:
		g.route("view:qq-forward-rest")
		return vx{"(apply (lambda (&rest r) (quasiquote ((unquote-splicing r)))) " + c + ")", "list", s.ek, s.n, "rest"}
	case 11:
		g.route("view:qq-forward-fn")
		return vx{"((lambda (y) (quasiquote ((unquote-splicing y)))) " + c + ")", "list", s.ek, s.n, s.src}
	case 12:
		g.route("view:qq-lone-splice-of-view")
		return vx{"(quasiquote ((unquote-splicing (" + g.oneOf("qv", "cdr", "rest") + " " + c + "))))", "list", s.ek, dec(s.n), s.src}
	default:
		g.route("view:qq-splice-twice")
		return vx{"(quasiquote ((unquote-splicing (quasiquote ((unquote-splicing " + c + "))))))", "list", s.ek, s.n, s.src}
	}
}

// ---------- sinks: in-place / capacity-sensitive builtins ----------

func (g *tgen) sinkRoute(family string, s vx) {
	g.route("sink:" + family)
	g.route("route:" + family + "<-" + s.src)
}

func (g *tgen) sink(s vx) vx {
	c := s.code
	switch s.kind {
	case "list":
		switch g.u(0, 19, "lsink") {
		case 0, 1, 2, 3, 4, 5, 6, 7:
			g.sinkRoute("stable-sort", s)
			return vx{g.sortCall(s.ek, c), "list", s.ek, s.n, s.src}
		case 8:
			g.sinkRoute("append!", s)
			return vx{"(append! " + c + " " + g.elem(s.ek) + ")", "list", s.ek, s.n, s.src}
		case 9:
			g.sinkRoute("assoc!", s)
			if g.pct(50, "dis") {
				return vx{"(dissoc! " + c + " 0)", "list", s.ek, s.n, s.src}
			}
			return vx{"(assoc! " + c + " 0 " + g.elem(s.ek) + ")", "list", s.ek, s.n, s.src}
		case 10:
			g.sinkRoute("append-bytes!", s)
			if g.pct(50, "abl") {
				return vx{"(append-bytes! " + c + " \"ab\")", "list", s.ek, s.n, s.src}
			}
			return vx{"(append-bytes! (to-bytes \"ab\") " + c + ")", "bytes", ekInt, -1, s.src}
		case 11, 12, 13:
			g.sinkRoute("elpspath!", s)
			switch g.n(0, 4, "epl") {
			case 0:
				return vx{"(elpspath:?set! " + c + " 0 " + g.elem(s.ek) + ")", "list", s.ek, s.n, s.src}
			case 1:
				return vx{"(elpspath:?del! " + c + " 0)", "list", s.ek, s.n, s.src}
			case 2:
				return vx{"(elpspath:?nil! " + c + " 0)", "list", s.ek, s.n, s.src}
			case 3:
				return vx{"(elpspath:?set! " + c + " '(range 0 1) (vector " + g.elem(s.ek) + " " + g.elem(s.ek) + "))", "list", s.ek, s.n, s.src}
			default:
				return vx{"(elpspath:?del! " + c + " '(range 0 1))", "list", s.ek, s.n, s.src}
			}
		case 14, 15:
			g.sinkRoute("s:", s)
			switch g.n(0, 3, "sv") {
			case 0:
				return vx{"(progn (s:validate (s:make-validator \"t\" \"any\" (apply s:in " + c + ")) " + g.elem(s.ek) + ") " + c + ")", "list", s.ek, s.n, s.src}
			case 1:
				return vx{"(progn (s:validate (s:make-validator \"t\" \"array\" (s:of \"int\" \"string\") (s:lenlte 9)) " + c + ") " + c + ")", "list", s.ek, s.n, s.src}
			case 2:
				return vx{"(progn (ignore-errors (s:validate (s:make-validator \"t\" \"any\" (s:in " + c + " " + c + ")) " + c + ")) " + c + ")", "list", s.ek, s.n, s.src}
			default:
				return vx{"(progn (ignore-errors (s:validate (s:make-validator \"t\" \"array\" (s:len " + strconv.Itoa(s.n) + ")) (slice 'vector " + c + " 0 (length " + c + ")))) " + c + ")", "list", s.ek, s.n, s.src}
			}
		case 16:
			// in-place sort of a mutable vector wrapped around the list
			g.sinkRoute("stable-sort", s)
			return vx{g.sortCall(s.ek, "(slice 'vector "+c+" 0 (length "+c+"))"), "vec", s.ek, s.n, s.src}
		case 17:
			g.sinkRoute("append!", s)
			return vx{"(append! (append 'vector " + c + ") " + g.elem(s.ek) + ")", "vec", s.ek, add(s.n, 1), s.src}
		case 18:
			g.sinkRoute("assoc!", s)
			return vx{"(assoc! (sorted-map \"k\" " + c + ") \"k2\" " + c + ")", "map", s.ek, s.n, s.src}
		default:
			g.sinkRoute("elpspath!", s)
			return vx{"(elpspath:?set! (vector " + c + " " + c + ") " + g.oneOf("epstep", "0", "1", "'*") + " 0 " + g.elem(s.ek) + ")", "vec", ekMixed, 2, s.src}
		}
	case "vec":
		switch g.u(0, 11, "vsink") {
		case 0, 1, 2, 3:
			g.sinkRoute("stable-sort", s)
			return vx{g.sortCall(s.ek, c), "vec", s.ek, s.n, s.src}
		case 4, 5, 6:
			g.sinkRoute("append!", s)
			if g.pct(40, "two") {
				return vx{"(append! " + c + " " + g.elem(s.ek) + " " + g.elem(s.ek) + ")", "vec", s.ek, add(s.n, 2), s.src}
			}
			return vx{"(append! " + c + " " + g.elem(s.ek) + ")", "vec", s.ek, add(s.n, 1), s.src}
		case 7, 8, 9:
			g.sinkRoute("elpspath!", s)
			switch g.n(0, 4, "epv") {
			case 0:
				return vx{"(elpspath:?set! " + c + " 0 " + g.elem(s.ek) + ")", "vec", s.ek, s.n, s.src}
			case 1:
				return vx{"(elpspath:?del! " + c + " 0)", "vec", s.ek, dec(s.n), s.src}
			case 2:
				return vx{"(elpspath:?nil! " + c + " 0)", "vec", ekMixed, s.n, s.src}
			case 3:
				return vx{"(elpspath:?set! " + c + " '(range 0 1) (vector " + g.elem(s.ek) + " " + g.elem(s.ek) + "))", "vec", s.ek, add(s.n, 1), s.src}
			default:
				return vx{"(elpspath:?del! " + c + " '(range 0 1))", "vec", s.ek, dec(s.n), s.src}
			}
		case 10:
			g.sinkRoute("s:", s)
			return vx{"(progn (ignore-errors (s:validate (s:make-validator \"t\" \"array\" (s:of \"int\") (s:lengte 1)) " + c + ")) " + c + ")", "vec", s.ek, s.n, s.src}
		default:
			g.sinkRoute("assoc!", s)
			return vx{"(assoc! " + c + " 0 " + g.elem(s.ek) + ")", "vec", s.ek, s.n, s.src}
		}
	case "map":
		switch g.u(0, 4, "msink") {
		case 0:
			g.sinkRoute("assoc!", s)
			return vx{"(assoc! " + c + " \"k\" " + g.elem(s.ek) + ")", "map", s.ek, s.n, s.src}
		case 1:
			g.sinkRoute("assoc!", s)
			return vx{"(dissoc! " + c + " \"k\")", "map", s.ek, s.n, s.src}
		case 2:
			g.sinkRoute("elpspath!", s)
			return vx{"(elpspath:?set! " + c + " \"k\" 0 " + g.elem(s.ek) + ")", "map", s.ek, s.n, s.src}
		case 3:
			g.sinkRoute("elpspath!", s)
			return vx{"(elpspath:?del! " + c + " \"k\")", "map", s.ek, s.n, s.src}
		default:
			g.sinkRoute("stable-sort", s)
			return vx{g.sortCall(s.ek, "(get "+c+" \"k\")"), "list", s.ek, s.n, s.src}
		}
	}
	// bytes
	switch g.n(0, 2, "bsink") {
	case 0:
		g.sinkRoute("append-bytes!", s)
		return vx{"(append-bytes! " + c + " '(1 2 255))", "bytes", ekInt, -1, s.src}
	case 1:
		g.sinkRoute("append-bytes!", s)
		return vx{"(append-bytes! " + c + " \"xy\")", "bytes", ekInt, -1, s.src}
	default:
		g.sinkRoute("append!", s)
		return vx{"(append! " + c + " 7 8)", "bytes", ekInt, -1, s.src}
	}
}

// expr = sink?(view*(source)), optionally passed through the prelude's tweak.
func (g *tgen) expr() vx {
	s := g.source()
	for d := g.n(0, 3, "nviews"); d > 0; d-- {
		s = g.view(s)
	}
	if g.pct(85, "sink") {
		s = g.sink(s)
		if g.pct(15, "sink2") {
			s = g.sink(g.view(s))
		}
	}
	if g.tweak && s.kind == "list" && g.pct(12, "tweak") {
		g.route("view:tweak")
		s = vx{"(tweak " + s.code + ")", "list", s.ek, -1, s.src}
	}
	return s
}

func (g *tgen) probeTag() string {
	g.nprobe++
	return fmt.Sprintf("\"p%d\"", g.nprobe)
}

// guarded wraps a form so that an error becomes a trace event instead of
// ending the load (most steps), or leaves it bare (the load then stops there).
func (g *tgen) guarded(form string) string {
	switch g.n(0, 9, "guard") {
	case 0:
		g.route("shape:unguarded-step")
		return form
	case 1:
		return "(ignore-errors " + form + ")"
	default:
		return "(handler-bind ((condition (lambda (c &rest a) (probe \"err\" c)))) " + form + ")"
	}
}

// body is a sequence of observations over the in-scope sources.
func (g *tgen) body(n int) []string {
	var out []string
	for i := 0; i < n; i++ {
		e := g.expr()
		out = append(out, g.guarded("(probe "+g.probeTag()+" "+e.code+")"))
	}
	return out
}

// binderStep binds a fresh variable to a program-derived sequence (a &rest
// list, a parameter bound to a literal, a macro argument list ...) around a
// body that routes it into sinks and finally looks at it again.
func (g *tgen) binderStep() string {
	g.nvar++
	name := fmt.Sprintf("xs%d", g.nvar)
	k := g.kind()
	n := g.length()
	atoms := g.atoms(k, n)
	lit := "(" + strings.Join(atoms, " ") + ")"
	// evaluated argument spelling of the same elements
	evArgs := make([]string, len(atoms))
	for i, a := range atoms {
		if k == ekPair {
			evArgs[i] = "'" + a
		} else {
			evArgs[i] = a
		}
	}
	how := g.u(0, 19, "binder")
	srcClass := "rest"
	switch {
	case how >= 6 && how <= 10:
		srcClass = "param"
	case how >= 11 && how <= 16:
		srcClass = "macroarg"
	case how >= 17:
		srcClass = "macroexpand"
	}
	g.srcs = append(g.srcs, vx{name, "list", k, n, srcClass})
	saved := len(g.srcs)
	body := g.body(g.n(1, 3, "nbody"))
	body = append(body, "(probe "+g.probeTag()+" "+name+")")
	g.srcs = g.srcs[:saved-1]
	b := strings.Join(body, " ")
	g.route("binder:" + srcClass)
	switch how {
	case 0:
		return "((lambda (&rest " + name + ") " + b + ") " + strings.Join(evArgs, " ") + ")"
	case 1:
		return "(apply (lambda (&rest " + name + ") " + b + ") '" + lit + ")"
	case 2:
		return "(apply (lambda (a0 &rest " + name + ") " + b + ") 0 '" + lit + ")"
	case 3:
		return "(funcall (lambda (&rest " + name + ") " + b + ") " + strings.Join(evArgs, " ") + ")"
	case 4:
		return "(flet ([fb (&rest " + name + ") " + b + "]) (fb " + strings.Join(evArgs, " ") + "))"
	case 5:
		return "(labels ([fb (&rest " + name + ") " + b + "]) (unpack fb '" + lit + "))"
	case 6:
		return "((lambda (" + name + ") " + b + ") '" + lit + ")"
	case 7:
		return "((lambda (&optional " + name + ") " + b + ") '" + lit + ")"
	case 8:
		return "((lambda (&key " + name + ") " + b + ") :" + name + " '" + lit + ")"
	case 9:
		return "(let ([" + name + " '" + lit + "]) " + b + ")"
	case 10:
		return "(let* ([y0 '" + lit + "] [" + name + " (cdr (cons 0 y0))]) " + b + ")"
	}
	// macro binders: the body runs at expansion time over the call form's own
	// (sealed) argument nodes
	g.nmac++
	mname := fmt.Sprintf("mac%d", g.nmac)
	wrap := "(let ([r (progn " + b + ")]) (list 'quote r))"
	switch how {
	case 11, 12:
		g.defs = append(g.defs, "(defmacro "+mname+" (&rest "+name+") "+wrap+")")
		return "(" + mname + " " + strings.Join(atoms, " ") + ")"
	case 13, 14:
		g.defs = append(g.defs, "(defmacro "+mname+" ("+name+" &rest others) "+wrap+")")
		return "(" + mname + " " + lit + " 9 8)"
	case 15:
		return "(macrolet ([" + mname + " (&rest " + name + ") " + wrap + "]) (" + mname + " " + strings.Join(atoms, " ") + "))"
	case 16:
		g.defs = append(g.defs, "(defmacro "+mname+" (&optional "+name+") "+wrap+")")
		return "(" + mname + " " + lit + ")"
	case 17:
		g.defs = append(g.defs, "(defmacro "+mname+" (&rest "+name+") "+wrap+")")
		return "(" + g.oneOf("mx", "macroexpand", "macroexpand-1") + " '(" + mname + " " + strings.Join(atoms, " ") + "))"
	case 18:
		g.defs = append(g.defs, "(defmacro "+mname+" ("+name+" &rest others) "+wrap+")")
		return "(" + g.oneOf("mx", "macroexpand", "macroexpand-1") + " (quote (" + mname + " " + lit + " 5 4)))"
	default:
		// the macro sorts its &rest directly (the design's named shape)
		g.defs = append(g.defs, "(defmacro "+mname+" (&rest "+name+") (quasiquote (quote (unquote "+g.sortCall(k, name)+"))))")
		g.sinkRoute("stable-sort", vx{src: "macroexpand"})
		form := "(" + mname + " " + strings.Join(atoms, " ") + ")"
		if g.pct(50, "direct") {
			return "(list (macroexpand '" + form + ") " + form + ")"
		}
		return "(macroexpand-1 '" + form + ")"
	}
}

// spliceStep: a macro splices a #'f / #^expr argument (parser nodes with
// synthetic locations) and its &rest into the expansion, which the evaluator
// stamps with expansion metadata.
func (g *tgen) spliceStep() string {
	g.nmac++
	mname := fmt.Sprintf("msp%d", g.nmac)
	g.route("shape:macro-splices-prefix-form")
	g.sinkRoute("stable-sort", vx{src: "macroarg"})
	atoms := strings.Join(g.atoms(ekInt, g.length()), " ")
	f := g.oneOf("spf", "#'<", "#'>", "#^(< %1 %2)", "#^(> %1 %2)", "(lambda (a b) (< a b))", "<")
	switch g.n(0, 2, "spshape") {
	case 0:
		g.defs = append(g.defs, "(defmacro "+mname+" (f &rest xs) (quasiquote (stable-sort (unquote f) (unquote xs))))")
	case 1:
		g.defs = append(g.defs, "(defmacro "+mname+" (f &rest xs) (quasiquote (progn (probe \"sp\" (quote (unquote f))) (stable-sort (unquote f) (list (unquote-splicing xs))))))")
	default:
		g.defs = append(g.defs, "(defmacro "+mname+" (f &rest xs) (list 'stable-sort f (stable-sort < xs)))")
	}
	form := "(" + mname + " " + f + " " + atoms + ")"
	switch g.n(0, 2, "spcall") {
	case 0:
		return form
	case 1:
		return "(list (macroexpand '" + form + ") " + form + ")"
	default:
		return "(eval (macroexpand-1 '" + form + "))"
	}
}

// stdlibStep hands a program-derived value to library functions outside the
// kernel (json, string, regexp, base64, math) and to the thread macros.
func (g *tgen) stdlibStep() string {
	g.route("shape:stdlib-step")
	e := g.source()
	for d := g.n(0, 2, "nviews"); d > 0; d-- {
		e = g.view(e)
	}
	c := e.code
	switch g.n(0, 8, "stdlib") {
	case 0:
		return "(json:dump-string " + c + ")"
	case 1:
		return "(json:load-string (json:dump-string " + c + "))"
	case 2:
		return "(string:join (map 'list (lambda (e) (format-string \"{}\" e)) " + c + ") \",\")"
	case 3:
		return "(string:split (string:join '(\"b\" \"a\") \",\") \",\")"
	case 4:
		return "(regexp:regexp-match? (regexp:regexp-compile \"^[0-9 ()']*$\") (format-string \"{}\" " + c + "))"
	case 5:
		return "(base64:encode (to-bytes (format-string \"{}\" " + c + ")))"
	case 6:
		g.sinkRoute("stable-sort", e)
		return "(thread-last " + c + " (stable-sort " + g.less(ekMixed) + "))"
	case 7:
		g.sinkRoute("stable-sort", e)
		return "(thread-first " + c + " (cdr) (rest) (list) (car))"
	default:
		return "(list (equal? " + c + " " + c + ") (length " + c + ") (foldl (lambda (a e) (+ a 1)) 0 " + c + "))"
	}
}

// intLit renders a literal of small ints together with its canonical value.
func (g *tgen) intLit() (body, canon string) {
	a := g.atoms(ekInt, g.n(2, 5, "mln"))
	return "(" + strings.Join(a, " ") + ")", "'(" + strings.Join(a, " ") + ")"
}

// expect wraps expr in a probe whose TAG states the canonical value the
// expression must have ("=<canon>"); the oracles check every such event.
func expect(canon, expr string) string {
	return "(probe \"=" + canon + "\" " + expr + ")"
}

// macroStep calls macros at ONE call site that is reached several times --
// across the k loads of the Program, inside a loop, inside a function called
// repeatedly -- where every expansion must be a fresh one: macros defined by
// an earlier load in the same runtime (the prelude's pm-*; the literal
// sub-property's mlit) or by the program itself.
func (g *tgen) macroStep() string {
	g.route("shape:macro-call-site-reached-again")
	g.sinkRoute("stable-sort", vx{src: "macro-template"})
	cmp := g.oneOf("mcmp", "<", ">")
	tag := g.probeTag
	if g.mlit != "" {
		// literal sub-property: the model of (mlit) is the case's literal
		// (mlit): quasiquote template; (tlit): the body's value is the parsed
		// literal node itself; (olit): the same as an &optional fallback;
		// (ilit 'L): the call form's own argument node returned unchanged
		which := g.oneOf("whichlit", "(mlit)", "(tlit)", "(tlit)", "(olit)", "(ilit (lit))")
		g.route("litmacro:" + which)
		obs := func() string { g.nprobe++; return fmt.Sprintf("(probe \"obsm%d\" %s)", g.nprobe, which) }
		sort := func(e string) string { return g.sortCall(g.lits[0].ek, e) }
		switch g.u(0, 3, "mlitshape") {
		case 0:
			return g.guarded("(dotimes (i 3) (probe " + tag() + " " + sort(obs()) + "))")
		case 1:
			g.nmac++
			fn := fmt.Sprintf("cs%d", g.nmac)
			return "(defun " + fn + " () " + sort(obs()) + ")\n" + g.guarded("(probe "+tag()+" ("+fn+") ("+fn+") ("+fn+"))")
		case 2:
			return g.guarded("(probe " + tag() + " " + sort(obs()) + ")")
		default:
			return g.guarded("(probe " + tag() + " (elpspath:?set! (slice 'vector " + sort(obs()) + " 0 1) 0 99))")
		}
	}
	shapes := 5
	if g.tweak {
		shapes = 13
	}
	switch g.u(0, shapes, "macroshape") {
	case 0, 1:
		// program-defined template literal, one call site in a loop
		body, canon := g.intLit()
		g.nmac++
		m := fmt.Sprintf("mtl%d", g.nmac)
		g.defs = append(g.defs, "(defmacro "+m+" () (quasiquote (quote "+body+")))")
		return g.guarded("(dotimes (i 3) (probe " + tag() + " (stable-sort " + cmp + " " + expect(canon, "("+m+")") + ")))")
	case 2, 3:
		// ... inside a function called repeatedly
		body, canon := g.intLit()
		g.nmac++
		m, fn := fmt.Sprintf("mtl%d", g.nmac), fmt.Sprintf("cs%d", g.nmac)
		g.defs = append(g.defs, "(defmacro "+m+" () (quasiquote (quote "+body+")))")
		return "(defun " + fn + " () (stable-sort " + cmp + " " + expect(canon, "("+m+")") + "))\n" +
			g.guarded("(probe "+tag()+" ("+fn+") ("+fn+") ("+fn+"))")
	case 4, 5:
		// program-defined macro whose template binds a literal the body sorts
		body, canon := g.intLit()
		g.nmac++
		m := fmt.Sprintf("mwl%d", g.nmac)
		g.defs = append(g.defs, "(defmacro "+m+" (&rest body) (quasiquote (let ([tl '"+body+"]) (unquote-splicing body))))")
		return g.guarded("(dotimes (i 2) (probe " + tag() + " (" + m + " (list " + expect(canon, "tl") + " (stable-sort " + cmp + " tl)))))")
	case 6:
		return g.guarded("(probe " + tag() + " (pm-global 1 2) (pm-count) (pm-gensym))")
	case 7:
		return "(set 'epoch (+ epoch 1))\n" + g.guarded("(probe "+tag()+" (pm-global salt))")
	case 8:
		return g.guarded("(dotimes (i 3) (probe " + tag() + " (pm-count) (pm-gensym)))")
	case 9:
		return g.guarded("(dotimes (i 3) (probe " + tag() + " (stable-sort " + cmp + " " + expect("'(3 1 2)", "(pm-lit)") + ")))")
	case 10:
		g.nmac++
		fn := fmt.Sprintf("cs%d", g.nmac)
		return "(defun " + fn + " () (list (pm-count) (stable-sort " + cmp + " " + expect("'(3 1 2)", "(pm-lit)") + ")))\n" +
			g.guarded("(probe "+tag()+" ("+fn+") ("+fn+"))")
	case 11:
		return g.guarded("(probe " + tag() + " (pm-template (list " + expect("'(30 10 20)", "tl") + " (stable-sort " + cmp + " tl))))")
	case 12:
		return "(set 'seen (cons " + fmt.Sprint(g.n(0, 9, "sv")) + " seen))\n" + g.guarded("(probe "+tag()+" (pm-seen (pm-count)))")
	default:
		return g.guarded("(probe " + tag() + " (stable-sort " + cmp + " (pm-lit)) (elpspath:?set! (slice 'vector " + expect("'(3 1 2)", "(pm-lit)") + " 0 2) 0 99))")
	}
}

func (g *tgen) step() string {
	switch g.u(0, 22, "step") {
	case 16, 17, 19, 20, 21:
		return g.templateStep()
	case 18, 22:
		return g.formStep()
	case 13, 14, 15:
		return g.macroStep()
	case 12:
		return g.guarded("(probe " + g.probeTag() + " " + g.stdlibStep() + ")")
	case 11:
		return g.guarded("(probe " + g.probeTag() + " " + g.spliceStep() + ")")
	case 10:
		// per-runtime counters and definitions next to the shared literals
		g.route("shape:gensym-step")
		return "(probe " + g.probeTag() + " (gensym) (format-string \"{}\" (lambda (q) q)))"
	case 0, 1, 2:
		return g.guarded("(probe " + g.probeTag() + " " + g.binderStep() + ")")
	case 3, 4:
		e := g.expr()
		g.nvar++
		name := fmt.Sprintf("v%d", g.nvar)
		form := g.guarded("(set '" + name + " " + e.code + ")")
		if e.kind == "list" || e.kind == "vec" {
			g.srcs = append(g.srcs, vx{name, e.kind, e.ek, -1, "var"})
		}
		return form
	case 5:
		e := g.expr()
		return g.guarded("(debug-print " + e.code + ")")
	case 6:
		// look at every literal function and variable again
		g.nprobe++
		return g.observeAll(fmt.Sprintf("\"obs%d\"", g.nprobe))
	case 7:
		// the same literal evaluated repeatedly inside one load
		k := g.kind()
		lit := "'" + g.litBody(k, g.length())
		g.route("shape:literal-in-loop")
		g.sinkRoute("stable-sort", vx{src: "literal"})
		return g.guarded("(dotimes (i 3) (probe " + g.probeTag() + " " + g.sortCall(k, "(probe "+g.probeTag()+" "+lit+")") + "))")
	default:
		e := g.expr()
		return g.guarded("(probe " + g.probeTag() + " " + e.code + ")")
	}
}

func (g *tgen) observeAll(tag string) string {
	parts := []string{}
	for _, l := range g.lits {
		parts = append(parts, l.code)
	}
	for _, v := range g.srcs {
		parts = append(parts, "(ignore-errors "+v.code+")")
	}
	return "(probe " + tag + " " + strings.Join(parts, " ") + ")"
}

func (g *tgen) routeList() []string {
	out := make([]string, 0, len(g.routes))
	for r := range g.routes {
		out = append(out, r)
	}
	sort.Strings(out)
	return out
}

// program builds the shared program text: literal-returning functions, hoisted
// macro definitions, steps, a final observation.
func (g *tgen) program(maxSteps int) string {
	var b strings.Builder
	nl := g.n(1, 3, "nlits")
	for i := 0; i < nl; i++ {
		k := g.kind()
		n := g.length()
		body := g.litBody(k, n)
		name := fmt.Sprintf("lit%d", i)
		switch g.n(0, 3, "litshape") {
		case 0:
			fmt.Fprintf(&b, "(defun %s () '%s)\n", name, body)
		case 1:
			fmt.Fprintf(&b, "(defun %s () (quote %s))\n", name, body)
		case 2:
			fmt.Fprintf(&b, "(set '%s (lambda () '%s))\n", name, body)
		default:
			fmt.Fprintf(&b, "(defun %s (&optional o) (if o o '%s))\n", name, body)
		}
		g.lits = append(g.lits, vx{"(" + name + ")", "list", k, n, "litfn"})
	}
	ns := g.n(1, maxSteps, "nsteps")
	steps := make([]string, ns)
	for i := range steps {
		steps[i] = g.step()
	}
	for _, d := range g.defs {
		b.WriteString(d)
		b.WriteByte('\n')
	}
	for _, s := range steps {
		b.WriteString(s)
		b.WriteByte('\n')
	}
	b.WriteString(g.observeAll("\"final\""))
	b.WriteByte('\n')
	// the load's value: the literals once more
	parts := []string{}
	for _, l := range g.lits {
		parts = append(parts, l.code)
	}
	b.WriteString("(list " + strings.Join(parts, " ") + ")\n")
	return b.String()
}

const preludeMacros = `(set 'epoch 0)
(set 'mcount 0)
(defmacro pm-global (&rest xs) (quasiquote (list (unquote epoch) (unquote salt) (unquote-splicing xs))))
(defmacro pm-count () (set 'mcount (+ mcount 1)) mcount)
(defmacro pm-gensym () (quasiquote (quote (unquote (gensym)))))
(defmacro pm-lit () (quasiquote (quote (3 1 2))))
(defmacro pm-template (&rest body) (quasiquote (let ([tl '(30 10 20)]) (unquote-splicing body))))
(defmacro pm-seen (x) (quasiquote (list (quote (unquote seen)) (unquote x))))
`

// prelude is the per-runtime (per-goroutine) private part: it defines salt and
// tweak differently in different variants.
func genPrelude(t *rapid.T, i int) string {
	salt := rapid.IntRange(0, 9).Draw(t, "salt")
	tw := rapid.SampledFrom([]string{
		"x",
		"(reverse 'list x)",
		"(stable-sort (lambda (a b) false) x)",
		"(cdr x)",
		"(append 'list x salt)",
		"(concat 'list x x)",
		"(slice 'list x 0 (length x))",
		"(progn (set 'seen (cons (length x) seen)) x)",
	}).Draw(t, "tweak")
	out := fmt.Sprintf("(set 'salt %d)\n(set 'variant %d)\n(set 'seen '())\n(defun tweak (x) %s)\n", salt, i, tw)
	// macros that exist in the runtime BEFORE the shared program is loaded
	// (the program only calls them): their expansion depends on a global read
	// at expansion time, on a counter they bump, on gensym, or hands out a
	// template literal that the caller may mutate in place
	out += preludeMacros
	// private activity: definitions, packages, schema types, counters,
	// containers -- what a runtime evaluates, defines, mutates for itself
	for k := rapid.IntRange(0, 4).Draw(t, "nprivate"); k > 0; k-- {
		v := rapid.IntRange(0, 9).Draw(t, "pv")
		switch rapid.IntRange(0, 7).Draw(t, "private") {
		case 0:
			out += fmt.Sprintf("(s:deftype \"ty\" \"int\" (s:gt %d) (s:in 3 1 2 %d))\n(ignore-errors (s:validate ty salt))\n", v, v)
		case 1:
			out += fmt.Sprintf("(in-package 'pk%d)\n(export 'thing)\n(set 'thing '(3 1 %d))\n(in-package 'user)\n", v%3, v)
		case 2:
			out += fmt.Sprintf("(dotimes (i %d) (gensym))\n", v+1)
		case 3:
			out += fmt.Sprintf("(set 'box (vector %d 2 1))\n(append! box salt)\n(stable-sort < box)\n", v)
		case 4:
			out += fmt.Sprintf("(defmacro pm (&rest xs) (quasiquote (quote (unquote (cons %d (stable-sort < xs))))))\n(pm 3 1 2)\n", v)
		case 5:
			out += fmt.Sprintf("(set 'pmap (sorted-map \"k\" '(3 1 %d)))\n(assoc! pmap \"j\" (stable-sort < (get pmap \"k\")))\n", v)
		case 6:
			out += fmt.Sprintf("(defun lit0 () '(%d %d))\n", v, salt)
		default:
			out += fmt.Sprintf("(set 'plist (stable-sort > '(1 %d 2)))\n(elpspath:?set plist 0 9)\n", v)
		}
	}
	return out
}

func newTgen(t *rapid.T) *tgen {
	return &tgen{t: t, routes: map[string]bool{}, tweak: true}
}
