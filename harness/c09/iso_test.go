package c09

// isolation: two (and more) runtimes in one process.  Runtime A evaluates,
// defines, mutates and is configured; runtimes B observe.  The observation
// program's transcript in a B runtime must be what it is in a runtime that
// never coexisted with A -- approximated, inside one process, by reference
// runtimes that ran the same observations BEFORE A existed in this case.

import (
	"fmt"
	"strings"
	"sync"

	"github.com/luthersystems/elps/lisp"
	"github.com/luthersystems/elps/verifharness/vcommon"
	"pgregory.net/rapid"
)

type IsoCase struct {
	Shared   string `json:"shared"`   // definitions every runtime loads from ONE shared Program
	Activity string `json:"activity"` // what runtime A does
	Observe  string `json:"observe"`  // what the B runtimes (and finally A) look at
	LimitsA  Limits `json:"limits_a"`
	LimitsB  Limits `json:"limits_b"`
	Parallel bool   `json:"parallel"` // A's activity runs on its own goroutine while a B observes
	NObs     int    `json:"n_obs"`    // observation loads per B runtime (1..3)
}

// isoDerive: builtins applied to the literals of the SHARED definitions
// Program.  B observes their results; A mutates their results in place.  Both
// runtimes reach the same parsed nodes, so anything a builtin keeps per node
// outside the runtime (a cache, a lazily built view) would carry A's
// mutation into B's observation.
var isoDerive = []string{
	"(reverse 'list shared-list)", "(reverse 'vector shared-list)", "(concat 'list shared-list)", "(concat 'vector shared-list)",
	"(append 'list shared-list)", "(append 'vector shared-list)", "(append 'vector shared-list 4)",
	"(slice 'vector shared-list 0 3)", "(slice 'list shared-list 0 3)", "(cdr shared-list)", "(rest shared-list)",
	"(map 'list identity shared-list)", "(map 'vector identity shared-list)", "(select 'list (lambda (e) true) shared-list)",
	"(cons 0 shared-list)", "(elpspath:? shared-list '(range 0 2))", "(elpspath:?set shared-list 0 5)", "(elpspath:?del shared-list 0)",
	"(insert-index 'list shared-list 0 5)", "(insert-sorted 'list shared-list < 5)", "(zip 'list shared-list shared-list)",
	"(apply list shared-list)", "(apply vector shared-list)", "(stable-sort < shared-list)", "(stable-sort < (shared-lit))",
	"(get shared-map \"k\")", "(shared-lit)", "(macroexpand '(shared-mac 3 1 2))", "(shared-mac 3 1 2)",
	"(json:load-string (json:dump-string shared-list))", "(string:split \"c,a,b\" \",\")", "(keys shared-map)",
	"(slice 'bytes shared-list 0 2)", "(to-bytes \"cab\")", "(make-sequence 0 3)", "(list shared-list (shared-lit))",
	"(quasiquote (3 (unquote-splicing shared-list) 1))", "(car (list shared-list))",
	"(quasiquote ((unquote-splicing shared-list)))", "(quasiquote ((unquote-splicing (shared-lit))))",
	"(quasiquote ((unquote-splicing (cdr shared-list))))", "(car (quasiquote (((unquote-splicing shared-list)))))",
	"(quasiquote (unquote shared-list))", "(reverse 'list (slice 'list shared-list 0 1))", "(concat 'list (cdr shared-list))",
}

var isoMutate = []string{
	"(stable-sort > %s)", "(stable-sort < %s)", "(append! %s 9 8)", "(elpspath:?set! %s 0 99)", "(elpspath:?del! %s 0)",
	"(elpspath:?nil! %s 0)", "(append-bytes! %s \"zz\")", "(assoc! %s \"k\" 9)", "(stable-sort > (car %s))",
	"(stable-sort > (slice 'vector %s 0 2))",
}

var isoNames = []string{"gx", "gy", "helper", "ff", "mm", "ty", "counter"}

func guardObs(tag, expr string) string {
	return fmt.Sprintf("(handler-bind ((condition (lambda (c &rest a) (probe \"fail:%s\" c)))) (probe \"%s\" %s))", tag, tag, expr)
}

func genIso() *rapid.Generator[IsoCase] {
	return rapid.Custom(func(t *rapid.T) IsoCase {
		n := func(lo, hi int, l string) int { return rapid.IntRange(lo, hi).Draw(t, l) }
		pick := func(l string, o ...string) string { return rapid.SampledFrom(o).Draw(t, l) }
		g := newTgen(t)
		g.tweak = false

		// shared definitions: literals bound to globals, mutable containers
		// built at load time, a recursive function, a literal function
		lit := g.litBody(ekInt, n(3, 6, "sl"))
		shared := "(set 'shared-list '" + lit + ")\n" +
			"(defun shared-lit () '" + g.litBody(ekInt, n(3, 6, "sl2")) + ")\n" +
			"(set 'shared-vec (vector 3 1 2))\n" +
			"(set 'shared-map (sorted-map \"k\" '(3 1 2) \"n\" 0))\n" +
			"(set 'shared-bytes (to-bytes \"abc\"))\n" +
			"(defun deep (n) (if (<= n 0) 0 (+ 1 (deep (- n 1)))))\n" +
			"(defmacro shared-mac (&rest xs) (quasiquote (quote (unquote (stable-sort < xs)))))\n"

		// A's activity
		var act []string
		na := n(2, 10, "nact")
		for i := 0; i < na; i++ {
			switch n(0, 28, "act") {
			case 20, 21, 22, 23, 24, 25, 26, 27:
				d := isoDerive[n(0, len(isoDerive)-1, "derive")]
				act = append(act, fmt.Sprintf(isoMutate[n(0, len(isoMutate)-1, "mutate")], d))
			case 0:
				act = append(act, fmt.Sprintf("(set '%s %d)", pick("an", "gx", "gy", "counter"), n(0, 99, "av")))
			case 1:
				act = append(act, fmt.Sprintf("(set '%s (vector %d 2))", pick("an", "gx", "gy"), n(0, 9, "av")))
			case 2:
				act = append(act, fmt.Sprintf("(defun %s (x) (list 'A x %d))", pick("fn", "helper", "ff"), n(0, 9, "av")))
			case 3:
				act = append(act, "(defmacro mm (x) (list 'quote (list 'A x)))")
			case 4:
				act = append(act, fmt.Sprintf("(s:deftype \"ty\" \"int\" (s:gt %d))", n(0, 9, "av")))
			case 5:
				k := n(1, 40, "ng")
				act = append(act, fmt.Sprintf("(dotimes (i %d) (gensym))", k))
			case 6:
				act = append(act, "(stable-sort "+pick("cmp", "<", ">")+" shared-list)")
			case 7:
				act = append(act, "(set 'shared-list (stable-sort > shared-list))")
			case 8:
				act = append(act, fmt.Sprintf("(append! shared-vec %d)", n(0, 9, "av")), "(stable-sort < shared-vec)")
			case 9:
				act = append(act, fmt.Sprintf("(assoc! shared-map \"k\" %d)", n(0, 9, "av")), "(assoc! shared-map \"extra\" (shared-lit))")
			case 10:
				act = append(act, "(stable-sort > (get shared-map \"k\"))", "(stable-sort > (shared-lit))")
			case 11:
				act = append(act, "(append-bytes! shared-bytes \"zz\")")
			case 12:
				act = append(act, "(in-package 'pk)", "(export 'thing)", fmt.Sprintf("(set 'thing %d)", n(0, 9, "av")), "(in-package 'user)")
			case 13:
				act = append(act, "(in-package 'pk)", "(export 'thing)", "(set 'thing 1)", "(in-package 'user)", "(use-package 'pk)")
			case 14:
				act = append(act, fmt.Sprintf("(set 'lisp:%s (lambda (&rest x) 'hijacked))", pick("bn", "identity", "reverse", "car", "xyz")))
			case 15:
				act = append(act, "(defun deep (n) 'redefined)")
			case 16:
				act = append(act, "(defun shared-lit () '(0 0 0))")
			case 17:
				act = append(act, "(defmacro shared-mac (&rest xs) ''redefined)")
			case 18:
				act = append(act, "(elpspath:?set! shared-vec 0 "+fmt.Sprint(n(10, 19, "av"))+")", "(elpspath:?del! shared-map \"n\")")
			case 19, 28:
				// a LIBRARY option switched on in A: the switch belongs to A's
				// runtime, every other runtime keeps decoding with its own
				act = append(act, "("+pick("jsonopt", "json:use-exact-integers", "json:use-string-numbers", "json:use-exact-integers")+" true)")
			default:
				e := g.expr()
				act = append(act, "(set 'gx "+e.code+")")
			}
		}
		for i := range act {
			act[i] = "(ignore-errors " + act[i] + ")"
		}

		// observations
		obs := []string{
			guardObs("gx", "gx"), guardObs("gy", "gy"), guardObs("counter", "counter"),
			guardObs("helper", "(helper 1)"), guardObs("ff", "(ff 2)"), guardObs("mm", "(mm z)"),
			guardObs("mm-expand", "(macroexpand '(mm z))"),
			guardObs("ty", "(s:validate ty 5)"), guardObs("ty-low", "(s:validate ty 0)"),
			guardObs("gensym", "(list (gensym) (gensym))"),
			guardObs("shared-list", "shared-list"), guardObs("shared-lit", "(shared-lit)"),
			guardObs("shared-vec", "shared-vec"), guardObs("shared-map", "shared-map"), guardObs("shared-bytes", "shared-bytes"),
			guardObs("shared-mac", "(shared-mac 3 1 2)"),
			guardObs("pk:thing", "pk:thing"), guardObs("thing", "thing"),
			guardObs("identity", "(identity 5)"), guardObs("reverse", "(reverse 'list '(1 2 3))"), guardObs("car", "(car '(1 2))"),
			guardObs("lisp:xyz", "lisp:xyz"),
			guardObs("deep", fmt.Sprintf("(deep %d)", n(5, 120, "deep"))),
			guardObs("alloc", fmt.Sprintf("(length (make-sequence 0 %d))", n(1, 400, "alloc"))),
			guardObs("lambda-text", "(format-string \"{}\" (lambda (q) (list q gx)))"),
			"(defun ds () (debug-stack))", "(ds)",
			guardObs("sort-literal", "(stable-sort < '(3 1 2))"),
			guardObs("json-big-int", "(json:load-string \"[9007199254740993, 1.5, 3]\")"),
			guardObs("json-big-int-type", "(type (json:load-string \"9007199254740993\"))"),
			guardObs("json-dump-after-load", "(json:dump-string (json:load-string \"[18014398509481985, 2]\"))"),
			guardObs("own-mutation", "(progn (append! shared-vec 7) (assoc! shared-map \"b\" 1) (length shared-vec))"),
		}
		for i, d := range isoDerive {
			obs = append(obs, guardObs(fmt.Sprintf("derive%d", i), d))
		}
		// a generated subset in generated order (always at least 6)
		perm := rapid.Permutation(obs).Draw(t, "obsorder")
		keep := n(6, len(perm), "nobs")
		observe := strings.Join(perm[:keep], "\n") + "\n"

		c := IsoCase{
			Shared: shared, Activity: strings.Join(act, "\n") + "\n", Observe: observe,
			LimitsA: defaultLimits, LimitsB: defaultLimits,
			Parallel: rapid.Bool().Draw(t, "parallel"), NObs: n(1, 3, "nobsloads"),
		}
		switch n(0, 5, "cfga") {
		case 0:
			c.LimitsA.MaxSteps = int64(n(30, 2000, "stepsA"))
		case 1:
			c.LimitsA.MaxPhysical = n(4, 40, "physA")
		case 2:
			c.LimitsA.MaxAlloc = n(1, 50, "allocA")
		case 3:
			c.LimitsA.MaxNesting = n(5, 60, "nestA")
		}
		if n(0, 3, "cfgb") == 0 {
			c.LimitsB.MaxPhysical = n(30, 200, "physB")
			c.LimitsB.MaxAlloc = n(100, 1000, "allocB")
		}
		return c
	})
}

func checkIso(c IsoCase, ctx *vcommon.Ctx) *vcommon.Failure {
	if c.NObs < 1 || c.NObs > 5 {
		return nil
	}
	pS, e1 := parse(c.Shared)
	pQ, e2 := parse(c.Observe)
	pA, e3 := parse(c.Activity)
	if e1 != nil || e2 != nil || e3 != nil {
		ctx.Class("skip/parse-error")
		return nil
	}
	fps := []snap{snapshot(pS), snapshot(pQ), snapshot(pA)}
	newB := func() *vcommon.Rt { return vcommon.NewRuntime(c.LimitsB.cfg()) }
	observeN := func(rt *vcommon.Rt, n int) []transcript {
		out := make([]transcript, n)
		for i := range out {
			out[i] = loadOnce(rt, pQ)
		}
		return out
	}
	prep := func(rt *vcommon.Rt) *vcommon.Failure {
		if t := loadOnce(rt, pS); t.isErr {
			return vcommon.Failf("harness/shared-defs", "shared definitions fail: %s", t.s)
		}
		return nil
	}
	// reference: runtimes that finish before A exists (in this case)
	ref := newB()
	if f := prep(ref); f != nil {
		return f
	}
	want := observeN(ref, c.NObs+1)
	ref2 := newB()
	if f := prep(ref2); f != nil {
		return f
	}
	if !sameTranscripts(want, observeN(ref2, c.NObs+1)) {
		// two fresh runtimes with no A in between already disagree
		return vcommon.Failf("isolation/fresh-runtimes-differ", "two fresh runtimes running the same observations one after the other give different transcripts: %s\nobservations:\n%s",
			firstDiffAll(want, observeN(newBPrepared(c, pS), c.NObs+1)), c.Observe)
	}
	for _, t := range want {
		if t.panic {
			return vcommon.Failf("internal-panic/isolation", "observation raised an internal panic:\n%s", t.s)
		}
	}

	// B1 observes once before A exists, and again after A's activity
	b1 := newB()
	if f := prep(b1); f != nil {
		return f
	}
	got := observeN(b1, 1)
	if got[0].s != want[0].s {
		return vcommon.Failf("isolation/before", "a fresh runtime's observations differ from the reference before A did anything: %s", firstDiff(got[0].s, want[0].s))
	}
	// B2 is created (and prepared) before A's activity, observes only afterwards
	b2 := newB()
	if f := prep(b2); f != nil {
		return f
	}
	// B3 is created before A's activity but not even prepared yet
	b3 := newB()

	a := vcommon.NewRuntime(c.LimitsA.cfg())
	loadOnce(a, pS) // may fail under A's limits; that is A's business
	var aT transcript
	if c.Parallel {
		ctx.Class("parallel")
		var wg sync.WaitGroup
		wg.Add(1)
		go func() {
			defer wg.Done()
			aT = loadOnce(a, pA)
		}()
		// B4 observes while A is active
		b4 := newB()
		f := prep(b4)
		var during []transcript
		if f == nil {
			during = observeN(b4, c.NObs)
		}
		wg.Wait()
		if f != nil {
			return f
		}
		for i := range during {
			if during[i].s != want[i].s {
				return vcommon.Failf("isolation/during", "observation %d in a runtime running while A was active differs from the reference: %s\nA's activity:\n%s", i+1, firstDiff(during[i].s, want[i].s), c.Activity)
			}
		}
	} else {
		ctx.Class("sequential")
		aT = loadOnce(a, pA)
	}
	if aT.panic {
		return vcommon.Failf("internal-panic/isolation-activity", "A's activity raised an internal panic:\n%s\n%s", aT.s, c.Activity)
	}
	// A's own view of the observations: shows that the activity was observable
	// at all (non-trivial rule)
	aView := loadOnce(a, pQ)
	if aView.s != want[0].s {
		ctx.Class("activity-observable-in-A")
		ctx.NonTrivial(c.Shared + "\x00" + c.Activity + "\x00" + c.Observe)
		ctx.Note("A's activity:\n" + c.Activity)
	} else {
		ctx.Class("activity-not-observable-in-A")
	}

	// after A's activity
	after := observeN(b1, c.NObs)
	for i := range after {
		if after[i].s != want[i+1].s {
			return vcommon.Failf("isolation/after-existing", "observation %d of a runtime that already existed differs after A's activity: %s\nA's activity:\n%s", i+2, firstDiff(after[i].s, want[i+1].s), c.Activity)
		}
	}
	g2 := observeN(b2, c.NObs)
	for i := range g2 {
		if g2[i].s != want[i].s {
			return vcommon.Failf("isolation/after-prepared", "observation %d of a runtime prepared before A's activity differs: %s\nA's activity:\n%s", i+1, firstDiff(g2[i].s, want[i].s), c.Activity)
		}
	}
	if f := prep(b3); f != nil {
		return vcommon.Failf("isolation/shared-defs-after", "the shared definitions fail to load in a runtime created before A's activity: %s", f.Msg)
	}
	g3 := observeN(b3, c.NObs)
	for i := range g3 {
		if g3[i].s != want[i].s {
			return vcommon.Failf("isolation/after-created", "observation %d of a runtime created before and prepared after A's activity differs: %s\nA's activity:\n%s", i+1, firstDiff(g3[i].s, want[i].s), c.Activity)
		}
	}
	b5 := newB()
	if f := prep(b5); f != nil {
		return vcommon.Failf("isolation/shared-defs-after", "the shared definitions fail to load in a runtime created after A's activity: %s", f.Msg)
	}
	g5 := observeN(b5, c.NObs)
	for i := range g5 {
		if g5[i].s != want[i].s {
			return vcommon.Failf("isolation/after-new", "observation %d of a runtime created after A's activity differs: %s\nA's activity:\n%s", i+1, firstDiff(g5[i].s, want[i].s), c.Activity)
		}
	}
	for i, p := range []lisp.Program{pS, pQ, pA} {
		if kind, what := fps[i].changed(p, []string{c.Shared, c.Observe, c.Activity}[i]); kind != "" {
			return vcommon.Failf(kind+"/isolation", "shared parsed program %d was changed: %s\nA's activity:\n%s", i, what, c.Activity)
		}
	}
	return nil
}

func newBPrepared(c IsoCase, pS lisp.Program) *vcommon.Rt {
	rt := vcommon.NewRuntime(c.LimitsB.cfg())
	loadOnce(rt, pS)
	return rt
}

func firstDiffAll(a, b []transcript) string {
	for i := range a {
		if i < len(b) && a[i].s != b[i].s {
			return fmt.Sprintf("observation %d: %s", i+1, firstDiff(b[i].s, a[i].s))
		}
	}
	return "(transient difference: a third fresh runtime agrees with the first)"
}
