package c09

// Parsed nodes handed to the evaluator's own consumers.
//
// Evaluating a reader-quoted literal allocates nothing: the value IS the parsed
// node.  gen_test.go routes such nodes into the in-place BUILTINS; this file
// routes them into the places where the EVALUATOR itself post-processes a value
// it was handed -- the lazy unquote of a macro's result, macroexpand /
// macroexpand-1, eval, funcall / apply / map with a function designator taken
// from a literal -- and reaches every such place several times with the same
// node: two uses in one load, a loop, a function called repeatedly, the k loads
// of the Program, fresh runtimes, concurrent runtimes.
//
// Every template carries the generator's own model of (a) the value of
// evaluating the form once and (b) the canonical rendering of the form as data;
// observations are emitted as model-stated probes (expect), so a template that
// stops being a literal is seen inside a single load too.

import (
	"fmt"
	"sort"
	"strconv"
	"strings"
)

// tmpl is a small form "(head rest...)" together with its model.
type tmpl struct {
	head, rest string
	val        string // vcommon.Canon of the form's value
	data       string // vcommon.Canon of the form as data, without the leading quote
	ints       bool   // val is a list of ints
	plainList  bool   // (list i j ...): the arguments are self-evaluating ints
}

func (t tmpl) form() string { return "(" + t.head + " " + t.rest + ")" }

func intsCanon(xs []int) string {
	p := make([]string, len(xs))
	for i, x := range xs {
		p[i] = strconv.Itoa(x)
	}
	return "'(" + strings.Join(p, " ") + ")"
}

func intsText(xs []int) string {
	p := make([]string, len(xs))
	for i, x := range xs {
		p[i] = strconv.Itoa(x)
	}
	return strings.Join(p, " ")
}

func (g *tgen) ints(lo, hi int) []int {
	n := g.n(lo, hi, "tn")
	xs := make([]int, n)
	for i := range xs {
		xs[i] = g.n(0, 9, "ti")
	}
	return xs
}

// template draws one template form.
func (g *tgen) template() tmpl {
	switch g.u(0, 11, "tmpl") {
	case 0, 1:
		xs := g.ints(2, 4)
		return tmpl{head: "list", rest: intsText(xs), val: intsCanon(xs), data: "(list " + intsText(xs) + ")", ints: true, plainList: true}
	case 2:
		s, n := g.oneOf("tsym", symPool...), g.n(0, 9, "tsn")
		r := fmt.Sprintf("'%s %d", s, n)
		return tmpl{head: "list", rest: r, val: fmt.Sprintf("'('%s %d)", s, n), data: "(list " + r + ")"}
	case 3:
		a, b := g.n(0, 50, "ta"), g.n(0, 50, "tb")
		r := fmt.Sprintf("%d %d", a, b)
		return tmpl{head: "+", rest: r, val: strconv.Itoa(a + b), data: "(+ " + r + ")"}
	case 4:
		xs := g.ints(2, 4)
		r := fmt.Sprintf("%d '(%s)", xs[0], intsText(xs[1:]))
		return tmpl{head: "cons", rest: r, val: intsCanon(xs), data: "(cons " + r + ")", ints: true}
	case 5:
		xs := g.ints(1, 3)
		return tmpl{head: "vector", rest: intsText(xs), val: "#vec[" + intsText(xs) + "]", data: "(vector " + intsText(xs) + ")"}
	case 6:
		// a literal nested in the template is sorted every time the expansion runs
		xs := g.ints(2, 4)
		ys := append([]int(nil), xs...)
		sort.Ints(ys)
		r := "< '(" + intsText(xs) + ")"
		return tmpl{head: "stable-sort", rest: r, val: intsCanon(ys), data: "(stable-sort " + r + ")", ints: true}
	case 7:
		xs := g.ints(1, 4)
		r := "(" + intsText(xs) + ")"
		return tmpl{head: "quote", rest: r, val: intsCanon(xs), data: "(quote " + r + ")", ints: true}
	case 8:
		xs := g.ints(2, 4)
		r := fmt.Sprintf("'list '(%d) '(%s)", xs[0], intsText(xs[1:]))
		return tmpl{head: "concat", rest: r, val: intsCanon(xs), data: "(concat " + r + ")", ints: true}
	case 9:
		xs := g.ints(1, 3)
		r := "true '(" + intsText(xs) + ") 'no"
		return tmpl{head: "if", rest: r, val: intsCanon(xs), data: "(if " + r + ")", ints: true}
	case 10:
		// a template with a side effect (stderr is part of the transcript)
		xs := g.ints(2, 3)
		r := fmt.Sprintf("(debug-print %d) (list %s)", g.n(0, 9, "tdp"), intsText(xs))
		return tmpl{head: "progn", rest: r, val: intsCanon(xs), data: "(progn " + r + ")", ints: true}
	default:
		a := g.n(0, 9, "tlv")
		r := fmt.Sprintf("((v %d)) (list v v)", a)
		return tmpl{head: "let", rest: r, val: fmt.Sprintf("'(%d %d)", a, a), data: "(let " + r + ")", ints: true}
	}
}

// mcall is one call form of a generated macro with the model of its expansion
// and of its value.
type mcall struct {
	form string // (N args...)
	val  string // canon of evaluating the call ("" = no model, plain probe)
	exp  string // canon of (macroexpand-1 '(N args...)) ("" = no model)
	ints bool
}

// expectOr emits a model-stated probe, or a plain probe when there is no model
// or the canon cannot be spelled inside a probe tag.
func (g *tgen) expectOr(canon, expr string) string {
	if canon == "" || strings.ContainsAny(canon, "\"\\") {
		return "(probe " + g.probeTag() + " " + expr + ")"
	}
	return expect(canon, expr)
}

// bodyLiteralMacro defines a macro whose body's VALUE is a parsed node -- a
// reader-quoted template, reached directly or through if / cond / let / progn /
// an &optional fallback / the macro's own argument / &rest / an element of a
// literal / a function / a global -- and returns its call forms.  macrolet
// reports the definition as a binding instead of hoisting a defmacro.
func (g *tgen) bodyLiteralMacro(local bool) (binding string, calls []mcall) {
	g.nmac++
	n := fmt.Sprintf("tm%d", g.nmac)
	t1, t2 := g.template(), g.template()
	call := func(args string, t tmpl) mcall {
		f := "(" + n + ")"
		if args != "" {
			f = "(" + n + " " + args + ")"
		}
		return mcall{form: f, val: t.val, exp: "'" + t.data, ints: t.ints}
	}
	var params, body string
	hi := 15
	if local {
		hi = 9 // shapes that need no extra top-level definition
	}
	switch shape := g.u(0, hi, "mbshape"); shape {
	case 0, 1:
		g.route("tmpl:direct")
		params, body = "", "'"+t1.form()
		calls = []mcall{call("", t1)}
	case 2:
		g.route("tmpl:if")
		params, body = "f", "(if f '"+t1.form()+" '"+t2.form()+")"
		calls = []mcall{call("true", t1), call("()", t2)}
	case 3:
		g.route("tmpl:cond")
		t3 := g.template()
		params, body = "x", "(cond ((nil? x) '"+t1.form()+") ((equal? x 1) '"+t2.form()+") (else '"+t3.form()+"))"
		calls = []mcall{call("()", t1), call("1", t2), call("2", t3)}
	case 4:
		g.route("tmpl:let")
		params = ""
		if g.pct(50, "letstar") {
			body = "(let* ([a '" + t1.form() + "] [b a]) b)"
		} else {
			body = "(let ([a '" + t1.form() + "]) a)"
		}
		calls = []mcall{call("", t1)}
	case 5:
		g.route("tmpl:progn")
		params = ""
		if g.tweak {
			body = "(progn (set 'mcount (+ mcount 1)) '" + t1.form() + ")"
		} else {
			body = "(progn 1 '" + t1.form() + ")"
		}
		calls = []mcall{call("", t1)}
	case 6:
		// the fallback of an &optional parameter; the argument, when given, is
		// a node of the CALL form and is returned unchanged
		g.route("tmpl:optional-fallback")
		params, body = "&optional x", "(if x x '"+t1.form()+")"
		calls = []mcall{call("", t1), call("'"+t2.form(), t2), call(t2.form(), t2)}
	case 7:
		g.route("tmpl:argument-returned")
		params, body = "x", "x"
		calls = []mcall{call("'"+t1.form(), t1), call(t2.form(), t2)}
	case 8:
		g.route("tmpl:rest-element-returned")
		params, body = "&rest xs", "(if (nil? xs) '"+t1.form()+" (car xs))"
		if g.pct(40, "nth") {
			body = "(if (nil? xs) '" + t1.form() + " (nth xs 0))"
		}
		calls = []mcall{call("", t1), call("'"+t2.form()+" 5", t2), call(t2.form()+" 6 7", t2)}
	case 9:
		g.route("tmpl:element-of-literal")
		params = ""
		if g.pct(50, "second") {
			body = "(second '(" + t2.form() + " " + t1.form() + "))"
		} else {
			body = "(car '(" + t1.form() + " " + t2.form() + "))"
		}
		calls = []mcall{call("", t1)}
	case 10:
		// rebuilt with cons from pieces of literals: head symbol and argument
		// nodes are the Program's own
		g.route("tmpl:cons-of-literal-pieces")
		params, body = "", "(cons (car '("+t1.head+")) (cdr '(0 "+t1.rest+")))"
		calls = []mcall{call("", t1)}
	case 11:
		// nested in a list built with list: (progn 'T1 'T2) -- the value of the
		// call is T2 AS DATA, i.e. the parsed node itself
		g.route("tmpl:list-around-literals")
		params, body = "", "(list (car '(progn)) '"+t1.form()+" '"+t2.form()+")"
		calls = []mcall{{form: "(" + n + ")", val: "'" + t2.data, exp: "'(progn '" + t1.data + " '" + t2.data + ")"}}
	case 12:
		g.route("tmpl:via-function")
		g.defs = append(g.defs, "(defun "+n+"f () '"+t1.form()+")")
		params, body = "", "("+n+"f)"
		calls = []mcall{call("", t1)}
	case 13:
		g.route("tmpl:via-global")
		g.defs = append(g.defs, "(set '"+n+"g '"+t1.form()+")")
		params, body = "", n+"g"
		calls = []mcall{call("", t1)}
	case 14:
		g.route("tmpl:docstring-then-literal")
		params, body = "", "\"expands to a fixed form\" '"+t1.form()
		calls = []mcall{call("", t1)}
	default:
		g.route("tmpl:key-fallback")
		params, body = "&key k", "(if k k '"+t1.form()+")"
		calls = []mcall{call("", t1), call(":k '"+t2.form(), t2)}
	}
	if local {
		return "[" + n + " (" + params + ") " + body + "]", calls
	}
	g.defs = append(g.defs, "(defmacro "+n+" ("+params+") "+body+")")
	return "", calls
}

// atomMacro: macros whose result is an atom, an empty list, a quoted symbol or
// a nested quote (the shapes on which an unquote must NOT write either: nil and
// the booleans are process-wide singletons).
func (g *tgen) atomMacro() mcall {
	g.nmac++
	n := fmt.Sprintf("ta%d", g.nmac)
	g.route("tmpl:atom-result")
	type ab struct{ body, val string }
	pool := []ab{
		{"'7", "7"}, {"7", "7"}, {"'\"s\"", ""}, {"'()", "()"}, {"()", "()"}, {"''a", "'a"}, {"'''a", "''a"},
		{"''(3 1 2)", "'(3 1 2)"}, {"'true", "true"}, {"'false", "false"}, {"':kw", ":kw"}, {"'1.5", "1.5f"}, {"''()", "'()"},
		{"\"just a string\"", ""}, {"(if true ''b ''c)", "'b"}, {"(let ([q ''(2 1)]) q)", "'(2 1)"},
	}
	c := pool[g.u(0, len(pool)-1, "atom")]
	g.defs = append(g.defs, "(defmacro "+n+" () "+c.body+")")
	return mcall{form: "(" + n + ")", val: c.val, ints: c.body == "''(3 1 2)"}
}

// reach evaluates expr -- whose model-stated value is canon -- at ONE place of
// the program text several times.
func (g *tgen) reach(canon, expr string, ints bool) string {
	e := g.expectOr(canon, expr)
	tag := g.probeTag
	hi := 6
	if ints {
		hi = 8
	}
	switch g.u(0, hi, "reach") {
	case 0:
		g.route("reach:twice-in-a-row")
		return g.guarded("(probe " + tag() + " (list " + e + " " + g.expectOr(canon, expr) + "))")
	case 1:
		g.route("reach:dotimes")
		return g.guarded("(dotimes (i 3) " + e + ")")
	case 2:
		g.route("reach:function-called-repeatedly")
		g.nmac++
		fn := fmt.Sprintf("rf%d", g.nmac)
		return "(defun " + fn + " () " + e + ")\n" + g.guarded("(probe "+tag()+" ("+fn+") ("+fn+") ("+fn+"))")
	case 3:
		g.route("reach:once-per-load")
		return g.guarded(e)
	case 4:
		g.route("reach:flet")
		return g.guarded("(flet ([fb () " + e + "]) (probe " + tag() + " (fb) (fb)))")
	case 5:
		g.route("reach:map-lambda")
		return g.guarded("(probe " + tag() + " (map 'list (lambda (i) " + e + ") '(1 2 3)))")
	case 6:
		g.route("reach:labels-recursion")
		return g.guarded("(labels ([lp (i) (if (< i 1) () (progn " + e + " (lp (- i 1))))]) (lp 3))")
	default:
		// the value is then sorted in place, and looked at again
		g.route("reach:sorted-in-place")
		g.sinkRoute("stable-sort", vx{src: "macro-body-literal"})
		return g.guarded("(dotimes (i 2) (probe " + tag() + " (stable-sort " + g.oneOf("rcmp", "<", ">") + " " + e + ")))")
	}
}

// templateStep: a macro whose result is a parsed node, expanded repeatedly --
// by calling it, by macroexpand / macroexpand-1 of a quoted call, by eval of the
// expansion.
func (g *tgen) templateStep() string {
	g.route("shape:macro-result-is-a-parsed-node")
	g.route("route:macro-unquote<-macro-body-literal")
	var out []string
	if g.u(0, 99, "atommac") < 12 {
		c := g.atomMacro()
		out = append(out, g.reach(c.val, c.form, c.ints))
		if g.pct(40, "atomx") {
			out = append(out, g.guarded("(probe "+g.probeTag()+" ("+g.oneOf("amx", "macroexpand", "macroexpand-1")+" '"+c.form+"))"))
		}
		return strings.Join(out, "\n")
	}
	if g.u(0, 99, "local") < 18 {
		// macrolet: both uses inside one binding form
		g.route("tmpl:macrolet")
		b, calls := g.bodyLiteralMacro(true)
		var uses []string
		for _, c := range calls {
			uses = append(uses, g.expectOr(c.val, c.form))
			if g.pct(60, "again") {
				uses = append(uses, g.expectOr(c.val, c.form))
			}
		}
		form := "(macrolet (" + b + ") (list " + strings.Join(uses, " ") + "))"
		switch g.n(0, 2, "mlreach") {
		case 0:
			return g.guarded("(probe " + g.probeTag() + " " + form + ")")
		case 1:
			return g.guarded("(dotimes (i 2) (probe " + g.probeTag() + " " + form + "))")
		default:
			g.nmac++
			fn := fmt.Sprintf("rf%d", g.nmac)
			return "(defun " + fn + " () " + form + ")\n" + g.guarded("(probe "+g.probeTag()+" ("+fn+") ("+fn+"))")
		}
	}
	_, calls := g.bodyLiteralMacro(false)
	for _, c := range calls {
		switch g.u(0, 9, "tuse") {
		case 0, 1, 2, 3, 4:
			g.route("tuse:call")
			out = append(out, g.reach(c.val, c.form, c.ints))
		case 5:
			g.route("tuse:macroexpand")
			out = append(out, g.reach(c.exp, "(macroexpand '"+c.form+")", false))
		case 6:
			g.route("tuse:macroexpand-1")
			out = append(out, g.reach(c.exp, "(macroexpand-1 (quote "+c.form+"))", false))
		case 7:
			g.route("tuse:eval-of-expansion")
			out = append(out, g.reach(c.val, "(eval ("+g.oneOf("emx", "macroexpand", "macroexpand-1")+" '"+c.form+"))", c.ints))
		case 8:
			// the expansion, as data, goes into an in-place builtin; the macro
			// is then used again
			g.route("tuse:expansion-into-sink")
			s := g.sink(vx{"(macroexpand-1 '" + c.form + ")", "list", ekMixed, -1, "macro-body-literal"})
			out = append(out, g.guarded("(probe "+g.probeTag()+" "+s.code+")"), g.reach(c.val, c.form, c.ints))
		default:
			g.route("tuse:eval-of-quoted-call")
			out = append(out, g.reach(c.val, "(eval '"+c.form+")", c.ints))
		}
		if g.pct(35, "callagain") {
			out = append(out, g.guarded(g.expectOr(c.val, c.form)))
		}
	}
	return strings.Join(out, "\n")
}

// formStep: a literal returned from a FUNCTION and then used as a form (eval,
// macroexpand, macroexpand-1) or as a function designator (funcall, apply, map),
// and docstrings (a body that is only a string returns the parsed string node).
func (g *tgen) formStep() string {
	g.route("shape:literal-used-as-form")
	g.route("route:form-consumer<-function-returned-literal")
	g.nmac++
	n := fmt.Sprintf("tf%d", g.nmac)
	t := g.template()
	def := func(body string) {
		doc := ""
		if g.pct(30, "doc") {
			g.route("form:docstring-before-body")
			doc = "\"returns a form\" "
		}
		switch g.n(0, 2, "fdef") {
		case 0:
			g.defs = append(g.defs, "(defun "+n+" () "+doc+body+")")
		case 1:
			g.defs = append(g.defs, "(defun "+n+" (&optional o) "+doc+"(if o o "+body+"))")
		default:
			g.defs = append(g.defs, "(set '"+n+" (lambda () "+body+"))")
		}
	}
	call := "(" + n + ")"
	switch g.u(0, 15, "formuse") {
	case 0, 1:
		g.route("form:eval")
		def("'" + t.form())
		return g.reach(t.val, "(eval "+call+")", t.ints)
	case 2:
		g.route("form:macroexpand-of-non-macro-form")
		def("'" + t.form())
		return g.reach("'"+t.data, "("+g.oneOf("fmx", "macroexpand", "macroexpand-1")+" "+call+")", false) + "\n" +
			g.reach(t.val, "(eval "+call+")", t.ints)
	case 3:
		g.route("form:eval-of-rebuilt-form")
		def("'" + t.form())
		return g.reach(t.val, "(eval (cons (car "+call+") (cdr "+call+")))", t.ints)
	case 4:
		g.route("form:eval-progn-of-forms")
		def("'" + t.form())
		// (progn 'T 'T): the forms stay quoted inside the built list, so the
		// value is T as data -- the parsed node handed to the host by eval
		return g.reach("'"+t.data, "(eval (list (car '(progn)) "+call+" "+call+"))", false) + "\n" + g.reach(t.val, "(eval "+call+")", t.ints)
	case 5:
		g.route("form:funcall-head-of-literal")
		t = tmpl{head: "list", rest: "1 2", val: "'(1 2)", data: "(list 1 2)", ints: true, plainList: true}
		def("'" + t.form())
		return g.reach("'(4 5)", "(funcall (car "+call+") 4 5)", true) + "\n" + g.reach(t.val, "(apply (car "+call+") (cdr "+call+"))", true)
	case 6, 7:
		// a quoted MACRO call returned by a function
		g.route("form:quoted-macro-call")
		_, calls := g.bodyLiteralMacro(false)
		c := calls[g.n(0, len(calls)-1, "whichcall")]
		def("'" + c.form)
		switch g.n(0, 3, "qmc") {
		case 0:
			return g.reach(c.val, "(eval "+call+")", c.ints)
		case 1:
			return g.reach(c.exp, "(macroexpand "+call+")", false) + "\n" + g.reach(c.val, "(eval "+call+")", c.ints)
		case 2:
			return g.reach(c.val, "(eval (macroexpand-1 "+call+"))", c.ints)
		default:
			return g.reach(c.exp, "(macroexpand-1 "+call+")", false) + "\n" + g.guarded(g.expectOr(c.val, c.form))
		}
	case 8, 9:
		g.route("form:function-designator")
		def("'list")
		switch g.n(0, 3, "fdes") {
		case 0:
			return g.reach("'(1 2)", "(funcall "+call+" 1 2)", true)
		case 1:
			return g.reach("'(2 1)", "(apply "+call+" '(2 1))", true)
		case 2:
			return g.reach("'(3 2 1)", "(apply "+call+" 3 '(2 1))", true)
		default:
			return g.reach("'('(1) '(2))", "(map 'list "+call+" '(1 2))", false)
		}
	case 10:
		g.route("form:eval-of-atom-or-nested-quote")
		type ab struct{ form, val string }
		pool := []ab{{"''(3 1 2)", "'(3 1 2)"}, {"'5", "5"}, {"'true", "true"}, {"'()", "()"}, {"''a", "'a"}, {"'(quote (2 1))", "'(2 1)"}}
		c := pool[g.n(0, len(pool)-1, "evatom")]
		def(c.form)
		return g.reach(c.val, "(eval "+call+")", strings.HasPrefix(c.val, "'("))
	case 11, 12:
		// a body that is only a string: the call's value is the parsed node
		g.route("form:docstring-only-body")
		s := g.oneOf("docs", "zyx", "only a docstring", "b a", "")
		g.defs = append(g.defs, "(defun "+n+" () "+strconv.Quote(s)+")")
		switch g.n(0, 3, "docuse") {
		case 0:
			return g.reach("", "(list "+call+" (append-bytes! (to-bytes \"a\") "+call+") "+call+")", false)
		case 1:
			return g.reach("", "(list (string:join (list "+call+" "+call+") \"-\") (length "+call+"))", false)
		case 2:
			return g.reach("", "(list (format-string "+call+") (to-bytes "+call+") (string:uppercase "+call+") "+call+")", false)
		default:
			return g.reach("", "(list "+call+" (concat 'string "+call+" \"x\") (stable-sort string< (list "+call+" \"m\" "+call+")) "+call+")", false)
		}
	case 13:
		// the literal form's ARGUMENT nodes, applied
		g.route("form:apply-arguments-of-literal")
		xs := g.ints(2, 4)
		def("'(list " + intsText(xs) + ")")
		return g.reach(intsCanon(xs), "(apply list (cdr "+call+"))", true) + "\n" + g.reach("'(list "+intsText(xs)+")", call, false)
	default:
		// a literal form handed to a macro as its (evaluated-at-expansion) argument
		g.route("form:literal-through-identity-macro")
		g.nmac++
		m := fmt.Sprintf("tid%d", g.nmac)
		g.defs = append(g.defs, "(defmacro "+m+" (x) x)")
		def("'" + t.form())
		return g.reach(t.val, "("+m+" "+t.form()+")", t.ints) + "\n" + g.reach(t.val, "("+m+" '"+t.form()+")", t.ints) + "\n" +
			g.reach(t.val, "(eval "+call+")", t.ints)
	}
}
