// C02: tail-call elimination is transparent; tail loops run in constant stack;
// blocked shapes (handler-bind, ignore-errors, nested load) are never collapsed.
package c02

import (
	"fmt"
	"strings"
	"testing"

	"github.com/luthersystems/elps/verifharness/gen"
	"github.com/luthersystems/elps/verifharness/vcommon"
	"pgregory.net/rapid"
)

// ---------- configurations ----------

func cfg(kind string) vcommon.Cfg {
	c := vcommon.Cfg{MaxSteps: 3000000, MaxPhysical: 30000, MaxAlloc: 200000, NoStdlib: true}
	switch kind {
	case "debugger":
		c.Debugger = true
	case "profiler":
		c.Profiler = true
	}
	return c
}

type run struct {
	prof  *run // the same source with a profiler attached (set on the default run)
	out   vcommon.Outcome
	trace string
	err   string
	rt    *vcommon.Rt
	maxH  int
}

func exec(kind, src string) run {
	rt := vcommon.NewRuntime(cfg(kind))
	out := rt.Load(src)
	r := run{out: out, trace: vcommon.TraceString(rt.Trace), err: rt.Stderr.String(), rt: rt}
	for _, e := range rt.Trace {
		if e.Height > r.maxH {
			r.maxH = e.Height
		}
	}
	return r
}

func limitHit(o vcommon.Outcome) bool {
	if !o.IsErr {
		return false
	}
	switch o.Cond {
	case "step-limit-exceeded", "eval-nesting-exceeded", "context-cancelled":
		return true
	}
	return strings.Contains(o.Msg, "stack height exceeded") || strings.Contains(o.Msg, "tail iteration") ||
		strings.Contains(o.Msg, "exceeds maximum") || strings.Contains(o.Msg, "macro expansion depth")
}

func outcome(o vcommon.Outcome) string {
	if o.IsErr {
		return "ERR<" + o.Cond + ">"
	}
	return o.Canon
}

// transparent compares the three configurations on one source.
func transparent(src string, c *vcommon.Ctx) (*vcommon.Failure, run) {
	def := exec("default", src)
	if def.out.Panic {
		return vcommon.Failf("internal-panic", "internal panic with elimination on: %s\n%s", def.out.Msg, src), def
	}
	dbg := exec("debugger", src)
	if dbg.out.Panic {
		return vcommon.Failf("internal-panic", "internal panic with elimination off: %s\n%s", dbg.out.Msg, src), def
	}
	if limitHit(dbg.out) || limitHit(def.out) {
		// does not fit the stack limit without elimination: the property
		// makes no claim
		c.Class("skipped-unfit")
		return nil, def
	}
	prof := exec("profiler", src)
	for _, other := range []struct {
		name string
		r    run
	}{{"debugger-attached (elimination off)", dbg}, {"profiler-attached", prof}} {
		if limitHit(other.r.out) {
			c.Class("skipped-unfit")
			continue
		}
		if outcome(other.r.out) != outcome(def.out) {
			return vcommon.Failf("transparency/outcome", "outcome differs between default and %s:\n default: %s (%s)\n other:   %s (%s)\nprogram:\n%s",
				other.name, outcome(def.out), def.out.Msg, outcome(other.r.out), other.r.out.Msg, src), def
		}
		if other.r.trace != def.trace {
			return vcommon.Failf("transparency/trace", "probe trace differs between default and %s\nprogram:\n%s\ndefault:\n%s\nother:\n%s", other.name, src, clip(def.trace), clip(other.r.trace)), def
		}
		if other.r.err != def.err {
			return vcommon.Failf("transparency/stderr", "stderr differs between default and %s\nprogram:\n%s\ndefault:\n%s\nother:\n%s", other.name, src, clip(def.err), clip(other.r.err)), def
		}
	}
	def.prof = &prof
	if prof.rt.Prof != nil && prof.rt.Prof.Starts != prof.rt.Prof.Stops {
		return vcommon.Failf("profiler/unbalanced", "profiler Start/stop unbalanced: %d starts, %d stops\n%s", prof.rt.Prof.Starts, prof.rt.Prof.Stops, src), def
	}
	return nil, def
}

func clip(s string) string {
	if len(s) > 1500 {
		return s[:700] + "\n...\n" + s[len(s)-700:]
	}
	return s
}

// ---------- (1) all programs ----------

func checkProgram(p gen.Program, c *vcommon.Ctx) *vcommon.Failure {
	src := p.Source()
	f, def := transparent(src, c)
	if f != nil {
		return f
	}
	if p.Stats["user-call"]+p.Stats["recursion"]+p.Stats["lambda-call"]+p.Stats["funcall"] > 0 {
		c.NonTrivial(src)
		c.Note(src)
	}
	if def.out.IsErr {
		c.Class("outcome/error")
	} else {
		c.Class("outcome/value")
	}
	return nil
}

// ---------- (2)/(3) loop shapes ----------

// Loop describes a self- or mutually-recursive family.
type Loop struct {
	NFun    int        `json:"nfun"`
	Wraps   [][]string `json:"wraps"`   // per function, outermost first; "base" marks the base-case if
	Calls   []string   `json:"calls"`   // per function: how it calls the next one
	ArgWork []int      `json:"argwork"` // per function: variant of argument expressions
	Extra   []int      `json:"extra"`   // per function: non-tail calls back into the family (0 = none)
	K       int        `json:"k"`
	Mult    int        `json:"mult"`
	Dig     int        `json:"dig"`     // f0 makes a non-tail excursion this deep on its second turn (0 = none)
	Blocked string     `json:"blocked"` // "", "handler-bind", "ignore-errors", "load-string", "and"
	BlockAt int        `json:"block_at"`
}

var elimWraps = []string{"if-then", "if-else", "cond", "cond-else", "cond-body", "progn", "let", "let*", "flet", "labels", "or", "dotimes"}
var callKinds = []string{"direct", "funcall", "funcall-sym", "apply", "apply2", "thread-first", "thread-last", "head-self", "head-via"}

func genLoop(blocked bool) *rapid.Generator[Loop] {
	return rapid.Custom(func(t *rapid.T) Loop {
		l := Loop{NFun: rapid.IntRange(1, 3).Draw(t, "nfun"), K: rapid.IntRange(4, 25).Draw(t, "k"),
			Mult: rapid.SampledFrom([]int{10, 10, 10, 25}).Draw(t, "mult"),
			Dig:  rapid.SampledFrom([]int{0, 0, 0, 40, 300, 600}).Draw(t, "dig")}
		for i := 0; i < l.NFun; i++ {
			n := rapid.IntRange(0, 5).Draw(t, "depth")
			w := make([]string, 0, n+1)
			basePos := rapid.IntRange(0, n).Draw(t, "basepos")
			for j := 0; j <= n; j++ {
				if j == basePos {
					w = append(w, "base")
				}
				if j < n {
					w = append(w, rapid.SampledFrom(elimWraps).Draw(t, "wrap"))
				}
			}
			l.Wraps = append(l.Wraps, w)
			l.Calls = append(l.Calls, rapid.SampledFrom(callKinds).Draw(t, "call"))
			l.ArgWork = append(l.ArgWork, rapid.IntRange(0, 3).Draw(t, "argwork"))
			l.Extra = append(l.Extra, rapid.SampledFrom([]int{0, 0, 1, 2, 3, 4}).Draw(t, "extra"))
		}
		if blocked {
			l.Blocked = rapid.SampledFrom([]string{"handler-bind", "ignore-errors", "load-string", "macro-expansion", "and", "handler-retry", "handler-retry"}).Draw(t, "blocked")
			l.BlockAt = rapid.IntRange(0, l.NFun-1).Draw(t, "blockat")
		}
		return l
	})
}

func wrap(kind, inner string) string {
	switch kind {
	case "if-then":
		return "(if true " + inner + " 'no)"
	case "if-else":
		return "(if (nil? 1) 'no " + inner + ")"
	case "cond":
		return "(cond (false 0) ((= 1 1) " + inner + "))"
	case "cond-else":
		return "(cond ((< n -5) 0) (else " + inner + "))"
	case "cond-body":
		return "(cond (true (probe 'c n) " + inner + "))"
	case "progn":
		return "(progn (probe 'p n) " + inner + ")"
	case "let":
		return "(let ([t1 (+ n 1)]) " + inner + ")"
	case "let*":
		return "(let* ([t1 n] [t2 (+ t1 1)]) " + inner + ")"
	case "flet":
		return "(flet ([hh (x) (+ x 1)]) " + inner + ")"
	case "labels":
		return "(labels ([hh (x) (if (< x 0) 0 (hh (- x 1)))]) " + inner + ")"
	case "or":
		return "(or false () " + inner + ")"
	case "dotimes":
		return "(dotimes (i 2 " + inner + ") (probe 'd i))"
	case "handler-bind":
		return "(handler-bind ((zzz (lambda (c &rest d) 0))) " + inner + ")"
	case "ignore-errors":
		return "(ignore-errors " + inner + ")"
	case "and":
		return "(and true " + inner + ")"
	}
	panic("unknown wrap " + kind)
}

func (l Loop) source(n int) string {
	var b strings.Builder
	for i := 0; i < l.NFun; i++ {
		next := fmt.Sprintf("f%d", (i+1)%l.NFun)
		A, B := "(- n 1)", "(+ acc 1)"
		switch l.ArgWork[i] {
		case 1:
			A = "(- n (identity 1))"
		case 2:
			B = "(+ acc (car (list 1 2)))"
		case 3:
			A, B = "(probe 'a (- n 1))", "(+ (probe 'b acc) 1)"
		}
		var call string
		switch l.Calls[i] {
		case "direct":
			call = fmt.Sprintf("(%s %s %s)", next, A, B)
		case "funcall":
			call = fmt.Sprintf("(funcall %s %s %s)", next, A, B)
		case "funcall-sym":
			call = fmt.Sprintf("(funcall '%s %s %s)", next, A, B)
		case "apply":
			call = fmt.Sprintf("(apply %s (list %s %s))", next, A, B)
		case "apply2":
			call = fmt.Sprintf("(apply '%s %s (list %s))", next, A, B)
		case "thread-first":
			call = fmt.Sprintf("(thread-first %s (%s %s))", A, next, B)
		case "thread-last":
			call = fmt.Sprintf("(thread-last %s (%s %s))", B, next, A)
		case "head-self":
			// the operator position is itself a call into the family: it is
			// evaluated like an argument (never a tail call), and the call it
			// yields is in tail position.  (fI -1 0) answers the next function.
			call = fmt.Sprintf("((f%d -1 0) %s %s)", i, A, B)
		case "head-via":
			fmt.Fprintf(&b, "(defun pick%d (n) (probe 'pk n) (f%d -1 0))\n", i, i)
			call = fmt.Sprintf("((pick%d n) %s %s)", i, A, B)
		}
		if l.Blocked == "macro-expansion" && l.BlockAt == i {
			// the next function is called DURING the expansion of a macro
			// whose call sits in tail position
			fmt.Fprintf(&b, "(defmacro via%d () (%s gn gacc))\n", i, next)
			call = fmt.Sprintf("(progn (set 'gn %s) (set 'gacc %s) (via%d))", A, B, i)
		} else if l.Blocked == "handler-retry" && l.BlockAt == i {
			// a retry loop: the HANDLER makes the next call, after the protected
			// form has failed.  The handler runs inside the handler-bind, so
			// the call is never collapsed -- and (rethrow) still works in it.
			call = fmt.Sprintf("(handler-bind ((retry (lambda (c &rest d) (probe 'r d) %s))) (error 'retry n))", call)
		} else if l.Blocked == "load-string" && l.BlockAt == i {
			call = fmt.Sprintf("(progn (set 'gn %s) (set 'gacc %s) (load-string \"(%s gn gacc)\"))", A, B, next)
		} else if l.Blocked != "" && l.BlockAt == i {
			call = wrap(l.Blocked, call)
		}
		body := call
		for j := len(l.Wraps[i]) - 1; j >= 0; j-- {
			w := l.Wraps[i][j]
			if w == "base" {
				body = "(if (<= n 0) acc " + body + ")"
			} else {
				body = wrap(w, body)
			}
		}
		// non-tail work that calls back into the family: a function that sits
		// lower on the chain of terminal frames is called from a NON-tail
		// position of the loop body; the call must happen on every turn
		extra := ""
		if i < len(l.Extra) {
			other := fmt.Sprintf("f%d", (i+l.NFun-1)%l.NFun)
			switch l.Extra[i] {
			case 1:
				// a bare statement: its value is discarded, only its effects show
				extra = fmt.Sprintf("(if (> n 0) (%s 0 n) 0) ", other)
			case 2:
				extra = fmt.Sprintf("(if (> n 0) (probe 'nt (+ 1 (%s 0 n))) 0) ", next)
			case 3:
				extra = fmt.Sprintf("(if (> n 0) (probe 'nt (funcall %s 0 n)) 0) ", other)
			case 4:
				extra = "(cond ((> n 0) (helper n))) "
			}
		}
		if strings.HasPrefix(l.Calls[i], "head-") {
			body = fmt.Sprintf("(if (= n -1) %s %s)", next, body)
		}
		if i == 0 && l.Dig > 0 {
			// a deep non-tail excursion on a LATER turn of the collapsed loop:
			// the stack grows beyond anything the runtime has held so far
			// while the loop's frame is live
			extra = fmt.Sprintf("(if (= acc %d) (dig %d) 0) ", l.NFun, l.Dig) + extra
		}
		fmt.Fprintf(&b, "(defun f%d (n acc) (probe 'h n) %s%s)\n", i, extra, body)
	}
	fmt.Fprintf(&b, "(defun helper (n) (f0 0 n))\n")
	fmt.Fprintf(&b, "(defun dig (k) (if (<= k 0) 0 (+ 1 (dig (- k 1)))))\n")
	fmt.Fprintf(&b, "(f0 %d 0)\n", n)
	return b.String()
}

func depthOf(l Loop) int {
	d := 0
	for _, w := range l.Wraps {
		if len(w)-1 > d {
			d = len(w) - 1
		}
	}
	return d
}

func checkLoop(l Loop, c *vcommon.Ctx) *vcommon.Failure {
	if l.NFun < 1 || len(l.Wraps) < l.NFun || len(l.Calls) < l.NFun || len(l.ArgWork) < l.NFun || l.K < 1 || l.Mult < 2 {
		return nil
	}
	n1, n2 := l.K, l.K*l.Mult
	s1, s2 := l.source(n1), l.source(n2)
	c.Class("calls/" + strings.Join(l.Calls[:l.NFun], ","))
	for _, ws := range l.Wraps[:l.NFun] {
		for _, w := range ws {
			c.Class("wrap/" + w)
		}
	}
	if l.Blocked != "" {
		c.Class("blocked/" + l.Blocked)
	}
	if depthOf(l) >= 1 && n1 >= 4 {
		c.NonTrivial(s2)
		c.Note(s2)
	}
	// (a) transparency at both sizes
	f, r1 := transparent(s1, c)
	if f != nil {
		return f
	}
	f, r2 := transparent(s2, c)
	if f != nil {
		return f
	}
	for _, r := range []struct {
		r run
		n int
	}{{r1, n1}, {r2, n2}} {
		if r.r.out.IsErr {
			return vcommon.Failf("loop/error", "loop of %d iterations failed: %s (%s)\n%s", r.n, r.r.out.Cond, r.r.out.Msg, l.source(r.n))
		}
		if want := fmt.Sprint(r.n); r.r.out.Canon != want {
			return vcommon.Failf("loop/value", "loop of %d iterations returned %s, want %s\n%s", r.n, r.r.out.Canon, want, l.source(r.n))
		}
	}
	// (a') the LOGICAL height a collapsed loop reports (the frames it elided
	// included) never exceeds the height the same program really reaches
	// without elimination: under the smallest logical limit that the
	// un-eliminated run fits, the eliminated run gives the same result
	if l.Blocked == "" && l.K%3 == 0 {
		fits := func(kind string, limit int) (bool, vcommon.Outcome) {
			cl := cfg(kind)
			cl.MaxLogical = limit
			rt := vcommon.NewRuntime(cl)
			o := rt.Load(s1)
			return outcome(o) == outcome(r1.out), o
		}
		lo, hi := 1, 20000 // invariant: the debugger run fails at lo-1 (or lo == 1), fits at hi
		if ok, _ := fits("debugger", hi); ok {
			for lo < hi {
				mid := (lo + hi) / 2
				if ok, _ := fits("debugger", mid); ok {
					hi = mid
				} else {
					lo = mid + 1
				}
			}
			if ok, o := fits("default", hi); !ok {
				return vcommon.Failf("logical-height/over-counted", "without elimination the program fits a logical stack limit of %d, yet with elimination under the same limit it ends with %s (%s) instead of %s\n%s", hi, outcome(o), o.Msg, outcome(r1.out), s1)
			}
			c.Class("logical-limit-at-real-height")
		}
	}
	switch l.Blocked {
	case "":
		// (b) constant stack: the maximum observed frame count does not grow
		if r2.maxH != r1.maxH {
			return vcommon.Failf("stack/grows", "tail loop stack height grows with the iteration count: max %d frames at n=%d, %d at n=%d\n%s", r1.maxH, n1, r2.maxH, n2, s2)
		}
		// an attached profiler is the third configuration: elimination stays on
		if p1, p2 := r1.prof, r2.prof; p1 != nil && p2 != nil && !limitHit(p1.out) && !limitHit(p2.out) && p2.maxH != p1.maxH {
			return vcommon.Failf("stack/grows-with-profiler", "with a profiler attached the tail loop's stack height grows with the iteration count: max %d frames at n=%d, %d at n=%d\n%s", p1.maxH, n1, p2.maxH, n2, s2)
		}
	case "handler-bind", "ignore-errors", "load-string", "macro-expansion", "handler-retry":
		// (c) never collapsed: at least one frame per extra turn of the cycle
		turns := (n2 - n1) / l.NFun
		if r2.maxH-r1.maxH < turns {
			return vcommon.Failf("blocked/collapsed", "frames below a %s were collapsed: max height %d at n=%d and %d at n=%d (expected growth of at least %d)\n%s",
				l.Blocked, r1.maxH, n1, r2.maxH, n2, turns, s2)
		}
	}
	return nil
}

// ---------- handler semantics through recursion (never collapsed) ----------

type HLoop struct {
	N     int    `json:"n"`
	Call  string `json:"call"`
	Inner string `json:"inner"` // extra eliminating wrapper between handler-bind and the call
}

func genHLoop() *rapid.Generator[HLoop] {
	return rapid.Custom(func(t *rapid.T) HLoop {
		return HLoop{N: rapid.IntRange(1, 200).Draw(t, "n"),
			Call:  rapid.SampledFrom([]string{"direct", "funcall", "apply"}).Draw(t, "call"),
			Inner: rapid.SampledFrom([]string{"", "progn", "let", "if-then", "or", "cond"}).Draw(t, "inner")}
	})
}

func checkHLoop(h HLoop, c *vcommon.Ctx) *vcommon.Failure {
	call := "(f (- n 1))"
	switch h.Call {
	case "funcall":
		call = "(funcall f (- n 1))"
	case "apply":
		call = "(apply f (list (- n 1)))"
	}
	if h.Inner != "" {
		call = wrap(h.Inner, call)
	}
	// every level intercepts the error raised at the bottom and re-raises it
	// with its payload incremented: the host sees the depth only if no
	// handler frame was collapsed and the innermost binding wins each time
	src := fmt.Sprintf(`(defun f (n) (if (<= n 0) (error 'bottom 0) (handler-bind ((other (lambda (c &rest d) 'wrong)) (bottom (lambda (c v) (error 'bottom (+ v 1))))) %s)))
(handler-bind ((bottom (lambda (c v) v))) (f %d))
`, call, h.N)
	c.Class("call/" + h.Call)
	if h.N >= 10 {
		c.NonTrivial(src)
	}
	f, def := transparent(src, c)
	if f != nil {
		return f
	}
	if def.out.IsErr || def.out.Canon != fmt.Sprint(h.N) {
		return vcommon.Failf("blocked/handler-lost", "a handler-bind on the recursion path was lost: got %s (%s) want %d\n%s", outcome(def.out), def.out.Msg, h.N, src)
	}
	return nil
}

// ---------- trampolines: the only frame that repeats is funcall / apply itself ----------

type Tramp struct {
	K     int    `json:"k"`
	Mult  int    `json:"mult"`
	Via   string `json:"via"`   // funcall | apply | mixed
	Inner string `json:"inner"` // eliminating wrapper around the tail call
	Keep  bool   `json:"keep"`  // closures also escape into a list and are called afterwards
}

func genTramp() *rapid.Generator[Tramp] {
	return rapid.Custom(func(t *rapid.T) Tramp {
		return Tramp{K: rapid.IntRange(4, 25).Draw(t, "k"), Mult: 10,
			Via:   rapid.SampledFrom([]string{"funcall", "apply", "mixed"}).Draw(t, "via"),
			Inner: rapid.SampledFrom([]string{"", "", "progn", "let", "if-then", "cond", "or"}).Draw(t, "inner"),
			Keep:  rapid.IntRange(0, 2).Draw(t, "keep") == 0}
	})
}

func (tr Tramp) source(n int) string {
	call := "(funcall (mk (- n 1) (+ acc 1)))"
	switch tr.Via {
	case "apply":
		call = "(apply (mk (- n 1) (+ acc 1)) ())"
	case "mixed":
		call = "(if (= (mod n 2) 0) (funcall (mk (- n 1) (+ acc 1))) (apply (mk (- n 1) (+ acc 1)) ()))"
	}
	if tr.Inner != "" {
		call = wrap(tr.Inner, call)
	}
	keep := ""
	if tr.Keep {
		keep = "(set 'kept (cons (lambda () n) kept)) "
	}
	return fmt.Sprintf("(set 'kept ())\n(defun mk (n acc) (lambda () (probe 'h n) %s(if (<= n 0) acc %s)))\n(list (funcall (mk %d 0)) (map 'list (lambda (f) (funcall f)) kept))\n", keep, call, n)
}

func checkTramp(tr Tramp, c *vcommon.Ctx) *vcommon.Failure {
	if tr.K < 1 || tr.Mult < 2 {
		return nil
	}
	n1, n2 := tr.K, tr.K*tr.Mult
	s1, s2 := tr.source(n1), tr.source(n2)
	c.Class("via/" + tr.Via)
	c.NonTrivial(s2)
	c.Note(s2)
	f, r1 := transparent(s1, c)
	if f != nil {
		return f
	}
	f, r2 := transparent(s2, c)
	if f != nil {
		return f
	}
	if r1.out.IsErr || r2.out.IsErr {
		return vcommon.Failf("loop/error", "trampoline failed: %s / %s\n%s", outcome(r1.out), outcome(r2.out), s2)
	}
	if !strings.HasPrefix(r2.out.Canon, fmt.Sprintf("'(%d ", n2)) {
		return vcommon.Failf("loop/value", "trampoline of %d turns returned %s\n%s", n2, r2.out.Canon, s2)
	}
	if r2.maxH != r1.maxH {
		return vcommon.Failf("stack/grows", "a tail loop through %s with a fresh closure per turn grows the stack: max %d frames at n=%d, %d at n=%d\n%s", tr.Via, r1.maxH, n1, r2.maxH, n2, s2)
	}
	return nil
}

// ---------- the tail-iteration backstop is per loop, not per runtime ----------

// checkRepeated runs the same short loop many times in one runtime under a
// tail-iteration limit that one run of the loop fits with little room: the
// runs must not add up.
func checkRepeated(l Loop, c *vcommon.Ctx) *vcommon.Failure {
	if l.NFun < 1 || len(l.Wraps) < l.NFun || len(l.Calls) < l.NFun || len(l.ArgWork) < l.NFun || l.K < 1 || l.Blocked != "" {
		return nil
	}
	l.Dig = 0
	n := l.K
	body := l.source(n)
	idx := strings.LastIndex(strings.TrimRight(body, "\n"), "\n")
	defs := body[:idx+1]
	reps := 12
	src := defs + fmt.Sprintf("(let ((acc2 0)) (dotimes (r %d) (set! acc2 (+ acc2 (f0 %d 0)))) (list acc2 (f0 %d 0)))\n", reps, n, n)
	// the limit one run needs: measured, then given a little room
	need := 0
	for lim := 1; lim <= 4*n+8; lim++ {
		cl := cfg("default")
		cl.MaxTailIter = lim
		rt := vcommon.NewRuntime(cl)
		if o := rt.Load(body); !o.IsErr {
			need = lim
			break
		}
	}
	if need == 0 {
		c.Class("skip/single-run-does-not-fit")
		return nil
	}
	c.NonTrivial(src)
	cl := cfg("default")
	cl.MaxTailIter = need + 2
	rt := vcommon.NewRuntime(cl)
	o := rt.Load(src)
	want := fmt.Sprintf("'(%d %d)", reps*n, n)
	if o.IsErr || o.Canon != want {
		return vcommon.Failf("tail-iterations/accumulate-across-loops", "one run of the loop fits a tail-iteration limit of %d; %d runs in one runtime under a limit of %d end with %s (%s), want %s\n%s", need, reps+1, need+2, outcome(o), o.Msg, want, src)
	}
	return nil
}

func TestCheck(t *testing.T) {
	vcommon.Main(t, "C02",
		vcommon.S("programs", 40000, 600000, gen.GenProgram(4, 60, 6), checkProgram),
		vcommon.S("loops", 10000, 200000, genLoop(false), checkLoop),
		vcommon.S("blocked", 4000, 60000, genLoop(true), checkLoop),
		vcommon.S("trampoline", 3000, 45000, genTramp(), checkTramp),
		vcommon.S("handler-depth", 2000, 30000, genHLoop(), checkHLoop),
		vcommon.S("repeated-loops", 2000, 30000, genLoop(false), checkRepeated),
	)
}
