// C02: tail-call elimination is transparent; tail loops run in constant stack;
// blocked shapes (handler-bind, ignore-errors, nested load) are never collapsed.
package c02

import (
	"fmt"
	"strings"
	"testing"

	"github.com/luthersystems/elps/verifharness/gen"
	"github.com/luthersystems/elps/verifharness/vcommon"
	"pgregory.net/rapid"
)

// ---------- configurations ----------

func cfg(kind string) vcommon.Cfg {
	c := vcommon.Cfg{MaxSteps: 3000000, MaxPhysical: 30000, MaxAlloc: 200000, NoStdlib: true}
	switch kind {
	case "debugger":
		c.Debugger = true
	case "profiler":
		c.Profiler = true
	}
	return c
}

type run struct {
	prof  *run // the same source with a profiler attached (set on the default run)
	out   vcommon.Outcome
	trace string
	err   string
	rt    *vcommon.Rt
	maxH  int
}

func exec(kind, src string) run {
	rt := vcommon.NewRuntime(cfg(kind))
	out := rt.Load(src)
	r := run{out: out, trace: vcommon.TraceString(rt.Trace), err: rt.Stderr.String(), rt: rt}
	for _, e := range rt.Trace {
		if e.Height > r.maxH {
			r.maxH = e.Height
		}
	}
	return r
}

func limitHit(o vcommon.Outcome) bool {
	if !o.IsErr {
		return false
	}
	switch o.Cond {
	case "step-limit-exceeded", "eval-nesting-exceeded", "context-cancelled":
		return true
	}
	return strings.Contains(o.Msg, "stack height exceeded") || strings.Contains(o.Msg, "tail iteration") ||
		strings.Contains(o.Msg, "exceeds maximum") || strings.Contains(o.Msg, "macro expansion depth")
}

func outcome(o vcommon.Outcome) string {
	if o.IsErr {
		return "ERR<" + o.Cond + ">"
	}
	return o.Canon
}

// transparent compares the three configurations on one source.
func transparent(src string, c *vcommon.Ctx) (*vcommon.Failure, run) {
	def := exec("default", src)
	if def.out.Panic {
		return vcommon.Failf("internal-panic", "internal panic with elimination on: %s\n%s", def.out.Msg, src), def
	}
	dbg := exec("debugger", src)
	if dbg.out.Panic {
		return vcommon.Failf("internal-panic", "internal panic with elimination off: %s\n%s", dbg.out.Msg, src), def
	}
	if limitHit(dbg.out) || limitHit(def.out) {
		// does not fit the stack limit without elimination: the property
		// makes no claim
		c.Class("skipped-unfit")
		return nil, def
	}
	prof := exec("profiler", src)
	for _, other := range []struct {
		name string
		r    run
	}{{"debugger-attached (elimination off)", dbg}, {"profiler-attached", prof}} {
		if limitHit(other.r.out) {
			c.Class("skipped-unfit")
			continue
		}
		if outcome(other.r.out) != outcome(def.out) {
			return vcommon.Failf("transparency/outcome", "outcome differs between default and %s:\n default: %s (%s)\n other:   %s (%s)\nprogram:\n%s",
				other.name, outcome(def.out), def.out.Msg, outcome(other.r.out), other.r.out.Msg, src), def
		}
		if other.r.trace != def.trace {
			return vcommon.Failf("transparency/trace", "probe trace differs between default and %s\nprogram:\n%s\ndefault:\n%s\nother:\n%s", other.name, src, clip(def.trace), clip(other.r.trace)), def
		}
		if other.r.err != def.err {
			return vcommon.Failf("transparency/stderr", "stderr differs between default and %s\nprogram:\n%s\ndefault:\n%s\nother:\n%s", other.name, src, clip(def.err), clip(other.r.err)), def
		}
	}
	def.prof = &prof
	if prof.rt.Prof != nil && prof.rt.Prof.Starts != prof.rt.Prof.Stops {
		return vcommon.Failf("profiler/unbalanced", "profiler Start/stop unbalanced: %d starts, %d stops\n%s", prof.rt.Prof.Starts, prof.rt.Prof.Stops, src), def
	}
	return nil, def
}

func clip(s string) string {
	if len(s) > 1500 {
		return s[:700] + "\n...\n" + s[len(s)-700:]
	}
	return s
}

// ---------- (1) all programs ----------

func checkProgram(p gen.Program, c *vcommon.Ctx) *vcommon.Failure {
	src := p.Source()
	f, def := transparent(src, c)
	if f != nil {
		return f
	}
	if p.Stats["user-call"]+p.Stats["recursion"]+p.Stats["lambda-call"]+p.Stats["funcall"] > 0 {
		c.NonTrivial(src)
		c.Note(src)
	}
	if def.out.IsErr {
		c.Class("outcome/error")
	} else {
		c.Class("outcome/value")
	}
	return nil
}

// ---------- (2)/(3) loop shapes ----------

// Loop describes a self- or mutually-recursive family.
type Loop struct {
	NFun    int        `json:"nfun"`
	Wraps   [][]string `json:"wraps"`   // per function, outermost first; "base" marks the base-case if
	Calls   []string   `json:"calls"`   // per function: how it calls the next one
	ArgWork []int      `json:"argwork"` // per function: variant of argument expressions
	Extra   []int      `json:"extra"`   // per function: non-tail calls back into the family (0 = none)
	K       int        `json:"k"`
	Mult    int        `json:"mult"`
	Dig     int        `json:"dig"`     // f0 makes a non-tail excursion this deep on its second turn (0 = none)
	Blocked string     `json:"blocked"` // "", "handler-bind", "ignore-errors", "load-string", "and"
	BlockAt int        `json:"block_at"`
	// the family is spread over 1+PK packages: user, pa, pb
	PK  int    `json:"pk"`  // number of packages besides user (0-2)
	Pkg []int  `json:"pkg"` // per function: the package it is defined in (0 = user)
	Ref []int  `json:"ref"` // per function: how it names the next one (ref* constants)
	Exp []bool `json:"exp"` // per function: exported, and imported (use-package) by every other package
	Top int    `json:"top"` // the package the top-level call is made from
	// how the top-level call is made: "" / "direct", "funcall", "funcall-sym",
	// "apply", "apply2".  Through funcall/apply the bottom frame of the whole
	// run is a builtin frame entered in the top package, and every tail call
	// made through funcall/apply anywhere in the family collapses into it.
	TopVia string `json:"top_via"`
}

// how a function names the next function of the family
const (
	refMinimal   = 0 // bare inside its own package, package-qualified otherwise
	refBare      = 1 // bare wherever the name is visible (own package or imported), else qualified
	refHop       = 2 // through hopI, an UNQUALIFIED helper of its own package; every other package binds a decoy of that name
	refQualified = 3 // always package-qualified, also inside its own package
)

var pkgNames = []string{"user", "pa", "pb"}

func (l Loop) pkgOf(i int) int {
	if i < len(l.Pkg) && l.Pkg[i] >= 0 && l.Pkg[i] <= l.PK && l.Pkg[i] < len(pkgNames) {
		return l.Pkg[i]
	}
	return 0
}

func (l Loop) refOf(i int) int {
	if i < len(l.Ref) && l.Ref[i] >= 0 && l.Ref[i] <= 3 {
		return l.Ref[i]
	}
	return refMinimal
}

func (l Loop) exported(i int) bool { return i < len(l.Exp) && l.Exp[i] }

// name answers how code of package `from` written in style `ref` spells
// function fJ.  bare reports an unqualified spelling.
func (l Loop) name(from, j, ref int) (spelling string, bare bool) {
	q := l.pkgOf(j)
	f := fmt.Sprintf("f%d", j)
	switch {
	case ref == refQualified:
	case q == from:
		return f, true
	case ref == refBare && l.exported(j):
		return f, true
	}
	return pkgNames[q] + ":" + f, false
}

// crossings counts the hops of the cycle f0 -> f1 -> ... -> f0 that change the package.
func (l Loop) crossings() int {
	x := 0
	for i := 0; i < l.NFun; i++ {
		if l.pkgOf(i) != l.pkgOf((i+1)%l.NFun) {
			x++
		}
	}
	return x
}

var elimWraps = []string{"if-then", "if-else", "cond", "cond-else", "cond-body", "progn", "let", "let*", "flet", "labels", "or", "dotimes"}
// the two symbol-designator kinds are listed twice: they are the only kinds
// whose meaning depends on the package current when the builtin runs
var callKinds = []string{"direct", "funcall", "funcall-sym", "apply", "apply2", "thread-first", "thread-last", "head-self", "head-via", "funcall-sym", "apply2"}

func genLoop(blocked bool) *rapid.Generator[Loop] {
	return rapid.Custom(func(t *rapid.T) Loop {
		l := Loop{NFun: rapid.IntRange(1, 3).Draw(t, "nfun"), K: rapid.IntRange(4, 25).Draw(t, "k"),
			Mult: rapid.SampledFrom([]int{10, 10, 10, 25}).Draw(t, "mult"),
			Dig:  rapid.SampledFrom([]int{0, 0, 0, 40, 300, 600}).Draw(t, "dig")}
		for i := 0; i < l.NFun; i++ {
			n := rapid.IntRange(0, 5).Draw(t, "depth")
			w := make([]string, 0, n+1)
			basePos := rapid.IntRange(0, n).Draw(t, "basepos")
			for j := 0; j <= n; j++ {
				if j == basePos {
					w = append(w, "base")
				}
				if j < n {
					w = append(w, rapid.SampledFrom(elimWraps).Draw(t, "wrap"))
				}
			}
			l.Wraps = append(l.Wraps, w)
			l.Calls = append(l.Calls, rapid.SampledFrom(callKinds).Draw(t, "call"))
			l.ArgWork = append(l.ArgWork, rapid.IntRange(0, 3).Draw(t, "argwork"))
			l.Extra = append(l.Extra, rapid.SampledFrom([]int{0, 0, 1, 2, 3, 4}).Draw(t, "extra"))
		}
		l.PK = rapid.IntRange(0, 2).Draw(t, "pk")
		for i := 0; i < l.NFun; i++ {
			l.Pkg = append(l.Pkg, rapid.IntRange(0, l.PK).Draw(t, "pkg"))
			l.Ref = append(l.Ref, rapid.IntRange(0, 3).Draw(t, "ref"))
			l.Exp = append(l.Exp, rapid.Bool().Draw(t, "exp"))
		}
		l.Top = rapid.IntRange(0, l.PK).Draw(t, "top")
		l.TopVia = rapid.SampledFrom([]string{"direct", "direct", "funcall", "funcall-sym", "apply", "apply2"}).Draw(t, "topvia")
		if blocked {
			l.Blocked = rapid.SampledFrom([]string{"handler-bind", "ignore-errors", "load-string", "macro-expansion", "and", "handler-retry", "handler-retry"}).Draw(t, "blocked")
			l.BlockAt = rapid.IntRange(0, l.NFun-1).Draw(t, "blockat")
		}
		return l
	})
}

func wrap(kind, inner string) string {
	switch kind {
	case "if-then":
		return "(if true " + inner + " 'no)"
	case "if-else":
		return "(if (nil? 1) 'no " + inner + ")"
	case "cond":
		return "(cond (false 0) ((= 1 1) " + inner + "))"
	case "cond-else":
		return "(cond ((< n -5) 0) (else " + inner + "))"
	case "cond-body":
		return "(cond (true (probe 'c n) " + inner + "))"
	case "progn":
		return "(progn (probe 'p n) " + inner + ")"
	case "let":
		return "(let ([t1 (+ n 1)]) " + inner + ")"
	case "let*":
		return "(let* ([t1 n] [t2 (+ t1 1)]) " + inner + ")"
	case "flet":
		return "(flet ([hh (x) (+ x 1)]) " + inner + ")"
	case "labels":
		return "(labels ([hh (x) (if (< x 0) 0 (hh (- x 1)))]) " + inner + ")"
	case "or":
		return "(or false () " + inner + ")"
	case "dotimes":
		return "(dotimes (i 2 " + inner + ") (probe 'd i))"
	case "handler-bind":
		return "(handler-bind ((zzz (lambda (c &rest d) 0))) " + inner + ")"
	case "ignore-errors":
		return "(ignore-errors " + inner + ")"
	case "and":
		return "(and true " + inner + ")"
	}
	panic("unknown wrap " + kind)
}

func (l Loop) source(n int) string {
	var b strings.Builder
	cur := 0
	in := func(p int) {
		if p != cur {
			fmt.Fprintf(&b, "(in-package '%s)\n", pkgNames[p])
			cur = p
		}
	}
	npk := 1
	if l.PK > 0 && l.PK < len(pkgNames) {
		npk = 1 + l.PK
	}
	for p := 1; p < npk; p++ {
		// the host's probe is bound in user only: every package gets the same
		// builtin under the same unqualified name
		fmt.Fprintf(&b, "(in-package '%s)\n(use-package 'lisp)\n(set 'probe user:probe)\n", pkgNames[p])
		cur = p
	}
	var decoys []int
	for i := 0; i < l.NFun; i++ {
		P := l.pkgOf(i)
		in(P)
		j := (i + 1) % l.NFun
		next, _ := l.name(P, j, l.refOf(i))
		if l.refOf(i) == refHop {
			// the next function is reached through an unqualified helper of
			// this function's own package
			target, _ := l.name(P, j, refMinimal)
			fmt.Fprintf(&b, "(defun hop%d (n acc) (%s n acc))\n", i, target)
			next = fmt.Sprintf("hop%d", i)
			decoys = append(decoys, i)
		}
		A, B := "(- n 1)", "(+ acc 1)"
		switch l.ArgWork[i] {
		case 1:
			A = "(- n (identity 1))"
		case 2:
			B = "(+ acc (car (list 1 2)))"
		case 3:
			A, B = "(probe 'a (- n 1))", "(+ (probe 'b acc) 1)"
		}
		var call string
		switch l.Calls[i] {
		case "direct":
			call = fmt.Sprintf("(%s %s %s)", next, A, B)
		case "funcall":
			call = fmt.Sprintf("(funcall %s %s %s)", next, A, B)
		case "funcall-sym":
			// a symbol designator is resolved by funcall/apply when it runs, in
			// the package current at this (tail) call
			call = fmt.Sprintf("(funcall '%s %s %s)", next, A, B)
		case "apply":
			call = fmt.Sprintf("(apply %s (list %s %s))", next, A, B)
		case "apply2":
			call = fmt.Sprintf("(apply '%s %s (list %s))", next, A, B)
		case "thread-first":
			call = fmt.Sprintf("(thread-first %s (%s %s))", A, next, B)
		case "thread-last":
			call = fmt.Sprintf("(thread-last %s (%s %s))", B, next, A)
		case "head-self":
			// the operator position is itself a call into the family: it is
			// evaluated like an argument (never a tail call), and the call it
			// yields is in tail position.  (fI -1 0) answers the next function.
			call = fmt.Sprintf("((f%d -1 0) %s %s)", i, A, B)
		case "head-via":
			fmt.Fprintf(&b, "(defun pick%d (n) (probe 'pk n) (f%d -1 0))\n", i, i)
			call = fmt.Sprintf("((pick%d n) %s %s)", i, A, B)
		}
		if l.Blocked == "macro-expansion" && l.BlockAt == i {
			// the next function is called DURING the expansion of a macro
			// whose call sits in tail position
			fmt.Fprintf(&b, "(defmacro via%d () (%s gn gacc))\n", i, next)
			call = fmt.Sprintf("(progn (set 'gn %s) (set 'gacc %s) (via%d))", A, B, i)
		} else if l.Blocked == "handler-retry" && l.BlockAt == i {
			// a retry loop: the HANDLER makes the next call, after the protected
			// form has failed.  The handler runs inside the handler-bind, so
			// the call is never collapsed -- and (rethrow) still works in it.
			call = fmt.Sprintf("(handler-bind ((retry (lambda (c &rest d) (probe 'r d) %s))) (error 'retry n))", call)
		} else if l.Blocked == "load-string" && l.BlockAt == i {
			call = fmt.Sprintf("(progn (set 'gn %s) (set 'gacc %s) (load-string \"(%s gn gacc)\"))", A, B, next)
		} else if l.Blocked != "" && l.BlockAt == i {
			call = wrap(l.Blocked, call)
		}
		body := call
		for j := len(l.Wraps[i]) - 1; j >= 0; j-- {
			w := l.Wraps[i][j]
			if w == "base" {
				body = "(if (<= n 0) acc " + body + ")"
			} else {
				body = wrap(w, body)
			}
		}
		// non-tail work that calls back into the family: a function that sits
		// lower on the chain of terminal frames is called from a NON-tail
		// position of the loop body; the call must happen on every turn
		extra := ""
		if i < len(l.Extra) {
			other, _ := l.name(P, (i+l.NFun-1)%l.NFun, refMinimal)
			nextFn, _ := l.name(P, j, refMinimal)
			switch l.Extra[i] {
			case 1:
				// a bare statement: its value is discarded, only its effects show
				extra = fmt.Sprintf("(if (> n 0) (%s 0 n) 0) ", other)
			case 2:
				extra = fmt.Sprintf("(if (> n 0) (probe 'nt (+ 1 (%s 0 n))) 0) ", nextFn)
			case 3:
				extra = fmt.Sprintf("(if (> n 0) (probe 'nt (funcall %s 0 n)) 0) ", other)
			case 4:
				extra = "(cond ((> n 0) (helper n))) "
			}
		}
		if strings.HasPrefix(l.Calls[i], "head-") {
			body = fmt.Sprintf("(if (= n -1) %s %s)", next, body)
		}
		if i == 0 && l.Dig > 0 {
			// a deep non-tail excursion on a LATER turn of the collapsed loop:
			// the stack grows beyond anything the runtime has held so far
			// while the loop's frame is live
			extra = fmt.Sprintf("(if (= acc %d) (dig %d) 0) ", l.NFun, l.Dig) + extra
		}
		fmt.Fprintf(&b, "(defun f%d (n acc) (probe 'h n) %s%s)\n", i, extra, body)
		if l.exported(i) && npk > 1 {
			fmt.Fprintf(&b, "(export 'f%d)\n", i)
		}
	}
	// helper and dig are unqualified helpers of whichever package calls them
	for p := 0; p < npk; p++ {
		in(p)
		f0, _ := l.name(p, 0, refMinimal)
		fmt.Fprintf(&b, "(defun helper (n) (%s 0 n))\n", f0)
		fmt.Fprintf(&b, "(defun dig (k) (if (<= k 0) 0 (+ 1 (dig (- k 1)))))\n")
		// a helper name means something else in every other package
		for _, i := range decoys {
			if l.pkgOf(i) != p {
				fmt.Fprintf(&b, "(defun hop%d (n acc) (list 'decoy '%s 'hop%d))\n", i, pkgNames[p], i)
			}
		}
		// exported functions are imported, once everything is defined
		for q := 0; q < npk; q++ {
			if q == p {
				continue
			}
			for i := 0; i < l.NFun; i++ {
				if l.pkgOf(i) == q && l.exported(i) {
					fmt.Fprintf(&b, "(use-package '%s)\n", pkgNames[q])
					break
				}
			}
		}
	}
	top := 0
	if l.Top > 0 && l.Top < npk {
		top = l.Top
	}
	in(top)
	f0, _ := l.name(top, 0, refMinimal)
	switch l.TopVia {
	case "funcall":
		fmt.Fprintf(&b, "(funcall %s %d 0)\n", f0, n)
	case "funcall-sym":
		fmt.Fprintf(&b, "(funcall '%s %d 0)\n", f0, n)
	case "apply":
		fmt.Fprintf(&b, "(apply %s (list %d 0))\n", f0, n)
	case "apply2":
		fmt.Fprintf(&b, "(apply '%s %d (list 0))\n", f0, n)
	default:
		fmt.Fprintf(&b, "(%s %d 0)\n", f0, n)
	}
	return b.String()
}

// classes records the package shape of the family.
func (l Loop) classes(c *vcommon.Ctx) {
	seen := map[int]bool{}
	for i := 0; i < l.NFun; i++ {
		seen[l.pkgOf(i)] = true
	}
	c.Class(fmt.Sprintf("packages/%d", len(seen)))
	switch x := l.crossings(); {
	case x == 0 && l.pkgOf(0) == 0:
		c.Class("hops/all-in-user")
	case x == 0:
		c.Class("hops/one-library-package")
	case x == l.NFun:
		c.Class("hops/every-hop-crosses")
	default:
		c.Class("hops/some-hops-cross")
	}
	top := 0
	if l.Top > 0 && l.Top <= l.PK {
		top = l.Top
	}
	if top != l.pkgOf(0) {
		c.Class("top/calls-into-another-package")
	}
	if l.TopVia != "" && l.TopVia != "direct" {
		c.Class("top/via-funcall-or-apply")
		// successive hops made through unqualified designators from different
		// packages all collapse into the one builtin frame at the bottom
		n := 0
		for i := 0; i < l.NFun; i++ {
			_, bare := l.name(l.pkgOf(i), (i+1)%l.NFun, l.refOf(i))
			if (l.Calls[i] == "funcall-sym" || l.Calls[i] == "apply2") && (bare || l.refOf(i) == refHop) && l.pkgOf(i) != l.pkgOf((i+1)%l.NFun) {
				n++
			}
		}
		if n >= 2 {
			c.Class("designator/two-packages-collapse-into-one-builtin-frame")
		}
	}
	for i := 0; i < l.NFun; i++ {
		P, j := l.pkgOf(i), (i+1)%l.NFun
		_, bare := l.name(P, j, l.refOf(i))
		style := "qualified"
		switch {
		case l.refOf(i) == refHop:
			style = "own-helper"
		case bare && l.pkgOf(j) != P:
			style = "bare-imported"
		case bare:
			style = "bare-own"
		}
		c.Class("ref/" + style)
		if l.Calls[i] == "funcall-sym" || l.Calls[i] == "apply2" {
			c.Class("designator/" + style)
			// the shape of 0b8989f: the previous hop went through funcall/apply
			// from another package, so a collapsed run of this funcall/apply
			// happens in a frame that was entered in a different package
			prev := (i + l.NFun - 1) % l.NFun
			switch l.Calls[prev] {
			case "funcall", "funcall-sym", "apply", "apply2":
				if l.pkgOf(prev) != P && style != "qualified" {
					c.Class("designator/unqualified-below-foreign-funcall")
				}
			}
		}
	}
}

func depthOf(l Loop) int {
	d := 0
	for _, w := range l.Wraps {
		if len(w)-1 > d {
			d = len(w) - 1
		}
	}
	return d
}

func checkLoop(l Loop, c *vcommon.Ctx) *vcommon.Failure {
	if l.NFun < 1 || len(l.Wraps) < l.NFun || len(l.Calls) < l.NFun || len(l.ArgWork) < l.NFun || l.K < 1 || l.Mult < 2 {
		return nil
	}
	n1, n2 := l.K, l.K*l.Mult
	if l.TopVia != "" && l.TopVia != "direct" {
		// Constant stack means a bound that does not depend on n; the two
		// sizes compared must both be past the warm-up in which every
		// function and every funcall/apply frame a later call collapses into
		// is entered for the first time.  With a funcall/apply frame below
		// the whole family that takes up to two rounds of the cycle
		// (measured: the maximum is reached at n = NFun+2 and then stays).
		n1 += 2 * l.NFun
	}
	s1, s2 := l.source(n1), l.source(n2)
	c.Class("calls/" + strings.Join(l.Calls[:l.NFun], ","))
	for _, ws := range l.Wraps[:l.NFun] {
		for _, w := range ws {
			c.Class("wrap/" + w)
		}
	}
	if l.Blocked != "" {
		c.Class("blocked/" + l.Blocked)
	}
	l.classes(c)
	if depthOf(l) >= 1 && n1 >= 4 {
		c.NonTrivial(s2)
		c.Note(s2)
	}
	// (a) transparency at both sizes
	f, r1 := transparent(s1, c)
	if f != nil {
		return f
	}
	f, r2 := transparent(s2, c)
	if f != nil {
		return f
	}
	for _, r := range []struct {
		r run
		n int
	}{{r1, n1}, {r2, n2}} {
		if r.r.out.IsErr {
			return vcommon.Failf("loop/error", "loop of %d iterations failed: %s (%s)\n%s", r.n, r.r.out.Cond, r.r.out.Msg, l.source(r.n))
		}
		if want := fmt.Sprint(r.n); r.r.out.Canon != want {
			return vcommon.Failf("loop/value", "loop of %d iterations returned %s, want %s\n%s", r.n, r.r.out.Canon, want, l.source(r.n))
		}
	}
	// (a') the LOGICAL height a collapsed loop reports (the frames it elided
	// included) never exceeds the height the same program really reaches
	// without elimination: under the smallest logical limit that the
	// un-eliminated run fits, the eliminated run gives the same result
	if l.Blocked == "" && l.K%3 == 0 {
		fits := func(kind string, limit int) (bool, vcommon.Outcome) {
			cl := cfg(kind)
			cl.MaxLogical = limit
			rt := vcommon.NewRuntime(cl)
			o := rt.Load(s1)
			return outcome(o) == outcome(r1.out), o
		}
		lo, hi := 1, 20000 // invariant: the debugger run fails at lo-1 (or lo == 1), fits at hi
		if ok, _ := fits("debugger", hi); ok {
			for lo < hi {
				mid := (lo + hi) / 2
				if ok, _ := fits("debugger", mid); ok {
					hi = mid
				} else {
					lo = mid + 1
				}
			}
			if ok, o := fits("default", hi); !ok {
				return vcommon.Failf("logical-height/over-counted", "without elimination the program fits a logical stack limit of %d, yet with elimination under the same limit it ends with %s (%s) instead of %s\n%s", hi, outcome(o), o.Msg, outcome(r1.out), s1)
			}
			c.Class("logical-limit-at-real-height")
		}
	}
	switch l.Blocked {
	case "":
		// (b) constant stack: the maximum observed frame count does not grow
		if r2.maxH != r1.maxH {
			return vcommon.Failf("stack/grows", "tail loop stack height grows with the iteration count: max %d frames at n=%d, %d at n=%d\n%s", r1.maxH, n1, r2.maxH, n2, s2)
		}
		// an attached profiler is the third configuration: elimination stays on
		if p1, p2 := r1.prof, r2.prof; p1 != nil && p2 != nil && !limitHit(p1.out) && !limitHit(p2.out) && p2.maxH != p1.maxH {
			return vcommon.Failf("stack/grows-with-profiler", "with a profiler attached the tail loop's stack height grows with the iteration count: max %d frames at n=%d, %d at n=%d\n%s", p1.maxH, n1, p2.maxH, n2, s2)
		}
	case "handler-bind", "ignore-errors", "load-string", "macro-expansion", "handler-retry":
		// (c) never collapsed: at least one frame per extra turn of the cycle
		turns := (n2 - n1) / l.NFun
		if r2.maxH-r1.maxH < turns {
			return vcommon.Failf("blocked/collapsed", "frames below a %s were collapsed: max height %d at n=%d and %d at n=%d (expected growth of at least %d)\n%s",
				l.Blocked, r1.maxH, n1, r2.maxH, n2, turns, s2)
		}
	}
	return nil
}

// ---------- handler semantics through recursion (never collapsed) ----------

type HLoop struct {
	N     int    `json:"n"`
	Call  string `json:"call"`
	Inner string `json:"inner"` // extra eliminating wrapper between handler-bind and the call
}

func genHLoop() *rapid.Generator[HLoop] {
	return rapid.Custom(func(t *rapid.T) HLoop {
		return HLoop{N: rapid.IntRange(1, 200).Draw(t, "n"),
			Call:  rapid.SampledFrom([]string{"direct", "funcall", "apply"}).Draw(t, "call"),
			Inner: rapid.SampledFrom([]string{"", "progn", "let", "if-then", "or", "cond"}).Draw(t, "inner")}
	})
}

func checkHLoop(h HLoop, c *vcommon.Ctx) *vcommon.Failure {
	call := "(f (- n 1))"
	switch h.Call {
	case "funcall":
		call = "(funcall f (- n 1))"
	case "apply":
		call = "(apply f (list (- n 1)))"
	}
	if h.Inner != "" {
		call = wrap(h.Inner, call)
	}
	// every level intercepts the error raised at the bottom and re-raises it
	// with its payload incremented: the host sees the depth only if no
	// handler frame was collapsed and the innermost binding wins each time
	src := fmt.Sprintf(`(defun f (n) (if (<= n 0) (error 'bottom 0) (handler-bind ((other (lambda (c &rest d) 'wrong)) (bottom (lambda (c v) (error 'bottom (+ v 1))))) %s)))
(handler-bind ((bottom (lambda (c v) v))) (f %d))
`, call, h.N)
	c.Class("call/" + h.Call)
	if h.N >= 10 {
		c.NonTrivial(src)
	}
	f, def := transparent(src, c)
	if f != nil {
		return f
	}
	if def.out.IsErr || def.out.Canon != fmt.Sprint(h.N) {
		return vcommon.Failf("blocked/handler-lost", "a handler-bind on the recursion path was lost: got %s (%s) want %d\n%s", outcome(def.out), def.out.Msg, h.N, src)
	}
	return nil
}

// ---------- trampolines: the only frame that repeats is funcall / apply itself ----------

type Tramp struct {
	K     int    `json:"k"`
	Mult  int    `json:"mult"`
	Via   string `json:"via"`   // funcall | apply | mixed
	Inner string `json:"inner"` // eliminating wrapper around the tail call
	Keep  bool   `json:"keep"`  // closures also escape into a list and are called afterwards
	Pk    int    `json:"pk"`    // 0: everything in user; 1: the maker lives in package pa; 2: two makers in pa and pb alternate
}

func genTramp() *rapid.Generator[Tramp] {
	return rapid.Custom(func(t *rapid.T) Tramp {
		return Tramp{K: rapid.IntRange(4, 25).Draw(t, "k"), Mult: 10,
			Via:   rapid.SampledFrom([]string{"funcall", "apply", "mixed"}).Draw(t, "via"),
			Inner: rapid.SampledFrom([]string{"", "", "progn", "let", "if-then", "cond", "or"}).Draw(t, "inner"),
			Keep:  rapid.IntRange(0, 2).Draw(t, "keep") == 0,
			Pk:    rapid.IntRange(0, 2).Draw(t, "pk")}
	})
}

func (tr Tramp) source(n int) string {
	call := func(mk string) string {
		c := "(funcall (" + mk + " (- n 1) (+ acc 1)))"
		switch tr.Via {
		case "apply":
			c = "(apply (" + mk + " (- n 1) (+ acc 1)) ())"
		case "mixed":
			c = "(if (= (mod n 2) 0) (funcall (" + mk + " (- n 1) (+ acc 1))) (apply (" + mk + " (- n 1) (+ acc 1)) ()))"
		}
		if tr.Inner != "" {
			c = wrap(tr.Inner, c)
		}
		return c
	}
	if tr.Pk <= 0 || tr.Pk > 2 {
		keep := ""
		if tr.Keep {
			keep = "(set 'kept (cons (lambda () n) kept)) "
		}
		return fmt.Sprintf("(set 'kept ())\n(defun mk (n acc) (lambda () (probe 'h n) %s(if (<= n 0) acc %s)))\n(list (funcall (mk %d 0)) (map 'list (lambda (f) (funcall f)) kept))\n", keep, call("mk"), n)
	}
	// the makers live in library packages: a closure belongs to the package
	// that was current when it was made.  Pk == 1: one maker in pa, driven
	// from user.  Pk == 2: makers in pa and pb hand over to each other, so
	// every turn of the loop enters a closure of the other package.
	var b strings.Builder
	keep := ""
	if tr.Keep {
		keep = "(user:keep! (lambda () n)) "
	}
	b.WriteString("(set 'kept ())\n(defun keep! (f) (set 'kept (cons f kept)))\n")
	b.WriteString("(in-package 'pa)\n(use-package 'lisp)\n(set 'probe user:probe)\n")
	other := "mk"
	if tr.Pk == 2 {
		other = "pb:mk2"
		b.WriteString("(in-package 'pb)\n(use-package 'lisp)\n(set 'probe user:probe)\n")
		fmt.Fprintf(&b, "(defun mk2 (n acc) (lambda () (probe 'h n) %s(if (<= n 0) acc %s)))\n(in-package 'pa)\n", keep, call("pa:mk"))
	}
	fmt.Fprintf(&b, "(defun mk (n acc) (lambda () (probe 'h n) %s(if (<= n 0) acc %s)))\n", keep, call(other))
	fmt.Fprintf(&b, "(in-package 'user)\n(list (funcall (pa:mk %d 0)) (map 'list (lambda (f) (funcall f)) kept))\n", n)
	return b.String()
}

func checkTramp(tr Tramp, c *vcommon.Ctx) *vcommon.Failure {
	if tr.K < 1 || tr.Mult < 2 {
		return nil
	}
	n1, n2 := tr.K, tr.K*tr.Mult
	s1, s2 := tr.source(n1), tr.source(n2)
	c.Class("via/" + tr.Via)
	c.Class(fmt.Sprintf("maker-packages/%d", tr.Pk))
	c.NonTrivial(s2)
	c.Note(s2)
	f, r1 := transparent(s1, c)
	if f != nil {
		return f
	}
	f, r2 := transparent(s2, c)
	if f != nil {
		return f
	}
	if r1.out.IsErr || r2.out.IsErr {
		return vcommon.Failf("loop/error", "trampoline failed: %s / %s\n%s", outcome(r1.out), outcome(r2.out), s2)
	}
	if !strings.HasPrefix(r2.out.Canon, fmt.Sprintf("'(%d ", n2)) {
		return vcommon.Failf("loop/value", "trampoline of %d turns returned %s\n%s", n2, r2.out.Canon, s2)
	}
	if r2.maxH != r1.maxH {
		return vcommon.Failf("stack/grows", "a tail loop through %s with a fresh closure per turn grows the stack: max %d frames at n=%d, %d at n=%d\n%s", tr.Via, r1.maxH, n1, r2.maxH, n2, s2)
	}
	return nil
}

// ---------- the tail-iteration backstop is per loop, not per runtime ----------

// checkRepeated runs the same short loop many times in one runtime under a
// tail-iteration limit that one run of the loop fits with little room: the
// runs must not add up.
func checkRepeated(l Loop, c *vcommon.Ctx) *vcommon.Failure {
	if l.NFun < 1 || len(l.Wraps) < l.NFun || len(l.Calls) < l.NFun || len(l.ArgWork) < l.NFun || l.K < 1 || l.Blocked != "" {
		return nil
	}
	l.Dig = 0
	n := l.K
	body := l.source(n)
	idx := strings.LastIndex(strings.TrimRight(body, "\n"), "\n")
	defs := body[:idx+1]
	reps := 12
	top := 0
	if l.Top > 0 && l.Top <= l.PK {
		top = l.Top
	}
	f0, _ := l.name(top, 0, refMinimal)
	l.classes(c)
	src := defs + fmt.Sprintf("(let ((acc2 0)) (dotimes (r %d) (set! acc2 (+ acc2 (%s %d 0)))) (list acc2 (%s %d 0)))\n", reps, f0, n, f0, n)
	// the limit one run needs: measured, then given a little room
	need := 0
	for lim := 1; lim <= 4*n+8; lim++ {
		cl := cfg("default")
		cl.MaxTailIter = lim
		rt := vcommon.NewRuntime(cl)
		if o := rt.Load(body); !o.IsErr {
			need = lim
			break
		}
	}
	if need == 0 {
		c.Class("skip/single-run-does-not-fit")
		return nil
	}
	c.NonTrivial(src)
	cl := cfg("default")
	cl.MaxTailIter = need + 2
	rt := vcommon.NewRuntime(cl)
	o := rt.Load(src)
	want := fmt.Sprintf("'(%d %d)", reps*n, n)
	if o.IsErr || o.Canon != want {
		return vcommon.Failf("tail-iterations/accumulate-across-loops", "one run of the loop fits a tail-iteration limit of %d; %d runs in one runtime under a limit of %d end with %s (%s), want %s\n%s", need, reps+1, need+2, outcome(o), o.Msg, want, src)
	}
	return nil
}

func TestCheck(t *testing.T) {
	vcommon.Main(t, "C02",
		vcommon.S("programs", 40000, 600000, gen.GenProgram(4, 60, 6), checkProgram),
		vcommon.S("loops", 10000, 200000, genLoop(false), checkLoop),
		vcommon.S("blocked", 4000, 60000, genLoop(true), checkLoop),
		vcommon.S("trampoline", 3000, 45000, genTramp(), checkTramp),
		vcommon.S("handler-depth", 2000, 30000, genHLoop(), checkHLoop),
		vcommon.S("repeated-loops", 2000, 30000, genLoop(false), checkRepeated),
	)
}
