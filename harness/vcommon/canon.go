package vcommon

import (
	"fmt"
	"math"
	"strconv"
	"strings"

	"github.com/luthersystems/elps/lisp"
)

// Canon renders a value as a canonical string using exported accessors only
// (Type/Str/Int/Float/Cells/IsQuoted/Map entries), independent of
// LVal.String().  Functions render as #fn, natives as #native, errors as
// #err<cond>.  Cycles are cut with #cycle.
func Canon(v *lisp.LVal) string {
	var b strings.Builder
	canon(&b, v, map[*lisp.LVal]bool{}, 0)
	return b.String()
}

// CanonLimit bounds the canonical rendering (same constant in refint.Canon).
const CanonLimit = 200000

func FloatCanon(f float64) string {
	if math.IsNaN(f) {
		return "NaN"
	}
	if math.IsInf(f, 1) {
		return "+Inf"
	}
	if math.IsInf(f, -1) {
		return "-Inf"
	}
	if f == 0 && math.Signbit(f) {
		return "-0.0f"
	}
	return strconv.FormatFloat(f, 'g', -1, 64) + "f"
}

func canon(b *strings.Builder, v *lisp.LVal, seen map[*lisp.LVal]bool, depth int) {
	if v == nil {
		b.WriteString("#nil")
		return
	}
	if depth > 200 {
		b.WriteString("#deep")
		return
	}
	if b.Len() > CanonLimit {
		b.WriteString("#trunc")
		return
	}
	switch v.Type {
	case lisp.LInt:
		b.WriteString(strconv.Itoa(v.Int))
	case lisp.LFloat:
		b.WriteString(FloatCanon(v.Float))
	case lisp.LString:
		b.WriteString(strconv.Quote(v.Str))
	case lisp.LSymbol, lisp.LQSymbol:
		if v.IsQuoted() {
			b.WriteString("'")
		}
		b.WriteString(v.Str)
	case lisp.LSExpr:
		if seen[v] {
			b.WriteString("#cycle")
			return
		}
		if len(v.Cells) > 0 {
			seen[v] = true
			defer delete(seen, v)
		}
		if v.IsQuoted() {
			b.WriteString("'")
		}
		b.WriteString("(")
		for i, c := range v.Cells {
			if i > 0 {
				b.WriteString(" ")
			}
			canon(b, c, seen, depth+1)
		}
		b.WriteString(")")
	case lisp.LQuote:
		b.WriteString("'")
		if len(v.Cells) > 0 {
			canon(b, v.Cells[0], seen, depth+1)
		}
	case lisp.LArray:
		if seen[v] {
			b.WriteString("#cycle")
			return
		}
		seen[v] = true
		defer delete(seen, v)
		if len(v.Cells) == 2 && v.Cells[0] != nil && v.Cells[0].Len() == 1 {
			b.WriteString("#vec[")
			for i, c := range v.Cells[1].Cells {
				if i > 0 {
					b.WriteString(" ")
				}
				canon(b, c, seen, depth+1)
			}
			b.WriteString("]")
		} else {
			b.WriteString("#array<")
			if len(v.Cells) > 0 {
				canon(b, v.Cells[0], seen, depth+1)
			}
			b.WriteString(">[")
			if len(v.Cells) > 1 && v.Cells[1] != nil {
				for i, c := range v.Cells[1].Cells {
					if i > 0 {
						b.WriteString(" ")
					}
					canon(b, c, seen, depth+1)
				}
			}
			b.WriteString("]")
		}
	case lisp.LSortMap:
		if seen[v] {
			b.WriteString("#cycle")
			return
		}
		seen[v] = true
		defer delete(seen, v)
		b.WriteString("#map{")
		ents := v.MapEntries()
		if ents.Type == lisp.LError {
			b.WriteString("#badmap")
		} else {
			for i, p := range ents.Cells {
				if i > 0 {
					b.WriteString(" ")
				}
				// key identity is the name; spelling is presentation only
				b.WriteString(strconv.Quote(p.Cells[0].Str))
				b.WriteString(":")
				canon(b, p.Cells[1], seen, depth+1)
			}
		}
		b.WriteString("}")
	case lisp.LBytes:
		b.WriteString(fmt.Sprintf("#bytes%v", v.Bytes()))
	case lisp.LFun:
		b.WriteString("#fn")
	case lisp.LError:
		b.WriteString("#err<" + v.Str + ">")
	case lisp.LNative:
		b.WriteString(fmt.Sprintf("#native<%T>", v.Native))
	case lisp.LTaggedVal:
		b.WriteString("#tagged<" + v.Str + " ")
		if len(v.Cells) > 0 {
			canon(b, v.Cells[0], seen, depth+1)
		}
		b.WriteString(">")
	default:
		b.WriteString("#type" + strconv.Itoa(int(v.Type)))
	}
}

// CanonKeyed is Canon but also distinguishes map key spelling (string vs
// symbol), for checks about presentation.
func MapKeySpelling(v *lisp.LVal) []string {
	ents := v.MapEntries()
	var out []string
	for _, p := range ents.Cells {
		k := p.Cells[0]
		if k.Type == lisp.LString {
			out = append(out, "s:"+k.Str)
		} else {
			out = append(out, "y:"+k.Str)
		}
	}
	return out
}
